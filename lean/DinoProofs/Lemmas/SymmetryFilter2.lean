import DinoProofs.Lemmas.SymmetryFilter

/-!
# Lemmas for C10, part 9: spectral filters in leapfrog runs and on shallow-water states

`SymmetryFilter.lean` discharges the filter hypothesis `HistRel` of the one-state trajectory theorems for the
primitive-equation state.  Here:

* the two filter relations (`HistRel` for one-state histories, `lfRel` for leapfrog runs) are discharged once
  and for all for ANY family of state maps `mk φ` each of which commutes with the action `ρ`
  (`histRel_self`, `lfRel_self`): a history / filter list whose filters commute with `ρ` is related to itself;
* the tree filters of `filtering.py` on a `shallow_water.State` (`swLeafFilter φ`: one linear multiplier on every
  modal leaf; there is no clock in that state) commute with the lifted symmetry as soon as `φ` commutes with `ρM`
  (`swLeafFilter_swState`, `swLeafFilter_conjugated`), hence `histRel_swLeafFilters`, `lfRel_swLeafFilters`;
* `lfSpectral` / `swLfSpectral` name the filter lists of a leapfrog run (`Sum.inl φ`: `leapfrog_step_filter` of a
  spectral filter, `Sum.inr r`: `robert_asselin_leapfrog_filter(r)`).
-/
namespace Dino.Symmetry
open Dino Dino.Dynamics Dino.Imex Dino.Invariants

set_option linter.unusedSectionVars false

/-! ## any family of filters commuting with the action -/
section generic
variable {K V F : Type} [Field K] [Add V] [Zero V] [SMul K V]

/-- the filters of a leapfrog run built from a family `mk` of state maps: `inl φ` is
 `leapfrog_step_filter(mk φ)`, `inr r` is `robert_asselin_leapfrog_filter(r)` -/
def lfOf (mk : F → V → V) : Sum F K → LfFilter K V
  | .inl φ => .state (mk φ)
  | .inr r => .ra r

/-- the one-state history built from a family `mk` of state maps -/
def histOf (mk : F → V → V) (hist : List (Scheme K × K × List F)) : List (Entry K V) :=
  hist.map fun en => ⟨en.1, en.2.1, en.2.2.map mk⟩

theorem filters_self (ρ : V → V) (mk : F → V → V) (fs : List F)
    (h : ∀ φ ∈ fs, ∀ u, mk φ (ρ u) = ρ (mk φ u)) :
    List.Forall₂ (fun f' f : V → V => ∀ u, f' (ρ u) = ρ (f u)) (fs.map mk) (fs.map mk) := by
  induction fs with
  | nil => exact List.Forall₂.nil
  | cons φ fs ih =>
    exact List.Forall₂.cons (h φ List.mem_cons_self) (ih fun ψ hψ => h ψ (List.mem_cons_of_mem _ hψ))

/-- a history all of whose filters commute with `ρ` is `HistRel`-related to itself -/
theorem histRel_self (ρ : V → V) (mk : F → V → V) (hist : List (Scheme K × K × List F))
    (h : ∀ en ∈ hist, ∀ φ ∈ en.2.2, ∀ u, mk φ (ρ u) = ρ (mk φ u)) :
    HistRel ρ (histOf mk hist) (histOf mk hist) := by
  unfold HistRel histOf
  induction hist with
  | nil => exact List.Forall₂.nil
  | cons en rest ih =>
    exact List.Forall₂.cons ⟨rfl, rfl, filters_self ρ mk en.2.2 (h en List.mem_cons_self)⟩
      (ih fun e he => h e (List.mem_cons_of_mem _ he))

/-- leapfrog filters whose state filters commute with `ρ` (any Robert–Asselin strengths) are `lfRel`-related
 to themselves -/
theorem lfRel_self (ρ : V → V) (mk : F → V → V) (fs : List (Sum F K))
    (h : ∀ f ∈ fs, ∀ φ, f = Sum.inl φ → ∀ u, mk φ (ρ u) = ρ (mk φ u)) :
    List.Forall₂ (lfRel ρ) (fs.map (lfOf mk)) (fs.map (lfOf mk)) := by
  induction fs with
  | nil => exact List.Forall₂.nil
  | cons f fs ih =>
    refine List.Forall₂.cons ?_ (ih fun g hg => h g (List.mem_cons_of_mem _ hg))
    cases f with
    | inl φ => exact fun u => h _ List.mem_cons_self φ rfl u
    | inr r => exact rfl

end generic

/-! ## primitive-equation states: the leapfrog filter list by name -/
section pe
variable {K M N : Type} [Field K] [AddCommGroup M] [Module K M] [CommRing N] [Algebra K N]

/-- the filters of a leapfrog run of a primitive-equation class: spectral state filters and
 Robert–Asselin filters -/
def lfSpectral : Sum (M →ₗ[K] M) K → LfFilter K (TM (StateWithTime K M)) :=
  lfOf fun φ => tmMap (leafFilter φ)

/-- `lfRel_leafFilters` with the filter list named (`lfSpectral` is the `match` of that lemma) -/
theorem lfRel_lfSpectral (S : Sym K M N) (fs : List (Sum (M →ₗ[K] M) K))
    (hφ : ∀ f ∈ fs, ∀ φ, f = Sum.inl φ → ∀ x, φ (S.ρM x) = S.ρM (φ x)) :
    List.Forall₂ (lfRel (tmState S)) (fs.map lfSpectral) (fs.map lfSpectral) := by
  have e : (lfSpectral : Sum (M →ₗ[K] M) K → LfFilter K (TM (StateWithTime K M)))
      = fun f => match f with
        | .inl φ => LfFilter.state (tmMap (leafFilter φ))
        | .inr r => LfFilter.ra r := by
    funext f; cases f <;> rfl
  rw [e]
  exact lfRel_leafFilters S fs hφ

end pe

/-! ## shallow-water states -/
section sw
variable {K M N : Type} [Field K] [AddCommGroup M] [Module K M] [CommRing N] [Algebra K N]

/-- a tree filter of `filtering.py` on a `shallow_water.State`: the same linear multiplier on every modal
 leaf (vorticity, divergence, potential of every layer) -/
def swLeafFilter (φ : M →ₗ[K] M) (s : DynamicsSW.State M) : DynamicsSW.State M :=
  { vorticity := s.vorticity.map φ
    divergence := s.divergence.map φ
    potential := s.potential.map φ }

variable (S : Sym K M N)

/-- a leaf-wise linear filter whose multiplier commutes with `ρM` commutes with the lift of the symmetry to
 shallow-water states (vorticity carries the sign `ε`: linearity of `φ` takes it through) -/
theorem swLeafFilter_swState (φ : M →ₗ[K] M) (hφ : ∀ x, φ (S.ρM x) = S.ρM (φ x))
    (s : DynamicsSW.State M) :
    swLeafFilter φ (S.swState s) = S.swState (swLeafFilter φ s) := by
  have hO : ∀ x, φ (S.mO x) = S.mO (φ x) := fun x => by
    simp only [Sym.mO_apply, map_smul, hφ]
  have hE : ∀ x, φ (S.mE x) = S.mE (φ x) := fun x => by simp only [Sym.mE_apply, hφ]
  simp only [swLeafFilter, Sym.swState, List.map_map]
  refine DynamicsSW.State.mk.injEq .. |>.mpr ⟨?_, ?_, ?_⟩
  · exact List.map_congr_left fun x _ => hO x
  · exact List.map_congr_left fun x _ => hE x
  · exact List.map_congr_left fun x _ => hE x

/-- … hence on `tree_math` vectors: the filter is conjugated to itself -/
theorem swLeafFilter_conjugated (φ : M →ₗ[K] M) (hφ : ∀ x, φ (S.ρM x) = S.ρM (φ x))
    (u : TM (DynamicsSW.State M)) :
    tmMap (swLeafFilter φ) (tmMap S.swState u) = tmMap S.swState (tmMap (swLeafFilter φ) u) := by
  cases u with
  | zero => rfl
  | err => rfl
  | val s => simp only [tmMap_val, swLeafFilter_swState S φ hφ s]

/-- the filters of a leapfrog run of the shallow-water class -/
def swLfSpectral : Sum (M →ₗ[K] M) K → LfFilter K (TM (DynamicsSW.State M)) :=
  lfOf fun φ => tmMap (swLeafFilter φ)

/-- a shallow-water history whose filters are leaf-wise multipliers commuting with `ρM` is `HistRel`-related
 to itself -/
theorem histRel_swLeafFilters (hist : List (Scheme K × K × List (M →ₗ[K] M)))
    (hφ : ∀ en ∈ hist, ∀ φ ∈ en.2.2, ∀ x, φ (S.ρM x) = S.ρM (φ x)) :
    HistRel (tmMap S.swState) (histOf (fun φ => tmMap (swLeafFilter φ)) hist)
      (histOf (fun φ => tmMap (swLeafFilter φ)) hist) :=
  histRel_self _ _ hist fun en he φ hm u => swLeafFilter_conjugated S φ (hφ en he φ hm) u

/-- the same for the state filters of a shallow-water leapfrog run and any Robert–Asselin strengths -/
theorem lfRel_swLeafFilters (fs : List (Sum (M →ₗ[K] M) K))
    (hφ : ∀ f ∈ fs, ∀ φ, f = Sum.inl φ → ∀ x, φ (S.ρM x) = S.ρM (φ x)) :
    List.Forall₂ (lfRel (tmMap S.swState)) (fs.map swLfSpectral) (fs.map swLfSpectral) :=
  lfRel_self _ _ fs fun f hf φ e u => swLeafFilter_conjugated S φ (hφ f hf φ e) u

end sw
end Dino.Symmetry
