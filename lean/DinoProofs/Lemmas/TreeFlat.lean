import DinoProofs.Lemmas.TreeDict

/-!
# Lemmas for the tree model, part 3: the terminal paths of a dictionary and `flatten_dict`
-/
set_option linter.unusedSectionVars false

namespace Dino.Tree

section Terms
variable {α : Type} [DecidableEq α] {β : Type}

mutual
/-- terminal paths below a value (relative), in tree order: leaves `some b`, empty dictionaries `none` -/
def Val.terms : Val α β → List (List (List α) × Option β)
  | .leaf b => [([], some b)]
  | .dict d => if d.isNil then [([], none)] else d.terms
def Dict.terms : Dict α β → List (List (List α) × Option β)
  | .nil => []
  | .cons k v r => (v.terms.map fun pt => (k :: pt.1, pt.2)) ++ r.terms
end

theorem Dict.terms_head : ∀ (d : Dict α β) (p : List (List α)) (t : Option β),
    (p, t) ∈ d.terms → ∃ k ∈ d.keys, ∃ q, p = k :: q
  | .nil, p, t, h => by simp [Dict.terms] at h
  | .cons k v r, p, t, h => by
    simp only [Dict.terms, List.mem_append, List.mem_map] at h
    rcases h with ⟨pt, _, hpt⟩ | h
    · exact ⟨k, by simp [Dict.keys], pt.1, by simpa using (congrArg Prod.fst hpt).symm⟩
    · obtain ⟨k', hk', q, hq⟩ := Dict.terms_head r p t h
      exact ⟨k', by simp [Dict.keys, hk'], q, hq⟩

theorem Dict.terms_ne_nil (d : Dict α β) (p : List (List α)) (t : Option β) (h : (p, t) ∈ d.terms) :
    p ≠ [] := by
  obtain ⟨k, _, q, hq⟩ := d.terms_head p t h
  simp [hq]

mutual
theorem Val.mem_terms : ∀ (v : Val α β), v.NoDup → ∀ p t, (p, t) ∈ v.terms ↔ lookV v p = some t
  | .leaf b, _, p, t => by
    cases p with
    | nil => simp [Val.terms, lookV, Val.term, eq_comm]
    | cons k ks => simp [Val.terms, lookV]
  | .dict d, h, p, t => by
    by_cases hd : d.isNil = true
    · have := (isNil_iff d).1 hd
      subst this
      cases p with
      | nil => simp [Val.terms, lookV, Val.term, Dict.isNil, eq_comm]
      | cons k ks => simp [Val.terms, lookV, Dict.isNil]
    · have ih := Dict.mem_terms d (by simpa [Val.NoDup] using h) p t
      simp only [Val.terms, hd, if_false, Bool.false_eq_true]
      rw [ih]
      cases p with
      | nil => simp [lookV, Val.term, hd]
      | cons k ks => simp [lookV]
theorem Dict.mem_terms : ∀ (d : Dict α β), d.NoDup → ∀ p t, (p, t) ∈ d.terms ↔ look d p = some t
  | .nil, _, p, t => by simp [Dict.terms]
  | .cons k v r, h, p, t => by
    simp only [Dict.NoDup] at h
    have ihv := Val.mem_terms v h.2.1
    have ihr := Dict.mem_terms r h.2.2
    simp only [Dict.terms, List.mem_append, List.mem_map]
    cases p with
    | nil =>
      simp only [look_nil_path, reduceCtorEq, iff_false, not_or]
      refine ⟨?_, fun hm => Dict.terms_ne_nil r [] t hm rfl⟩
      rintro ⟨pt, _, hpt⟩
      simp at hpt
    | cons k2 ks =>
      rw [look_cons, lookup_cons]
      by_cases hk : k = k2
      · subst hk
        simp only [if_true, Option.bind_some]
        constructor
        · rintro (⟨pt, hpt, he⟩ | hm)
          · simp only [Prod.mk.injEq, List.cons.injEq, true_and] at he
            rw [← ihv]
            rcases pt with ⟨a, b⟩
            simp only at he
            rw [← he.1, ← he.2]; exact hpt
          · have := (ihr _ _).1 hm
            rw [look_cons] at this
            have hnone := (lookup_eq_none_iff r k).2 h.1
            rw [hnone] at this; simp at this
        · intro hl
          exact Or.inl ⟨(ks, t), (ihv ks t).2 hl, rfl⟩
      · simp only [hk, if_false]
        rw [← look_cons, ← ihr]
        constructor
        · rintro (⟨pt, _, he⟩ | hm)
          · simp only [Prod.mk.injEq, List.cons.injEq] at he
            exact absurd he.1.1 hk
          · exact hm
        · exact Or.inr
end

mutual
theorem Val.terms_prefixFree : ∀ (v : Val α β), v.NoDup → (v.terms.map Prod.fst).Pairwise Incomp
  | .leaf b, _ => by simp [Val.terms]
  | .dict d, h => by
    by_cases hd : d.isNil = true
    · simp [Val.terms, hd]
    · simp only [Val.terms, hd, if_false, Bool.false_eq_true]
      exact Dict.terms_prefixFree d (by simpa [Val.NoDup] using h)
theorem Dict.terms_prefixFree : ∀ (d : Dict α β), d.NoDup → (d.terms.map Prod.fst).Pairwise Incomp
  | .nil, _ => by simp [Dict.terms]
  | .cons k v r, h => by
    simp only [Dict.NoDup] at h
    simp only [Dict.terms, List.map_append, List.map_map, List.pairwise_append]
    refine ⟨?_, Dict.terms_prefixFree r h.2.2, ?_⟩
    · have := Val.terms_prefixFree v h.2.1
      rw [List.pairwise_map] at this ⊢
      exact this.imp (fun hab => (incomp_cons_cons k _ _).2 hab)
    · intro a ha b hb
      simp only [List.mem_map, Function.comp] at ha hb
      obtain ⟨pt, _, rfl⟩ := ha
      obtain ⟨pt2, hpt2, rfl⟩ := hb
      obtain ⟨k', hk', q, hq⟩ := Dict.terms_head r pt2.1 pt2.2 hpt2
      rw [hq]
      exact incomp_cons_of_ne (fun e : k = k' => h.1 (e ▸ hk')) _ _
end

mutual
theorem Val.terms_sepFree (sep : α) : ∀ (v : Val α β), v.SepFree sep →
    ∀ pt ∈ v.terms, ∀ k ∈ pt.1, sep ∉ k
  | .leaf b, _ => by simp [Val.terms]
  | .dict d, h => by
    by_cases hd : d.isNil = true
    · simp [Val.terms, hd]
    · simp only [Val.terms, hd, if_false, Bool.false_eq_true]
      exact Dict.terms_sepFree sep d (by simpa [Val.SepFree] using h)
theorem Dict.terms_sepFree (sep : α) : ∀ (d : Dict α β), d.SepFree sep →
    ∀ pt ∈ d.terms, ∀ k ∈ pt.1, sep ∉ k
  | .nil, _ => by simp [Dict.terms]
  | .cons k v r, h => by
    simp only [Dict.SepFree] at h
    intro pt hpt
    simp only [Dict.terms, List.mem_append, List.mem_map] at hpt
    rcases hpt with ⟨pt', hpt', rfl⟩ | hpt
    · intro k' hk'
      simp only [List.mem_cons] at hk'
      rcases hk' with rfl | hk'
      · exact h.1
      · exact Val.terms_sepFree sep v h.2.1 pt' hpt' k' hk'
    · exact Dict.terms_sepFree sep r h.2.2 pt hpt
end

theorem Val.terms_ne_nil : ∀ (v : Val α β), v.terms ≠ []
  | .leaf b => by simp [Val.terms]
  | .dict .nil => by simp [Val.terms, Dict.isNil]
  | .dict (.cons k v r) => by
    simp only [Val.terms, Dict.isNil, Bool.false_eq_true, if_false, Dict.terms]
    have := Val.terms_ne_nil v
    simp [this]

/-! ### `flatten_dict` on a genuine separator-free dictionary -/

/-- the flat key of a path -/
def mkKey (sep : α) (pre : Option (List α)) (p : List (List α)) : List α := newKey sep pre (joinSep sep p)

/-- the `(key, leaf)` items of a list of terminal paths -/
def leafItems (sep : α) (pre : Option (List α)) (T : List (List (List α) × Option β)) : List (List α × β) :=
  T.filterMap (fun pt => pt.2.map (fun b => (mkKey sep pre pt.1, b)))

/-- the keys of the empty dictionaries of a list of terminal paths -/
def emptyKeys (sep : α) (pre : Option (List α)) (T : List (List (List α) × Option β)) : List (List α) :=
  T.filterMap (fun pt => match pt.2 with
    | none => some (mkKey sep pre pt.1)
    | some _ => none)

theorem newKey_append (sep : α) (pre : Option (List α)) (k x : List α) :
    newKey sep pre (k ++ sep :: x) = newKey sep pre k ++ sep :: x := by
  cases pre <;> simp [newKey]

theorem newKey_inj (sep : α) (pre : Option (List α)) (a b : List α) (h : newKey sep pre a = newKey sep pre b) :
    a = b := by
  cases pre with
  | none => exact h
  | some x => simpa [newKey] using h

theorem mkKey_cons (sep : α) (pre : Option (List α)) (k : List α) (q : List (List α)) (hq : q ≠ []) :
    mkKey sep pre (k :: q) = mkKey sep (some (newKey sep pre k)) q := by
  cases q with
  | nil => exact absurd rfl hq
  | cons k' ks =>
    simp only [mkKey, joinSep]
    rw [newKey_append]
    simp [newKey]

theorem mkKey_single (sep : α) (pre : Option (List α)) (k : List α) : mkKey sep pre [k] = newKey sep pre k := by
  simp [mkKey, joinSep]

theorem mkKey_inj (sep : α) (pre : Option (List α)) (p q : List (List α)) (hp : p ≠ []) (hq : q ≠ [])
    (hps : ∀ k ∈ p, sep ∉ k) (hqs : ∀ k ∈ q, sep ∉ k) (h : mkKey sep pre p = mkKey sep pre q) : p = q :=
  joinSep_inj sep p q hp hq hps hqs (newKey_inj sep pre _ _ h)

theorem leafItems_map_cons (sep : α) (pre : Option (List α)) (k : List α)
    (T : List (List (List α) × Option β)) (hT : ∀ pt ∈ T, pt.1 ≠ []) :
    leafItems sep pre (T.map fun pt => (k :: pt.1, pt.2)) = leafItems sep (some (newKey sep pre k)) T := by
  induction T with
  | nil => rfl
  | cons a T ih =>
    have h1 := hT a (by simp)
    have h2 := ih (fun pt hpt => hT pt (by simp [hpt]))
    simp only [leafItems, List.map_cons, List.filterMap_cons] at h2 ⊢
    rw [mkKey_cons sep pre k a.1 h1, h2]

theorem emptyKeys_map_cons (sep : α) (pre : Option (List α)) (k : List α)
    (T : List (List (List α) × Option β)) (hT : ∀ pt ∈ T, pt.1 ≠ []) :
    emptyKeys sep pre (T.map fun pt => (k :: pt.1, pt.2)) = emptyKeys sep (some (newKey sep pre k)) T := by
  induction T with
  | nil => rfl
  | cons a T ih =>
    have h1 := hT a (by simp)
    have h2 := ih (fun pt hpt => hT pt (by simp [hpt]))
    simp only [emptyKeys, List.map_cons, List.filterMap_cons] at h2 ⊢
    rw [mkKey_cons sep pre k a.1 h1, h2]

theorem leafItems_append (sep : α) (pre : Option (List α)) (S T : List (List (List α) × Option β)) :
    leafItems sep pre (S ++ T) = leafItems sep pre S ++ leafItems sep pre T := by
  simp [leafItems]

theorem emptyKeys_append (sep : α) (pre : Option (List α)) (S T : List (List (List α) × Option β)) :
    emptyKeys sep pre (S ++ T) = emptyKeys sep pre S ++ emptyKeys sep pre T := by
  simp [emptyKeys]

/-- a list of terminal paths as `flatten_dict` meets them: non-empty, separator-free, distinct -/
structure GoodTerms (sep : α) (T : List (List (List α) × Option β)) : Prop where
  ne : ∀ pt ∈ T, pt.1 ≠ []
  sepFree : ∀ pt ∈ T, ∀ k ∈ pt.1, sep ∉ k
  prefixFree : (T.map Prod.fst).Pairwise Incomp

theorem GoodTerms.tail {sep : α} {a : List (List α) × Option β} {T : List (List (List α) × Option β)}
    (h : GoodTerms sep (a :: T)) : GoodTerms sep T :=
  ⟨fun pt hpt => h.ne pt (by simp [hpt]), fun pt hpt => h.sepFree pt (by simp [hpt]),
    (List.pairwise_cons.1 (show List.Pairwise Incomp (a.1 :: T.map Prod.fst) from h.prefixFree)).2⟩

theorem mem_leafItems (sep : α) (pre : Option (List α)) (T : List (List (List α) × Option β)) (x : List α) (b : β) :
    (x, b) ∈ leafItems sep pre T ↔ ∃ p, (p, some b) ∈ T ∧ x = mkKey sep pre p := by
  simp only [leafItems, List.mem_filterMap, Option.map_eq_some_iff, Prod.mk.injEq]
  constructor
  · rintro ⟨⟨p, t⟩, hpt, b', hb', hx, rfl⟩
    exact ⟨p, by simpa [← hb'] using hpt, hx.symm⟩
  · rintro ⟨p, hp, rfl⟩
    exact ⟨(p, some b), hp, b, rfl, rfl, rfl⟩

theorem mem_emptyKeys (sep : α) (pre : Option (List α)) (T : List (List (List α) × Option β)) (x : List α) :
    x ∈ emptyKeys sep pre T ↔ ∃ p, (p, none) ∈ T ∧ x = mkKey sep pre p := by
  simp only [emptyKeys, List.mem_filterMap]
  constructor
  · rintro ⟨⟨p, t⟩, hpt, hx⟩
    cases t with
    | none => exact ⟨p, hpt, by simpa using hx.symm⟩
    | some b => simp at hx
  · rintro ⟨p, hp, rfl⟩
    exact ⟨(p, none), hp, rfl⟩

/-- all flat keys (leaves first, then empties) are distinct -/
theorem GoodTerms.keys_nodup {sep : α} {T : List (List (List α) × Option β)} (h : GoodTerms sep T)
    (pre : Option (List α)) :
    ((leafItems sep pre T).map Prod.fst ++ emptyKeys sep pre T).Nodup := by
  induction T with
  | nil => simp [leafItems, emptyKeys]
  | cons a T ih =>
    have ih := ih h.tail
    have hpw := List.pairwise_cons.1 (show List.Pairwise Incomp (a.1 :: T.map Prod.fst) from h.prefixFree)
    -- the key of `a` is new
    have hnew : ∀ p t, (p, t) ∈ T → mkKey sep pre a.1 ≠ mkKey sep pre p := by
      intro p t hp he
      have := mkKey_inj sep pre a.1 p (h.ne a (by simp)) (h.ne (p, t) (by simp [hp]))
        (h.sepFree a (by simp)) (h.sepFree (p, t) (by simp [hp])) he
      exact (hpw.1 p (List.mem_map_of_mem (f := Prod.fst) hp)).ne this
    rw [List.nodup_append] at ih ⊢
    obtain ⟨ih1, ih2, ih3⟩ := ih
    rcases a with ⟨p0, t0⟩
    cases t0 with
    | some b =>
      have e1 : leafItems sep pre ((p0, some b) :: T) = (mkKey sep pre p0, b) :: leafItems sep pre T := by
        simp [leafItems]
      have e2 : emptyKeys sep pre ((p0, some b) :: T) = emptyKeys sep pre T := by simp [emptyKeys]
      rw [e1, e2]
      refine ⟨?_, ih2, ?_⟩
      · simp only [List.map_cons, List.nodup_cons]
        refine ⟨?_, ih1⟩
        simp only [List.mem_map, not_exists, not_and]
        rintro ⟨x, b'⟩ hx he
        obtain ⟨p, hp, hxp⟩ := (mem_leafItems sep pre T _ b').1 hx
        exact hnew p _ hp (Eq.trans (Eq.symm he) hxp)
      · intro x hx y hy
        simp only [List.map_cons, List.mem_cons] at hx
        rcases hx with rfl | hx
        · obtain ⟨p, hp, rfl⟩ := (mem_emptyKeys sep pre T y).1 hy
          exact hnew p _ hp
        · exact ih3 x hx y hy
    | none =>
      have e1 : leafItems sep pre ((p0, none) :: T) = leafItems sep pre T := by simp [leafItems]
      have e2 : emptyKeys sep pre ((p0, none) :: T) = mkKey sep pre p0 :: emptyKeys sep pre T := by
        simp [emptyKeys]
      rw [e1, e2]
      refine ⟨ih1, ?_, ?_⟩
      · simp only [List.nodup_cons]
        refine ⟨?_, ih2⟩
        intro hx
        obtain ⟨p, hp, he⟩ := (mem_emptyKeys sep pre T _).1 hx
        exact hnew p _ hp he
      · intro x hx y hy
        simp only [List.mem_cons] at hy
        rcases hy with rfl | hy
        · simp only [List.mem_map] at hx
          obtain ⟨⟨x', b'⟩, hx', rfl⟩ := hx
          obtain ⟨p, hp, rfl⟩ := (mem_leafItems sep pre T _ b').1 hx'
          exact fun e => hnew p _ hp e.symm
        · exact ih3 x hx y hy

theorem Dict.goodTerms (sep : α) (d : Dict α β) (hs : d.SepFree sep) (hn : d.NoDup) : GoodTerms sep d.terms :=
  ⟨fun pt hpt => d.terms_ne_nil pt.1 pt.2 hpt, d.terms_sepFree sep hs, d.terms_prefixFree hn⟩

theorem dupCheck_ok {sep : α} {T : List (List (List α) × Option β)} (h : GoodTerms sep T)
    (pre : Option (List α)) :
    dupCheck (leafItems sep pre T, emptyKeys sep pre T) = .ok (leafItems sep pre T, emptyKeys sep pre T) := by
  have := List.nodup_append.1 (h.keys_nodup pre)
  simp [dupCheck, this.1, this.2.1]

/-- `flatten_dict` on a separator-free dictionary returns exactly the flat keys of its terminal
 paths, in tree order (no error) -/
theorem flattenLoop_eq (sep : α) : ∀ (d : Dict α β) (pre : Option (List α)), d.SepFree sep → d.NoDup →
    flattenLoop sep pre d = .ok (leafItems sep pre d.terms, emptyKeys sep pre d.terms)
  | .nil, pre, _, _ => rfl
  | .cons k (.leaf b) rest, pre, hs, hn => by
    simp only [Dict.SepFree, Dict.NoDup] at hs hn
    have ih := flattenLoop_eq sep rest pre hs.2.2 hn.2.2
    simp only [flattenLoop, hs.1, if_false, ih, Dict.terms, Val.terms, List.map_cons, List.map_nil,
      leafItems_append, emptyKeys_append]
    simp [leafItems, emptyKeys, mkKey_single]
  | .cons k (.dict d') rest, pre, hs, hn => by
    simp only [Dict.SepFree, Dict.NoDup, Val.SepFree, Val.NoDup] at hs hn
    have ih := flattenLoop_eq sep rest pre hs.2.2 hn.2.2
    by_cases hd : d'.isNil = true
    · simp only [flattenLoop, hs.1, if_false, hd, if_true, ih, Dict.terms, Val.terms, List.map_cons,
        List.map_nil, leafItems_append, emptyKeys_append]
      simp [leafItems, emptyKeys, mkKey_single]
    · have ih' := flattenLoop_eq sep d' (some (newKey sep pre k)) hs.2.1 hn.2.1
      have hg := d'.goodTerms sep hs.2.1 hn.2.1
      simp only [flattenLoop, hs.1, if_false, hd, ih, ih', Except.bind, dupCheck_ok hg, Dict.terms,
        Val.terms, leafItems_append, emptyKeys_append]
      simp only [Bool.false_eq_true, if_false,
        leafItems_map_cons sep pre k d'.terms hg.ne, emptyKeys_map_cons sep pre k d'.terms hg.ne]

theorem flatten_eq (sep : α) (d : Dict α β) (hs : d.SepFree sep) (hn : d.NoDup) :
    flatten sep d = .ok (leafItems sep none d.terms, emptyKeys sep none d.terms) := by
  simp only [flatten, flattenFrom, flattenLoop_eq sep d none hs hn, Except.bind,
    dupCheck_ok (d.goodTerms sep hs hn)]

end Terms
end Dino.Tree
