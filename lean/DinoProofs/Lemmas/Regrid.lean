import Dino.Regrid
import Mathlib.Algebra.Order.Field.Basic
import Mathlib.Algebra.BigOperators.Group.List.Basic
import Mathlib.Algebra.BigOperators.Ring.List
import Mathlib.Algebra.Order.BigOperators.Group.List
import Mathlib.Data.List.Forall2
import Mathlib.Tactic.Ring
import Mathlib.Tactic.FieldSimp
import Mathlib.Tactic.Linarith

/-!
# Lemmas about the regridding model `Dino.Regrid`

* `mx`, `mn`, `av` are `max`, `min`, `|·|` over a linearly ordered field;
* the overlap of a cell `[a, b]` with a cell `[s₀, s₁]` is the increment of `g ∘ clamp a b`
  over `[s₀, s₁]`, so that overlaps with the cells of a sorted vector of bounds telescope;
* a normalised kernel matrix with known row and column sums is conservative;
* rows with non-negative entries summing to one are convex combinations.
-/
set_option linter.unusedSectionVars false
set_option linter.unusedSimpArgs false

namespace Dino.Regrid

section generic
variable {K : Type} [Field K]

/-! ## lists -/

@[simp] theorem dot_nil_left (x : List K) : dot ([] : List K) x = 0 := by simp [dot]
@[simp] theorem dot_nil_right (r : List K) : dot r ([] : List K) = 0 := by simp [dot]
@[simp] theorem dot_cons (a b : K) (r x : List K) : dot (a :: r) (b :: x) = a * b + dot r x := by
  simp [dot]

theorem dot_map_div (r x : List K) (c : K) : dot (r.map (· / c)) x = dot r x / c := by
  induction r generalizing x with
  | nil => simp
  | cons a r ih =>
    cases x with
    | nil => simp
    | cons b x => simp [ih, add_div, mul_div_right_comm]

theorem dot_map_map {C : Type} (T : List C) (f h : C → K) :
    dot (T.map f) (T.map h) = (T.map fun t => f t * h t).sum := by
  induction T with
  | nil => simp
  | cons t T ih => simp [ih]

theorem dot_map_zero {C : Type} (l : List C) (x : List K) : dot (l.map fun _ => (0 : K)) x = 0 := by
  induction l generalizing x with
  | nil => simp
  | cons a l ih =>
    cases x with
    | nil => simp
    | cons b x => simp only [List.map_cons, dot_cons, zero_mul, zero_add, ih]

/-- `dot w (c, c, …) = (Σ w) · c` -/
theorem dot_replicate (w : List K) (c : K) : dot w (List.replicate w.length c) = w.sum * c := by
  induction w with
  | nil => simp
  | cons a w ih => simp [List.replicate_succ, ih, add_mul]

@[simp] theorem cells_nil : cells ([] : List K) = [] := rfl
@[simp] theorem cells_singleton (a : K) : cells [a] = [] := rfl
@[simp] theorem cells_cons_cons (a b : K) (t : List K) :
    cells (a :: b :: t) = (a, b) :: cells (b :: t) := rfl

@[simp] theorem mids_nil : mids ([] : List K) = [] := rfl
@[simp] theorem mids_singleton (a : K) : mids [a] = [] := rfl
@[simp] theorem mids_cons_cons (a b : K) (t : List K) :
    mids (a :: b :: t) = ((a + b) / (1 + 1)) :: mids (b :: t) := rfl

@[simp] theorem diffs_nil : diffs ([] : List K) = [] := rfl
@[simp] theorem diffs_singleton (a : K) : diffs [a] = [] := rfl
@[simp] theorem diffs_cons_cons (a b : K) (t : List K) :
    diffs (a :: b :: t) = (b - a) :: diffs (b :: t) := rfl

@[simp] theorem cells_length (b : List K) : (cells b).length = b.length - 1 := by
  induction b with
  | nil => rfl
  | cons a t ih =>
    cases t with
    | nil => rfl
    | cons c u => simp only [cells_cons_cons, List.length_cons, ih]; omega

@[simp] theorem mids_length (b : List K) : (mids b).length = b.length - 1 := by
  induction b with
  | nil => rfl
  | cons a t ih =>
    cases t with
    | nil => rfl
    | cons c u => simp only [mids_cons_cons, List.length_cons, ih]; omega

/-- a relation that holds pairwise on the bounds holds between the ends of every cell -/
theorem rel_of_mem_cells {R : K → K → Prop} {b : List K} (h : b.Pairwise R) {s : K × K}
    (hs : s ∈ cells b) : R s.1 s.2 := by
  induction b with
  | nil => simp at hs
  | cons a t ih =>
    cases t with
    | nil => simp at hs
    | cons c u =>
      rw [cells_cons_cons, List.mem_cons] at hs
      rw [List.pairwise_cons] at h
      rcases hs with rfl | hs
      · exact h.1 c (by simp)
      · exact ih h.2 hs

theorem mem_of_mem_cells {b : List K} {s : K × K} (hs : s ∈ cells b) : s.1 ∈ b ∧ s.2 ∈ b := by
  induction b with
  | nil => simp at hs
  | cons a t ih =>
    cases t with
    | nil => simp at hs
    | cons c u =>
      rw [cells_cons_cons, List.mem_cons] at hs
      rcases hs with rfl | hs
      · simp
      · have := ih hs
        exact ⟨List.mem_cons_of_mem _ this.1, List.mem_cons_of_mem _ this.2⟩

/-- increments of `φ` over the cells of a vector of bounds telescope -/
theorem sum_cells_telescope (φ : K → K) (b0 : K) (rest : List K) :
    ((cells (b0 :: rest)).map fun s => φ s.2 - φ s.1).sum = φ (rest.getLastD b0) - φ b0 := by
  induction rest generalizing b0 with
  | nil => simp
  | cons b1 r ih =>
    rw [cells_cons_cons, List.map_cons, List.sum_cons, ih b1, List.getLastD_cons]
    ring

/-- the cell sizes `g(hi) − g(lo)` of a vector of bounds -/
theorem map_cells_eq_diffs (g : K → K) (b : List K) :
    (cells b).map (fun s => g s.2 - g s.1) = diffs (b.map g) := by
  induction b with
  | nil => rfl
  | cons a t ih =>
    cases t with
    | nil => rfl
    | cons c u => simp only [cells_cons_cons, List.map_cons, diffs_cons_cons] at ih ⊢; rw [ih]

/-! ## kernel matrices -/

/-- exchanging the two sums: `Σ_t Σ_s ov(t,s)·x_s = Σ_s (Σ_t ov(t,s))·x_s` -/
theorem sum_dot_kmat {C : Type} (ov : C → C → K) (T S : List C) (x : List K) :
    (T.map fun t => dot (S.map (ov t)) x).sum = dot (S.map fun s => (T.map (ov · s)).sum) x := by
  induction S generalizing x with
  | nil => simp
  | cons s S ih =>
    cases x with
    | nil => simp
    | cons x0 x =>
      simp only [List.map_cons, dot_cons]
      rw [List.sum_map_add, List.sum_map_mul_right, ih]

/-- A normalised kernel matrix whose rows sum to the (non-zero) target sizes and whose columns
 sum to the source sizes conserves the size-weighted sum. -/
theorem kernel_conservation {C : Type} (ov : C → C → K) (T S : List C) (sizeT sizeS : C → K)
    (x : List K)
    (hrow : ∀ t ∈ T, (S.map (ov t)).sum = sizeT t) (hne : ∀ t ∈ T, sizeT t ≠ 0)
    (hcol : ∀ s ∈ S, (T.map (ov · s)).sum = sizeS s) :
    dot (T.map sizeT) (matvec (normRows (kmat ov T S)) x) = dot (S.map sizeS) x := by
  have h1 : matvec (normRows (kmat ov T S)) x
      = T.map fun t => dot ((S.map (ov t)).map (· / (S.map (ov t)).sum)) x := by
    simp [matvec, normRows, kmat, List.map_map, Function.comp_def]
  rw [h1, dot_map_map]
  have h2 : (T.map fun t => sizeT t * dot ((S.map (ov t)).map (· / (S.map (ov t)).sum)) x)
      = T.map fun t => dot (S.map (ov t)) x := by
    apply List.map_congr_left
    intro t ht
    rw [dot_map_div, hrow t ht]
    field_simp [hne t ht]
  rw [h2, sum_dot_kmat]
  congr 1
  exact List.map_congr_left hcol

/-- rows of a normalised matrix sum to one when the row sum is not zero -/
theorem sum_map_div_self (r : List K) (h : r.sum ≠ 0) : (r.map (· / r.sum)).sum = 1 := by
  have : (r.map (· / r.sum)) = r.map (fun a => a * r.sum⁻¹) := by
    apply List.map_congr_left; intro a _; rw [div_eq_mul_inv]
  rw [this, List.sum_map_mul_right, List.map_id', mul_inv_cancel₀ h]

end generic

section ordered
variable {K : Type} [Field K] [LinearOrder K] [IsStrictOrderedRing K]

/-! ## order -/

theorem mx_eq_max (a b : K) : mx a b = max a b := by
  unfold mx; split_ifs with h
  · exact (max_eq_right h.le).symm
  · exact (max_eq_left (not_lt.mp h)).symm
theorem mn_eq_min (a b : K) : mn a b = min a b := by
  unfold mn; split_ifs with h
  · exact (min_eq_right h.le).symm
  · exact (min_eq_left (not_lt.mp h)).symm
theorem av_eq_abs (a : K) : av a = |a| := by
  unfold av; split_ifs with h
  · exact (abs_of_neg h).symm
  · exact (abs_of_nonneg (not_lt.mp h)).symm

theorem isZero_iff (a : K) : isZero a = true ↔ a = 0 := by
  simp only [isZero, Bool.and_eq_true, Bool.not_eq_true', decide_eq_false_iff_not, not_lt]
  constructor
  · rintro ⟨h1, h2⟩; exact le_antisymm h2 h1
  · rintro rfl; exact ⟨le_refl _, le_refl _⟩

theorem increasing_iff (x : List K) : increasing x = true ↔ x.Pairwise (· < ·) := by
  unfold increasing
  induction x with
  | nil => simp
  | cons a t ih =>
    cases t with
    | nil => simp
    | cons b u =>
      rw [diffs_cons_cons, List.all_cons, Bool.and_eq_true, ih, decide_eq_true_iff, sub_pos]
      constructor
      · rintro ⟨hab, hp⟩
        refine List.Pairwise.cons ?_ hp
        intro c hc
        rcases List.mem_cons.mp hc with rfl | hc
        · exact hab
        · exact lt_trans hab ((List.pairwise_cons.mp hp).1 c hc)
      · intro h
        obtain ⟨h, hp⟩ := List.pairwise_cons.mp h
        exact ⟨h b (by simp), hp⟩

/-! ## clamping -/

/-- `x` clamped to `[a, b]` -/
def clamp (a b x : K) : K := min (max x a) b

theorem clamp_of_le_left {a b x : K} (hab : a ≤ b) (h : x ≤ a) : clamp a b x = a := by
  unfold clamp; rw [max_eq_right h, min_eq_left hab]
theorem clamp_of_ge_right {a b x : K} (_hab : a ≤ b) (h : b ≤ x) : clamp a b x = b := by
  unfold clamp; rw [min_eq_right (le_trans h (le_max_left _ _))]
theorem clamp_of_mem {a b x : K} (h1 : a ≤ x) (h2 : x ≤ b) : clamp a b x = x := by
  unfold clamp; rw [max_eq_left h1, min_eq_left h2]

theorem clamp_pair_of_lt {a b s0 s1 : K} (h : max a s0 < min b s1) :
    clamp a b s1 = min b s1 ∧ clamp a b s0 = max a s0 := by
  obtain ⟨h1, h2⟩ := max_lt_iff.mp h
  obtain ⟨h1b, h1s⟩ := lt_min_iff.mp h1
  obtain ⟨h2b, h2s⟩ := lt_min_iff.mp h2
  constructor
  · unfold clamp; rw [max_eq_left h1s.le, min_comm]
  · unfold clamp; rw [min_eq_left (max_le h2b.le h1b.le), max_comm]

theorem clamp_eq_of_not_lt {a b s0 s1 : K} (hab : a ≤ b) (hs : s0 ≤ s1)
    (h : ¬ max a s0 < min b s1) : clamp a b s1 = clamp a b s0 := by
  rw [not_lt] at h
  rcases le_total s1 a with h1 | h1
  · rw [clamp_of_le_left hab h1, clamp_of_le_left hab (le_trans hs h1)]
  rcases le_total b s0 with h2 | h2
  · rw [clamp_of_ge_right hab h2, clamp_of_ge_right hab (le_trans h2 hs)]
  -- a ≤ s1, s0 ≤ b, and min b s1 ≤ max a s0
  rcases le_total b s1 with h3 | h3 <;> rcases le_total a s0 with h4 | h4
  · rw [min_eq_left h3, max_eq_right h4] at h
    rw [clamp_of_ge_right hab h3, clamp_of_ge_right hab h]
  · rw [min_eq_left h3, max_eq_left h4] at h
    have : a = b := le_antisymm hab h
    subst this
    rw [clamp_of_ge_right hab h3, clamp_of_le_left hab h4]
  · rw [min_eq_right h3, max_eq_right h4] at h
    have : s0 = s1 := le_antisymm hs h
    rw [this]
  · rw [min_eq_right h3, max_eq_left h4] at h
    rw [clamp_of_le_left hab h, clamp_of_le_left hab h4]

/-- the overlap of `[a, b]` with `[s₀, s₁]` is the increment of `g ∘ clamp a b` -/
theorem latOv_eq_clamp (g : K → K) {a b s0 s1 : K} (hab : a ≤ b) (hs : s0 ≤ s1) :
    latOv g (a, b) (s0, s1) = g (clamp a b s1) - g (clamp a b s0) := by
  simp only [latOv, mx_eq_max, mn_eq_min, ind]
  by_cases h : max a s0 < min b s1
  · obtain ⟨e1, e0⟩ := clamp_pair_of_lt h
    rw [e1, e0]; simp [h]
  · rw [clamp_eq_of_not_lt hab hs h]; simp [h]

theorem intervalOv_eq_latOv (t s : K × K) : intervalOv t s = latOv id t s := by
  simp only [intervalOv, latOv, mx_eq_max, mn_eq_min, ind, id]
  by_cases h : max t.1 s.1 < min t.2 s.2
  · simp [h, max_eq_left (sub_pos.mpr h).le]
  · simp [h, max_eq_right (sub_nonpos.mpr (not_lt.mp h))]

theorem latOv_comm (g : K → K) (t s : K × K) : latOv g t s = latOv g s t := by
  simp only [latOv, mx_eq_max, mn_eq_min, max_comm, min_comm]

/-- overlaps are non-negative when `g` is monotone on the hull of the two cells -/
theorem latOv_nonneg (g : K → K) (t s : K × K)
    (hg : ∀ u v, max t.1 s.1 ≤ u → u ≤ v → v ≤ min t.2 s.2 → g u ≤ g v) : 0 ≤ latOv g t s := by
  simp only [latOv, mx_eq_max, mn_eq_min, ind]
  by_cases h : max t.1 s.1 < min t.2 s.2
  · simp only [h, decide_true, if_true, one_mul, sub_nonneg]
    exact hg _ _ (le_refl _) h.le (le_refl _)
  · simp [h]

/-- overlaps of `[a, b]` with the cells of sorted bounds `b₀ ≤ … ≤ b_last` -/
theorem sum_latOv_cells (g : K → K) {a b : K} (hab : a ≤ b) (b0 : K) (rest : List K)
    (hs : (b0 :: rest).Pairwise (· ≤ ·)) :
    ((cells (b0 :: rest)).map (latOv g (a, b))).sum
      = g (clamp a b (rest.getLastD b0)) - g (clamp a b b0) := by
  rw [← sum_cells_telescope (fun x => g (clamp a b x))]
  congr 1
  apply List.map_congr_left
  intro s hmem
  exact latOv_eq_clamp g hab (rel_of_mem_cells hs hmem)

/-- … which is `g b − g a` when the bounds cover `[a, b]` -/
theorem sum_latOv_cells_cover (g : K → K) {a b : K} (hab : a ≤ b) (b0 : K) (rest : List K)
    (hs : (b0 :: rest).Pairwise (· ≤ ·)) (h0 : b0 ≤ a) (h1 : b ≤ rest.getLastD b0) :
    ((cells (b0 :: rest)).map (latOv g (a, b))).sum = g b - g a := by
  rw [sum_latOv_cells g hab b0 rest hs, clamp_of_ge_right hab h1, clamp_of_le_left hab h0]

/-! ## convex combinations -/

theorem dot_bounds {lo hi : K} {w x : List K}
    (h : List.Forall₂ (fun wi xi => 0 ≤ wi ∧ (wi ≠ 0 → lo ≤ xi ∧ xi ≤ hi)) w x) :
    w.sum * lo ≤ dot w x ∧ dot w x ≤ w.sum * hi := by
  induction h with
  | nil => simp
  | @cons wi xi w x h _ ih =>
    simp only [List.sum_cons, dot_cons, add_mul]
    by_cases h0 : wi = 0
    · subst h0; simpa using ih
    · obtain ⟨h1, h2⟩ := h.2 h0
      exact ⟨add_le_add (mul_le_mul_of_nonneg_left h1 h.1) ih.1,
        add_le_add (mul_le_mul_of_nonneg_left h2 h.1) ih.2⟩


/-! ## mid-points of increasing vectors -/

theorem mids_pairwise_aux (a : K) (t : List K) (h : (a :: t).Pairwise (· < ·)) :
    (mids (a :: t)).Pairwise (· < ·) ∧ ∀ m ∈ mids (a :: t), a < m := by
  induction t generalizing a with
  | nil => simp
  | cons b u ih =>
    obtain ⟨hab, hp⟩ := List.pairwise_cons.mp h
    have hb : a < b := hab b (by simp)
    obtain ⟨ih1, ih2⟩ := ih b hp
    have hm : a < (a + b) / (1 + 1) := by
      rw [one_add_one_eq_two]; linarith
    have hm' : (a + b) / (1 + 1) < b := by
      rw [one_add_one_eq_two]; linarith
    rw [mids_cons_cons]
    constructor
    · exact List.Pairwise.cons (fun m hm2 => lt_trans hm' (ih2 m hm2)) ih1
    · intro m hm2
      rcases List.mem_cons.mp hm2 with rfl | hm2
      · exact hm
      · exact lt_trans hb (ih2 m hm2)

theorem mids_pairwise {q : List K} (h : q.Pairwise (· < ·)) : (mids q).Pairwise (· < ·) := by
  cases q with
  | nil => simp
  | cons a t => exact (mids_pairwise_aux a t h).1

/-- mid-points of an increasing vector inside `[lo, hi]` are strictly inside -/
theorem mem_mids_bounds {lo hi : K} {q : List K} (h : q.Pairwise (· < ·))
    (hb : ∀ v ∈ q, lo ≤ v ∧ v ≤ hi) : ∀ m ∈ mids q, lo < m ∧ m < hi := by
  induction q with
  | nil => simp
  | cons a t ih =>
    cases t with
    | nil => simp
    | cons b u =>
      obtain ⟨hab, hp⟩ := List.pairwise_cons.mp h
      have hlt : a < b := hab b (by simp)
      have ha := hb a (by simp)
      have hbb := hb b (by simp)
      intro m hm
      rw [mids_cons_cons, List.mem_cons] at hm
      rcases hm with rfl | hm
      · rw [one_add_one_eq_two]; constructor <;> linarith [ha.1, ha.2, hbb.1, hbb.2]
      · exact ih hp (fun v hv => hb v (List.mem_cons_of_mem _ hv)) m hm

/-- the cells between the mid-points of a vector whose gaps lie in `(0, g]` have widths in
 `(0, g]` -/
theorem width_cells_mids {g : K} {q : List K} (hq : ∀ d ∈ diffs q, 0 < d ∧ d ≤ g) :
    ∀ s ∈ cells (mids q), 0 < s.2 - s.1 ∧ s.2 - s.1 ≤ g := by
  induction q with
  | nil => simp
  | cons a t ih =>
    cases t with
    | nil => simp
    | cons b u =>
      cases u with
      | nil => simp
      | cons c v =>
        intro s hs
        rw [mids_cons_cons, mids_cons_cons, cells_cons_cons, ← mids_cons_cons, List.mem_cons] at hs
        have h1 := hq (b - a) (by simp)
        have h2 := hq (c - b) (by simp)
        rcases hs with rfl | hs
        · simp only [one_add_one_eq_two]
          constructor <;> linarith [h1.1, h1.2, h2.1, h2.2]
        · exact ih (fun d hd => hq d (by rw [diffs_cons_cons]; exact List.mem_cons_of_mem _ hd)) s hs

theorem getLastD_mids_append (a : K) (t : List K) (z d : K) :
    (mids (a :: t ++ [z])).getLastD d = (t.getLastD a + z) / (1 + 1) := by
  induction t generalizing a d with
  | nil => simp
  | cons b u ih =>
    rw [List.cons_append, List.cons_append, mids_cons_cons, List.getLastD_cons, ← List.cons_append,
      ih, List.getLastD_cons]

/-- `zip (mids (c :: l)) (mids (l ++ [d]))` are the cells between the mid-points of
 `c :: l ++ [d]` -/
theorem zip_mids (c d a : K) (t : List K) :
    (mids (c :: a :: t)).zip (mids (a :: t ++ [d])) = cells (mids (c :: a :: t ++ [d])) := by
  induction t generalizing c a with
  | nil => simp
  | cons b u ih =>
    have := ih a b
    simp only [List.cons_append, mids_cons_cons, List.zip_cons_cons, cells_cons_cons] at this ⊢
    rw [this]

theorem le_getLastD_of_pairwise (b0 : K) (rest : List K) (h : (b0 :: rest).Pairwise (· ≤ ·)) :
    ∀ v ∈ b0 :: rest, v ≤ rest.getLastD b0 := by
  induction rest generalizing b0 with
  | nil => simp
  | cons b1 r ih =>
    obtain ⟨h1, h2⟩ := List.pairwise_cons.mp h
    intro v hv
    rw [List.getLastD_cons]
    rcases List.mem_cons.mp hv with rfl | hv
    · exact le_trans (h1 b1 (by simp)) (ih b1 h2 b1 (by simp))
    · exact ih b1 h2 v hv

theorem cells_map_add (c : K) (b : List K) :
    cells (b.map (· + c)) = (cells b).map fun y => (y.1 + c, y.2 + c) := by
  induction b with
  | nil => rfl
  | cons a t ih =>
    cases t with
    | nil => rfl
    | cons b u => simp only [List.map_cons, cells_cons_cons] at ih ⊢; rw [ih]

/-! ## phase alignment and the periodic overlap -/

theorem alignPhase_up {x t P : K} (hP : 0 < P) (h : x < t - P / (1 + 1)) :
    alignPhase x t P = x + P := by
  have : ¬ t + P / (1 + 1) < x := by
    rw [one_add_one_eq_two] at *; intro h2; linarith
  simp [alignPhase, ind, h, this]

theorem alignPhase_down {x t P : K} (hP : 0 < P) (h : t + P / (1 + 1) < x) :
    alignPhase x t P = x - P := by
  have : ¬ x < t - P / (1 + 1) := by
    rw [one_add_one_eq_two] at *; intro h2; linarith
  simp [alignPhase, ind, h, this]

theorem alignPhase_same {x t P : K} (h1 : ¬ x < t - P / (1 + 1)) (h2 : ¬ t + P / (1 + 1) < x) :
    alignPhase x t P = x := by
  simp [alignPhase, ind, h1, h2]

/-- the linear overlap `max(min(x₁, y₁) − max(x₀, y₀), 0)` -/
def lin (x0 x1 y0 y1 : K) : K := max (min x1 y1 - max x0 y0) 0

theorem lin_eq_zero {x0 x1 y0 y1 : K} (h : x1 ≤ y0 ∨ y1 ≤ x0 ∨ y1 ≤ y0 ∨ x1 ≤ x0) :
    lin x0 x1 y0 y1 = 0 := by
  unfold lin
  apply max_eq_right
  have h1 := min_le_left x1 y1
  have h2 := min_le_right x1 y1
  have h3 := le_max_left x0 y0
  have h4 := le_max_right x0 y0
  rcases h with h | h | h | h <;> linarith

theorem intervalOv_eq_lin (x y : K × K) : intervalOv x y = lin x.1 x.2 y.1 y.2 := by
  simp [intervalOv, lin, mx_eq_max, mn_eq_min]

theorem periodicOv_eq_lin (P : K) (x y : K × K) :
    periodicOv P x y = lin x.1 x.2 (alignPhase y.1 x.1 P) (alignPhase y.2 x.1 P) := by
  simp [periodicOv, lin, mx_eq_max, mn_eq_min]

/-- `_periodic_overlap` is the sum of the linear overlaps with the three nearest copies of the
 second interval, as soon as the two widths add up to at most half a period. -/
theorem periodicOv_three_copies {P : K} (hP : 0 < P) (x y : K × K) (hx : x.1 ≤ x.2)
    (hy : y.1 ≤ y.2) (hw : (x.2 - x.1) + (y.2 - y.1) ≤ P / 2) :
    periodicOv P x y = intervalOv x (y.1 - P, y.2 - P) + intervalOv x y
      + intervalOv x (y.1 + P, y.2 + P) := by
  obtain ⟨x0, x1⟩ := x
  obtain ⟨y0, y1⟩ := y
  simp only [periodicOv_eq_lin, intervalOv_eq_lin] at *
  have h2 : (1 + 1 : K) = 2 := one_add_one_eq_two
  by_cases hA : x0 + P / (1 + 1) < y0
  · -- both ends shift down
    have hA1 : x0 + P / (1 + 1) < y1 := lt_of_lt_of_le hA hy
    rw [alignPhase_down hP hA, alignPhase_down hP hA1]
    rw [h2] at hA
    rw [lin_eq_zero (x0 := x0) (x1 := x1) (y0 := y0) (y1 := y1) (Or.inl (by linarith)),
      lin_eq_zero (x0 := x0) (x1 := x1) (y0 := y0 + P) (y1 := y1 + P) (Or.inl (by linarith))]
    ring
  by_cases hB : y0 < x0 - P / (1 + 1)
  · rw [alignPhase_up hP hB]
    by_cases hB1 : y1 < x0 - P / (1 + 1)
    · rw [alignPhase_up hP hB1]
      rw [h2] at hB1
      rw [lin_eq_zero (x0 := x0) (x1 := x1) (y0 := y0) (y1 := y1) (Or.inr (Or.inl (by linarith))),
        lin_eq_zero (x0 := x0) (x1 := x1) (y0 := y0 - P) (y1 := y1 - P)
          (Or.inr (Or.inl (by linarith)))]
      ring
    · have hB2 : ¬ x0 + P / (1 + 1) < y1 := by
        rw [h2] at *; intro h; linarith
      rw [alignPhase_same hB1 hB2]
      rw [h2] at hB hB1
      rw [lin_eq_zero (x0 := x0) (x1 := x1) (y0 := y0 + P) (y1 := y1) (Or.inr (Or.inl (by linarith))),
        lin_eq_zero (x0 := x0) (x1 := x1) (y0 := y0) (y1 := y1) (Or.inr (Or.inl (by linarith))),
        lin_eq_zero (x0 := x0) (x1 := x1) (y0 := y0 - P) (y1 := y1 - P)
          (Or.inr (Or.inl (by linarith))),
        lin_eq_zero (x0 := x0) (x1 := x1) (y0 := y0 + P) (y1 := y1 + P) (Or.inl (by linarith))]
      ring
  · rw [alignPhase_same hB hA]
    by_cases hC : x0 + P / (1 + 1) < y1
    · rw [alignPhase_down hP hC]
      rw [h2] at hA hB hC
      rw [lin_eq_zero (x0 := x0) (x1 := x1) (y0 := y0) (y1 := y1 - P) (Or.inl (by linarith)),
        lin_eq_zero (x0 := x0) (x1 := x1) (y0 := y0) (y1 := y1) (Or.inl (by linarith)),
        lin_eq_zero (x0 := x0) (x1 := x1) (y0 := y0 - P) (y1 := y1 - P)
          (Or.inr (Or.inl (by linarith))),
        lin_eq_zero (x0 := x0) (x1 := x1) (y0 := y0 + P) (y1 := y1 + P) (Or.inl (by linarith))]
      ring
    · have hC1 : ¬ y1 < x0 - P / (1 + 1) := by
        rw [h2] at *; intro h; linarith
      rw [alignPhase_same hC1 hC]
      rw [h2] at hA hB hC
      rw [lin_eq_zero (x0 := x0) (x1 := x1) (y0 := y0 - P) (y1 := y1 - P)
          (Or.inr (Or.inl (by linarith))),
        lin_eq_zero (x0 := x0) (x1 := x1) (y0 := y0 + P) (y1 := y1 + P) (Or.inl (by linarith))]
      ring

theorem intervalOv_comm (x y : K × K) : intervalOv x y = intervalOv y x := by
  simp only [intervalOv, mx_eq_max, mn_eq_min, max_comm x.1, min_comm x.2]

/-- shifting the second interval by `c` is shifting the first by `-c` -/
theorem intervalOv_shift (x y : K × K) (c : K) :
    intervalOv x (y.1 + c, y.2 + c) = intervalOv (x.1 - c, x.2 - c) y := by
  simp only [intervalOv, mx_eq_max, mn_eq_min]
  have e1 : min x.2 (y.2 + c) = min (x.2 - c) y.2 + c := by
    rw [← min_add_add_right, sub_add_cancel]
  have e2 : max x.1 (y.1 + c) = max (x.1 - c) y.1 + c := by
    rw [← max_add_add_right, sub_add_cancel]
  rw [e1, e2]; congr 1; ring

/-- overlaps of `x` with the cells of sorted bounds shifted by `c` -/
theorem sum_intervalOv_shift (x : K × K) (hx : x.1 ≤ x.2) (c b0 : K) (rest : List K)
    (hs : (b0 :: rest).Pairwise (· ≤ ·)) :
    ((cells (b0 :: rest)).map fun y => intervalOv x (y.1 + c, y.2 + c)).sum
      = clamp x.1 x.2 (rest.getLastD b0 + c) - clamp x.1 x.2 (b0 + c) := by
  rw [← sum_cells_telescope (fun v => clamp x.1 x.2 (v + c))]
  congr 1
  apply List.map_congr_left
  intro s hmem
  have hle : s.1 ≤ s.2 := rel_of_mem_cells hs hmem
  rw [intervalOv_eq_latOv]
  exact latOv_eq_clamp id (a := x.1) (b := x.2) hx (by linarith)

/-- overlaps of the cells of sorted bounds shifted by `-c` with `y` -/
theorem sum_intervalOv_shift' (y : K × K) (hy : y.1 ≤ y.2) (c a0 : K) (rest : List K)
    (hs : (a0 :: rest).Pairwise (· ≤ ·)) :
    ((cells (a0 :: rest)).map fun x => intervalOv x (y.1 + c, y.2 + c)).sum
      = clamp y.1 y.2 (rest.getLastD a0 - c) - clamp y.1 y.2 (a0 - c) := by
  have := sum_intervalOv_shift y hy (-c) a0 rest hs
  simp only [← sub_eq_add_neg] at this
  rw [← this]
  congr 1
  apply List.map_congr_left
  intro s _
  rw [intervalOv_shift, intervalOv_comm]

/-- row sums of the periodic overlaps against a partition of one period -/
theorem sum_periodicOv_row {P : K} (hP : 0 < P) (x : K × K) (hx : x.1 ≤ x.2) (b0 : K)
    (rest : List K) (hs : (b0 :: rest).Pairwise (· ≤ ·)) (hl : rest.getLastD b0 = b0 + P)
    (hw : ∀ y ∈ cells (b0 :: rest), (x.2 - x.1) + (y.2 - y.1) ≤ P / 2)
    (hlo : b0 - P ≤ x.1) (hhi : x.2 ≤ b0 + 2 * P) :
    ((cells (b0 :: rest)).map (periodicOv P x)).sum = x.2 - x.1 := by
  have e : (cells (b0 :: rest)).map (periodicOv P x)
      = (cells (b0 :: rest)).map fun y => (intervalOv x (y.1 + -P, y.2 + -P)
          + intervalOv x (y.1 + 0, y.2 + 0)) + intervalOv x (y.1 + P, y.2 + P) := by
    apply List.map_congr_left
    intro y hy
    rw [periodicOv_three_copies hP x y hx (rel_of_mem_cells hs hy) (hw y hy)]
    simp [sub_eq_add_neg]
  rw [e, List.sum_map_add, List.sum_map_add, sum_intervalOv_shift x hx _ b0 rest hs,
    sum_intervalOv_shift x hx _ b0 rest hs, sum_intervalOv_shift x hx _ b0 rest hs, hl]
  have e1 : b0 + P + -P = b0 := by ring
  have e2 : b0 + P + P = b0 + 2 * P := by ring
  rw [e1, e2, add_zero, add_zero, clamp_of_le_left hx (by linarith : b0 + -P ≤ x.1),
    clamp_of_ge_right hx hhi]
  ring

/-- column sums of the periodic overlaps of a partition of one period -/
theorem sum_periodicOv_col {P : K} (hP : 0 < P) (y : K × K) (hy : y.1 ≤ y.2) (a0 : K)
    (rest : List K) (hs : (a0 :: rest).Pairwise (· ≤ ·)) (hl : rest.getLastD a0 = a0 + P)
    (hw : ∀ x ∈ cells (a0 :: rest), (x.2 - x.1) + (y.2 - y.1) ≤ P / 2)
    (hlo : a0 - P ≤ y.1) (hhi : y.2 ≤ a0 + 2 * P) :
    ((cells (a0 :: rest)).map (periodicOv P · y)).sum = y.2 - y.1 := by
  have e : (cells (a0 :: rest)).map (periodicOv P · y)
      = (cells (a0 :: rest)).map fun x => (intervalOv x (y.1 + -P, y.2 + -P)
          + intervalOv x (y.1 + 0, y.2 + 0)) + intervalOv x (y.1 + P, y.2 + P) := by
    apply List.map_congr_left
    intro x hxm
    rw [periodicOv_three_copies hP x y (rel_of_mem_cells hs hxm) hy (hw x hxm)]
    simp [sub_eq_add_neg]
  rw [e, List.sum_map_add, List.sum_map_add, sum_intervalOv_shift' y hy _ a0 rest hs,
    sum_intervalOv_shift' y hy _ a0 rest hs, sum_intervalOv_shift' y hy _ a0 rest hs, hl]
  have e1 : a0 + P - -P = a0 + 2 * P := by ring
  have e2 : a0 + P - P = a0 := by ring
  have e3 : a0 - -P = a0 + P := by ring
  rw [e1, e2, e3, sub_zero, sub_zero, clamp_of_le_left hy hlo, clamp_of_ge_right hy hhi]
  ring


/-! ## the cells that `_longitude_overlap` builds from the points -/

theorem upperBounds_aux {P : K} (hP : 0 < P) (w a : K) (t : List K)
    (hgap : ∀ d ∈ diffs (a :: t), 0 ≤ d ∧ d ≤ P / 2) (hw : w + P / 2 < t.getLastD a) :
    List.zipWith (fun xi xp => (xi + alignPhase xp xi P) / (1 + 1)) (a :: t) (t ++ [w])
      = mids (a :: t ++ [w + P]) := by
  induction t generalizing a with
  | nil =>
    have : w < a - P / (1 + 1) := by
      rw [one_add_one_eq_two]; simp only [List.getLastD_nil] at hw; linarith
    simp [alignPhase_up hP this]
  | cons b u ih =>
    have hd := hgap (b - a) (by simp)
    have h1 : ¬ b < a - P / (1 + 1) := by
      rw [one_add_one_eq_two]; intro h; linarith [hd.1]
    have h2 : ¬ a + P / (1 + 1) < b := by
      rw [one_add_one_eq_two]; intro h; linarith [hd.2]
    have ih' := ih b (fun d hdm => hgap d (by rw [diffs_cons_cons]; exact List.mem_cons_of_mem _ hdm))
      (by rwa [List.getLastD_cons] at hw)
    simp only [List.cons_append, List.zipWith_cons_cons, mids_cons_cons, alignPhase_same h1 h2]
    rw [ih']; rfl

theorem lowerBounds_aux {P : K} (hP : 0 < P) (a : K) (t : List K)
    (hgap : ∀ d ∈ diffs (a :: t), 0 ≤ d ∧ d ≤ P / 2) :
    List.zipWith (fun xm xi => (alignPhase xm xi P + xi) / (1 + 1)) (a :: t).dropLast t
      = mids (a :: t) := by
  induction t generalizing a with
  | nil => simp
  | cons b u ih =>
    have hd := hgap (b - a) (by simp)
    have h1 : ¬ a < b - P / (1 + 1) := by
      rw [one_add_one_eq_two]; intro h; linarith [hd.2]
    have h2 : ¬ b + P / (1 + 1) < a := by
      rw [one_add_one_eq_two]; intro h; linarith [hd.1]
    have ih' := ih b (fun d hdm => hgap d (by rw [diffs_cons_cons]; exact List.mem_cons_of_mem _ hdm))
    rw [List.dropLast_cons_cons, List.zipWith_cons_cons, mids_cons_cons, alignPhase_same h1 h2, ih']

/-- Under the domain conditions (points already reduced modulo the period, increasing, gaps at
 most half a period, wrap-around gap below half a period) the cells are the intervals between
 the mid-points of `last − P, p₀, …, last, p₀ + P`. -/
theorem lonCells_eq (md : K → K → K) {P : K} (hP : 0 < P) (p0 p1 : K) (r : List K)
    (hmd : ∀ v ∈ p0 :: p1 :: r, md v P = v)
    (hgap : ∀ d ∈ diffs (p0 :: p1 :: r), 0 ≤ d ∧ d ≤ P / 2)
    (hwrap : p0 + P / 2 < r.getLastD p1) :
    lonCells md P (p0 :: p1 :: r)
      = cells (mids ((r.getLastD p1 - P) :: p0 :: p1 :: r ++ [p0 + P])) := by
  have hm : (p0 :: p1 :: r).map (md · P) = p0 :: p1 :: r := by
    conv_rhs => rw [← List.map_id (p0 :: p1 :: r)]
    exact List.map_congr_left hmd
  unfold lonCells
  rw [hm]
  have hU : upperBounds P (p0 :: p1 :: r) = mids (p0 :: p1 :: r ++ [p0 + P]) := by
    unfold upperBounds rollL
    exact upperBounds_aux hP p0 p0 (p1 :: r) hgap (by rwa [List.getLastD_cons])
  have hdown : alignPhase (r.getLastD p1) p0 P = r.getLastD p1 - P :=
    alignPhase_down hP (by rw [one_add_one_eq_two]; exact hwrap)
  have hL : lowerBounds P (p0 :: p1 :: r) = mids ((r.getLastD p1 - P) :: p0 :: p1 :: r) := by
    unfold lowerBounds rollR
    have e : (p0 :: p1 :: r).getLast? = some (r.getLastD p1) := by
      rw [List.getLast?_cons, List.getLast?_cons, List.getLastD_eq_getLast?]; simp
    rw [e]
    simp only [List.zipWith_cons_cons]
    rw [lowerBounds_aux hP p0 (p1 :: r) hgap, hdown, mids_cons_cons (r.getLastD p1 - P) p0]
  rw [hU, hL]
  exact zip_mids (r.getLastD p1 - P) (p0 + P) p0 (p1 :: r)

/-! ## NaN bookkeeping of one output cell -/

/-- `einsum('b,d,bd->', ra, rc, F)`: one entry of `mean2` -/
def cellSum (ra rc : List K) (F : List (List K)) : K := dot ra (F.map fun fb => dot rc fb)

/-- the entry of `_mean(where(not_nulls, field, 0))` for the weight rows `ra`, `rc` -/
def cellMean (ra rc : List K) (f : List (List (Option K))) : K :=
  cellSum ra rc (f.map (·.map fill0))

/-- the entry of `_mean(not_nulls)`: the weight of the non-NaN inputs -/
def cellFrac (ra rc : List K) (f : List (List (Option K))) : K :=
  cellSum ra rc (f.map (·.map notNull))

theorem mean2_eq (lw tw : List (List K)) (F : List (List K)) :
    mean2 lw tw F = lw.map fun ra => tw.map fun rc => cellSum ra rc F := rfl

theorem dot_map_right {β : Type} (w : List K) (l : List β) (φ : β → K) :
    dot w (l.map φ) = ((w.zip l).map fun p => p.1 * φ p.2).sum := by
  induction w generalizing l with
  | nil => simp
  | cons a w ih =>
    cases l with
    | nil => simp
    | cons b l => simp [ih]

/-- an entry of `mean2` as a double sum over the (weight, value) pairs -/
theorem cellSum_map (ra rc : List K) {β : Type} (f : List (List β)) (φ : β → K) :
    cellSum ra rc (f.map (·.map φ))
      = ((ra.zip f).map fun pb => pb.1 * ((rc.zip pb.2).map fun pd => pd.1 * φ pd.2).sum).sum := by
  unfold cellSum
  rw [List.map_map, dot_map_right]
  congr 1
  apply List.map_congr_left
  intro pb _
  simp only [Function.comp_def, dot_map_right]

theorem sum_map_nonneg {ι : Type} (l : List ι) (φ : ι → K) (h : ∀ i ∈ l, 0 ≤ φ i) :
    0 ≤ (l.map φ).sum := by
  apply List.sum_nonneg
  intro x hx
  obtain ⟨i, hi, rfl⟩ := List.mem_map.mp hx
  exact h i hi

theorem sum_map_eq_zero_iff {ι : Type} (l : List ι) (φ : ι → K) (h : ∀ i ∈ l, 0 ≤ φ i) :
    (l.map φ).sum = 0 ↔ ∀ i ∈ l, φ i = 0 := by
  induction l with
  | nil => simp
  | cons a l ih =>
    have ha := h a (by simp)
    have hl : ∀ i ∈ l, 0 ≤ φ i := fun i hi => h i (List.mem_cons_of_mem _ hi)
    have hs := sum_map_nonneg l φ hl
    rw [List.map_cons, List.sum_cons, List.forall_mem_cons, ← ih hl]
    constructor
    · intro h0; constructor <;> linarith
    · rintro ⟨h1, h2⟩; rw [h1, h2, add_zero]

theorem sum_map_eq_zero {ι : Type} (l : List ι) (φ : ι → K) (h : ∀ i ∈ l, φ i = 0) :
    (l.map φ).sum = 0 := by
  induction l with
  | nil => simp
  | cons a l ih =>
    rw [List.map_cons, List.sum_cons, h a (by simp), ih (fun i hi => h i (List.mem_cons_of_mem _ hi)),
      add_zero]

theorem notNull_nonneg (v : Option K) : (0 : K) ≤ notNull v := by
  cases v <;> simp [notNull]

theorem mul_notNull_eq_zero (w : K) (v : Option K) : w * notNull v = 0 ↔ w = 0 ∨ v = none := by
  cases v <;> simp [notNull]

/-- every input cell with a non-zero weight is NaN -/
def AllNull (ra rc : List K) (f : List (List (Option K))) : Prop :=
  ∀ pb ∈ ra.zip f, ∀ pd ∈ rc.zip pb.2, pb.1 * pd.1 ≠ 0 → pd.2 = none

/-- no input cell with a non-zero weight is NaN -/
def NoNull (ra rc : List K) (f : List (List (Option K))) : Prop :=
  ∀ pb ∈ ra.zip f, ∀ pd ∈ rc.zip pb.2, pb.1 * pd.1 ≠ 0 → pd.2 ≠ none

theorem cellFrac_eq_zero_iff (ra rc : List K) (f : List (List (Option K)))
    (hra : ∀ w ∈ ra, 0 ≤ w) (hrc : ∀ w ∈ rc, 0 ≤ w) :
    cellFrac ra rc f = 0 ↔ AllNull ra rc f := by
  unfold cellFrac AllNull
  rw [cellSum_map]
  have hin : ∀ fb : List (Option K), ∀ pd ∈ rc.zip fb, 0 ≤ pd.1 * notNull pd.2 := by
    intro fb pd hpd
    exact mul_nonneg (hrc _ (List.of_mem_zip hpd).1) (notNull_nonneg _)
  rw [sum_map_eq_zero_iff]
  · apply forall₂_congr
    intro pb hpb
    rw [mul_eq_zero, sum_map_eq_zero_iff _ _ (hin pb.2)]
    constructor
    · rintro (h0 | hall) pd hpd hne
      · exact absurd (by rw [h0, zero_mul]) hne
      · rcases (mul_notNull_eq_zero _ _).mp (hall pd hpd) with h | h
        · exact absurd (by rw [h, mul_zero]) hne
        · exact h
    · intro hall
      by_cases h0 : pb.1 = 0
      · exact Or.inl h0
      · right
        intro pd hpd
        rw [mul_notNull_eq_zero]
        by_cases h1 : pd.1 = 0
        · exact Or.inl h1
        · exact Or.inr (hall pd hpd (mul_ne_zero h0 h1))
  · intro pb hpb
    exact mul_nonneg (hra _ (List.of_mem_zip hpb).1) (sum_map_nonneg _ _ (hin pb.2))

theorem cellMean_eq_zero_of_allNull (ra rc : List K) (f : List (List (Option K)))
    (h : AllNull ra rc f) : cellMean ra rc f = 0 := by
  unfold cellMean
  rw [cellSum_map]
  apply sum_map_eq_zero
  intro pb hpb
  by_cases h0 : pb.1 = 0
  · rw [h0, zero_mul]
  · rw [sum_map_eq_zero, mul_zero]
    intro pd hpd
    by_cases h1 : pd.1 = 0
    · rw [h1, zero_mul]
    · rw [h pb hpb pd hpd (mul_ne_zero h0 h1)]; simp [fill0]

theorem sum_map_fst_zip {β : Type} (w : List K) (l : List β) (h : w.length = l.length) :
    ((w.zip l).map fun p => p.1).sum = w.sum := by
  have : (w.zip l).map (fun p => p.1) = w := by
    have := List.map_fst_zip (l₁ := w) (l₂ := l) (le_of_eq h)
    simpa using this
  rw [this]

/-- with complete rows and no NaN among the inputs that carry weight, the non-NaN weight is
 the product of the two row sums -/
theorem cellFrac_of_noNull (ra rc : List K) (f : List (List (Option K)))
    (hf : f.length = ra.length) (hfb : ∀ fb ∈ f, fb.length = rc.length)
    (h : NoNull ra rc f) : cellFrac ra rc f = ra.sum * rc.sum := by
  unfold cellFrac
  rw [cellSum_map]
  have e : ((ra.zip f).map fun pb => pb.1 * ((rc.zip pb.2).map fun pd => pd.1 * notNull pd.2).sum)
      = (ra.zip f).map fun pb => pb.1 * rc.sum := by
    apply List.map_congr_left
    intro pb hpb
    by_cases h0 : pb.1 = 0
    · rw [h0, zero_mul, zero_mul]
    · congr 1
      rw [← sum_map_fst_zip rc pb.2 (hfb _ (List.of_mem_zip hpb).2).symm]
      congr 1
      apply List.map_congr_left
      intro pd hpd
      by_cases h1 : pd.1 = 0
      · rw [h1, zero_mul]
      · have := h pb hpb pd hpd (mul_ne_zero h0 h1)
        cases hv : pd.2 with
        | none => exact absurd hv this
        | some v => simp [notNull]
  rw [e, List.sum_map_mul_right, sum_map_fst_zip ra f hf.symm]

theorem isClose_iff (rtol atol a b : K) :
    isClose rtol atol a b = true ↔ |a - b| ≤ atol + rtol * |b| := by
  simp [isClose, av_eq_abs]


/-! ## latitude bounds -/

theorem latBounds_getLastD (hp : K) (pts : List K) (d : K) :
    (mids pts ++ [hp]).getLastD d = hp := by
  rw [List.getLastD_eq_getLast?]; simp

theorem latBounds_pairwise {hp : K} (hhp : 0 < hp) {pts : List K} (hinc : pts.Pairwise (· < ·))
    (hb : ∀ v ∈ pts, -hp ≤ v ∧ v ≤ hp) : (latBounds hp pts).Pairwise (· < ·) := by
  have hm := mem_mids_bounds hinc hb
  unfold latBounds
  rw [List.pairwise_cons, List.pairwise_append]
  refine ⟨?_, mids_pairwise hinc, by simp, ?_⟩
  · intro v hv
    rcases List.mem_append.mp hv with hv | hv
    · exact (hm v hv).1
    · rw [List.mem_singleton.mp hv]; linarith
  · intro m hmm v hv
    rw [List.mem_singleton.mp hv]; exact (hm m hmm).2

theorem latBounds_mem {hp : K} (hhp : 0 < hp) {pts : List K} (hinc : pts.Pairwise (· < ·))
    (hb : ∀ v ∈ pts, -hp ≤ v ∧ v ≤ hp) : ∀ v ∈ latBounds hp pts, -hp ≤ v ∧ v ≤ hp := by
  have hm := mem_mids_bounds hinc hb
  intro v hv
  unfold latBounds at hv
  rcases List.mem_cons.mp hv with rfl | hv
  · constructor <;> linarith
  rcases List.mem_append.mp hv with hv | hv
  · exact ⟨(hm v hv).1.le, (hm v hv).2.le⟩
  · rw [List.mem_singleton.mp hv]; constructor <;> linarith

theorem pairwise_le_of_lt {l : List K} (h : l.Pairwise (· < ·)) : l.Pairwise (· ≤ ·) :=
  h.imp fun hab => hab.le

/-- exchanging two finite sums over lists -/
theorem sum_map_sum_comm {α β : Type} (l1 : List α) (l2 : List β) (φ : α → β → K) :
    (l1.map fun i => (l2.map fun j => φ i j).sum).sum
      = (l2.map fun j => (l1.map fun i => φ i j).sum).sum := by
  induction l1 with
  | nil => simp
  | cons a l1 ih => simp only [List.map_cons, List.sum_cons, ih, List.sum_map_add]


/-! ## helpers of the property file -/

theorem abs_le_abs_of {a b : K} (h1 : a ≤ b ∨ a ≤ -b) (h2 : -a ≤ b ∨ -a ≤ -b) : |a| ≤ |b| := by
  rw [abs_le]
  have e1 := le_abs_self b
  have e2 := neg_le_abs b
  constructor
  · rcases h2 with h | h <;> linarith
  · rcases h1 with h | h <;> linarith

theorem diffs_pos_of_pairwise {l : List K} (h : l.Pairwise (· < ·)) : ∀ d ∈ diffs l, 0 < d := by
  induction l with
  | nil => simp
  | cons a t ih =>
    cases t with
    | nil => simp
    | cons b u =>
      obtain ⟨h1, h2⟩ := List.pairwise_cons.mp h
      intro d hd
      rw [diffs_cons_cons, List.mem_cons] at hd
      rcases hd with rfl | hd
      · exact sub_pos.mpr (h1 b (by simp))
      · exact ih h2 d hd

theorem diffs_append_singleton (a : K) (t : List K) (z : K) :
    diffs (a :: t ++ [z]) = diffs (a :: t) ++ [z - t.getLastD a] := by
  induction t generalizing a with
  | nil => simp
  | cons b u ih =>
    have := ih b
    simp only [List.cons_append, diffs_cons_cons, List.getLastD_cons] at this ⊢
    rw [this]

/-- the part of the target layer `t` covered by the source range `[s₀, s_last]` -/
def covered (t : K × K) (lo hi : K) : K := clamp t.1 t.2 hi - clamp t.1 t.2 lo

theorem covered_of_inside {t : K × K} {lo hi : K} (ht : t.1 ≤ t.2) (h0 : lo ≤ t.1) (h1 : t.2 ≤ hi) :
    covered t lo hi = t.2 - t.1 := by
  unfold covered; rw [clamp_of_ge_right ht h1, clamp_of_le_left ht h0]

/-- `out` agrees with the model output `r` wherever the coverage `cov` is not zero (and is
 arbitrary — NaN in the code — elsewhere) -/
def AgreesWhereCovered (cov r out : List K) : Prop :=
  List.Forall₂ (fun c o => c.1 ≠ 0 → o = c.2) (cov.zip r) out

theorem dot_agrees {cov r out : List K} (h : AgreesWhereCovered cov r out) :
    dot cov out = dot cov r := by
  unfold AgreesWhereCovered at h
  induction cov generalizing r out with
  | nil => simp
  | cons c cov ih =>
    cases r with
    | nil => simp at h; subst h; simp
    | cons r0 r =>
      rw [List.zip_cons_cons] at h
      cases h with
      | cons h0 hrest =>
        rw [dot_cons, dot_cons, ih hrest]
        by_cases hc : c = 0
        · rw [hc, zero_mul, zero_mul]
        · rw [h0 hc]

theorem agreesWhereCovered_self (cov r : List K) (h : cov.length = r.length) :
    AgreesWhereCovered cov r r := by
  unfold AgreesWhereCovered
  induction cov generalizing r with
  | nil => cases r with
    | nil => simp
    | cons a r => simp at h
  | cons c cov ih => cases r with
    | nil => simp at h
    | cons a r =>
      rw [List.zip_cons_cons]
      exact List.Forall₂.cons (fun _ => rfl) (ih r (by simpa using h))

end ordered

end Dino.Regrid
