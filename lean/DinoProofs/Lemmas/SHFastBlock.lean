import DinoProofs.Lemmas.SHEquivLat

/-! Block locality on ARBITRARY arrays of the fast modal shape (review 2, N-C09-b).

`unIota (2M) L` (the unpadded block: rows `0, 2, …, 2M-1`, columns `< L`) commutes with every entrywise
operation used by `cos_lat_grad` / `div_cos_lat` / `curl_cos_lat` (`divAll`, `madd`, `msub`, `mneg`,
`clip1`, `clipIf`) and intertwines the longitude derivative of the fast layout with the one of the real
layout — for every array of the fast shape, whatever it holds in row 1, in the padding rows and in the
padding columns.  Together with `fastDD_block` (`Lemmas/SHEquivLat.lean`) this makes the `clip=False`
composites composable: the output of an unclipped operator is not an `ι`-image (padding column `L`),
but it is an array of the fast shape. -/
namespace Dino.SHEquiv
open Finset Dino.Lin Dino.SH
variable {K : Type} [Field K]

omit [Field K] in
/-- the unpadded block of a fast-shaped array has the real shape -/
theorem unIota_realShaped (M L pr pc : Nat) (hM : 1 ≤ M) (y : List (List K)) (hy : FastShaped M L pr pc y) :
    RealShaped M L (unIota (2 * M) L y) :=
  ⟨unIota_length _ _ _ (by omega) (by rw [hy.1]; omega),
   unIota_rows _ _ _ (fun r hr => by rw [hy.2 r hr]; omega)⟩

/-- `unIota A = B` as soon as the entries of the block agree -/
theorem unIota_eq_of_entries (M L pr pc : Nat) (hM : 1 ≤ M) (A B : List (List K))
    (hA : FastShaped M L pr pc A) (hB : RealShaped M L B)
    (h : ∀ r l, l < L → src r < 2 * M → ent2 A (src r) l = ent2 B r l) : unIota (2 * M) L A = B := by
  have hU := unIota_realShaped M L pr pc hM A hA
  apply ext_ent2 _ _ L (by rw [hU.1, hB.1]) hU.2 hB.2
  intro r l
  rw [ent2_unIota]
  by_cases hin : l < L ∧ src r < 2 * M
  · rw [if_pos hin]; exact h r l hin.1 hin.2
  · rw [if_neg hin]
    by_cases hl : l < L
    · have hns : ¬ src r < 2 * M := fun h => hin ⟨hl, h⟩
      rw [ent2_of_length_le _ r l (by rw [hB.1]; unfold src at hns; split at hns <;> omega)]
    · rw [ent2_of_width_le _ L r l (fun r hr => le_of_eq (hB.2 r hr)) (by omega)]

theorem src_lt_real (M r : Nat) (h : src r < 2 * M) : r < 2 * M - 1 := by
  unfold src at h; split at h <;> omega

/-! ### the entrywise operations -/

theorem unIota_divAll (M L pr pc : Nat) (hM : 1 ≤ M) (A : List (List K)) (r : K)
    (hA : FastShaped M L pr pc A) : unIota (2 * M) L (divAll A r) = divAll (unIota (2 * M) L A) r := by
  apply unIota_eq_of_entries M L pr pc hM _ _ (divAll_fastShaped M L pr pc A r hA)
    (divAll_realShaped M L _ r (unIota_realShaped M L pr pc hM A hA))
  intro i l hl hs
  rw [ent2_divAll, ent2_divAll, ent2_unIota, if_pos ⟨hl, hs⟩]

theorem unIota_mneg (M L pr pc : Nat) (hM : 1 ≤ M) (A : List (List K))
    (hA : FastShaped M L pr pc A) : unIota (2 * M) L (mneg A) = mneg (unIota (2 * M) L A) := by
  apply unIota_eq_of_entries M L pr pc hM _ _ (mneg_fastShaped M L pr pc A hA)
    (mneg_realShaped M L _ (unIota_realShaped M L pr pc hM A hA))
  intro i l hl hs
  rw [ent2_mneg, ent2_mneg, ent2_unIota, if_pos ⟨hl, hs⟩]

theorem unIota_madd (M L pr pc : Nat) (hM : 1 ≤ M) (A B : List (List K))
    (hA : FastShaped M L pr pc A) (hB : FastShaped M L pr pc B) :
    unIota (2 * M) L (madd A B) = madd (unIota (2 * M) L A) (unIota (2 * M) L B) := by
  have hUA := unIota_realShaped M L pr pc hM A hA
  have hUB := unIota_realShaped M L pr pc hM B hB
  apply unIota_eq_of_entries M L pr pc hM _ _ (madd_fastShaped M L pr pc A B hA hB)
    (madd_realShaped M L _ _ hUA hUB)
  intro i l hl hs
  rw [ent2_madd A B (L + pc) (by rw [hA.1, hB.1]) hA.2 hB.2,
    ent2_madd _ _ L (by rw [hUA.1, hUB.1]) hUA.2 hUB.2, ent2_unIota, ent2_unIota, if_pos ⟨hl, hs⟩,
    if_pos ⟨hl, hs⟩]

theorem unIota_msub (M L pr pc : Nat) (hM : 1 ≤ M) (A B : List (List K))
    (hA : FastShaped M L pr pc A) (hB : FastShaped M L pr pc B) :
    unIota (2 * M) L (msub A B) = msub (unIota (2 * M) L A) (unIota (2 * M) L B) := by
  have hUA := unIota_realShaped M L pr pc hM A hA
  have hUB := unIota_realShaped M L pr pc hM B hB
  apply unIota_eq_of_entries M L pr pc hM _ _ (msub_fastShaped M L pr pc A B hA hB)
    (msub_realShaped M L _ _ hUA hUB)
  intro i l hl hs
  rw [ent2_msub A B (L + pc) (by rw [hA.1, hB.1]) hA.2 hB.2,
    ent2_msub _ _ L (by rw [hUA.1, hUB.1]) hUA.2 hUB.2, ent2_unIota, ent2_unIota, if_pos ⟨hl, hs⟩,
    if_pos ⟨hl, hs⟩]

/-- `clip_wavenumbers` (`n = 1`) of the fast layout, restricted to the block, is `clip_wavenumbers` of the
 real layout applied to the block -/
theorem unIota_clip1 (M L pr pc : Nat) (hM : 1 ≤ M) (A : List (List K)) (hA : FastShaped M L pr pc A) :
    unIota (2 * M) L (clip1 L pc A) = clip1 L 0 (unIota (2 * M) L A) := by
  apply unIota_eq_of_entries M L pr pc hM _ _ (clip1_fastShaped M L pr pc A hA)
    (clip1_realShaped M L _ (unIota_realShaped M L pr pc hM A hA))
  intro i l hl hs
  have e : l < L ∧ src i < 2 * M := ⟨hl, hs⟩
  rw [ent2_clip1, ent2_clip1, ent2_unIota, if_pos e]

theorem clipIf_fastShaped (M L pr pc : Nat) (c : Bool) (A : List (List K)) (hA : FastShaped M L pr pc A) :
    FastShaped M L pr pc (clipIf c L pc A) := by
  unfold clipIf
  split
  · exact clip1_fastShaped M L pr pc A hA
  · exact hA

theorem clipIf_realShaped (M L : Nat) (c : Bool) (A : List (List K)) (hA : RealShaped M L A) :
    RealShaped M L (clipIf c L 0 A) := by
  unfold clipIf
  split
  · exact clip1_realShaped M L A hA
  · exact hA

theorem unIota_clipIf (M L pr pc : Nat) (hM : 1 ≤ M) (c : Bool) (A : List (List K))
    (hA : FastShaped M L pr pc A) :
    unIota (2 * M) L (clipIf c L pc A) = clipIf c L 0 (unIota (2 * M) L A) := by
  unfold clipIf
  split
  · exact unIota_clip1 M L pr pc hM A hA
  · rfl

/-! ### the longitude derivative -/

/-- **block locality of `real_basis_derivative_with_zero_imag`**: for every array of the fast shape the
 unpadded block of the fast longitude derivative is the real longitude derivative of the unpadded block
 (row `0` is `0 · y[1]`, rows `2k, 2k+1` are `k · (y[2k+1], −y[2k])`: rows `≥ 2M` and row 1 are never read
 by a row of the block, and row 1 only with the factor `0`) -/
theorem zeroImagDerivative_block (M L pr pc : Nat) (hM : 1 ≤ M) (y : List (List K))
    (hy : FastShaped M L pr pc y) :
    unIota (2 * M) L (Fourier.zeroImagDerivative y (L + pc) 0)
      = Fourier.realDerivative (unIota (2 * M) L y) L := by
  have hU := unIota_realShaped M L pr pc hM y hy
  apply unIota_eq_of_entries M L pr pc hM _ _ (zeroImagDerivative_fastShaped M L pr pc y hy)
    (realDerivative_realShaped M L _ hU)
  intro r l hl hs
  have hr := src_lt_real M r hs
  rw [ent2_zeroImagDerivative, ent2_realDerivative, hU.1, if_pos hr, if_pos (by rw [hy.1]; omega)]
  by_cases h0 : r = 0
  · subst h0
    have : src 0 = 0 := rfl
    simp [this]
  by_cases h1 : r % 2 = 1
  · have hsr : src r = r + 1 := by unfold src; rw [if_neg h0]
    have e1 : (src r + 1) % 2 = 1 := by rw [hsr]; omega
    have e2 : src (r + 1) = r + 2 := by unfold src; rw [if_neg (by omega)]
    have e3 : l < L ∧ src (r + 1) < 2 * M := ⟨hl, by rw [e2]; omega⟩
    rw [if_pos e1, if_pos h1, ent2_unIota, if_pos e3, e2, hsr, Nat.zero_add]
  · have hsr : src r = r + 1 := by unfold src; rw [if_neg h0]
    have e1 : ¬ (src r + 1) % 2 = 1 := by rw [hsr]; omega
    have e2 : src (r - 1) = r := by unfold src; rw [if_neg (by omega)]; omega
    have e3 : l < L ∧ src (r - 1) < 2 * M := ⟨hl, by rw [e2]; omega⟩
    rw [if_neg e1, if_neg h1, if_neg h0, ent2_unIota, if_pos e3, e2, hsr, Nat.zero_add,
      Nat.add_sub_cancel]

/-! ### "equal outside padding column `L`" is a congruence for every operation of the fast layout

`EqOff L A B` (all entries agree except possibly those of column `L`) is what the unclipped operators
satisfy against the `ι`-image of the reference result.  It is preserved by the entrywise operations, by the
longitude derivative, by clipping and — with `√0 = 0` — by the latitude derivatives: the weight
`a_fast[·][L]` that would bring column `L` back to column `L - 1` and the weight `b_fast[·][L]` that would
push it on to column `L + 1` are both masked.  So the deviation stays confined to column `L` through
compositions of any depth. -/

theorem EqOff.refl (c : Nat) (A : List (List K)) : EqOff c A A := fun _ _ _ => rfl

theorem EqOff.of_eq {c : Nat} {A B : List (List K)} (h : A = B) : EqOff c A B := by
  subst h; exact fun _ _ _ => rfl

theorem EqOff.symm {c : Nat} {A B : List (List K)} (h : EqOff c A B) : EqOff c B A :=
  fun i l hl => (h i l hl).symm

theorem EqOff.trans {c : Nat} {A B C : List (List K)} (h : EqOff c A B) (h' : EqOff c B C) : EqOff c A C :=
  fun i l hl => (h i l hl).trans (h' i l hl)

/-- `EqOff` from finitely many entries (for concrete arrays) -/
theorem EqOff.of_bounded {c : Nat} {A B : List (List K)} (n w : Nat) (hA : A.length = n) (hB : B.length = n)
    (rA : ∀ r ∈ A, r.length = w) (rB : ∀ r ∈ B, r.length = w)
    (h : ∀ i, i < n → ∀ l, l < w → l ≠ c → ent2 A i l = ent2 B i l) : EqOff c A B := by
  intro i l hl
  by_cases hi : i < n
  · by_cases hw : l < w
    · exact h i hi l hw hl
    · rw [ent2_of_width_le A w i l (fun r hr => le_of_eq (rA r hr)) (by omega),
        ent2_of_width_le B w i l (fun r hr => le_of_eq (rB r hr)) (by omega)]
  · rw [ent2_of_length_le A i l (by omega), ent2_of_length_le B i l (by omega)]

theorem EqOff.madd {c : Nat} {A A' B B' : List (List K)} (hA : EqOff c A A') (hB : EqOff c B B') (w : Nat)
    (hl : A.length = B.length) (hl' : A'.length = B'.length) (rA : ∀ r ∈ A, r.length = w)
    (rB : ∀ r ∈ B, r.length = w) (rA' : ∀ r ∈ A', r.length = w) (rB' : ∀ r ∈ B', r.length = w) :
    EqOff c (madd A B) (madd A' B') := by
  intro i l h
  rw [ent2_madd A B w hl rA rB, ent2_madd A' B' w hl' rA' rB', hA i l h, hB i l h]

theorem EqOff.msub {c : Nat} {A A' B B' : List (List K)} (hA : EqOff c A A') (hB : EqOff c B B') (w : Nat)
    (hl : A.length = B.length) (hl' : A'.length = B'.length) (rA : ∀ r ∈ A, r.length = w)
    (rB : ∀ r ∈ B, r.length = w) (rA' : ∀ r ∈ A', r.length = w) (rB' : ∀ r ∈ B', r.length = w) :
    EqOff c (msub A B) (msub A' B') := by
  intro i l h
  rw [ent2_msub A B w hl rA rB, ent2_msub A' B' w hl' rA' rB', hA i l h, hB i l h]

theorem EqOff.mneg {c : Nat} {A B : List (List K)} (h : EqOff c A B) : EqOff c (mneg A) (mneg B) := by
  intro i l hl; rw [ent2_mneg, ent2_mneg, h i l hl]

theorem EqOff.clip1 {c : Nat} {A B : List (List K)} (h : EqOff c A B) (L pc : Nat) :
    EqOff c (clip1 L pc A) (clip1 L pc B) := by
  intro i l hl; rw [ent2_clip1, ent2_clip1, h i l hl]

theorem EqOff.clipIf {c : Nat} {A B : List (List K)} (h : EqOff c A B) (b : Bool) (L pc : Nat) :
    EqOff c (clipIf b L pc A) (clipIf b L pc B) := by
  unfold SHEquiv.clipIf
  split
  · exact h.clip1 L pc
  · exact h

/-- the longitude derivative acts on rows: it keeps every column to itself -/
theorem EqOff.zeroImagDerivative {c : Nat} {A B : List (List K)} (h : EqOff c A B)
    (hl : A.length = B.length) (w off : Nat) :
    EqOff c (Fourier.zeroImagDerivative A w off) (Fourier.zeroImagDerivative B w off) := by
  intro i l hc
  rw [ent2_zeroImagDerivative, ent2_zeroImagDerivative, hl, h (i + 1) l hc, h (i - 1) l hc]

/-- **the fast latitude derivative keeps a deviation in padding column `L` confined to column `L`**
 (`√0 = 0`): two fast-shaped arrays that agree outside column `L` have derivatives that agree outside
 column `L` -/
theorem fastDD_congr_eqOff (cl cr : Nat → K) (sqrt : K → K) (hs : sqrt 0 = 0) (M L pr pc : Nat) (hM : 1 ≤ M)
    (y y' : List (List K)) (hy : FastShaped M L pr pc y) (hy' : FastShaped M L pr pc y')
    (h : EqOff L y y') : EqOff L (fastDD cl cr sqrt M L pr pc y) (fastDD cl cr sqrt M L pr pc y') := by
  intro i l _
  rw [ent2_fastDD cl cr sqrt M L pr pc hM y hy.1 hy.2, ent2_fastDD cl cr sqrt M L pr pc hM y' hy'.1 hy'.2]
  congr 1
  · by_cases e : l + 1 = L
    · rw [e, (fastWeights_outside sqrt hs M L pr pc hM i L (Or.inr (Or.inr (le_refl L)))).1]; ring
    · rw [h i (l + 1) e]
  · by_cases e : l - 1 = L
    · rw [e, (fastWeights_outside sqrt hs M L pr pc hM i L (Or.inr (Or.inr (le_refl L)))).2]; simp
    · rw [h i (l - 1) e]

end Dino.SHEquiv
