import Dino.Dynamics
import Dino.Imex
import Mathlib.Algebra.Module.Basic
import Mathlib.Algebra.Module.LinearMap.Defs
import Mathlib.Algebra.Module.LinearMap.Basic
import Mathlib.Algebra.Algebra.Basic
import Mathlib.Algebra.Algebra.Hom
import Mathlib.Algebra.BigOperators.Group.List.Basic
import Mathlib.Tactic.Module
import Mathlib.Tactic.Ring
import Mathlib.Tactic.LinearCombination

/-!
# Lemmas for C10 (symmetries), part 1: the abstract hub

A symmetry of the horizontal operations `h : HOps K M N` is a triple `S = (ρM, ρN, ε)`:
a `K`-linear map of modal level-fields, a `K`-algebra map of nodal level-fields (additive,
multiplicative, fixes constants) and a sign `ε` (`ε·ε = 1`): `ε = 1` for rotations about the
polar axis, `ε = -1` for the equatorial mirror.  Quantities are *even* (transform by `ρ`) or
*odd* (transform by `ε • ρ`): vorticity, the meridional wind component, the meridional
component of gradients and `sin(lat)` are odd; everything else is even.

Here: (1) every column routine of `Dino.Dynamics.Col` commutes with mapping a linear map over
the levels — no length hypotheses are needed; (2) the parity calculus of nodal products.
-/
namespace Dino.Symmetry
open Dino Dino.Dynamics

/-! ## lists -/
section lists
variable {α β γ α' β' γ' : Type}

theorem zipWith_map_comm (f : α → β → γ) (f' : α' → β' → γ') (ra : α → α') (rb : β → β')
    (rc : γ → γ') (h : ∀ a b, f' (ra a) (rb b) = rc (f a b)) (x : List α) (y : List β) :
    List.zipWith f' (x.map ra) (y.map rb) = (List.zipWith f x y).map rc := by
  rw [List.zipWith_map, List.map_zipWith]
  congr 1
  funext a b
  exact h a b

theorem zipWith_map_left_comm (f : α → β → γ) (f' : α' → β → γ') (ra : α → α')
    (rc : γ → γ') (h : ∀ a b, f' (ra a) b = rc (f a b)) (x : List α) (y : List β) :
    List.zipWith f' (x.map ra) y = (List.zipWith f x y).map rc := by
  have := zipWith_map_comm f f' ra id rc h x y
  simpa using this

theorem zipWith_map_right_comm (f : α → β → γ) (f' : α → β' → γ') (rb : β → β')
    (rc : γ → γ') (h : ∀ a b, f' a (rb b) = rc (f a b)) (x : List α) (y : List β) :
    List.zipWith f' x (y.map rb) = (List.zipWith f x y).map rc := by
  have := zipWith_map_comm f f' id rb rc h x y
  simpa using this

theorem map_map_comm (f : α → β) (f' : α' → β') (ra : α → α') (rb : β → β')
    (h : ∀ a, f' (ra a) = rb (f a)) (x : List α) : (x.map ra).map f' = (x.map f).map rb := by
  rw [List.map_map, List.map_map]
  congr 1
  funext a
  exact h a

theorem getLastD_map (f : α → β) (x : List α) (d : α) : (x.map f).getLastD (f d) = f (x.getLastD d) := by
  rw [List.getLastD_eq_getLast?, List.getLastD_eq_getLast?, List.getLast?_map]
  cases x.getLast? <;> rfl

theorem headD_map (f : α → β) (x : List α) (d : α) : (x.map f).headD (f d) = f (x.headD d) := by
  cases x <;> rfl

end lists

/-! ## column routines commute with a linear map applied level by level -/
section col
variable {K V W : Type} [Field K] [AddCommGroup V] [Module K V] [AddCommGroup W] [Module K W]
variable (φ : V →ₗ[K] W)

theorem col_add (x y : List V) : Col.add (x.map φ) (y.map φ) = (Col.add x y).map φ :=
  zipWith_map_comm _ _ _ _ _ (fun a b => (map_add φ a b).symm) x y

theorem col_sub (x y : List V) : Col.sub (x.map φ) (y.map φ) = (Col.sub x y).map φ :=
  zipWith_map_comm _ _ _ _ _ (fun a b => (map_sub φ a b).symm) x y

theorem col_neg (x : List V) : Col.neg (x.map φ) = (Col.neg x).map φ :=
  map_map_comm _ _ _ _ (fun a => (map_neg φ a).symm) x

theorem col_smul (c : K) (x : List V) : Col.smul c (x.map φ) = (Col.smul c x).map φ :=
  map_map_comm _ _ _ _ (fun a => (map_smul φ c a).symm) x

theorem col_wmul (w : List K) (x : List V) : Col.wmul w (x.map φ) = (Col.wmul w x).map φ :=
  zipWith_map_right_comm _ _ _ _ (fun c a => (map_smul φ c a).symm) w x

theorem col_addLevel (x : List V) (a : V) : Col.addLevel (x.map φ) (φ a) = (Col.addLevel x a).map φ :=
  map_map_comm _ _ _ _ (fun v => (map_add φ v a).symm) x

theorem col_zerosLike {U : Type} (x : List U) (f : U → U) :
    (Col.zerosLike (x.map f) : List W) = (Col.zerosLike x : List V).map φ := by
  simp [Col.zerosLike, Function.comp_def]

theorem col_zeros (n : ℕ) : (Col.zeros n : List W) = (Col.zeros n : List V).map φ := by
  simp [Col.zeros]

theorem col_cumsumFrom (acc : V) (x : List V) :
    Col.cumsumFrom (φ acc) (x.map φ) = (Col.cumsumFrom acc x).map φ := by
  induction x generalizing acc with
  | nil => rfl
  | cons a t ih =>
    simp only [List.map_cons, Col.cumsumFrom]
    rw [← map_add, ih]

theorem col_cumsum (x : List V) : Col.cumsum (x.map φ) = (Col.cumsum x).map φ := by
  unfold Col.cumsum
  rw [← col_cumsumFrom, map_zero]

theorem col_diffs (x : List V) : Col.diffs (x.map φ) = (Col.diffs x).map φ := by
  induction x with
  | nil => rfl
  | cons a t ih =>
    cases t with
    | nil => rfl
    | cons b u =>
      simp only [List.map_cons, Col.diffs] at ih ⊢
      rw [ih, map_sub]

theorem col_sum (x : List V) : (x.map φ).sum = φ x.sum := by
  induction x with
  | nil => simp
  | cons a t ih => simp [ih]

theorem col_cumSigmaIntegral (ds : List K) (x : List V) :
    Col.cumSigmaIntegral ds (x.map φ) = (Col.cumSigmaIntegral ds x).map φ := by
  unfold Col.cumSigmaIntegral
  rw [col_wmul, col_cumsum]

theorem col_sigmaIntegral (ds : List K) (x : List V) :
    Col.sigmaIntegral ds (x.map φ) = φ (Col.sigmaIntegral ds x) := by
  unfold Col.sigmaIntegral
  rw [col_wmul, col_sum]

theorem col_centeredDifference (ctc : List K) (x : List V) :
    Col.centeredDifference ctc (x.map φ) = (Col.centeredDifference ctc x).map φ := by
  unfold Col.centeredDifference
  rw [col_diffs]
  exact zipWith_map_left_comm _ _ _ _ (fun d c => (map_smul φ (1 / c) d).symm) _ _

theorem col_matvec (a : List (List K)) (x : List V) :
    Col.matvec a (x.map φ) = (Col.matvec a x).map φ := by
  unfold Col.matvec
  rw [List.map_map]
  congr 1
  funext row
  simp only [Function.comp]
  rw [col_wmul, col_sum]

end col
end Dino.Symmetry
