import DinoProofs.Lemmas.Invariants
import Mathlib.Algebra.Module.Submodule.Defs
import Mathlib.Algebra.Algebra.Defs
import Mathlib.Tactic.Ring
import Mathlib.Tactic.Module
import Mathlib.Tactic.Abel

/-!
# Closure of the `Dynamics` operations on the structural submodules — lemma layer of C11

`Mk` = spectral fields whose coefficients outside the modal mask vanish, `S ≤ Mk` = those whose
clipped top total wavenumber vanishes as well, `Z` = fields whose `(0,0)` coefficient vanishes.
They are abstract submodules of the carrier `M` of `Dynamics.HOps`; what the theorems need of the
horizontal record is collected in the `Prop` structures `OpsClosed` and `Mean0`, each field of
which is validated on the real `spherical_harmonic.Grid` by `harness/props/C11.py`.
-/
set_option linter.unusedSectionVars false

namespace Dino.Invariants
open Dino Dino.Dynamics

/-- every element of a list satisfies `P` -/
def AllP {α : Type} (P : α → Prop) (l : List α) : Prop := ∀ x ∈ l, P x

section lists
variable {α β γ : Type}

theorem allP_nil (P : α → Prop) : AllP P [] := by intro x hx; cases hx

theorem allP_map_of {P : β → Prop} (f : α → β) (l : List α) (h : ∀ x, P (f x)) :
    AllP P (l.map f) := by
  intro y hy; obtain ⟨x, _, rfl⟩ := List.mem_map.1 hy; exact h x

theorem allP_map {Q : α → Prop} {P : β → Prop} (f : α → β) {l : List α} (hl : AllP Q l)
    (h : ∀ x, Q x → P (f x)) : AllP P (l.map f) := by
  intro y hy; obtain ⟨x, hx, rfl⟩ := List.mem_map.1 hy; exact h x (hl x hx)

theorem mem_zipWith_elim {f : α → β → γ} {a : List α} {b : List β} {z : γ}
    (hz : z ∈ List.zipWith f a b) : ∃ x ∈ a, ∃ y ∈ b, z = f x y := by
  induction a generalizing b with
  | nil => simp at hz
  | cons x a ih =>
    cases b with
    | nil => simp at hz
    | cons y b =>
      simp only [List.zipWith_cons_cons, List.mem_cons] at hz
      rcases hz with rfl | hz
      · exact ⟨x, List.mem_cons_self, y, List.mem_cons_self, rfl⟩
      · obtain ⟨x', hx', y', hy', e⟩ := ih hz
        exact ⟨x', List.mem_cons_of_mem _ hx', y', List.mem_cons_of_mem _ hy', e⟩

theorem allP_zipWith_of {P : γ → Prop} (f : α → β → γ) (a : List α) (b : List β)
    (h : ∀ x y, P (f x y)) : AllP P (List.zipWith f a b) := by
  intro z hz; obtain ⟨x, _, y, _, rfl⟩ := mem_zipWith_elim hz; exact h x y

theorem allP_zipWith {Q : α → Prop} {R : β → Prop} {P : γ → Prop} (f : α → β → γ)
    {a : List α} {b : List β} (ha : AllP Q a) (hb : AllP R b)
    (h : ∀ x y, Q x → R y → P (f x y)) : AllP P (List.zipWith f a b) := by
  intro z hz; obtain ⟨x, hx, y, hy, rfl⟩ := mem_zipWith_elim hz; exact h x y (ha x hx) (hb y hy)

theorem allP_zipWith_left {Q : α → Prop} {P : γ → Prop} (f : α → β → γ)
    {a : List α} (b : List β) (ha : AllP Q a)
    (h : ∀ x y, Q x → P (f x y)) : AllP P (List.zipWith f a b) := by
  intro z hz; obtain ⟨x, hx, y, _, rfl⟩ := mem_zipWith_elim hz; exact h x y (ha x hx)

theorem allP_zipWith_right {R : β → Prop} {P : γ → Prop} (f : α → β → γ)
    (a : List α) {b : List β} (hb : AllP R b)
    (h : ∀ x y, R y → P (f x y)) : AllP P (List.zipWith f a b) := by
  intro z hz; obtain ⟨x, _, y, hy, rfl⟩ := mem_zipWith_elim hz; exact h x y (hb y hy)

theorem allP_dropLast {P : α → Prop} {l : List α} (h : AllP P l) : AllP P l.dropLast :=
  fun x hx => h x (List.mem_of_mem_dropLast hx)

theorem allP_replicate {P : α → Prop} (n : Nat) {a : α} (h : P a) : AllP P (List.replicate n a) :=
  fun x hx => by rw [List.eq_of_mem_replicate hx]; exact h

end lists

/-! ## submodule membership of the column routines -/
section cols
variable {K M : Type} [Field K] [AddCommGroup M] [Module K M] (T : Submodule K M)

theorem col_add_mem {a b : List M} (ha : AllP (· ∈ T) a) (hb : AllP (· ∈ T) b) :
    AllP (· ∈ T) (Col.add a b) :=
  allP_zipWith _ ha hb fun _ _ hx hy => T.add_mem hx hy

theorem col_sub_mem {a b : List M} (ha : AllP (· ∈ T) a) (hb : AllP (· ∈ T) b) :
    AllP (· ∈ T) (Col.sub a b) :=
  allP_zipWith _ ha hb fun _ _ hx hy => T.sub_mem hx hy

theorem col_neg_mem {a : List M} (ha : AllP (· ∈ T) a) : AllP (· ∈ T) (Col.neg a) :=
  allP_map _ ha fun _ hx => T.neg_mem hx

theorem col_smul_mem (c : K) {a : List M} (ha : AllP (· ∈ T) a) : AllP (· ∈ T) (Col.smul c a) :=
  allP_map _ ha fun _ hx => T.smul_mem c hx

theorem col_wmul_mem (w : List K) {a : List M} (ha : AllP (· ∈ T) a) :
    AllP (· ∈ T) (Col.wmul w a) :=
  allP_zipWith_right _ w ha fun c _ hy => T.smul_mem c hy

theorem col_addLevel_mem {a : List M} {x : M} (ha : AllP (· ∈ T) a) (hx : x ∈ T) :
    AllP (· ∈ T) (Col.addLevel a x) :=
  allP_map _ ha fun _ hy => T.add_mem hy hx

theorem col_zeros_mem (n : Nat) : AllP (· ∈ T) (Col.zeros n : List M) :=
  allP_replicate n T.zero_mem

theorem col_zerosLike_mem {W : Type} (x : List W) : AllP (· ∈ T) (Col.zerosLike x : List M) :=
  allP_map_of _ _ fun _ => T.zero_mem

theorem list_sum_mem {l : List M} (h : AllP (· ∈ T) l) : l.sum ∈ T := by
  induction l with
  | nil => simp
  | cons a l ih =>
    rw [List.sum_cons]
    exact T.add_mem (h a List.mem_cons_self) (ih fun x hx => h x (List.mem_cons_of_mem _ hx))

theorem headD_mem {l : List M} (h : AllP (· ∈ T) l) : l.headD 0 ∈ T := by
  cases l with
  | nil => exact T.zero_mem
  | cons a t => exact h a List.mem_cons_self

theorem col_matvec_mem (a : List (List K)) {x : List M} (hx : AllP (· ∈ T) x) :
    AllP (· ∈ T) (Col.matvec a x) :=
  allP_map_of _ _ fun row => list_sum_mem T (col_wmul_mem T row hx)

theorem col_sigmaIntegral_mem (ds : List K) {x : List M} (hx : AllP (· ∈ T) x) :
    Col.sigmaIntegral ds x ∈ T :=
  list_sum_mem T (col_wmul_mem T ds hx)

theorem foldl_col_add_mem {ls : List (List M)} (h : ∀ l ∈ ls, AllP (· ∈ T) l) :
    ∀ {acc : List M}, AllP (· ∈ T) acc → AllP (· ∈ T) (ls.foldl Col.add acc) := by
  induction ls with
  | nil => intro acc hacc; simpa using hacc
  | cons l ls ih =>
    intro acc hacc
    simp only [List.foldl_cons]
    exact ih (fun l' hl' => h l' (List.mem_cons_of_mem _ hl'))
      (col_add_mem T hacc (h l List.mem_cons_self))

end cols

/-! ## the hypotheses on the horizontal record -/
section ops
variable {K M N : Type} [Field K] [AddCommGroup M] [Module K M]

/-- structural closure of one `Grid`'s operators: `Mk` ⊇ `S`; every spectral transform lands in
 `Mk`; the differential operators map `Mk → Mk`; `clip_wavenumbers` maps `Mk → S`; the operators
 that act per total wavenumber map `S → S` -/
structure OpsClosed (h : HOps K M N) (Mk S : Submodule K M) : Prop where
  S_le : ∀ x ∈ S, x ∈ Mk
  toModal_mem : ∀ z, h.toModal z ∈ Mk
  dDlon_mem : ∀ x ∈ Mk, h.dDlon x ∈ Mk
  secLat_mem : ∀ x ∈ Mk, h.secLatDDlatCos2 x ∈ Mk
  laplacian_mem : ∀ x ∈ Mk, h.laplacian x ∈ Mk
  clip_mem : ∀ x ∈ Mk, h.clip x ∈ S
  laplacian_S : ∀ x ∈ S, h.laplacian x ∈ S
  lproj_S : ∀ l, ∀ x ∈ S, h.lproj l x ∈ S

/-- `div`, `curl` and the Laplacian annihilate the constant mode; clipping keeps it zero -/
structure Mean0 (h : HOps K M N) (Z : Submodule K M) : Prop where
  dDlon_mem : ∀ x, h.dDlon x ∈ Z
  secLat_mem : ∀ x, h.secLatDDlatCos2 x ∈ Z
  laplacian_mem : ∀ x, h.laplacian x ∈ Z
  clip_mem : ∀ x ∈ Z, h.clip x ∈ Z

variable {h : HOps K M N} {Mk S Z : Submodule K M}

theorem OpsClosed.divCosLat_mem (H : OpsClosed h Mk S) {v : M × M} (h1 : v.1 ∈ Mk) (h2 : v.2 ∈ Mk) :
    h.divCosLat false v ∈ Mk := by
  simp only [HOps.divCosLat, Bool.false_eq_true, if_false]
  exact Mk.smul_mem _ (Mk.add_mem (H.dDlon_mem _ h1) (H.secLat_mem _ h2))

theorem OpsClosed.curlCosLat_mem (H : OpsClosed h Mk S) {v : M × M} (h1 : v.1 ∈ Mk) (h2 : v.2 ∈ Mk) :
    h.curlCosLat false v ∈ Mk := by
  simp only [HOps.curlCosLat, Bool.false_eq_true, if_false]
  exact Mk.smul_mem _ (Mk.sub_mem (H.dDlon_mem _ h2) (H.secLat_mem _ h1))

theorem OpsClosed.divSecLat_mem [Mul N] (H : OpsClosed h Mk S) (m n : N) : h.divSecLat m n ∈ Mk :=
  H.divCosLat_mem (H.toModal_mem _) (H.toModal_mem _)

theorem Mean0.divCosLat_mem (H : Mean0 h Z) (v : M × M) : h.divCosLat false v ∈ Z := by
  simp only [HOps.divCosLat, Bool.false_eq_true, if_false]
  exact Z.smul_mem _ (Z.add_mem (H.dDlon_mem _) (H.secLat_mem _))

theorem Mean0.curlCosLat_mem (H : Mean0 h Z) (v : M × M) : h.curlCosLat false v ∈ Z := by
  simp only [HOps.curlCosLat, Bool.false_eq_true, if_false]
  exact Z.smul_mem _ (Z.sub_mem (H.dDlon_mem _) (H.secLat_mem _))

/-- with clipping (`clip=True`), as the shallow-water equations call them -/
theorem Mean0.divCosLat_clip_mem (H : Mean0 h Z) (v : M × M) : h.divCosLat true v ∈ Z := by
  simp only [HOps.divCosLat, if_true]
  exact H.clip_mem _ (Z.smul_mem _ (Z.add_mem (H.dDlon_mem _) (H.secLat_mem _)))

theorem Mean0.curlCosLat_clip_mem (H : Mean0 h Z) (v : M × M) : h.curlCosLat true v ∈ Z := by
  simp only [HOps.curlCosLat, if_true]
  exact H.clip_mem _ (Z.smul_mem _ (Z.sub_mem (H.dDlon_mem _) (H.secLat_mem _)))

theorem OpsClosed.divCosLat_clip_mem (H : OpsClosed h Mk S) {v : M × M} (h1 : v.1 ∈ Mk)
    (h2 : v.2 ∈ Mk) : h.divCosLat true v ∈ S := by
  simp only [HOps.divCosLat, if_true]
  exact H.clip_mem _ (Mk.smul_mem _ (Mk.add_mem (H.dDlon_mem _ h1) (H.secLat_mem _ h2)))

theorem OpsClosed.curlCosLat_clip_mem (H : OpsClosed h Mk S) {v : M × M} (h1 : v.1 ∈ Mk)
    (h2 : v.2 ∈ Mk) : h.curlCosLat true v ∈ S := by
  simp only [HOps.curlCosLat, if_true]
  exact H.clip_mem _ (Mk.smul_mem _ (Mk.sub_mem (H.dDlon_mem _ h2) (H.secLat_mem _ h1)))

end ops

/-! ## leafwise predicates on states -/
section statepred
variable {K M : Type}

/-- every level of every tracer satisfies `P` -/
def TracersAll (P : M → Prop) (t : List (String × List M)) : Prop := ∀ kv ∈ t, AllP P kv.2

/-- every spectral leaf of the state satisfies `P`, level by level -/
def StateAll (P : M → Prop) (s : State M) : Prop :=
  AllP P s.vorticity ∧ AllP P s.divergence ∧ AllP P s.temperatureVariation ∧
    P s.logSurfacePressure ∧ TracersAll P s.tracers

theorem tracersAll_map {α : Type} {P : M → Prop} (f : α → List M) (t : List (String × α))
    (h : ∀ x, AllP P (f x)) : TracersAll P (mapTracers f t) := by
  intro kv hkv
  obtain ⟨x, _, rfl⟩ := List.mem_map.1 hkv
  exact h _

theorem tracersAll_map_of {Q P : M → Prop} (f : List M → List M) {t : List (String × List M)}
    (ht : TracersAll Q t) (h : ∀ x, AllP Q x → AllP P (f x)) : TracersAll P (mapTracers f t) := by
  intro kv hkv
  obtain ⟨x, hx, rfl⟩ := List.mem_map.1 hkv
  exact h _ (ht x hx)

theorem tracersAll_zip {P : M → Prop} (f : List M → List M → List M)
    {a b : List (String × List M)} (ha : TracersAll P a) (hb : TracersAll P b)
    (h : ∀ x y, AllP P x → AllP P y → AllP P (f x y)) : TracersAll P (State.zipTracers f a b) := by
  intro kv hkv
  obtain ⟨x, hx, y, hy, rfl⟩ := mem_zipWith_elim hkv
  exact h _ _ (ha x hx) (hb y hy)

end statepred

/-! ## the terms of the primitive equations -/
section terms
variable {K M N : Type} [Field K] [AddCommGroup M] [Module K M]
  [Add N] [Sub N] [Neg N] [Zero N] [Mul N] [One N] [SMul K N]
variable {Mk S Z : Submodule K M} (eq : PrimitiveEquations K M N)

theorem curlAndDiv_mem (H : OpsClosed eq.ops Mk S) (aux : Diag N) (rT : List N) :
    AllP (· ∈ Mk) (eq.curlAndDivTendenciesWith aux rT).1 ∧
    AllP (· ∈ Mk) (eq.curlAndDivTendenciesWith aux rT).2 := by
  unfold PrimitiveEquations.curlAndDivTendenciesWith
  have hm : ∀ l : List N, AllP (· ∈ Mk) (l.map eq.ops.toModal) :=
    fun l => allP_map_of _ _ H.toModal_mem
  exact ⟨allP_zipWith _ (hm _) (hm _) fun _ _ hx hy => Mk.neg_mem (H.curlCosLat_mem hx hy),
    allP_zipWith _ (hm _) (hm _) fun _ _ hx hy => Mk.neg_mem (H.divCosLat_mem hx hy)⟩

theorem curlAndDiv_mean0 (H : Mean0 eq.ops Z) (aux : Diag N) (rT : List N) :
    AllP (· ∈ Z) (eq.curlAndDivTendenciesWith aux rT).1 ∧
    AllP (· ∈ Z) (eq.curlAndDivTendenciesWith aux rT).2 := by
  unfold PrimitiveEquations.curlAndDivTendenciesWith
  exact ⟨allP_zipWith_of _ _ _ fun _ _ => Z.neg_mem (H.curlCosLat_mem _),
    allP_zipWith_of _ _ _ fun _ _ => Z.neg_mem (H.divCosLat_mem _)⟩

theorem kineticEnergy_mem (H : OpsClosed eq.ops Mk S) (aux : Diag N) :
    AllP (· ∈ Mk) (eq.kineticEnergyTendency aux) := by
  unfold PrimitiveEquations.kineticEnergyTendency
  exact allP_map_of _ _ fun _ => Mk.neg_mem (H.laplacian_mem _ (H.toModal_mem _))

theorem kineticEnergy_mean0 (H : Mean0 eq.ops Z) (aux : Diag N) :
    AllP (· ∈ Z) (eq.kineticEnergyTendency aux) := by
  unfold PrimitiveEquations.kineticEnergyTendency
  exact allP_map_of _ _ fun _ => Z.neg_mem (H.laplacian_mem _)

theorem orography_mem (H : OpsClosed eq.ops Mk S) (ho : eq.orography ∈ Mk) :
    eq.orographyTendency ∈ Mk :=
  Mk.smul_mem _ (H.laplacian_mem _ ho)

theorem orography_mean0 (H : Mean0 eq.ops Z) : eq.orographyTendency ∈ Z :=
  Z.smul_mem _ (H.laplacian_mem _)

theorem horizontalScalarAdvection_mem (H : OpsClosed eq.ops Mk S) (x : List N) (aux : Diag N) :
    AllP (· ∈ Mk) (eq.horizontalScalarAdvection x aux).2 := by
  unfold PrimitiveEquations.horizontalScalarAdvection
  exact allP_zipWith_of _ _ _ fun _ _ => Mk.neg_mem (H.divSecLat_mem _ _)

theorem tracerTendency_mem (H : OpsClosed eq.ops Mk S) (aux : Diag N) (x : List N) :
    AllP (· ∈ Mk) (eq.tracerTendency aux x) := by
  unfold PrimitiveEquations.tracerTendency
  exact col_add_mem Mk (allP_map_of _ _ H.toModal_mem) (horizontalScalarAdvection_mem eq H _ _)

theorem thermo_mem [BEq K] (H : OpsClosed eq.ops Mk S) (aux : Diag N) (ad : List N) :
    AllP (· ∈ Mk) (eq.thermoTendencies aux ad).1 ∧ (eq.thermoTendencies aux ad).2.1 ∈ Mk ∧
    TracersAll (· ∈ Mk) (eq.thermoTendencies aux ad).2.2 := by
  unfold PrimitiveEquations.thermoTendencies
  exact ⟨col_add_mem Mk (allP_map_of _ _ H.toModal_mem) (horizontalScalarAdvection_mem eq H _ _),
    H.toModal_mem _, tracersAll_map _ _ fun x => tracerTendency_mem eq H aux x⟩

/-- `clip_wavenumbers` on a state whose leaves are masked lands in `S` -/
theorem clipState_mem (H : OpsClosed eq.ops Mk S) {s : State M} (hs : StateAll (· ∈ Mk) s) :
    StateAll (· ∈ S) (eq.clipState s) := by
  obtain ⟨h1, h2, h3, h4, h5⟩ := hs
  exact ⟨allP_map _ h1 H.clip_mem, allP_map _ h2 H.clip_mem, allP_map _ h3 H.clip_mem,
    H.clip_mem _ h4, tracersAll_map_of _ h5 fun _ hx => allP_map _ hx H.clip_mem⟩

theorem clip_allP_mean0 (H : Mean0 eq.ops Z) {l : List M} (hl : AllP (· ∈ Z) l) :
    AllP (· ∈ Z) (l.map eq.ops.clip) :=
  allP_map _ hl H.clip_mem

end terms

/-! ## the executable `tree_math` vectors: tendencies, proper states, the clock frame -/
namespace TM
variable {K V : Type}

@[simp] theorem zero_def : (0 : TM V) = .zero := rfl
@[simp] theorem val_add_val [Add V] (x y : V) : (.val x + .val y : TM V) = .val (x + y) := rfl
@[simp] theorem zero_add' [Add V] (y : TM V) : (.zero + y : TM V) = y := by cases y <;> rfl
@[simp] theorem add_zero' [Add V] (x : TM V) : (x + .zero : TM V) = x := by cases x <;> rfl
@[simp] theorem err_add [Add V] (y : TM V) : (.err + y : TM V) = .err := by cases y <;> rfl
@[simp] theorem add_err [Add V] (x : TM V) : (x + .err : TM V) = .err := by cases x <;> rfl
@[simp] theorem smul_val [SMul K V] (c : K) (x : V) : (c • (.val x : TM V)) = .val (c • x) := rfl
@[simp] theorem smul_zero' [SMul K V] (c : K) : (c • (.zero : TM V)) = .zero := rfl
@[simp] theorem smul_err [SMul K V] (c : K) : (c • (.err : TM V)) = .err := rfl

/-- tendencies: the Python `0` or a state satisfying `Q` -/
def IsTend (Q : V → Prop) : TM V → Prop
  | .zero => True
  | .val s => Q s
  | .err => False

/-- proper states -/
def IsState (Q : V → Prop) : TM V → Prop
  | .val s => Q s
  | _ => False

end TM

section clock
variable {K M : Type} [Field K] [AddCommGroup M] [Module K M]

theorem stateAll_add (T : Submodule K M) {a b : State M} (ha : StateAll (· ∈ T) a)
    (hb : StateAll (· ∈ T) b) : StateAll (· ∈ T) (State.add a b) :=
  ⟨col_add_mem T ha.1 hb.1, col_add_mem T ha.2.1 hb.2.1, col_add_mem T ha.2.2.1 hb.2.2.1,
    T.add_mem ha.2.2.2.1 hb.2.2.2.1,
    tracersAll_zip _ ha.2.2.2.2 hb.2.2.2.2 fun _ _ hx hy => col_add_mem T hx hy⟩

theorem stateAll_smul (T : Submodule K M) (c : K) {a : State M} (ha : StateAll (· ∈ T) a) :
    StateAll (· ∈ T) (State.mapLevels (fun x => c • x) a) :=
  ⟨allP_map _ ha.1 fun _ h => T.smul_mem c h, allP_map _ ha.2.1 fun _ h => T.smul_mem c h,
    allP_map _ ha.2.2.1 fun _ h => T.smul_mem c h, T.smul_mem c ha.2.2.2.1,
    tracersAll_map_of _ ha.2.2.2.2 fun _ hx => allP_map _ hx fun _ h => T.smul_mem c h⟩

/-- the frame of the simulation clock on the executable `tree_math` vectors: tendencies and
 states whose spectral leaves all lie in `T`; the observable is `sim_time` -/
def clockFrame (T : Submodule K M) : Frame K (TM (StateWithTime K M)) K where
  S := TM.IsTend fun s => StateAll (· ∈ T) s.state
  P := TM.IsState fun s => StateAll (· ∈ T) s.state
  obs := fun x => match x with
    | .val s => s.simTime
    | _ => 0
  P_S := by intro x hx; cases x <;> simp_all [TM.IsTend, TM.IsState]
  P_add := by
    intro x y hx hy
    cases x <;> cases y <;> simp_all [TM.IsTend, TM.IsState]
    exact stateAll_add T hx hy
  P_smul := by
    intro c x hx
    cases x <;> simp_all [TM.IsState]
    exact stateAll_smul T c hx
  zero_mem := trivial
  add_mem := by
    intro x y hx hy
    cases x <;> cases y <;> simp_all [TM.IsTend]
    exact stateAll_add T hx hy
  smul_mem := by
    intro c x hx
    cases x <;> simp_all [TM.IsTend]
    exact stateAll_smul T c hx
  obs_zero := rfl
  obs_add := by
    intro x y hx hy
    cases x <;> cases y <;> simp_all [TM.IsTend]
    rfl
  obs_smul := by
    intro c x hx
    cases x <;> simp_all [TM.IsTend]
    rfl

end clock


end Dino.Invariants
