import DinoProofs.Lemmas.SymmetryRot
import DinoProofs.Lemmas.SymmetryOps

/-!
# Lemmas for C10, part 13: the equatorial mirror (T10.3)

On nodal arrays the mirror is the flip of the latitude axis, on modal arrays the sign `(−1)^(m+l)`.
`MirrorData` collects what the transforms need: the parity of the Legendre tables at mirrored nodes
and the symmetry of the quadrature weights.  For the tables computed by
`associated_legendre.evaluate` the parity is C01's `legendre_parity` (`Legendre.ent_row_neg`), given
nodes that are symmetric about the equator (`xs[J−1−j] = −xs[j]`) — a hypothesis on the output of
`scipy.special.roots_legendre` / the equiangular formulas, validated by the harness on every run.
-/
namespace Dino.Symmetry
open Finset Dino.Lin Dino.SH Dino.SHEquiv Dino.Fourier

set_option linter.unusedSectionVars false

section generic
variable {K : Type} [CommRing K]

/-- negation of a matrix -/
def negM (x : List (List K)) : List (List K) := x.map fun row => row.map fun v => -v

theorem ent2_negM (x : List (List K)) (r l : ℕ) : ent2 (negM x) r l = -ent2 x r l := by
  unfold negM ent2
  simp only [List.getD_eq_getElem?_getD, List.getElem?_map]
  cases x[r]? with
  | none => simp
  | some row =>
    simp only [Option.map_some, Option.getD_some, List.getElem?_map]
    cases row[l]? <;> simp

theorem negM_length (x : List (List K)) : (negM x).length = x.length := by simp [negM]

theorem negM_rows (x : List (List K)) (L : ℕ) (hx : ∀ row ∈ x, row.length = L) :
    ∀ row ∈ negM x, row.length = L := by
  intro row hrow
  simp only [negM, List.mem_map] at hrow
  obtain ⟨a, ha, rfl⟩ := hrow
  simp [hx a ha]

/-! ### `flipLat` -/

theorem flipLat_length {α : Type} (z : List (List α)) : (flipLat z).length = z.length := by simp [flipLat]

theorem flipLat_rows (z : List (List K)) (J : ℕ) (hz : ∀ zi ∈ z, zi.length = J) :
    ∀ zi ∈ flipLat z, zi.length = J := by
  intro zi h
  simp only [flipLat, List.mem_map] at h
  obtain ⟨a, ha, rfl⟩ := h
  simp [hz a ha]

theorem ent2_flipLat (z : List (List K)) (J : ℕ) (hz : ∀ zi ∈ z, zi.length = J) (i j : ℕ) (hj : j < J) :
    ent2 (flipLat z) i j = ent2 z i (J - 1 - j) := by
  unfold flipLat ent2
  simp only [List.getD_eq_getElem?_getD, List.getElem?_map]
  rcases Nat.lt_or_ge i z.length with hi | hi
  · rw [List.getElem?_eq_getElem hi]
    simp only [Option.map_some, Option.getD_some]
    have hl : z[i].length = J := hz _ (List.getElem_mem hi)
    rw [List.getElem?_reverse (by rw [hl]; exact hj), hl]
  · rw [List.getElem?_eq_none hi]; simp

/-- what the transforms need for the mirror -/
structure MirrorData (b : Basis K) (R J : ℕ) (mOf : ℕ → ℕ) : Prop where
  tables : ∀ r < R, ∀ j < J, ∀ l, ent3 b.p r (J - 1 - j) l = sgn (mOf r + l) * ent3 b.p r j l
  weights : ∀ j < J, ent b.w (J - 1 - j) = ent b.w j

variable {b : Basis K} {N R J L : ℕ} {mOf : ℕ → ℕ}

/-- **synthesis intertwines the sign `(−1)^(m+l)` with the flip of the latitude axis** -/
theorem ent2_synth_mirror (hb : Shaped b N R J L) (D : MirrorData b R J mOf) (x x' : List (List K))
    (hx : ∀ row ∈ x, row.length ≤ L) (hx' : ∀ row ∈ x', row.length ≤ L)
    (hsig : ∀ r < R, ∀ l, ent2 x' r l = sgn (mOf r + l) * ent2 x r l) (i j : ℕ) (hj : j < J) :
    ent2 (realSynth b J x') i j = ent2 (realSynth b J x) i (J - 1 - j) := by
  rw [ent2_realSynth b N R J L hb x' hx', ent2_realSynth b N R J L hb x hx]
  apply Finset.sum_congr rfl
  intro r hr
  have hr' := Finset.mem_range.1 hr
  congr 1
  apply Finset.sum_congr rfl
  intro l _
  have h1 := D.tables r hr' (J - 1 - j) (by omega) l
  have e : J - 1 - (J - 1 - j) = j := by omega
  rw [e] at h1
  rw [hsig r hr' l, h1]
  have := sgn_mul_self (K := K) (mOf r + l)
  linear_combination (ent3 b.p r (J - 1 - j) l * ent2 x r l) * this

/-- **analysis intertwines the flip with the sign** -/
theorem ent2_analysis_mirror (hb : Shaped b N R J L) (D : MirrorData b R J mOf) (z z' : List (List K))
    (hz : ∀ zi ∈ z, zi.length = J) (hzl : z.length ≤ N)
    (hz' : ∀ zi ∈ z', zi.length = J) (hzl' : z'.length ≤ N)
    (hflip : ∀ i, ∀ j < J, ent2 z' i j = ent2 z i (J - 1 - j)) (r : ℕ) (hr : r < R) (l : ℕ) :
    ent2 (realAnalysis b R J L z') r l = sgn (mOf r + l) * ent2 (realAnalysis b R J L z) r l := by
  rw [ent2_realAnalysis b N R J L hb z' hz' hzl' r l hr, ent2_realAnalysis b N R J L hb z hz hzl r l hr,
    ← Finset.sum_range_reflect, Finset.mul_sum]
  apply Finset.sum_congr rfl
  intro j hj
  have hj' := Finset.mem_range.1 hj
  have e : J - 1 - (J - 1 - j) = j := by omega
  rw [D.tables r hr j hj' l]
  have hin : ∑ i ∈ range N, ent2 b.f i r * (ent b.w (J - 1 - j) * ent2 z' i (J - 1 - j))
      = ∑ i ∈ range N, ent2 b.f i r * (ent b.w j * ent2 z i j) := by
    apply Finset.sum_congr rfl
    intro i _
    rw [D.weights j hj', hflip i (J - 1 - j) (by omega), e]
  rw [hin]
  ring

theorem synth_mirror_eq_flip (hb : Shaped b N R J L) (D : MirrorData b R J mOf) (x x' : List (List K))
    (hx : ∀ row ∈ x, row.length ≤ L) (hx' : ∀ row ∈ x', row.length ≤ L)
    (hsig : ∀ r < R, ∀ l, ent2 x' r l = sgn (mOf r + l) * ent2 x r l) :
    realSynth b J x' = flipLat (realSynth b J x) := by
  have hrows := realSynth_rows b N R J L hb x
  apply ext_ent2 _ _ J
  · rw [flipLat_length, realSynth_length, realSynth_length]
  · exact realSynth_rows b N R J L hb x'
  · exact flipLat_rows _ J hrows
  · intro i j
    rcases Nat.lt_or_ge j J with hj | hj
    · rw [ent2_flipLat _ J hrows i j hj]
      exact ent2_synth_mirror hb D x x' hx hx' hsig i j hj
    · rw [ent2_of_width_le _ J i j (fun r hr => le_of_eq (realSynth_rows b N R J L hb x' r hr)) hj,
        ent2_of_width_le _ J i j (fun r hr => le_of_eq (flipLat_rows _ J hrows r hr)) hj]

theorem analysis_flip_eq_mirror (hb : Shaped b N R J L) (D : MirrorData b R J mOf) (z : List (List K))
    (hz : ∀ zi ∈ z, zi.length = J) (hzl : z.length ≤ N) :
    realAnalysis b R J L (flipLat z) = mirrorModal mOf (fun l => l) (realAnalysis b R J L z) := by
  apply ext_ent2 _ _ L
  · rw [mirrorModal_length, realAnalysis_length b N R J L hb, realAnalysis_length b N R J L hb]
  · exact realAnalysis_rows b N R J L hb R _
  · exact mirrorModal_rows _ _ _ L (realAnalysis_rows b N R J L hb R _)
  · intro r l
    rw [ent2_mirrorModal]
    rcases Nat.lt_or_ge r R with hr | hr
    · exact ent2_analysis_mirror hb D z (flipLat z) hz hzl (flipLat_rows z J hz)
        (by rw [flipLat_length]; exact hzl) (fun i j hj => ent2_flipLat z J hz i j hj) r hr l
    · rw [ent2_of_length_le _ r l (by rw [realAnalysis_length b N R J L hb]; exact hr),
        ent2_of_length_le _ r l (by rw [realAnalysis_length b N R J L hb]; exact hr), mul_zero]

/-! ### the modal operators -/

/-- **`D1`, `D2` anticommute with the mirror** (any row → `|m|` map, any weights) -/
theorem twoTerm_mirror (mOf : ℕ → ℕ) (L : ℕ) (ca cb : ℕ → K) (a b x : List (List K))
    (hx : ∀ row ∈ x, row.length = L) :
    twoTerm ca cb a b (mirrorModal mOf (fun l => l) x)
      = negM (mirrorModal mOf (fun l => l) (twoTerm ca cb a b x)) := by
  have hmr := mirrorModal_rows mOf (fun l => l) x L hx
  apply ext_ent2 _ _ L
  · rw [twoTerm_length, negM_length, mirrorModal_length, mirrorModal_length, twoTerm_length]
  · exact twoTerm_rows ca cb a b _ L hmr
  · exact negM_rows _ L (mirrorModal_rows _ _ _ L (twoTerm_rows ca cb a b x L hx))
  · intro r l
    rw [ent2_negM, ent2_mirrorModal]
    rcases Nat.lt_or_ge r x.length with hr | hr
    · rw [ent2_twoTerm ca cb a b _ L hmr r l (by rw [mirrorModal_length]; exact hr),
        ent2_twoTerm ca cb a b x L hx r l hr, ← twoTermEnt_sgn]
      unfold twoTermEnt
      simp only [ent2_mirrorModal]
    · rw [ent2_of_length_le _ r l (by rw [twoTerm_length, mirrorModal_length]; exact hr),
        ent2_of_length_le _ r l (by rw [twoTerm_length]; exact hr)]
      simp

/-- operators acting on `l` only commute with the mirror -/
theorem lMul_mirror (mOf : ℕ → ℕ) (L : ℕ) (c : List K) (hc : c.length = L) (x : List (List K))
    (hx : ∀ row ∈ x, row.length = L) :
    lMul c (mirrorModal mOf (fun l => l) x) = mirrorModal mOf (fun l => l) (lMul c x) := by
  apply ext_ent2 _ _ L
  · rw [lMul_length, mirrorModal_length, mirrorModal_length, lMul_length]
  · exact lMul_rows c _ L (mirrorModal_rows _ _ _ L hx) hc
  · exact mirrorModal_rows _ _ _ L (lMul_rows c x L hx hc)
  · intro r l
    rw [ent2_lMul, ent2_mirrorModal, ent2_mirrorModal, ent2_lMul]
    ring

/-- `real_basis_derivative` commutes with the mirror (it exchanges the two rows of a pair) -/
theorem dDlon_mirror_real (L : ℕ) (x : List (List K)) (hx : ∀ row ∈ x, row.length = L) :
    realDerivative (mirrorModal mReal (fun l => l) x) L
      = mirrorModal mReal (fun l => l) (realDerivative x L) := by
  apply ext_ent2 _ _ L
  · simp [realDerivative, mirrorModal_length]
  · exact (derivative_rows _ L (mirrorModal_rows _ _ _ L hx)).1
  · exact mirrorModal_rows _ _ _ L (derivative_rows x L hx).1
  · intro r l
    rw [ent2_mirrorModal, ent2_realDerivative, ent2_realDerivative, mirrorModal_length]
    split
    · split
      · rename_i h2
        rw [ent2_mirrorModal]
        have : mReal (r + 1) = mReal r := by unfold mReal; omega
        rw [this]; ring
      · split
        · simp
        · rename_i h2 h0
          rw [ent2_mirrorModal]
          have : mReal (r - 1) = mReal r := by unfold mReal; omega
          rw [this]; ring
    · simp

/-- `real_basis_derivative_with_zero_imag` commutes with the mirror -/
theorem dDlon_mirror_fast (L off : ℕ) (x : List (List K)) (hx : ∀ row ∈ x, row.length = L) :
    zeroImagDerivative (mirrorModal mFast (fun l => l) x) L off
      = mirrorModal mFast (fun l => l) (zeroImagDerivative x L off) := by
  apply ext_ent2 _ _ L
  · simp [zeroImagDerivative, mirrorModal_length]
  · exact (derivative_rows _ L (mirrorModal_rows _ _ _ L hx)).2 off
  · exact mirrorModal_rows _ _ _ L ((derivative_rows x L hx).2 off)
  · intro r l
    rw [ent2_mirrorModal, ent2_zeroImagDerivative, ent2_zeroImagDerivative, mirrorModal_length]
    split
    · split
      · rename_i h2
        rw [ent2_mirrorModal]
        have : mFast (r + 1) = mFast r := by unfold mFast; omega
        rw [this]; ring
      · rename_i h2
        rw [ent2_mirrorModal]
        have : mFast (r - 1) = mFast r := by unfold mFast; omega
        rw [this]; ring
    · simp

end generic

/-! ## the tables of `associated_legendre.evaluate` at symmetric nodes -/
section tables
variable {K : Type} [Field K]

/-- nodes symmetric about the equator -/
def SymNodes (xs : List K) : Prop := ∀ j < xs.length, ent xs (xs.length - 1 - j) = -ent xs j

/-- weights symmetric about the equator -/
def SymWeights (w : List K) (J : ℕ) : Prop := ∀ j < J, ent w (J - 1 - j) = ent w j

/-- C01's parity (`Legendre.ent_row_neg`) at the mirrored node, for every order `m` (also beyond the
 table, where both sides vanish) -/
theorem ent3_evaluate_mirror (sqrt : K → K) (M L : ℕ) (xs : List K) (hs : SymNodes xs) (m j l : ℕ)
    (hj : j < xs.length) :
    ent3 (Legendre.evaluate sqrt M L xs) m (xs.length - 1 - j) l
      = sgn (m + l) * ent3 (Legendre.evaluate sqrt M L xs) m j l := by
  rcases Nat.lt_or_ge m M with hm | hm
  · have hj2 : xs.length - 1 - j < xs.length := by omega
    rw [Legendre.ent3_evaluate sqrt M L xs m _ l hm hj2, Legendre.ent3_evaluate sqrt M L xs m j l hm hj]
    have h := hs j hj
    rw [ent_eq_getElem xs _ hj2, ent_eq_getElem xs j hj] at h
    rw [h, Legendre.ent_row_neg, sgn_eq_pow, Nat.add_comm m l]
  · have hz : ∀ j', ent3 (Legendre.evaluate sqrt M L xs) m j' l = 0 := by
      intro j'
      unfold Legendre.evaluate ent3
      have : (List.range M)[m]? = none := by simp [hm]
      simp [List.getD_eq_getElem?_getD, List.getElem?_map, this]
    rw [hz, hz, mul_zero]

/-- **mirror data of `RealSphericalHarmonics.basis`** (any Fourier matrix `f`) -/
theorem mirrorData_real (sqrt : K → K) (M L : ℕ) (xs : List K) (hs : SymNodes xs) (f : List (List K))
    (w : List K) (hw : SymWeights w xs.length) (R : ℕ) :
    MirrorData (realBasisOf f (Legendre.evaluate sqrt M L xs) w) R xs.length mReal where
  tables r _ j hj l := by
    rw [ent3_realBasisOf, ent3_realBasisOf]
    exact ent3_evaluate_mirror sqrt M L xs hs _ j l hj
  weights := hw

/-- **mirror data of `FastSphericalHarmonics.basis`** without latitude-node padding (longitude-node,
 modal-row and `l`-column padding allowed) -/
theorem mirrorData_fast (sqrt : K → K) (M L : ℕ) (xs : List K) (hs : SymNodes xs) (fz : List (List K))
    (w : List K) (hw : SymWeights w xs.length) (pn pr pc R : ℕ) :
    MirrorData (fastBasis (fastBasisOf fz (Legendre.evaluate sqrt M L xs) w pn pr 0 pc (2 * M) xs.length L))
      R xs.length mFast where
  tables r _ j hj l := by
    show ent3 (dup _) r _ l = _ * ent3 (dup _) r j l
    rw [ent3_dup, ent3_dup, ent3_fastBasisOf, ent3_fastBasisOf]
    exact ent3_evaluate_mirror sqrt M L xs hs _ j l hj
  weights j hj := by
    have e : ∀ q, ent (fastBasis (fastBasisOf fz (Legendre.evaluate sqrt M L xs) w pn pr 0 pc (2 * M)
        xs.length L)).w q = ent w q := fun q => ent_fastBasisOf_w fz (Legendre.evaluate sqrt M L xs) w pn pr 0 pc (2 * M) xs.length L q
    rw [e, e]
    exact hw j hj

/-- shape of the tables of `evaluate` -/
theorem evaluate_shape (sqrt : K → K) (M L : ℕ) (xs : List K) :
    (Legendre.evaluate sqrt M L xs).length = M
    ∧ (∀ pm ∈ Legendre.evaluate sqrt M L xs, pm.length = xs.length)
    ∧ (∀ pm ∈ Legendre.evaluate sqrt M L xs, ∀ pj ∈ pm, pj.length = L) := by
  refine ⟨by simp [Legendre.evaluate], ?_, ?_⟩
  · intro pm hpm
    simp only [Legendre.evaluate, List.mem_map, List.mem_range] at hpm
    obtain ⟨m, _, rfl⟩ := hpm
    simp
  · intro pm hpm pj hpj
    simp only [Legendre.evaluate, List.mem_map, List.mem_range] at hpm
    obtain ⟨m, _, rfl⟩ := hpm
    simp only [List.mem_map] at hpj
    obtain ⟨x, _, rfl⟩ := hpj
    exact Legendre.row_length sqrt L x m

/-- **T10.3 (synthesis, real layout)** -/
theorem synth_mirror_real (sqrt : K → K) (M N L : ℕ) (xs : List K) (hs : SymNodes xs) (f : List (List K))
    (hf : f.length = N) (w : List K) (hwl : w.length = xs.length) (hw : SymWeights w xs.length)
    (x : List (List K)) (hx : ∀ row ∈ x, row.length = L) :
    realSynth (realBasisOf f (Legendre.evaluate sqrt M L xs) w) xs.length (mirrorModal mReal (fun l => l) x)
      = flipLat (realSynth (realBasisOf f (Legendre.evaluate sqrt M L xs) w) xs.length x) := by
  obtain ⟨h1, h2, h3⟩ := evaluate_shape sqrt M L xs
  have hb := realBasisOf_shaped f _ w M N xs.length L hf h1 h2 h3 hwl
  apply synth_mirror_eq_flip hb (mirrorData_real sqrt M L xs hs f w hw _) x _
    (fun row h => le_of_eq (hx row h))
    (fun row h => le_of_eq (mirrorModal_rows _ _ x L hx row h))
  intro r _ l
  exact ent2_mirrorModal _ _ x r l

/-- **T10.3 (analysis, real layout)** -/
theorem analysis_mirror_real (sqrt : K → K) (M N L : ℕ) (xs : List K) (hs : SymNodes xs)
    (f : List (List K)) (hf : f.length = N) (w : List K) (hwl : w.length = xs.length)
    (hw : SymWeights w xs.length) (z : List (List K)) (hzl : z.length ≤ N)
    (hz : ∀ zi ∈ z, zi.length = xs.length) :
    realAnalysis (realBasisOf f (Legendre.evaluate sqrt M L xs) w) (2 * M - 1) xs.length L (flipLat z)
      = mirrorModal mReal (fun l => l)
          (realAnalysis (realBasisOf f (Legendre.evaluate sqrt M L xs) w) (2 * M - 1) xs.length L z) := by
  obtain ⟨h1, h2, h3⟩ := evaluate_shape sqrt M L xs
  have hb := realBasisOf_shaped f _ w M N xs.length L hf h1 h2 h3 hwl
  exact analysis_flip_eq_mirror hb (mirrorData_real sqrt M L xs hs f w hw _) z hz hzl

/-- **T10.3 (synthesis, fast layout)**: longitude-node, modal-row and `l`-column padding allowed -/
theorem synth_mirror_fast (sqrt : K → K) (M N L pn pr pc : ℕ) (xs : List K) (hs : SymNodes xs)
    (fz : List (List K)) (hf : fz.length = N) (w : List K) (hwl : w.length = xs.length)
    (hw : SymWeights w xs.length) (x : List (List K)) (hxl : x.length % 2 = 0)
    (hx : ∀ row ∈ x, row.length = L + pc) :
    fastSynth (fastBasisOf fz (Legendre.evaluate sqrt M L xs) w pn pr 0 pc (2 * M) xs.length L) (xs.length + 0)
        (mirrorModal mFast (fun l => l) x)
      = flipLat (fastSynth (fastBasisOf fz (Legendre.evaluate sqrt M L xs) w pn pr 0 pc (2 * M) xs.length L)
          (xs.length + 0) x) := by
  obtain ⟨h1, h2, h3⟩ := evaluate_shape sqrt M L xs
  have hb := shaped_fastBasis _ _ _ _ _
    (fastBasisOf_shaped fz _ w M N xs.length L pn pr 0 pc hf h1 h2 h3 hwl)
  rw [fastSynth_eq_real _ _ _ (by rw [mirrorModal_length]; exact hxl), fastSynth_eq_real _ _ _ hxl]
  apply synth_mirror_eq_flip hb (mirrorData_fast sqrt M L xs hs fz w hw pn pr pc _) x _
    (fun row h => le_of_eq (hx row h))
    (fun row h => le_of_eq (mirrorModal_rows _ _ x _ hx row h))
  intro r _ l
  exact ent2_mirrorModal _ _ x r l

/-- **T10.3 (analysis, fast layout)** -/
theorem analysis_mirror_fast (sqrt : K → K) (M N L pn pr pc : ℕ) (xs : List K) (hs : SymNodes xs)
    (fz : List (List K)) (hf : fz.length = N) (w : List K) (hwl : w.length = xs.length)
    (hw : SymWeights w xs.length) (z : List (List K)) (hzl : z.length ≤ N + pn)
    (hz : ∀ zi ∈ z, zi.length = xs.length + 0) :
    fastAnalysis (fastBasisOf fz (Legendre.evaluate sqrt M L xs) w pn pr 0 pc (2 * M) xs.length L)
        (2 * (M + pr / 2)) (xs.length + 0) (L + pc) (flipLat z)
      = mirrorModal mFast (fun l => l)
          (fastAnalysis (fastBasisOf fz (Legendre.evaluate sqrt M L xs) w pn pr 0 pc (2 * M) xs.length L)
            (2 * (M + pr / 2)) (xs.length + 0) (L + pc) z) := by
  obtain ⟨h1, h2, h3⟩ := evaluate_shape sqrt M L xs
  have hb := shaped_fastBasis _ _ _ _ _
    (fastBasisOf_shaped fz _ w M N xs.length L pn pr 0 pc hf h1 h2 h3 hwl)
  rw [fastAnalysis_eq_real _ _ _ _ _ (by omega), fastAnalysis_eq_real _ _ _ _ _ (by omega)]
  exact analysis_flip_eq_mirror hb (mirrorData_fast sqrt M L xs hs fz w hw pn pr pc _) z hz hzl

end tables
end Dino.Symmetry
