import Dino.Tree
import Mathlib.Data.List.Basic
import Mathlib.Data.List.Nodup
import Mathlib.Tactic.Common

/-!
# Lemmas for the tree model, part 1: keys (`str.split` / `sep.join`)
-/
namespace Dino.Tree

section Keys
variable {α : Type} [DecidableEq α]

theorem splitOn_ne_nil (sep : α) (s : List α) : splitOn sep s ≠ [] := by
  induction s with
  | nil => simp [splitOn]
  | cons c cs ih =>
    unfold splitOn
    by_cases h : c = sep
    · simp [h]
    · simp only [h, if_false]
      cases hs : splitOn sep cs with
      | nil => exact absurd hs ih
      | cons a t => simp

theorem joinSep_cons_cons (sep : α) (c : α) (h : List α) (t : List (List α)) :
    joinSep sep ((c :: h) :: t) = c :: joinSep sep (h :: t) := by
  cases t with
  | nil => simp [joinSep]
  | cons k ks => simp [joinSep]

/-- `sep.join(s.split(sep)) == s` for every string -/
theorem joinSep_splitOn (sep : α) (s : List α) : joinSep sep (splitOn sep s) = s := by
  induction s with
  | nil => simp [splitOn, joinSep]
  | cons c cs ih =>
    unfold splitOn
    by_cases h : c = sep
    · simp only [h, if_true]
      cases hs : splitOn sep cs with
      | nil => exact absurd hs (splitOn_ne_nil sep cs)
      | cons a t => rw [hs] at ih; simp [joinSep, ih]
    · simp only [h, if_false]
      cases hs : splitOn sep cs with
      | nil => exact absurd hs (splitOn_ne_nil sep cs)
      | cons a t => rw [hs] at ih; simp [joinSep_cons_cons, ih]

theorem splitOn_of_not_mem (sep : α) (k : List α) (hk : sep ∉ k) : splitOn sep k = [k] := by
  induction k with
  | nil => simp [splitOn]
  | cons c cs ih =>
    have h1 : c ≠ sep := fun h => hk (by simp [h])
    have h2 : sep ∉ cs := fun h => hk (by simp [h])
    simp [splitOn, h1, ih h2]

theorem splitOn_append_sep (sep : α) (k rest : List α) (hk : sep ∉ k) :
    splitOn sep (k ++ sep :: rest) = k :: splitOn sep rest := by
  induction k with
  | nil => simp [splitOn]
  | cons c cs ih =>
    have h1 : c ≠ sep := fun h => hk (by simp [h])
    have h2 : sep ∉ cs := fun h => hk (by simp [h])
    simp [splitOn, h1, ih h2]

/-- `sep.join(ks).split(sep) == ks` for a non-empty list of keys without the separator -/
theorem splitOn_joinSep (sep : α) (ks : List (List α)) (hne : ks ≠ [])
    (hk : ∀ k ∈ ks, sep ∉ k) : splitOn sep (joinSep sep ks) = ks := by
  induction ks with
  | nil => exact absurd rfl hne
  | cons k t ih =>
    cases t with
    | nil => simpa [joinSep] using splitOn_of_not_mem sep k (hk k (by simp))
    | cons k' ks =>
      have := ih (by simp) (fun x hx => hk x (by simp [hx]))
      simp only [joinSep]
      rw [splitOn_append_sep sep k _ (hk k (by simp)), this]

/-- joining is injective on non-empty separator-free paths -/
theorem joinSep_inj (sep : α) (p q : List (List α)) (hp : p ≠ []) (hq : q ≠ [])
    (hps : ∀ k ∈ p, sep ∉ k) (hqs : ∀ k ∈ q, sep ∉ k) (h : joinSep sep p = joinSep sep q) : p = q := by
  rw [← splitOn_joinSep sep p hp hps, ← splitOn_joinSep sep q hq hqs, h]

end Keys
end Dino.Tree
