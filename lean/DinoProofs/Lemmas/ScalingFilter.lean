import DinoProofs.Lemmas.ScalingTraj
import DinoProofs.Lemmas.ScalingSW
import Mathlib.Algebra.Order.Field.Basic

/-!
# Lemmas for C12: the filter hypothesis `FilterScaled` of histories, discharged

`pe_history_commutes` relates the filters of the two runs by `FilterScaled` (`φ' (A u) = A (φ u)`, with `A` the
action of the change of units on `tree_math` vectors).  The action multiplies vorticity, divergence and `T'` by
numbers, leaves the tracers alone, multiplies the clock by `t` and ADDS `c • oneModal` to `ln p_s`.  So a filter is
`FilterScaled`-related to itself as soon as it

* applies one map `φ : M → M` to every modal leaf and leaves the clock alone (`leafFilter φ`: this is what
  `filtering._make_filter_fn` does — `sim_time` is a scalar, `_preserves_shape` fails),
* `φ` is additive and homogeneous, and
* `φ oneModal = oneModal` (the filter does not touch the constant mode).

The filters of `filtering.py` multiply the coefficient of total wavenumber `l` by `s[l]`: on the abstract carrier
this is `lMul h s = Σ_{l < nL} s[l] • lproj l`.  It satisfies the three conditions when `lproj` is linear
(`ProjLaws`), the constant field is a pure `l = 0` mode (`ConstProj`, validated on real grids) and `s[0] = 1`.
For the two step filters of `time_integration.py` the factor at `l = 0` is `ex 0 = 1` when the cutoff of the
exponential filter is not negative, resp. the order of the diffusion filter is at least one
(`stepFilter_scaling_head`); without these conditions the factor is not one and the statement is false
(`C12.negative_cutoff_breaks_filter`).  The scaling lists of the two unit systems are equal
(`stepFilter_scaling_act`, from `expStepScaling_act` / `diffStepScaling_act`).
-/
namespace Dino.Scaling
open Dino Dino.Dynamics Dino.Imex Dino.Invariants
set_option linter.unusedSectionVars false
set_option linter.unusedSimpArgs false
set_option linter.unusedVariables false

/-! ## leaf-wise linear filters -/
section leaf
variable {K M : Type} [Field K] [AddCommGroup M] [Module K M]

/-- a tree filter of `filtering.py` on a state with a clock: the same map on every modal leaf; `sim_time`
 (a scalar: `_preserves_shape` fails) is returned unchanged.  (The same definition as `Dino.Symmetry.leafFilter`
 of C10, for a bare function.) -/
def leafFilter (φ : M → M) (s : StateWithTime K M) : StateWithTime K M :=
  { state :=
      { vorticity := s.state.vorticity.map φ
        divergence := s.state.divergence.map φ
        temperatureVariation := s.state.temperatureVariation.map φ
        logSurfacePressure := φ s.state.logSurfacePressure
        tracers := mapTracers (fun x => x.map φ) s.state.tracers }
    simTime := s.simTime }

/-- the multiplier of a filter is additive, homogeneous and fixes the constant mode `one` -/
structure LeafLinear (K : Type) {M : Type} [Field K] [AddCommGroup M] [Module K M] (φ : M → M) (one : M) :
    Prop where
  map_add : ∀ x y, φ (x + y) = φ x + φ y
  map_smul : ∀ (k : K) x, φ (k • x) = k • φ x
  map_one : φ one = one

variable {g : Scale K} {φ : M → M} {one : M}

/-- such a filter commutes with the change of units of a state (for EVERY additive constant `c` of `ln p_s`) -/
theorem leafFilter_actStateT (hφ : LeafLinear K φ one) (c : K) (s : StateWithTime K M) :
    leafFilter φ (actStateT g c one s) = actStateT g c one (leafFilter φ s) := by
  have hcol : ∀ (k : K) (l : List M), (Col.smul k l).map φ = Col.smul k (l.map φ) := by
    intro k l
    show (l.map (fun u => k • u)).map φ = (l.map φ).map (fun u => k • u)
    simp only [List.map_map]
    exact List.map_congr_left fun x _ => hφ.map_smul k x
  simp only [leafFilter, actStateT, actState, hcol, hφ.map_add, hφ.map_smul, hφ.map_one]

/-- **`FilterScaled` discharged**: a leaf-wise linear filter that fixes the constant mode is related to ITSELF -/
theorem filterScaled_leafFilter (hφ : LeafLinear K φ one) (c : K) :
    FilterScaled (Proper (V := StateWithTime K M)) (tmMap (actStateT g c one)) (tmMap (leafFilter φ))
      (tmMap (leafFilter φ)) := by
  intro u hu
  cases u with
  | zero => exact hu.elim
  | err => exact ⟨rfl, trivial⟩
  | val s => exact ⟨congrArg TM.val (leafFilter_actStateT hφ c s), trivial⟩

/-- the same filter lists on both sides -/
theorem filtersScaled_leafFilters (c : K) (φs : List (M → M)) (hφ : ∀ φ ∈ φs, LeafLinear K φ one) :
    List.Forall₂ (FilterScaled (Proper (V := StateWithTime K M)) (tmMap (actStateT g c one)))
      (φs.map fun φ => tmMap (leafFilter φ)) (φs.map fun φ => tmMap (leafFilter φ)) := by
  induction φs with
  | nil => exact List.Forall₂.nil
  | cons φ φs ih =>
    exact List.Forall₂.cons (filterScaled_leafFilter (hφ φ List.mem_cons_self) c)
      (ih fun ψ hψ => hφ ψ (List.mem_cons_of_mem _ hψ))

/-- a history whose filters are leaf-wise linear and fix the constant mode, and the same history with every
 `dt` multiplied by `t` and the SAME filters, are `HistScaled`-related -/
theorem histScaled_leafFilters (c : K) (hist : List (Scheme K × K × List (M → M)))
    (hφ : ∀ en ∈ hist, ∀ φ ∈ en.2.2, LeafLinear K φ one) :
    HistScaled (Proper (V := StateWithTime K M)) g.t (tmMap (actStateT g c one))
      (hist.map fun en => ⟨en.1, en.2.1, en.2.2.map fun φ => tmMap (leafFilter φ)⟩)
      (hist.map fun en => ⟨en.1, g.t * en.2.1, en.2.2.map fun φ => tmMap (leafFilter φ)⟩) := by
  unfold HistScaled
  induction hist with
  | nil => exact List.Forall₂.nil
  | cons en rest ih =>
    exact List.Forall₂.cons ⟨rfl, rfl, filtersScaled_leafFilters c en.2.2 (hφ en List.mem_cons_self)⟩
      (ih fun e he => hφ e (List.mem_cons_of_mem _ he))

end leaf

/-! ## multipliers of the total wavenumber -/
section lmul
variable {K M N : Type} [Field K] [AddCommGroup M] [Module K M] [CommRing N] [Algebra K N]

/-- `scaling * x` for a scaling `s` of shape `(nL,)`: the coefficients of total wavenumber `l` times `s[l]` -/
def lMul (h : HOps K M N) (s : List K) (x : M) : M := DynamicsSW.lmul h (fun l => s.getD l 0) x

/-- the constant field one is a pure mode of total wavenumber `0` (`_CONSTANT_NORMALIZATION_FACTOR` at `[0, 0]`),
 and the grid has that wavenumber -/
structure ConstProj (h : HOps K M N) : Prop where
  nL_pos : 0 < h.nL
  lproj_zero_one : h.lproj 0 h.oneModal = h.oneModal
  lproj_succ_one : ∀ l, h.lproj (l + 1) h.oneModal = 0

theorem foldl_add_sum : ∀ (ls : List M) (z : M), ls.foldl (· + ·) z = z + ls.sum
  | [], z => by simp
  | a :: ls, z => by
    simp only [List.foldl_cons, List.sum_cons]
    rw [foldl_add_sum ls, add_assoc]

theorem lMul_eq_sum (h : HOps K M N) (s : List K) (x : M) :
    lMul h s x = ((List.range h.nL).map fun l => s.getD l 0 • h.lproj l x).sum := by
  unfold lMul DynamicsSW.lmul
  rw [foldl_add_sum, zero_add]

theorem lMul_actOps (g : Scale K) (h : HOps K M N) (s : List K) : lMul (actOps g h) s = lMul h s := rfl

theorem lMul_add {h : HOps K M N} (hp : ProjLaws h) (s : List K) (x y : M) :
    lMul h s (x + y) = lMul h s x + lMul h s y := by
  simp only [lMul_eq_sum, hp.lproj_add, smul_add]
  generalize List.range h.nL = ls
  induction ls with
  | nil => simp
  | cons a ls ih => simp only [List.map_cons, List.sum_cons, ih, add_add_add_comm]

theorem lMul_smul {h : HOps K M N} (hp : ProjLaws h) (s : List K) (k : K) (x : M) :
    lMul h s (k • x) = k • lMul h s x := by
  simp only [lMul_eq_sum, hp.lproj_smul]
  generalize List.range h.nL = ls
  induction ls with
  | nil => simp
  | cons a ls ih => simp only [List.map_cons, List.sum_cons, ih, smul_add, smul_comm k]

theorem lMul_one {h : HOps K M N} (hc : ConstProj h) (s : List K) (hs : s.head? = some 1) :
    lMul h s h.oneModal = h.oneModal := by
  obtain ⟨n, hn⟩ : ∃ n, h.nL = n + 1 := ⟨h.nL - 1, by have := hc.nL_pos; omega⟩
  have h0 : s.getD 0 0 = 1 := by
    cases s with
    | nil => simp at hs
    | cons a s => simpa using hs
  rw [lMul_eq_sum, hn, List.range_succ_eq_map]
  simp only [List.map_cons, List.sum_cons, List.map_map, Function.comp_def, hc.lproj_zero_one,
    hc.lproj_succ_one, smul_zero, h0, one_smul]
  have : ((List.range n).map fun _ => (0 : M)).sum = 0 := by
    induction List.range n with
    | nil => rfl
    | cons a l ih => simp only [List.map_cons, List.sum_cons, ih, add_zero]
  rw [this, add_zero]

/-- a multiplier of the total wavenumber with factor one at `l = 0` is a `LeafLinear` map -/
theorem leafLinear_lMul {h : HOps K M N} (hp : ProjLaws h) (hc : ConstProj h) (s : List K)
    (hs : s.head? = some 1) : LeafLinear K (lMul h s) h.oneModal :=
  ⟨lMul_add hp s, lMul_smul hp s, lMul_one hc s hs⟩

/-- **`FilterScaled` for the filters of `filtering.py`**: the filter with scaling `s` on the grid of radius `a`
 and the filter with the same scaling on the grid of radius `l·a` -/
theorem filterScaled_lMul {g : Scale K} {h : HOps K M N} (hp : ProjLaws h) (hc : ConstProj h) (s : List K)
    (hs : s.head? = some 1) (c : K) :
    FilterScaled (Proper (V := StateWithTime K M)) (tmMap (actStateT g c h.oneModal))
      (tmMap (leafFilter (lMul h s))) (tmMap (leafFilter (lMul (actOps g h) s))) :=
  filterScaled_leafFilter (leafLinear_lMul hp hc s hs) c

end lmul

/-! ## the scalings of the two step filters: factor one at `l = 0` -/
section heads
variable {K : Type} [Field K] [LT K] [DecidableLT K]

/-- `exponential_step_filter`: the factor of total wavenumber `0` is `exp 0 = 1` when the cutoff is not negative;
 the scaling exists (`np.max` of a non-empty array) and has one factor per wavenumber -/
theorem expStepScaling_head (ex : K → K) (hex : ex 0 = 1) (dt tau : K) (p : ℕ) (c : K) (hc : ¬ c < 0)
    (rest : List K) :
    ∃ s, Filters.expStepScaling ex dt tau p c (0 :: rest) = some (1 :: s) ∧ s.length = rest.length := by
  have h0 : ∀ a lmax, Filters.expFactor ex a p c lmax 0 = 1 := by
    intro a lmax
    simp only [Filters.expFactor, zero_div, hc, decide_false, Filters.ind, Bool.false_eq_true, if_false, zero_mul,
      hex]
  simp only [Filters.expStepScaling, Filters.expScaling, Filters.maxL, Option.map_some, List.map_cons, h0]
  exact ⟨_, rfl, List.length_map _⟩

end heads

section headsOrd
variable {K : Type} [Field K] [LinearOrder K] [IsStrictOrderedRing K]

/-- `horizontal_diffusion_step_filter`: the factor of the eigenvalue `0` is `exp 0 = 1` when `order ≥ 1` -/
theorem diffStepScaling_head (ex : K → K) (hex : ex 0 = 1) (dt tau : K) (order : ℕ) (ho : 1 ≤ order)
    (rest : List K) :
    ∃ s, Filters.diffStepScaling ex dt tau order (0 :: rest) = some (1 :: s) ∧ s.length = rest.length := by
  have h0 : ∀ sc, Filters.diffFactor ex sc order 0 = 1 := by
    intro sc
    simp only [Filters.diffFactor, neg_zero, powN_eq, zero_pow (by omega : order ≠ 0), mul_zero, hex]
  simp only [Filters.diffStepScaling, Filters.diffStepScale, Filters.maxAbs, Filters.maxL, List.map_cons,
    Option.map_some, Filters.diffScaling, h0]
  exact ⟨_, rfl, List.length_map _⟩

theorem eigenvalues_zero (radius : K) (ls : List K) :
    Filters.eigenvalues radius (0 :: ls) = 0 :: Filters.eigenvalues radius ls := by
  simp [Filters.eigenvalues, Filters.eigenvalue]

/-- the eigenvalues of the grid of radius `l·a` -/
theorem eigenvalues_act (l radius : K) (ls : List K) :
    Filters.eigenvalues (l * radius) ls = (Filters.eigenvalues radius ls).map ((l * l)⁻¹ * ·) := by
  simp only [Filters.eigenvalues, List.map_map]
  apply List.map_congr_left
  intro x _
  simp only [Function.comp, Filters.eigenvalue, div_eq_mul_inv, mul_inv]
  ring

/-- a step filter of `time_integration.py` as data -/
inductive StepFilter (K : Type) where
  /-- `exponential_step_filter(grid, dt, tau, order, cutoff)` -/
  | exponential (tau : K) (order : ℕ) (cutoff : K)
  /-- `horizontal_diffusion_step_filter(grid, dt, tau, order)` -/
  | diffusion (tau : K) (order : ℕ)

/-- the same filter under the other scale: `tau` is a time -/
def StepFilter.act (g : Scale K) : StepFilter K → StepFilter K
  | .exponential tau p c => .exponential (g.t * tau) p c
  | .diffusion tau o => .diffusion (g.t * tau) o

/-- the scaling array of the filter for the step size `dt` on the grid of that radius with total wavenumbers `ls`
 (`none`: `np.max` of a zero-size array raises) -/
def StepFilter.scaling (ex : K → K) (dt radius : K) (ls : List K) : StepFilter K → Option (List K)
  | .exponential tau p c => Filters.expStepScaling ex dt tau p c ls
  | .diffusion tau o => Filters.diffStepScaling ex dt tau o (Filters.eigenvalues radius ls)

/-- the conditions under which the filter leaves the constant mode alone -/
def StepFilter.Admissible : StepFilter K → Prop
  | .exponential _ _ c => ¬ c < 0
  | .diffusion _ o => 1 ≤ o

instance (f : StepFilter K) : Decidable f.Admissible := by
  cases f <;> unfold StepFilter.Admissible <;> infer_instance

/-- **the scaling array does not depend on the units** (`dt`, `tau` times `t`, radius times `l`) -/
theorem stepFilter_scaling_act {g : Scale K} (hg : g.Valid) (ex : K → K) (dt radius : K) (ls : List K)
    (f : StepFilter K) :
    (f.act g).scaling ex (g.t * dt) (g.l * radius) ls = f.scaling ex dt radius ls := by
  cases f with
  | exponential tau p c => exact expStepScaling_act ex g.t dt tau hg.t_ne p c ls
  | diffusion tau o =>
    simp only [StepFilter.act, StepFilter.scaling, eigenvalues_act]
    exact diffStepScaling_act ex g.t _ dt tau o hg.t_ne (inv_pos.mpr (mul_self_pos.mpr hg.l_ne)) _

/-- **the factor at total wavenumber `0` is exactly one**, and there is one factor per wavenumber -/
theorem stepFilter_scaling_head (ex : K → K) (hex : ex 0 = 1) (dt radius : K) (rest : List K) (f : StepFilter K)
    (hf : f.Admissible) (s : List K) (hs : f.scaling ex dt radius (0 :: rest) = some s) :
    s.head? = some 1 ∧ s.length = rest.length + 1 := by
  cases f with
  | exponential tau p c =>
    obtain ⟨s', h1, h2⟩ := expStepScaling_head ex hex dt tau p c hf rest
    simp only [StepFilter.scaling, h1, Option.some.injEq] at hs
    subst hs
    exact ⟨rfl, by simp [h2]⟩
  | diffusion tau o =>
    obtain ⟨s', h1, h2⟩ := diffStepScaling_head ex hex dt tau o hf (Filters.eigenvalues radius rest)
    simp only [StepFilter.scaling, eigenvalues_zero, h1, Option.some.injEq] at hs
    subst hs
    exact ⟨rfl, by simp [h2, Filters.eigenvalues]⟩

/-- one entry of a history with step filters: scheme, step size, and for every filter its parameters and the
 scaling array it computed -/
structure FEntry (K : Type) where
  sch : Scheme K
  dt : K
  filters : List (StepFilter K × List K)

variable {M N : Type} [AddCommGroup M] [Module K M] [CommRing N] [Algebra K N]

/-- the model's history of an `FEntry` list on the grid `h` -/
def FEntry.toHist (h : HOps K M N) (hist : List (FEntry K)) : List (Entry K (TM (StateWithTime K M))) :=
  hist.map fun en => ⟨en.sch, en.dt, en.filters.map fun fs => tmMap (leafFilter (lMul h fs.2))⟩

/-- the same history under the other scale: `dt` and every `tau` times `t`; the scaling arrays are kept (that
 they ARE the arrays computed under the other scale is the first part of `histScaled_stepFilters`) -/
def FEntry.act (g : Scale K) (hist : List (FEntry K)) : List (FEntry K) :=
  hist.map fun en => ⟨en.sch, g.t * en.dt, en.filters.map fun fs => (fs.1.act g, fs.2)⟩

/-- the arrays recorded in the history are those the filters compute on this grid -/
def FEntry.Computed (ex : K → K) (radius : K) (ls : List K) (hist : List (FEntry K)) : Prop :=
  ∀ en ∈ hist, ∀ fs ∈ en.filters, fs.1.scaling ex en.dt radius ls = some fs.2

/-- **histories with exponential / diffusion step filters**: under the other scale (every `dt`, `tau` times `t`,
 grid of radius `l·a`) the filters compute the same arrays, these have one factor per total wavenumber, and the
 two histories are `HistScaled`-related -/
theorem histScaled_stepFilters {g : Scale K} {h : HOps K M N} (hg : g.Valid) (hp : ProjLaws h) (hc : ConstProj h)
    (c : K) (ex : K → K) (hex : ex 0 = 1) (rest : List K) (hlen : rest.length + 1 = h.nL) (hist : List (FEntry K))
    (hadm : ∀ en ∈ hist, ∀ fs ∈ en.filters, fs.1.Admissible)
    (hcomp : FEntry.Computed ex h.radius (0 :: rest) hist) :
    FEntry.Computed ex (actOps g h).radius (0 :: rest) (FEntry.act g hist)
      ∧ (∀ en ∈ hist, ∀ fs ∈ en.filters, fs.2.length = h.nL)
      ∧ HistScaled (Proper (V := StateWithTime K M)) g.t (tmMap (actStateT g c h.oneModal))
          (FEntry.toHist h hist) (FEntry.toHist (actOps g h) (FEntry.act g hist)) := by
  refine ⟨?_, ?_, ?_⟩
  · intro en' hen' fs' hfs'
    simp only [FEntry.act, List.mem_map] at hen'
    obtain ⟨en, hen, rfl⟩ := hen'
    simp only [List.mem_map] at hfs'
    obtain ⟨fs, hfs, rfl⟩ := hfs'
    show (fs.1.act g).scaling ex (g.t * en.dt) (g.l * h.radius) (0 :: rest) = some fs.2
    rw [stepFilter_scaling_act hg]
    exact hcomp en hen fs hfs
  · intro en hen fs hfs
    rw [← hlen]
    exact (stepFilter_scaling_head ex hex en.dt h.radius rest fs.1 (hadm en hen fs hfs) fs.2
      (hcomp en hen fs hfs)).2
  · unfold HistScaled FEntry.toHist FEntry.act
    induction hist with
    | nil => exact List.Forall₂.nil
    | cons en tl ih =>
      refine List.Forall₂.cons ⟨rfl, rfl, ?_⟩
        (ih (fun e he => hadm e (List.mem_cons_of_mem _ he)) (fun e he => hcomp e (List.mem_cons_of_mem _ he)))
      have hA := hadm en List.mem_cons_self
      have hC := hcomp en List.mem_cons_self
      simp only [List.map_map]
      generalize en.filters = fl at hA hC
      induction fl with
      | nil => exact List.Forall₂.nil
      | cons fs fl ihf =>
        refine List.Forall₂.cons ?_
          (ihf (fun f hf => hA f (List.mem_cons_of_mem _ hf)) (fun f hf => hC f (List.mem_cons_of_mem _ hf)))
        exact filterScaled_lMul hp hc fs.2
          (stepFilter_scaling_head ex hex en.dt h.radius rest fs.1 (hA fs List.mem_cons_self) fs.2
            (hC fs List.mem_cons_self)).1 c

end headsOrd

end Dino.Scaling
