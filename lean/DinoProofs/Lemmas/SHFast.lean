import Dino.SHCheck2
import DinoProofs.Lemmas.SH
import DinoProofs.Lemmas.Legendre

/-!
# Fast layout, structural zeros and the integral, for all sizes

* `fastSynth_eq_real`, `fastAnalysis_eq_real`: the `FastSphericalHarmonics` transforms
  (`_unstack_m`, one Legendre table per `|m|`, `_stack_m`) are the `RealSphericalHarmonics`-style
  transforms of the basis `fastBasis b` (tables duplicated), for every even number of modal rows —
  including padding rows and the `-0` row.  All results about `realSynth/realAnalysis` transfer.
* `ent2_realSynth_congr`, `ent2_realAnalysis_zero`: entries of `x` with `l < |m|` do not influence the
  synthesis and analysis never produces them (T1.3), from the structural zeros of the tables.
* `integrate_realSynth` (T1.4): the quadrature integral of a synthesised field.
-/
namespace Dino.SH
open Finset Dino.Lin

/-! ## `_unstack_m` / `_stack_m` against duplicated tables -/

section stack
variable {α β γ : Type}

theorem zipWith_dup (g : α → β → γ) (p : List α) (v : List β) (h : v.length % 2 = 0) :
    List.zipWith g (dup p) v = stackM (List.zipWith g p (evens v)) (List.zipWith g p (odds v)) := by
  induction p generalizing v with
  | nil => simp [dup, stackM]
  | cons q ps ih =>
    match v, h with
    | [], _ => simp [dup, evens, odds, stackM]
    | [a], h => simp at h
    | a :: b :: t, h =>
      have ht : t.length % 2 = 0 := by simp only [List.length_cons] at h; omega
      simp [dup, evens, odds, stackM, ih t ht]

theorem length_dup (p : List α) : (dup p).length = 2 * p.length := by
  induction p with
  | nil => rfl
  | cons a t ih => simp [dup, ih]; omega

theorem getD_dup (p : List α) (r : Nat) (d : α) : (dup p).getD r d = p.getD (r / 2) d := by
  induction p generalizing r with
  | nil => simp [dup]
  | cons a t ih =>
    match r with
    | 0 => simp [dup]
    | 1 => simp [dup]
    | r + 2 =>
      have : (r + 2) / 2 = r / 2 + 1 := by omega
      have h := ih r
      simp only [List.getD_eq_getElem?_getD] at h
      simp [dup, this, h]

theorem mem_dup {p : List α} {a : α} (h : a ∈ dup p) : a ∈ p := by
  induction p with
  | nil => simp [dup] at h
  | cons b t ih =>
    simp only [dup, List.mem_cons] at h
    rcases h with h | h | h
    · simp [h]
    · simp [h]
    · exact List.mem_cons_of_mem _ (ih h)

end stack

section fast
variable {K : Type} [Add K] [Mul K] [Zero K]

/-- synthesis of the fast implementation = synthesis with duplicated tables (any scalar type) -/
theorem fastSynth_eq_real (b : Basis K) (J : Nat) (x : List (List K)) (hx : x.length % 2 = 0) :
    fastSynth b J x = realSynth (fastBasis b) J x := by
  unfold fastSynth realSynth fastBasis invLegendre
  rw [zipWith_dup _ _ _ hx]

theorem fwdFourier_length' (f wx : List (List K)) (R J : Nat) : (fwdFourier f wx R J).length = R := by
  simp [fwdFourier, transposeM]

/-- analysis of the fast implementation = analysis with duplicated tables -/
theorem fastAnalysis_eq_real (b : Basis K) (R J L : Nat) (z : List (List K)) (hR : R % 2 = 0) :
    fastAnalysis b R J L z = realAnalysis (fastBasis b) R J L z := by
  unfold fastAnalysis realAnalysis fastBasis fwdLegendre
  simp only
  rw [zipWith_dup _ _ _ (by rw [fwdFourier_length']; exact hR)]

end fast

variable {K : Type} [CommRing K]

theorem ent3_dup (p : List (List (List K))) (r j l : Nat) : ent3 (dup p) r j l = ent3 p (r / 2) j l := by
  unfold ent3; rw [getD_dup]

omit [CommRing K] in
/-- shape of `fastBasis b` from the shape of `b` (`R/2` tables) -/
theorem shaped_fastBasis (b : Basis K) (N T J L : Nat) (hb : Shaped b N T J L) :
    Shaped (fastBasis b) N (2 * T) J L := by
  constructor
  · exact hb.fl
  · simp [fastBasis, length_dup, hb.pl]
  · intro pm hpm; exact hb.pj pm (mem_dup hpm)
  · intro pm hpm; exact hb.pll pm (mem_dup hpm)
  · exact hb.wl

/-- **T1.1, fast layout**: `transform ∘ inverse_transform` of `FastSphericalHarmonics` is the action
 of the Gram tensor of the duplicated tables — for every even number of rows (padding and the `-0`
 row included), every basis of consistent shape and every spectral field. -/
theorem ent2_roundtrip_fast (b : Basis K) (N R J L : Nat) (hb : Shaped (fastBasis b) N R J L)
    (hR : R % 2 = 0) (x : List (List K)) (hxl : x.length % 2 = 0) (hx : ∀ row ∈ x, row.length ≤ L)
    (r l : Nat) (hr : r < R) :
    ent2 (fastAnalysis b R J L (fastSynth b J x)) r l
      = ∑ r' ∈ range R, ∑ l' ∈ range L,
          fGram (fastBasis b) N r r' * lGram (fastBasis b) J r r' l l' * ent2 x r' l' := by
  rw [fastSynth_eq_real b J x hxl, fastAnalysis_eq_real b R J L _ hR]
  exact ent2_roundtrip (fastBasis b) N R J L hb x hx r l hr

/-! ## structural zeros (T1.3) -/

/-- If the tables vanish for `l < mabs r`, two spectral fields that agree on the triangle
 `mabs r ≤ l` have the same synthesis: entries outside the triangle never influence the result. -/
theorem ent2_realSynth_congr (b : Basis K) (N R J L : Nat) (hb : Shaped b N R J L)
    (mabs : Nat → Nat) (hz : ∀ r j l, l < mabs r → ent3 b.p r j l = 0)
    (x x' : List (List K)) (hx : ∀ row ∈ x, row.length ≤ L) (hx' : ∀ row ∈ x', row.length ≤ L)
    (hag : ∀ r l, mabs r ≤ l → ent2 x r l = ent2 x' r l) (i j : Nat) :
    ent2 (realSynth b J x) i j = ent2 (realSynth b J x') i j := by
  rw [ent2_realSynth b N R J L hb x hx, ent2_realSynth b N R J L hb x' hx']
  apply Finset.sum_congr rfl; intro r _
  congr 1
  apply Finset.sum_congr rfl; intro l _
  rcases Nat.lt_or_ge l (mabs r) with h | h
  · rw [hz r j l h]; simp
  · rw [hag r l h]

/-- analysis never produces an entry outside the triangle -/
theorem ent2_realAnalysis_zero (b : Basis K) (N R J L : Nat) (hb : Shaped b N R J L)
    (mabs : Nat → Nat) (hz : ∀ r j l, l < mabs r → ent3 b.p r j l = 0)
    (z : List (List K)) (hzr : ∀ zi ∈ z, zi.length = J) (hzl : z.length ≤ N) (r l : Nat) (hr : r < R)
    (hl : l < mabs r) : ent2 (realAnalysis b R J L z) r l = 0 := by
  rw [ent2_realAnalysis b N R J L hb z hzr hzl r l hr]
  apply Finset.sum_eq_zero
  intro j _
  rw [hz r j l hl, mul_zero]

/-! ### the tables built by `associated_legendre.evaluate` have these zeros -/

theorem ent3_realTables (p : List (List (List K))) (r j l : Nat) :
    ent3 (realTables p) r j l = ent3 p ((r + 1) / 2) j l := by
  unfold realTables ent3
  have : (List.drop 1 (dup p)).getD r [] = p.getD ((r + 1) / 2) [] := by
    rw [List.getD_eq_getElem?_getD, List.getElem?_drop, ← List.getD_eq_getElem?_getD, getD_dup]
    congr 1; omega
  rw [this]

section evaluate
variable {F : Type} [Field F]

/-- real layout: `|m(r)| = (r+1)/2` -/
theorem realTables_zero (sqrt : F → F) (M L : Nat) (xs : List F) (r j l : Nat) (h : l < (r + 1) / 2) :
    ent3 (realTables (Legendre.evaluate sqrt M L xs)) r j l = 0 := by
  rw [ent3_realTables]; exact Legendre.ent3_evaluate_of_lt sqrt M L xs _ j l h

/-- fast layout: `|m(r)| = r/2` -/
theorem fastTables_zero (sqrt : F → F) (M L : Nat) (xs : List F) (r j l : Nat) (h : l < r / 2) :
    ent3 (dup (Legendre.evaluate sqrt M L xs)) r j l = 0 := by
  rw [ent3_dup]; exact Legendre.ent3_evaluate_of_lt sqrt M L xs _ j l h

end evaluate

/-! ## the integral (T1.4) -/

theorem ent_map_mul_right (w : List K) (c : K) (j : Nat) : ent (w.map (· * c)) j = ent w j * c := by
  simp only [ent, List.getD_eq_getElem?_getD, List.getElem?_map]
  cases w[j]? <;> simp

/-- `Grid.integrate`, entrywise: `Σ_i Σ_j w[j]·r²·z[i][j]` -/
theorem integrate_eq_sum (w : List K) (r2 : K) (z : List (List K)) (N J : Nat) (hN : z.length ≤ N)
    (hw : w.length ≤ J) :
    integrate w r2 z = ∑ i ∈ range N, ∑ j ∈ range J, ent w j * r2 * ent2 z i j := by
  unfold integrate
  rw [sum_eq_sum_range _ N (by simpa using hN)]
  apply Finset.sum_congr rfl
  intro i _
  have : ent (z.map fun zi => dotv (w.map (· * r2)) zi) i = dotv (w.map (· * r2)) (z.getD i []) := by
    simp only [ent, List.getD_eq_getElem?_getD, List.getElem?_map]
    cases z[i]? <;> simp [dotv]
  rw [this, dotv_eq_sum _ _ J (by simp; omega)]
  apply Finset.sum_congr rfl
  intro j _
  rw [ent_map_mul_right]; rfl

/-- `∫Y_{r,l}` under the grid's quadrature (unit radius) -/
def colInt (b : Basis K) (N J r l : Nat) : K :=
  (∑ i ∈ range N, ent2 b.f i r) * ∑ j ∈ range J, ent b.w j * ent3 b.p r j l

/-- **T1.4** the quadrature integral of a synthesised field is `r²·Σ_{r,l} (∫Y_{r,l})·x[r][l]`,
 for every basis of consistent shape and every spectral field -/
theorem integrate_realSynth (b : Basis K) (N R J L : Nat) (hb : Shaped b N R J L) (r2 : K)
    (x : List (List K)) (hx : ∀ row ∈ x, row.length ≤ L) :
    integrate b.w r2 (realSynth b J x)
      = r2 * ∑ r ∈ range R, ∑ l ∈ range L, colInt b N J r l * ent2 x r l := by
  rw [integrate_eq_sum b.w r2 _ N J (by rw [realSynth_length, hb.fl]) (by rw [hb.wl])]
  simp only [ent2_realSynth b N R J L hb x hx, colInt, Finset.mul_sum, Finset.sum_mul]
  -- Σ_i Σ_j Σ_r Σ_l  →  Σ_r Σ_l Σ_i Σ_j
  rw [Finset.sum_comm]
  rw [sum4_reorder (fun j i r l => ent b.w j * r2 * (ent2 b.f i r * (ent3 b.p r j l * ent2 x r l))) J N R L]
  apply Finset.sum_congr rfl; intro r _
  apply Finset.sum_congr rfl; intro l _
  rw [Finset.sum_comm]
  apply Finset.sum_congr rfl; intro j _
  apply Finset.sum_congr rfl; intro i _
  ring

end Dino.SH
