import DinoProofs.Lemmas.InvariantsDyn

/-!
# Frames on the executable `tree_math` vectors — generic layer of C11

The states of the executable models (`StateWithTime K M`, `DynamicsSW.State M`) are records of
`List`s, not modules: `+` truncates to the shorter column and keeps the tracer keys of the left
argument.  A frame on `TM V` is therefore built from

* a predicate `Q : V → Prop` on records ("every spectral leaf lies in the structural submodule, the
  record has `n` levels and carries the tracer keys `ks`") that is closed under the record
  arithmetic, and
* an observable `ω : V → W` that is additive and homogeneous **on `Q`** (`sim_time`, the `(0,0)`
  coefficient of level `i` of a field, one level of a tracer).

`QObs.frame` is the resulting `Frame` on `TM V` (tendencies: the Python scalar `0` or a record in `Q`;
proper states: records in `Q`); `QObs.respects` reduces the closure hypotheses of T11.2 for an
equation given by three functions on records to statements about records; `QObs.history` /
`QObs.leapfrog_history` are the history theorems started from a record.
-/
set_option linter.unusedSectionVars false

namespace Dino.Invariants
open Dino.Imex

/-- a record predicate closed under the record arithmetic, with an observable linear on it -/
structure QObs (K V W : Type) [Field K] [Add V] [SMul K V] [AddCommGroup W] [Module K W] where
  Q : V → Prop
  ω : V → W
  Q_add : ∀ {a b}, Q a → Q b → Q (a + b)
  Q_smul : ∀ (c : K) {a}, Q a → Q (c • a)
  ω_add : ∀ {a b}, Q a → Q b → ω (a + b) = ω a + ω b
  ω_smul : ∀ (c : K) {a}, Q a → ω (c • a) = c • ω a

section
variable {K V W : Type} [Field K] [Add V] [SMul K V] [AddCommGroup W] [Module K W]

/-- the observable of a `tree_math` vector (zero on the Python scalar `0`) -/
def QObs.obs (q : QObs K V W) : TM V → W
  | .val s => q.ω s
  | _ => 0

/-- the frame of `q` on `tree_math` vectors -/
def QObs.frame (q : QObs K V W) : Frame K (TM V) W where
  S := TM.IsTend q.Q
  P := TM.IsState q.Q
  obs := q.obs
  P_S := by intro x hx; cases x <;> simp_all [TM.IsTend, TM.IsState]
  P_add := by
    intro x y hx hy
    cases x <;> cases y <;> simp_all [TM.IsTend, TM.IsState]
    exact q.Q_add hx hy
  P_smul := by
    intro c x hx
    cases x <;> simp_all [TM.IsState]
    exact q.Q_smul c hx
  zero_mem := trivial
  add_mem := by
    intro x y hx hy
    cases x <;> cases y <;> simp_all [TM.IsTend]
    exact q.Q_add hx hy
  smul_mem := by
    intro c x hx
    cases x <;> simp_all [TM.IsTend]
    exact q.Q_smul c hx
  obs_zero := rfl
  obs_add := by
    intro x y hx hy
    cases x <;> cases y <;> simp_all [TM.IsTend, QObs.obs]
    exact q.ω_add hx hy
  obs_smul := by
    intro c x hx
    cases x <;> simp_all [TM.IsTend, QObs.obs]
    exact q.ω_smul c hx

@[simp] theorem QObs.frame_P_val (q : QObs K V W) (s : V) : q.frame.P (.val s) ↔ q.Q s := Iff.rfl
@[simp] theorem QObs.frame_obs_val (q : QObs K V W) (s : V) : q.frame.obs (.val s) = q.ω s := rfl

theorem QObs.frame_P_elim (q : QObs K V W) {x : TM V} (hx : q.frame.P x) :
    ∃ s, x = .val s ∧ q.Q s := by
  cases x with
  | zero => exact absurd hx (by simp [QObs.frame, TM.IsState])
  | err => exact absurd hx (by simp [QObs.frame, TM.IsState])
  | val s => exact ⟨s, rfl, hx⟩

/-- **the closure hypotheses of T11.2 for an equation given on records**: on `Q` the explicit terms
 are defined (no exception), land in `Q` and have observable `c`; the implicit terms land in `Q`
 with observable `0`; the implicit inverse maps `Q → Q` and passes the observable through -/
theorem QObs.respects (q : QObs K V W) (c : W) (F : V → Option V) (G : V → V) (Ginv : V → K → V)
    (hF : ∀ s, q.Q s → ∃ r, F s = some r ∧ q.Q r ∧ q.ω r = c)
    (hG : ∀ s, q.Q s → q.Q (G s) ∧ q.ω (G s) = 0)
    (hI : ∀ s η, q.Q s → q.Q (Ginv s η) ∧ q.ω (Ginv s η) = q.ω s) :
    Respects q.frame c
      { F := TM.liftO F, G := TM.lift G, Ginv := fun x η => TM.lift (fun s => Ginv s η) x } where
  F_tend := by
    intro x hx
    obtain ⟨s, rfl, hs⟩ := q.frame_P_elim hx
    obtain ⟨r, hr, hQ, hω⟩ := hF s hs
    have e : TM.liftO F (.val s) = .val r := by simp [TM.liftO, hr]
    show Tend q.frame c 1 (TM.liftO F (.val s))
    rw [e]
    exact ⟨hQ, by simp [hω]⟩
  G_tend := by
    intro x hx
    obtain ⟨s, rfl, hs⟩ := q.frame_P_elim hx
    exact ⟨(hG s hs).1, by simp [TM.lift, (hG s hs).2]⟩
  Ginv_mem := by
    intro x η hx
    obtain ⟨s, rfl, hs⟩ := q.frame_P_elim hx
    exact (hI s η hs).1
  Ginv_obs := by
    intro x η hx
    obtain ⟨s, rfl, hs⟩ := q.frame_P_elim hx
    exact (hI s η hs).2

/-- a filter given on records that maps `Q → Q` and leaves the observable alone is a `FilterOk`
 filter of the frame -/
theorem QObs.filterOk_lift (q : QObs K V W) (g : V → V)
    (hg : ∀ s, q.Q s → q.Q (g s) ∧ q.ω (g s) = q.ω s) : FilterOk q.frame (TM.lift g) := by
  intro x hx
  obtain ⟨s, rfl, hs⟩ := q.frame_P_elim hx
  exact ⟨(hg s hs).1, (hg s hs).2⟩

/-- **all histories, started from a record**: after any list of steps of the one-state integrators,
 each with its own scheme, step size and `FilterOk` filters, the result is a record in `Q` (no
 exception was raised) whose observable has advanced by `(Σ dtᵢ·advᵢ) • c` -/
theorem QObs.history (q : QObs K V W) {c : W} {e : ImEx K (TM V)} (R : Respects q.frame c e)
    (h2 : (1 + 1 : K) ≠ 0) (hist : List (Entry K (TM V)))
    (hf : ∀ en ∈ hist, ∀ g ∈ en.filters, FilterOk q.frame g)
    (s₀ : V) (hs₀ : q.Q s₀) (u' : TM V) (hrun : runHistory e hist (.val s₀) = some u') :
    ∃ s', u' = .val s' ∧ q.Q s' ∧ q.ω s' = q.ω s₀ + historyAdv hist • c := by
  have h0 : At q.frame c (q.ω s₀) 0 (.val s₀) := ⟨hs₀, by simp⟩
  have key : ∀ (hist : List (Entry K (TM V))),
      (∀ en ∈ hist, ∀ g ∈ en.filters, FilterOk q.frame g) →
      ∀ {a : W} {τ : K} {u u' : TM V}, At q.frame c a τ u → runHistory e hist u = some u' →
      At q.frame c a (τ + historyAdv hist) u' := by
    intro hist
    induction hist with
    | nil =>
      intro _ a τ u u' hu h
      simp only [runHistory, Option.some.injEq] at h
      subst h
      simpa [historyAdv] using hu
    | cons en rest ih =>
      intro hf a τ u u' hu h
      simp only [runHistory] at h
      split at h
      · cases h
      · rename_i f hfs
        have hstep : StepOk (fun τ x => At q.frame c a τ x) (en.dt * en.sch.adv) f
            (en.filters.map Filters.rkStepFilter) := by
          refine ⟨fun τ u hu => R.scheme_at h2 en.sch en.dt f hfs hu, ?_⟩
          intro g hg τ u uNext _ hn
          obtain ⟨g0, hg0, rfl⟩ := List.mem_map.1 hg
          exact (hf en List.mem_cons_self g0 hg0).at hn
        have h1 := stepWithFilters_inv _ _ _ _ hstep τ u hu
        have := ih (fun en' hen' => hf en' (List.mem_cons_of_mem _ hen')) h1 h
        simpa [historyAdv, add_assoc] using this
  obtain ⟨hP, hobs⟩ := key hist hf h0 hrun
  obtain ⟨s', rfl, hs'⟩ := q.frame_P_elim hP
  exact ⟨s', rfl, hs', by simpa using hobs⟩

/-- **all leapfrog histories, started from a pair of records** whose observables are `dt • c`
 apart: after `k` filtered leapfrog steps (any `α`, any list of `leapfrog_step_filter`s of `FilterOk`
 filters and Robert–Asselin filters) both members are records in `Q` and the observable of the
 current one has advanced by `(k·dt) • c` -/
theorem QObs.leapfrog_history (q : QObs K V W) {c : W} {e : ImEx K (TM V)}
    (R : Respects q.frame c e) (dt α : K) (filters : List (LfFilter K (TM V)))
    (hf : ∀ flt ∈ filters, ∀ g, flt = LfFilter.state g → FilterOk q.frame g) (k : Nat)
    (p₀ s₀ : V) (hp₀ : q.Q p₀) (hs₀ : q.Q s₀) (hpair : q.ω s₀ = q.ω p₀ + dt • c) :
    ∃ p' s', runLeapfrog e dt α filters k (.val p₀, .val s₀) = (.val p', .val s') ∧
      q.Q p' ∧ q.Q s' ∧ q.ω s' = q.ω s₀ + ((k : K) * dt) • c ∧ q.ω s' = q.ω p' + dt • c := by
  have h0 : AtPair q.frame c (q.ω s₀) dt 0 (.val p₀, .val s₀) := by
    refine ⟨⟨hp₀, ?_⟩, ⟨hs₀, by simp⟩⟩
    simp only [QObs.frame_obs_val, hpair, zero_sub, neg_smul]
    abel
  have hk : AtPair q.frame c (q.ω s₀) dt (0 + k * dt) (runLeapfrog e dt α filters k (.val p₀, .val s₀)) := by
    unfold runLeapfrog
    apply run_replicate_inv (fun τ x => AtPair q.frame c (q.ω s₀) dt τ x) dt _ _ _ k 0 _ h0
    refine ⟨fun τ u hu => R.leapfrog_atPair dt α hu, ?_⟩
    intro g hg τ u uNext hu hn
    obtain ⟨flt, hflt, rfl⟩ := List.mem_map.1 hg
    cases flt with
    | state g0 => exact leapfrogStepFilter_atPair (hf _ hflt g0 rfl) u hn
    | ra r => exact robertAsselin_atPair r hu hn
  obtain ⟨⟨hP1, ho1⟩, ⟨hP2, ho2⟩⟩ := hk
  obtain ⟨p', e1, hp'⟩ := q.frame_P_elim hP1
  obtain ⟨s', e2, hs'⟩ := q.frame_P_elim hP2
  refine ⟨p', s', Prod.ext e1 e2, hp', hs', ?_, ?_⟩
  · rw [e2] at ho2; simpa using ho2
  · rw [e1] at ho1; rw [e2] at ho2
    simp only [QObs.frame_obs_val] at ho1 ho2
    rw [ho1, ho2, zero_add, sub_smul]
    abel

end
end Dino.Invariants
