import Dino.SH
import DinoProofs.Lemmas.Lin

/-! Entry formulas for the spherical-harmonic transforms of `Dino.SH`. -/
namespace Dino.SH
open Finset Dino.Lin
variable {K : Type} [CommRing K]

/-- shape of a basis: `f : N × R`, `p : R × J × L`, `w : J` -/
structure Shaped (b : Basis K) (N R J L : Nat) : Prop where
  fl : b.f.length = N
  pl : b.p.length = R
  pj : ∀ pm ∈ b.p, pm.length = J
  pll : ∀ pm ∈ b.p, ∀ pj ∈ pm, pj.length = L
  wl : b.w.length = J

/-- `invLegendre`: `out[r][j] = Σ_l p[r][j][l]·x[r][l]` -/
theorem ent2_invLegendre (p : List (List (List K))) (x : List (List K)) (r j L : Nat)
    (hx : ∀ row ∈ x, row.length ≤ L) :
    ent2 (invLegendre p x) r j = ∑ l ∈ range L, ent3 p r j l * ent2 x r l := by
  unfold invLegendre
  by_cases hr : r < p.length ∧ r < x.length
  · obtain ⟨h1, h2⟩ := hr
    have : (List.zipWith (fun pm xm => List.map (fun pj => dotv pj xm) pm) p x).getD r []
        = (p[r]).map fun pj => dotv pj x[r] := by
      simp [List.getD_eq_getElem?_getD, List.getElem?_zipWith, List.getElem?_eq_getElem h1,
        List.getElem?_eq_getElem h2]
    rw [ent2_eq_ent, this]
    by_cases hj : j < p[r].length
    · simp only [ent, List.getD_eq_getElem?_getD, List.getElem?_map, List.getElem?_eq_getElem hj,
        Option.map_some, Option.getD_some]
      rw [dotv_eq_sum _ _ L (by have := hx _ (List.getElem_mem h2); omega)]
      simp [ent3, ent2, ent, List.getD_eq_getElem?_getD, List.getElem?_eq_getElem h1,
        List.getElem?_eq_getElem h2, List.getElem?_eq_getElem hj]
    · have hj' : p[r].length ≤ j := by omega
      simp [ent, ent3, List.getD_eq_getElem?_getD, List.getElem?_map, List.getElem?_eq_none hj',
        List.getElem?_eq_getElem h1]
  · have : (List.zipWith (fun pm xm => List.map (fun pj => dotv pj xm) pm) p x).getD r [] = [] := by
      simp only [List.getD_eq_getElem?_getD, List.getElem?_zipWith]
      rcases Nat.lt_or_ge r p.length with h1 | h1
      · have h2 : x.length ≤ r := by omega
        simp [List.getElem?_eq_none h2]
      · simp [List.getElem?_eq_none h1]
    rw [ent2_eq_ent, this]
    simp only [ent_nil]
    symm
    apply Finset.sum_eq_zero
    intro l _
    rcases Nat.lt_or_ge r p.length with h1 | h1
    · have h2 : x.length ≤ r := by omega
      simp [ent2, List.getD_eq_getElem?_getD, List.getElem?_eq_none h2]
    · simp [ent3, List.getD_eq_getElem?_getD, List.getElem?_eq_none h1]

/-- `weight`: `out[i][j] = w[j]·z[i][j]` -/
theorem ent2_weight (w : List K) (z : List (List K)) (i j : Nat) :
    ent2 (weight w z) i j = ent w j * ent2 z i j := by
  unfold weight ent2
  simp only [List.getD_eq_getElem?_getD, List.getElem?_map]
  cases z[i]? with
  | none => simp
  | some zi => simpa [ent] using ent_zipWith_mul w zi j

theorem weight_rows (w : List K) (z : List (List K)) (J : Nat) (hw : w.length = J)
    (hz : ∀ zi ∈ z, zi.length = J) : ∀ r ∈ weight w z, r.length = J := by
  intro r hr
  simp only [weight, List.mem_map] at hr
  obtain ⟨zi, hzi, rfl⟩ := hr
  simp [hw, hz zi hzi]

/-- `fwdFourier`: `out[r][j] = Σ_i f[i][r]·wx[i][j]` for `r < R` -/
theorem ent2_fwdFourier (f wx : List (List K)) (R J N r j : Nat) (hr : r < R)
    (hwx : ∀ row ∈ wx, row.length = J) (hN : min f.length wx.length ≤ N) :
    ent2 (fwdFourier f wx R J) r j = ∑ i ∈ range N, ent2 f i r * ent2 wx i j := by
  unfold fwdFourier transposeM
  rw [ent2_eq_ent]
  simp only [List.getD_eq_getElem?_getD, List.getElem?_map, List.getElem?_range hr, Option.map_some,
    Option.getD_some]
  rw [ent_vecMat _ _ _ _ N hwx (by simpa [col_length] using hN)]
  apply Finset.sum_congr rfl
  intro i _
  rw [ent_col]

theorem fwdFourier_length (f wx : List (List K)) (R J : Nat) : (fwdFourier f wx R J).length = R := by
  simp [fwdFourier, transposeM]

/-- `fwdLegendre`: `out[r][l] = Σ_j v[r][j]·p[r][j][l]` -/
theorem ent2_fwdLegendre (p : List (List (List K))) (v : List (List K)) (L J r l : Nat)
    (hp : ∀ pm ∈ p, ∀ pj ∈ pm, pj.length = L) (hpj : ∀ pm ∈ p, pm.length ≤ J) :
    ent2 (fwdLegendre p v L) r l = ∑ j ∈ range J, ent2 v r j * ent3 p r j l := by
  unfold fwdLegendre
  by_cases hr : r < p.length ∧ r < v.length
  · obtain ⟨h1, h2⟩ := hr
    have : (List.zipWith (fun pm vm => vecMat vm pm L) p v).getD r [] = vecMat v[r] p[r] L := by
      simp [List.getD_eq_getElem?_getD, List.getElem?_zipWith, List.getElem?_eq_getElem h1,
        List.getElem?_eq_getElem h2]
    rw [ent2_eq_ent, this, ent_vecMat _ _ _ _ J (hp _ (List.getElem_mem h1))
      (by have := hpj _ (List.getElem_mem h1); omega)]
    simp [ent3, ent2, ent, List.getD_eq_getElem?_getD, List.getElem?_eq_getElem h1,
      List.getElem?_eq_getElem h2]
  · have : (List.zipWith (fun pm vm => vecMat vm pm L) p v).getD r [] = [] := by
      simp only [List.getD_eq_getElem?_getD, List.getElem?_zipWith]
      rcases Nat.lt_or_ge r p.length with h1 | h1
      · have h2 : v.length ≤ r := by omega
        simp [List.getElem?_eq_none h2]
      · simp [List.getElem?_eq_none h1]
    rw [ent2_eq_ent, this]
    simp only [ent_nil]
    symm
    apply Finset.sum_eq_zero
    intro j _
    rcases Nat.lt_or_ge r p.length with h1 | h1
    · have h2 : v.length ≤ r := by omega
      simp [ent2, List.getD_eq_getElem?_getD, List.getElem?_eq_none h2]
    · simp [ent3, List.getD_eq_getElem?_getD, List.getElem?_eq_none h1]


theorem invLegendre_rows (p : List (List (List K))) (x : List (List K)) (J : Nat)
    (hp : ∀ pm ∈ p, pm.length = J) : ∀ r ∈ invLegendre p x, r.length = J := by
  intro r hr
  unfold invLegendre at hr
  rw [List.mem_iff_getElem] at hr
  obtain ⟨i, hi, rfl⟩ := hr
  simp only [List.length_zipWith] at hi
  simp only [List.getElem_zipWith, List.length_map]
  exact hp _ (List.getElem_mem _)

theorem invLegendre_length (p : List (List (List K))) (x : List (List K)) :
    (invLegendre p x).length = min p.length x.length := by simp [invLegendre]

/-- synthesis, entrywise: `z[i][j] = Σ_r f[i][r]·Σ_l p[r][j][l]·x[r][l]` -/
theorem ent2_realSynth (b : Basis K) (N R J L : Nat) (hb : Shaped b N R J L) (x : List (List K))
    (hx : ∀ row ∈ x, row.length ≤ L) (i j : Nat) :
    ent2 (realSynth b J x) i j
      = ∑ r ∈ range R, ent2 b.f i r * ∑ l ∈ range L, ent3 b.p r j l * ent2 x r l := by
  unfold realSynth invFourier
  rw [ent2_matMul _ _ J i j R (invLegendre_rows _ _ J hb.pj)
    (by rw [invLegendre_length, hb.pl]; omega)]
  apply Finset.sum_congr rfl
  intro r _
  rw [ent2_invLegendre _ _ _ _ L hx]

theorem realSynth_rows (b : Basis K) (N R J L : Nat) (hb : Shaped b N R J L) (x : List (List K)) :
    ∀ r ∈ realSynth b J x, r.length = J := by
  intro r hr
  simp only [realSynth, invFourier, matMul, List.mem_map] at hr
  obtain ⟨fi, _, rfl⟩ := hr
  exact vecMat_length _ _ _ (invLegendre_rows _ _ J hb.pj)

theorem realSynth_length (b : Basis K) (J : Nat) (x : List (List K)) :
    (realSynth b J x).length = b.f.length := by simp [realSynth, invFourier, matMul]

/-- analysis, entrywise: `y[r][l] = Σ_j (Σ_i f[i][r]·w[j]·z[i][j])·p[r][j][l]` -/
theorem ent2_realAnalysis (b : Basis K) (N R J L : Nat) (hb : Shaped b N R J L)
    (z : List (List K)) (hz : ∀ zi ∈ z, zi.length = J) (hzl : z.length ≤ N) (r l : Nat) (hr : r < R) :
    ent2 (realAnalysis b R J L z) r l
      = ∑ j ∈ range J, (∑ i ∈ range N, ent2 b.f i r * (ent b.w j * ent2 z i j)) * ent3 b.p r j l := by
  unfold realAnalysis
  rw [ent2_fwdLegendre _ _ L J r l hb.pll (fun pm hpm => by rw [hb.pj pm hpm])]
  apply Finset.sum_congr rfl
  intro j _
  rw [ent2_fwdFourier _ _ R J N r j hr (weight_rows _ _ J hb.wl hz)
    (by simp [weight]; omega)]
  congr 1
  apply Finset.sum_congr rfl
  intro i _
  rw [ent2_weight]

/-- Fourier Gram entry `Σ_i f[i][r]·f[i][r']` -/
def fGram (b : Basis K) (N r r' : Nat) : K := ∑ i ∈ range N, ent2 b.f i r * ent2 b.f i r'

/-- Legendre (cross) Gram entry `Σ_j w[j]·p[r][j][l]·p[r'][j][l']` -/
def lGram (b : Basis K) (J r r' l l' : Nat) : K :=
  ∑ j ∈ range J, ent b.w j * ent3 b.p r j l * ent3 b.p r' j l'

theorem sum4_reorder (T : ℕ → ℕ → ℕ → ℕ → K) (J N R L : Nat) :
    ∑ j ∈ range J, ∑ i ∈ range N, ∑ r ∈ range R, ∑ l ∈ range L, T j i r l
      = ∑ r ∈ range R, ∑ l ∈ range L, ∑ i ∈ range N, ∑ j ∈ range J, T j i r l := by
  calc ∑ j ∈ range J, ∑ i ∈ range N, ∑ r ∈ range R, ∑ l ∈ range L, T j i r l
      = ∑ j ∈ range J, ∑ r ∈ range R, ∑ i ∈ range N, ∑ l ∈ range L, T j i r l := by
        apply Finset.sum_congr rfl; intro j _; exact Finset.sum_comm
    _ = ∑ r ∈ range R, ∑ j ∈ range J, ∑ i ∈ range N, ∑ l ∈ range L, T j i r l := Finset.sum_comm
    _ = ∑ r ∈ range R, ∑ j ∈ range J, ∑ l ∈ range L, ∑ i ∈ range N, T j i r l := by
        apply Finset.sum_congr rfl; intro r _
        apply Finset.sum_congr rfl; intro j _; exact Finset.sum_comm
    _ = ∑ r ∈ range R, ∑ l ∈ range L, ∑ j ∈ range J, ∑ i ∈ range N, T j i r l := by
        apply Finset.sum_congr rfl; intro r _; exact Finset.sum_comm
    _ = ∑ r ∈ range R, ∑ l ∈ range L, ∑ i ∈ range N, ∑ j ∈ range J, T j i r l := by
        apply Finset.sum_congr rfl; intro r _
        apply Finset.sum_congr rfl; intro l _; exact Finset.sum_comm

/-- **T1.1** the round trip is the action of the (separable) Gram tensor, for every field `x`
 and every basis of consistent shape. -/
theorem ent2_roundtrip (b : Basis K) (N R J L : Nat) (hb : Shaped b N R J L) (x : List (List K))
    (hx : ∀ row ∈ x, row.length ≤ L) (r l : Nat) (hr : r < R) :
    ent2 (realAnalysis b R J L (realSynth b J x)) r l
      = ∑ r' ∈ range R, ∑ l' ∈ range L, fGram b N r r' * lGram b J r r' l l' * ent2 x r' l' := by
  rw [ent2_realAnalysis b N R J L hb _ (realSynth_rows b N R J L hb x)
    (by rw [realSynth_length, hb.fl]) r l hr]
  have h1 : ∀ i j, ent2 (realSynth b J x) i j
      = ∑ r' ∈ range R, ent2 b.f i r' * ∑ l' ∈ range L, ent3 b.p r' j l' * ent2 x r' l' :=
    fun i j => ent2_realSynth b N R J L hb x hx i j
  simp only [h1, fGram, lGram, Finset.mul_sum, Finset.sum_mul]
  rw [sum4_reorder]
  apply Finset.sum_congr rfl; intro r' _
  apply Finset.sum_congr rfl; intro l' _
  rw [Finset.sum_comm]
  apply Finset.sum_congr rfl; intro j _
  apply Finset.sum_congr rfl; intro i _
  ring

end Dino.SH
