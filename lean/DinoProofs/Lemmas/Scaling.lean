import Dino.Dynamics
import Mathlib.Algebra.Module.Basic
import Mathlib.Algebra.Algebra.Basic
import Mathlib.Tactic.Module
import Mathlib.Tactic.Ring
import Mathlib.Tactic.FieldSimp

/-!
# Scaling (change of the non-dimensionalisation) of the `Dynamics` model — lemma library

A change of the unit scale multiplies the non-dimensional value of a quantity of dimension
`L^a T^b M^c Θ^d` by `l^a t^b m^c θ^d` (`l, t, m, θ` = ratios of the two length / time / mass /
temperature units).  This file proves, routine by routine, that every column routine and every term of
`Dino.Dynamics` is homogeneous under that action:

1. `Col.*` routines commute with a scalar multiplication of the whole column (`Col.smul`);
2. how the scaled parameters enter (`geopotentialWeights`, `hMatrix`, `T_ref`);
3. the diagnostic state and every explicit/implicit term.

Carriers: `K` a field, `M` a `K`-module (one level, modal), `N` a commutative `K`-algebra (one
level, nodal, pointwise ring).
-/
namespace Dino.Scaling
open Dino Dino.Dynamics
set_option linter.unusedSectionVars false

/-! ## columns -/
section col
variable {K : Type} [Field K]

section mod
variable {V : Type} [AddCommGroup V] [Module K V]

theorem smul_smul_col (a b : K) (x : List V) : Col.smul a (Col.smul b x) = Col.smul (a * b) x := by
  simp [Col.smul, smul_smul]

theorem smul_congr {a b : K} (h : a = b) (x : List V) : Col.smul a x = Col.smul b x := by rw [h]

theorem one_smul_col (x : List V) : Col.smul (1 : K) x = x := by simp [Col.smul]

@[simp] theorem smul_length (a : K) (x : List V) : (Col.smul a x).length = x.length := by
  simp [Col.smul]

/-- pointwise map with a homogeneity relation between the two functions -/
theorem map_smul_of {W : Type} [SMul K W] (f' f : V → W) (a k : K) (h : ∀ u, f' (a • u) = k • f u)
    (x : List V) : (Col.smul a x).map f' = Col.smul k (x.map f) := by
  simp [Col.smul, h]

/-- pointwise binary operation with a homogeneity relation between the two functions -/
theorem zipWith_smul_of {A B C : Type} [SMul K A] [SMul K B] [SMul K C] (F' F : A → B → C) (a b k : K)
    (h : ∀ u v, F' (a • u) (b • v) = k • F u v) (x : List A) (y : List B) :
    List.zipWith F' (Col.smul a x) (Col.smul b y) = Col.smul k (List.zipWith F x y) := by
  simp only [Col.smul, List.zipWith_map_left, List.zipWith_map_right, List.map_zipWith]
  congr 1
  funext u v
  exact h u v

theorem zipWith_smul_left_of {A B C : Type} [SMul K A] [SMul K C] (F' F : A → B → C) (a k : K)
    (h : ∀ u v, F' (a • u) v = k • F u v) (x : List A) (y : List B) :
    List.zipWith F' (Col.smul a x) y = Col.smul k (List.zipWith F x y) := by
  simp only [Col.smul, List.zipWith_map_left, List.map_zipWith]
  congr 1
  funext u v
  exact h u v

theorem zipWith_smul_right_of {A B C : Type} [SMul K B] [SMul K C] (F' F : A → B → C) (b k : K)
    (h : ∀ u v, F' u (b • v) = k • F u v) (x : List A) (y : List B) :
    List.zipWith F' x (Col.smul b y) = Col.smul k (List.zipWith F x y) := by
  simp only [Col.smul, List.zipWith_map_right, List.map_zipWith]
  congr 1
  funext u v
  exact h u v

theorem add_smul_col (c : K) (x y : List V) :
    Col.add (Col.smul c x) (Col.smul c y) = Col.smul c (Col.add x y) :=
  zipWith_smul_of _ _ c c c (fun u v => (smul_add c u v).symm) x y

theorem sub_smul_col (c : K) (x y : List V) :
    Col.sub (Col.smul c x) (Col.smul c y) = Col.smul c (Col.sub x y) :=
  zipWith_smul_of _ _ c c c (fun u v => (smul_sub c u v).symm) x y

theorem neg_smul_col (c : K) (x : List V) : Col.neg (Col.smul c x) = Col.smul c (Col.neg x) :=
  map_smul_of _ _ c c (fun u => (smul_neg c u).symm) x

theorem addLevel_smul_col (c : K) (x : List V) (a : V) :
    Col.addLevel (Col.smul c x) (c • a) = Col.smul c (Col.addLevel x a) :=
  map_smul_of _ _ c c (fun u => (smul_add c u a).symm) x

theorem wmul_smul_col (w : List K) (c : K) (x : List V) :
    Col.wmul w (Col.smul c x) = Col.smul c (Col.wmul w x) :=
  zipWith_smul_right_of _ _ c c (fun u v => smul_comm u c v) w x

/-- the weights themselves multiplied by `k` -/
theorem wmul_scaled_weights (k : K) (w : List K) (x : List V) :
    Col.wmul (w.map (k * ·)) x = Col.smul k (Col.wmul w x) := by
  simp only [Col.wmul, Col.smul, List.zipWith_map_left, List.map_zipWith]
  congr 1
  funext u v
  exact mul_smul k u v

theorem zerosLike_smul_col {W : Type} [Zero W] [SMul K W] (c : K) (x : List V) :
    (Col.zerosLike (Col.smul c x) : List W) = Col.zerosLike x := by
  simp [Col.zerosLike, Col.smul, Function.comp_def]

theorem smul_zerosLike {W : Type} (c : K) (x : List W) :
    Col.smul c (Col.zerosLike x : List V) = Col.zerosLike x := by
  simp [Col.zerosLike, Col.smul]

theorem cumsumFrom_smul_col (c : K) (acc : V) (x : List V) :
    Col.cumsumFrom (c • acc) (Col.smul c x) = Col.smul c (Col.cumsumFrom acc x) := by
  induction x generalizing acc with
  | nil => rfl
  | cons a t ih =>
    have := ih (acc + a)
    simp only [Col.smul, List.map_cons, Col.cumsumFrom, smul_add] at this ⊢
    rw [this]

theorem cumsum_smul_col (c : K) (x : List V) : Col.cumsum (Col.smul c x) = Col.smul c (Col.cumsum x) := by
  have := cumsumFrom_smul_col c (0 : V) x
  rwa [smul_zero] at this

theorem diffs_smul_col (c : K) (x : List V) : Col.diffs (Col.smul c x) = Col.smul c (Col.diffs x) := by
  induction x with
  | nil => rfl
  | cons a t ih =>
    cases t with
    | nil => rfl
    | cons b u =>
      simp only [Col.smul, List.map_cons, Col.diffs, smul_sub] at ih ⊢
      rw [ih]

theorem sum_smul_col (c : K) (x : List V) : (Col.smul c x).sum = c • x.sum := by
  induction x with
  | nil => simp [Col.smul]
  | cons a t ih =>
    simp only [Col.smul, List.map_cons, List.sum_cons, smul_add] at ih ⊢
    rw [ih]

theorem cumSigmaIntegral_smul_col (ds : List K) (c : K) (x : List V) :
    Col.cumSigmaIntegral ds (Col.smul c x) = Col.smul c (Col.cumSigmaIntegral ds x) := by
  rw [Col.cumSigmaIntegral, wmul_smul_col, cumsum_smul_col]; rfl

theorem sigmaIntegral_smul_col (ds : List K) (c : K) (x : List V) :
    Col.sigmaIntegral ds (Col.smul c x) = c • Col.sigmaIntegral ds x := by
  rw [Col.sigmaIntegral, wmul_smul_col, sum_smul_col]; rfl

theorem centeredDifference_smul_col (ctc : List K) (c : K) (x : List V) :
    Col.centeredDifference ctc (Col.smul c x) = Col.smul c (Col.centeredDifference ctc x) := by
  rw [Col.centeredDifference, diffs_smul_col]
  exact zipWith_smul_left_of _ _ c c (fun u v => smul_comm _ c u) _ _

theorem matvec_smul_col (a : List (List K)) (c : K) (x : List V) :
    Col.matvec a (Col.smul c x) = Col.smul c (Col.matvec a x) := by
  simp only [Col.matvec, wmul_smul_col, sum_smul_col]
  simp [Col.smul]

/-- the matrix itself multiplied by `k` -/
theorem matvec_scaled_matrix (k : K) (a : List (List K)) (x : List V) :
    Col.matvec (a.map fun row => row.map (k * ·)) x = Col.smul k (Col.matvec a x) := by
  simp only [Col.matvec, List.map_map, Col.smul]
  congr 1
  funext row
  simp only [Function.comp]
  rw [wmul_scaled_weights, sum_smul_col]

theorem getLastD_smul_col (c : K) (x : List V) : (Col.smul c x).getLastD 0 = c • x.getLastD 0 := by
  rw [List.getLastD_eq_getLast?, List.getLastD_eq_getLast?, Col.smul, List.getLast?_map]
  cases x.getLast? <;> simp

theorem dropLast_smul_col (c : K) (x : List V) : (Col.smul c x).dropLast = Col.smul c x.dropLast := by
  simp [Col.smul, List.map_dropLast]

theorem tail_smul_col (c : K) (x : List V) : (Col.smul c x).tail = Col.smul c x.tail := by
  simp [Col.smul, List.map_tail]

theorem cons_zero_smul_col (c : K) (x : List V) : (0 : V) :: Col.smul c x = Col.smul c ((0 : V) :: x) := by
  simp [Col.smul]

theorem append_zero_smul_col (c : K) (x : List V) : Col.smul c x ++ [(0 : V)] = Col.smul c (x ++ [0]) := by
  simp [Col.smul]

/-- `σ̇` from a cumulative integral is linear in it -/
theorem sigmaDotOf_smul_col (ds : List K) (c : K) (f : List V) :
    sigmaDotOf ds (Col.smul c f) = Col.smul c (sigmaDotOf ds f) := by
  unfold sigmaDotOf
  rw [getLastD_smul_col, ← dropLast_smul_col]
  congr 1
  exact zipWith_smul_right_of _ _ c c (fun u v => by rw [smul_sub, smul_comm]) _ _

/-- rewriting form of `zipWith_smul_of`: the target function `F` is given, `F'` is read off the goal
 and the pointwise relation becomes a side goal -/
theorem zipWith_smul_rw {A B C : Type} [SMul K A] [SMul K B] [SMul K C] {F' : A → B → C}
    (F : A → B → C) (a b k : K) {x : List A} {y : List B}
    (h : ∀ u v, F' (a • u) (b • v) = k • F u v) :
    List.zipWith F' (Col.smul a x) (Col.smul b y) = Col.smul k (List.zipWith F x y) :=
  zipWith_smul_of F' F a b k h x y

theorem zipWith_smul_left_rw {A B C : Type} [SMul K A] [SMul K C] {F' : A → B → C}
    (F : A → B → C) (a k : K) {x : List A} {y : List B}
    (h : ∀ u v, F' (a • u) v = k • F u v) :
    List.zipWith F' (Col.smul a x) y = Col.smul k (List.zipWith F x y) :=
  zipWith_smul_left_of F' F a k h x y

theorem zipWith_smul_right_rw {A B C : Type} [SMul K B] [SMul K C] {F' : A → B → C}
    (F : A → B → C) (b k : K) {x : List A} {y : List B}
    (h : ∀ u v, F' u (b • v) = k • F u v) :
    List.zipWith F' x (Col.smul b y) = Col.smul k (List.zipWith F x y) :=
  zipWith_smul_right_of F' F b k h x y

theorem map_smul_rw {W : Type} [SMul K W] {f' : V → W} (f : V → W) (a k : K) {x : List V}
    (h : ∀ u, f' (a • u) = k • f u) : (Col.smul a x).map f' = Col.smul k (x.map f) :=
  map_smul_of f' f a k h x

/-- a map whose function carries the factor: `x.map (k • f ·) = k • x.map f` -/
theorem map_pull_smul {A W : Type} [SMul K W] (f : A → W) (k : K) (x : List A) :
    x.map (fun u => k • f u) = Col.smul k (x.map f) := by
  simp [Col.smul]

end mod

/-! ### nodal columns (pointwise products) -/
section alg
variable {N : Type} [CommRing N] [Algebra K N]

theorem mul_smul_col (a b : K) (x y : List N) :
    Col.mul (Col.smul a x) (Col.smul b y) = Col.smul (a * b) (Col.mul x y) :=
  zipWith_smul_of _ _ a b (a * b) (fun u v => smul_mul_smul_comm a u b v) x y

theorem mul_smul_left_col (a : K) (x y : List N) :
    Col.mul (Col.smul a x) y = Col.smul a (Col.mul x y) :=
  zipWith_smul_left_of _ _ a a (fun u v => smul_mul_assoc a u v) x y

theorem mul_smul_right_col (b : K) (x y : List N) :
    Col.mul x (Col.smul b y) = Col.smul b (Col.mul x y) :=
  zipWith_smul_right_of _ _ b b (fun u v => mul_smul_comm b u v) x y

/-- centred vertical advection is bilinear in (velocity, advected field) -/
theorem centeredAdvection_smul_col (ctc : List K) (a b : K) (w x : List N) :
    Col.centeredAdvection ctc (Col.smul a w) (Col.smul b x)
      = Col.smul (a * b) (Col.centeredAdvection ctc w x) := by
  unfold Col.centeredAdvection
  simp only []
  rw [centeredDifference_smul_col, append_zero_smul_col, append_zero_smul_col, cons_zero_smul_col,
    cons_zero_smul_col, mul_smul_col, tail_smul_col]
  exact zipWith_smul_of _ _ (a * b) (a * b) (a * b)
    (fun u v => by rw [← smul_add, smul_comm]) _ _

end alg
end col
end Dino.Scaling
