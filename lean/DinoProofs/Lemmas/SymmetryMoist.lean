import DinoProofs.Lemmas.SymmetryPE

/-!
# Lemmas for C10, part 4: implicit terms / inverse, the class with time, the moist classes
-/
namespace Dino.Symmetry
open Dino Dino.Dynamics

variable {K M N : Type} [Field K] [AddCommGroup M] [Module K M] [CommRing N] [Algebra K N]

set_option linter.unusedSectionVars false

section implicit
variable {S : Sym K M N} (eq : PrimitiveEquations K M N) (H : Equivariant eq.ops S)
include H

omit H in
theorem mapTracers_zerosLike (t : List (String × List M)) :
    mapTracers (Col.zerosLike : List M → List M) (mapTracers (fun x => x.map S.mE) t)
      = mapTracers (fun x => x.map S.mE) (mapTracers (Col.zerosLike : List M → List M) t) := by
  simp only [mapTracers, List.map_map]
  congr 1
  funext kv
  simp only [Function.comp]
  congr 1
  exact col_zerosLike S.mE kv.2 S.mE

theorem implicitTerms_equiv (s : State M) :
    (S.eqn eq).implicitTerms (S.state s) = S.state (eq.implicitTerms s) := by
  unfold PrimitiveEquations.implicitTerms Sym.state PrimitiveEquations.geopotentialDiff
    PrimitiveEquations.temperatureImplicit PrimitiveEquations.temperatureImplicitWeights
  have hz := col_zerosLike (V := M) (W := M) S.mO s.vorticity S.mO
  have hrt : (eq.referenceTemperature.map fun t => (eq.phys.R * t) • S.mE s.logSurfacePressure)
      = (eq.referenceTemperature.map fun t => (eq.phys.R * t) • s.logSurfacePressure).map S.mE := by
    rw [List.map_map]; congr 1; funext t; simp
  simp only [eqn_ops, eqn_vert, eqn_phys, eqn_tref, col_matvec, hrt, col_add, hz, col_sigmaIntegral,
    map_neg, mapTracers_zerosLike]
  rw [map_map_comm (fun x => -(eq.ops.laplacian x)) (fun x => -(eq.ops.laplacian x)) S.mE S.mE
    (fun x => by rw [lap_E H, ← map_neg])]

omit H in
theorem foldl_add_map {V : Type} [AddCommGroup V] [Module K V] (φ : V →ₗ[K] V) (L : List (List V))
    (acc : List V) :
    (L.map fun c => c.map φ).foldl Col.add (acc.map φ) = (L.foldl Col.add acc).map φ := by
  induction L generalizing acc with
  | nil => rfl
  | cons c t ih =>
    simp only [List.map_cons, List.foldl_cons]
    rw [col_add, ih]

omit H in
theorem foldl_add_map_zeros {V : Type} [AddCommGroup V] [Module K V] (φ : V →ₗ[K] V) (L : List (List V))
    (r : ℕ) :
    (L.map fun c => c.map φ).foldl Col.add (Col.zeros r) = (L.foldl Col.add (Col.zeros r)).map φ := by
  rw [← foldl_add_map, ← col_zeros φ r]

theorem matvecPerWavenumber_equiv (a : Nat → List (List K)) (rows : Nat) (x : List M) :
    (S.eqn eq).matvecPerWavenumber a rows (x.map S.mE) = (eq.matvecPerWavenumber a rows x).map S.mE := by
  unfold PrimitiveEquations.matvecPerWavenumber
  simp only [eqn_ops]
  have hL : ((List.range eq.ops.nL).map fun l => Col.matvec (a l) ((x.map S.mE).map (eq.ops.lproj l)))
      = ((List.range eq.ops.nL).map fun l => Col.matvec (a l) (x.map (eq.ops.lproj l))).map
          (fun c => c.map S.mE) := by
    rw [List.map_map]
    apply List.map_congr_left
    intro l _
    simp only [Function.comp]
    rw [map_map_comm (eq.ops.lproj l) (eq.ops.lproj l) S.mE S.mE (fun y => H.lproj l y), col_matvec]
  rw [hL, foldl_add_map_zeros]

theorem implicitInverse_equiv (inv : Nat → List (List K)) (s : State M) :
    (S.eqn eq).implicitInverse inv (S.state s) = S.state (eq.implicitInverse inv s) := by
  unfold PrimitiveEquations.implicitInverse Sym.state
  have hp : [S.mE s.logSurfacePressure] = [s.logSurfacePressure].map S.mE := rfl
  have hl : (S.eqn eq).vert.layers = eq.vert.layers := rfl
  simp only [hp, hl, matvecPerWavenumber_equiv eq H, col_add]
  congr 1
  have := headD_map S.mE (Col.add (Col.add
      (eq.matvecPerWavenumber (fun l => Implicit.block (inv l) (2 * eq.vert.layers) 1 0 eq.vert.layers) 1 s.divergence)
      (eq.matvecPerWavenumber (fun l => Implicit.block (inv l) (2 * eq.vert.layers) 1 eq.vert.layers eq.vert.layers) 1
        s.temperatureVariation))
      (eq.matvecPerWavenumber (fun l => Implicit.block (inv l) (2 * eq.vert.layers) 1 (2 * eq.vert.layers) 1) 1
        [s.logSurfacePressure])) 0
  rw [map_zero] at this
  exact this

end implicit

/-! ## `PrimitiveEquationsWithTime` -/
section withTime
variable {S : Sym K M N} (eq : PrimitiveEquations K M N) (H : Equivariant eq.ops S)
include H

theorem withTime_explicitTerms_equiv [BEq K] (s : StateWithTime K M) :
    PrimitiveEquationsWithTime.explicitTerms (S.eqn eq) (S.stateWithTime s)
      = S.stateWithTime (PrimitiveEquationsWithTime.explicitTerms eq s) := by
  simp only [PrimitiveEquationsWithTime.explicitTerms, Sym.stateWithTime, explicitTerms_equiv eq H]

theorem withTime_implicitTerms_equiv (s : StateWithTime K M) :
    PrimitiveEquationsWithTime.implicitTerms (S.eqn eq) (S.stateWithTime s)
      = S.stateWithTime (PrimitiveEquationsWithTime.implicitTerms eq s) := by
  simp only [PrimitiveEquationsWithTime.implicitTerms, Sym.stateWithTime, implicitTerms_equiv eq H]

theorem withTime_implicitInverse_equiv (inv : Nat → List (List K)) (s : StateWithTime K M) :
    PrimitiveEquationsWithTime.implicitInverse (S.eqn eq) inv (S.stateWithTime s)
      = S.stateWithTime (PrimitiveEquationsWithTime.implicitInverse eq inv s) := by
  simp only [PrimitiveEquationsWithTime.implicitInverse, Sym.stateWithTime, implicitInverse_equiv eq H]

end withTime

/-! ## the moist classes -/
section moist
variable [Div N] {S : Sym K M N} (eq : PrimitiveEquations K M N) (H : Equivariant eq.ops S)
  (hdiv : ∀ a b : N, S.ρN (a / b) = S.ρN a / S.ρN b)
include H

omit H in
theorem lookup_mapTracers {α β : Type} (f : α → β) (name : String) (t : List (String × α)) :
    lookup name (mapTracers f t) = (lookup name t).map f := by
  induction t with
  | nil => rfl
  | cons kv t ih =>
    simp only [mapTracers, List.map_cons, lookup] at ih ⊢
    split
    · rfl
    · exact ih

theorem virtualTemperature_equiv (aux : Diag N) (mc : List N) :
    MoistPrimitiveEquations.virtualTemperature (S.eqn eq) (S.diag aux) (mc.map S.nE)
      = (MoistPrimitiveEquations.virtualTemperature eq aux mc).map (fun r => r.map S.nE) := by
  simp only [MoistPrimitiveEquations.virtualTemperature, Option.map_some, Sym.diag, eqn_phys]
  congr 1
  exact zipWith_map_comm _ _ _ _ _ (fun t m => by simp) _ _

theorem virtualTemperatureWithClouds_equiv (aux : Diag N) (mc : List N) :
    MoistPrimitiveEquations.virtualTemperatureWithClouds (S.eqn eq) (S.diag aux) (mc.map S.nE)
      = (MoistPrimitiveEquations.virtualTemperatureWithClouds eq aux mc).map (fun r => r.map S.nE) := by
  have htr : (S.diag aux).tracers = mapTracers (fun x => x.map S.nE) aux.tracers := rfl
  have hT : (S.diag aux).temperatureVariation = aux.temperatureVariation.map S.nE := rfl
  have h1 : (mc.map S.nE).map (fun m => (1 : N) + m) = (mc.map fun m => (1 : N) + m).map S.nE :=
    map_map_comm _ _ _ _ (fun m => by simp) _
  simp only [MoistPrimitiveEquations.virtualTemperatureWithClouds, htr, hT, lookup_mapTracers, eqn_phys,
    Option.bind_eq_bind, Option.pure_def]
  cases lookup cloudWaterKey aux.tracers with
  | none => rfl
  | some ql =>
    cases lookup cloudIceKey aux.tracers with
    | none => rfl
    | some qi =>
      simp only [Option.map_some, Option.bind_some, h1, col_sub]
      congr 1
      exact zipWith_map_comm _ _ _ _ _ (fun t f => by simp) _ _

/-- what is needed of a `_virtual_temperature` method -/
def VtEquiv (S : Sym K M N) (vt' vt : Diag N → List N → Option (List N)) : Prop :=
  ∀ aux mc, vt' (S.diag aux) (mc.map S.nE) = (vt aux mc).map (fun r => r.map S.nE)

theorem moist_curlAndDivTendencies_equiv (vt' vt : Diag N → List N → Option (List N))
    (hvt : VtEquiv S vt' vt) (aux : Diag N) :
    MoistPrimitiveEquations.curlAndDivTendencies (S.eqn eq) vt' (S.diag aux)
      = (MoistPrimitiveEquations.curlAndDivTendencies eq vt aux).map
          (fun p => (p.1.map S.mO, p.2.map S.mE)) := by
  have htr : (S.diag aux).tracers = mapTracers (fun x => x.map S.nE) aux.tracers := rfl
  simp only [MoistPrimitiveEquations.curlAndDivTendencies, MoistPrimitiveEquations.getSpecificHumidity,
    htr, lookup_mapTracers, eqn_phys, Option.bind_eq_bind, Option.pure_def]
  cases lookup specificHumidityKey aux.tracers with
  | none => rfl
  | some q =>
    simp only [Option.map_some, Option.bind_some, col_smul, hvt aux]
    cases vt aux (Col.smul (eq.phys.Rvapor / eq.phys.R - 1) q) with
    | none => rfl
    | some r =>
      simp only [Option.map_some, Option.bind_some, curlAndDivTendenciesWith_equiv eq H]

include hdiv in
theorem moist_adiabatic_equiv (aux : Diag N) :
    MoistPrimitiveEquations.nodalTemperatureAdiabaticTendency (S.eqn eq) (S.diag aux)
      = (MoistPrimitiveEquations.nodalTemperatureAdiabaticTendency eq aux).map (fun r => r.map S.nE) := by
  have htr : (S.diag aux).tracers = mapTracers (fun x => x.map S.nE) aux.tracers := rfl
  have hT : (S.diag aux).temperatureVariation = aux.temperatureVariation.map S.nE := rfl
  have hu : (S.diag aux).uDotGradLogSp = aux.uDotGradLogSp.map S.nE := rfl
  have hd : (S.diag aux).divergence = aux.divergence.map S.nE := rfl
  have h1 : (S.eqn eq).tRef = eq.tRef.map S.nE := (tRef_E eq H).symm
  simp only [MoistPrimitiveEquations.nodalTemperatureAdiabaticTendency,
    MoistPrimitiveEquations.getSpecificHumidity, htr, hT, hu, hd, h1, lookup_mapTracers, eqn_phys,
    Option.bind_eq_bind, Option.pure_def]
  cases lookup specificHumidityKey aux.tracers with
  | none => rfl
  | some q =>
    simp only [Option.map_some, Option.bind_some]
    congr 1
    set a := eq.phys.Rvapor / eq.phys.R with ha
    set b := eq.phys.CpVapor / (eq.phys.R / eq.phys.kappa) with hb
    have e1 : List.zipWith (fun (t qq : N) => t * (((1 : N) + (a - 1) • qq) / ((1 : N) + (b - 1) • qq)))
          (aux.temperatureVariation.map S.nE) (q.map S.nE)
        = (List.zipWith (fun (t qq : N) => t * (((1 : N) + (a - 1) • qq) / ((1 : N) + (b - 1) • qq)))
          aux.temperatureVariation q).map S.nE :=
      zipWith_map_comm _ _ _ _ _ (fun t qq => by simp [hdiv]) _ _
    have e2 : List.zipWith (fun (tr qq : N) => tr * (((a - b) • qq) / ((1 : N) + (b - 1) • qq)))
          (eq.tRef.map S.nE) (q.map S.nE)
        = (List.zipWith (fun (tr qq : N) => tr * (((a - b) • qq) / ((1 : N) + (b - 1) • qq)))
          eq.tRef q).map S.nE :=
      zipWith_map_comm _ _ _ _ _ (fun t qq => by simp [hdiv]) _ _
    rw [e1, e2, col_add, col_add, tOmegaOverSigmaSp_E eq H, tOmegaOverSigmaSp_E eq H, col_add, col_smul]

theorem nodalCosLatGradQ_equiv (qModal : List M) :
    MoistPrimitiveEquations.nodalCosLatGradQ (S.eqn eq) (qModal.map S.mE)
      = (MoistPrimitiveEquations.nodalCosLatGradQ eq qModal).map (fun g => (S.nE g.1, S.nO g.2)) := by
  unfold MoistPrimitiveEquations.nodalCosLatGradQ
  simp only [eqn_ops]
  exact map_map_comm _ _ _ _ (fun qm => by
    simp only [cosLatGrad_E H, toNodal_E H, toNodal_O H]) _

theorem divergenceTendencyDueToHumidity_equiv (s : State M) (aux : Diag N) :
    MoistPrimitiveEquations.divergenceTendencyDueToHumidity (S.eqn eq) (S.state s) (S.diag aux)
      = (MoistPrimitiveEquations.divergenceTendencyDueToHumidity eq s aux).map (fun r => r.map S.mE) := by
  have htr : (S.diag aux).tracers = mapTracers (fun x => x.map S.nE) aux.tracers := rfl
  have hst : (S.state s).tracers = mapTracers (fun x => x.map S.mE) s.tracers := rfl
  have hlsp : (S.state s).logSurfacePressure = S.mE s.logSurfacePressure := rfl
  have hT : (S.diag aux).temperatureVariation = aux.temperatureVariation.map S.nE := rfl
  have hg : (S.diag aux).cosLatGradLogSp = (S.nE aux.cosLatGradLogSp.1, S.nO aux.cosLatGradLogSp.2) := rfl
  have h1 : (S.eqn eq).tRef = eq.tRef.map S.nE := (tRef_E eq H).symm
  simp only [MoistPrimitiveEquations.divergenceTendencyDueToHumidity,
    MoistPrimitiveEquations.getSpecificHumidity, htr, hst, hlsp, hT, hg, h1, lookup_mapTracers, eqn_phys,
    eqn_ops, Option.bind_eq_bind, Option.pure_def]
  cases lookup specificHumidityKey aux.tracers with
  | none => rfl
  | some q =>
    cases lookup specificHumidityKey s.tracers with
    | none => rfl
    | some qm =>
      simp only [Option.map_some, Option.bind_some, nodalCosLatGradQ_equiv eq H]
      congr 1
      set c := eq.phys.Rvapor - eq.phys.R with hc
      set nl := eq.ops.toNodal (eq.ops.laplacian s.logSurfacePressure) with hnl
      have e0 : eq.ops.toNodal (eq.ops.laplacian (S.mE s.logSurfacePressure)) = S.nE nl := by
        rw [lap_E H, toNodal_E H]
      have e1 : List.zipWith (fun (qq tr : N) => qq * S.nE nl * tr * (constN c : N)) (q.map S.nE)
            (eq.tRef.map S.nE)
          = (List.zipWith (fun (qq tr : N) => qq * nl * tr * (constN c : N)) q eq.tRef).map S.nE :=
        zipWith_map_comm _ _ _ _ _ (fun qq tr => by
          conv_lhs => rw [← nE_constN H c, nE_mul_nE H, nE_mul_nE H, nE_mul_nE H]) _ _
      have e2 : List.zipWith (fun (tr : N) (g : N × N) => tr * (constN c : N) * eq.ops.sec2Lat
              * (g.1 * S.nE aux.cosLatGradLogSp.1 + g.2 * S.nO aux.cosLatGradLogSp.2))
            (eq.tRef.map S.nE)
            ((MoistPrimitiveEquations.nodalCosLatGradQ eq qm).map (fun g => (S.nE g.1, S.nO g.2)))
          = (List.zipWith (fun (tr : N) (g : N × N) => tr * (constN c : N) * eq.ops.sec2Lat
              * (g.1 * aux.cosLatGradLogSp.1 + g.2 * aux.cosLatGradLogSp.2))
            eq.tRef (MoistPrimitiveEquations.nodalCosLatGradQ eq qm)).map S.nE :=
        zipWith_map_comm _ _ _ _ _ (fun tr g => by
          show S.nE tr * (constN c : N) * eq.ops.sec2Lat
              * (S.nE g.1 * S.nE aux.cosLatGradLogSp.1 + S.nO g.2 * S.nO aux.cosLatGradLogSp.2) = _
          conv_lhs => rw [← nE_constN H c, nE_mul_nE H, nE_mul_sec2 H, nE_mul_nE H, nO_mul_nO H,
            ← map_add, nE_mul_nE H]) _ _
      have e3 : List.zipWith (fun (qq t : N) => (eq.phys.Rvapor / eq.phys.R - 1) • (qq * t)) (q.map S.nE)
            ((Col.add aux.temperatureVariation eq.tRef).map S.nE)
          = (List.zipWith (fun (qq t : N) => (eq.phys.Rvapor / eq.phys.R - 1) • (qq * t)) q
            (Col.add aux.temperatureVariation eq.tRef)).map S.nE :=
        zipWith_map_comm _ _ _ _ _ (fun qq t => by rw [nE_mul_nE H, ← map_smul]) _ _
      rw [e0, e1, e2, col_add, e3]
      unfold PrimitiveEquations.geopotentialDiff
      simp only [eqn_phys, eqn_vert]
      rw [col_matvec, col_add]
      exact zipWith_map_comm _ _ _ _ _ (fun gd tm => by
        rw [toModal_E H, toModal_E H, lap_E H, ← map_neg, ← map_sub]) _ _

theorem vorticityTendencyDueToHumidity_equiv (s : State M) (aux : Diag N) :
    MoistPrimitiveEquations.vorticityTendencyDueToHumidity (S.eqn eq) (S.state s) (S.diag aux)
      = (MoistPrimitiveEquations.vorticityTendencyDueToHumidity eq s aux).map (fun r => r.map S.mO) := by
  have hst : (S.state s).tracers = mapTracers (fun x => x.map S.mE) s.tracers := rfl
  have hg : (S.diag aux).cosLatGradLogSp = (S.nE aux.cosLatGradLogSp.1, S.nO aux.cosLatGradLogSp.2) := rfl
  have h1 : (S.eqn eq).tRef = eq.tRef.map S.nE := (tRef_E eq H).symm
  simp only [MoistPrimitiveEquations.vorticityTendencyDueToHumidity,
    MoistPrimitiveEquations.getSpecificHumidity, hst, hg, h1, lookup_mapTracers, eqn_phys,
    eqn_ops, Option.bind_eq_bind, Option.pure_def]
  cases lookup specificHumidityKey s.tracers with
  | none => rfl
  | some qm =>
    simp only [Option.map_some, Option.bind_some, nodalCosLatGradQ_equiv eq H]
    congr 1
    set c := eq.phys.Rvapor - eq.phys.R with hc
    have e2 : List.zipWith (fun (tr : N) (g : N × N) => tr * (constN c : N) * eq.ops.sec2Lat
            * (S.nE aux.cosLatGradLogSp.1 * g.2 - S.nO aux.cosLatGradLogSp.2 * g.1))
          (eq.tRef.map S.nE)
          ((MoistPrimitiveEquations.nodalCosLatGradQ eq qm).map (fun g => (S.nE g.1, S.nO g.2)))
        = (List.zipWith (fun (tr : N) (g : N × N) => tr * (constN c : N) * eq.ops.sec2Lat
            * (aux.cosLatGradLogSp.1 * g.2 - aux.cosLatGradLogSp.2 * g.1))
          eq.tRef (MoistPrimitiveEquations.nodalCosLatGradQ eq qm)).map S.nO :=
      zipWith_map_comm _ _ _ _ _ (fun tr g => by
        show S.nE tr * (constN c : N) * eq.ops.sec2Lat
            * (S.nE aux.cosLatGradLogSp.1 * S.nO g.2 - S.nO aux.cosLatGradLogSp.2 * S.nE g.1) = _
        conv_lhs => rw [← nE_constN H c, nE_mul_nE H, nE_mul_sec2 H, nE_mul_nO H, nO_mul_nE H,
          ← map_sub, nE_mul_nO H]) _ _
    rw [e2]
    exact map_map_comm _ _ _ _ (toModal_O H) _

include hdiv in
theorem explicitTermsWith_equiv [BEq K] (vt' vt : Diag N → List N → Option (List N))
    (hvt : VtEquiv S vt' vt) (s : StateWithTime K M) :
    MoistPrimitiveEquations.explicitTermsWith (S.eqn eq) vt' (S.stateWithTime s)
      = (MoistPrimitiveEquations.explicitTermsWith eq vt s).map S.stateWithTime := by
  unfold MoistPrimitiveEquations.explicitTermsWith
  have hs : (S.stateWithTime s).state = S.state s.state := rfl
  simp only [hs, eqn_ops, eqn_vert, computeDiagnosticState_equiv H,
    moist_curlAndDivTendencies_equiv eq H vt' vt hvt, vorticityTendencyDueToHumidity_equiv eq H,
    divergenceTendencyDueToHumidity_equiv eq H, moist_adiabatic_equiv eq H hdiv,
    kineticEnergyTendency_equiv eq H, orographyTendency_equiv eq H, Option.bind_eq_bind, Option.pure_def]
  cases MoistPrimitiveEquations.curlAndDivTendencies eq vt
      (computeDiagnosticState eq.ops eq.vert s.state) with
  | none => rfl
  | some cd =>
    cases MoistPrimitiveEquations.vorticityTendencyDueToHumidity eq s.state
        (computeDiagnosticState eq.ops eq.vert s.state) with
    | none => rfl
    | some hv =>
      cases MoistPrimitiveEquations.divergenceTendencyDueToHumidity eq s.state
          (computeDiagnosticState eq.ops eq.vert s.state) with
      | none => rfl
      | some hd =>
        cases MoistPrimitiveEquations.nodalTemperatureAdiabaticTendency eq
            (computeDiagnosticState eq.ops eq.vert s.state) with
        | none => rfl
        | some ad =>
          simp only [Option.map_some, Option.bind_some, thermoTendencies_equiv eq H, col_add,
            col_addLevel, Sym.stateWithTime, ← clipState_equiv eq H]
          rfl

include hdiv in
theorem moist_explicitTerms_equiv [BEq K] (s : StateWithTime K M) :
    MoistPrimitiveEquations.explicitTerms (S.eqn eq) (S.stateWithTime s)
      = (MoistPrimitiveEquations.explicitTerms eq s).map S.stateWithTime :=
  explicitTermsWith_equiv eq H hdiv _ _ (virtualTemperature_equiv eq H) s

include hdiv in
theorem cloud_explicitTerms_equiv [BEq K] (s : StateWithTime K M) :
    MoistPrimitiveEquationsWithCloudMoisture.explicitTerms (S.eqn eq) (S.stateWithTime s)
      = (MoistPrimitiveEquationsWithCloudMoisture.explicitTerms eq s).map S.stateWithTime :=
  explicitTermsWith_equiv eq H hdiv _ _ (virtualTemperatureWithClouds_equiv eq H) s

end moist
end Dino.Symmetry
