import DinoProofs.Lemmas.DynamicsMoist
import Mathlib.Tactic.NormNum
import Mathlib.Data.Rat.Defs
import Mathlib.Algebra.Order.Field.Rat

/-!
# A small concrete instance of `HOps` satisfying `Laws` and `MoistLaws` (non-vacuity of C04)

`J` = 2-jets of functions of two variables at a point, `a + b·x + c·y + d·x² + e·xy + f·y²` modulo
degree ≥ 3, over `ℚ`: a commutative `ℚ`-algebra in which `1 + c·q` is invertible whenever its
constant term is non-zero (so the moist division hypothesis is satisfiable with a non-constant
humidity).  The two Euler derivations `x∂ₓ`, `y∂_y` play `d_dlon` and `cos_lat_d_dlat` =
`sec_lat_d_dlat_cos2`; they commute and satisfy the Leibniz rule, the "Laplacian" `(x∂ₓ)² + (y∂_y)²`
is diagonal on monomials with eigenvalue `i² + j²` (zero exactly on constants), `clip` truncates to
degree ≤ 1 (a "top wavenumber"), `to_nodal = to_modal = id`, `sec²θ = 1`, radius 1.

Used only by the `example`s and by the witness `cloud_depends_on_reference` of
`DinoProofs/Properties/C04.lean`.
-/
namespace Dino.Dynamics.Toy
open Dino Dino.Dynamics

@[ext] structure J where
  c0 : ℚ
  cx : ℚ
  cy : ℚ
  cxx : ℚ
  cxy : ℚ
  cyy : ℚ

namespace J

instance : Zero J := ⟨⟨0, 0, 0, 0, 0, 0⟩⟩
instance : One J := ⟨⟨1, 0, 0, 0, 0, 0⟩⟩
instance : Add J := ⟨fun a b => ⟨a.c0 + b.c0, a.cx + b.cx, a.cy + b.cy, a.cxx + b.cxx, a.cxy + b.cxy, a.cyy + b.cyy⟩⟩
instance : Neg J := ⟨fun a => ⟨-a.c0, -a.cx, -a.cy, -a.cxx, -a.cxy, -a.cyy⟩⟩
instance : Sub J := ⟨fun a b => ⟨a.c0 - b.c0, a.cx - b.cx, a.cy - b.cy, a.cxx - b.cxx, a.cxy - b.cxy, a.cyy - b.cyy⟩⟩
instance : Mul J := ⟨fun a b =>
  ⟨a.c0 * b.c0, a.c0 * b.cx + a.cx * b.c0, a.c0 * b.cy + a.cy * b.c0,
   a.c0 * b.cxx + a.cx * b.cx + a.cxx * b.c0,
   a.c0 * b.cxy + a.cx * b.cy + a.cy * b.cx + a.cxy * b.c0,
   a.c0 * b.cyy + a.cy * b.cy + a.cyy * b.c0⟩⟩
instance : SMul ℚ J := ⟨fun r a => ⟨r * a.c0, r * a.cx, r * a.cy, r * a.cxx, r * a.cxy, r * a.cyy⟩⟩

theorem zero_def : (0 : J) = ⟨0, 0, 0, 0, 0, 0⟩ := rfl
theorem one_def : (1 : J) = ⟨1, 0, 0, 0, 0, 0⟩ := rfl
theorem add_def (a b : J) :
    a + b = ⟨a.c0 + b.c0, a.cx + b.cx, a.cy + b.cy, a.cxx + b.cxx, a.cxy + b.cxy, a.cyy + b.cyy⟩ := rfl
theorem neg_def (a : J) : -a = ⟨-a.c0, -a.cx, -a.cy, -a.cxx, -a.cxy, -a.cyy⟩ := rfl
theorem sub_def (a b : J) :
    a - b = ⟨a.c0 - b.c0, a.cx - b.cx, a.cy - b.cy, a.cxx - b.cxx, a.cxy - b.cxy, a.cyy - b.cyy⟩ := rfl
theorem mul_def (a b : J) : a * b =
  ⟨a.c0 * b.c0, a.c0 * b.cx + a.cx * b.c0, a.c0 * b.cy + a.cy * b.c0,
   a.c0 * b.cxx + a.cx * b.cx + a.cxx * b.c0,
   a.c0 * b.cxy + a.cx * b.cy + a.cy * b.cx + a.cxy * b.c0,
   a.c0 * b.cyy + a.cy * b.cy + a.cyy * b.c0⟩ := rfl
theorem smul_def (r : ℚ) (a : J) :
    r • a = ⟨r * a.c0, r * a.cx, r * a.cy, r * a.cxx, r * a.cxy, r * a.cyy⟩ := rfl

instance : CommRing J where
  add_assoc a b c := by ext <;> simp [add_def] <;> ring
  zero_add a := by ext <;> simp [add_def, zero_def]
  add_zero a := by ext <;> simp [add_def, zero_def]
  nsmul := nsmulRec
  zsmul := zsmulRec
  neg_add_cancel a := by ext <;> simp [add_def, neg_def, zero_def]
  add_comm a b := by ext <;> simp [add_def] <;> ring
  sub_eq_add_neg a b := by ext <;> simp [add_def, neg_def, sub_def] <;> ring
  left_distrib a b c := by ext <;> simp [add_def, mul_def] <;> ring
  right_distrib a b c := by ext <;> simp [add_def, mul_def] <;> ring
  zero_mul a := by ext <;> simp [mul_def, zero_def]
  mul_zero a := by ext <;> simp [mul_def, zero_def]
  mul_assoc a b c := by ext <;> simp [mul_def] <;> ring
  one_mul a := by ext <;> simp [mul_def, one_def]
  mul_one a := by ext <;> simp [mul_def, one_def]
  mul_comm a b := by ext <;> simp [mul_def] <;> ring

instance : Module ℚ J where
  one_smul a := by ext <;> simp [smul_def]
  mul_smul r s a := by ext <;> simp [smul_def] <;> ring
  smul_zero r := by ext <;> simp [smul_def, zero_def]
  smul_add r a b := by ext <;> simp [smul_def, add_def] <;> ring
  add_smul r s a := by ext <;> simp [smul_def, add_def] <;> ring
  zero_smul a := by ext <;> simp [smul_def, zero_def]

instance : Algebra ℚ J := Algebra.ofModule
  (fun r a b => by ext <;> simp [smul_def, mul_def] <;> ring)
  (fun r a b => by ext <;> simp [smul_def, mul_def] <;> ring)

/-- `1/y` for `y = a + n`, `n` nilpotent (`n³ = 0`): `1/a − n/a² + n²/a³`, written out -/
def inv (y : J) : J :=
  let a := y.c0
  ⟨1 / a, -y.cx / a ^ 2, -y.cy / a ^ 2, -y.cxx / a ^ 2 + y.cx ^ 2 / a ^ 3,
   -y.cxy / a ^ 2 + 2 * y.cx * y.cy / a ^ 3, -y.cyy / a ^ 2 + y.cy ^ 2 / a ^ 3⟩

instance : Div J := ⟨fun x y => x * inv y⟩

theorem div_def (x y : J) : x / y = x * inv y := rfl

theorem mul_inv_cancel (y : J) (h : y.c0 ≠ 0) : y * inv y = 1 := by
  ext <;> simp [mul_def, inv, one_def] <;> field_simp <;> ring

/-- division by an element with non-zero constant term is a true inverse -/
theorem mul_div_cancel (y x : J) (h : y.c0 ≠ 0) : y * (x / y) = x := by
  rw [div_def, mul_left_comm, mul_inv_cancel y h, mul_one]

/-- `x∂ₓ` -/
def dx (a : J) : J := ⟨0, a.cx, 0, 2 * a.cxx, a.cxy, 0⟩
/-- `y∂_y` -/
def dy (a : J) : J := ⟨0, 0, a.cy, 0, a.cxy, 2 * a.cyy⟩
/-- `(x∂ₓ)² + (y∂_y)²` -/
def lap (a : J) : J := ⟨0, a.cx, a.cy, 4 * a.cxx, 2 * a.cxy, 4 * a.cyy⟩
def invLap (a : J) : J := ⟨0, a.cx, a.cy, a.cxx / 4, a.cxy / 2, a.cyy / 4⟩
/-- truncation to degree ≤ 1 -/
def clip (a : J) : J := ⟨a.c0, a.cx, a.cy, 0, 0, 0⟩

end J

open J

/-- the toy grid -/
def toy : HOps ℚ J J where
  toNodal := id
  toModal := id
  dDlon := dx
  cosLatDDlat := dy
  secLatDDlatCos2 := dy
  laplacian := lap
  inverseLaplacian := invLap
  clip := J.clip
  lproj := fun _ x => x
  nL := 1
  lapEig := fun _ => 0
  cosLat := 1
  sec2Lat := 1
  sinLat := 0
  oneModal := 1
  radius := 1

theorem lin_of (f : J → J) (h1 : ∀ a b, f (a + b) = f a + f b) (h2 : ∀ (r : ℚ) a, f (r • a) = r • f a) :
    IsLinearMap ℚ f := ⟨h1, h2⟩

theorem toy_laws : Laws toy where
  toNodal_lin := ⟨fun _ _ => rfl, fun _ _ => rfl⟩
  toModal_lin := ⟨fun _ _ => rfl, fun _ _ => rfl⟩
  dDlon_lin := lin_of _ (fun a b => by ext <;> simp [toy, dx, add_def] <;> ring)
    (fun r a => by ext <;> simp [toy, dx, smul_def] <;> ring)
  secLatDDlatCos2_lin := lin_of _ (fun a b => by ext <;> simp [toy, dy, add_def] <;> ring)
    (fun r a => by ext <;> simp [toy, dy, smul_def] <;> ring)
  laplacian_lin := lin_of _ (fun a b => by ext <;> simp [toy, lap, add_def] <;> ring)
    (fun r a => by ext <;> simp [toy, lap, smul_def] <;> ring)
  clip_lin := lin_of _ (fun a b => by ext <;> simp [toy, J.clip, add_def])
    (fun r a => by ext <;> simp [toy, J.clip, smul_def])
  toNodal_one := rfl
  lap_one := by ext <;> simp [toy, lap, one_def, zero_def]
  roundtrip := fun x hx => hx
  curl_grad := fun p _ => by
    ext <;> simp [toy, HOps.curlCosLat, HOps.cosLatGrad, weightedGradSec2, nodalGrad, J.clip, dx, dy,
      mul_def, one_def, zero_def]
  div_grad := fun p hp => by
    have h1 := congrArg J.cxx hp
    have h2 := congrArg J.cxy hp
    have h3 := congrArg J.cyy hp
    simp only [toy, J.clip] at h1 h2 h3
    ext <;> simp [toy, HOps.divCosLat, HOps.cosLatGrad, weightedGradSec2, nodalGrad, J.clip, dx, dy, lap,
      mul_def, add_def, one_def, ← h1, ← h2, ← h3]
  div_uv := fun z d hz hd hm => by
    have h0 := congrArg J.c0 hm
    have h1 := congrArg J.cxx hd
    have h2 := congrArg J.cxy hd
    have h3 := congrArg J.cyy hd
    simp only [toy, J.clip, lap, invLap] at h0 h1 h2 h3
    ext <;> simp [toy, HOps.divSecLat, HOps.divCosLat, HOps.cosLatVector, HOps.cosLatGrad, HOps.kCross,
      J.clip, dx, dy, invLap, mul_def, add_def, neg_def, one_def, ← h0, ← h1, ← h2, ← h3]

theorem toy_moistLaws : MoistLaws toy where
  product_rule_resolved := fun p qm _ _ => by
    ext <;> simp [toy, HOps.divCosLat, HOps.cosLatGrad, weightedGradSec2, nodalGrad, J.clip, dx, dy, lap,
      mul_def, add_def, one_def]
  curl_product_rule_resolved := fun p qm _ _ => by
    ext <;> simp [toy, HOps.curlCosLat, HOps.cosLatGrad, weightedGradSec2, nodalGrad, J.clip, dx, dy,
      mul_def, sub_def, one_def]

end Dino.Dynamics.Toy
