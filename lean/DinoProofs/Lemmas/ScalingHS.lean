import DinoProofs.Lemmas.ScalingDyn
import DinoProofs.Lemmas.Forcing

/-!
# Dimensional homogeneity of the Held–Suarez forcing (`Dino.Forcing`, over `ℝ`)

`HeldSuarezForcing.__init__` non-dimensionalises `p0` (pressure), `kf, ka, ks` (1/time) and
`minT, maxT, dTy, dThz` (temperature); `sigma_b`, `kappa` are numbers.  Under the other scale
(`actHS`) and with the state acted upon (`ln p_s + c`, `exp c = wP`), the Rayleigh friction scales like a
velocity tendency and the Newtonian relaxation like a temperature tendency.  `exp`, `log`, `**` are the
real functions (`Dino.Forcing.realTransc`).
-/
namespace Dino.Scaling
open Dino Dino.Forcing
set_option linter.unusedSectionVars false
set_option linter.unusedSimpArgs false

/-- all unit ratios are positive (they are ratios of positive `pint` magnitudes) -/
structure Scale.Pos {K : Type} [Zero K] [LT K] (g : Scale K) : Prop where
  l_pos : 0 < g.l
  t_pos : 0 < g.t
  m_pos : 0 < g.m
  θ_pos : 0 < g.θ

theorem Scale.Pos.valid {K : Type} [Field K] [LinearOrder K] [IsStrictOrderedRing K] {g : Scale K}
    (h : g.Pos) : g.Valid :=
  ⟨h.l_pos.ne', h.t_pos.ne', h.m_pos.ne', h.θ_pos.ne'⟩

section kernels
variable {K : Type} [Field K] [LinearOrder K] [IsStrictOrderedRing K] {g : Scale K}

/-- Rayleigh friction coefficient: a frequency -/
theorem kv_act (kf sigmaB sigma : K) : kv (g.wF * kf) sigmaB sigma = g.wF * kv kf sigmaB sigma := by
  simp only [kv, mul_assoc]

theorem ktCoeff_act (ka ks cut cos4 : K) :
    ktCoeff (g.wF * ka) (g.wF * ks) cut cos4 = g.wF * ktCoeff ka ks cut cos4 := by
  simp only [ktCoeff]; ring

/-- the friction term: `-kv · (cos θ u) / cos² θ` -/
theorem velTend1_act (kf sigmaB sigma cosLat x : K) :
    velTend1 (g.wF * kf) sigmaB sigma cosLat (g.wV * x) = (g.wF * g.wV) * velTend1 kf sigmaB sigma cosLat x := by
  simp only [velTend1, kv_act]; ring

end kernels

section real
variable {g : Scale ℝ}

/-- Newtonian relaxation coefficient: a frequency -/
theorem kt_act (ka ks sigmaB sigma lat : ℝ) :
    kt (g.wF * ka) (g.wF * ks) sigmaB sigma lat = g.wF * kt ka ks sigmaB sigma lat := by
  simp only [kt, ktCoeff_act]

theorem wP_pos (hg : g.Pos) : 0 < g.wP := by
  have := hg.l_pos; have := hg.t_pos; have := hg.m_pos
  simp only [Scale.wP]; positivity

/-- the radiative-equilibrium temperature: a temperature, depending on the pressure only through
 `p / p0` -/
theorem equilibriumTemperature_act (hg : g.Pos) (P : HSParams ℝ) (sigma lat ps : ℝ) :
    equilibriumTemperature (actHS g P).toEqParams sigma lat (g.wP * ps)
      = g.θ * equilibriumTemperature P.toEqParams sigma lat ps := by
  have hP := (wP_pos hg).ne'
  have hr : sigma * (g.wP * ps) / (g.wP * P.p0) = sigma * ps / P.p0 := by
    rw [mul_left_comm, mul_div_mul_left _ _ hP]
  simp only [equilibriumTemperature, actHS, hr, maxK_eq]
  rw [mul_max_of_nonneg _ _ hg.θ_pos.le]
  congr 1
  ring

/-- the relaxation term `-kt · (T_ref + T' - T_eq)` with `ln p_s` shifted by `c = log wP` -/
theorem tempTend1_act (hg : g.Pos) (P : HSParams ℝ) (sigma tref lat lsp tv c : ℝ) (hc : Real.exp c = g.wP) :
    tempTend1 (actHS g P).toEqParams (g.wF * P.ka) (g.wF * P.ks) P.sigmaB sigma (g.θ * tref) lat (lsp + c)
        (g.θ * tv)
      = (g.θ * g.wF) * tempTend1 P.toEqParams P.ka P.ks P.sigmaB sigma tref lat lsp tv := by
  have he : (Transc.exp (lsp + c) : ℝ) = g.wP * Transc.exp lsp := by
    simp only [transc_exp, Real.exp_add, hc, mul_comm]
  simp only [tempTend1, kt_act, he, equilibriumTemperature_act hg]
  ring

end real

/-! ## one level of `HeldSuarezForcing.explicit_terms` -/
section level
variable {g : Scale ℝ}

def scl (k : ℝ) (x : List ℝ) : List ℝ := x.map (k * ·)

/-- how the horizontal operations of the two grids are related (validated on real `Grid`s):
 transforms do not see the radius and are homogeneous, `curl_cos_lat` / `div_cos_lat` divide by the
 radius, the wind of (vorticity, divergence) is a length times a frequency, and the constant added to
 `ln p_s` is added at every node -/
structure HorizScaled (g : Scale ℝ) (c : ℝ) (H H' : Horiz ℝ) (lsp lsp' : List ℝ) : Prop where
  toModal_eq : H'.toModal = H.toModal
  toNodal_eq : H'.toNodal = H.toNodal
  cosLat_eq : H'.cosLat = H.cosLat
  lat_eq : H'.lat = H.lat
  toModal_smul : ∀ (k : ℝ) x, H.toModal (scl k x) = scl k (H.toModal x)
  toNodal_smul : ∀ (k : ℝ) x, H.toNodal (scl k x) = scl k (H.toNodal x)
  curl : ∀ (k : ℝ) u v, H'.curlCosLat (scl k u) (scl k v) = scl (g.wIL * k) (H.curlCosLat u v)
  div : ∀ (k : ℝ) u v, H'.divCosLat (scl k u) (scl k v) = scl (g.wIL * k) (H.divCosLat u v)
  wind : ∀ vor dv, H'.cosLatU (scl g.wF vor) (scl g.wF dv)
      = (scl g.wV (H.cosLatU vor dv).1, scl g.wV (H.cosLatU vor dv).2)
  lsp : H.toNodal lsp' = (H.toNodal lsp).map (· + c)

theorem velTendency_act (kf sigmaB sigma : ℝ) (cosLats xs : List ℝ) :
    velTendency (g.wF * kf) sigmaB sigma cosLats (scl g.wV xs)
      = scl (g.wF * g.wV) (velTendency kf sigmaB sigma cosLats xs) := by
  simp only [velTendency, scl, List.zipWith_map_right, List.map_zipWith, velTend1_act]

theorem tempTendency_act (hg : g.Pos) (P : HSParams ℝ) (sigma tref c : ℝ) (hc : Real.exp c = g.wP)
    (lats lsps tvs : List ℝ) :
    tempTendency (actHS g P).toEqParams (g.wF * P.ka) (g.wF * P.ks) P.sigmaB sigma (g.θ * tref) lats
        (lsps.map (· + c)) (scl g.θ tvs)
      = scl (g.θ * g.wF) (tempTendency P.toEqParams P.ka P.ks P.sigmaB sigma tref lats lsps tvs) := by
  simp only [tempTendency, scl, List.zip_map, List.zipWith_map_right, List.map_zipWith, Prod.map,
    tempTend1_act hg P _ _ _ _ _ c hc]

/-- **Held–Suarez forcing of one level under the other scale** -/
theorem hs_explicitTermsLevel_act (hg : g.Pos) (c : ℝ) (hc : Real.exp c = g.wP) (H H' : Horiz ℝ)
    (P : HSParams ℝ) (sigma tref : ℝ) (lsp lsp' vor dv tvar : List ℝ) (hH : HorizScaled g c H H' lsp lsp') :
    explicitTermsLevel H' (actHS g P) sigma (g.θ * tref) lsp' (scl g.wF vor) (scl g.wF dv) (scl g.θ tvar)
      = ⟨scl (g.wF * g.wF) (explicitTermsLevel H P sigma tref lsp vor dv tvar).vorticity,
         scl (g.wF * g.wF) (explicitTermsLevel H P sigma tref lsp vor dv tvar).divergence,
         scl (g.θ * g.wF) (explicitTermsLevel H P sigma tref lsp vor dv tvar).temperature⟩ := by
  unfold explicitTermsLevel
  have hkf : (actHS g P).kf = g.wF * P.kf := rfl
  have hka : (actHS g P).ka = g.wF * P.ka := rfl
  have hks : (actHS g P).ks = g.wF * P.ks := rfl
  have hsb : (actHS g P).sigmaB = P.sigmaB := rfl
  have hw : g.wIL * (g.wF * g.wV) = g.wF * g.wF := il_mul_wA hg.valid
  simp only [hH.wind, hH.toModal_eq, hH.toNodal_eq, hH.cosLat_eq, hH.lat_eq, hkf, hka, hks, hsb,
    velTendency_act, hH.toModal_smul, hH.curl, hH.div, hw, hH.lsp, hH.toNodal_smul,
    tempTendency_act hg P sigma tref c hc]

end level
end Dino.Scaling
