import Dino.DynamicsInst
import DinoProofs.Lemmas.GridLinear
import DinoProofs.Lemmas.Dynamics
import DinoProofs.Properties.C02
import Mathlib.Algebra.Module.Pi
import Mathlib.Algebra.Ring.Pi
import Mathlib.Algebra.Algebra.Pi
import Mathlib.Algebra.Module.LinearMap.Defs

/-!
# The concrete instance `gridOps` of `Dino.Dynamics.HOps`: conversion lemmas and linearity

* `toL` / `ofL` are mutually inverse between function arrays and list-model arrays of the right shape
  (`ofL_toL`, `toL_ofL`), `ent2 (toL x) = ext0 x`.
* conversion of every operation: `toL ((gridOps g).op x) = Grid.op … (toL x)` (`toL_dDlon`, …): the
  instance IS the list model.
* transport: a list-model `LinMap` conjugated by the conversion is `IsLinearMap K` between the `Pi`
  modules (`isLinearMap_conj`); hence every operation of `gridOps g` is `K`-linear.
-/
set_option linter.unusedSectionVars false
set_option linter.unusedSimpArgs false
set_option linter.unusedVariables false

namespace Dino.DynamicsInst
open Dino Dino.Dynamics Dino.Grid Dino.SH Dino.Lin

section conv
variable {K : Type} [CommRing K] {R C : Nat}

theorem ext0_fin (x : Mat R C K) (i : Fin R) (j : Fin C) : ext0 x i.val j.val = x i j := by
  simp [ext0, i.isLt, j.isLt]

theorem ext0_of_not (x : Mat R C K) (a b : Nat) (h : ¬ (a < R ∧ b < C)) : ext0 x a b = 0 := by
  simp [ext0, h]

theorem isMat_toL (x : Mat R C K) : IsMat (toL x) R C := isMat_tab _ R C

/-- the entries of the list array are the zero-extended entries of the function array -/
theorem ent2_toL (x : Mat R C K) (a b : Nat) : ent2 (toL x) a b = ext0 x a b := by
  unfold toL
  rw [ent2_tab]
  by_cases h : a < R ∧ b < C
  · rw [if_pos h]
  · rw [if_neg h, ext0_of_not x a b h]

theorem ent2_toL_fin (x : Mat R C K) (i : Fin R) (j : Fin C) : ent2 (toL x) i.val j.val = x i j := by
  rw [ent2_toL, ext0_fin]

theorem ofL_apply (l : List (List K)) (i : Fin R) (j : Fin C) : (ofL l : Mat R C K) i j = ent2 l i.val j.val := rfl

theorem ofL_toL (x : Mat R C K) : ofL (toL x) = x := by
  funext i j
  rw [ofL_apply, ent2_toL_fin]

theorem toL_ofL (l : List (List K)) (h : IsMat l R C) : toL (ofL l : Mat R C K) = l := by
  apply mat_ext _ _ R C (isMat_toL _) h
  intro i hi j hj
  rw [ent2_toL]
  have := ext0_fin (ofL l : Mat R C K) ⟨i, hi⟩ ⟨j, hj⟩
  simpa [ofL_apply] using this

theorem toL_injective {x y : Mat R C K} (h : toL x = toL y) : x = y := by
  rw [← ofL_toL x, ← ofL_toL y, h]

theorem ext0_add (x y : Mat R C K) (a b : Nat) : ext0 (x + y) a b = ext0 x a b + ext0 y a b := by
  unfold ext0; split <;> simp

theorem ext0_smul (c : K) (x : Mat R C K) (a b : Nat) : ext0 (c • x) a b = c * ext0 x a b := by
  unfold ext0; split <;> simp

theorem ext0_neg (x : Mat R C K) (a b : Nat) : ext0 (-x) a b = -ext0 x a b := by
  unfold ext0; split <;> simp

theorem ext0_sub (x y : Mat R C K) (a b : Nat) : ext0 (x - y) a b = ext0 x a b - ext0 y a b := by
  unfold ext0; split <;> simp

theorem ext0_zero (a b : Nat) : ext0 (0 : Mat R C K) a b = 0 := by
  unfold ext0; split <;> simp

theorem ext0_mul (x y : Mat R C K) (a b : Nat) : ext0 (x * y) a b = ext0 x a b * ext0 y a b := by
  unfold ext0; split <;> simp

theorem toL_add (x y : Mat R C K) : toL (x + y) = madd (toL x) (toL y) := by
  apply mat_ext _ _ R C (isMat_toL _) (isMat_madd _ _ R C (isMat_toL x) (isMat_toL y))
  intro i _ j _
  rw [ent2_madd _ _ R C i j (isMat_toL x) (isMat_toL y), ent2_toL, ent2_toL, ent2_toL, ext0_add]

theorem toL_smul (c : K) (x : Mat R C K) : toL (c • x) = mscale c (toL x) := by
  apply mat_ext _ _ R C (isMat_toL _) (isMat_mscale c _ R C (isMat_toL x))
  intro i _ j _
  rw [ent2_mscale, ent2_toL, ent2_toL, ext0_smul]

theorem toL_neg (x : Mat R C K) : toL (-x) = mneg (toL x) := by
  apply mat_ext _ _ R C (isMat_toL _) (isMat_mneg _ R C (isMat_toL x))
  intro i _ j _
  rw [ent2_mneg, ent2_toL, ent2_toL, ext0_neg]

theorem ofL_madd (l m : List (List K)) (hl : IsMat l R C) (hm : IsMat m R C) :
    (ofL (madd l m) : Mat R C K) = ofL l + ofL m := by
  funext i j
  simp only [ofL_apply, Pi.add_apply]
  exact ent2_madd l m R C i.val j.val hl hm

theorem ofL_mscale (c : K) (l : List (List K)) : (ofL (mscale c l) : Mat R C K) = c • ofL l := by
  funext i j
  simp only [ofL_apply, Pi.smul_apply, smul_eq_mul]
  exact ent2_mscale c l i.val j.val

/-- equality of function arrays from equality of all list entries -/
theorem mat_fun_ext {x y : Mat R C K} (h : ∀ a b, ext0 x a b = ext0 y a b) : x = y := by
  funext i j
  rw [← ext0_fin x i j, ← ext0_fin y i j, h]

/-- **transport**: a linear map of the list model, conjugated by the conversion, is a `K`-linear map of the
 `Pi` modules -/
theorem isLinearMap_conj {R' C' : Nat} {Φ : List (List K) → List (List K)} (hΦ : LinMap R C R' C' Φ) :
    IsLinearMap K (fun x : Mat R C K => (ofL (Φ (toL x)) : Mat R' C' K)) where
  map_add x y := by
    show ofL (Φ (toL (x + y))) = ofL (Φ (toL x)) + ofL (Φ (toL y))
    rw [toL_add, hΦ.add _ _ (isMat_toL x) (isMat_toL y),
      ofL_madd _ _ (hΦ.shape _ (isMat_toL x)) (hΦ.shape _ (isMat_toL y))]
  map_smul c x := by
    show ofL (Φ (toL (c • x))) = c • ofL (Φ (toL x))
    rw [toL_smul, hΦ.smul c _ (isMat_toL x), ofL_mscale]

/-- the conversion of a conjugated shape-preserving operation -/
theorem toL_conj {R' C' : Nat} {Φ : List (List K) → List (List K)}
    (hΦ : ∀ l, IsMat l R C → IsMat (Φ l) R' C') (x : Mat R C K) :
    toL (ofL (Φ (toL x)) : Mat R' C' K) = Φ (toL x) :=
  toL_ofL _ (hΦ _ (isMat_toL x))

/-- `LinMap` from shape, additivity and homogeneity (oddness is homogeneity at `−1`) -/
theorem linMap_of_add_smul {R' C' : Nat} (Φ : List (List K) → List (List K))
    (hs : ∀ x, IsMat x R C → IsMat (Φ x) R' C')
    (ha : ∀ x y, IsMat x R C → IsMat y R C → Φ (madd x y) = madd (Φ x) (Φ y))
    (hm : ∀ (c : K) x, IsMat x R C → Φ (mscale c x) = mscale c (Φ x)) : LinMap R C R' C' Φ where
  shape := hs
  add := ha
  neg x hx := by
    have e : ∀ y : List (List K), mneg y = mscale (-1) y := fun y => by simp [mneg, mscale, scale]
    rw [e, hm (-1) x hx, ← e]
  smul := hm

end conv

end Dino.DynamicsInst

namespace Dino.DynamicsInst
open Dino Dino.Dynamics Dino.Grid Dino.SH Dino.Lin

/-! ## the list-model operators as `LinMap`s -/
section linmaps
variable {K : Type} [Field K]

theorem linMap_dDlon (ly : Layout) : LinMap ly.rows ly.cols ly.rows ly.cols (Grid.dDlon (K := K) ly) :=
  linMap_of_add_smul _ (fun x hx => isMat_dDlon ly x hx) (fun x y hx hy => C02.dDlon_add ly x y hx hy)
    (fun c x hx => C02.dDlon_smul ly c x hx)

theorem linMap_D1 (ly : Layout) (a b : List (List K)) (ha : IsMat a ly.rows ly.cols)
    (hb : IsMat b ly.rows ly.cols) : LinMap ly.rows ly.cols ly.rows ly.cols (cosLatDDlatW ly a b) :=
  linMap_of_add_smul _ (fun x hx => isMat_cosLatDDlatW ly a b x hx ha hb)
    (fun x y hx hy => C02.D1_add ly a b x y hx hy ha hb) (fun c x hx => C02.D1_smul ly c a b x hx ha hb)

theorem linMap_D2 (ly : Layout) (a b : List (List K)) (ha : IsMat a ly.rows ly.cols)
    (hb : IsMat b ly.rows ly.cols) : LinMap ly.rows ly.cols ly.rows ly.cols (secLatDDlatCos2W ly a b) :=
  linMap_of_add_smul _ (fun x hx => isMat_secLatDDlatCos2W ly a b x hx ha hb)
    (fun x y hx hy => C02.D2_add ly a b x y hx hy ha hb) (fun c x hx => C02.D2_smul ly c a b x hx ha hb)

theorem linMap_inverseLaplacian (ly : Layout) (r : K) :
    LinMap ly.rows ly.cols ly.rows ly.cols (Grid.inverseLaplacian ly r) :=
  linMap_of_add_smul _ (fun x hx => isMat_inverseLaplacian ly r x hx)
    (fun x y hx hy => C02.inverseLaplacian_add ly r x y hx hy)
    (fun c x hx => C02.inverseLaplacian_smul ly r c x hx)

theorem linMap_clip (ly : Layout) (n : Nat) : LinMap ly.rows ly.cols ly.rows ly.cols (Grid.clip (K := K) ly n) :=
  linMap_of_add_smul _ (fun x hx => isMat_clip ly n x hx) (fun x y hx hy => C02.clip_add ly n x y hx hy)
    (fun c x hx => C02.clip_smul ly n c x hx)

end linmaps

/-! ## well-formed grid data; conversion and entry formulas of every operation -/
section grid
variable {K : Type} [Field K] (g : GridData K)

/-- shapes: the weight arrays have the modal shape, the transform pair is a pair of linear maps of the list
 model between the modal and the nodal shape (`wf_ofGrid`: true for `shTransforms` of every basis of
 consistent shape, both layouts, any padding) -/
structure GridData.WF : Prop where
  ha : IsMat g.a g.ly.rows g.ly.cols
  hb : IsMat g.b g.ly.rows g.ly.cols
  hN : LinMap g.ly.rows g.ly.cols g.nlon g.nlat g.T.toNodal
  hM : LinMap g.nlon g.nlat g.ly.rows g.ly.cols g.T.toModal

/-- the data built as `Dino.Grid` builds them are well formed whenever the basis has the consistent shape -/
theorem wf_ofGrid (sqrt : K → K) (ly : Layout) (bs : Basis K) (nlon : Nat) (sinLat : List K) (r c00 : K)
    (hb : BasisFor ly bs nlon bs.w.length) : (GridData.ofGrid sqrt ly bs nlon sinLat r c00).WF where
  ha := isMat_weightA sqrt ly
  hb := isMat_weightB sqrt ly
  hN := linMap_toNodal ly bs nlon bs.w.length hb
  hM := linMap_toModal ly bs nlon bs.w.length hb

theorem ext0_ofL {R C : Nat} (l : List (List K)) (h : IsMat l R C) (a b : Nat) :
    ext0 (ofL l : Mat R C K) a b = ent2 l a b := by
  rw [← ent2_toL, toL_ofL l h]

variable {g}

/-! ### the instance IS the list model -/

theorem toL_toNodal (W : g.WF) (x : g.Modal) : toL ((gridOps g).toNodal x) = g.T.toNodal (toL x) :=
  toL_conj W.hN.shape x
theorem toL_toModal (W : g.WF) (z : g.Nodal) : toL ((gridOps g).toModal z) = g.T.toModal (toL z) :=
  toL_conj W.hM.shape z
theorem toL_dDlon (x : g.Modal) : toL ((gridOps g).dDlon x) = Grid.dDlon g.ly (toL x) :=
  toL_conj (fun l h => isMat_dDlon g.ly l h) x
theorem toL_cosLatDDlat (W : g.WF) (x : g.Modal) :
    toL ((gridOps g).cosLatDDlat x) = cosLatDDlatW g.ly g.a g.b (toL x) :=
  toL_conj (fun l h => isMat_cosLatDDlatW g.ly g.a g.b l h W.ha W.hb) x
theorem toL_secLatDDlatCos2 (W : g.WF) (x : g.Modal) :
    toL ((gridOps g).secLatDDlatCos2 x) = secLatDDlatCos2W g.ly g.a g.b (toL x) :=
  toL_conj (fun l h => isMat_secLatDDlatCos2W g.ly g.a g.b l h W.ha W.hb) x
theorem toL_laplacian (x : g.Modal) : toL ((gridOps g).laplacian x) = Grid.laplacian g.ly g.radius (toL x) :=
  toL_conj (fun l h => isMat_laplacian g.ly g.radius l h) x
theorem toL_inverseLaplacian (x : g.Modal) :
    toL ((gridOps g).inverseLaplacian x) = Grid.inverseLaplacian g.ly g.radius (toL x) :=
  toL_conj (fun l h => isMat_inverseLaplacian g.ly g.radius l h) x
theorem toL_clip (x : g.Modal) : toL ((gridOps g).clip x) = Grid.clip g.ly 1 (toL x) :=
  toL_conj (fun l h => isMat_clip g.ly 1 l h) x

/-! ### entry formulas -/

theorem dDlon_apply (x : g.Modal) (i : Fin g.ly.rows) (j : Fin g.ly.cols) :
    (gridOps g).dDlon x i j
      = if (if g.ly.fast then i.val % 2 = 0 else i.val % 2 = 1)
        then ((g.ly.freq i.val : Nat) : K) * ext0 x (i.val + 1) j.val
        else -(((g.ly.freq i.val : Nat) : K) * ext0 x (i.val - 1) j.val) := by
  show ent2 (Grid.dDlon g.ly (toL x)) i.val j.val = _
  rw [ent2_dDlon g.ly _ i.val j.val (by rw [(isMat_toL x).1]; exact i.isLt), ent2_toL, ent2_toL]

theorem cosLatDDlat_apply (W : g.WF) (x : g.Modal) (i : Fin g.ly.rows) (j : Fin g.ly.cols) :
    (gridOps g).cosLatDDlat x i j
      = (if j.val + 1 < g.ly.cols then ((g.ly.lval (j.val + 1) + 1 : Nat) : K) else 0) * ent2 g.a i.val (j.val + 1)
          * ext0 x i.val (j.val + 1)
        + (if j.val = 0 then 0
           else -((g.ly.lval (j.val - 1) : Nat) : K) * ent2 g.b i.val (j.val - 1) * ext0 x i.val (j.val - 1)) := by
  show ent2 (cosLatDDlatW g.ly g.a g.b (toL x)) i.val j.val = _
  rw [ent2_cosLatDDlatW g.ly g.a g.b _ i.val j.val (isMat_toL x) W.ha W.hb j.isLt, ent2_toL, ent2_toL]

theorem secLatDDlatCos2_apply (W : g.WF) (x : g.Modal) (i : Fin g.ly.rows) (j : Fin g.ly.cols) :
    (gridOps g).secLatDDlatCos2 x i j
      = (if j.val + 1 < g.ly.cols then ((g.ly.lval (j.val + 1) : Nat) : K) - 1 else 0) * ent2 g.a i.val (j.val + 1)
          * ext0 x i.val (j.val + 1)
        + (if j.val = 0 then 0
           else -((g.ly.lval (j.val - 1) + 2 : Nat) : K) * ent2 g.b i.val (j.val - 1)
             * ext0 x i.val (j.val - 1)) := by
  show ent2 (secLatDDlatCos2W g.ly g.a g.b (toL x)) i.val j.val = _
  rw [ent2_secLatDDlatCos2W g.ly g.a g.b _ i.val j.val (isMat_toL x) W.ha W.hb j.isLt, ent2_toL, ent2_toL]

/-- `Grid.laplacian_eigenvalues[l]` of the instance -/
theorem lapEig_eq (l : Nat) : (gridOps g).lapEig l = ent (eigenvalues g.ly g.radius) l := rfl

/-- **the Laplacian is diagonal**: multiplication of column `l` by `lapEig l` -/
theorem laplacian_apply (x : g.Modal) (i : Fin g.ly.rows) (j : Fin g.ly.cols) :
    (gridOps g).laplacian x i j = x i j * (gridOps g).lapEig j.val := by
  show ent2 (Grid.laplacian g.ly g.radius (toL x)) i.val j.val = _
  unfold Grid.laplacian
  rw [ent2_mulCols, ent2_toL_fin, lapEig_eq]

theorem lapEig_formula (l : Nat) (hl : l < g.ly.cols) :
    (gridOps g).lapEig l = -((g.ly.lval l : K) * ((g.ly.lval l + 1 : Nat) : K)) / (g.radius * g.radius) := by
  rw [lapEig_eq, ent_eigenvalues, if_pos hl]

/-- the eigenvalue of `l = 0` is zero (for every radius, also on a layout without columns) -/
theorem lapEig_zero : (gridOps g).lapEig 0 = 0 := by
  rw [lapEig_eq, ent_eigenvalues]
  split
  · have : g.ly.lval 0 = 0 := by unfold Layout.lval; split <;> rfl
    rw [this]; simp
  · rfl

/-- **the inverse Laplacian is diagonal**, zero at `l = 0` and on the padding -/
theorem inverseLaplacian_apply (x : g.Modal) (i : Fin g.ly.rows) (j : Fin g.ly.cols) :
    (gridOps g).inverseLaplacian x i j
      = x i j * (if 0 < j.val ∧ j.val < g.ly.L then 1 / (gridOps g).lapEig j.val else 0) := by
  show ent2 (Grid.inverseLaplacian g.ly g.radius (toL x)) i.val j.val = _
  rw [ent2_inverseLaplacian, ent2_toL_fin, lapEig_eq]

/-- `clip_wavenumbers(·, 1)` zeroes exactly the columns `l ≥ L − 1` (top wavenumber and padding) -/
theorem clip_apply (x : g.Modal) (i : Fin g.ly.rows) (j : Fin g.ly.cols) :
    (gridOps g).clip x i j = if j.val + 1 < g.ly.L then x i j else 0 := by
  show ent2 (Grid.clip g.ly 1 (toL x)) i.val j.val = _
  rw [ent2_clip, ent2_toL_fin]

theorem lproj_apply (l : Nat) (x : g.Modal) (i : Fin g.ly.rows) (j : Fin g.ly.cols) :
    (gridOps g).lproj l x i j = if j.val = l then x i j else 0 := rfl

theorem oneModal_apply (i : Fin g.ly.rows) (j : Fin g.ly.cols) :
    (gridOps g).oneModal i j = if i.val = 0 ∧ j.val = 0 then g.c00 else 0 := rfl

theorem ext0_oneModal (a b : Nat) :
    ext0 (gridOps g).oneModal a b = if (a = 0 ∧ b = 0) ∧ (0 < g.ly.rows ∧ 0 < g.ly.cols) then g.c00 else 0 := by
  unfold ext0
  by_cases h : a < g.ly.rows ∧ b < g.ly.cols
  · rw [dif_pos h, oneModal_apply]
    by_cases h0 : a = 0 ∧ b = 0
    · rw [if_pos h0, if_pos ⟨h0, by omega, by omega⟩]
    · rw [if_neg h0, if_neg (fun h' => h0 h'.1)]
  · rw [dif_neg h, if_neg]
    rintro ⟨⟨rfl, rfl⟩, h1, h2⟩
    exact h ⟨h1, h2⟩

/-! ### linearity of every operation (all sizes, both layouts, any padding) -/

theorem toNodal_lin (W : g.WF) : IsLinearMap K (gridOps g).toNodal := isLinearMap_conj W.hN
theorem toModal_lin (W : g.WF) : IsLinearMap K (gridOps g).toModal := isLinearMap_conj W.hM
theorem dDlon_lin : IsLinearMap K (gridOps g).dDlon := isLinearMap_conj (linMap_dDlon g.ly)
theorem cosLatDDlat_lin (W : g.WF) : IsLinearMap K (gridOps g).cosLatDDlat :=
  isLinearMap_conj (linMap_D1 g.ly g.a g.b W.ha W.hb)
theorem secLatDDlatCos2_lin (W : g.WF) : IsLinearMap K (gridOps g).secLatDDlatCos2 :=
  isLinearMap_conj (linMap_D2 g.ly g.a g.b W.ha W.hb)
theorem laplacian_lin : IsLinearMap K (gridOps g).laplacian := isLinearMap_conj (C02.linMap_laplacian g.ly g.radius)
theorem inverseLaplacian_lin : IsLinearMap K (gridOps g).inverseLaplacian :=
  isLinearMap_conj (linMap_inverseLaplacian g.ly g.radius)
theorem clip_lin : IsLinearMap K (gridOps g).clip := isLinearMap_conj (linMap_clip g.ly 1)

theorem lproj_lin (l : Nat) : IsLinearMap K ((gridOps g).lproj l) where
  map_add x y := by
    funext i j
    simp only [lproj_apply, Pi.add_apply]
    split <;> simp
  map_smul c x := by
    funext i j
    simp only [lproj_apply, Pi.smul_apply]
    split <;> simp

/-! ### what the operations do to the constant mode: structural, no hypothesis on the tables -/

/-- `∇² 1 = 0`: the eigenvalue of `l = 0` vanishes -/
theorem laplacian_one : (gridOps g).laplacian (gridOps g).oneModal = 0 := by
  funext i j
  rw [laplacian_apply, oneModal_apply]
  by_cases h : i.val = 0 ∧ j.val = 0
  · rw [h.2, lapEig_zero, mul_zero]; rfl
  · rw [if_neg h, zero_mul]; rfl

/-- `∂_λ 1 = 0`: the constant mode sits in the row `m = 0` -/
theorem dDlon_one : (gridOps g).dDlon (gridOps g).oneModal = 0 := by
  funext i j
  have e1 : ext0 (gridOps g).oneModal (i.val + 1) j.val = 0 := by
    rw [ext0_oneModal, if_neg (by omega)]
  have e2 : ¬ (if g.ly.fast then i.val % 2 = 0 else i.val % 2 = 1) →
      ((g.ly.freq i.val : Nat) : K) * ext0 (gridOps g).oneModal (i.val - 1) j.val = 0 := by
    intro hp
    rw [ext0_oneModal]
    by_cases h0 : (i.val - 1 = 0 ∧ j.val = 0) ∧ (0 < g.ly.rows ∧ 0 < g.ly.cols)
    · have hf : g.ly.freq i.val = 0 := by
        unfold Layout.freq
        cases hfast : g.ly.fast
        · rw [hfast] at hp; simp at hp ⊢; omega
        · simp; omega
      rw [hf]; simp
    · rw [if_neg h0, mul_zero]
  rw [dDlon_apply, e1, mul_zero]
  show _ = (0 : K)
  by_cases hp : (if g.ly.fast then i.val % 2 = 0 else i.val % 2 = 1)
  · rw [if_pos hp]
  · rw [if_neg hp, e2 hp, neg_zero]

/-- `cosθ ∂_θ 1 = 0`: the only candidate entry `(0, 1)` carries the factor `l = 0` -/
theorem cosLatDDlat_one (W : g.WF) : (gridOps g).cosLatDDlat (gridOps g).oneModal = 0 := by
  funext i j
  have e1 : ext0 (gridOps g).oneModal i.val (j.val + 1) = 0 := by
    rw [ext0_oneModal, if_neg (by omega)]
  have e2 : j.val ≠ 0 → -((g.ly.lval (j.val - 1) : Nat) : K) * ent2 g.b i.val (j.val - 1)
      * ext0 (gridOps g).oneModal i.val (j.val - 1) = 0 := by
    intro _
    rw [ext0_oneModal]
    by_cases h0 : (i.val = 0 ∧ j.val - 1 = 0) ∧ (0 < g.ly.rows ∧ 0 < g.ly.cols)
    · have : g.ly.lval (j.val - 1) = 0 := by
        rw [h0.1.2]; unfold Layout.lval; split <;> rfl
      rw [this]; simp
    · rw [if_neg h0, mul_zero]
  rw [cosLatDDlat_apply W, e1, mul_zero, zero_add]
  show _ = (0 : K)
  by_cases hj : j.val = 0
  · rw [if_pos hj]
  · rw [if_neg hj, e2 hj]

/-! ### clip: idempotent, commutes with every operator that is diagonal in `l` and with `∂_λ` -/

theorem clip_clip (x : g.Modal) : (gridOps g).clip ((gridOps g).clip x) = (gridOps g).clip x := by
  funext i j
  rw [clip_apply, clip_apply]
  split <;> rfl

theorem clip_laplacian (x : g.Modal) :
    (gridOps g).clip ((gridOps g).laplacian x) = (gridOps g).laplacian ((gridOps g).clip x) := by
  funext i j
  rw [clip_apply, laplacian_apply, laplacian_apply, clip_apply]
  split <;> simp

theorem clip_inverseLaplacian (x : g.Modal) :
    (gridOps g).clip ((gridOps g).inverseLaplacian x) = (gridOps g).inverseLaplacian ((gridOps g).clip x) := by
  funext i j
  rw [clip_apply, inverseLaplacian_apply, inverseLaplacian_apply, clip_apply]
  split <;> simp

theorem clip_lproj (l : Nat) (x : g.Modal) :
    (gridOps g).clip ((gridOps g).lproj l x) = (gridOps g).lproj l ((gridOps g).clip x) := by
  funext i j
  rw [clip_apply, lproj_apply, lproj_apply, clip_apply]
  split <;> split <;> rfl

theorem clip_dDlon (x : g.Modal) :
    (gridOps g).clip ((gridOps g).dDlon x) = (gridOps g).dDlon ((gridOps g).clip x) := by
  apply toL_injective
  rw [toL_clip, toL_dDlon, toL_dDlon, toL_clip]
  exact C02.clip_dDlon g.ly 1 (toL x) (isMat_toL x)

/-- the Laplacian acts on the projection on total wavenumber `l` as the scalar `lapEig l` -/
theorem laplacian_lproj (l : Nat) (x : g.Modal) :
    (gridOps g).laplacian ((gridOps g).lproj l x) = (gridOps g).lapEig l • (gridOps g).lproj l x := by
  funext i j
  rw [laplacian_apply, Pi.smul_apply, Pi.smul_apply, smul_eq_mul, lproj_apply]
  split
  · rename_i h; rw [h]; ring
  · simp

/-- `∇⁻²` returns zero at `l = 0`, whatever the input -/
theorem inverseLaplacian_zero_mean (x : g.Modal) (i : Fin g.ly.rows) (j : Fin g.ly.cols) (hj : j.val = 0) :
    (gridOps g).inverseLaplacian x i j = 0 := by
  rw [inverseLaplacian_apply, if_neg (by omega), mul_zero]

/-- `∇² ∘ ∇⁻² = id` entrywise on `1 ≤ l < L` (radius `≠ 0`, characteristic zero) -/
theorem laplacian_inverseLaplacian_apply [CharZero K] (hr : g.radius ≠ 0) (x : g.Modal) (i : Fin g.ly.rows)
    (j : Fin g.ly.cols) (h0 : 0 < j.val) (hj : j.val < g.ly.L) :
    (gridOps g).laplacian ((gridOps g).inverseLaplacian x) i j = x i j := by
  have he := C02.eigenvalue_ne_zero g.ly g.radius hr j.val h0 hj
  rw [laplacian_apply, inverseLaplacian_apply, if_pos ⟨h0, hj⟩, lapEig_eq]
  field_simp

end grid
end Dino.DynamicsInst
