import DinoProofs.Lemmas.Tree

/-!
# Lemmas for the tree model, part 2: nested dictionaries

`look` (terminal path lookup) characterises a duplicate-free dictionary; `setPath` adds one
terminal path; `terms` lists the terminal paths in tree order.
-/
set_option linter.unusedSectionVars false

namespace Dino.Tree

section Dicts
variable {α : Type} [DecidableEq α] {β : Type}

/-! ### predicates -/

mutual
/-- keys are pairwise distinct at every level: the value is a genuine Python object -/
def Val.NoDup : Val α β → Prop
  | .leaf _ => True
  | .dict d => d.NoDup
def Dict.NoDup : Dict α β → Prop
  | .nil => True
  | .cons k v r => k ∉ r.keys ∧ v.NoDup ∧ r.NoDup
end

mutual
/-- no key at any level contains the separator -/
def Val.SepFree (sep : α) : Val α β → Prop
  | .leaf _ => True
  | .dict d => d.SepFree sep
def Dict.SepFree (sep : α) : Dict α β → Prop
  | .nil => True
  | .cons k v r => sep ∉ k ∧ v.SepFree sep ∧ r.SepFree sep
end

def Dict.toList : Dict α β → List (List α × Val α β)
  | .nil => []
  | .cons k v r => (k, v) :: r.toList

/-- lookup below a value: `lookV v []` says how `v` ends a path -/
def lookV : Val α β → List (List α) → Option (Option β)
  | v, [] => v.term
  | .leaf _, _ :: _ => none
  | .dict s, k :: ks => look s (k :: ks)

/-! ### basic facts -/

@[simp] theorem look_nil_path (d : Dict α β) : look d [] = none := by
  cases d <;> rfl

theorem look_cons (d : Dict α β) (k : List α) (ks : List (List α)) :
    look d (k :: ks) = (d.lookup k).bind (fun v => lookV v ks) := by
  cases ks with
  | nil =>
    simp only [look]
    cases d.lookup k <;> simp [lookV]
  | cons k' ks =>
    simp only [look]
    cases h : d.lookup k with
    | none => simp
    | some v => cases v <;> simp [lookV]

@[simp] theorem lookup_nil (k : List α) : (Dict.nil : Dict α β).lookup k = none := rfl

@[simp] theorem look_nil (p : List (List α)) : look (Dict.nil : Dict α β) p = none := by
  cases p with
  | nil => rfl
  | cons k ks => simp [look_cons]

theorem lookup_cons (k k' : List α) (v : Val α β) (r : Dict α β) :
    (Dict.cons k' v r).lookup k = if k' = k then some v else r.lookup k := rfl

theorem lookup_isSome_iff : ∀ (d : Dict α β) (k : List α), (d.lookup k).isSome ↔ k ∈ d.keys
  | .nil, k => by simp [Dict.keys]
  | .cons k' v r, k => by
    simp only [lookup_cons, Dict.keys, List.mem_cons]
    by_cases h : k' = k
    · simp [h]
    · simp [h, lookup_isSome_iff r k, Ne.symm h]

theorem lookup_eq_none_iff (d : Dict α β) (k : List α) : d.lookup k = none ↔ k ∉ d.keys := by
  rw [← lookup_isSome_iff]; cases d.lookup k <;> simp

theorem lookup_insert : ∀ (d : Dict α β) (k k' : List α) (v : Val α β),
    (d.insert k v).lookup k' = if k = k' then some v else d.lookup k'
  | .nil, k, k', v => by simp [Dict.insert, lookup_cons]
  | .cons k0 v0 r, k, k', v => by
    simp only [Dict.insert]
    by_cases h : k0 = k
    · subst h
      simp only [if_true, lookup_cons]
      by_cases h2 : k0 = k' <;> simp [h2]
    · simp only [h, if_false, lookup_cons, lookup_insert r k k' v]
      by_cases h2 : k0 = k'
      · subst h2; simp [Ne.symm h]
      · simp [h2]

theorem keys_insert : ∀ (d : Dict α β) (k : List α) (v : Val α β),
    (d.insert k v).keys = if k ∈ d.keys then d.keys else d.keys ++ [k]
  | .nil, k, v => by simp [Dict.insert, Dict.keys]
  | .cons k0 v0 r, k, v => by
    simp only [Dict.insert]
    by_cases h : k0 = k
    · subst h; simp [Dict.keys]
    · simp only [h, if_false, Dict.keys, keys_insert r k v, List.mem_cons]
      by_cases h2 : k ∈ r.keys
      · simp [h2]
      · simp [h2, Ne.symm h]

theorem insert_isNil (d : Dict α β) (k : List α) (v : Val α β) : (d.insert k v).isNil = false := by
  cases d with
  | nil => rfl
  | cons k0 v0 r => simp only [Dict.insert]; split <;> rfl

theorem insert_NoDup : ∀ (d : Dict α β) (k : List α) (v : Val α β),
    d.NoDup → v.NoDup → (d.insert k v).NoDup
  | .nil, k, v, _, hv => by simp [Dict.insert, Dict.NoDup, Dict.keys, hv]
  | .cons k0 v0 r, k, v, hd, hv => by
    simp only [Dict.NoDup] at hd
    simp only [Dict.insert]
    by_cases h : k0 = k
    · simp only [h, if_true, Dict.NoDup]
      exact ⟨h ▸ hd.1, hv, hd.2.2⟩
    · simp only [h, if_false, Dict.NoDup]
      refine ⟨?_, hd.2.1, insert_NoDup r k v hd.2.2 hv⟩
      rw [keys_insert]
      split
      · exact hd.1
      · simp [hd.1, h]

theorem lookup_NoDup : ∀ (d : Dict α β) (k : List α) (v : Val α β),
    d.NoDup → d.lookup k = some v → v.NoDup
  | .nil, k, v, _, h => by simp at h
  | .cons k0 v0 r, k, v, hd, h => by
    simp only [Dict.NoDup] at hd
    rw [lookup_cons] at h
    by_cases h0 : k0 = k
    · simp only [h0, if_true, Option.some.injEq] at h
      exact h ▸ hd.2.1
    · simp only [h0, if_false] at h
      exact lookup_NoDup r k v hd.2.2 h

/-! ### `setPath` adds one terminal path -/

/-- neither path is a prefix of the other -/
def Incomp (p q : List (List α)) : Prop := ¬ p <+: q ∧ ¬ q <+: p

theorem Incomp.symm {p q : List (List α)} (h : Incomp p q) : Incomp q p := ⟨h.2, h.1⟩

theorem Incomp.ne {p q : List (List α)} (h : Incomp p q) : p ≠ q := fun e => h.1 (e ▸ List.prefix_refl _)

theorem incomp_cons_cons (k : List α) (p q : List (List α)) :
    Incomp (k :: p) (k :: q) ↔ Incomp p q := by
  simp [Incomp, List.cons_prefix_cons]

theorem incomp_cons_of_ne {k k' : List α} (h : k ≠ k') (p q : List (List α)) :
    Incomp (k :: p) (k' :: q) := by
  simp [Incomp, List.cons_prefix_cons, h, Ne.symm h]

theorem isNil_iff (d : Dict α β) : d.isNil = true ↔ d = .nil := by
  cases d <;> simp [Dict.isNil]

theorem lookV_of_term (v : Val α β) (tv : Option β) (h : v.term = some tv) (k : List α)
    (ks : List (List α)) : lookV v (k :: ks) = none := by
  cases v with
  | leaf b => rfl
  | dict d =>
    simp only [Val.term] at h
    by_cases hd : d.isNil = true
    · rw [(isNil_iff d).1 hd]; simp [lookV]
    · simp [hd] at h

theorem term_NoDup (v : Val α β) (tv : Option β) (h : v.term = some tv) : v.NoDup := by
  cases v with
  | leaf b => simp [Val.NoDup]
  | dict d =>
    simp only [Val.term] at h
    by_cases hd : d.isNil = true
    · rw [(isNil_iff d).1 hd]; simp [Val.NoDup, Dict.NoDup]
    · simp [hd] at h

theorem term_dict_of_not_nil (s : Dict α β) (h : s.isNil = false) : (Val.dict s).term = none := by
  simp [Val.term, h]

theorem setPath_spec : ∀ (p : List (List α)) (d : Dict α β) (v : Val α β) (tv : Option β),
    p ≠ [] → v.term = some tv →
    (∀ q t, look d q = some t → Incomp q p) →
    ∃ d', setPath d p v = .ok d' ∧ d'.isNil = false ∧
      (∀ q, look d' q = if q = p then some tv else look d q) ∧
      (d.NoDup → d'.NoDup)
  | [], _, _, _, hp, _, _ => absurd rfl hp
  | [k], d, v, tv, _, hv, hC => by
    refine ⟨d.insert k v, rfl, insert_isNil d k v, ?_, fun hd => insert_NoDup d k v hd (term_NoDup v tv hv)⟩
    intro q
    cases q with
    | nil => simp
    | cons k2 qs =>
      rw [look_cons, lookup_insert]
      by_cases h : k = k2
      · subst h
        simp only [if_true, Option.bind_some]
        cases qs with
        | nil => simp [lookV, hv]
        | cons q1 qs =>
          rw [lookV_of_term v tv hv]
          simp only [List.cons.injEq, true_and, reduceCtorEq, if_false]
          cases hl : look d (k :: q1 :: qs) with
          | none => rfl
          | some t =>
            exact absurd (List.prefix_iff_eq_append.2 rfl : [k] <+: [k] ++ (q1 :: qs)) (hC _ t hl).2
      · have : ¬ (k2 :: qs = [k]) := by simp [Ne.symm h]
        simp only [h, if_false, this]
        rw [look_cons]
  | k :: k' :: ks, d, v, tv, _, hv, hC => by
    -- `[k]` is a proper prefix of `p`, so it is not terminal in `d`
    have hk : look d [k] = none := by
      cases hl : look d [k] with
      | none => rfl
      | some t =>
        exact absurd (List.prefix_iff_eq_append.2 rfl : [k] <+: [k] ++ (k' :: ks)) (hC _ t hl).1
    -- common part: what the result looks like once the sub-dictionary has been updated
    have key : ∀ (s s' : Dict α β), (d.lookup k = some (.dict s) ∨ (d.lookup k = none ∧ s = .nil)) →
        s'.isNil = false →
        (∀ q, look s' q = if q = k' :: ks then some tv else look s q) →
        ∀ q, look (d.insert k (.dict s')) q = if q = k :: k' :: ks then some tv else look d q := by
      intro s s' hs hnil hlook q
      cases q with
      | nil => simp
      | cons k2 qs =>
        rw [look_cons, lookup_insert]
        by_cases h : k = k2
        · subst h
          simp only [if_true, Option.bind_some, List.cons.injEq, true_and]
          cases qs with
          | nil =>
            simp only [lookV, term_dict_of_not_nil s' hnil, reduceCtorEq, if_false]
            exact hk.symm
          | cons q1 qs =>
            simp only [lookV, hlook (q1 :: qs)]
            rw [look_cons d k (q1 :: qs)]
            rcases hs with hs | ⟨hs, hs2⟩
            · simp [hs, lookV]
            · simp [hs, hs2]
        · have : ¬ (k2 :: qs = k :: k' :: ks) := by simp [Ne.symm h]
          simp only [h, if_false, this]
          rw [look_cons]
    simp only [setPath]
    cases hl : d.lookup k with
    | none =>
      obtain ⟨s', hs', hnil, hlook, hnd⟩ := setPath_spec (k' :: ks) .nil v tv (by simp) hv (by simp)
      simp only [hs']
      refine ⟨_, rfl, insert_isNil _ _ _, key .nil s' (Or.inr ⟨hl, rfl⟩) hnil hlook, fun hd => ?_⟩
      exact insert_NoDup d k _ hd (by simpa [Val.NoDup] using hnd (by simp [Dict.NoDup]))
    | some w =>
      cases w with
      | leaf b =>
        have : look d [k] = some (some b) := by simp [look, hl, Val.term]
        rw [hk] at this; cases this
      | dict s =>
        have hC' : ∀ q t, look s q = some t → Incomp q (k' :: ks) := by
          intro q t hq
          cases q with
          | nil => simp at hq
          | cons q1 qs =>
            have := hC (k :: q1 :: qs) t (by rw [look_cons, hl]; simpa [lookV] using hq)
            exact (incomp_cons_cons k _ _).1 this
        obtain ⟨s', hs', hnil, hlook, hnd⟩ := setPath_spec (k' :: ks) s v tv (by simp) hv hC'
        simp only [hs']
        refine ⟨_, rfl, insert_isNil _ _ _, key s s' (Or.inl hl) hnil hlook, fun hd => ?_⟩
        exact insert_NoDup d k _ hd (by simpa [Val.NoDup] using hnd (by simpa [Val.NoDup] using lookup_NoDup d k _ hd hl))

/-! ### the outer loop of `unflatten_dict` -/

/-- the entries of a (merged) flat dictionary, decoded: path and how the value ends it -/
def decode (sep : α) (m : Dict α β) : List (List (List α) × Option (Option β)) :=
  m.toList.map (fun kv => (splitOn sep kv.1, kv.2.term))

theorem unflattenLoop_spec (sep : α) : ∀ (m r : Dict α β),
    (∀ kv ∈ m.toList, kv.2.term ≠ none) →
    ((decode sep m).map Prod.fst).Pairwise Incomp →
    (∀ q t, look r q = some t → ∀ e ∈ decode sep m, Incomp q e.1) →
    ∃ r', unflattenLoop sep m r = .ok r' ∧
      (∀ q t, look r' q = some t ↔ (look r q = some t ∨ (q, some t) ∈ decode sep m)) ∧
      (r.NoDup → r'.NoDup)
  | .nil, r, _, _, _ => ⟨r, rfl, by simp [decode, Dict.toList], id⟩
  | .cons key value rest, r, hterm, hpw, hr => by
    have hdec : decode sep (.cons key value rest) = (splitOn sep key, value.term) :: decode sep rest := rfl
    rw [hdec] at hpw hr
    simp only [List.map_cons, List.pairwise_cons] at hpw
    obtain ⟨tv, htv⟩ : ∃ tv, value.term = some tv := by
      have := hterm (key, value) (by simp [Dict.toList])
      cases h : value.term with
      | none => exact absurd h this
      | some tv => exact ⟨tv, rfl⟩
    obtain ⟨r1, h1, -, hlook1, hnd1⟩ := setPath_spec (splitOn sep key) r value tv (splitOn_ne_nil sep key) htv
      (fun q t hq => hr q t hq (splitOn sep key, value.term) (by simp))
    have hrp : look r (splitOn sep key) = none := by
      cases hl : look r (splitOn sep key) with
      | none => rfl
      | some t => exact absurd rfl (hr _ t hl (splitOn sep key, value.term) (by simp)).ne
    obtain ⟨r', h2, hlook2, hnd2⟩ := unflattenLoop_spec sep rest r1
      (fun kv hkv => hterm kv (by simp [Dict.toList, hkv])) hpw.2
      (by
        intro q t hq e he
        rw [hlook1] at hq
        by_cases hqp : q = splitOn sep key
        · subst hqp
          exact hpw.1 e.1 (List.mem_map_of_mem he)
        · simp only [hqp, if_false] at hq
          exact hr q t hq e (List.mem_cons_of_mem _ he))
    refine ⟨r', by simp only [unflattenLoop, h1, h2], ?_, fun hd => hnd2 (hnd1 hd)⟩
    intro q t
    rw [hlook2, hlook1, hdec, List.mem_cons, htv]
    by_cases hqp : q = splitOn sep key
    · subst hqp
      simp only [if_true, hrp, Prod.mk.injEq, true_and, reduceCtorEq, false_or]
      constructor
      · rintro (h | h)
        · exact Or.inl (by simpa using h.symm)
        · exact Or.inr h
      · rintro (h | h)
        · exact Or.inl (by simpa using h.symm)
        · exact Or.inr h
    · simp only [hqp, if_false, Prod.mk.injEq, false_and, false_or]

end Dicts
end Dino.Tree
