import Dino.Shard
import DinoProofs.Lemmas.ShardPad
import DinoProofs.Lemmas.Lin
import Mathlib.Data.List.GetD

/-! Zero-padded spherical-harmonic bases (C07, T7.4): every einsum of the transforms applied to
 zero-padded coefficient tables and zero-padded data returns the zero-padded unpadded result. -/
namespace Dino.Shard
open Dino.Lin Dino.SH

section generic
variable {α β γ δ ε ζ : Type}

theorem zipWith_map_map_of_mem (F : γ → δ → ε) (G : α → β → ζ) (k : ζ → ε) (g : α → γ) (h : β → δ) :
    ∀ (a : List α) (b : List β), (∀ x ∈ a, ∀ y ∈ b, F (g x) (h y) = k (G x y)) →
      List.zipWith F (a.map g) (b.map h) = (List.zipWith G a b).map k
  | [], _, _ => by simp
  | _ :: _, [], _ => by simp
  | x :: a, y :: b, H => by
    simp only [List.map_cons, List.zipWith_cons_cons]
    rw [H x (by simp) y (by simp),
      zipWith_map_map_of_mem F G k g h a b (fun x' hx y' hy => H x' (by simp [hx]) y' (by simp [hy]))]

theorem zipWith_replicate' (F : α → β → γ) (n : Nat) (a : α) (b : β) :
    List.zipWith F (List.replicate n a) (List.replicate n b) = List.replicate n (F a b) := by
  induction n with
  | zero => rfl
  | succ n ih => simp [List.replicate_succ, ih]

theorem evens_map (f : α → β) : ∀ (l : List α), evens (l.map f) = (evens l).map f
  | [] => rfl
  | [_] => rfl
  | _ :: _ :: t => by simp only [List.map_cons, evens, evens_map f t]

theorem odds_map (f : α → β) : ∀ (l : List α), odds (l.map f) = (odds l).map f
  | [] => rfl
  | [_] => rfl
  | _ :: _ :: t => by simp only [List.map_cons, odds, odds_map f t]

theorem evens_replicate (v : α) : ∀ (k : Nat), evens (List.replicate (2 * k) v) = List.replicate k v
  | 0 => rfl
  | k + 1 => by
    rw [show 2 * (k + 1) = (2 * k + 1) + 1 by omega, List.replicate_succ, List.replicate_succ, evens,
      evens_replicate v k, List.replicate_succ]

theorem odds_replicate (v : α) : ∀ (k : Nat), odds (List.replicate (2 * k) v) = List.replicate k v
  | 0 => rfl
  | k + 1 => by
    rw [show 2 * (k + 1) = (2 * k + 1) + 1 by omega, List.replicate_succ, List.replicate_succ, odds,
      odds_replicate v k, List.replicate_succ]

theorem stackM_map (f : α → β) : ∀ (a b : List α), stackM (a.map f) (b.map f) = (stackM a b).map f
  | [], _ => by simp [stackM]
  | _ :: _, [] => by simp [stackM]
  | x :: a, y :: b => by simp only [List.map_cons, stackM, stackM_map f a b]

theorem stackM_replicate (v : α) : ∀ (k : Nat),
    stackM (List.replicate k v) (List.replicate k v) = List.replicate (2 * k) v
  | 0 => rfl
  | k + 1 => by
    rw [List.replicate_succ, stackM, stackM_replicate v k, show 2 * (k + 1) = (2 * k + 1) + 1 by omega,
      List.replicate_succ, List.replicate_succ]

theorem stackM_length : ∀ (a b : List α), a.length = b.length → (stackM a b).length = 2 * a.length
  | [], [], _ => rfl
  | [], _ :: _, h => by simp at h
  | _ :: _, [], h => by simp at h
  | _ :: a, _ :: b, h => by
    simp only [stackM, List.length_cons, stackM_length a b (by simpa using h)]; omega

theorem mem_stackM : ∀ (a b : List α) (v : α), v ∈ stackM a b → v ∈ a ∨ v ∈ b
  | [], _, _, h => by simp [stackM] at h
  | _ :: _, [], _, h => by simp [stackM] at h
  | x :: a, y :: b, v, h => by
    simp only [stackM, List.mem_cons] at h ⊢
    rcases h with h | h | h
    · exact Or.inl (Or.inl h)
    · exact Or.inr (Or.inl h)
    · rcases mem_stackM a b v h with h | h
      · exact Or.inl (Or.inr h)
      · exact Or.inr (Or.inr h)

theorem mem_evens : ∀ (l : List α) (v : α), v ∈ evens l → v ∈ l
  | [], _, h => by simp [evens] at h
  | [_], _, h => by simpa [evens] using h
  | x :: y :: t, v, h => by
    simp only [evens, List.mem_cons] at h ⊢
    rcases h with h | h
    · exact Or.inl h
    · exact Or.inr (Or.inr (mem_evens t v h))

theorem mem_odds : ∀ (l : List α) (v : α), v ∈ odds l → v ∈ l
  | [], _, h => by simp [odds] at h
  | [_], _, h => by simp [odds] at h
  | x :: y :: t, v, h => by
    simp only [odds, List.mem_cons] at h ⊢
    rcases h with h | h
    · exact Or.inr (Or.inl h)
    · exact Or.inr (Or.inr (mem_odds t v h))

end generic

variable {K : Type} [CommRing K]

/-! ### vectors -/

theorem zerosN_add (a b : Nat) : (zerosN (a + b) : List K) = zerosN a ++ zerosN b := by
  unfold zerosN; rw [List.replicate_add]

theorem getD_zerosN (n r : Nat) : (zerosN n : List K).getD r 0 = 0 := by
  unfold zerosN
  rw [List.getD_eq_getElem?_getD, List.getElem?_replicate]
  split <;> rfl

theorem zipWith_mul_zeros_left (k : Nat) (c : List K) :
    List.zipWith (· * ·) (zerosN k : List K) c = zerosN (min k c.length) := by
  induction k generalizing c with
  | zero => simp [zerosN]
  | succ k ih =>
    cases c with
    | nil => simp [zerosN]
    | cons x t =>
      simp only [zerosN, List.replicate_succ, List.zipWith_cons_cons, zero_mul, List.length_cons,
        Nat.succ_min_succ] at ih ⊢
      rw [ih t]

theorem sum_zerosN (k : Nat) : (zerosN k : List K).sum = 0 := by simp [zerosN]

theorem dotv_zeros_left (k : Nat) (c : List K) : dotv (zerosN k) c = 0 := by
  unfold dotv; rw [zipWith_mul_zeros_left, sum_zerosN]

/-- zero coefficients beyond the data kill whatever follows the data -/
theorem dotv_pad (a b c : List K) (k : Nat) (h : a.length = b.length) :
    dotv (a ++ zerosN k) (b ++ c) = dotv a b := by
  unfold dotv
  rw [List.zipWith_append h, List.sum_append, zipWith_mul_zeros_left, sum_zerosN, add_zero]

theorem scale_zerosN (c : K) (n : Nat) : scale c (zerosN n : List K) = zerosN n := by
  simp [scale, zerosN]

theorem scale_zero (r : List K) : scale (0 : K) r = zerosN r.length := by
  unfold scale zerosN
  apply List.ext_getElem
  · simp
  · intro i h1 h2; simp

theorem vadd_zerosN (n : Nat) : vadd (zerosN n : List K) (zerosN n) = zerosN n := by
  simp [vadd, zerosN]

theorem vadd_zerosN_left (v : List K) : vadd (zerosN v.length) v = v := by
  unfold vadd zerosN
  apply List.ext_getElem
  · simp
  · intro i h1 h2; simp

theorem scale_append (c : K) (a b : List K) : scale c (a ++ b) = scale c a ++ scale c b := by
  simp [scale]

/-! ### `vecMat` against zero rows / zero coefficients / padded rows -/

theorem vecMat_zero_rows (n : Nat) : ∀ (c : List K) (m : Nat),
    vecMat c (List.replicate m (zerosN n : List K)) n = zerosN n
  | [], _ => by simp [vecMat]
  | _ :: _, 0 => by simp [vecMat]
  | x :: c, m + 1 => by
    rw [List.replicate_succ, vecMat, vecMat_zero_rows n c m, scale_zerosN, vadd_zerosN]

theorem vecMat_zero_coeffs (n : Nat) : ∀ (m : Nat) (rows : List (List K)),
    (∀ r ∈ rows, r.length = n) → vecMat (zerosN m : List K) rows n = zerosN n
  | 0, _, _ => by simp [zerosN, vecMat]
  | _ + 1, [], _ => by simp [zerosN, List.replicate_succ, vecMat]
  | m + 1, r :: rows, h => by
    have hr : r.length = n := h r (by simp)
    simp only [zerosN, List.replicate_succ, vecMat]
    have := vecMat_zero_coeffs n m rows (fun r' hr' => h r' (by simp [hr']))
    simp only [zerosN] at this
    rw [this, scale_zero, hr]
    exact vadd_zerosN n

/-- zero coefficients appended: the extra rows do not matter -/
theorem vecMat_pad_coeffs (n k : Nat) : ∀ (c : List K) (rows extra : List (List K)),
    c.length = rows.length → (∀ r ∈ extra, r.length = n) →
    vecMat (c ++ zerosN k) (rows ++ extra) n = vecMat c rows n
  | [], [], extra, _, he => by
    simp only [List.nil_append]
    rw [vecMat_zero_coeffs n k extra he]; simp [vecMat]
  | [], _ :: _, _, h, _ => by simp at h
  | _ :: _, [], _, h, _ => by simp at h
  | x :: c, r :: rows, extra, h, he => by
    simp only [List.cons_append, vecMat]
    rw [vecMat_pad_coeffs n k c rows extra (by simpa using h) he]

/-- zero rows appended: the extra coefficients do not matter -/
theorem vecMat_pad_rows (n m : Nat) : ∀ (c extra : List K) (rows : List (List K)),
    c.length = rows.length →
    vecMat (c ++ extra) (rows ++ List.replicate m (zerosN n)) n = vecMat c rows n
  | [], extra, [], _ => by
    simp only [List.nil_append]
    rw [vecMat_zero_rows]; simp [vecMat]
  | [], _, _ :: _, h => by simp at h
  | _ :: _, _, [], h => by simp at h
  | x :: c, extra, r :: rows, h => by
    simp only [List.cons_append, vecMat]
    rw [vecMat_pad_rows n m c extra rows (by simpa using h)]

/-- every row padded with `k` zeros: the result is padded with `k` zeros -/
theorem vecMat_pad_cols (n k : Nat) : ∀ (c : List K) (rows : List (List K)),
    (∀ r ∈ rows, r.length = n) →
    vecMat c (rows.map (· ++ zerosN k)) (n + k) = vecMat c rows n ++ zerosN k
  | [], _, _ => by simp [vecMat, zerosN_add]
  | _ :: _, [], _ => by simp [vecMat, zerosN_add]
  | x :: c, r :: rows, h => by
    have hr : r.length = n := h r (by simp)
    have hrest : ∀ r' ∈ rows, r'.length = n := fun r' hr' => h r' (by simp [hr'])
    simp only [List.map_cons, vecMat]
    rw [vecMat_pad_cols n k c rows hrest, scale_append, scale_zerosN]
    unfold vadd
    rw [List.zipWith_append (by simp [scale, hr, vecMat_length c rows n hrest])]
    congr 1
    simp [zerosN]

/-! ### `padMat` structure -/

theorem padMat_length (a : List (List K)) (c pr pc : Nat) : (padMat a c pr pc).length = a.length + pr := by
  simp [padMat]

theorem padMat_rows (a : List (List K)) (c pr pc : Nat) (h : ∀ r ∈ a, r.length = c) :
    ∀ r ∈ padMat a c pr pc, r.length = c + pc := by
  intro r hr
  simp only [padMat, List.mem_append, List.mem_map, List.mem_replicate] at hr
  rcases hr with ⟨r0, hr0, rfl⟩ | ⟨_, rfl⟩
  · simp [zerosN, h r0 hr0]
  · simp [zerosN]

theorem map_padMat {β : Type} (g : List K → β) (a : List (List K)) (c pr pc : Nat) :
    (padMat a c pr pc).map g = a.map (fun r => g (r ++ zerosN pc)) ++ List.replicate pr (g (zerosN (c + pc))) := by
  simp [padMat]

theorem evens_padMat (a : List (List K)) (c h pc : Nat) (ha : a.length % 2 = 0) :
    evens (padMat a c (2 * h) pc) = padMat (evens a) c h pc := by
  unfold padMat
  rw [evens_append _ _ (by simpa using ha), evens_map, evens_replicate]

theorem odds_padMat (a : List (List K)) (c h pc : Nat) (ha : a.length % 2 = 0) :
    odds (padMat a c (2 * h) pc) = padMat (odds a) c h pc := by
  unfold padMat
  rw [odds_append _ _ (by simpa using ha), odds_map, odds_replicate]

theorem stackM_padMat (a b : List (List K)) (c h pc : Nat) (hab : a.length = b.length) :
    stackM (padMat a c h pc) (padMat b c h pc) = padMat (stackM a b) c (2 * h) pc := by
  unfold padMat
  rw [stackM_append _ _ _ _ (by simpa using hab), stackM_map, stackM_replicate]

/-! ### the four einsums of the transforms on padded tables -/

/-- `inv_legendre` -/
theorem invLegendre_pad (p : List (List (List K))) (xe : List (List K)) (J L pm pj pl : Nat)
    (hlen : p.length = xe.length) (hpL : ∀ t ∈ p, ∀ r ∈ t, r.length = L)
    (hx : ∀ r ∈ xe, r.length = L) :
    invLegendre (padTable p J L pm pj pl) (padMat xe L pm pl) = padMat (invLegendre p xe) J pm pj := by
  unfold invLegendre padTable
  conv_lhs => rw [padMat]
  rw [List.zipWith_append (by simpa using hlen), zipWith_replicate']
  conv_rhs => rw [padMat]
  congr 1
  · rw [zipWith_map_map_of_mem _ (fun (t : List (List K)) (xm : List K) => t.map fun r => dotv r xm)
      (· ++ zerosN pj)]
    intro t ht xm hxm
    unfold padMat
    rw [List.map_append, List.map_map, List.map_replicate, dotv_zeros_left]
    congr 1
    apply List.map_congr_left
    intro r hr
    simp only [Function.comp]
    rw [dotv_pad _ _ _ _ (by rw [hpL t ht r hr, hx xm hxm])]
  · congr 1
    rw [List.map_replicate, dotv_zeros_left]
    simp [zerosN]

/-- `inv_fourier` -/
theorem matMul_pad (f px : List (List K)) (R J npx mpx npy : Nat) (hf : ∀ r ∈ f, r.length = R)
    (hpx : px.length = R) (hpxJ : ∀ r ∈ px, r.length = J) :
    matMul (padMat f R npx mpx) (padMat px J mpx npy) (J + npy) = padMat (matMul f px J) J npx npy := by
  unfold matMul
  rw [map_padMat]
  conv_rhs => rw [padMat, List.map_map]
  congr 1
  · apply List.map_congr_left
    intro fi hfi
    simp only [Function.comp]
    unfold padMat
    rw [vecMat_pad_rows _ _ _ _ _ (by simp [hf fi hfi, hpx]), vecMat_pad_cols _ _ _ _ hpxJ]
  · congr 1
    exact vecMat_zero_coeffs _ _ _ (padMat_rows px J mpx npy hpxJ)

/-- `w * x` -/
theorem weight_pad (w : List K) (z : List (List K)) (J npx npy : Nat) (hw : w.length = J)
    (hz : ∀ r ∈ z, r.length = J) :
    weight (w ++ zerosN npy) (padMat z J npx npy) = padMat (weight w z) J npx npy := by
  unfold weight
  rw [map_padMat]
  conv_rhs => rw [padMat, List.map_map]
  congr 1
  · apply List.map_congr_left
    intro zi hzi
    simp only [Function.comp]
    rw [List.zipWith_append (by rw [hw, hz zi hzi])]
    congr 1
    simp [zerosN]
  · congr 1
    unfold zerosN
    apply List.ext_getElem
    · simp [hw]
    · intro i h1 h2; simp

theorem col_padMat_lt (f : List (List K)) (R npx mpx r : Nat) (hf : ∀ fi ∈ f, fi.length = R) (hr : r < R) :
    col (padMat f R npx mpx) r = col f r ++ zerosN npx := by
  unfold col
  rw [map_padMat, getD_zerosN]
  congr 1
  apply List.map_congr_left
  intro fi hfi
  rw [List.getD_append _ _ _ _ (by rw [hf fi hfi]; exact hr)]

theorem col_padMat_ge (f : List (List K)) (R npx mpx r : Nat) (hf : ∀ fi ∈ f, fi.length = R) (hr : R ≤ r) :
    col (padMat f R npx mpx) r = zerosN (f.length + npx) := by
  unfold col
  rw [map_padMat, getD_zerosN, zerosN_add]
  congr 1
  unfold zerosN
  rw [List.eq_replicate_iff]
  refine ⟨by simp, ?_⟩
  intro b hb
  obtain ⟨fi, hfi, rfl⟩ := List.mem_map.1 hb
  rw [List.getD_append_right _ _ _ _ (by rw [hf fi hfi]; exact hr)]
  exact getD_zerosN _ _

/-- `fwd_fourier` -/
theorem fwdFourier_pad (f wx : List (List K)) (R J npx mpx npy : Nat) (hf : ∀ fi ∈ f, fi.length = R)
    (hlen : f.length = wx.length) (hwx : ∀ r ∈ wx, r.length = J) :
    fwdFourier (padMat f R npx mpx) (padMat wx J npx npy) (R + mpx) (J + npy)
      = padMat (fwdFourier f wx R J) J mpx npy := by
  unfold fwdFourier transposeM
  rw [List.range_add, List.map_append, List.map_append]
  conv_rhs => rw [padMat]
  simp only [List.map_map]
  congr 1
  · apply List.map_congr_left
    intro r hr
    rw [List.mem_range] at hr
    simp only [Function.comp]
    rw [col_padMat_lt f R npx mpx r hf hr]
    unfold padMat
    rw [vecMat_pad_coeffs _ _ _ _ _ (by simp [col, hlen]) (by
        intro r' hr'; rw [List.mem_replicate] at hr'; rw [hr'.2]; simp [zerosN]),
      vecMat_pad_cols _ _ _ _ hwx]
  · rw [List.eq_replicate_iff]
    refine ⟨by simp, ?_⟩
    intro b hb
    obtain ⟨i, _, rfl⟩ := List.mem_map.1 hb
    simp only [Function.comp]
    rw [col_padMat_ge f R npx mpx (R + i) hf (by omega)]
    exact vecMat_zero_coeffs _ _ _ (padMat_rows wx J npx npy hwx)

/-- `fwd_legendre` -/
theorem fwdLegendre_pad (p : List (List (List K))) (v : List (List K)) (J L pm pj pl : Nat)
    (hlen : p.length = v.length) (hpL : ∀ t ∈ p, ∀ r ∈ t, r.length = L) (hpJ : ∀ t ∈ p, t.length = J)
    (hv : ∀ r ∈ v, r.length = J) :
    fwdLegendre (padTable p J L pm pj pl) (padMat v J pm pj) (L + pl) = padMat (fwdLegendre p v L) L pm pl := by
  unfold fwdLegendre padTable
  conv_lhs => rw [padMat]
  rw [List.zipWith_append (by simpa using hlen), zipWith_replicate']
  conv_rhs => rw [padMat]
  congr 1
  · rw [zipWith_map_map_of_mem _ (fun (t : List (List K)) (vm : List K) => vecMat vm t L)
      (· ++ zerosN pl)]
    intro t ht vm hvm
    unfold padMat
    rw [vecMat_pad_coeffs _ _ _ _ _ (by simp [hv vm hvm, hpJ t ht]) (by
        intro r' hr'; rw [List.mem_replicate] at hr'; rw [hr'.2]; simp [zerosN]),
      vecMat_pad_cols _ _ _ _ (hpL t ht)]
  · congr 1
    exact vecMat_zero_rows _ _ _

/-! ### shapes of intermediate results -/

theorem fwdFourier_rows (f wx : List (List K)) (R J : Nat) (hwx : ∀ r ∈ wx, r.length = J) :
    ∀ r ∈ fwdFourier f wx R J, r.length = J := by
  intro r hr
  simp only [fwdFourier, List.mem_map] at hr
  obtain ⟨c, _, rfl⟩ := hr
  exact vecMat_length _ _ _ hwx

theorem fwdLegendre_length (p : List (List (List K))) (v : List (List K)) (L : Nat) :
    (fwdLegendre p v L).length = min p.length v.length := by simp [fwdLegendre]

theorem invLegendre_length' (p : List (List (List K))) (x : List (List K)) :
    (invLegendre p x).length = min p.length x.length := by simp [invLegendre]

theorem invLegendre_rows' (p : List (List (List K))) (x : List (List K)) (J : Nat)
    (hp : ∀ pm ∈ p, pm.length = J) : ∀ r ∈ invLegendre p x, r.length = J := by
  intro r hr
  unfold invLegendre at hr
  rw [List.mem_iff_getElem] at hr
  obtain ⟨i, hi, rfl⟩ := hr
  simp only [List.getElem_zipWith, List.length_map]
  exact hp _ (List.getElem_mem _)

theorem weight_rows' (w : List K) (z : List (List K)) (J : Nat) (hw : w.length = J)
    (hz : ∀ zi ∈ z, zi.length = J) : ∀ r ∈ weight w z, r.length = J := by
  intro r hr
  simp only [weight, List.mem_map] at hr
  obtain ⟨zi, hzi, rfl⟩ := hr
  simp [hw, hz zi hzi]

theorem map_evens_padMat (f : List (List K)) (H npx hx : Nat) (hf : ∀ fi ∈ f, fi.length = 2 * H) :
    (padMat f (2 * H) npx (2 * hx)).map evens = padMat (f.map evens) H npx hx := by
  rw [map_padMat]
  conv_rhs => rw [padMat, List.map_map]
  congr 1
  · apply List.map_congr_left
    intro fi hfi
    simp only [Function.comp]
    rw [evens_append _ _ (by rw [hf fi hfi]; omega)]
    congr 1
    exact evens_replicate _ _
  · congr 1
    rw [show 2 * H + 2 * hx = 2 * (H + hx) by omega]
    exact evens_replicate _ _

theorem map_odds_padMat (f : List (List K)) (H npx hx : Nat) (hf : ∀ fi ∈ f, fi.length = 2 * H) :
    (padMat f (2 * H) npx (2 * hx)).map odds = padMat (f.map odds) H npx hx := by
  rw [map_padMat]
  conv_rhs => rw [padMat, List.map_map]
  congr 1
  · apply List.map_congr_left
    intro fi hfi
    simp only [Function.comp]
    rw [odds_append _ _ (by rw [hf fi hfi]; omega)]
    congr 1
    exact odds_replicate _ _
  · congr 1
    rw [show 2 * H + 2 * hx = 2 * (H + hx) by omega]
    exact odds_replicate _ _

theorem zipWith_vadd_padMat (a b : List (List K)) (J pr pc : Nat) (hlen : a.length = b.length)
    (ha : ∀ r ∈ a, r.length = J) (hb : ∀ r ∈ b, r.length = J) :
    List.zipWith vadd (padMat a J pr pc) (padMat b J pr pc) = padMat (List.zipWith vadd a b) J pr pc := by
  unfold padMat
  rw [List.zipWith_append (by simpa using hlen), zipWith_replicate', vadd_zerosN]
  congr 1
  rw [zipWith_map_map_of_mem vadd vadd (· ++ zerosN pc)]
  intro x hx y hy
  unfold vadd
  rw [List.zipWith_append (by rw [ha x hx, hb y hy])]
  congr 1
  exact vadd_zerosN pc

end Dino.Shard
