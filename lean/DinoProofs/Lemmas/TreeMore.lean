import Dino.Tree
import Mathlib.Data.List.Basic
import Mathlib.Data.List.Nodup
import Mathlib.Algebra.Ring.Defs
import Mathlib.Tactic.Common

/-!
# Lemmas for the tree model, part 8: spectral resampling, shape → dimension names
-/
set_option linter.unusedSectionVars false

namespace Dino.Tree

/-! ### spectral resampling -/
section Spectral
variable {K : Type}

theorem downsample_pad [Zero K] (w d0 d1 m0 m1 : Nat) (x : List (List K)) (hx : x.length = m0)
    (hr : ∀ r ∈ x, r.length = m1) : downsample m0 m1 (pad w d0 d1 x) = x := by
  unfold downsample pad
  rw [List.take_append_of_le_length (by simp [hx]), List.take_of_length_le (by simp [hx])]
  rw [List.map_map]
  conv_rhs => rw [← List.map_id x]
  apply List.map_congr_left
  intro r hm
  simp only [Function.comp, id]
  rw [List.take_append_of_le_length (Nat.le_of_eq (hr r hm).symm), List.take_of_length_le (Nat.le_of_eq (hr r hm))]

theorem pad_shape [Zero K] (d0 d1 m0 m1 : Nat) (x : List (List K)) (hx : x.length = m0)
    (hr : ∀ r ∈ x, r.length = m1) :
    (pad m1 d0 d1 x).length = m0 + d0 ∧ ∀ r ∈ pad m1 d0 d1 x, r.length = m1 + d1 := by
  unfold pad
  refine ⟨by simp [hx], ?_⟩
  intro r hm
  simp only [List.mem_append, List.mem_map, List.mem_replicate] at hm
  rcases hm with ⟨r0, h0, rfl⟩ | ⟨_, rfl⟩
  · simp [hr r0 h0]
  · cases x with
    | nil => simp
    | cons a as => simp [hr a (by simp)]

variable [Semiring K]

theorem foldr_add_eq_zero (l : List K) (h : ∀ a ∈ l, a = 0) : l.foldr (· + ·) 0 = 0 := by
  induction l with
  | nil => rfl
  | cons a as ih =>
    simp only [List.foldr_cons]
    rw [ih (fun b hb => h b (by simp [hb])), h a (by simp), add_zero]

theorem foldr_add_append (l1 l2 : List K) (h : ∀ a ∈ l2, a = 0) :
    (l1 ++ l2).foldr (· + ·) 0 = l1.foldr (· + ·) 0 := by
  rw [List.foldr_append, foldr_add_eq_zero l2 h]

theorem rowSum_append_zeros (b : Nat → Nat → K) (i d : Nat) (r : List K) :
    rowSum b i (r ++ List.replicate d 0) = rowSum b i r := by
  unfold rowSum
  rw [List.zipIdx_append, List.map_append]
  apply foldr_add_append
  intro a ha
  simp only [List.mem_map] at ha
  obtain ⟨cj, hcj, rfl⟩ := ha
  have : cj.1 ∈ List.replicate d (0 : K) := by
    have := List.mem_map_of_mem (f := Prod.fst) hcj
    rwa [List.zipIdx_map_fst] at this
  rw [(List.mem_replicate.1 this).2, zero_mul]

theorem rowSum_zeros (b : Nat → Nat → K) (i n : Nat) : rowSum b i (List.replicate n 0) = 0 := by
  have := rowSum_append_zeros b i n []
  simpa [rowSum] using this

/-- zero padding does not change the value of the series (prefix stability of the basis) -/
theorem series_pad (b : Nat → Nat → K) (w d0 d1 : Nat) (x : List (List K)) :
    series b (pad w d0 d1 x) = series b x := by
  unfold series pad
  rw [List.zipIdx_append, List.map_append]
  rw [foldr_add_append]
  · rw [List.zipIdx_map, List.map_map]
    congr 1
    apply List.map_congr_left
    intro ri _
    simp [rowSum_append_zeros]
  · intro a ha
    simp only [List.mem_map] at ha
    obtain ⟨ri, hri, rfl⟩ := ha
    have : ri.1 ∈ List.replicate d0 (List.replicate (((x.head?).map List.length).getD w + d1) (0 : K)) := by
      have := List.mem_map_of_mem (f := Prod.fst) hri
      rwa [List.zipIdx_map_fst] at this
    rw [(List.mem_replicate.1 this).2, rowSum_zeros]

end Spectral

/-! ### shape → dimension names -/
section Dims

abbrev Table := List (List Nat × List String)

/-- one assignment `t[e.1] = e.2` -/
def ins (t : Table) (e : List Nat × List String) : Table := tinsert e.1 e.2 t

theorem tlookup_tinsert_self (k : List Nat) (v : List String) (t : Table) :
    tlookup k (tinsert k v t) = some v := by
  induction t with
  | nil => simp [tinsert, tlookup]
  | cons a t ih =>
    rcases a with ⟨k', v'⟩
    by_cases h : k' = k
    · simp [tinsert, tlookup, h]
    · simp [tinsert, tlookup, h, ih]

theorem tlookup_tinsert_ne (k k' : List Nat) (v : List String) (t : Table) (h : k' ≠ k) :
    tlookup k (tinsert k' v t) = tlookup k t := by
  induction t with
  | nil => simp [tinsert, tlookup, h]
  | cons a t ih =>
    rcases a with ⟨k0, v0⟩
    by_cases h0 : k0 = k'
    · subst h0; simp [tinsert, tlookup, h]
    · by_cases h1 : k0 = k
      · subst h1; simp [tinsert, tlookup, h0]
      · simp [tinsert, tlookup, h0, h1, ih]

theorem tlookup_foldl_ne (k : List Nat) (l : Table) (acc : Table) (h : ∀ e ∈ l, e.1 ≠ k) :
    tlookup k (l.foldl ins acc) = tlookup k acc := by
  induction l generalizing acc with
  | nil => rfl
  | cons e l ih =>
    rw [List.foldl_cons, ih _ (fun e' he' => h e' (by simp [he'])), ins,
      tlookup_tinsert_ne _ _ _ _ (h e (by simp))]

/-- the last assignment to a key wins -/
theorem tlookup_foldl_of_last (l1 l2 : Table) (e : List Nat × List String) (acc : Table)
    (h : ∀ e' ∈ l2, e'.1 ≠ e.1) : tlookup e.1 ((l1 ++ e :: l2).foldl ins acc) = some e.2 := by
  rw [List.foldl_append, List.foldl_cons, tlookup_foldl_ne _ _ _ h, ins, tlookup_tinsert_self]

theorem tinsert_keys (k : List Nat) (v : List String) (t : Table) :
    (tinsert k v t).map Prod.fst = if k ∈ t.map Prod.fst then t.map Prod.fst else t.map Prod.fst ++ [k] := by
  induction t with
  | nil => simp [tinsert]
  | cons a t ih =>
    rcases a with ⟨k0, v0⟩
    by_cases h : k0 = k
    · simp [tinsert, h]
    · simp only [tinsert, h, if_false, List.map_cons, ih, List.mem_cons]
      by_cases h2 : k ∈ t.map Prod.fst
      · simp [h2]
      · simp [h2, Ne.symm h]

theorem tinsert_keys_nodup (k : List Nat) (v : List String) (t : Table) (h : (t.map Prod.fst).Nodup) :
    ((tinsert k v t).map Prod.fst).Nodup := by
  rw [tinsert_keys]
  split
  · exact h
  · rename_i hk
    exact List.nodup_append.2 ⟨h, by simp, by
      intro a ha b hb
      simp only [List.mem_singleton] at hb
      subst hb
      exact fun e => hk (e ▸ ha)⟩

theorem foldl_ins_keys_nodup (l acc : Table) (h : (acc.map Prod.fst).Nodup) :
    ((l.foldl ins acc).map Prod.fst).Nodup := by
  induction l generalizing acc with
  | nil => exact h
  | cons e l ih => exact ih _ (tinsert_keys_nodup _ _ _ h)

theorem tinsert_fresh (k : List Nat) (v : List String) (t : Table) (h : k ∉ t.map Prod.fst) :
    tinsert k v t = t ++ [(k, v)] := by
  induction t with
  | nil => rfl
  | cons a t ih =>
    rcases a with ⟨k0, v0⟩
    simp only [List.map_cons, List.mem_cons, not_or] at h
    simp [tinsert, Ne.symm h.1, ih h.2]

theorem foldl_ins_of_nodup (l acc : Table) (h : (acc.map Prod.fst ++ l.map Prod.fst).Nodup) :
    l.foldl ins acc = acc ++ l := by
  induction l generalizing acc with
  | nil => simp
  | cons e l ih =>
    have hk : e.1 ∉ acc.map Prod.fst := by
      intro hm
      exact (List.nodup_append.1 h).2.2 _ hm e.1 (by simp) rfl
    rw [List.foldl_cons, ins, tinsert_fresh _ _ _ hk, ih]
    · simp
    · simpa [List.append_assoc] using h

/-- the shape part of `_maybe_update_shape_and_dim_with_realization_time_sample` -/
theorem withPrefix_fst (times samples : Option Nat) (r : Bool) (e e' : List Nat × List String)
    (h : e.1 = e'.1) : (withPrefix times samples r e).1 = (withPrefix times samples r e').1 := by
  rcases e with ⟨s, n⟩
  rcases e' with ⟨s', n'⟩
  simp only at h
  subst h
  unfold withPrefix
  cases times <;> cases samples <;> cases r <;> cases s <;> simp

theorem withPrefix_inj (times samples : Option Nat) (r : Bool) (e e' : List Nat × List String)
    (h : (withPrefix times samples r e).1 = (withPrefix times samples r e').1) : e.1 = e'.1 := by
  rcases e with ⟨s, n⟩
  rcases e' with ⟨s', n'⟩
  unfold withPrefix at h
  have hl := congrArg List.length h
  cases times <;> cases samples <;> cases r <;> cases s <;> cases s' <;>
    simp_all

theorem tlookup_map_withPrefix (times samples : Option Nat) (r : Bool) (k : List Nat) (names : List String)
    (t : Table) (h : tlookup k t = some names) :
    tlookup (withPrefix times samples r (k, names)).1 (t.map (withPrefix times samples r))
      = some (withPrefix times samples r (k, names)).2 := by
  induction t with
  | nil => simp [tlookup] at h
  | cons a t ih =>
    rcases a with ⟨k0, v0⟩
    simp only [tlookup] at h
    by_cases h0 : k0 = k
    · simp only [h0, if_true, Option.some.injEq] at h
      subst h0 h
      simp [tlookup]
    · simp only [h0, if_false] at h
      have hne : (withPrefix times samples r (k0, v0)).1 ≠ (withPrefix times samples r (k, names)).1 :=
        fun e => h0 (withPrefix_inj times samples r _ _ e)
      simp only [List.map_cons, tlookup]
      rw [if_neg hne]
      exact ih h

/-- the triples that one additional coordinate adds to `basic_shape_to_dims` -/
def addlTriples (modal nodal : List Nat) : List (String × Nat) → Table
  | [] => []
  | (dim, n) :: rest =>
    if dim = "realization" then addlTriples modal nodal rest
    else [(n :: modal, dim :: modalNames), (n :: nodal, dim :: nodalNames), ([n], [dim])]
      ++ addlTriples modal nodal rest

/-- the assignments to `basic_shape_to_dims`, in program order -/
def baseEntries (c : DimCfg) : Table :=
  [([], []), (c.layers :: c.modal, "level" :: modalNames), (c.layers :: c.nodal, "level" :: nodalNames),
    (c.nodal, nodalNames), (c.modal, modalNames), (1 :: c.nodal, nodalNames)]

def entries (c : DimCfg) : Table := baseEntries c ++ addlTriples c.modal c.nodal c.addl

theorem addlEntries_eq (layers : Nat) (modal nodal : List Nat) : ∀ (addl : List (String × Nat)) (t t' : Table),
    addlEntries layers modal nodal addl t = .ok t' →
    t' = (addlTriples modal nodal addl).foldl ins t ∧
      ∀ a ∈ addl, a.1 ≠ "realization" → a.2 ≠ layers
  | [], t, t', h => by
    simp only [addlEntries, Except.ok.injEq] at h
    simp [addlTriples, h]
  | (dim, n) :: rest, t, t', h => by
    simp only [addlEntries] at h
    by_cases hd : dim = "realization"
    · simp only [hd, if_true] at h
      obtain ⟨h1, h2⟩ := addlEntries_eq layers modal nodal rest t t' h
      refine ⟨by simpa [addlTriples, hd] using h1, ?_⟩
      intro a ha hne
      simp only [List.mem_cons] at ha
      rcases ha with rfl | ha
      · exact absurd hd hne
      · exact h2 a ha hne
    · simp only [hd, if_false] at h
      by_cases hn : n = layers
      · simp [hn] at h
      · simp only [hn, if_false] at h
        obtain ⟨h1, h2⟩ := addlEntries_eq layers modal nodal rest _ t' h
        refine ⟨by simpa [addlTriples, hd, ins] using h1, ?_⟩
        intro a ha hne
        simp only [List.mem_cons] at ha
        rcases ha with rfl | ha
        · exact hn
        · exact h2 a ha hne

theorem basicTable_eq (c : DimCfg) (t : Table) (h : basicTable c = .ok t) :
    t = (entries c).foldl ins [] ∧ ∀ a ∈ c.addl, a.1 ≠ "realization" → a.2 ≠ c.layers := by
  unfold basicTable at h
  obtain ⟨h1, h2⟩ := addlEntries_eq _ _ _ _ _ _ h
  refine ⟨?_, h2⟩
  rw [h1, entries, List.foldl_append]
  rfl

/-- `shape_to_dims`: the names of the last assignment to a shape, with the sample / time /
 realization names prepended -/
theorem shapeTable_lookup (c : DimCfg) (T : Table) (h : shapeTable c = .ok T)
    (l1 l2 : Table) (e : List Nat × List String) (hent : entries c = l1 ++ e :: l2)
    (hlast : ∀ e' ∈ l2, e'.1 ≠ e.1) :
    tlookup (withPrefix c.times c.samples (c.addl.any fun a => a.1 == "realization") e).1 T
      = some (withPrefix c.times c.samples (c.addl.any fun a => a.1 == "realization") e).2 := by
  unfold shapeTable at h
  cases hb : basicTable c with
  | error x => simp [hb, Except.map] at h
  | ok t =>
    simp only [hb, Except.map, Except.ok.injEq] at h
    obtain ⟨ht, _⟩ := basicTable_eq c t hb
    set wp := withPrefix c.times c.samples (c.addl.any fun a => a.1 == "realization") with hwp
    have hT : T = (t.map wp).foldl ins [] := by
      rw [← h, List.foldl_map]
      rfl
    have hnd : (t.map Prod.fst).Nodup := by
      rw [ht]; exact foldl_ins_keys_nodup _ _ (by simp)
    have hnd' : ((t.map wp).map Prod.fst).Nodup := by
      rw [List.map_map]
      refine List.Nodup.map_on ?_ hnd.of_map
      intro a ha b hb hab
      exact List.inj_on_of_nodup_map hnd ha hb (withPrefix_inj _ _ _ a b hab)
    have hT' : T = t.map wp := by
      rw [hT, foldl_ins_of_nodup _ _ (by simpa using hnd')]
      simp
    have hlk : tlookup e.1 t = some e.2 := by
      rw [ht, hent]; exact tlookup_foldl_of_last l1 l2 e [] hlast
    rw [hT']
    exact tlookup_map_withPrefix c.times c.samples _ e.1 e.2 t hlk

theorem addlEntries_ok (layers : Nat) (modal nodal : List Nat) : ∀ (addl : List (String × Nat)) (t : Table),
    (∀ a ∈ addl, a.1 ≠ "realization" → a.2 ≠ layers) → ∃ t', addlEntries layers modal nodal addl t = .ok t'
  | [], t, _ => ⟨t, rfl⟩
  | (dim, n) :: rest, t, h => by
    simp only [addlEntries]
    by_cases hd : dim = "realization"
    · simp only [hd, if_true]
      exact addlEntries_ok layers modal nodal rest t (fun a ha => h a (by simp [ha]))
    · have hn : n ≠ layers := h (dim, n) (by simp) hd
      simp only [hd, hn, if_false]
      exact addlEntries_ok layers modal nodal rest _ (fun a ha => h a (by simp [ha]))

theorem shapeTable_ok (c : DimCfg) (h : ∀ a ∈ c.addl, a.1 ≠ "realization" → a.2 ≠ c.layers) :
    ∃ T, shapeTable c = .ok T := by
  obtain ⟨t, ht⟩ := addlEntries_ok c.layers c.modal c.nodal c.addl
    (tinsert (1 :: c.nodal) nodalNames (tinsert c.modal modalNames (tinsert c.nodal nodalNames
      (tinsert (c.layers :: c.nodal) ("level" :: nodalNames)
        (tinsert (c.layers :: c.modal) ("level" :: modalNames) (tinsert [] [] [])))))) h
  have : basicTable c = .ok t := ht
  unfold shapeTable
  rw [this]
  exact ⟨_, rfl⟩

theorem shapeTable_error (c : DimCfg) (x : Err) (h : shapeTable c = .error x) :
    x = .value ∧ ∃ a ∈ c.addl, a.1 ≠ "realization" ∧ a.2 = c.layers := by
  have hex : ∃ a ∈ c.addl, a.1 ≠ "realization" ∧ a.2 = c.layers := by
    by_contra hne
    push Not at hne
    obtain ⟨T, hT⟩ := shapeTable_ok c hne
    rw [hT] at h; cases h
  refine ⟨?_, hex⟩
  -- the only error `addlEntries` produces is `value`
  have herr : ∀ (addl : List (String × Nat)) (t : Table) (y : Err),
      addlEntries c.layers c.modal c.nodal addl t = .error y → y = .value := by
    intro addl
    induction addl with
    | nil => intro t y hy; simp [addlEntries] at hy
    | cons a rest ih =>
      intro t y hy
      rcases a with ⟨dim, n⟩
      simp only [addlEntries] at hy
      split_ifs at hy with h1 h2
      · exact ih _ _ hy
      · cases hy; rfl
      · exact ih _ _ hy
  unfold shapeTable at h
  cases hb : basicTable c with
  | ok t => simp [hb, Except.map] at h
  | error y =>
    simp only [hb, Except.map, Except.error.injEq] at h
    subst h
    exact herr _ _ _ hb

theorem mem_addlTriples (modal nodal : List Nat) : ∀ (addl : List (String × Nat)) (e : List Nat × List String),
    e ∈ addlTriples modal nodal addl →
    ∃ a ∈ addl, a.1 ≠ "realization" ∧ (e.1 = a.2 :: modal ∨ e.1 = a.2 :: nodal ∨ e.1 = [a.2])
  | [], e, h => by simp [addlTriples] at h
  | (dim, n) :: rest, e, h => by
    simp only [addlTriples] at h
    by_cases hd : dim = "realization"
    · simp only [hd, if_true] at h
      obtain ⟨a, ha, h'⟩ := mem_addlTriples modal nodal rest e h
      exact ⟨a, by simp [ha], h'⟩
    · simp only [hd, if_false, List.cons_append, List.nil_append, List.mem_cons] at h
      rcases h with rfl | rfl | rfl | h
      · exact ⟨(dim, n), by simp, hd, Or.inl rfl⟩
      · exact ⟨(dim, n), by simp, hd, Or.inr (Or.inl rfl)⟩
      · exact ⟨(dim, n), by simp, hd, Or.inr (Or.inr rfl)⟩
      · obtain ⟨a, ha, h'⟩ := mem_addlTriples modal nodal rest e h
        exact ⟨a, by simp [ha], h'⟩

/-- the sample / time / realization prefix adds as many names as sizes -/
theorem withPrefix_lengths (times samples : Option Nat) (r : Bool) (e : List Nat × List String) :
    (withPrefix times samples r e).1.length + e.2.length = (withPrefix times samples r e).2.length + e.1.length := by
  rcases e with ⟨s, n⟩
  unfold withPrefix
  cases times <;> cases samples <;> cases r <;> cases s <;> simp <;> omega

/-- the prefix of a non-scalar shape when there is no `realization` coordinate -/
theorem withPrefix_noreal (times samples : Option Nat) (e : List Nat × List String) :
    withPrefix times samples false e =
      (samples.toList ++ times.toList ++ e.1,
        (samples.map fun _ => "sample").toList ++ (times.map fun _ => "time").toList ++ e.2) := by
  rcases e with ⟨s, n⟩
  unfold withPrefix
  cases times <;> cases samples <;> simp

end Dims
end Dino.Tree
