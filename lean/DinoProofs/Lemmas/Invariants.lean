import Dino.Invariants
import Mathlib.Algebra.Module.Submodule.Defs
import Mathlib.Algebra.Module.LinearMap.Defs
import Mathlib.Algebra.Field.Basic
import Mathlib.Algebra.BigOperators.Group.List.Basic
import Mathlib.Tactic.Ring
import Mathlib.Tactic.FieldSimp
import Mathlib.Tactic.Module
import Mathlib.Tactic.LinearCombination

/-!
# Invariants of IMEX time stepping — the generic layer of C11

A *frame* is a set `S` of tendencies closed under the operations the integrators use (`+`, `•`,
`0`), a set `P ⊆ S` of proper states with `P + S ⊆ P` (for a module: `P = S`; for the executable
`tree_math` vectors `P` excludes the Python scalar `0`, to which no equation is ever applied),
together with an observable `obs : V → W` that is additive and homogeneous on `S`.  Nothing is
assumed about the state space `V` itself (only the operations `+`, `•`, `0` that the model
`Dino.Imex` uses), so the same lemmas apply to a `K`-module with a submodule and a linear map
(`Frame.ofLinear`) and to the `tree_math` vectors of the executable model (`Invariants.TM`).

An equation *respects* the frame with clock rate `c : W` when on `S`: `F` lands in `S` with
`obs (F x) = c`, `G` lands in `S` with `obs (G x) = 0`, and `G_inv` lands in `S` and passes `obs`
through.  Then for every integrator of `Dino.Imex` one step maps `S → S` and adds
`(dt · advance) • c` to `obs`; `c = 0` gives conserved quantities, `c = 1` the simulation clock.
-/
namespace Dino.Invariants
open Dino.Imex

/-- a set of tendencies closed under `+`, `•`, `0`, the proper states among them, and an observable
 that is linear on it -/
structure Frame (K V W : Type) [Field K] [Add V] [Zero V] [SMul K V] [AddCommGroup W]
    [Module K W] where
  S : V → Prop
  P : V → Prop
  obs : V → W
  P_S : ∀ {x}, P x → S x
  P_add : ∀ {x y}, P x → S y → P (x + y)
  P_smul : ∀ (c : K) {x}, P x → P (c • x)
  zero_mem : S 0
  add_mem : ∀ {x y}, S x → S y → S (x + y)
  smul_mem : ∀ (c : K) {x}, S x → S (c • x)
  obs_zero : obs 0 = 0
  obs_add : ∀ {x y}, S x → S y → obs (x + y) = obs x + obs y
  obs_smul : ∀ (c : K) {x}, S x → obs (c • x) = c • obs x

section
variable {K V W : Type} [Field K] [AddCommGroup W] [Module K W]

/-- a submodule and a linear map of a `K`-module form a frame -/
def Frame.ofLinear [AddCommGroup V] [Module K V] (S : Submodule K V) (ℓ : V →ₗ[K] W) :
    Frame K V W where
  S := fun x => x ∈ S
  P := fun x => x ∈ S
  obs := ℓ
  P_S := fun h => h
  P_add := S.add_mem
  P_smul := fun c _ hx => S.smul_mem c hx
  zero_mem := S.zero_mem
  add_mem := S.add_mem
  smul_mem := fun c _ hx => S.smul_mem c hx
  obs_zero := map_zero ℓ
  obs_add := fun _ _ => map_add ℓ _ _
  obs_smul := fun c _ _ => map_smul ℓ c _

variable [Add V] [Zero V] [SMul K V]
variable (fr : Frame K V W) (c : W)

/-- `y` is a tendency in `S` whose observable is `σ • c` -/
def Tend (σ : K) (y : V) : Prop := fr.S y ∧ fr.obs y = σ • c

/-- `x` is a proper state whose observable is `a + τ • c` -/
def At (a : W) (τ : K) (x : V) : Prop := fr.P x ∧ fr.obs x = a + τ • c

variable {fr c}

theorem Tend.congr {σ σ' : K} {y : V} (h : Tend fr c σ y) (e : σ = σ') : Tend fr c σ' y := e ▸ h
theorem At.congr {a : W} {τ τ' : K} {x : V} (h : At fr c a τ x) (e : τ = τ') : At fr c a τ' x :=
  e ▸ h

theorem tend_zero : Tend fr c 0 (0 : V) := ⟨fr.zero_mem, by rw [fr.obs_zero, zero_smul]⟩

theorem Tend.add {σ₁ σ₂ : K} {y₁ y₂ : V} (h₁ : Tend fr c σ₁ y₁) (h₂ : Tend fr c σ₂ y₂) :
    Tend fr c (σ₁ + σ₂) (y₁ + y₂) :=
  ⟨fr.add_mem h₁.1 h₂.1, by rw [fr.obs_add h₁.1 h₂.1, h₁.2, h₂.2, add_smul]⟩

theorem Tend.smul {σ : K} {y : V} (s : K) (h : Tend fr c σ y) : Tend fr c (s * σ) (s • y) :=
  ⟨fr.smul_mem s h.1, by rw [fr.obs_smul s h.1, h.2, mul_smul]⟩

theorem At.add {a : W} {τ σ : K} {x y : V} (hx : At fr c a τ x) (hy : Tend fr c σ y) :
    At fr c a (τ + σ) (x + y) :=
  ⟨fr.P_add hx.1 hy.1, by rw [fr.obs_add (fr.P_S hx.1) hy.1, hx.2, hy.2, add_smul, add_assoc]⟩

theorem At.self {x : V} (hx : fr.P x) : At fr c (fr.obs x) 0 x := ⟨hx, by simp⟩

variable (fr c)

/-- the closure hypotheses of C11 for one equation: explicit tendency in `S` with observable `c`,
 implicit tendency in `S` with observable `0`, `G_inv` maps `S → S` and passes the observable
 through -/
structure Respects (e : ImEx K V) : Prop where
  F_tend : ∀ x, fr.P x → Tend fr c 1 (e.F x)
  G_tend : ∀ x, fr.P x → Tend fr c 0 (e.G x)
  Ginv_mem : ∀ x η, fr.P x → fr.P (e.Ginv x η)
  Ginv_obs : ∀ x η, fr.P x → fr.obs (e.Ginv x η) = fr.obs x

variable {fr c}

/-- why `G_inv` passes a quantity through whose implicit tendency vanishes: if
 `y = G_inv x η` solves `y − η·G y = x` then `obs y = obs x` -/
theorem Ginv_obs_of_resolvent (e : ImEx K V) (η : K)
    (hG : ∀ x, fr.P x → Tend fr c 0 (e.G x)) (hmem : ∀ x, fr.P x → fr.P (e.Ginv x η))
    (hres : ∀ x, fr.P x → e.Ginv x η + (-η) • e.G (e.Ginv x η) = x) (x : V) (hx : fr.P x) :
    fr.obs (e.Ginv x η) = fr.obs x := by
  have hy := hmem x hx
  have hg := hG _ hy
  have h := congrArg fr.obs (hres x hx)
  rw [fr.obs_add (fr.P_S hy) (fr.smul_mem _ hg.1), fr.obs_smul _ hg.1, hg.2] at h
  simpa using h

namespace Respects
variable {e : ImEx K V} (R : Respects fr c e)
include R

theorem Ginv_at {a : W} {τ : K} {x : V} (η : K) (hx : At fr c a τ x) :
    At fr c a τ (e.Ginv x η) :=
  ⟨R.Ginv_mem x η hx.1, by rw [R.Ginv_obs x η hx.1, hx.2]⟩

/-! ### the five one-state integrators and the leapfrog -/

/-- `backward_forward_euler` -/
theorem bfe_at {a : W} {τ : K} (dt : K) {u : V} (hu : At fr c a τ u) :
    At fr c a (τ + dt) (bfe e dt u) := by
  unfold bfe
  exact R.Ginv_at dt ((hu.add ((R.F_tend u hu.1).smul dt)).congr (by ring))

/-- `crank_nicolson_rk2` -/
theorem cnrk2_at (h2 : (1 + 1 : K) ≠ 0) {a : W} {τ : K} (dt : K) {u : V} (hu : At fr c a τ u) :
    At fr c a (τ + dt) (cnrk2 e dt u) := by
  unfold cnrk2
  have hg : At fr c a τ (u + (half * dt) • e.G u) :=
    (hu.add ((R.G_tend u hu.1).smul (half * dt))).congr (by ring)
  have h1 := R.F_tend u hu.1
  have hu1 : At fr c a (τ + dt) (e.Ginv (u + (half * dt) • e.G u + dt • e.F u) (half * dt)) :=
    R.Ginv_at _ ((hg.add (h1.smul dt)).congr (by ring))
  have hh2 : Tend fr c 1 ((half : K) • (e.F (e.Ginv (u + (half * dt) • e.G u + dt • e.F u)
      (half * dt)) + e.F u)) :=
    (((R.F_tend _ hu1.1).add h1).smul half).congr (by unfold half; field_simp)
  exact R.Ginv_at _ ((hg.add (hh2.smul dt)).congr (by ring))

/-- `semi_implicit_leapfrog`: the new pair is `(current, future)` with the clock of `future`
 two steps after that of `previous` -/
theorem leapfrog_at {a : W} {τ : K} (dt α : K) {p q : V} (hp : At fr c a τ p) (hq : fr.P q) :
    (leapfrog e dt α (p, q)).1 = q ∧
    At fr c a (τ + (1 + 1) * dt) (leapfrog e dt α (p, q)).2 := by
  refine ⟨rfl, ?_⟩
  unfold leapfrog
  exact R.Ginv_at _ ((hp.add (((R.F_tend q hq).add ((R.G_tend p hp.1).smul (1 - α))).smul
    ((1 + 1) * dt))).congr (by ring))

/-- the loop of `low_storage_runge_kutta_crank_nicolson` -/
theorem lsrkLoop_at {a : W} (τ₀ dt : K) :
    ∀ (βs αs γs : List K) (u h : V) (σ acc : K),
      At fr c a (τ₀ + dt * acc) u → Tend fr c σ h →
      At fr c a (τ₀ + dt * lsrkAdvLoop αs βs γs σ acc) (lsrkLoop e dt αs βs γs u h) := by
  intro βs
  induction βs with
  | nil =>
    intro αs γs u h σ acc hu _
    have e1 : lsrkLoop e dt αs [] γs u h = u := by unfold lsrkLoop; split <;> simp_all
    have e2 : lsrkAdvLoop αs [] γs σ acc = acc := by unfold lsrkAdvLoop; split <;> simp_all
    rw [e1, e2]; exact hu
  | cons b bs ih =>
    intro αs γs u h σ acc hu hh
    match αs, γs with
    | a0 :: a1 :: as, g :: gs =>
      simp only [lsrkLoop, lsrkAdvLoop]
      apply ih
      · have hh' : Tend fr c (1 + b * σ) (e.F u + b • h) := (R.F_tend u hu.1).add (hh.smul b)
        exact R.Ginv_at _ (((hu.add (hh'.smul (g * dt))).add
          ((R.G_tend u hu.1).smul (half * dt * (a1 - a0)))).congr (by ring))
      · exact (R.F_tend u hu.1).add (hh.smul b)
    | [], γs =>
      have e1 : lsrkLoop e dt [] (b :: bs) γs u h = u := by simp [lsrkLoop]
      have e2 : lsrkAdvLoop [] (b :: bs) γs σ acc = acc := by simp [lsrkAdvLoop]
      rw [e1, e2]; exact hu
    | [a0], γs =>
      have e1 : lsrkLoop e dt [a0] (b :: bs) γs u h = u := by simp [lsrkLoop]
      have e2 : lsrkAdvLoop [a0] (b :: bs) γs σ acc = acc := by simp [lsrkAdvLoop]
      rw [e1, e2]; exact hu
    | a0 :: a1 :: as, [] =>
      have e1 : lsrkLoop e dt (a0 :: a1 :: as) (b :: bs) [] u h = u := by simp [lsrkLoop]
      have e2 : lsrkAdvLoop (a0 :: a1 :: as) (b :: bs) [] σ acc = acc := by simp [lsrkAdvLoop]
      rw [e1, e2]; exact hu

/-- one step of `low_storage_runge_kutta_crank_nicolson(α, β, γ, ·, dt)` -/
theorem lsrk_at {a : W} {τ : K} (dt : K) (αs βs γs : List K) (step : V → V)
    (hs : lsrk e dt αs βs γs = some step) {u : V} (hu : At fr c a τ u) :
    At fr c a (τ + dt * lsrkAdv αs βs γs) (step u) := by
  unfold lsrk at hs
  split at hs
  · cases hs
    exact R.lsrkLoop_at τ dt βs αs γs u 0 0 0 (hu.congr (by ring)) tend_zero
  · cases hs

/-! ### the tableau form -/

omit R in
theorem wsum_tend_aux (nz : K → Bool) (σ : K) :
    ∀ (row : List K) (fs : List V) (acc : V) (s0 : K),
      Tend fr c (σ * s0) acc → (∀ f ∈ fs, Tend fr c σ f) →
      Tend fr c (σ * (row.take fs.length).foldl (fun s a => if nz a then s + a else s) s0)
        ((row.zip fs).foldl (fun acc p => if nz p.1 then acc + p.1 • p.2 else acc) acc) := by
  intro row
  induction row with
  | nil => intro fs acc s0 hacc _; simpa using hacc
  | cons a row ih =>
    intro fs acc s0 hacc hfs
    cases fs with
    | nil => simpa using hacc
    | cons f fs =>
      simp only [List.zip_cons_cons, List.foldl_cons, List.length_cons, List.take_succ_cons]
      apply ih
      · by_cases hn : nz a = true
        · simp only [hn, if_true]
          exact (hacc.add ((hfs f List.mem_cons_self).smul a)).congr (by ring)
        · simp only [hn]; exact hacc
      · intro g hg; exact hfs g (List.mem_cons_of_mem _ hg)

omit R in
/-- `sum(row[j] * f[j] for j in range(len(f)) if row[j])` of tendencies of rate `σ` is a tendency
 of rate `σ · Σ row[j]` -/
theorem wsum_tend (nz : K → Bool) (σ : K) (row : List K) (fs : List V)
    (hfs : ∀ f ∈ fs, Tend fr c σ f) :
    Tend fr c (σ * wcoef nz row fs.length) (wsum nz row fs) := by
  unfold wsum wcoef
  exact wsum_tend_aux nz σ row fs 0 0 (tend_zero.congr (by ring)) hfs

/-- every stage value of `imex_runge_kutta` lies in `S`, every `F(Y_i)` is a tendency of rate one
 and every `G(Y_i)` of rate zero -/
theorem stages_tend (nz : K → Bool) (dt : K) {y0 : V} (hy : fr.P y0) :
    ∀ (tex tim : List (List K)) (fs gs : List V),
      (∀ f ∈ fs, Tend fr c 1 f) → (∀ g ∈ gs, Tend fr c 0 g) →
      (∀ f ∈ (stages nz e dt y0 tex tim fs gs).1, Tend fr c 1 f) ∧
      (∀ g ∈ (stages nz e dt y0 tex tim fs gs).2, Tend fr c 0 g) ∧
      (stages nz e dt y0 tex tim fs gs).1.length = fs.length + min tex.length tim.length := by
  intro tex
  induction tex with
  | nil => intro tim fs gs hf hg; simp only [stages]; exact ⟨hf, hg, by simp⟩
  | cons rex tex ih =>
    intro tim fs gs hf hg
    cases tim with
    | nil => simp only [stages]; exact ⟨hf, hg, by simp⟩
    | cons rim tim =>
      simp only [stages]
      have hY : fr.P (e.Ginv (y0 + dt • wsum nz rex fs + dt • wsum nz rim gs)
          (dt * rim.getD fs.length 0)) :=
        R.Ginv_mem _ _ (fr.P_add (fr.P_add hy (fr.smul_mem _ (wsum_tend nz 1 rex fs hf).1))
          (fr.smul_mem _ (wsum_tend nz 0 rim gs hg).1))
      obtain ⟨h1, h2, h3⟩ := ih tim (fs ++ [e.F _]) (gs ++ [e.G _])
        (by
          intro f hfm
          rcases List.mem_append.1 hfm with h | h
          · exact hf f h
          · rw [List.mem_singleton.1 h]; exact R.F_tend _ hY)
        (by
          intro g hgm
          rcases List.mem_append.1 hgm with h | h
          · exact hg g h
          · rw [List.mem_singleton.1 h]; exact R.G_tend _ hY)
      refine ⟨h1, h2, ?_⟩
      rw [h3]; simp; omega

/-- one step of `imex_runge_kutta(tableau, ·, dt)` -/
theorem imexRKStep_at (nz : K → Bool) {a : W} {τ : K} (dt : K) (t : Tableau K) {u : V}
    (hu : At fr c a τ u) :
    At fr c a (τ + dt * tabAdv nz t) (imexRKStep nz e dt t u) := by
  unfold imexRKStep
  obtain ⟨h1, h2, h3⟩ := R.stages_tend nz dt hu.1 t.aEx t.aIm [e.F u] [e.G u]
    (by intro f hf; rw [List.mem_singleton.1 hf]; exact R.F_tend u hu.1)
    (by intro g hg; rw [List.mem_singleton.1 hg]; exact R.G_tend u hu.1)
  have hE := (wsum_tend nz 1 t.bEx _ h1).smul dt
  have hI := (wsum_tend nz 0 t.bIm _ h2).smul dt
  have hl : (stages nz e dt u t.aEx t.aIm [e.F u] [e.G u]).1.length = tabStages t := by
    rw [h3]; simp [tabStages]; omega
  rw [hl] at hE
  exact ((hu.add hE).add hI).congr (by unfold tabAdv; ring)

theorem imexRK_at (nz : K → Bool) {a : W} {τ : K} (dt : K) (t : Tableau K) (step : V → V)
    (hs : imexRK nz e dt t = some step) {u : V} (hu : At fr c a τ u) :
    At fr c a (τ + dt * tabAdv nz t) (step u) := by
  unfold imexRK at hs
  split at hs
  · cases hs; exact R.imexRKStep_at nz dt t hu
  · cases hs

/-- **every one-state integrator**: a defined step maps proper states to proper states and adds
 `(dt · adv) • c` to the observable -/
theorem scheme_at (h2 : (1 + 1 : K) ≠ 0) (sch : Scheme K) {a : W} {τ : K} (dt : K) (step : V → V)
    (hs : sch.step e dt = some step) {u : V} (hu : At fr c a τ u) :
    At fr c a (τ + dt * sch.adv) (step u) := by
  cases sch with
  | bfe => cases hs; exact (R.bfe_at dt hu).congr (by simp [Scheme.adv])
  | cnrk2 => cases hs; exact (R.cnrk2_at h2 dt hu).congr (by simp [Scheme.adv])
  | lsrk αs βs γs => exact R.lsrk_at dt αs βs γs step hs hu
  | tableau nz t => exact R.imexRK_at nz dt t step hs hu

end Respects

/-! ### filters -/

/-- a state filter that maps proper states to proper states and leaves the observable alone -/
def FilterOk (fr : Frame K V W) (g : V → V) : Prop :=
  ∀ x, fr.P x → fr.P (g x) ∧ fr.obs (g x) = fr.obs x

theorem FilterOk.at {g : V → V} (hg : FilterOk fr g) {a : W} {τ : K} {x : V}
    (hx : At fr c a τ x) : At fr c a τ (g x) :=
  ⟨(hg x hx.1).1, by rw [(hg x hx.1).2, hx.2]⟩

/-- the invariant of a leapfrog pair `(previous, current)`: both proper, clocks one step apart -/
def AtPair (fr : Frame K V W) (c : W) (a : W) (dt τ : K) (u : V × V) : Prop :=
  At fr c a (τ - dt) u.1 ∧ At fr c a τ u.2

theorem Respects.leapfrog_atPair {e : ImEx K V} (R : Respects fr c e) {a : W} {τ : K} (dt α : K)
    {u : V × V} (hu : AtPair fr c a dt τ u) :
    AtPair fr c a dt (τ + dt) (leapfrog e dt α u) := by
  obtain ⟨h1, h2⟩ := R.leapfrog_at dt α hu.1 hu.2.1
  refine ⟨?_, h2.congr (by ring)⟩
  rw [show (leapfrog e dt α u).1 = u.2 from h1]
  exact hu.2.congr (by ring)

/-- `leapfrog_step_filter(f)` -/
theorem leapfrogStepFilter_atPair {g : V → V} (hg : FilterOk fr g) {a : W} {dt τ : K}
    (u : V × V) {uNext : V × V} (hn : AtPair fr c a dt τ uNext) :
    AtPair fr c a dt τ (Filters.leapfrogStepFilter g u uNext) :=
  ⟨hn.1, hg.at hn.2⟩

/-- `robert_asselin_leapfrog_filter(r)`: the smoothed `current` keeps its clock because the three
 clocks are in arithmetic progression; conserved quantities (`c = 0`) are untouched -/
theorem robertAsselin_atPair (r : K) {a : W} {dt τ : K} {u uNext : V × V}
    (hu : AtPair fr c a dt τ u) (hn : AtPair fr c a dt (τ + dt) uNext) :
    AtPair fr c a dt (τ + dt) (robertAsselin r u uNext) := by
  obtain ⟨⟨hp, hpo⟩, ⟨hq, hqo⟩⟩ := hu
  obtain ⟨_, ⟨hf, hfo⟩⟩ := hn
  refine ⟨⟨?_, ?_⟩, ⟨hf, hfo⟩⟩
  · exact fr.P_add (fr.P_smul _ hq) (fr.smul_mem _ (fr.add_mem (fr.P_S hp) (fr.P_S hf)))
  · show fr.obs ((1 - (1 + 1) * r) • u.2 + r • (u.1 + uNext.2)) = _
    rw [fr.obs_add (fr.smul_mem _ (fr.P_S hq)) (fr.smul_mem _ (fr.add_mem (fr.P_S hp) (fr.P_S hf))),
      fr.obs_smul _ (fr.P_S hq), fr.obs_smul _ (fr.add_mem (fr.P_S hp) (fr.P_S hf)),
      fr.obs_add (fr.P_S hp) (fr.P_S hf), hpo, hqo, hfo]
    module
end

/-! ## histories: any list of steps and filters -/
section history
variable {K U : Type} [Field K]

/-- a step function (with its filters) advances the clocked invariant `J` by `d` -/
def StepOk (J : K → U → Prop) (d : K) (step : U → U) (filters : List (U → U → U)) : Prop :=
  (∀ τ u, J τ u → J (τ + d) (step u)) ∧
  ∀ g ∈ filters, ∀ τ u uNext, J τ u → J (τ + d) uNext → J (τ + d) (g u uNext)

theorem stepWithFilters_inv (J : K → U → Prop) (d : K) (step : U → U) (filters : List (U → U → U))
    (h : StepOk J d step filters) (τ : K) (u : U) (hu : J τ u) :
    J (τ + d) (stepWithFilters step filters u) := by
  unfold stepWithFilters
  have : ∀ (fl : List (U → U → U)) (x : U), (∀ g ∈ fl, g ∈ filters) → J (τ + d) x →
      J (τ + d) (fl.foldl (fun uNext flt => flt u uNext) x) := by
    intro fl
    induction fl with
    | nil => intro x _ hx; exact hx
    | cons g fl ih =>
      intro x hsub hx
      simp only [List.foldl_cons]
      exact ih _ (fun g' hg' => hsub g' (List.mem_cons_of_mem _ hg'))
        (h.2 g (hsub g List.mem_cons_self) τ u x hu hx)
  exact this filters _ (fun _ hg => hg) (h.1 τ u hu)

/-- **all histories**: after any list of filtered steps, each advancing the clock by its own
 `d`, the invariant holds at the sum of the advances -/
theorem run_inv (J : K → U → Prop) :
    ∀ (steps : List (K × (U → U) × List (U → U → U))),
      (∀ st ∈ steps, StepOk J st.1 st.2.1 st.2.2) → ∀ (τ : K) (u : U), J τ u →
      J (τ + (steps.map (·.1)).sum) (runSteps (steps.map (·.2)) u) := by
  intro steps
  induction steps with
  | nil => intro _ τ u hu; simpa [runSteps] using hu
  | cons st steps ih =>
    intro hs τ u hu
    have h1 := stepWithFilters_inv J st.1 st.2.1 st.2.2 (hs st List.mem_cons_self) τ u hu
    have := ih (fun s hs' => hs s (List.mem_cons_of_mem _ hs')) _ _ h1
    simp only [List.map_cons, List.sum_cons, runSteps, List.foldl_cons] at this ⊢
    rw [← add_assoc]; exact this

/-- `k` steps of the same filtered step -/
theorem run_replicate_inv (J : K → U → Prop) (d : K) (step : U → U) (filters : List (U → U → U))
    (h : StepOk J d step filters) (k : Nat) (τ : K) (u : U) (hu : J τ u) :
    J (τ + k * d) (runSteps (List.replicate k (step, filters)) u) := by
  have := run_inv J (List.replicate k (d, step, filters))
    (fun st hst => by rw [List.eq_of_mem_replicate hst]; exact h) τ u hu
  simpa [List.map_replicate, List.sum_replicate, nsmul_eq_mul] using this

end history

end Dino.Invariants
