import DinoProofs.Lemmas.TreeFlat
import Mathlib.Data.List.Pairwise

/-!
# Lemmas for the tree model, part 4: `unflatten_dict` after `flatten_dict`, Python `==`
-/
set_option linter.unusedSectionVars false

namespace Dino.Tree

section Round
variable {α : Type} [DecidableEq α] {β : Type}

/-! ### `flatten_dict` succeeds only on separator-free dictionaries -/

theorem bind_dupCheck_ok {x : Except Err (Flat α β)} {r : Flat α β} (h : x.bind dupCheck = .ok r) :
    x = .ok r := by
  cases x with
  | error e => simp [Except.bind] at h
  | ok y =>
    simp only [Except.bind, dupCheck] at h
    split at h
    · cases h
    · split at h
      · cases h
      · exact h

theorem flattenLoop_sepFree (sep : α) : ∀ (d : Dict α β) (pre : Option (List α)) (r : Flat α β),
    flattenLoop sep pre d = .ok r → d.SepFree sep
  | .nil, _, _, _ => by simp [Dict.SepFree]
  | .cons k (.leaf b) rest, pre, r, h => by
    simp only [flattenLoop] at h
    by_cases hk : sep ∈ k
    · simp [hk] at h
    · simp only [hk, if_false] at h
      cases hr : flattenLoop sep pre rest with
      | error e => simp [hr] at h
      | ok r2 => exact ⟨hk, by simp [Val.SepFree], flattenLoop_sepFree sep rest pre r2 hr⟩
  | .cons k (.dict d') rest, pre, r, h => by
    simp only [flattenLoop] at h
    by_cases hk : sep ∈ k
    · simp [hk] at h
    · simp only [hk, if_false] at h
      by_cases hd : d'.isNil = true
      · simp only [hd, if_true] at h
        cases hr : flattenLoop sep pre rest with
        | error e => simp [hr] at h
        | ok r2 =>
          refine ⟨hk, ?_, flattenLoop_sepFree sep rest pre r2 hr⟩
          rw [(isNil_iff d').1 hd]; simp [Val.SepFree, Dict.SepFree]
      · simp only [hd, if_false, Bool.false_eq_true] at h
        cases h1 : (flattenLoop sep (some (newKey sep pre k)) d').bind dupCheck with
        | error e => simp [h1] at h
        | ok r1 =>
          simp only [h1] at h
          cases hr : flattenLoop sep pre rest with
          | error e => simp [hr] at h
          | ok r2 =>
            exact ⟨hk, flattenLoop_sepFree sep d' _ r1 (bind_dupCheck_ok h1),
              flattenLoop_sepFree sep rest pre r2 hr⟩

theorem flatten_sepFree (sep : α) (d : Dict α β) (r : Flat α β) (h : flatten sep d = .ok r) : d.SepFree sep :=
  flattenLoop_sepFree sep d none r (bind_dupCheck_ok h)

/-! ### the merged dictionary of `unflatten_dict` -/

theorem keys_eq_toList : ∀ d : Dict α β, d.keys = d.toList.map Prod.fst
  | .nil => rfl
  | .cons k v r => by simp [Dict.keys, Dict.toList, keys_eq_toList r]

theorem toList_insert_fresh : ∀ (d : Dict α β) (k : List α) (v : Val α β), k ∉ d.keys →
    (d.insert k v).toList = d.toList ++ [(k, v)]
  | .nil, k, v, _ => rfl
  | .cons k0 v0 r, k, v, h => by
    simp only [Dict.keys, List.mem_cons, not_or] at h
    simp [Dict.insert, Ne.symm h.1, Dict.toList, toList_insert_fresh r k v h.2]

theorem toList_foldl_insert : ∀ (l : List (List α × Val α β)) (d : Dict α β),
    (d.keys ++ l.map Prod.fst).Nodup →
    (l.foldl (fun d kv => d.insert kv.1 kv.2) d).toList = d.toList ++ l
  | [], d, _ => by simp
  | kv :: l, d, h => by
    have hk : kv.1 ∉ d.keys := by
      intro hm
      have := (List.nodup_append.1 h).2.2 _ hm kv.1 (by simp)
      exact this rfl
    have h' : ((d.insert kv.1 kv.2).keys ++ l.map Prod.fst).Nodup := by
      rw [keys_insert, if_neg hk]
      simpa [List.append_assoc] using h
    rw [List.foldl_cons, toList_foldl_insert l _ h', toList_insert_fresh d kv.1 kv.2 hk]
    simp

theorem merged_toList (flat : List (List α × β)) (empties : List (List α))
    (h : (flat.map Prod.fst ++ empties).Nodup) :
    (merged flat empties).toList =
      flat.map (fun kv => (kv.1, Val.leaf kv.2)) ++ empties.map (fun k => (k, Val.dict Dict.nil)) := by
  have e1 : ∀ d : Dict α β, flat.foldl (fun d kv => d.insert kv.1 (.leaf kv.2)) d
      = (flat.map (fun kv => (kv.1, (Val.leaf kv.2 : Val α β)))).foldl (fun d kv => d.insert kv.1 kv.2) d := by
    intro d; rw [List.foldl_map]
  have e2 : ∀ d : Dict α β, empties.foldl (fun d k => d.insert k (.dict .nil)) d
      = (empties.map (fun k => (k, (Val.dict Dict.nil : Val α β)))).foldl (fun d kv => d.insert kv.1 kv.2) d := by
    intro d; rw [List.foldl_map]
  unfold merged
  rw [e1, e2]
  have h1 : ((Dict.nil : Dict α β).keys ++ (flat.map (fun kv => (kv.1, (Val.leaf kv.2 : Val α β)))).map Prod.fst).Nodup := by
    simp only [Dict.keys, List.nil_append, List.map_map]
    exact (List.nodup_append.1 h).1
  have t1 := toList_foldl_insert _ _ h1
  rw [toList_foldl_insert _ _ (by
    rw [keys_eq_toList, t1]
    simpa [Dict.toList, List.map_map, Function.comp_def] using h), t1]
  simp [Dict.toList]

/-! ### `unflatten_dict` of the flat form of a list of terminal paths -/

instance : Std.Symm (Incomp (α := α)) := ⟨fun _ _ h => h.symm⟩

theorem splitOn_injective (sep : α) : Function.Injective (splitOn sep) := fun a b h => by
  rw [← joinSep_splitOn sep a, ← joinSep_splitOn sep b, h]

theorem splitOn_mkKey {sep : α} {T : List (List (List α) × Option β)} (hT : GoodTerms sep T)
    (pt : List (List α) × Option β) (h : pt ∈ T) : splitOn sep (mkKey sep none pt.1) = pt.1 :=
  splitOn_joinSep sep pt.1 (hT.ne pt h) (hT.sepFree pt h)

/-- `unflatten_dict` applied to the flat form of a good list of terminal paths succeeds, and the
 result has exactly these terminal paths -/
theorem unflatten_terms (sep : α) (T : List (List (List α) × Option β)) (hT : GoodTerms sep T) :
    ∃ r, unflatten sep (leafItems sep none T) (emptyKeys sep none T) = .ok r ∧ r.NoDup ∧
      ∀ q t, look r q = some t ↔ (q, t) ∈ T := by
  have hnd := hT.keys_nodup none
  have hml := merged_toList _ _ hnd
  set m := merged (leafItems sep none T) (emptyKeys sep none T) with hm
  -- every entry of the merged dictionary comes from a terminal path, and conversely
  have hmem : ∀ kv ∈ m.toList, ∃ pt ∈ T, kv.1 = mkKey sep none pt.1 ∧ kv.2.term = some pt.2 := by
    intro kv hkv
    rw [hml, List.mem_append, List.mem_map, List.mem_map] at hkv
    rcases hkv with ⟨⟨x, b⟩, hx, rfl⟩ | ⟨x, hx, rfl⟩
    · obtain ⟨p, hp, rfl⟩ := (mem_leafItems sep none T x b).1 hx
      exact ⟨(p, some b), hp, rfl, rfl⟩
    · obtain ⟨p, hp, rfl⟩ := (mem_emptyKeys sep none T x).1 hx
      exact ⟨(p, none), hp, rfl, by simp [Val.term, Dict.isNil]⟩
  have hdec : ∀ q t, (q, some t) ∈ decode sep m ↔ (q, t) ∈ T := by
    intro q t
    simp only [decode, List.mem_map, Prod.mk.injEq]
    constructor
    · rintro ⟨kv, hkv, hq, ht⟩
      obtain ⟨pt, hpt, hk, hterm⟩ := hmem kv hkv
      rw [hk, splitOn_mkKey hT pt hpt] at hq
      rw [hterm, Option.some.injEq] at ht
      rcases pt with ⟨p, t'⟩
      simp only at hq ht
      rw [← hq, ← ht]; exact hpt
    · intro hqt
      cases t with
      | some b =>
        refine ⟨(mkKey sep none q, Val.leaf b), ?_, splitOn_mkKey hT (q, some b) hqt, rfl⟩
        rw [hml, List.mem_append]
        exact Or.inl (List.mem_map.2 ⟨(mkKey sep none q, b), (mem_leafItems sep none T _ b).2 ⟨q, hqt, rfl⟩, rfl⟩)
      | none =>
        refine ⟨(mkKey sep none q, Val.dict Dict.nil), ?_, splitOn_mkKey hT (q, none) hqt, by simp [Val.term, Dict.isNil]⟩
        rw [hml, List.mem_append]
        exact Or.inr (List.mem_map.2 ⟨mkKey sep none q, (mem_emptyKeys sep none T _).2 ⟨q, hqt, rfl⟩, rfl⟩)
  have hterm : ∀ kv ∈ m.toList, kv.2.term ≠ none := by
    intro kv hkv
    obtain ⟨pt, _, _, h⟩ := hmem kv hkv
    simp [h]
  have hpaths : (decode sep m).map Prod.fst = m.keys.map (splitOn sep) := by
    simp [decode, keys_eq_toList, List.map_map, Function.comp_def]
  have hpw : ((decode sep m).map Prod.fst).Pairwise Incomp := by
    have hnodup : ((decode sep m).map Prod.fst).Nodup := by
      rw [hpaths]
      refine List.Nodup.map (splitOn_injective sep) ?_
      rw [keys_eq_toList, hml]
      simpa [List.map_map, Function.comp_def] using hnd
    refine hnodup.pairwise_of_forall_ne ?_
    intro a ha b hb hab
    have inT : ∀ x ∈ (decode sep m).map Prod.fst, x ∈ T.map Prod.fst := by
      intro x hx
      simp only [decode, List.map_map, List.mem_map, Function.comp] at hx
      obtain ⟨kv, hkv, rfl⟩ := hx
      obtain ⟨pt, hpt, hk, _⟩ := hmem kv hkv
      rw [hk, splitOn_mkKey hT pt hpt]
      exact List.mem_map_of_mem hpt
    exact hT.prefixFree.forall (inT a ha) (inT b hb) hab
  obtain ⟨r, hr, hlook, hnd'⟩ := unflattenLoop_spec sep m .nil hterm hpw (by simp)
  refine ⟨r, hr, hnd' (by simp [Dict.NoDup]), ?_⟩
  intro q t
  rw [hlook, hdec]
  simp

end Round
end Dino.Tree
