import DinoProofs.Lemmas.TreeArr

/-!
# Lemmas for the tree model, part 8: leaves that carry their off-axis shape (`Leaf`, `Arr`)
-/
set_option linter.unusedSectionVars false

namespace Dino.Tree

section Leaves
variable {K : Type}

/-- a genuine array: every slice has `off.prod` entries -/
def Leaf.WF (l : Leaf K) : Prop := ∀ row ∈ l.slices, row.length = l.off.prod

/-- a genuine array: `shape.prod` entries -/
def Arr.WF (a : Arr K) : Prop := a.data.length = a.shape.prod

/-- slice `i` of every leaf of a tree (`keep_dims=True`) -/
def sliceAt (i : Nat) (t : List (Leaf K)) : List (Leaf K) :=
  t.map fun l => ⟨l.off, slice l.slices i (i + 1)⟩

theorem Leaf.ext' {a b : Leaf K} (h1 : a.off = b.off) (h2 : a.slices = b.slices) : a = b := by
  cases a; cases b; simp_all

/-- `offsAgree` together with equal numbers of leaves: the lists of off-axis shapes are equal -/
theorem offsAgree_iff : ∀ (t u : List (Leaf K)), u.length = t.length →
    (offsAgree t u = true ↔ u.map Leaf.off = t.map Leaf.off)
  | [], [], _ => by simp [offsAgree]
  | [], _ :: _, h => by simp at h
  | _ :: _, [], h => by simp at h
  | a :: t, b :: u, h => by
    have ih := offsAgree_iff t u (by simpa using h)
    simp only [offsAgree, List.zipWith_cons_cons, List.all_cons, Bool.and_eq_true, id, decide_eq_true_eq,
      List.map_cons, List.cons.injEq] at ih ⊢
    rw [ih]

theorem catLeaves_off : ∀ (t u : List (Leaf K)), u.map Leaf.off = t.map Leaf.off →
    (catLeaves t u).map Leaf.off = t.map Leaf.off
  | [], [], _ => by simp [catLeaves]
  | [], _ :: _, h => by simp at h
  | _ :: _, [], h => by simp at h
  | a :: t, b :: u, h => by
    simp only [List.map_cons, List.cons.injEq] at h
    have ih := catLeaves_off t u h.2
    simp only [catLeaves, List.zipWith_cons_cons, List.map_cons, List.cons.injEq, true_and] at ih ⊢
    exact ih

theorem catLeaves_length (t u : List (Leaf K)) (h : u.map Leaf.off = t.map Leaf.off) :
    (catLeaves t u).length = t.length := by
  have := congrArg List.length (catLeaves_off t u h)
  simpa using this

theorem catLeaves_slices_length : ∀ (t u : List (Leaf K)) (a b : Nat), u.map Leaf.off = t.map Leaf.off →
    (∀ l ∈ t, l.slices.length = a) → (∀ l ∈ u, l.slices.length = b) →
    ∀ l ∈ catLeaves t u, l.slices.length = a + b
  | [], [], _, _, _, _, _ => by simp [catLeaves]
  | [], _ :: _, _, _, h, _, _ => by simp at h
  | _ :: _, [], _, _, h, _, _ => by simp at h
  | x :: t, y :: u, a, b, h, ht, hu => by
    simp only [List.map_cons, List.cons.injEq] at h
    have ih := catLeaves_slices_length t u a b h.2 (fun l hl => ht l (by simp [hl])) (fun l hl => hu l (by simp [hl]))
    intro l hl
    simp only [catLeaves, List.zipWith_cons_cons, List.mem_cons] at hl ih
    rcases hl with rfl | hl
    · simp [ht x (by simp), hu y (by simp)]
    · exact ih l hl

theorem slice_append_lt (x y : List (List K)) (i : Nat) (h : i < x.length) :
    slice (x ++ y) i (i + 1) = slice x i (i + 1) := by
  unfold slice
  rw [List.take_append_of_le_length (by omega)]

theorem slice_append_eq (x y : List (List K)) (hy : y.length = 1) :
    slice (x ++ y) x.length (x.length + 1) = y := by
  have := slice_mid x y []
  rw [List.append_nil, hy] at this
  exact this

theorem sliceAt_catLeaves_lt (i : Nat) : ∀ (t u : List (Leaf K)), u.map Leaf.off = t.map Leaf.off →
    (∀ l ∈ t, i < l.slices.length) → sliceAt i (catLeaves t u) = sliceAt i t
  | [], [], _, _ => by simp [catLeaves, sliceAt]
  | [], _ :: _, h, _ => by simp at h
  | _ :: _, [], h, _ => by simp at h
  | x :: t, y :: u, h, ht => by
    simp only [List.map_cons, List.cons.injEq] at h
    have ih := sliceAt_catLeaves_lt i t u h.2 (fun l hl => ht l (by simp [hl]))
    simp only [sliceAt, catLeaves, List.zipWith_cons_cons, List.map_cons, List.cons.injEq] at ih ⊢
    exact ⟨by rw [slice_append_lt _ _ _ (ht x (by simp))], ih⟩

theorem sliceAt_catLeaves_eq (a : Nat) : ∀ (t u : List (Leaf K)), u.map Leaf.off = t.map Leaf.off →
    (∀ l ∈ t, l.slices.length = a) → (∀ l ∈ u, l.slices.length = 1) → sliceAt a (catLeaves t u) = u
  | [], [], _, _, _ => by simp [catLeaves, sliceAt]
  | [], _ :: _, h, _, _ => by simp at h
  | _ :: _, [], h, _, _ => by simp at h
  | x :: t, y :: u, h, ht, hu => by
    simp only [List.map_cons, List.cons.injEq] at h
    have ih := sliceAt_catLeaves_eq a t u h.2 (fun l hl => ht l (by simp [hl])) (fun l hl => hu l (by simp [hl]))
    simp only [sliceAt, catLeaves, List.zipWith_cons_cons, List.map_cons, List.cons.injEq] at ih ⊢
    refine ⟨?_, ih⟩
    apply Leaf.ext'
    · exact h.1.symm
    · have := slice_append_eq x.slices y.slices (hu y (by simp))
      rw [ht x (by simp)] at this
      exact this

theorem sliceAt_zero_of_single (t : List (Leaf K)) (h : ∀ l ∈ t, l.slices.length = 1) : sliceAt 0 t = t := by
  induction t with
  | nil => rfl
  | cons x t ih =>
    simp only [sliceAt, List.map_cons, List.cons.injEq] at ih ⊢
    refine ⟨?_, ih (fun l hl => h l (by simp [hl]))⟩
    have hx := h x (by simp)
    refine Leaf.ext' rfl ?_
    show slice x.slices 0 (0 + 1) = x.slices
    simp only [slice]
    rw [List.take_of_length_le (by omega)]
    rfl

/-- concatenating single-slice trees `ts` behind a tree `t` whose leaves have `a` slices: the result
 has the off-axis shapes of `t`, `a + ts.length` slices per leaf, the slices of `t` first and slice
 `a + i` is tree `ts[i]` -/
theorem foldl_catLeaves_spec : ∀ (ts : List (List (Leaf K))) (t : List (Leaf K)) (a : Nat),
    (∀ l ∈ t, l.slices.length = a) →
    (∀ u ∈ ts, u.map Leaf.off = t.map Leaf.off ∧ ∀ l ∈ u, l.slices.length = 1) →
    (ts.foldl catLeaves t).map Leaf.off = t.map Leaf.off ∧
    (∀ l ∈ ts.foldl catLeaves t, l.slices.length = a + ts.length) ∧
    (∀ i, i < a → sliceAt i (ts.foldl catLeaves t) = sliceAt i t) ∧
    (∀ i (h : i < ts.length), sliceAt (a + i) (ts.foldl catLeaves t) = ts[i])
  | [], t, a, ht, _ => by
    refine ⟨rfl, by simpa using ht, fun _ _ => rfl, fun i h => by simp at h⟩
  | u :: us, t, a, ht, hts => by
    obtain ⟨hu, hu1⟩ := hts u (by simp)
    have hoff := catLeaves_off t u hu
    have hlen := catLeaves_slices_length t u a 1 hu ht hu1
    obtain ⟨i1, i2, i3, i4⟩ := foldl_catLeaves_spec us (catLeaves t u) (a + 1) hlen
      (fun w hw => ⟨by rw [hoff]; exact (hts w (by simp [hw])).1, (hts w (by simp [hw])).2⟩)
    simp only [List.foldl_cons, List.length_cons]
    refine ⟨i1.trans hoff, fun l hl => by rw [i2 l hl]; omega, fun i hi => ?_, fun i hi => ?_⟩
    · rw [i3 i (by omega), sliceAt_catLeaves_lt i t u hu (fun l hl => by rw [ht l hl]; exact hi)]
    · cases i with
      | zero =>
        rw [Nat.add_zero, i3 a (by omega), sliceAt_catLeaves_eq a t u hu ht hu1]
        rfl
      | succ j =>
        have := i4 j (by simpa using hi)
        rw [show a + (j + 1) = a + 1 + j by omega, this]
        rfl

theorem catLeaves_take_sliceAt (a : Nat) : ∀ leaves : List (Leaf K),
    catLeaves (leaves.map fun l => (⟨l.off, l.slices.take a⟩ : Leaf K)) (sliceAt a leaves)
      = leaves.map fun l => ⟨l.off, l.slices.take (a + 1)⟩
  | [] => rfl
  | l :: ls => by
    have ih := catLeaves_take_sliceAt a ls
    simp only [catLeaves, sliceAt, List.map_cons, List.zipWith_cons_cons, take_append_slice] at ih ⊢
    rw [ih]

/-- folding `catLeaves` over the unit slices `a, a+1, …` extends a prefix -/
theorem foldl_catLeaves_slices (leaves : List (Leaf K)) : ∀ (m a : Nat),
    ((List.range' a m).map fun i => sliceAt i leaves).foldl catLeaves
      (leaves.map fun l => ⟨l.off, l.slices.take a⟩) = leaves.map fun l => ⟨l.off, l.slices.take (a + m)⟩
  | 0, a => by simp
  | m + 1, a => by
    have ih := foldl_catLeaves_slices leaves m (a + 1)
    simp only [List.range'_succ, List.map_cons, List.foldl_cons]
    rw [catLeaves_take_sliceAt, ih]
    apply List.map_congr_left
    intro l _
    rw [show a + 1 + m = a + (m + 1) by omega]

theorem sliceAt_off (i : Nat) (t : List (Leaf K)) : (sliceAt i t).map Leaf.off = t.map Leaf.off := by
  simp [sliceAt, List.map_map, Function.comp_def]

end Leaves
end Dino.Tree
