import DinoProofs.Lemmas.SHEquiv

/-! Entry formulas for the latitude-derivative part of `Dino.SHEquiv`: the shifts, `dDlatWith`, the
weight tables `_derivative_recurrence_weights` of both layouts, and the entrywise matrix helpers
(`divAll`, `madd`, `msub`, `mneg`, `clip1`). -/
namespace Dino.SHEquiv
open Finset Dino.Lin Dino.SH
variable {K : Type} [Field K]

/-! ### shifts -/

theorem shiftLeft_length (v : List K) : (shiftLeft v).length = v.length := by
  cases v <;> simp [shiftLeft]

theorem shiftRight_length (v : List K) : (shiftRight v).length = v.length := by
  cases v with
  | nil => rfl
  | cons a t => simp [shiftRight]

theorem ent_singleton_zero (k : Nat) : ent ([0] : List K) k = 0 := by
  cases k <;> simp

/-- `shift(v, -1)`: `out[l] = v[l+1]` (zero beyond the end) -/
theorem ent_shiftLeft (v : List K) (l : Nat) : ent (shiftLeft v) l = ent v (l + 1) := by
  cases v with
  | nil => simp [shiftLeft]
  | cons a t =>
    simp only [shiftLeft, ent_cons_succ]
    rw [ent_append]
    split
    · rfl
    · rename_i h
      rw [ent_singleton_zero, ent_of_length_le t l (by omega)]

/-- `shift(v, +1)`: `out[l] = v[l-1]` for `1 ≤ l < len`, zero at `l = 0` -/
theorem ent_shiftRight (v : List K) (l : Nat) :
    ent (shiftRight v) l = if 1 ≤ l ∧ l < v.length then ent v (l - 1) else 0 := by
  cases v with
  | nil => simp [shiftRight]
  | cons a t =>
    cases l with
    | zero => simp [shiftRight]
    | succ k =>
      simp only [shiftRight, ent_cons_succ, List.dropLast_eq_take, ent_take, List.length_cons,
        Nat.add_sub_cancel]
      by_cases hk : k < t.length
      · rw [if_pos hk, if_pos ⟨by omega, by omega⟩]
      · rw [if_neg hk, if_neg (by omega)]

/-! ### `dDlatWith`, entrywise -/

theorem dDlatWith_length (cl cr : List K) (a b x : List (List K)) (n : Nat)
    (ha : a.length = n) (hb : b.length = n) (hx : x.length = n) :
    (dDlatWith cl cr a b x).length = n := by
  simp [dDlatWith, ha, hb, hx]

theorem dDlatWith_rows (cl cr : List K) (a b x : List (List K)) (w : Nat)
    (haw : ∀ r ∈ a, r.length = w) (hbw : ∀ r ∈ b, r.length = w) (hxw : ∀ r ∈ x, r.length = w)
    (hcl : cl.length = w) (hcr : cr.length = w) :
    ∀ r ∈ dDlatWith cl cr a b x, r.length = w := by
  intro r hr
  unfold dDlatWith at hr
  rw [List.mem_iff_getElem] at hr
  obtain ⟨i, hi, rfl⟩ := hr
  simp only [List.length_zipWith, List.length_zip] at hi
  simp only [List.getElem_zipWith, List.getElem_zip, vadd, List.length_zipWith, shiftLeft_length,
    shiftRight_length]
  rw [haw _ (List.getElem_mem _), hbw _ (List.getElem_mem _), hxw _ (List.getElem_mem _), hcl, hcr]
  omega

/-- `out[i][l] = cl[l+1]·a[i][l+1]·x[i][l+1] + cr[l-1]·b[i][l-1]·x[i][l-1]`, the second term only for
 `1 ≤ l < width` (the entry functions read `0` outside the arrays) -/
theorem ent2_dDlatWith (cl cr : List K) (a b x : List (List K)) (n w : Nat)
    (ha : a.length = n) (hb : b.length = n) (hx : x.length = n)
    (haw : ∀ r ∈ a, r.length = w) (hbw : ∀ r ∈ b, r.length = w) (hxw : ∀ r ∈ x, r.length = w)
    (hcl : cl.length = w) (hcr : cr.length = w) (i l : Nat) :
    ent2 (dDlatWith cl cr a b x) i l
      = ent cl (l + 1) * ent2 a i (l + 1) * ent2 x i (l + 1)
        + (if 1 ≤ l ∧ l < w then ent cr (l - 1) * ent2 b i (l - 1) * ent2 x i (l - 1) else 0) := by
  rcases Nat.lt_or_ge i n with hi | hi
  · have hia : i < a.length := by omega
    have hib : i < b.length := by omega
    have hix : i < x.length := by omega
    have hlen : i < (dDlatWith cl cr a b x).length := by
      rw [dDlatWith_length cl cr a b x n ha hb hx]; exact hi
    rw [ent2_eq_ent, getD_eq_getElem_nil _ i hlen]
    simp only [dDlatWith, List.getElem_zipWith, List.getElem_zip]
    have hwa := haw _ (List.getElem_mem hia)
    have hwb := hbw _ (List.getElem_mem hib)
    have hwx := hxw _ (List.getElem_mem hix)
    rw [ent_vadd _ _ _ (by
      simp only [shiftLeft_length, shiftRight_length, List.length_zipWith]; omega),
      ent_shiftLeft, ent_shiftRight, ent_zipWith_mul, ent_zipWith_mul, ent_zipWith_mul,
      ent_zipWith_mul]
    have hw2 : (List.zipWith (· * ·) (List.zipWith (· * ·) cr b[i]) x[i]).length = w := by
      simp only [List.length_zipWith]; omega
    rw [hw2]
    simp only [ent2_eq_ent, getD_eq_getElem_nil a i hia, getD_eq_getElem_nil b i hib,
      getD_eq_getElem_nil x i hix]
  · rw [ent2_of_length_le _ i l (by rw [dDlatWith_length cl cr a b x n ha hb hx]; exact hi),
      ent2_of_length_le x i (l + 1) (by omega), ent2_of_length_le x i (l - 1) (by omega)]
    split <;> ring

/-! ### the `l` axis -/

theorem lvals_getD (L pc j : Nat) : (lvals L pc).getD j 0 = if j < L then j else 0 := by
  unfold lvals
  simp only [List.getD_eq_getElem?_getD]
  by_cases hj : j < L
  · rw [List.getElem?_append_left (by simpa using hj), List.getElem?_range hj, if_pos hj]; rfl
  · rw [List.getElem?_append_right (by simpa using hj), if_neg hj, List.getElem?_replicate]
    split <;> rfl

theorem lvals_length' (L pc : Nat) : (lvals L pc).length = L + pc := by simp [lvals]

theorem ent_map_lvals (L pc : Nat) (f : Nat → K) (j : Nat) :
    ent ((lvals L pc).map f) j = if j < L + pc then f (if j < L then j else 0) else 0 := by
  unfold ent
  simp only [List.getD_eq_getElem?_getD, List.getElem?_map]
  by_cases hj : j < L + pc
  · have hj' : j < (lvals L pc).length := by rw [lvals_length']; exact hj
    rw [List.getElem?_eq_getElem hj', if_pos hj]
    have := lvals_getD L pc j
    rw [List.getD_eq_getElem?_getD, List.getElem?_eq_getElem hj'] at this
    simp only [Option.map_some, Option.getD_some] at this ⊢
    rw [this]
  · rw [List.getElem?_eq_none (by rw [lvals_length']; omega), if_neg hj]; rfl

/-! ### the weight tables -/

/-- `a[m, l]` before the override `a[:, 0] = 0` -/
def aVal (sqrt : K → K) (mk : Bool) (m l : Nat) : K :=
  sqrt (boolK mk * (((l : K) * (l : K)) - ((m : K) * (m : K)))
    / ((1 + 1) * (1 + 1) * ((l : K) * (l : K)) - 1))

/-- `b[m, l]` before the override `b[:, -1] = 0` -/
def bVal (sqrt : K → K) (mk : Bool) (m l : Nat) : K :=
  sqrt (boolK mk * ((((l : K) + 1) * ((l : K) + 1)) - ((m : K) * (m : K)))
    / ((1 + 1) * (1 + 1) * (((l : K) + 1) * ((l : K) + 1)) - 1))

omit [Field K] in
theorem getD_zipWith_rows {α β : Type} (F : α → β → List K) (ms : List α) (mask : List β) (n i : Nat)
    (hms : ms.length = n) (hmask : mask.length = n) (hi : i < n) (d1 : α) (d2 : β) :
    (List.zipWith F ms mask).getD i [] = F (ms.getD i d1) (mask.getD i d2) := by
  have h1 : i < ms.length := by omega
  have h2 : i < mask.length := by omega
  simp [List.getD_eq_getElem?_getD, List.getElem?_zipWith, List.getElem?_eq_getElem h1,
    List.getElem?_eq_getElem h2]

theorem ent_weight_row (ls : List Nat) (mrow : List Bool) (w : Nat) (hls : ls.length = w)
    (hm : mrow.length = w) (g : (Nat × Bool) × Nat → K) (j : Nat) :
    ent ((List.zipIdx (List.zip ls mrow)).map g) j
      = if j < w then g ((ls.getD j 0, mrow.getD j false), j) else 0 := by
  unfold ent
  simp only [List.getD_eq_getElem?_getD, List.getElem?_map, List.getElem?_zipIdx]
  by_cases hj : j < w
  · have h1 : j < ls.length := by omega
    have h2 : j < mrow.length := by omega
    have h3 : j < (List.zip ls mrow).length := by simp; omega
    rw [if_pos hj, List.getElem?_eq_getElem h3]
    simp [List.getElem?_eq_getElem h1, List.getElem?_eq_getElem h2]
  · have h3 : (List.zip ls mrow).length ≤ j := by simp; omega
    rw [if_neg hj, List.getElem?_eq_none h3]
    rfl

/-- entries of the table `a` of any layout -/
theorem ent2_recW_a (sqrt : K → K) (ms : List Int) (ls : List Nat) (mask : List (List Bool))
    (n w : Nat) (hms : ms.length = n) (hmask : mask.length = n) (hls : ls.length = w)
    (hmw : ∀ r ∈ mask, r.length = w) (i j : Nat) :
    ent2 (recurrenceWeights sqrt ms ls mask).1 i j
      = if i < n ∧ j < w then
          (if j = 0 then 0 else
            aVal sqrt ((mask.getD i []).getD j false) (ms.getD i 0).natAbs (ls.getD j 0))
        else 0 := by
  rcases Nat.lt_or_ge i n with hi | hi
  · have hrow : (mask.getD i []).length = w := by
      rw [getD_eq_getElem_nil mask i (by omega)]; exact hmw _ (List.getElem_mem _)
    rw [ent2_eq_ent]
    simp only [recurrenceWeights]
    rw [getD_zipWith_rows _ ms mask n i hms hmask hi 0 [], ent_weight_row ls _ w hls hrow]
    by_cases hj : j < w
    · rw [if_pos hj, if_pos (show i < n ∧ j < w from ⟨hi, hj⟩)]; rfl
    · rw [if_neg hj, if_neg (by omega)]
  · rw [ent2_of_length_le _ i j (by simp [recurrenceWeights, hms, hmask]; omega), if_neg (by omega)]

/-- entries of the table `b` of any layout: the override hits the last column *of the layout* -/
theorem ent2_recW_b (sqrt : K → K) (ms : List Int) (ls : List Nat) (mask : List (List Bool))
    (n w : Nat) (hms : ms.length = n) (hmask : mask.length = n) (hls : ls.length = w)
    (hmw : ∀ r ∈ mask, r.length = w) (i j : Nat) :
    ent2 (recurrenceWeights sqrt ms ls mask).2 i j
      = if i < n ∧ j < w then
          (if j + 1 = w then 0 else
            bVal sqrt ((mask.getD i []).getD j false) (ms.getD i 0).natAbs (ls.getD j 0))
        else 0 := by
  rcases Nat.lt_or_ge i n with hi | hi
  · have hrow : (mask.getD i []).length = w := by
      rw [getD_eq_getElem_nil mask i (by omega)]; exact hmw _ (List.getElem_mem _)
    rw [ent2_eq_ent]
    simp only [recurrenceWeights]
    rw [getD_zipWith_rows _ ms mask n i hms hmask hi 0 [], ent_weight_row ls _ w hls hrow]
    by_cases hj : j < w
    · rw [if_pos hj, if_pos (show i < n ∧ j < w from ⟨hi, hj⟩), hls]; rfl
    · rw [if_neg hj, if_neg (by omega)]
  · rw [ent2_of_length_le _ i j (by simp [recurrenceWeights, hms, hmask]; omega), if_neg (by omega)]

theorem recW_shape (sqrt : K → K) (ms : List Int) (ls : List Nat) (mask : List (List Bool))
    (n w : Nat) (hms : ms.length = n) (hmask : mask.length = n) (hls : ls.length = w)
    (hmw : ∀ r ∈ mask, r.length = w) :
    (recurrenceWeights sqrt ms ls mask).1.length = n ∧ (recurrenceWeights sqrt ms ls mask).2.length = n ∧
    (∀ r ∈ (recurrenceWeights sqrt ms ls mask).1, r.length = w) ∧
    (∀ r ∈ (recurrenceWeights sqrt ms ls mask).2, r.length = w) := by
  refine ⟨by simp [recurrenceWeights, hms, hmask], by simp [recurrenceWeights, hms, hmask], ?_, ?_⟩
  all_goals
    intro r hr
    simp only [recurrenceWeights] at hr
    rw [List.mem_iff_getElem] at hr
    obtain ⟨i, hi, rfl⟩ := hr
    simp only [List.length_zipWith] at hi
    simp only [List.getElem_zipWith, List.length_map, List.length_zipIdx, List.length_zip]
    have := hmw _ (List.getElem_mem (show i < mask.length by omega))
    omega

/-! ### the two layouts: axes, masks and weight tables -/

theorem realMvals_length (M : Nat) (hM : 1 ≤ M) : (realMvals M).length = 2 * M - 1 := by
  rw [realMvals_eq, List.length_cons, mTail_length]; omega

theorem fastMvals_length (M pr : Nat) (hM : 1 ≤ M) : (fastMvals M pr).length = 2 * M + pr := by
  rw [fastMvals_eq]
  simp only [List.length_append, List.length_cons, mTail_length, List.length_replicate]; omega

theorem realMask_length (M L : Nat) (hM : 1 ≤ M) : (realMask M L).length = 2 * M - 1 := by
  simp [realMask, realMvals_length M hM]

theorem realMask_rows (M L : Nat) : ∀ r ∈ realMask M L, r.length = L := by
  intro r hr
  simp only [realMask, List.mem_map] at hr
  obtain ⟨m, _, rfl⟩ := hr
  simp [lvals]

theorem fastMask_length (M L pr pc : Nat) (hM : 1 ≤ M) : (fastMask M L pr pc).length = 2 * M + pr := by
  simp [fastMask, fastMvals_length M pr hM]

theorem fastMask_rows (M L pr pc : Nat) : ∀ r ∈ fastMask M L pr pc, r.length = L + pc := by
  intro r hr
  simp only [fastMask, List.mem_map] at hr
  obtain ⟨m, _, rfl⟩ := hr
  simp [lvals]

/-- row `src r` of the fast layout carries the same `m` as row `r` of the real layout -/
theorem fastMvals_src (M pr r : Nat) : (fastMvals M pr).getD (src r) 0 = (realMvals M).getD r 0 := by
  rw [fastMvals_eq, realMvals_eq]
  cases r with
  | zero => simp [src]
  | succ k =>
    have : src (k + 1) = k + 2 := by simp [src]
    rw [this]
    simp only [List.cons_append, List.getD_eq_getElem?_getD, List.getElem?_cons_succ]
    rcases Nat.lt_or_ge k (mTail M).length with hk | hk
    · rw [List.getElem?_append_left hk]
    · rw [List.getElem?_append_right hk, List.getElem?_eq_none hk, List.getElem?_replicate]
      split <;> rfl

/-- `|m|` of row `r` of the real layout -/
def mAbs (M r : Nat) : Nat := ((realMvals M).getD r 0).natAbs

theorem realMask_getD (M L r j : Nat) (hM : 1 ≤ M) (hr : r < 2 * M - 1) (hj : j < L) :
    ((realMask M L).getD r []).getD j false = decide (mAbs M r ≤ j) := by
  have hr' : r < (realMvals M).length := by rw [realMvals_length M hM]; exact hr
  have hj' : j < (lvals L 0).length := by rw [lvals_length']; exact hj
  have hl := lvals_getD L 0 j
  rw [List.getD_eq_getElem?_getD, List.getElem?_eq_getElem hj', if_pos hj] at hl
  simp only [Option.getD_some] at hl
  simp only [realMask, mAbs, List.getD_eq_getElem?_getD, List.getElem?_map,
    List.getElem?_eq_getElem hr', List.getElem?_eq_getElem hj', Option.map_some, Option.getD_some, hl]

theorem fastMask_getD (M L pr pc i j : Nat) (hM : 1 ≤ M) (hi : i < 2 * M + pr) (hj : j < L + pc) :
    ((fastMask M L pr pc).getD i []).getD j false
      = (decide (((fastMvals M pr).getD i 0).natAbs ≤ (if j < L then j else 0)) && decide (i ≠ 1)
          && decide (i < 2 * M) && decide (j < L)) := by
  have hi' : i < (fastMvals M pr).length := by rw [fastMvals_length M pr hM]; exact hi
  have hj' : j < (lvals L pc).length := by rw [lvals_length']; exact hj
  have hl := lvals_getD L pc j
  rw [List.getD_eq_getElem?_getD, List.getElem?_eq_getElem hj'] at hl
  simp only [Option.getD_some] at hl
  simp only [fastMask, List.getD_eq_getElem?_getD, List.getElem?_map, List.getElem?_zipIdx,
    List.getElem?_eq_getElem hi', List.getElem?_eq_getElem hj', Option.map_some, Option.getD_some, hl,
    Nat.zero_add]

theorem realWeights_shape (sqrt : K → K) (M L : Nat) (hM : 1 ≤ M) :
    (realWeights sqrt M L).1.length = 2 * M - 1 ∧ (realWeights sqrt M L).2.length = 2 * M - 1 ∧
    (∀ r ∈ (realWeights sqrt M L).1, r.length = L) ∧ (∀ r ∈ (realWeights sqrt M L).2, r.length = L) := by
  have := recW_shape sqrt (realMvals M) (lvals L 0) (realMask M L) (2 * M - 1) L
    (realMvals_length M hM) (realMask_length M L hM) (lvals_length' L 0) (realMask_rows M L)
  exact this

theorem fastWeights_shape (sqrt : K → K) (M L pr pc : Nat) (hM : 1 ≤ M) :
    (fastWeights sqrt M L pr pc).1.length = 2 * M + pr ∧ (fastWeights sqrt M L pr pc).2.length = 2 * M + pr ∧
    (∀ r ∈ (fastWeights sqrt M L pr pc).1, r.length = L + pc) ∧
    (∀ r ∈ (fastWeights sqrt M L pr pc).2, r.length = L + pc) :=
  recW_shape sqrt (fastMvals M pr) (lvals L pc) (fastMask M L pr pc) (2 * M + pr) (L + pc)
    (fastMvals_length M pr hM) (fastMask_length M L pr pc hM) (lvals_length' L pc) (fastMask_rows M L pr pc)

/-- the table `a` of the real layout -/
theorem ent2_realWeights_a (sqrt : K → K) (M L : Nat) (hM : 1 ≤ M) (r j : Nat) :
    ent2 (realWeights sqrt M L).1 r j
      = if r < 2 * M - 1 ∧ j < L then
          (if j = 0 then 0 else aVal sqrt (decide (mAbs M r ≤ j)) (mAbs M r) j)
        else 0 := by
  unfold realWeights
  rw [ent2_recW_a sqrt _ _ _ (2 * M - 1) L (realMvals_length M hM) (realMask_length M L hM)
    (lvals_length' L 0) (realMask_rows M L)]
  by_cases h : r < 2 * M - 1 ∧ j < L
  · rw [if_pos h, if_pos h, realMask_getD M L r j hM h.1 h.2, lvals_getD, if_pos h.2]; rfl
  · rw [if_neg h, if_neg h]

/-- the table `b` of the real layout: the override zeroes column `L - 1` -/
theorem ent2_realWeights_b (sqrt : K → K) (M L : Nat) (hM : 1 ≤ M) (r j : Nat) :
    ent2 (realWeights sqrt M L).2 r j
      = if r < 2 * M - 1 ∧ j < L then
          (if j + 1 = L then 0 else bVal sqrt (decide (mAbs M r ≤ j)) (mAbs M r) j)
        else 0 := by
  unfold realWeights
  rw [ent2_recW_b sqrt _ _ _ (2 * M - 1) L (realMvals_length M hM) (realMask_length M L hM)
    (lvals_length' L 0) (realMask_rows M L)]
  by_cases h : r < 2 * M - 1 ∧ j < L
  · rw [if_pos h, if_pos h, realMask_getD M L r j hM h.1 h.2, lvals_getD, if_pos h.2]; rfl
  · rw [if_neg h, if_neg h]

/-- the mask value the fast layout uses at `(i, j)` -/
def fastMaskAt (M L pr : Nat) (i j : Nat) : Bool :=
  decide (((fastMvals M pr).getD i 0).natAbs ≤ (if j < L then j else 0)) && decide (i ≠ 1)
    && decide (i < 2 * M) && decide (j < L)

theorem ent2_fastWeights_a (sqrt : K → K) (M L pr pc : Nat) (hM : 1 ≤ M) (i j : Nat) :
    ent2 (fastWeights sqrt M L pr pc).1 i j
      = if i < 2 * M + pr ∧ j < L + pc then
          (if j = 0 then 0 else
            aVal sqrt (fastMaskAt M L pr i j) ((fastMvals M pr).getD i 0).natAbs (if j < L then j else 0))
        else 0 := by
  unfold fastWeights
  rw [ent2_recW_a sqrt _ _ _ (2 * M + pr) (L + pc) (fastMvals_length M pr hM)
    (fastMask_length M L pr pc hM) (lvals_length' L pc) (fastMask_rows M L pr pc)]
  by_cases h : i < 2 * M + pr ∧ j < L + pc
  · rw [if_pos h, if_pos h, fastMask_getD M L pr pc i j hM h.1 h.2, lvals_getD]; rfl
  · rw [if_neg h, if_neg h]

/-- the table `b` of the fast layout: the override zeroes column `L + pc - 1`, the last *padded*
 column — for `pc ≥ 1` column `L - 1` keeps its weight -/
theorem ent2_fastWeights_b (sqrt : K → K) (M L pr pc : Nat) (hM : 1 ≤ M) (i j : Nat) :
    ent2 (fastWeights sqrt M L pr pc).2 i j
      = if i < 2 * M + pr ∧ j < L + pc then
          (if j + 1 = L + pc then 0 else
            bVal sqrt (fastMaskAt M L pr i j) ((fastMvals M pr).getD i 0).natAbs (if j < L then j else 0))
        else 0 := by
  unfold fastWeights
  rw [ent2_recW_b sqrt _ _ _ (2 * M + pr) (L + pc) (fastMvals_length M pr hM)
    (fastMask_length M L pr pc hM) (lvals_length' L pc) (fastMask_rows M L pr pc)]
  by_cases h : i < 2 * M + pr ∧ j < L + pc
  · rw [if_pos h, if_pos h, fastMask_getD M L pr pc i j hM h.1 h.2, lvals_getD]; rfl
  · rw [if_neg h, if_neg h]

theorem src_lt_two_mul (M r : Nat) (hr : r < 2 * M - 1) : src r < 2 * M := by
  unfold src; split <;> omega

theorem fastMaskAt_src (M L pr r j : Nat) (hr : r < 2 * M - 1) (hj : j < L) :
    fastMaskAt M L pr (src r) j = decide (mAbs M r ≤ j) := by
  unfold fastMaskAt mAbs
  rw [fastMvals_src, if_pos hj]
  simp [src_ne_one r, src_lt_two_mul M r hr, hj]

/-- on the unpadded block the table `a` of the fast layout is the table of the real layout -/
theorem fastWeights_a_src (sqrt : K → K) (M L pr pc : Nat) (hM : 1 ≤ M) (r j : Nat)
    (hr : r < 2 * M - 1) (hj : j < L) :
    ent2 (fastWeights sqrt M L pr pc).1 (src r) j = ent2 (realWeights sqrt M L).1 r j := by
  have h1 : src r < 2 * M + pr ∧ j < L + pc := ⟨by have := src_lt_two_mul M r hr; omega, by omega⟩
  have h2 : r < 2 * M - 1 ∧ j < L := ⟨hr, hj⟩
  rw [ent2_fastWeights_a sqrt M L pr pc hM, ent2_realWeights_a sqrt M L hM, if_pos h1, if_pos h2,
    fastMaskAt_src M L pr r j hr hj, fastMvals_src, if_pos hj]
  rfl

/-- … and so is the table `b` on the columns `j + 1 < L` -/
theorem fastWeights_b_src (sqrt : K → K) (M L pr pc : Nat) (hM : 1 ≤ M) (r j : Nat)
    (hr : r < 2 * M - 1) (hj : j + 1 < L) :
    ent2 (fastWeights sqrt M L pr pc).2 (src r) j = ent2 (realWeights sqrt M L).2 r j := by
  have h1 : src r < 2 * M + pr ∧ j < L + pc := ⟨by have := src_lt_two_mul M r hr; omega, by omega⟩
  have h2 : r < 2 * M - 1 ∧ j < L := ⟨hr, by omega⟩
  have h3 : ¬ j + 1 = L + pc := by omega
  have h4 : ¬ j + 1 = L := by omega
  rw [ent2_fastWeights_b sqrt M L pr pc hM, ent2_realWeights_b sqrt M L hM, if_pos h1, if_pos h2,
    fastMaskAt_src M L pr r j hr (by omega), fastMvals_src, if_pos (show j < L by omega),
    if_neg h3, if_neg h4]
  rfl

/-- the weight that the override `b[:, -1] = 0` misses when the layout is padded: column `L - 1` of the
 fast table keeps `√((L² − m²)/(4L² − 1))` (masked), whereas the real table has `0` there -/
theorem fastWeights_b_top (sqrt : K → K) (M L pr pc : Nat) (hM : 1 ≤ M) (hL : 1 ≤ L) (hpc : 1 ≤ pc)
    (r : Nat) (hr : r < 2 * M - 1) :
    ent2 (fastWeights sqrt M L pr pc).2 (src r) (L - 1)
      = bVal sqrt (decide (mAbs M r ≤ L - 1)) (mAbs M r) (L - 1) ∧
    ent2 (realWeights sqrt M L).2 r (L - 1) = 0 := by
  constructor
  · have h1 : src r < 2 * M + pr ∧ L - 1 < L + pc := ⟨by have := src_lt_two_mul M r hr; omega, by omega⟩
    have h3 : ¬ L - 1 + 1 = L + pc := by omega
    rw [ent2_fastWeights_b sqrt M L pr pc hM, if_pos h1, if_neg h3,
      fastMaskAt_src M L pr r (L - 1) hr (by omega), fastMvals_src, if_pos (show L - 1 < L by omega)]
    rfl
  · have h2 : r < 2 * M - 1 ∧ L - 1 < L := ⟨hr, by omega⟩
    have h4 : L - 1 + 1 = L := by omega
    rw [ent2_realWeights_b sqrt M L hM, if_pos h2, if_pos h4]

theorem aVal_false (sqrt : K → K) (hs : sqrt 0 = 0) (m l : Nat) : aVal sqrt false m l = 0 := by
  simp [aVal, boolK, hs]

theorem bVal_false (sqrt : K → K) (hs : sqrt 0 = 0) (m l : Nat) : bVal sqrt false m l = 0 := by
  simp [bVal, boolK, hs]

theorem fastMaskAt_outside (M L pr i j : Nat) (h : i = 1 ∨ 2 * M ≤ i ∨ L ≤ j) :
    fastMaskAt M L pr i j = false := by
  unfold fastMaskAt
  rcases h with h | h | h
  · simp [h]
  · have : ¬ i < 2 * M := by omega
    simp [this]
  · have : ¬ j < L := by omega
    simp [this]

/-- with `√0 = 0` both fast tables vanish on row 1, on the padding rows and on the padding columns -/
theorem fastWeights_outside (sqrt : K → K) (hs : sqrt 0 = 0) (M L pr pc : Nat) (hM : 1 ≤ M) (i j : Nat)
    (h : i = 1 ∨ 2 * M ≤ i ∨ L ≤ j) :
    ent2 (fastWeights sqrt M L pr pc).1 i j = 0 ∧ ent2 (fastWeights sqrt M L pr pc).2 i j = 0 := by
  rw [ent2_fastWeights_a sqrt M L pr pc hM, ent2_fastWeights_b sqrt M L pr pc hM,
    fastMaskAt_outside M L pr i j h, aVal_false sqrt hs, bVal_false sqrt hs]
  simp

/-! ### the two latitude derivatives share one shape: `dDlatWith` with per-`l` factors `cl`, `cr` -/

/-- latitude derivative of the real layout with factors `cl l`, `cr l`
 (`cos_lat_d_dlat`: `l + 1`, `-l`; `sec_lat_d_dlat_cos2`: `l - 1`, `-(l + 2)`) -/
def realDD (cl cr : Nat → K) (sqrt : K → K) (M L : Nat) (x : List (List K)) : List (List K) :=
  dDlatWith ((lvals L 0).map cl) ((lvals L 0).map cr) (realWeights sqrt M L).1 (realWeights sqrt M L).2 x

/-- latitude derivative of the fast layout -/
def fastDD (cl cr : Nat → K) (sqrt : K → K) (M L pr pc : Nat) (x : List (List K)) : List (List K) :=
  dDlatWith ((lvals L pc).map cl) ((lvals L pc).map cr) (fastWeights sqrt M L pr pc).1
    (fastWeights sqrt M L pr pc).2 x

theorem realCosLatDDlat_eq (sqrt : K → K) (M L : Nat) (x : List (List K)) :
    realCosLatDDlat sqrt M L x = realDD (fun l => (l : K) + 1) (fun l => -(l : K)) sqrt M L x := rfl

theorem fastCosLatDDlat_eq (sqrt : K → K) (M L pr pc : Nat) (x : List (List K)) :
    fastCosLatDDlat sqrt M L pr pc x
      = fastDD (fun l => (l : K) + 1) (fun l => -(l : K)) sqrt M L pr pc x := rfl

theorem realSecLatDDlatCos2_eq (sqrt : K → K) (M L : Nat) (x : List (List K)) :
    realSecLatDDlatCos2 sqrt M L x
      = realDD (fun l => (l : K) - 1) (fun l => -((l : K) + (1 + 1))) sqrt M L x := rfl

theorem fastSecLatDDlatCos2_eq (sqrt : K → K) (M L pr pc : Nat) (x : List (List K)) :
    fastSecLatDDlatCos2 sqrt M L pr pc x
      = fastDD (fun l => (l : K) - 1) (fun l => -((l : K) + (1 + 1))) sqrt M L pr pc x := rfl

theorem realDD_shape (cl cr : Nat → K) (sqrt : K → K) (M L : Nat) (hM : 1 ≤ M) (x : List (List K))
    (hxl : x.length = 2 * M - 1) (hx : ∀ r ∈ x, r.length = L) :
    (realDD cl cr sqrt M L x).length = 2 * M - 1 ∧ ∀ r ∈ realDD cl cr sqrt M L x, r.length = L := by
  obtain ⟨h1, h2, h3, h4⟩ := realWeights_shape sqrt M L hM
  exact ⟨dDlatWith_length _ _ _ _ _ _ h1 h2 hxl,
    dDlatWith_rows _ _ _ _ _ L h3 h4 hx (by simp [lvals]) (by simp [lvals])⟩

theorem fastDD_shape (cl cr : Nat → K) (sqrt : K → K) (M L pr pc : Nat) (hM : 1 ≤ M) (y : List (List K))
    (hyl : y.length = 2 * M + pr) (hy : ∀ r ∈ y, r.length = L + pc) :
    (fastDD cl cr sqrt M L pr pc y).length = 2 * M + pr ∧
    ∀ r ∈ fastDD cl cr sqrt M L pr pc y, r.length = L + pc := by
  obtain ⟨h1, h2, h3, h4⟩ := fastWeights_shape sqrt M L pr pc hM
  exact ⟨dDlatWith_length _ _ _ _ _ _ h1 h2 hyl,
    dDlatWith_rows _ _ _ _ _ (L + pc) h3 h4 hy (by simp [lvals]) (by simp [lvals])⟩

/-- entries of the real-layout derivative -/
theorem ent2_realDD (cl cr : Nat → K) (sqrt : K → K) (M L : Nat) (hM : 1 ≤ M) (x : List (List K))
    (hxl : x.length = 2 * M - 1) (hx : ∀ r ∈ x, r.length = L) (r l : Nat) :
    ent2 (realDD cl cr sqrt M L x) r l
      = (if l + 1 < L then cl (l + 1) else 0) * ent2 (realWeights sqrt M L).1 r (l + 1) * ent2 x r (l + 1)
        + (if 1 ≤ l ∧ l < L then cr (l - 1) * ent2 (realWeights sqrt M L).2 r (l - 1) * ent2 x r (l - 1)
           else 0) := by
  obtain ⟨h1, h2, h3, h4⟩ := realWeights_shape sqrt M L hM
  unfold realDD
  rw [ent2_dDlatWith _ _ _ _ _ (2 * M - 1) L h1 h2 hxl h3 h4 hx (by simp [lvals]) (by simp [lvals]),
    ent_map_lvals, ent_map_lvals]
  congr 1
  · by_cases h : l + 1 < L
    · rw [if_pos (by omega), if_pos h, if_pos h]
    · rw [if_neg (by omega), if_neg h]
  · by_cases h : 1 ≤ l ∧ l < L
    · rw [if_pos h, if_pos h, if_pos (by omega), if_pos (by omega)]
    · rw [if_neg h, if_neg h]

/-- entries of the fast-layout derivative of any array of the fast shape -/
theorem ent2_fastDD (cl cr : Nat → K) (sqrt : K → K) (M L pr pc : Nat) (hM : 1 ≤ M) (y : List (List K))
    (hyl : y.length = 2 * M + pr) (hy : ∀ r ∈ y, r.length = L + pc) (i l : Nat) :
    ent2 (fastDD cl cr sqrt M L pr pc y) i l
      = (if l + 1 < L + pc then cl (if l + 1 < L then l + 1 else 0) else 0)
          * ent2 (fastWeights sqrt M L pr pc).1 i (l + 1) * ent2 y i (l + 1)
        + (if 1 ≤ l ∧ l < L + pc then
            cr (if l - 1 < L then l - 1 else 0) * ent2 (fastWeights sqrt M L pr pc).2 i (l - 1)
              * ent2 y i (l - 1)
           else 0) := by
  obtain ⟨h1, h2, h3, h4⟩ := fastWeights_shape sqrt M L pr pc hM
  unfold fastDD
  rw [ent2_dDlatWith _ _ _ _ _ (2 * M + pr) (L + pc) h1 h2 hyl h3 h4 hy (by simp [lvals]) (by simp [lvals]),
    ent_map_lvals, ent_map_lvals]
  congr 1
  by_cases h : 1 ≤ l ∧ l < L + pc
  · rw [if_pos h, if_pos h, if_pos (by omega)]
  · rw [if_neg h, if_neg h]

theorem exists_src' (r : Nat) (h : r ≠ 1) : ∃ r0, r = src r0 := by
  refine ⟨if r = 0 then 0 else r - 1, ?_⟩
  unfold src
  split
  · rename_i h0; simp [h0]
  · rename_i h0
    have : r - 1 ≠ 0 := by omega
    simp [this]; omega

/-- **the fast latitude derivative of `ι x`, entry by entry**: it is `ι` of the real derivative
 everywhere except in the first padding column `l = L` (present when `pc ≥ 1`), where it holds
 `cr(L-1) · b_fast[i][L-1] · x[i][L-1]` — the term that `b[:, -1] = 0` removes in the real layout and
 fails to remove in the padded layout -/
theorem ent2_fastDD_iota (cl cr : Nat → K) (sqrt : K → K) (M L pr pc : Nat) (hM : 1 ≤ M)
    (x : List (List K)) (hxl : x.length = 2 * M - 1) (hx : ∀ r ∈ x, r.length = L) (i l : Nat) :
    ent2 (fastDD cl cr sqrt M L pr pc (iota L pr pc x)) i l
      = if l = L ∧ 1 ≤ L ∧ 1 ≤ pc then
          cr (L - 1) * ent2 (fastWeights sqrt M L pr pc).2 i (L - 1) * ent2 (iota L pr pc x) i (L - 1)
        else ent2 (iota L pr pc (realDD cl cr sqrt M L x)) i l := by
  have hne : x ≠ [] := by intro h; rw [h] at hxl; simp at hxl; omega
  have hyl : (iota L pr pc x).length = 2 * M + pr := by rw [iota_length _ _ _ _ hne, hxl]; omega
  rw [ent2_fastDD cl cr sqrt M L pr pc hM _ hyl (iota_rows L pr pc x hx)]
  by_cases h1 : i = 1
  · subst h1
    simp only [ent2_iota_one, mul_zero, ite_self, add_zero]
  obtain ⟨r, rfl⟩ := exists_src' i h1
  simp only [ent2_iota_src]
  rw [ent2_realDD cl cr sqrt M L hM x hxl hx]
  have hX : ∀ c, L ≤ c → ent2 x r c = 0 := fun c hc =>
    ent2_of_width_le x L r c (fun r hr => le_of_eq (hx r hr)) hc
  by_cases hr : r < 2 * M - 1
  swap
  · have hz : ∀ c, ent2 x r c = 0 := fun c => ent2_of_length_le x r c (by omega)
    simp only [hz, mul_zero, ite_self, add_zero]
  rcases Nat.lt_trichotomy l L with hl | hl | hl
  · -- inside the block
    have e0 : ¬ (l = L ∧ 1 ≤ L ∧ 1 ≤ pc) := by omega
    rw [if_neg e0]
    congr 1
    · by_cases h2 : l + 1 < L
      · have e1 : l + 1 < L + pc := by omega
        rw [if_pos e1, if_pos h2, if_pos h2, fastWeights_a_src sqrt M L pr pc hM r (l + 1) hr h2]
      · rw [hX (l + 1) (by omega)]; ring
    · by_cases h3 : 1 ≤ l
      · have e2 : 1 ≤ l ∧ l < L + pc := ⟨h3, by omega⟩
        have e3 : 1 ≤ l ∧ l < L := ⟨h3, hl⟩
        have e4 : l - 1 < L := by omega
        rw [if_pos e2, if_pos e3, if_pos e4, fastWeights_b_src sqrt M L pr pc hM r (l - 1) hr (by omega)]
      · have e2 : ¬ (1 ≤ l ∧ l < L + pc) := by omega
        have e3 : ¬ (1 ≤ l ∧ l < L) := by omega
        rw [if_neg e2, if_neg e3]
  · -- the first padding column
    have e3 : ¬ (1 ≤ l ∧ l < L) := by omega
    rw [hX (l + 1) (by omega), if_neg e3]
    by_cases hp : 1 ≤ L ∧ 1 ≤ pc
    · have e0 : l = L ∧ 1 ≤ L ∧ 1 ≤ pc := ⟨hl, hp⟩
      have e2 : 1 ≤ l ∧ l < L + pc := by omega
      have e4 : l - 1 < L := by omega
      rw [if_pos e0, if_pos e2, if_pos e4, hl]; ring
    · have e0 : ¬ (l = L ∧ 1 ≤ L ∧ 1 ≤ pc) := by omega
      have e2 : ¬ (1 ≤ l ∧ l < L + pc) := by omega
      rw [if_neg e0, if_neg e2]; ring
  · -- beyond it
    have e0 : ¬ (l = L ∧ 1 ≤ L ∧ 1 ≤ pc) := by omega
    have e3 : ¬ (1 ≤ l ∧ l < L) := by omega
    rw [if_neg e0, if_neg e3, hX (l + 1) (by omega), hX (l - 1) (by omega)]
    simp

/-- **block locality of the fast latitude derivative** (needs `√0 = 0`): for *any* array `y` of the
 fast shape — whatever it holds in row 1, in the padding rows and in the padding columns — the
 unpadded block of the fast derivative is the real derivative of the unpadded block of `y`.
 In particular a value left in padding column `L` by a previous derivative never reaches a resolved
 coefficient: the weight `a_fast[i][L]` that would bring it back is masked to `√0`. -/
theorem fastDD_block (cl cr : Nat → K) (sqrt : K → K) (hs : sqrt 0 = 0) (M L pr pc : Nat) (hM : 1 ≤ M)
    (y : List (List K)) (hyl : y.length = 2 * M + pr) (hy : ∀ r ∈ y, r.length = L + pc) :
    unIota (2 * M) L (fastDD cl cr sqrt M L pr pc y) = realDD cl cr sqrt M L (unIota (2 * M) L y) := by
  have hUl : (unIota (2 * M) L y).length = 2 * M - 1 := unIota_length _ _ _ (by omega) (by omega)
  have hUr : ∀ r ∈ unIota (2 * M) L y, r.length = L :=
    unIota_rows _ _ _ (fun r hr => by rw [hy r hr]; omega)
  obtain ⟨hFl, hFr⟩ := fastDD_shape cl cr sqrt M L pr pc hM y hyl hy
  obtain ⟨hRl, hRr⟩ := realDD_shape cl cr sqrt M L hM _ hUl hUr
  apply ext_ent2 _ _ L
  · rw [unIota_length _ _ _ (by omega) (by omega), hRl]
  · exact unIota_rows _ _ _ (fun r hr => by rw [hFr r hr]; omega)
  · exact hRr
  intro r l
  rw [ent2_unIota]
  by_cases hin : l < L ∧ src r < 2 * M
  swap
  · rw [if_neg hin]
    by_cases hl : l < L
    · have : ¬ src r < 2 * M := fun h => hin ⟨hl, h⟩
      rw [ent2_of_length_le _ r l (by rw [hRl]; unfold src at this; split at this <;> omega)]
    · rw [ent2_of_width_le _ L r l (fun r hr => le_of_eq (hRr r hr)) (by omega)]
  obtain ⟨hl, hsr⟩ := hin
  have hr : r < 2 * M - 1 := by unfold src at hsr; split at hsr <;> omega
  rw [if_pos ⟨hl, hsr⟩, ent2_fastDD cl cr sqrt M L pr pc hM y hyl hy,
    ent2_realDD cl cr sqrt M L hM _ hUl hUr]
  congr 1
  · by_cases h2 : l + 1 < L
    · have e1 : l + 1 < L + pc := by omega
      rw [if_pos e1, if_pos h2, if_pos h2, fastWeights_a_src sqrt M L pr pc hM r (l + 1) hr h2,
        ent2_unIota, if_pos ⟨h2, hsr⟩]
    · rw [(fastWeights_outside sqrt hs M L pr pc hM (src r) (l + 1) (Or.inr (Or.inr (by omega)))).1]
      simp only [h2, if_false]
      ring
  · by_cases h3 : 1 ≤ l
    · have e2 : 1 ≤ l ∧ l < L + pc := ⟨h3, by omega⟩
      have e3 : 1 ≤ l ∧ l < L := ⟨h3, hl⟩
      have e4 : l - 1 < L := by omega
      rw [if_pos e2, if_pos e3, if_pos e4, fastWeights_b_src sqrt M L pr pc hM r (l - 1) hr (by omega),
        ent2_unIota, if_pos ⟨e4, hsr⟩]
    · have e2 : ¬ (1 ≤ l ∧ l < L + pc) := by omega
      have e3 : ¬ (1 ≤ l ∧ l < L) := by omega
      rw [if_neg e2, if_neg e3]

/-! ### entrywise matrix helpers -/

theorem ent2_divAll (x : List (List K)) (r : K) (i j : Nat) : ent2 (divAll x r) i j = ent2 x i j / r := by
  unfold divAll ent2
  simp only [List.getD_eq_getElem?_getD, List.getElem?_map]
  cases x[i]? with
  | none => simp
  | some row =>
    simp only [Option.map_some, Option.getD_some, List.getElem?_map]
    cases row[j]? <;> simp

theorem divAll_length (x : List (List K)) (r : K) : (divAll x r).length = x.length := by simp [divAll]

theorem divAll_rows (x : List (List K)) (r : K) (w : Nat) (hx : ∀ row ∈ x, row.length = w) :
    ∀ row ∈ divAll x r, row.length = w := by
  intro row hrow
  simp only [divAll, List.mem_map] at hrow
  obtain ⟨a, ha, rfl⟩ := hrow
  simp [hx a ha]

theorem ent2_mneg (x : List (List K)) (i j : Nat) : ent2 (mneg x) i j = -ent2 x i j := by
  unfold mneg ent2
  simp only [List.getD_eq_getElem?_getD, List.getElem?_map]
  cases x[i]? with
  | none => simp
  | some row =>
    simp only [Option.map_some, Option.getD_some, List.getElem?_map]
    cases row[j]? <;> simp

theorem ent2_madd (a b : List (List K)) (w : Nat) (hl : a.length = b.length)
    (ha : ∀ r ∈ a, r.length = w) (hb : ∀ r ∈ b, r.length = w) (i j : Nat) :
    ent2 (madd a b) i j = ent2 a i j + ent2 b i j :=
  ent2_zipWith_vadd a b w hl ha hb i j

theorem madd_length (a b : List (List K)) (hl : a.length = b.length) : (madd a b).length = a.length := by
  simp [madd, hl]

theorem madd_rows (a b : List (List K)) (w : Nat) (ha : ∀ r ∈ a, r.length = w)
    (hb : ∀ r ∈ b, r.length = w) : ∀ r ∈ madd a b, r.length = w :=
  zipWith_vadd_rows a b w ha hb

theorem ent_zipWith_sub' (a b : List K) (i : Nat) (h : a.length = b.length) :
    ent (List.zipWith (· - ·) a b) i = ent a i - ent b i := by
  induction a generalizing b i with
  | nil => cases b <;> simp_all
  | cons x t ih =>
    cases b with
    | nil => simp at h
    | cons y u =>
      cases i with
      | zero => simp
      | succ k => simpa using ih u k (by simpa using h)

theorem ent2_msub (a b : List (List K)) (w : Nat) (hl : a.length = b.length)
    (ha : ∀ r ∈ a, r.length = w) (hb : ∀ r ∈ b, r.length = w) (i j : Nat) :
    ent2 (msub a b) i j = ent2 a i j - ent2 b i j := by
  unfold msub ent2
  simp only [List.getD_eq_getElem?_getD, List.getElem?_zipWith]
  rcases Nat.lt_or_ge i a.length with hi | hi
  · have hi' : i < b.length := by omega
    rw [List.getElem?_eq_getElem hi, List.getElem?_eq_getElem hi']
    simp only [Option.getD_some]
    have := ent_zipWith_sub' a[i] b[i] j (by rw [ha _ (List.getElem_mem hi), hb _ (List.getElem_mem hi')])
    simpa [ent] using this
  · have hi' : b.length ≤ i := by omega
    simp [List.getElem?_eq_none hi, List.getElem?_eq_none hi']

theorem msub_length (a b : List (List K)) (hl : a.length = b.length) : (msub a b).length = a.length := by
  simp [msub, hl]

theorem msub_rows (a b : List (List K)) (w : Nat) (ha : ∀ r ∈ a, r.length = w)
    (hb : ∀ r ∈ b, r.length = w) : ∀ r ∈ msub a b, r.length = w := by
  intro r hr
  unfold msub at hr
  rw [List.mem_iff_getElem] at hr
  obtain ⟨i, hi, rfl⟩ := hr
  simp only [List.length_zipWith] at hi
  simp only [List.getElem_zipWith, List.length_zipWith]
  rw [ha _ (List.getElem_mem _), hb _ (List.getElem_mem _)]; simp

theorem ent_clipMask' (width nz j : Nat) :
    ent (clipMask width nz : List K) j = if j < width - nz then 1 else 0 := by
  unfold clipMask ent
  simp only [List.getD_eq_getElem?_getD, List.getElem?_map]
  rcases Nat.lt_or_ge j width with hj | hj
  · rw [List.getElem?_range hj]; rfl
  · rw [List.getElem?_eq_none (by simpa using hj)]
    simp; omega

/-- `clip_wavenumbers(x)` (`n = 1`) keeps the columns `l < L - 1` and zeroes the rest, in either layout -/
theorem ent2_clip1 (L pc : Nat) (x : List (List K)) (i j : Nat) :
    ent2 (clip1 L pc x) i j = if j + 1 < L then ent2 x i j else 0 := by
  unfold clip1
  rw [ent2_mulLast, ent_clipMask']
  have : L + pc - (1 + pc) = L - 1 := by omega
  rw [this]
  by_cases h : j + 1 < L
  · rw [if_pos (by omega), if_pos h]; ring
  · rw [if_neg (by omega), if_neg h]; ring

theorem clip1_length (L pc : Nat) (x : List (List K)) : (clip1 L pc x).length = x.length := by
  simp [clip1, mulLast]

theorem clip1_rows (L pc : Nat) (x : List (List K)) (hx : ∀ r ∈ x, r.length = L + pc) :
    ∀ r ∈ clip1 L pc x, r.length = L + pc :=
  mulLast_rows _ _ _ hx (by simp [clipMask])

/-! ### shapes and "equal except in column `c`" -/

/-- an array of the fast modal shape -/
def FastShaped (M L pr pc : Nat) (A : List (List K)) : Prop :=
  A.length = 2 * M + pr ∧ ∀ r ∈ A, r.length = L + pc

/-- an array of the real modal shape -/
def RealShaped (M L : Nat) (A : List (List K)) : Prop :=
  A.length = 2 * M - 1 ∧ ∀ r ∈ A, r.length = L

/-- `A` and `B` have the same entries outside column `c` -/
def EqOff (c : Nat) (A B : List (List K)) : Prop := ∀ i l, l ≠ c → ent2 A i l = ent2 B i l

theorem iota_fastShaped (M L pr pc : Nat) (hM : 1 ≤ M) (x : List (List K)) (hx : RealShaped M L x) :
    FastShaped M L pr pc (iota L pr pc x) := by
  have hne : x ≠ [] := by intro h; have := hx.1; rw [h] at this; simp at this; omega
  exact ⟨by rw [iota_length _ _ _ _ hne, hx.1]; omega, iota_rows L pr pc x hx.2⟩

theorem eq_of_shaped (M L pr pc : Nat) (A B : List (List K)) (hA : FastShaped M L pr pc A)
    (hB : FastShaped M L pr pc B) (h : ∀ i l, ent2 A i l = ent2 B i l) : A = B :=
  ext_ent2 A B (L + pc) (by rw [hA.1, hB.1]) hA.2 hB.2 h

theorem realDD_realShaped (cl cr : Nat → K) (sqrt : K → K) (M L : Nat) (hM : 1 ≤ M) (x : List (List K))
    (hx : RealShaped M L x) : RealShaped M L (realDD cl cr sqrt M L x) :=
  realDD_shape cl cr sqrt M L hM x hx.1 hx.2

theorem fastDD_fastShaped (cl cr : Nat → K) (sqrt : K → K) (M L pr pc : Nat) (hM : 1 ≤ M)
    (y : List (List K)) (hy : FastShaped M L pr pc y) : FastShaped M L pr pc (fastDD cl cr sqrt M L pr pc y) :=
  fastDD_shape cl cr sqrt M L pr pc hM y hy.1 hy.2

theorem divAll_fastShaped (M L pr pc : Nat) (A : List (List K)) (r : K) (hA : FastShaped M L pr pc A) :
    FastShaped M L pr pc (divAll A r) :=
  ⟨by rw [divAll_length, hA.1], divAll_rows A r _ hA.2⟩

theorem divAll_realShaped (M L : Nat) (A : List (List K)) (r : K) (hA : RealShaped M L A) :
    RealShaped M L (divAll A r) :=
  ⟨by rw [divAll_length, hA.1], divAll_rows A r _ hA.2⟩

theorem madd_fastShaped (M L pr pc : Nat) (A B : List (List K)) (hA : FastShaped M L pr pc A)
    (hB : FastShaped M L pr pc B) : FastShaped M L pr pc (madd A B) :=
  ⟨by rw [madd_length A B (by rw [hA.1, hB.1]), hA.1], madd_rows A B _ hA.2 hB.2⟩

theorem madd_realShaped (M L : Nat) (A B : List (List K)) (hA : RealShaped M L A)
    (hB : RealShaped M L B) : RealShaped M L (madd A B) :=
  ⟨by rw [madd_length A B (by rw [hA.1, hB.1]), hA.1], madd_rows A B _ hA.2 hB.2⟩

theorem msub_fastShaped (M L pr pc : Nat) (A B : List (List K)) (hA : FastShaped M L pr pc A)
    (hB : FastShaped M L pr pc B) : FastShaped M L pr pc (msub A B) :=
  ⟨by rw [msub_length A B (by rw [hA.1, hB.1]), hA.1], msub_rows A B _ hA.2 hB.2⟩

theorem msub_realShaped (M L : Nat) (A B : List (List K)) (hA : RealShaped M L A)
    (hB : RealShaped M L B) : RealShaped M L (msub A B) :=
  ⟨by rw [msub_length A B (by rw [hA.1, hB.1]), hA.1], msub_rows A B _ hA.2 hB.2⟩

theorem clip1_fastShaped (M L pr pc : Nat) (A : List (List K)) (hA : FastShaped M L pr pc A) :
    FastShaped M L pr pc (clip1 L pc A) :=
  ⟨by rw [clip1_length, hA.1], clip1_rows L pc A hA.2⟩

theorem clip1_realShaped (M L : Nat) (A : List (List K)) (hA : RealShaped M L A) :
    RealShaped M L (clip1 L 0 A) :=
  ⟨by rw [clip1_length, hA.1], clip1_rows L 0 A hA.2⟩

theorem mneg_realShaped (M L : Nat) (A : List (List K)) (hA : RealShaped M L A) :
    RealShaped M L (mneg A) := by
  refine ⟨by simp [mneg, hA.1], ?_⟩
  intro row hrow
  simp only [mneg, List.mem_map] at hrow
  obtain ⟨a, ha, rfl⟩ := hrow
  simp [hA.2 a ha]

theorem mneg_fastShaped (M L pr pc : Nat) (A : List (List K)) (hA : FastShaped M L pr pc A) :
    FastShaped M L pr pc (mneg A) := by
  refine ⟨by simp [mneg, hA.1], ?_⟩
  intro row hrow
  simp only [mneg, List.mem_map] at hrow
  obtain ⟨a, ha, rfl⟩ := hrow
  simp [hA.2 a ha]

theorem realDerivative_realShaped (M L : Nat) (x : List (List K)) (hx : RealShaped M L x) :
    RealShaped M L (Fourier.realDerivative x L) :=
  ⟨by simp [Fourier.realDerivative, hx.1], (derivative_rows x L hx.2).1⟩

theorem zeroImagDerivative_fastShaped (M L pr pc : Nat) (y : List (List K)) (hy : FastShaped M L pr pc y) :
    FastShaped M L pr pc (Fourier.zeroImagDerivative y (L + pc) 0) :=
  ⟨by simp [Fourier.zeroImagDerivative, hy.1], (derivative_rows y (L + pc) hy.2).2 0⟩

/-- `ι` commutes with every entrywise map that fixes `0` -/
theorem divAll_iota (M L pr pc : Nat) (hM : 1 ≤ M) (x : List (List K)) (r : K) (hx : RealShaped M L x) :
    divAll (iota L pr pc x) r = iota L pr pc (divAll x r) := by
  apply eq_of_shaped M L pr pc _ _ (divAll_fastShaped M L pr pc _ r (iota_fastShaped M L pr pc hM x hx))
    (iota_fastShaped M L pr pc hM _ (divAll_realShaped M L x r hx))
  intro i l
  rw [ent2_divAll, ent2_iota, ent2_iota]
  split
  · simp
  · rw [ent2_divAll]

theorem mneg_iota (M L pr pc : Nat) (hM : 1 ≤ M) (x : List (List K)) (hx : RealShaped M L x) :
    mneg (iota L pr pc x) = iota L pr pc (mneg x) := by
  apply eq_of_shaped M L pr pc _ _ (mneg_fastShaped M L pr pc _ (iota_fastShaped M L pr pc hM x hx))
    (iota_fastShaped M L pr pc hM _ (mneg_realShaped M L x hx))
  intro i l
  rw [ent2_mneg, ent2_iota, ent2_iota]
  split
  · simp
  · rw [ent2_mneg]

theorem madd_iota (M L pr pc : Nat) (hM : 1 ≤ M) (a b : List (List K)) (ha : RealShaped M L a)
    (hb : RealShaped M L b) : madd (iota L pr pc a) (iota L pr pc b) = iota L pr pc (madd a b) := by
  have hA := iota_fastShaped M L pr pc hM a ha
  have hB := iota_fastShaped M L pr pc hM b hb
  apply eq_of_shaped M L pr pc _ _ (madd_fastShaped M L pr pc _ _ hA hB)
    (iota_fastShaped M L pr pc hM _ (madd_realShaped M L a b ha hb))
  intro i l
  rw [ent2_madd _ _ (L + pc) (by rw [hA.1, hB.1]) hA.2 hB.2, ent2_iota, ent2_iota, ent2_iota]
  split
  · simp
  · rw [ent2_madd _ _ L (by rw [ha.1, hb.1]) ha.2 hb.2]

theorem msub_iota (M L pr pc : Nat) (hM : 1 ≤ M) (a b : List (List K)) (ha : RealShaped M L a)
    (hb : RealShaped M L b) : msub (iota L pr pc a) (iota L pr pc b) = iota L pr pc (msub a b) := by
  have hA := iota_fastShaped M L pr pc hM a ha
  have hB := iota_fastShaped M L pr pc hM b hb
  apply eq_of_shaped M L pr pc _ _ (msub_fastShaped M L pr pc _ _ hA hB)
    (iota_fastShaped M L pr pc hM _ (msub_realShaped M L a b ha hb))
  intro i l
  rw [ent2_msub _ _ (L + pc) (by rw [hA.1, hB.1]) hA.2 hB.2, ent2_iota, ent2_iota, ent2_iota]
  split
  · simp
  · rw [ent2_msub _ _ L (by rw [ha.1, hb.1]) ha.2 hb.2]

theorem clip1_iota (M L pr pc : Nat) (hM : 1 ≤ M) (x : List (List K)) (hx : RealShaped M L x) :
    clip1 L pc (iota L pr pc x) = iota L pr pc (clip1 L 0 x) := by
  apply eq_of_shaped M L pr pc _ _ (clip1_fastShaped M L pr pc _ (iota_fastShaped M L pr pc hM x hx))
    (iota_fastShaped M L pr pc hM _ (clip1_realShaped M L x hx))
  intro i l
  rw [ent2_clip1, ent2_iota, ent2_iota, ent2_clip1]
  split <;> split <;> rfl

/-! `EqOff` is preserved by the entrywise operations, and erased by clipping / `unIota` -/

theorem EqOff.divAll {c : Nat} {A B : List (List K)} (h : EqOff c A B) (r : K) :
    EqOff c (divAll A r) (divAll B r) := by
  intro i l hl; rw [ent2_divAll, ent2_divAll, h i l hl]

theorem EqOff.madd_left {c : Nat} {A B : List (List K)} (h : EqOff c A B) (D : List (List K)) (w : Nat)
    (hl : D.length = A.length) (hl' : D.length = B.length) (hD : ∀ r ∈ D, r.length = w)
    (hA : ∀ r ∈ A, r.length = w) (hB : ∀ r ∈ B, r.length = w) : EqOff c (madd D A) (madd D B) := by
  intro i l hl2
  rw [ent2_madd D A w hl hD hA, ent2_madd D B w hl' hD hB, h i l hl2]

theorem EqOff.msub_left {c : Nat} {A B : List (List K)} (h : EqOff c A B) (D : List (List K)) (w : Nat)
    (hl : D.length = A.length) (hl' : D.length = B.length) (hD : ∀ r ∈ D, r.length = w)
    (hA : ∀ r ∈ A, r.length = w) (hB : ∀ r ∈ B, r.length = w) : EqOff c (msub D A) (msub D B) := by
  intro i l hl2
  rw [ent2_msub D A w hl hD hA, ent2_msub D B w hl' hD hB, h i l hl2]

/-- clipping erases a difference confined to column `L` -/
theorem clip1_congr (M L pr pc : Nat) (A B : List (List K)) (hA : FastShaped M L pr pc A)
    (hB : FastShaped M L pr pc B) (h : EqOff L A B) : clip1 L pc A = clip1 L pc B := by
  apply eq_of_shaped M L pr pc _ _ (clip1_fastShaped M L pr pc A hA) (clip1_fastShaped M L pr pc B hB)
  intro i l
  rw [ent2_clip1, ent2_clip1]
  split
  · exact h i l (by omega)
  · rfl

/-- so does the restriction to the unpadded block -/
theorem unIota_congr (M L pr pc : Nat) (hM : 1 ≤ M) (A B : List (List K)) (hA : FastShaped M L pr pc A)
    (hB : FastShaped M L pr pc B) (h : EqOff L A B) : unIota (2 * M) L A = unIota (2 * M) L B := by
  apply ext_ent2 _ _ L
  · rw [unIota_length _ _ _ (by omega) (by rw [hA.1]; omega),
      unIota_length _ _ _ (by omega) (by rw [hB.1]; omega)]
  · exact unIota_rows _ _ _ (fun r hr => by rw [hA.2 r hr]; omega)
  · exact unIota_rows _ _ _ (fun r hr => by rw [hB.2 r hr]; omega)
  intro r l
  rw [ent2_unIota, ent2_unIota]
  split
  · rename_i hc; exact h _ l (by omega)
  · rfl

/-- a multiplier along `l` that vanishes at column `L` erases it as well -/
theorem mulLast_congr (M L pr pc : Nat) (A B : List (List K)) (v : List K) (hA : FastShaped M L pr pc A)
    (hB : FastShaped M L pr pc B) (hv : v.length = L + pc) (hvL : ent v L = 0) (h : EqOff L A B) :
    mulLast A v = mulLast B v := by
  apply eq_of_shaped M L pr pc _ _ ⟨by rw [mulLast_length, hA.1], mulLast_rows _ _ _ hA.2 hv⟩
    ⟨by rw [mulLast_length, hB.1], mulLast_rows _ _ _ hB.2 hv⟩
  intro i l
  rw [ent2_mulLast, ent2_mulLast]
  by_cases hl : l = L
  · rw [hl, hvL]; ring
  · rw [h i l hl]

end Dino.SHEquiv
