import DinoProofs.Lemmas.SymmetryRot
import DinoProofs.Lemmas.SymmetryOps

/-!
# Lemmas for C10, part 11: rotation by `k` grid steps, `RealSphericalHarmonics` layout, list form
-/
namespace Dino.Symmetry
open Finset Dino.Lin Dino.SH Dino.SHEquiv Dino.Fourier

set_option linter.unusedSectionVars false

variable {K : Type} [Field K] {cs sn : ℕ → K} {N : ℕ}

/-- shape of `RealSphericalHarmonics.basis` -/
theorem realBasis_shaped (s2p sp : K) (M J L : ℕ) (P : List (List (List K))) (w : List K)
    (hP : P.length = M) (hPj : ∀ pm ∈ P, pm.length = J) (hPl : ∀ pm ∈ P, ∀ pj ∈ pm, pj.length = L)
    (hw : w.length = J) :
    Shaped (realBasisOf (realBasis cs sn s2p sp M N) P w) N (2 * M - 1) J L :=
  realBasisOf_shaped _ P w M N J L (realBasis_length cs sn s2p sp M N).1 hP hPj hPl hw

/-- **T10.2 (synthesis, real layout)** `inverse_transform (rotate_k x) = roll k (inverse_transform x)` -/
theorem synth_rot_real (tt : TrigTable cs sn N) (hN : 0 < N) (s2p sp : K) (M J L k : ℕ) (hM : 1 ≤ M)
    (P : List (List (List K))) (w : List K)
    (hP : P.length = M) (hPj : ∀ pm ∈ P, pm.length = J) (hPl : ∀ pm ∈ P, ∀ pj ∈ pm, pj.length = L)
    (hw : w.length = J) (x : List (List K)) (hxl : x.length = 2 * M - 1) (hx : ∀ row ∈ x, row.length = L) :
    realSynth (realBasisOf (realBasis cs sn s2p sp M N) P w) J (rotReal cs sn N k x)
      = roll k (realSynth (realBasisOf (realBasis cs sn s2p sp M N) P w) J x) := by
  have hodd : x.length % 2 = 1 := by omega
  apply synth_rot_eq_roll (realBasis_shaped s2p sp M J L P w hP hPj hPl hw)
    (rotData_real (k := k) (s2p := s2p) (sp := sp) (M := M) tt hN hM P w) x _ (fun row h => le_of_eq (hx row h))
    (fun row h => le_of_eq (rotReal_rows cs sn N k x L hx hodd row h))
  intro r hr l
  exact ent2_rotReal cs sn N k x L hx hodd r l (by omega)

/-- **T10.2 (analysis, real layout)** `transform (roll k z) = rotate_k (transform z)` -/
theorem analysis_rot_real (tt : TrigTable cs sn N) (hN : 0 < N) (s2p sp : K) (M J L k : ℕ) (hM : 1 ≤ M)
    (P : List (List (List K))) (w : List K)
    (hP : P.length = M) (hPj : ∀ pm ∈ P, pm.length = J) (hPl : ∀ pm ∈ P, ∀ pj ∈ pm, pj.length = L)
    (hw : w.length = J) (z : List (List K)) (hzl : z.length = N) (hz : ∀ zi ∈ z, zi.length = J) :
    realAnalysis (realBasisOf (realBasis cs sn s2p sp M N) P w) (2 * M - 1) J L (roll k z)
      = rotReal cs sn N k (realAnalysis (realBasisOf (realBasis cs sn s2p sp M N) P w) (2 * M - 1) J L z) := by
  have hb := realBasis_shaped (cs := cs) (sn := sn) (N := N) s2p sp M J L P w hP hPj hPl hw
  have hyl := realAnalysis_length _ N (2 * M - 1) J L hb z
  have hyr := realAnalysis_rows _ N (2 * M - 1) J L hb (2 * M - 1) z
  have hodd : (realAnalysis (realBasisOf (realBasis cs sn s2p sp M N) P w) (2 * M - 1) J L z).length % 2 = 1 := by
    rw [hyl]; omega
  apply analysis_roll_eq_rot hb (rotData_real (k := k) (s2p := s2p) (sp := sp) (M := M) tt hN hM P w) z hz hzl
  · rw [rotReal_length, hyl]
  · exact rotReal_rows cs sn N k _ L hyr hodd
  · intro r hr l
    exact ent2_rotReal cs sn N k _ L hyr hodd r l (by rw [hyl]; exact hr)

/-- **T10.2 (`d_dlon`, real layout)** `real_basis_derivative` commutes with the rotation -/
theorem dDlon_rot_real (k L : ℕ) (x : List (List K))
    (hodd : x.length % 2 = 1) (hx : ∀ row ∈ x, row.length = L) :
    realDerivative (rotReal cs sn N k x) L = rotReal cs sn N k (realDerivative x L) := by
  have hdl : (realDerivative x L).length = x.length := by simp [realDerivative]
  have hdr := (derivative_rows x L hx).1
  have hrr := rotReal_rows cs sn N k x L hx hodd
  apply ext_ent2 _ _ L
  · rw [rotReal_length, hdl]; simp [realDerivative, rotReal_length]
  · exact (derivative_rows _ L hrr).1
  · exact rotReal_rows cs sn N k _ L hdr (by rw [hdl]; exact hodd)
  · intro r l
    rcases Nat.lt_or_ge r x.length with hr | hr
    · rw [ent2_rotReal cs sn N k _ L hdr (by rw [hdl]; exact hodd) r l (by rw [hdl]; exact hr),
        ent2_realDerivative, rotReal_length, if_pos hr]
      rcases row_cases r with rfl | ⟨m, rfl⟩ | ⟨m, rfl⟩
      · rw [realRow_zero, ent2_realDerivative, if_pos hr]; simp
      · have h1 : (2 * m + 1 + 1) / 2 = m + 1 := by omega
        have h2 : (2 * m + 1) % 2 = 1 := by omega
        have h1' : (2 * m + 2 + 1) / 2 = m + 1 := by omega
        have h2' : ¬ (2 * m + 2) % 2 = 1 := by omega
        have h3' : 2 * m + 2 - 1 = 2 * m + 1 := by omega
        have h0' : ¬ (2 * m + 2 = 0) := by omega
        have hr2 : 2 * m + 2 < x.length := by omega
        rw [if_pos h2, h1, ent2_rotReal cs sn N k x L hx hodd (2 * m + 1 + 1) l hr2, realRow_odd,
          ent2_realDerivative, ent2_realDerivative, if_pos hr, if_pos hr2, if_pos h2, if_neg h2', if_neg h0',
          h1, h1', h3']
        have e : 2 * m + 1 + 1 = 2 * m + 2 := rfl
        rw [e, realRow_even]
        ring
      · have h1 : (2 * m + 1 + 1) / 2 = m + 1 := by omega
        have h2 : (2 * m + 1) % 2 = 1 := by omega
        have h1' : (2 * m + 2 + 1) / 2 = m + 1 := by omega
        have h2' : ¬ (2 * m + 2) % 2 = 1 := by omega
        have h3' : 2 * m + 2 - 1 = 2 * m + 1 := by omega
        have h0' : ¬ (2 * m + 2 = 0) := by omega
        have hr1 : 2 * m + 1 < x.length := by omega
        rw [if_neg h2', if_neg h0', h1', h3', ent2_rotReal cs sn N k x L hx hodd (2 * m + 1) l hr1,
          realRow_even, ent2_realDerivative, ent2_realDerivative, if_pos hr, if_pos hr1, if_pos h2, if_neg h2',
          if_neg h0', h1, h1', h3', realRow_odd]
        ring
    · rw [ent2_of_length_le _ r l (by simp [realDerivative, rotReal_length]; exact hr),
        ent2_of_length_le _ r l (by rw [rotReal_length, hdl]; exact hr)]

/-- **T10.2 (operators acting on `l` only, real layout)** `laplacian`, `inverse_laplacian`,
 `clip_wavenumbers`, the filters: multiplication by a function of `l` commutes with the rotation -/
theorem lMul_rot_real (k L : ℕ) (c : List K) (hc : c.length = L) (x : List (List K))
    (hodd : x.length % 2 = 1) (hx : ∀ row ∈ x, row.length = L) :
    lMul c (rotReal cs sn N k x) = rotReal cs sn N k (lMul c x) := by
  have hml := lMul_length c x
  have hmr := lMul_rows c x L hx hc
  apply ext_ent2 _ _ L
  · rw [lMul_length, rotReal_length, rotReal_length, hml]
  · exact lMul_rows c _ L (rotReal_rows cs sn N k x L hx hodd) hc
  · exact rotReal_rows cs sn N k _ L hmr (by rw [hml]; exact hodd)
  · intro r l
    rcases Nat.lt_or_ge r x.length with hr | hr
    · rw [ent2_lMul, ent2_rotReal cs sn N k x L hx hodd r l hr,
        ent2_rotReal cs sn N k _ L hmr (by rw [hml]; exact hodd) r l (by rw [hml]; exact hr)]
      simp only [ent2_lMul]
      rw [RowMap.app_mul_right]
    · rw [ent2_of_length_le _ r l (by rw [lMul_length, rotReal_length]; exact hr),
        ent2_of_length_le _ r l (by rw [rotReal_length, hml]; exact hr)]

/-- **T10.2 (latitude derivatives, real layout)** the stencil of `cos_lat_d_dlat` /
 `sec_lat_d_dlat_cos2` commutes with the rotation when both rows of a `(cos, sin)` pair carry the
 same recurrence weights (they depend on `|m|` and `l` only) -/
theorem twoTerm_rot_real (k L : ℕ) (ca cb : ℕ → K) (a b : List (List K))
    (ha : ∀ m, a.getD (2 * m + 2) [] = a.getD (2 * m + 1) [])
    (hb : ∀ m, b.getD (2 * m + 2) [] = b.getD (2 * m + 1) [])
    (x : List (List K)) (hodd : x.length % 2 = 1) (hx : ∀ row ∈ x, row.length = L) :
    twoTerm ca cb a b (rotReal cs sn N k x) = rotReal cs sn N k (twoTerm ca cb a b x) := by
  have htl := twoTerm_length ca cb a b x
  have htr := twoTerm_rows ca cb a b x L hx
  have hrr := rotReal_rows cs sn N k x L hx hodd
  have hpair : ∀ (w : List (List K)), (∀ m, w.getD (2 * m + 2) [] = w.getD (2 * m + 1) []) →
      ∀ r l, ent2 w ((realRow cs sn N k).nb r) l = ent2 w r l := by
    intro w hw r l
    rcases row_cases r with rfl | ⟨m, rfl⟩ | ⟨m, rfl⟩
    · simp [realRow]
    · have h2 : (2 * m + 1) % 2 = 1 := by omega
      simp only [realRow, Nat.add_eq_zero_iff, one_ne_zero, and_false, if_false, h2, if_true]
      simp only [ent2, hw m]
    · have h2' : ¬ (2 * m + 2) % 2 = 1 := by omega
      have h3' : 2 * m + 2 - 1 = 2 * m + 1 := by omega
      have h0' : ¬ (2 * m + 2 = 0) := by omega
      simp only [realRow, h0', if_false, h2', h3']
      simp only [ent2, hw m]
  apply ext_ent2 _ _ L
  · rw [twoTerm_length, rotReal_length, rotReal_length, htl]
  · exact twoTerm_rows ca cb a b _ L hrr
  · exact rotReal_rows cs sn N k _ L htr (by rw [htl]; exact hodd)
  · intro r l
    rcases Nat.lt_or_ge r x.length with hr | hr
    · rw [ent2_twoTerm ca cb a b _ L hrr r l (by rw [rotReal_length]; exact hr),
        ent2_rotReal cs sn N k _ L htr (by rw [htl]; exact hodd) r l (by rw [htl]; exact hr)]
      have e1 : ∀ q, q < x.length → ∀ l', ent2 (twoTerm ca cb a b x) q l'
          = twoTermEnt ca cb (ent2 a) (ent2 b) (ent2 x) L q l' :=
        fun q hq l' => ent2_twoTerm ca cb a b x L hx q l' hq
      have hnb : (realRow cs sn N k).nb r < x.length := by
        simp only [realRow]
        split
        · omega
        · split <;> omega
      simp only [RowMap.app]
      rw [e1 r hr l, e1 _ hnb l]
      have := twoTermEnt_app (realRow cs sn N k) ca cb (ent2 a) (ent2 b) (ent2 x) L r l
        (hpair a ha r) (hpair b hb r)
      simp only [RowMap.app] at this
      rw [← this]
      -- the rotated field, entrywise
      unfold twoTermEnt
      have e2 : ∀ l', ent2 (rotReal cs sn N k x) r l'
          = (realRow cs sn N k).α r * ent2 x r l'
            + (realRow cs sn N k).β r * ent2 x ((realRow cs sn N k).nb r) l' :=
        fun l' => ent2_rotReal cs sn N k x L hx hodd r l' hr
      simp only [e2]
    · rw [ent2_of_length_le _ r l (by rw [twoTerm_length, rotReal_length]; exact hr),
        ent2_of_length_le _ r l (by rw [rotReal_length, htl]; exact hr)]

end Dino.Symmetry
