import Dino.Dynamics
import DinoProofs.Lemmas.Implicit
import Mathlib.Algebra.Module.Basic
import Mathlib.Algebra.Module.LinearMap.Defs
import Mathlib.Algebra.Algebra.Basic
import Mathlib.Algebra.BigOperators.Group.Finset.Basic
import Mathlib.Algebra.BigOperators.GroupWithZero.Action
import Mathlib.Tactic.Module
import Mathlib.Tactic.Ring
import Mathlib.Tactic.FieldSimp
import Mathlib.Tactic.LinearCombination

/-!
# Lemmas about `Dino.Dynamics`

1. level-wise reading `lv x i` of a column and closed forms of the column routines;
2. the column identity behind C04 (T4.1): `H·D = κ·T⊙gp(D) − adv(σ̇(D), T)` in any `K`-module;
3. the named laws of the horizontal operations (`Laws`, `MoistLaws`), as `Prop` structures.
-/
namespace Dino.Dynamics
open Dino Dino.Sigma

/-! ## reading a column level by level -/
section lv
variable {V : Type} [Zero V]

/-- the value at level `i`, zero outside the column -/
def lv (x : List V) (i : ℕ) : V := x.getD i 0

theorem lv_def (x : List V) (i : ℕ) : lv x i = x[i]?.getD 0 := by
  simp [lv, List.getD_eq_getElem?_getD]

theorem getElem?_eq_lv {x : List V} {i : ℕ} (h : i < x.length) : x[i]? = some (lv x i) := by
  simp [lv_def, List.getElem?_eq_getElem h]

theorem lv_of_ge {x : List V} {i : ℕ} (h : x.length ≤ i) : lv x i = 0 := by
  simp [lv_def, List.getElem?_eq_none h]

theorem ext_lv {x y : List V} {n : ℕ} (hx : x.length = n) (hy : y.length = n)
    (h : ∀ i, i < n → lv x i = lv y i) : x = y := by
  apply List.ext_getElem?
  intro i
  by_cases hi : i < n
  · rw [getElem?_eq_lv (by omega), getElem?_eq_lv (by omega), h i hi]
  · rw [List.getElem?_eq_none (by omega), List.getElem?_eq_none (by omega)]

@[simp] theorem lv_nil (i : ℕ) : lv ([] : List V) i = 0 := by simp [lv]
@[simp] theorem lv_cons_zero (a : V) (x : List V) : lv (a :: x) 0 = a := by simp [lv]
@[simp] theorem lv_cons_succ (a : V) (x : List V) (i : ℕ) : lv (a :: x) (i + 1) = lv x i := by
  simp [lv]

theorem lv_append_zero (x : List V) (i : ℕ) : lv (x ++ [0]) i = lv x i := by
  rw [lv_def, lv_def, List.getElem?_append]
  by_cases h : i < x.length
  · simp [h]
  · rw [if_neg h, List.getElem?_eq_none (show x.length ≤ i by omega)]
    by_cases h0 : i - x.length = 0
    · simp [h0]
    · rw [List.getElem?_eq_none (by simp; omega)]

theorem lv_tail (x : List V) (i : ℕ) : lv x.tail i = lv x (i + 1) := by
  simp [lv_def]

theorem lv_dropLast (x : List V) (i : ℕ) :
    lv x.dropLast i = if i + 1 < x.length then lv x i else 0 := by
  rw [lv_def, List.getElem?_dropLast]
  by_cases h : i + 1 < x.length
  · rw [if_pos (by omega), if_pos h, lv_def]
  · rw [if_neg (by omega), if_neg h]; rfl

theorem lv_map {W : Type} [Zero W] (f : V → W) (x : List V) {i : ℕ} (h : i < x.length) :
    lv (x.map f) i = f (lv x i) := by
  simp [lv_def, List.getElem?_eq_getElem h]

theorem lv_map_zero {W : Type} [Zero W] (f : V → W) (hf : f 0 = 0) (x : List V) (i : ℕ) :
    lv (x.map f) i = f (lv x i) := by
  by_cases h : i < x.length
  · exact lv_map f x h
  · rw [lv_of_ge (by simpa using h), lv_of_ge (by omega), hf]

theorem lv_zipWith {A B : Type} [Zero A] [Zero B] (f : A → B → V) (a : List A) (b : List B)
    {i : ℕ} (ha : i < a.length) (hb : i < b.length) :
    lv (List.zipWith f a b) i = f (lv a i) (lv b i) := by
  rw [lv_def, List.getElem?_zipWith, getElem?_eq_lv ha, getElem?_eq_lv hb]; rfl

theorem lv_zipWith_zero {A B : Type} [Zero A] [Zero B] (f : A → B → V)
    (hl : ∀ b, f 0 b = 0) (hr : ∀ a, f a 0 = 0) (a : List A) (b : List B) (i : ℕ) :
    lv (List.zipWith f a b) i = f (lv a i) (lv b i) := by
  by_cases ha : i < a.length
  · by_cases hb : i < b.length
    · exact lv_zipWith f a b ha hb
    · rw [lv_of_ge (by simp; omega), lv_of_ge (x := b) (by omega), hr]
  · rw [lv_of_ge (by simp; omega), lv_of_ge (x := a) (by omega), hl]

theorem lv_range_map (f : ℕ → V) (n : ℕ) {i : ℕ} (h : i < n) :
    lv ((List.range n).map f) i = f i := by
  simp [lv_def, h]

end lv

/-! ## sums -/
section sums
variable {K V : Type} [Field K] [AddCommGroup V] [Module K V]

theorem sum_take_eq (x : List V) (k : ℕ) :
    (x.take k).sum = ∑ s ∈ Finset.range k, lv x s := by
  induction x generalizing k with
  | nil => simp
  | cons a t ih =>
    cases k with
    | zero => simp
    | succ k =>
      rw [List.take_succ_cons, List.sum_cons, ih, Finset.sum_range_succ']
      simp [add_comm]

theorem sum_eq_range (x : List V) : x.sum = ∑ s ∈ Finset.range x.length, lv x s := by
  rw [← sum_take_eq, List.take_length]

theorem lv_wmul (w : List K) (x : List V) (i : ℕ) : lv (Col.wmul w x) i = lv w i • lv x i := by
  unfold Col.wmul
  exact lv_zipWith_zero _ (fun b => zero_smul K b) (fun a => smul_zero a) w x i

theorem lv_add (x y : List V) (h : x.length = y.length) (i : ℕ) :
    lv (Col.add x y) i = lv x i + lv y i := by
  unfold Col.add
  by_cases hx : i < x.length
  · exact lv_zipWith _ x y hx (by omega)
  · rw [lv_of_ge (by simp; omega), lv_of_ge (x := x) (by omega), lv_of_ge (x := y) (by omega), add_zero]

theorem lv_sub (x y : List V) (h : x.length = y.length) (i : ℕ) :
    lv (Col.sub x y) i = lv x i - lv y i := by
  unfold Col.sub
  by_cases hx : i < x.length
  · exact lv_zipWith _ x y hx (by omega)
  · rw [lv_of_ge (by simp; omega), lv_of_ge (x := x) (by omega), lv_of_ge (x := y) (by omega), sub_zero]

theorem lv_neg (x : List V) (i : ℕ) : lv (Col.neg x) i = -lv x i := by
  unfold Col.neg
  exact lv_map_zero _ neg_zero x i

theorem lv_smul (c : K) (x : List V) (i : ℕ) : lv (Col.smul c x) i = c • lv x i := by
  unfold Col.smul
  exact lv_map_zero _ (smul_zero c) x i

end sums

/-! ## closed forms of the column routines -/
section closed
variable {K V : Type} [Field K] [AddCommGroup V] [Module K V]

theorem cumsumFrom_getElem? (acc : V) (x : List V) (j : ℕ) :
    (Col.cumsumFrom acc x)[j]? = if j < x.length then some (acc + (x.take (j + 1)).sum) else none := by
  induction x generalizing acc j with
  | nil => simp [Col.cumsumFrom]
  | cons a t ih =>
    cases j with
    | zero => simp [Col.cumsumFrom]
    | succ j =>
      rw [Col.cumsumFrom, List.getElem?_cons_succ, ih]
      simp [add_assoc]

@[simp] theorem cumsum_length (x : List V) : (Col.cumsum x).length = x.length := by
  unfold Col.cumsum
  generalize (0 : V) = acc
  induction x generalizing acc with
  | nil => rfl
  | cons a t ih => simp [Col.cumsumFrom, ih]

theorem lv_cumsum (x : List V) (i : ℕ) :
    lv (Col.cumsum x) i = if i < x.length then ∑ s ∈ Finset.range (i + 1), lv x s else 0 := by
  rw [lv_def, Col.cumsum, cumsumFrom_getElem?]
  by_cases h : i < x.length
  · rw [if_pos h, if_pos h, Option.getD_some, zero_add, sum_take_eq]
  · simp [h]

/-- scalar cumulative sum of `Dino.Sigma` -/
theorem lv_sigma_cumsum (x : List K) (i : ℕ) :
    lv (Sigma.cumsum x) i = if i < x.length then (x.take (i + 1)).sum else 0 := by
  rw [lv_def, Sigma.cumsum, Sigma.cumsumFrom_getElem?]
  by_cases h : i < x.length
  · simp [h]
  · simp [h]

@[simp] theorem wmul_length (w : List K) (x : List V) :
    (Col.wmul w x).length = min w.length x.length := by simp [Col.wmul]

/-- `F_i = Σ_{s ≤ i} Δσ_s • x_s` -/
def cumF (ds : List K) (x : List V) (i : ℕ) : V := ∑ s ∈ Finset.range (i + 1), lv ds s • lv x s

theorem lv_cumSigmaIntegral (ds : List K) (x : List V) (n : ℕ) (hds : ds.length = n) (hx : x.length = n)
    (i : ℕ) : lv (Col.cumSigmaIntegral ds x) i = if i < n then cumF ds x i else 0 := by
  rw [Col.cumSigmaIntegral, lv_cumsum, wmul_length, hds, hx, Nat.min_self]
  simp only [lv_wmul, cumF]

@[simp] theorem cumSigmaIntegral_length (ds : List K) (x : List V) :
    (Col.cumSigmaIntegral ds x).length = min ds.length x.length := by
  simp [Col.cumSigmaIntegral]

theorem lv_getLastD (x : List V) : x.getLastD 0 = lv x (x.length - 1) := by
  rw [List.getLastD_eq_getLast?, List.getLast?_eq_getElem?, lv_def]

/-- `σ̇` on the internal boundaries: `S_i • F_last − F_i` -/
theorem lv_sigmaDotOf (ds : List K) (f : List V) (n : ℕ) (hds : ds.length = n) (hf : f.length = n)
    (i : ℕ) :
    lv (sigmaDotOf ds f) i
      = if i + 1 < n then (ds.take (i + 1)).sum • lv f (n - 1) - lv f i else 0 := by
  unfold sigmaDotOf
  rw [lv_dropLast]
  have hl : (List.zipWith (fun (s : K) (fi : V) => s • f.getLastD 0 - fi) (Sigma.cumsum ds) f).length = n := by
    simp [Sigma.cumsum, hds, hf]
  rw [hl]
  by_cases h : i + 1 < n
  · rw [if_pos h, if_pos h, lv_zipWith _ _ _ (by simp [Sigma.cumsum, hds]; omega) (by omega),
      lv_sigma_cumsum, if_pos (by omega), lv_getLastD, hf]
  · rw [if_neg h, if_neg h]

theorem sigmaDotOf_length (ds : List K) (f : List V) (n : ℕ) (hds : ds.length = n) (hf : f.length = n) :
    (sigmaDotOf ds f).length = n - 1 := by
  simp [sigmaDotOf, Sigma.cumsum, hds, hf]

theorem col_diffs_getElem? (x : List V) (i : ℕ) :
    (Col.diffs x)[i]? = if i + 1 < x.length then some (lv x (i + 1) - lv x i) else none := by
  induction x generalizing i with
  | nil => simp [Col.diffs]
  | cons a t ih =>
    cases t with
    | nil => simp [Col.diffs]
    | cons c u =>
      cases i with
      | zero => simp [Col.diffs]
      | succ i =>
        rw [Col.diffs, List.getElem?_cons_succ, ih]
        simp

@[simp] theorem col_diffs_length (x : List V) : (Col.diffs x).length = x.length - 1 := by
  induction x with
  | nil => rfl
  | cons a t ih =>
    cases t with
    | nil => rfl
    | cons c u => simp [Col.diffs, ih]

theorem lv_col_diffs (x : List V) (i : ℕ) :
    lv (Col.diffs x) i = if i + 1 < x.length then lv x (i + 1) - lv x i else 0 := by
  rw [lv_def, col_diffs_getElem?]
  by_cases h : i + 1 < x.length <;> simp [h]

theorem lv_centeredDifference (ctc : List K) (x : List V) (n : ℕ) (hc : ctc.length = n - 1)
    (hx : x.length = n) (i : ℕ) :
    lv (Col.centeredDifference ctc x) i
      = if i + 1 < n then (1 / lv ctc i) • (lv x (i + 1) - lv x i) else 0 := by
  unfold Col.centeredDifference
  by_cases h : i + 1 < n
  · rw [if_pos h, lv_zipWith _ _ _ (by simp [hx]; omega) (by omega), lv_col_diffs, if_pos (by omega)]
  · rw [if_neg h, lv_of_ge (by simp [hx, hc]; omega)]

@[simp] theorem centeredDifference_length (ctc : List K) (x : List V) :
    (Col.centeredDifference ctc x).length = min (x.length - 1) ctc.length := by
  simp [Col.centeredDifference]

end closed

/-! ## T4.1: the column identity `H·D = κ·T⊙gp(D) − adv(σ̇(D), T)` -/
section t41
variable {K V : Type} [Field K] [AddCommGroup V] [Module K V]

/-- centred advection of a per-layer scalar profile `T` by a velocity column `w` with values in a
 module (what `_vertical_tendency(σ̇, T_ref)` computes) -/
def advScalar (ctc : List K) (w : List V) (T : List K) : List V :=
  let wp := (0 : V) :: (w ++ [0])
  let xd := (0 : K) :: (Col.centeredDifference ctc T ++ [0])
  let f := List.zipWith (fun (wi : V) (di : K) => di • wi) wp xd
  List.zipWith (fun hi lo => (-(1 / (1 + 1)) : K) • (hi + lo)) f.tail f

/-- the `g_part` of `_t_omega_over_sigma_sp`:
 `(α·F + shift(α·F)) / Δσ` with `F = cumulative_sigma_integral(g)` -/
def gPart (ds al : List K) (g : List V) : List V :=
  let alphaF := Col.wmul al (Col.cumSigmaIntegral ds g)
  List.zipWith (fun (d : K) (x : V) => (1 / d) • x) ds (Col.add alphaF ((0 : V) :: alphaF).dropLast)

theorem gPart_length (ds al : List K) (g : List V) (n : ℕ) (hds : ds.length = n) (hal : al.length = n)
    (hg : g.length = n) : (gPart ds al g).length = n := by
  simp [gPart, Col.add, hds, hal, hg]

theorem lv_gPart (ds al : List K) (g : List V) (n : ℕ) (hds : ds.length = n) (hal : al.length = n)
    (hg : g.length = n) (i : ℕ) (hi : i < n) :
    lv (gPart ds al g) i
      = (1 / lv ds i) • (lv al i • cumF ds g i + lv ((0 : V) :: Col.wmul al (Col.cumSigmaIntegral ds g)) i) := by
  unfold gPart
  have hl : (Col.wmul al (Col.cumSigmaIntegral ds g)).length = n := by simp [hds, hal, hg]
  rw [lv_zipWith _ _ _ (by omega) (by simp [Col.add, hl]; omega), lv_add _ _ (by simp [hl]),
    lv_wmul, lv_cumSigmaIntegral ds g n hds hg, if_pos hi, lv_dropLast, if_pos (by simp [hl]; omega)]

theorem lv_advScalar (ctc : List K) (w : List V) (T : List K) (n : ℕ) (hc : ctc.length = n - 1)
    (hw : w.length = n - 1) (hT : T.length = n) (i : ℕ) (hi : i < n) :
    lv (advScalar ctc w T) i
      = (-(1 / (1 + 1)) : K) • (lv (Col.centeredDifference ctc T) i • lv w i
          + lv ((0 : K) :: Col.centeredDifference ctc T) i • lv ((0 : V) :: w) i) := by
  unfold advScalar
  have hcd : (Col.centeredDifference ctc T).length = n - 1 := by simp [hc, hT]
  simp only []
  rw [lv_zipWith _ _ _ (by simp [hw, hcd]; omega) (by simp [hw, hcd]; omega), lv_tail]
  rw [lv_zipWith_zero _ (fun b => by simp) (fun a => by simp),
    lv_zipWith_zero _ (fun b => by simp) (fun a => by simp)]
  simp only [lv_cons_succ, lv_append_zero]
  congr 2
  · cases i with
    | zero => simp
    | succ i => simp [lv_append_zero]


theorem sum_tril (y : ℕ → V) (r n : ℕ) (h : r < n) :
    ∑ s ∈ Finset.range n, (Implicit.tril r s : K) • y s = ∑ s ∈ Finset.range (r + 1), y s := by
  obtain ⟨k, rfl⟩ : ∃ k, n = r + 1 + k := ⟨n - (r + 1), by omega⟩
  induction k with
  | zero =>
    apply Finset.sum_congr rfl
    intro s hs
    have : s ≤ r := by simp at hs; omega
    simp [Implicit.tril, this]
  | succ k ih =>
    rw [← add_assoc, Finset.sum_range_succ, ih (by omega)]
    have : ¬ (r + 1 + k ≤ r) := by omega
    simp [Implicit.tril, this]

theorem lv_matvec_hMatrix (ds al T : List K) (κ : K) (D : List V) (n : ℕ)
    (hds : ds.length = n) (hD : D.length = n) (r : ℕ) (hr : r < n) :
    lv (Col.matvec (Implicit.hMatrix ds T al κ) D) r
      = ∑ s ∈ Finset.range n, Implicit.hEntry ds T al κ r s • lv D s := by
  unfold Col.matvec Implicit.hMatrix
  rw [lv_def, List.getElem?_map, List.getElem?_map, List.getElem?_range (by omega : r < ds.length)]
  simp only [Option.map_some, Option.getD_some]
  rw [sum_eq_range]
  rw [wmul_length, List.length_map, List.length_range, hds, hD, Nat.min_self]
  apply Finset.sum_congr rfl
  intro s hs
  rw [lv_wmul, lv_range_map _ _ (by simpa using hs)]

theorem sum_hrow (ds : List K) (D : List V) (n r r' : ℕ) (hn : 0 < n) (hr : r < n) (hr' : r' < n)
    (A B C E Sr Sr' : K) :
    ∑ s ∈ Finset.range n, ((A * Implicit.tril r s + B * Implicit.tril r' s
        - C * (Implicit.tril r s - Sr) - E * (Implicit.tril r' s - Sr')) * lv ds s) • lv D s
      = A • cumF ds D r + B • cumF ds D r' - C • (cumF ds D r - Sr • cumF ds D (n - 1))
          - E • (cumF ds D r' - Sr' • cumF ds D (n - 1)) := by
  have key : ∀ s, ((A * Implicit.tril r s + B * Implicit.tril r' s
        - C * (Implicit.tril r s - Sr) - E * (Implicit.tril r' s - Sr')) * lv ds s) • lv D s
      = A • ((Implicit.tril r s : K) • (lv ds s • lv D s)) + B • ((Implicit.tril r' s : K) • (lv ds s • lv D s))
        - C • ((Implicit.tril r s : K) • (lv ds s • lv D s) - Sr • (lv ds s • lv D s))
        - E • ((Implicit.tril r' s : K) • (lv ds s • lv D s) - Sr' • (lv ds s • lv D s)) := by
    intro s; module
  simp only [key, Finset.sum_sub_distrib, Finset.sum_add_distrib, ← Finset.smul_sum,
    sum_tril (K := K) _ r n hr, sum_tril (K := K) _ r' n hr']
  have hn1 : n - 1 + 1 = n := by omega
  simp only [cumF, hn1]

theorem hK0_half (ds ctc T : List K) (n : ℕ) (hds : ds.length = n) (hT : T.length = n)
    (hctc : ctc.length = n - 1)
    (hc : ∀ i, i + 1 < n → lv ctc i = (lv ds (i + 1) + lv ds i) / (1 + 1))
    (h2 : (1 + 1 : K) ≠ 0) (r : ℕ) :
    Implicit.hK0 ds T r = (1 / (1 + 1)) * lv (Col.centeredDifference ctc T) r := by
  rw [lv_centeredDifference ctc T n hctc hT, Implicit.hK0, hds]
  by_cases h : r + 1 < n
  · rw [if_pos h, if_pos h, hc r h]
    show (lv T (r + 1) - lv T r) / (lv ds r + lv ds (r + 1)) = _
    by_cases h0 : lv ds (r + 1) + lv ds r = 0
    · have : lv ds r + lv ds (r + 1) = 0 := by rw [add_comm]; exact h0
      simp [h0, this]
    · have : lv ds r + lv ds (r + 1) ≠ 0 := by rw [add_comm]; exact h0
      simp only [smul_eq_mul]
      field_simp
      ring
  · rw [if_neg h, if_neg h, mul_zero]

theorem half_smul_two (h2 : (1 + 1 : K) ≠ 0) (a b : K) (X Y : V) :
    (-(1 / (1 + 1)) : K) • (((1 + 1) * a) • X + ((1 + 1) * b) • Y) = -(a • X + b • Y) := by
  have e1 : (-(1 / (1 + 1)) : K) * ((1 + 1) * a) = -a := by field_simp
  have e2 : (-(1 / (1 + 1)) : K) * ((1 + 1) * b) = -b := by field_simp
  rw [smul_add, smul_smul, smul_smul, e1, e2]
  module

theorem hMatrix_matvec (ds al ctc T : List K) (κ : K) (D : List V) (n : ℕ)
    (hds : ds.length = n) (hal : al.length = n) (hT : T.length = n) (hD : D.length = n)
    (hctc : ctc.length = n - 1)
    (hc : ∀ i, i + 1 < n → lv ctc i = (lv ds (i + 1) + lv ds i) / (1 + 1))
    (h2 : (1 + 1 : K) ≠ 0) :
    Col.matvec (Implicit.hMatrix ds T al κ) D
      = Col.sub (Col.smul κ (Col.wmul T (gPart ds al D)))
          (advScalar ctc (sigmaDotOf ds (Col.cumSigmaIntegral ds D)) T) := by
  have hF : (Col.cumSigmaIntegral ds D).length = n := by simp [hds, hD]
  have hsd := sigmaDotOf_length ds (Col.cumSigmaIntegral ds D) n hds hF
  have hgp := gPart_length ds al D n hds hal hD
  apply ext_lv (n := n)
  · simp [Col.matvec, Implicit.hMatrix, hds]
  · simp [Col.sub, Col.smul, hgp, hT, advScalar, hsd, hctc]; omega
  intro r hr
  have hn : 0 < n := by omega
  rw [lv_matvec_hMatrix ds al T κ D n hds hD r hr]
  rw [lv_sub _ _ (by simp [Col.smul, hgp, hT, advScalar, hsd, hctc]; omega), lv_smul, lv_wmul,
    lv_gPart ds al D n hds hal hD r hr, lv_advScalar ctc _ T n hctc hsd hT r hr]
  have hk := hK0_half ds ctc T n hds hT hctc hc h2
  -- σ̇ at level j, multiplied by k0[j]
  have hsig : ∀ j, j < n → Implicit.hK0 ds T j • lv (sigmaDotOf ds (Col.cumSigmaIntegral ds D)) j
      = Implicit.hK0 ds T j • ((ds.take (j + 1)).sum • cumF ds D (n - 1) - cumF ds D j) := by
    intro j hj
    rw [lv_sigmaDotOf ds _ n hds hF]
    by_cases h : j + 1 < n
    · rw [if_pos h, lv_cumSigmaIntegral ds D n hds hD, if_pos (by omega),
        lv_cumSigmaIntegral ds D n hds hD, if_pos hj]
    · have : Implicit.hK0 ds T j = 0 := by simp [Implicit.hK0, hds, h]
      rw [this, zero_smul, zero_smul]
  have hcd : ∀ j, lv (Col.centeredDifference ctc T) j = (1 + 1) * Implicit.hK0 ds T j := by
    intro j; rw [hk j]; field_simp
  cases r with
  | zero =>
    have e : ∀ s, Implicit.hEntry ds T al κ 0 s
        = ((κ * lv T 0 * lv al 0 / lv ds 0) * Implicit.tril 0 s + 0 * Implicit.tril 0 s
          - Implicit.hK0 ds T 0 * (Implicit.tril 0 s - (ds.take 1).sum)
          - 0 * (Implicit.tril 0 s - 0)) * lv ds s := by
      intro s
      simp only [Implicit.hEntry, Implicit.hK, lv, if_true]
      ring
    simp only [e]
    rw [sum_hrow ds D n 0 0 hn hr hr]
    simp only [lv_cons_zero, hcd]
    have := hsig 0 hr
    simp only [Nat.zero_add] at this
    have h00 : ((0 : K) • (0 : V)) = ((1 + 1) * (0 : K)) • (0 : V) := by simp
    rw [h00, half_smul_two h2, this]
    module
  | succ r =>
    have hr' : r < n := by omega
    have e : ∀ s, Implicit.hEntry ds T al κ (r + 1) s
        = ((κ * lv T (r + 1) * lv al (r + 1) / lv ds (r + 1)) * Implicit.tril (r + 1) s
          + (κ * lv T (r + 1) * lv al r / lv ds (r + 1)) * Implicit.tril r s
          - Implicit.hK0 ds T (r + 1) * (Implicit.tril (r + 1) s - (ds.take (r + 1 + 1)).sum)
          - Implicit.hK0 ds T r * (Implicit.tril r s - (ds.take (r + 1)).sum)) * lv ds s := by
      intro s
      simp only [Implicit.hEntry, Implicit.hK, lv, Nat.add_sub_cancel, Nat.succ_ne_zero, if_false]
      ring
    simp only [e]
    rw [sum_hrow ds D n (r + 1) r hn hr hr']
    simp only [lv_cons_succ, hcd, lv_wmul]
    rw [lv_cumSigmaIntegral ds D n hds hD, if_pos hr']
    have h1 := hsig (r + 1) hr
    have h0 := hsig r hr'
    rw [half_smul_two h2, h1, h0]
    module
end t41

/-! ## the same for a `Vert` -/
section vert
variable {K V : Type} [Field K] [AddCommGroup V] [Module K V]

theorem sigmaRatios_length (lc : List K) : (Sigma.sigmaRatios lc).length = lc.length := by
  induction lc with
  | nil => rfl
  | cons l t ih =>
    cases t with
    | nil => rfl
    | cons l1 r => simp only [Sigma.sigmaRatios, List.length_cons] at ih ⊢; omega

theorem vert_ds_length (v : Vert K) (n : ℕ) (hb : v.boundaries.length = n + 1) : v.ds.length = n := by
  simp [Vert.ds, Sigma.thickness, hb]

theorem vert_ctc_length (v : Vert K) (n : ℕ) (hb : v.boundaries.length = n + 1) :
    v.ctc.length = n - 1 := by
  simp [Vert.ctc, Sigma.centerToCenter, hb]

theorem vert_alpha_length (v : Vert K) (n : ℕ) (hlc : v.logCenters.length = n) :
    v.alpha.length = n := by
  simp [Vert.alpha, sigmaRatios_length, hlc]

/-- centre-to-centre distance = mean of the adjacent thicknesses, read level by level -/
theorem vert_ctc_lv (v : Vert K) (n : ℕ) (hb : v.boundaries.length = n + 1) (h2 : (1 + 1 : K) ≠ 0)
    (i : ℕ) (hi : i + 1 < n) : lv v.ctc i = (lv v.ds (i + 1) + lv v.ds i) / (1 + 1) := by
  have : NeZero ((1 : K) + 1) := ⟨h2⟩
  have hds := vert_ds_length v n hb
  unfold Vert.ctc
  rw [Sigma.centerToCenter_eq]
  show lv (List.zipWith _ v.ds.tail v.ds) i = _
  rw [lv_zipWith _ _ _ (by simp [hds]; omega) (by omega), lv_tail]

/-- **T4.1 (module form)** for the vertical coordinate `v`, any profile `T`, any `κ`, any column `D`
 with values in a `K`-module: `H·D = κ·T⊙gp(D) − adv(σ̇(D), T)` -/
theorem hMatrix_matvec_vert (v : Vert K) (T : List K) (κ : K) (D : List V) (n : ℕ)
    (hb : v.boundaries.length = n + 1) (hlc : v.logCenters.length = n) (hT : T.length = n)
    (hD : D.length = n) (h2 : (1 + 1 : K) ≠ 0) :
    Col.matvec (Implicit.hMatrix v.ds T v.alpha κ) D
      = Col.sub (Col.smul κ (Col.wmul T (gPart v.ds v.alpha D)))
          (advScalar v.ctc (sigmaDotOf v.ds (Col.cumSigmaIntegral v.ds D)) T) :=
  hMatrix_matvec v.ds v.alpha v.ctc T κ D n (vert_ds_length v n hb) (vert_alpha_length v n hlc) hT hD
    (vert_ctc_length v n hb) (vert_ctc_lv v n hb h2) h2

end vert

/-! ## nodal fields: a commutative `K`-algebra -/
section nodal
variable {K N : Type} [Field K] [CommRing N] [Algebra K N]

theorem constN_eq (c : K) : (constN c : N) = algebraMap K N c := by
  rw [constN, Algebra.algebraMap_eq_smul_one]

theorem constN_mul (c : K) (x : N) : (constN c : N) * x = c • x := by
  rw [constN, smul_mul_assoc, one_mul]

theorem mul_constN (c : K) (x : N) : x * (constN c : N) = c • x := by
  rw [mul_comm, constN_mul]

@[simp] theorem constN_zero : (constN (0 : K) : N) = 0 := by simp [constN]

theorem lv_mul (x y : List N) (i : ℕ) : lv (Col.mul x y) i = lv x i * lv y i := by
  unfold Col.mul
  exact lv_zipWith_zero _ (fun b => zero_mul b) (fun a => mul_zero a) x y i

theorem centeredAdvection_length (ctc : List K) (w x : List N) (n : ℕ) (hn : 0 < n)
    (hc : ctc.length = n - 1) (hw : w.length = n - 1) (hx : x.length = n) :
    (Col.centeredAdvection ctc w x).length = n := by
  simp [Col.centeredAdvection, Col.mul, hc, hw, hx]; omega

theorem advScalar_length {V : Type} [AddCommGroup V] [Module K V] (ctc : List K) (w : List V)
    (T : List K) (n : ℕ) (hn : 0 < n)
    (hc : ctc.length = n - 1) (hw : w.length = n - 1) (hT : T.length = n) :
    (advScalar ctc w T).length = n := by
  simp [advScalar, hc, hw, hT]; omega

theorem lv_centeredAdvection (ctc : List K) (w x : List N) (n : ℕ) (hc : ctc.length = n - 1)
    (hw : w.length = n - 1) (hx : x.length = n) (i : ℕ) (hi : i < n) :
    lv (Col.centeredAdvection ctc w x) i
      = (-(1 / (1 + 1)) : K) • (lv w i * lv (Col.centeredDifference ctc x) i
          + lv ((0 : N) :: w) i * lv ((0 : N) :: Col.centeredDifference ctc x) i) := by
  unfold Col.centeredAdvection
  have hcd : (Col.centeredDifference ctc x).length = n - 1 := by simp [hc, hx]
  simp only []
  rw [lv_zipWith _ _ _ (by simp [Col.mul, hw, hcd]; omega) (by simp [Col.mul, hw, hcd]; omega), lv_tail]
  rw [lv_mul, lv_mul]
  simp only [lv_cons_succ, lv_append_zero]
  congr 2
  cases i with
  | zero => simp
  | succ i => simp [lv_append_zero]


/-! ### linearity of the column routines, level by level -/

theorem cumF_add {V : Type} [AddCommGroup V] [Module K V] (ds : List K) (g1 g2 : List V)
    (h : g1.length = g2.length) (i : ℕ) :
    cumF ds (Col.add g1 g2) i = cumF ds g1 i + cumF ds g2 i := by
  simp only [cumF, lv_add _ _ h, smul_add, Finset.sum_add_distrib]

theorem lv_sigmaDot_add {V : Type} [AddCommGroup V] [Module K V] (ds : List K) (g1 g2 : List V) (n : ℕ)
    (hds : ds.length = n) (h1 : g1.length = n) (h2 : g2.length = n) (j : ℕ) :
    lv (sigmaDotOf ds (Col.cumSigmaIntegral ds (Col.add g1 g2))) j
      = lv (sigmaDotOf ds (Col.cumSigmaIntegral ds g1)) j
        + lv (sigmaDotOf ds (Col.cumSigmaIntegral ds g2)) j := by
  have h12 : (Col.add g1 g2).length = n := by simp [Col.add, h1, h2]
  rw [lv_sigmaDotOf ds _ n hds (by simp [hds, h12]), lv_sigmaDotOf ds _ n hds (by simp [hds, h1]),
    lv_sigmaDotOf ds _ n hds (by simp [hds, h2])]
  by_cases h : j + 1 < n
  · simp only [if_pos h, lv_cumSigmaIntegral ds _ n hds h12, lv_cumSigmaIntegral ds _ n hds h1,
      lv_cumSigmaIntegral ds _ n hds h2, if_pos (show n - 1 < n by omega), if_pos (show j < n by omega),
      cumF_add ds g1 g2 (by omega)]
    module
  · simp [if_neg h]

/-- the shifted reading `lv (0 :: wmul al F) i` (level `i-1`, zero at the top) is additive -/
theorem prevF_add {V : Type} [AddCommGroup V] [Module K V] (ds al : List K) (g1 g2 : List V) (n : ℕ)
    (hds : ds.length = n) (h1 : g1.length = n) (h2 : g2.length = n) (i : ℕ) (hi : i < n) :
    lv ((0 : V) :: Col.wmul al (Col.cumSigmaIntegral ds (Col.add g1 g2))) i
      = lv ((0 : V) :: Col.wmul al (Col.cumSigmaIntegral ds g1)) i
        + lv ((0 : V) :: Col.wmul al (Col.cumSigmaIntegral ds g2)) i := by
  have h12 : (Col.add g1 g2).length = n := by simp [Col.add, h1, h2]
  cases i with
  | zero => simp
  | succ i =>
    simp only [lv_cons_succ, lv_wmul, lv_cumSigmaIntegral ds _ n hds h12,
      lv_cumSigmaIntegral ds _ n hds h1, lv_cumSigmaIntegral ds _ n hds h2,
      if_pos (show i < n by omega), cumF_add ds g1 g2 (by omega)]
    module

theorem lv_gPart_add {V : Type} [AddCommGroup V] [Module K V] (ds al : List K) (g1 g2 : List V) (n : ℕ)
    (hds : ds.length = n) (hal : al.length = n) (h1 : g1.length = n) (h2 : g2.length = n)
    (i : ℕ) (hi : i < n) :
    lv (gPart ds al (Col.add g1 g2)) i = lv (gPart ds al g1) i + lv (gPart ds al g2) i := by
  have h12 : (Col.add g1 g2).length = n := by simp [Col.add, h1, h2]
  rw [lv_gPart ds al _ n hds hal h12 i hi, lv_gPart ds al _ n hds hal h1 i hi,
    lv_gPart ds al _ n hds hal h2 i hi, prevF_add ds al g1 g2 n hds h1 h2 i hi,
    cumF_add ds g1 g2 (by omega)]
  module

/-- centred difference of `x + dT•1` -/
theorem lv_cd_shift (ctc : List K) (x : List N) (dT : List K) (n : ℕ) (hc : ctc.length = n - 1)
    (hx : x.length = n) (hd : dT.length = n) (j : ℕ) :
    lv (Col.centeredDifference ctc (List.zipWith (fun t (d : K) => t + d • (1 : N)) x dT)) j
      = lv (Col.centeredDifference ctc x) j + lv (Col.centeredDifference ctc dT) j • (1 : N) := by
  have hx2 : (List.zipWith (fun t (d : K) => t + d • (1 : N)) x dT).length = n := by simp [hx, hd]
  rw [lv_centeredDifference ctc _ n hc hx2, lv_centeredDifference ctc x n hc hx,
    lv_centeredDifference ctc dT n hc hd]
  by_cases h : j + 1 < n
  · simp only [if_pos h]
    rw [lv_zipWith _ _ _ (by omega) (by omega), lv_zipWith _ _ _ (by omega) (by omega)]
    simp only [smul_eq_mul]
    module
  · simp [if_neg h]

theorem lv_cons_cd_shift (ctc : List K) (x : List N) (dT : List K) (n : ℕ) (hc : ctc.length = n - 1)
    (hx : x.length = n) (hd : dT.length = n) (j : ℕ) :
    lv ((0 : N) :: Col.centeredDifference ctc (List.zipWith (fun t (d : K) => t + d • (1 : N)) x dT)) j
      = lv ((0 : N) :: Col.centeredDifference ctc x) j
        + lv ((0 : K) :: Col.centeredDifference ctc dT) j • (1 : N) := by
  cases j with
  | zero => simp
  | succ j => simp only [lv_cons_succ]; exact lv_cd_shift ctc x dT n hc hx hd j

/-- (i) advection of `x + dT•1` = advection of `x` + advection of the scalar profile `dT` -/
theorem lv_adv_shift (ctc : List K) (w x : List N) (dT : List K) (n : ℕ) (hc : ctc.length = n - 1)
    (hw : w.length = n - 1) (hx : x.length = n) (hd : dT.length = n) (i : ℕ) (hi : i < n) :
    lv (Col.centeredAdvection ctc w (List.zipWith (fun t (d : K) => t + d • (1 : N)) x dT)) i
      = lv (Col.centeredAdvection ctc w x) i + lv (advScalar ctc w dT) i := by
  have hx2 : (List.zipWith (fun t (d : K) => t + d • (1 : N)) x dT).length = n := by simp [hx, hd]
  rw [lv_centeredAdvection ctc w _ n hc hw hx2 i hi, lv_centeredAdvection ctc w x n hc hw hx i hi,
    lv_advScalar ctc w dT n hc hw hd i hi, lv_cd_shift ctc x dT n hc hx hd,
    lv_cons_cd_shift ctc x dT n hc hx hd]
  simp only [mul_add, mul_smul_comm, mul_one]
  module

/-- advection of a constant-in-the-horizontal profile by the nodal routine is `advScalar` -/
theorem lv_adv_const (ctc : List K) (w : List N) (T : List K) (n : ℕ) (hc : ctc.length = n - 1)
    (hw : w.length = n - 1) (hT : T.length = n) (i : ℕ) (hi : i < n) :
    lv (Col.centeredAdvection ctc w (T.map (constN : K → N))) i = lv (advScalar ctc w T) i := by
  have h0 : (T.map (constN : K → N)) = List.zipWith (fun t (d : K) => t + d • (1 : N))
      (T.map fun _ => (0 : N)) T := by
    apply List.ext_getElem
    · simp
    · intro j h1 h2
      simp [constN]
  have hz : ∀ j, lv (Col.centeredDifference ctc (T.map fun _ => (0 : N))) j = 0 := by
    intro j
    rw [lv_centeredDifference ctc _ n hc (by simp [hT])]
    by_cases h : j + 1 < n
    · rw [if_pos h, lv_map _ _ (by omega), lv_map _ _ (by omega)]; simp
    · rw [if_neg h]
  rw [h0, lv_adv_shift ctc w _ T n hc hw (by simp [hT]) hT i hi,
    lv_centeredAdvection ctc w _ n hc hw (by simp [hT]) i hi]
  have hz' : lv ((0 : N) :: Col.centeredDifference ctc (T.map fun _ => (0 : N))) i = 0 := by
    cases i with
    | zero => simp
    | succ i => simp only [lv_cons_succ]; exact hz i
  rw [hz, hz']
  simp

/-- (ii) `advScalar` is additive in the profile -/
theorem lv_advScalar_sub {V : Type} [AddCommGroup V] [Module K V] (ctc : List K) (w : List V)
    (T dT : List K) (n : ℕ) (hc : ctc.length = n - 1)
    (hw : w.length = n - 1) (hT : T.length = n) (hd : dT.length = n) (i : ℕ) (hi : i < n) :
    lv (advScalar ctc w (Col.sub T dT)) i = lv (advScalar ctc w T) i - lv (advScalar ctc w dT) i := by
  have hs : (Col.sub T dT).length = n := by simp [Col.sub, hT, hd]
  have hcd : ∀ j, lv (Col.centeredDifference ctc (Col.sub T dT)) j
      = lv (Col.centeredDifference ctc T) j - lv (Col.centeredDifference ctc dT) j := by
    intro j
    rw [lv_centeredDifference ctc _ n hc hs, lv_centeredDifference ctc T n hc hT,
      lv_centeredDifference ctc dT n hc hd]
    by_cases h : j + 1 < n
    · simp only [if_pos h, lv_sub T dT (by omega), smul_eq_mul]; ring
    · simp [if_neg h]
  have hcd' : ∀ j, lv ((0 : K) :: Col.centeredDifference ctc (Col.sub T dT)) j
      = lv ((0 : K) :: Col.centeredDifference ctc T) j - lv ((0 : K) :: Col.centeredDifference ctc dT) j := by
    intro j
    cases j with
    | zero => simp
    | succ j => simp only [lv_cons_succ]; exact hcd j
  rw [lv_advScalar ctc w _ n hc hw hs i hi, lv_advScalar ctc w T n hc hw hT i hi,
    lv_advScalar ctc w dT n hc hw hd i hi, hcd, hcd']
  module

/-- (iii) `advScalar` is additive in the velocity -/
theorem lv_advScalar_add_w {V : Type} [AddCommGroup V] [Module K V] (ctc : List K) (w w1 w2 : List V)
    (T : List K) (n : ℕ) (hc : ctc.length = n - 1)
    (hw : w.length = n - 1) (hw1 : w1.length = n - 1) (hw2 : w2.length = n - 1) (hT : T.length = n)
    (h : ∀ j, lv w j = lv w1 j + lv w2 j) (i : ℕ) (hi : i < n) :
    lv (advScalar ctc w T) i = lv (advScalar ctc w1 T) i + lv (advScalar ctc w2 T) i := by
  have h' : ∀ j, lv ((0 : V) :: w) j = lv ((0 : V) :: w1) j + lv ((0 : V) :: w2) j := by
    intro j
    cases j with
    | zero => simp
    | succ j => simp only [lv_cons_succ]; exact h j
  rw [lv_advScalar ctc w T n hc hw hT i hi, lv_advScalar ctc w1 T n hc hw1 hT i hi,
    lv_advScalar ctc w2 T n hc hw2 hT i hi, h, h']
  module

end nodal

/-! ## the temperature equation under a shift of the reference profile -/
section thermo
set_option linter.unusedSectionVars false
variable {K M N : Type} [Field K] [DecidableEq K] [AddCommGroup M] [Module K M] [CommRing N] [Algebra K N]

/-- the same equations with another reference profile -/
def withTRef (eq : PrimitiveEquations K M N) (T : List K) : PrimitiveEquations K M N :=
  { eq with referenceTemperature := T }

/-- the same nodal diagnostics with another temperature column -/
def Diag.withT (aux : Diag N) (t : List N) : Diag N := { aux with temperatureVariation := t }

/-- `nT + dT•1`, level by level -/
def shiftN (x : List N) (dT : List K) : List N := List.zipWith (fun t (d : K) => t + d • (1 : N)) x dT

/-- shapes of a diagnostic state with `n` layers -/
structure DiagShaped (eq : PrimitiveEquations K M N) (aux : Diag N) (n : ℕ) : Prop where
  pos : 0 < n
  ds : eq.vert.ds.length = n
  al : eq.vert.alpha.length = n
  ctc : eq.vert.ctc.length = n - 1
  tr : eq.referenceTemperature.length = n
  z : aux.vorticity.length = n
  d : aux.divergence.length = n
  t : aux.temperatureVariation.length = n
  u : aux.cosLatU.1.length = n
  v : aux.cosLatU.2.length = n
  g : aux.uDotGradLogSp.length = n
  sde : aux.sigmaDotExplicit = sigmaDotOf eq.vert.ds (Col.cumSigmaIntegral eq.vert.ds aux.uDotGradLogSp)
  sdf : aux.sigmaDotFull = sigmaDotOf eq.vert.ds
          (Col.cumSigmaIntegral eq.vert.ds (Col.add aux.divergence aux.uDotGradLogSp))

theorem tRef_const (eq : PrimitiveEquations K M N) (h : eq.tRefVaries = false) (i j : ℕ)
    (hi : i < eq.referenceTemperature.length) (hj : j < eq.referenceTemperature.length) :
    lv eq.referenceTemperature i = lv eq.referenceTemperature j := by
  unfold PrimitiveEquations.tRefVaries at h
  generalize eq.referenceTemperature = T at *
  cases T with
  | nil => simp at hi
  | cons a t =>
    simp only [List.any_eq_false] at h
    have key : ∀ k, k < (a :: t).length → lv (a :: t) k = a := by
      intro k hk
      cases k with
      | zero => simp
      | succ k =>
        simp only [lv_cons_succ]
        have hk' : k < t.length := by simpa using hk
        have : lv t k = t[k] := by simp [lv_def, List.getElem?_eq_getElem hk']
        rw [this]
        have := h _ (List.getElem_mem hk')
        simpa using this
    rw [key i hi, key j hj]


omit [DecidableEq K] in
theorem lv_advScalar_const {V : Type} [AddCommGroup V] [Module K V] (ctc : List K) (w : List V)
    (T : List K) (n : ℕ) (hc : ctc.length = n - 1) (hw : w.length = n - 1) (hT : T.length = n)
    (hconst : ∀ i j, i < n → j < n → lv T i = lv T j) (i : ℕ) (hi : i < n) :
    lv (advScalar ctc w T) i = 0 := by
  have hcd : ∀ j, lv (Col.centeredDifference ctc T) j = 0 := by
    intro j
    rw [lv_centeredDifference ctc T n hc hT]
    by_cases h : j + 1 < n
    · rw [if_pos h, hconst (j + 1) j h (by omega)]; simp
    · rw [if_neg h]
  have hcd' : lv ((0 : K) :: Col.centeredDifference ctc T) i = 0 := by
    cases i with
    | zero => simp
    | succ i => simp only [lv_cons_succ]; exact hcd i
  rw [lv_advScalar ctc w T n hc hw hT i hi, hcd, hcd']
  simp

omit [DecidableEq K] in
theorem tOmega_eq (eq : PrimitiveEquations K M N) (T g v : List N) :
    eq.tOmegaOverSigmaSp T g v = Col.mul T (Col.sub v (gPart eq.vert.ds eq.vert.alpha g)) := rfl

theorem DiagShaped.sde_len {eq : PrimitiveEquations K M N} {aux : Diag N} {n : ℕ}
    (S : DiagShaped eq aux n) : aux.sigmaDotExplicit.length = n - 1 := by
  rw [S.sde]; exact sigmaDotOf_length _ _ n S.ds (by simp [S.ds, S.g])

theorem DiagShaped.sdf_len {eq : PrimitiveEquations K M N} {aux : Diag N} {n : ℕ}
    (S : DiagShaped eq aux n) : aux.sigmaDotFull.length = n - 1 := by
  rw [S.sdf]; exact sigmaDotOf_length _ _ n S.ds (by simp [S.ds, S.g, S.d, Col.add])

/-- the vertical temperature tendency, with the `T_ref`-is-constant guard resolved -/
theorem lv_vertTend (eq : PrimitiveEquations K M N) (aux : Diag N) (n : ℕ) (S : DiagShaped eq aux n)
    (hinc : eq.includeVerticalAdvection = true) (i : ℕ) (hi : i < n) :
    lv (eq.nodalTemperatureVerticalTendency aux) i
      = lv (Col.centeredAdvection eq.vert.ctc aux.sigmaDotFull aux.temperatureVariation) i
        + lv (advScalar eq.vert.ctc aux.sigmaDotExplicit eq.referenceTemperature) i := by
  unfold PrimitiveEquations.nodalTemperatureVerticalTendency PrimitiveEquations.verticalTendency
  rw [hinc]
  simp only [if_true]
  have l1 := centeredAdvection_length eq.vert.ctc aux.sigmaDotFull aux.temperatureVariation n S.pos
    S.ctc S.sdf_len S.t
  by_cases hv : eq.tRefVaries = true
  · rw [if_pos hv]
    have l2 := centeredAdvection_length eq.vert.ctc aux.sigmaDotExplicit eq.tRef n S.pos
      S.ctc S.sde_len (by simp [PrimitiveEquations.tRef, S.tr])
    rw [lv_add _ _ (by rw [l1, l2]), PrimitiveEquations.tRef,
      lv_adv_const eq.vert.ctc _ _ n S.ctc S.sde_len S.tr i hi]
  · rw [if_neg hv]
    have hv' : eq.tRefVaries = false := by simpa using hv
    rw [lv_advScalar_const eq.vert.ctc _ _ n S.ctc S.sde_len S.tr
      (fun a b ha hb => tRef_const eq hv' a b (by rw [S.tr]; exact ha) (by rw [S.tr]; exact hb)) i hi,
      add_zero]

omit [DecidableEq K] in
/-- the dry adiabatic tendency, level by level -/
theorem lv_adiabatic (eq : PrimitiveEquations K M N) (aux : Diag N) (n : ℕ) (S : DiagShaped eq aux n)
    (i : ℕ) (hi : i < n) :
    lv (eq.nodalTemperatureAdiabaticTendency aux) i
      = eq.phys.kappa • (constN (lv eq.referenceTemperature i)
            * (lv aux.uDotGradLogSp i - lv (gPart eq.vert.ds eq.vert.alpha aux.uDotGradLogSp) i)
          + lv aux.temperatureVariation i
            * (lv aux.uDotGradLogSp i - (lv (gPart eq.vert.ds eq.vert.alpha aux.uDotGradLogSp) i
                + lv (gPart eq.vert.ds eq.vert.alpha aux.divergence) i))) := by
  unfold PrimitiveEquations.nodalTemperatureAdiabaticTendency
  simp only [tOmega_eq]
  have hg1 := gPart_length eq.vert.ds eq.vert.alpha aux.uDotGradLogSp n S.ds S.al S.g
  have hg2 := gPart_length eq.vert.ds eq.vert.alpha (Col.add aux.uDotGradLogSp aux.divergence) n S.ds S.al
    (by simp [Col.add, S.g, S.d])
  rw [lv_smul, lv_add _ _ (by simp [Col.mul, Col.sub, PrimitiveEquations.tRef, S.tr, S.g, S.t, hg1, hg2]),
    lv_mul, lv_mul, lv_sub _ _ (by rw [S.g, hg1]), lv_sub _ _ (by rw [S.g, hg2]),
    lv_gPart_add _ _ _ _ n S.ds S.al S.g S.d i hi, PrimitiveEquations.tRef,
    lv_map_zero _ constN_zero]


/-- the explicit formulas evaluated on a profile `dT` with `G = D` (right-hand side of T4.1) -/
def refTerms {V : Type} [AddCommGroup V] [Module K V] (v : Vert K) (κ : K) (dT : List K) (D : List V) : List V :=
  Col.sub (Col.smul κ (Col.wmul dT (gPart v.ds v.alpha D)))
    (advScalar v.ctc (sigmaDotOf v.ds (Col.cumSigmaIntegral v.ds D)) dT)

theorem DiagShaped.shift {eq : PrimitiveEquations K M N} {aux : Diag N} {n : ℕ}
    (S : DiagShaped eq aux n) (dT : List K) (hd : dT.length = n) :
    DiagShaped (withTRef eq (Col.sub eq.referenceTemperature dT))
      (aux.withT (shiftN aux.temperatureVariation dT)) n :=
  { pos := S.pos, ds := S.ds, al := S.al, ctc := S.ctc
    tr := by simp [withTRef, Col.sub, S.tr, hd]
    z := S.z, d := S.d
    t := by simp [Diag.withT, shiftN, S.t, hd]
    u := S.u, v := S.v, g := S.g, sde := S.sde, sdf := S.sdf }

/-- **the nodal heart of C04**: shifting `T_ref → T_ref − dT`, `T' → T' + dT` changes
 `vertical + adiabatic` tendency by exactly minus the explicit formulas evaluated on `dT` with `G = δ` -/
theorem thermo_level (eq : PrimitiveEquations K M N) (aux : Diag N) (n : ℕ) (S : DiagShaped eq aux n)
    (dT : List K) (hd : dT.length = n) (hinc : eq.includeVerticalAdvection = true) (i : ℕ) (hi : i < n) :
    lv ((withTRef eq (Col.sub eq.referenceTemperature dT)).nodalTemperatureVerticalTendency
          (aux.withT (shiftN aux.temperatureVariation dT))) i
      + lv ((withTRef eq (Col.sub eq.referenceTemperature dT)).nodalTemperatureAdiabaticTendency
          (aux.withT (shiftN aux.temperatureVariation dT))) i
    = lv (eq.nodalTemperatureVerticalTendency aux) i + lv (eq.nodalTemperatureAdiabaticTendency aux) i
      - lv (refTerms eq.vert eq.phys.kappa dT aux.divergence) i := by
  have S2 := S.shift dT hd
  rw [lv_vertTend _ _ n S2 hinc i hi, lv_adiabatic _ _ n S2 i hi, lv_vertTend eq aux n S hinc i hi,
    lv_adiabatic eq aux n S i hi]
  show lv (Col.centeredAdvection eq.vert.ctc aux.sigmaDotFull (shiftN aux.temperatureVariation dT)) i
      + lv (advScalar eq.vert.ctc aux.sigmaDotExplicit (Col.sub eq.referenceTemperature dT)) i
      + eq.phys.kappa • (constN (lv (Col.sub eq.referenceTemperature dT) i)
            * (lv aux.uDotGradLogSp i - lv (gPart eq.vert.ds eq.vert.alpha aux.uDotGradLogSp) i)
          + lv (shiftN aux.temperatureVariation dT) i
            * (lv aux.uDotGradLogSp i - (lv (gPart eq.vert.ds eq.vert.alpha aux.uDotGradLogSp) i
                + lv (gPart eq.vert.ds eq.vert.alpha aux.divergence) i))) = _
  have hsdd := sigmaDotOf_length eq.vert.ds (Col.cumSigmaIntegral eq.vert.ds aux.divergence) n S.ds
    (by simp [S.ds, S.d])
  have hgp := gPart_length eq.vert.ds eq.vert.alpha aux.divergence n S.ds S.al S.d
  have hw : lv (advScalar eq.vert.ctc aux.sigmaDotFull dT) i
      = lv (advScalar eq.vert.ctc (sigmaDotOf eq.vert.ds (Col.cumSigmaIntegral eq.vert.ds aux.divergence)) dT) i
        + lv (advScalar eq.vert.ctc aux.sigmaDotExplicit dT) i := by
    apply lv_advScalar_add_w _ _ _ _ _ n S.ctc S.sdf_len hsdd S.sde_len hd _ i hi
    intro j
    rw [S.sdf, S.sde]
    exact lv_sigmaDot_add _ _ _ n S.ds S.d S.g j
  rw [shiftN, lv_adv_shift _ _ _ _ n S.ctc S.sdf_len S.t hd i hi, hw,
    lv_advScalar_sub _ _ _ _ n S.ctc S.sde_len S.tr hd i hi,
    lv_sub _ _ (by rw [S.tr, hd]), lv_zipWith _ _ _ (by rw [S.t]; exact hi) (by rw [hd]; exact hi)]
  unfold refTerms
  rw [lv_sub _ _ (by simp [Col.smul, hgp, hd, advScalar_length _ _ _ n S.pos S.ctc hsdd hd]),
    lv_smul, lv_wmul]
  simp only [constN_eq, Algebra.smul_def, map_sub, mul_one]
  ring

end thermo

/-! ## linearity of the vertical mat-vec -/
section matvec
set_option linter.unusedSectionVars false
variable {K : Type} [Field K] {V W : Type} [AddCommGroup V] [Module K V] [AddCommGroup W] [Module K W]

theorem map_wmul_sum (f : V → W) (hf : IsLinearMap K f) (row : List K) (x : List V) :
    f (Col.wmul row x).sum = (Col.wmul row (x.map f)).sum := by
  unfold Col.wmul
  induction row generalizing x with
  | nil => simp [hf.map_zero]
  | cons a r ih =>
    cases x with
    | nil => simp [hf.map_zero]
    | cons b t =>
      simp only [List.zipWith_cons_cons, List.sum_cons, List.map_cons, hf.map_add, hf.map_smul, ih]

/-- a linear map applied level by level commutes with `_vertical_matvec` -/
theorem map_matvec (f : V → W) (hf : IsLinearMap K f) (A : List (List K)) (x : List V) :
    (Col.matvec A x).map f = Col.matvec A (x.map f) := by
  unfold Col.matvec
  rw [List.map_map]
  apply List.map_congr_left
  intro row _
  exact map_wmul_sum f hf row x

theorem wmul_sum_shift (row dT : List K) (x : List V) (m : V) (h : x.length = dT.length) :
    (Col.wmul row (List.zipWith (fun t (d : K) => t + d • m) x dT)).sum
      = (Col.wmul row x).sum + (Col.wmul row dT).sum • m := by
  unfold Col.wmul
  induction row generalizing x dT with
  | nil => simp
  | cons a r ih =>
    match x, dT, h with
    | [], [], _ => simp
    | b :: t, d :: u, h =>
      simp only [List.zipWith_cons_cons, List.sum_cons, ih u t (by simpa using h), smul_eq_mul]
      module

/-- `A·(x + dT•m) = A·x + (A·dT)•m` -/
theorem matvec_shift (A : List (List K)) (dT : List K) (x : List V) (m : V) (h : x.length = dT.length) :
    Col.matvec A (List.zipWith (fun t (d : K) => t + d • m) x dT)
      = List.zipWith (fun y (c : K) => y + c • m) (Col.matvec A x) (Col.matvec A dT) := by
  unfold Col.matvec
  rw [List.zipWith_map_left, List.zipWith_map_right, List.zipWith_self]
  apply List.map_congr_left
  intro row _
  exact wmul_sum_shift row dT x m h

theorem wmul_neg_sum (row : List K) (x : List V) :
    (Col.wmul (row.map fun v => -v) x).sum = -(Col.wmul row x).sum := by
  unfold Col.wmul
  induction row generalizing x with
  | nil => simp
  | cons a r ih =>
    cases x with
    | nil => simp
    | cons b t => simp only [List.map_cons, List.zipWith_cons_cons, List.sum_cons, ih]; module

theorem matvec_negMat (A : List (List K)) (x : List V) :
    Col.matvec (Implicit.negMat A) x = Col.neg (Col.matvec A x) := by
  unfold Col.matvec Implicit.negMat Col.neg
  rw [List.map_map, List.map_map]
  apply List.map_congr_left
  intro row _
  exact wmul_neg_sum row x

theorem hEntry_sub (ds T dT al : List K) (κ : K) (h : T.length = dT.length) (r s : ℕ) :
    Implicit.hEntry ds (Col.sub T dT) al κ r s
      = Implicit.hEntry ds T al κ r s - Implicit.hEntry ds dT al κ r s := by
  have e : ∀ j, (Col.sub T dT).getD j 0 = T.getD j 0 - dT.getD j 0 := fun j => lv_sub T dT h j
  simp only [Implicit.hEntry, Implicit.hK, Implicit.hK0, e]
  split_ifs <;> ring

/-- `H` is additive in the reference profile -/
theorem hMatrix_sub (ds T dT al : List K) (κ : K) (D : List V) (n : ℕ) (hds : ds.length = n)
    (hD : D.length = n) (h : T.length = dT.length) :
    Col.matvec (Implicit.hMatrix ds (Col.sub T dT) al κ) D
      = Col.sub (Col.matvec (Implicit.hMatrix ds T al κ) D) (Col.matvec (Implicit.hMatrix ds dT al κ) D) := by
  apply ext_lv (n := n)
  · simp [Col.matvec, Implicit.hMatrix, hds]
  · simp [Col.matvec, Implicit.hMatrix, Col.sub, hds]
  intro r hr
  rw [lv_sub _ _ (by simp [Col.matvec, Implicit.hMatrix]), lv_matvec_hMatrix _ _ _ _ _ n hds hD r hr,
    lv_matvec_hMatrix _ _ _ _ _ n hds hD r hr, lv_matvec_hMatrix _ _ _ _ _ n hds hD r hr,
    ← Finset.sum_sub_distrib]
  apply Finset.sum_congr rfl
  intro s _
  rw [hEntry_sub _ _ _ _ _ h, sub_smul]

end matvec

/-! ## the named laws of the horizontal operations; the momentum equations -/
section laws
set_option linter.unusedSectionVars false
variable {K M N : Type} [Field K] [AddCommGroup M] [Module K M] [CommRing N] [Algebra K N]

/-- `cosθ∇p` in nodal space, as `compute_diagnostic_state` forms it (`clip=False`) -/
def nodalGrad (h : HOps K M N) (p : M) : N × N :=
  (h.toNodal (h.cosLatGrad false p).1, h.toNodal (h.cosLatGrad false p).2)

/-- the vector `(to_modal(y·g₁·sec²θ), to_modal(y·g₂·sec²θ))` whose `curl_cos_lat`/`div_cos_lat` the
 explicit momentum terms take (`y` = a nodal weight such as `R·T`, `g` = nodal `cosθ∇ln p_s`) -/
def weightedGradSec2 (h : HOps K M N) (y : N) (g : N × N) : M × M :=
  (h.toModal (y * g.1 * h.sec2Lat), h.toModal (y * g.2 * h.sec2Lat))

/-- **named laws** of the horizontal operations used by C04 (dry classes).  Each is validated
 on the real grids by `harness/props/C04.py` (quadratic, cubic and linear truncations). -/
structure Laws (h : HOps K M N) : Prop where
  toNodal_lin : IsLinearMap K h.toNodal
  toModal_lin : IsLinearMap K h.toModal
  dDlon_lin : IsLinearMap K h.dDlon
  secLatDDlatCos2_lin : IsLinearMap K h.secLatDDlatCos2
  laplacian_lin : IsLinearMap K h.laplacian
  clip_lin : IsLinearMap K h.clip
  /-- the spectral constant is the nodal one -/
  toNodal_one : h.toNodal h.oneModal = 1
  /-- the Laplacian kills the (0,0) mode -/
  lap_one : h.laplacian h.oneModal = 0
  /-- `to_modal ∘ to_nodal = id` on clipped fields -/
  roundtrip : ∀ x, h.clip x = x → h.clip (h.toModal (h.toNodal x)) = x
  /-- `curl(grad p) = 0` through the nodal `sec²θ` weighting (Hyp-A, curl part) -/
  curl_grad : ∀ p, h.clip p = p → h.clip (h.curlCosLat false (weightedGradSec2 h 1 (nodalGrad h p))) = 0
  /-- `div(grad p) = lap p` through the nodal `sec²θ` weighting (Hyp-A) -/
  div_grad : ∀ p, h.clip p = p →
    h.clip (h.divCosLat false (weightedGradSec2 h 1 (nodalGrad h p))) = h.laplacian p
  /-- `div(uv(ζ, δ)) = δ` (T2.6) for clipped, zero-mean `δ` -/
  div_uv : ∀ z d, h.clip z = z → h.clip d = d → h.laplacian (h.inverseLaplacian d) = d →
    h.clip (h.divSecLat (h.toNodal (h.cosLatVector false z d).1) (h.toNodal (h.cosLatVector false z d).2)) = d

/-- the additional laws of the moist classes: the quadrature resolves the product rule.
 **Fails on linear (`TL`) grids** (C04.py asserts that it is only used where validated). -/
structure MoistLaws (h : HOps K M N) : Prop where
  /-- `div(q ∇p) = ∇q·∇p + q ∇²p` through the nodal products -/
  product_rule_resolved : ∀ p qm, h.clip p = p → h.clip qm = qm →
    h.clip (h.divCosLat false (weightedGradSec2 h (h.toNodal qm) (nodalGrad h p)))
      = h.clip (h.toModal (h.sec2Lat * ((nodalGrad h qm).1 * (nodalGrad h p).1
          + (nodalGrad h qm).2 * (nodalGrad h p).2) + h.toNodal qm * h.toNodal (h.laplacian p)))
  /-- `curl(q ∇p) = ∇q × ∇p` through the nodal products -/
  curl_product_rule_resolved : ∀ p qm, h.clip p = p → h.clip qm = qm →
    h.clip (h.curlCosLat false (weightedGradSec2 h (h.toNodal qm) (nodalGrad h p)))
      = h.clip (h.toModal (h.sec2Lat * ((nodalGrad h qm).1 * (nodalGrad h p).2
          - (nodalGrad h qm).2 * (nodalGrad h p).1)))

variable {h : HOps K M N}

theorem Laws.divCosLat_add (L : Laws h) (a b : M × M) :
    h.divCosLat false (a.1 + b.1, a.2 + b.2) = h.divCosLat false a + h.divCosLat false b := by
  simp only [HOps.divCosLat, L.dDlon_lin.map_add, L.secLatDDlatCos2_lin.map_add]
  simp only [Bool.false_eq_true, if_false]
  module

theorem Laws.curlCosLat_add (L : Laws h) (a b : M × M) :
    h.curlCosLat false (a.1 + b.1, a.2 + b.2) = h.curlCosLat false a + h.curlCosLat false b := by
  simp only [HOps.curlCosLat, L.dDlon_lin.map_add, L.secLatDDlatCos2_lin.map_add]
  simp only [Bool.false_eq_true, if_false]
  module

theorem Laws.divCosLat_smul (L : Laws h) (c : K) (a : M × M) :
    h.divCosLat false (c • a.1, c • a.2) = c • h.divCosLat false a := by
  simp only [HOps.divCosLat, L.dDlon_lin.map_smul, L.secLatDDlatCos2_lin.map_smul]
  simp only [Bool.false_eq_true, if_false]
  module

theorem Laws.curlCosLat_smul (L : Laws h) (c : K) (a : M × M) :
    h.curlCosLat false (c • a.1, c • a.2) = c • h.curlCosLat false a := by
  simp only [HOps.curlCosLat, L.dDlon_lin.map_smul, L.secLatDDlatCos2_lin.map_smul]
  simp only [Bool.false_eq_true, if_false]
  module

theorem Laws.weighted_smul (L : Laws h) (c : K) (y : N) (g : N × N) :
    weightedGradSec2 h (c • y) g = (c • (weightedGradSec2 h y g).1, c • (weightedGradSec2 h y g).2) := by
  simp only [weightedGradSec2, smul_mul_assoc, L.toModal_lin.map_smul]

theorem Laws.weighted_add (L : Laws h) (y1 y2 : N) (g : N × N) :
    weightedGradSec2 h (y1 + y2) g
      = ((weightedGradSec2 h y1 g).1 + (weightedGradSec2 h y2 g).1,
         (weightedGradSec2 h y1 g).2 + (weightedGradSec2 h y2 g).2) := by
  simp only [weightedGradSec2, add_mul, L.toModal_lin.map_add]


/-- **momentum equations**: adding a nodal column `Y` to `R·T` (dry) / the virtual temperature (moist)
 changes the curl/div tendencies by minus the curl/div of the `Y`-weighted pressure gradient -/
theorem cdt_add (eq : PrimitiveEquations K M N) (aux : Diag N) (rT Y : List N) (n : ℕ)
    (L : Laws eq.ops) (hn : 0 < n) (hz : aux.vorticity.length = n) (hu : aux.cosLatU.1.length = n)
    (hv : aux.cosLatU.2.length = n) (hr : rT.length = n) (hY : Y.length = n)
    (hsdf : aux.sigmaDotFull.length = n - 1) (hctc : eq.vert.ctc.length = n - 1) :
    eq.curlAndDivTendenciesWith aux (Col.add rT Y)
      = (List.zipWith (fun z y => z - eq.ops.curlCosLat false (weightedGradSec2 eq.ops y aux.cosLatGradLogSp))
            (eq.curlAndDivTendenciesWith aux rT).1 Y,
         List.zipWith (fun d y => d - eq.ops.divCosLat false (weightedGradSec2 eq.ops y aux.cosLatGradLogSp))
            (eq.curlAndDivTendenciesWith aux rT).2 Y) := by
  unfold PrimitiveEquations.curlAndDivTendenciesWith
  simp only []
  have hlU : (if eq.includeVerticalAdvection = true
      then Col.neg (eq.verticalTendency aux.sigmaDotFull aux.cosLatU.1)
      else Col.zerosLike aux.cosLatU.1).length = n := by
    split_ifs
    · simp [Col.neg, PrimitiveEquations.verticalTendency,
        centeredAdvection_length eq.vert.ctc _ _ n hn hctc hsdf hu]
    · simp [Col.zerosLike, hu]
  have hlV : (if eq.includeVerticalAdvection = true
      then Col.neg (eq.verticalTendency aux.sigmaDotFull aux.cosLatU.2)
      else Col.zerosLike aux.cosLatU.2).length = n := by
    split_ifs
    · simp [Col.neg, PrimitiveEquations.verticalTendency,
        centeredAdvection_length eq.vert.ctc _ _ n hn hctc hsdf hv]
    · simp [Col.zerosLike, hv]
  generalize (if eq.includeVerticalAdvection = true
      then Col.neg (eq.verticalTendency aux.sigmaDotFull aux.cosLatU.1)
      else Col.zerosLike aux.cosLatU.1) = sdU at hlU
  generalize (if eq.includeVerticalAdvection = true
      then Col.neg (eq.verticalTendency aux.sigmaDotFull aux.cosLatU.2)
      else Col.zerosLike aux.cosLatU.2) = sdV at hlV
  have key : ∀ (a b sd1 sd2 r y : N),
      ((eq.ops.toModal (a + (sd1 + (r + y) * aux.cosLatGradLogSp.1) * eq.ops.sec2Lat),
        eq.ops.toModal (b + (sd2 + (r + y) * aux.cosLatGradLogSp.2) * eq.ops.sec2Lat)) : M × M)
      = ((eq.ops.toModal (a + (sd1 + r * aux.cosLatGradLogSp.1) * eq.ops.sec2Lat),
          eq.ops.toModal (b + (sd2 + r * aux.cosLatGradLogSp.2) * eq.ops.sec2Lat)).1
            + (weightedGradSec2 eq.ops y aux.cosLatGradLogSp).1,
         (eq.ops.toModal (a + (sd1 + r * aux.cosLatGradLogSp.1) * eq.ops.sec2Lat),
          eq.ops.toModal (b + (sd2 + r * aux.cosLatGradLogSp.2) * eq.ops.sec2Lat)).2
            + (weightedGradSec2 eq.ops y aux.cosLatGradLogSp).2) := by
    intro a b sd1 sd2 r y
    simp only [weightedGradSec2, ← L.toModal_lin.map_add]
    congr 2 <;> ring
  refine Prod.ext ?_ ?_
  · dsimp only
    apply List.ext_getElem
    · simp [Col.add, hz, hu, hv, hr, hY, hlU, hlV]
    · intro i h1 h2
      simp only [List.getElem_zipWith, List.getElem_map, Col.add]
      rw [key, L.curlCosLat_add]
      module
  · dsimp only
    apply List.ext_getElem
    · simp [Col.add, hz, hu, hv, hr, hY, hlU, hlV]
    · intro i h1 h2
      simp only [List.getElem_zipWith, List.getElem_map, Col.add]
      rw [key, L.divCosLat_add]
      module

end laws

/-! ## assembling the total tendency -/
section assembly
set_option linter.unusedSectionVars false
variable {K M N : Type} [Field K] [DecidableEq K] [AddCommGroup M] [Module K M] [CommRing N] [Algebra K N]

/-- the same state with another temperature-variation column -/
def State.withT (s : State M) (t : List M) : State M := { s with temperatureVariation := t }

/-- `T' + dT • 1` in the spectral basis (`_add_constant` level by level) -/
def shiftM (h : HOps K M N) (x : List M) (dT : List K) : List M :=
  List.zipWith (fun t (d : K) => t + d • h.oneModal) x dT

/-- shapes of an `n`-layer problem -/
structure Shaped (eq : PrimitiveEquations K M N) (s : State M) (n : ℕ) : Prop where
  pos : 0 < n
  hb : eq.vert.boundaries.length = n + 1
  hlc : eq.vert.logCenters.length = n
  tr : eq.referenceTemperature.length = n
  z : s.vorticity.length = n
  d : s.divergence.length = n
  t : s.temperatureVariation.length = n

/-- admissible states: top total wavenumber clipped, divergence without a (0,0) mode -/
structure Admissible (h : HOps K M N) (s : State M) : Prop where
  vort_clip : ∀ z ∈ s.vorticity, h.clip z = z
  div_clip : ∀ d ∈ s.divergence, h.clip d = d
  div_mean : ∀ d ∈ s.divergence, h.laplacian (h.inverseLaplacian d) = d
  lsp_clip : h.clip s.logSurfacePressure = s.logSurfacePressure

theorem diag_shaped (eq : PrimitiveEquations K M N) (s : State M) (n : ℕ) (S : Shaped eq s n) :
    DiagShaped eq (computeDiagnosticState eq.ops eq.vert s) n :=
  { pos := S.pos
    ds := vert_ds_length _ n S.hb
    al := vert_alpha_length _ n S.hlc
    ctc := vert_ctc_length _ n S.hb
    tr := S.tr
    z := by simp [computeDiagnosticState, S.z]
    d := by simp [computeDiagnosticState, S.d]
    t := by simp [computeDiagnosticState, S.t]
    u := by simp [computeDiagnosticState, S.z, S.d]
    v := by simp [computeDiagnosticState, S.z, S.d]
    g := by simp [computeDiagnosticState, S.z, S.d]
    sde := rfl
    sdf := rfl }

theorem diag_shift (h : HOps K M N) (v : Vert K) (s : State M) (dT : List K) (L : Laws h) :
    computeDiagnosticState h v (s.withT (shiftM h s.temperatureVariation dT))
      = (computeDiagnosticState h v s).withT
          (shiftN (computeDiagnosticState h v s).temperatureVariation dT) := by
  have : (shiftM h s.temperatureVariation dT).map h.toNodal
      = shiftN (s.temperatureVariation.map h.toNodal) dT := by
    unfold shiftM shiftN
    rw [List.map_zipWith, List.zipWith_map_left]
    congr 1
    funext t d
    rw [L.toNodal_lin.map_add, L.toNodal_lin.map_smul, L.toNodal_one]
  simp only [computeDiagnosticState, State.withT, Diag.withT, this]


theorem smul_shiftN (R : K) (x : List N) (dT : List K) :
    Col.smul R (shiftN x dT) = Col.add (Col.smul R x) (dT.map fun d => (R * d) • (1 : N)) := by
  apply List.ext_getElem
  · simp [Col.smul, shiftN, Col.add]
  · intro i h1 h2
    simp only [Col.smul, shiftN, Col.add, List.getElem_map, List.getElem_zipWith, smul_add, smul_smul]

theorem geopotentialWeights_length (R : K) (al : List K) :
    (Sigma.geopotentialWeights R al).length = al.length := by
  induction al with
  | nil => rfl
  | cons a t ih => simp [Sigma.geopotentialWeights, ih]

theorem cdt_length (eq : PrimitiveEquations K M N) (aux : Diag N) (rT : List N) (n : ℕ)
    (hn : 0 < n) (hz : aux.vorticity.length = n) (hu : aux.cosLatU.1.length = n)
    (hv : aux.cosLatU.2.length = n) (hr : rT.length = n)
    (hsdf : aux.sigmaDotFull.length = n - 1) (hctc : eq.vert.ctc.length = n - 1) :
    (eq.curlAndDivTendenciesWith aux rT).1.length = n ∧ (eq.curlAndDivTendenciesWith aux rT).2.length = n := by
  unfold PrimitiveEquations.curlAndDivTendenciesWith
  simp only []
  have hlU : (if eq.includeVerticalAdvection = true
      then Col.neg (eq.verticalTendency aux.sigmaDotFull aux.cosLatU.1)
      else Col.zerosLike aux.cosLatU.1).length = n := by
    split_ifs
    · simp [Col.neg, PrimitiveEquations.verticalTendency,
        centeredAdvection_length eq.vert.ctc _ _ n hn hctc hsdf hu]
    · simp [Col.zerosLike, hu]
  have hlV : (if eq.includeVerticalAdvection = true
      then Col.neg (eq.verticalTendency aux.sigmaDotFull aux.cosLatU.2)
      else Col.zerosLike aux.cosLatU.2).length = n := by
    split_ifs
    · simp [Col.neg, PrimitiveEquations.verticalTendency,
        centeredAdvection_length eq.vert.ctc _ _ n hn hctc hsdf hv]
    · simp [Col.zerosLike, hv]
  generalize (if eq.includeVerticalAdvection = true
      then Col.neg (eq.verticalTendency aux.sigmaDotFull aux.cosLatU.1)
      else Col.zerosLike aux.cosLatU.1) = sdU at hlU
  generalize (if eq.includeVerticalAdvection = true
      then Col.neg (eq.verticalTendency aux.sigmaDotFull aux.cosLatU.2)
      else Col.zerosLike aux.cosLatU.2) = sdV at hlV
  constructor <;> simp [Col.add, hz, hu, hv, hr, hlU, hlV]

/-- vorticity: the `dT`-weighted pressure gradient has no curl -/
theorem clip_curl_shift (h : HOps K M N) (L : Laws h) (p : M) (hp : h.clip p = p) (R : K) (Z : List M)
    (dT : List K) (hl : Z.length = dT.length) :
    (List.zipWith (fun z y => z - h.curlCosLat false (weightedGradSec2 h y (nodalGrad h p))) Z
        (dT.map fun d => (R * d) • (1 : N))).map h.clip = Z.map h.clip := by
  apply List.ext_getElem
  · simp [hl]
  · intro i h1 h2
    simp only [List.getElem_map, List.getElem_zipWith]
    rw [L.weighted_smul, L.curlCosLat_smul, L.clip_lin.map_sub, L.clip_lin.map_smul, L.curl_grad p hp]
    simp

/-- divergence: the `dT`-weighted pressure gradient has divergence `dT·∇²p` -/
theorem clip_div_shift (h : HOps K M N) (L : Laws h) (p : M) (hp : h.clip p = p) (R : K) (Z : List M)
    (dT : List K) (hl : Z.length = dT.length) :
    (List.zipWith (fun z y => z - h.divCosLat false (weightedGradSec2 h y (nodalGrad h p))) Z
        (dT.map fun d => (R * d) • (1 : N))).map h.clip
      = List.zipWith (fun z (d : K) => h.clip z - (R * d) • h.laplacian p) Z dT := by
  apply List.ext_getElem
  · simp [hl]
  · intro i h1 h2
    simp only [List.getElem_map, List.getElem_zipWith]
    rw [L.weighted_smul, L.divCosLat_smul, L.clip_lin.map_sub, L.clip_lin.map_smul, L.div_grad p hp]

/-- the implicit divergence tendency under the shift -/
theorem implicit_div_shift (eq : PrimitiveEquations K M N) (L : Laws eq.ops) (T : List M) (p : M)
    (dT : List K) (n : ℕ) (hal : eq.vert.alpha.length = n) (htr : eq.referenceTemperature.length = n)
    (hT : T.length = n) (hd : dT.length = n) :
    (Col.add ((withTRef eq (Col.sub eq.referenceTemperature dT)).geopotentialDiff (shiftM eq.ops T dT))
        ((Col.sub eq.referenceTemperature dT).map fun t => (eq.phys.R * t) • p)).map
          (fun x => -(eq.ops.laplacian x))
      = List.zipWith (fun y (d : K) => y + (eq.phys.R * d) • eq.ops.laplacian p)
          ((Col.add (eq.geopotentialDiff T) (eq.referenceTemperature.map fun t => (eq.phys.R * t) • p)).map
            (fun x => -(eq.ops.laplacian x))) dT := by
  show (Col.add (Col.matvec (Sigma.geopotentialWeights eq.phys.R eq.vert.alpha) (shiftM eq.ops T dT)) _).map _
    = List.zipWith _ ((Col.add (Col.matvec (Sigma.geopotentialWeights eq.phys.R eq.vert.alpha) T) _).map _) dT
  rw [shiftM, matvec_shift _ _ _ _ (by rw [hT, hd])]
  apply List.ext_getElem
  · simp [Col.add, Col.sub, Col.matvec, geopotentialWeights_length, hal, htr, hd]
  · intro i h1 h2
    simp only [List.getElem_map, List.getElem_zipWith, Col.add, Col.sub]
    simp only [L.laplacian_lin.map_add, L.laplacian_lin.map_smul, L.lap_one]
    module


theorem lv_mem {V : Type} [Zero V] (x : List V) (i : ℕ) (h : i < x.length) : lv x i ∈ x := by
  have : lv x i = x[i] := by simp [lv_def, List.getElem?_eq_getElem h]
  rw [this]; exact List.getElem_mem h

theorem Laws.divSecLat_shift {h : HOps K M N} (L : Laws h) (u v a : N) (d : K) :
    h.divSecLat (u * (a + d • (1 : N))) (v * (a + d • (1 : N)))
      = h.divSecLat (u * a) (v * a) + d • h.divSecLat u v := by
  unfold HOps.divSecLat
  have e1 : u * (a + d • (1 : N)) * h.sec2Lat = u * a * h.sec2Lat + d • (u * h.sec2Lat) := by
    simp only [mul_add, mul_smul_comm, mul_one, add_mul, smul_mul_assoc]
  have e2 : v * (a + d • (1 : N)) * h.sec2Lat = v * a * h.sec2Lat + d • (v * h.sec2Lat) := by
    simp only [mul_add, mul_smul_comm, mul_one, add_mul, smul_mul_assoc]
  rw [e1, e2, L.toModal_lin.map_add, L.toModal_lin.map_add, L.toModal_lin.map_smul,
    L.toModal_lin.map_smul]
  rw [← L.divCosLat_smul, ← L.divCosLat_add]

theorem vertTend_length (eq : PrimitiveEquations K M N) (aux : Diag N) (n : ℕ) (S : DiagShaped eq aux n)
    (hinc : eq.includeVerticalAdvection = true) :
    (eq.nodalTemperatureVerticalTendency aux).length = n := by
  unfold PrimitiveEquations.nodalTemperatureVerticalTendency PrimitiveEquations.verticalTendency
  rw [hinc]
  simp only [if_true]
  have l1 := centeredAdvection_length eq.vert.ctc aux.sigmaDotFull aux.temperatureVariation n S.pos
    S.ctc S.sdf_len S.t
  have l2 := centeredAdvection_length eq.vert.ctc aux.sigmaDotExplicit eq.tRef n S.pos
    S.ctc S.sde_len (by simp [PrimitiveEquations.tRef, S.tr])
  split_ifs
  · simp [Col.add, l1, l2]
  · exact l1

theorem adiabatic_length (eq : PrimitiveEquations K M N) (aux : Diag N) (n : ℕ) (S : DiagShaped eq aux n) :
    (eq.nodalTemperatureAdiabaticTendency aux).length = n := by
  unfold PrimitiveEquations.nodalTemperatureAdiabaticTendency
  simp only [tOmega_eq]
  have hg1 := gPart_length eq.vert.ds eq.vert.alpha aux.uDotGradLogSp n S.ds S.al S.g
  have hg2 := gPart_length eq.vert.ds eq.vert.alpha (Col.add aux.uDotGradLogSp aux.divergence) n S.ds S.al
    (by simp [Col.add, S.g, S.d])
  simp only [Col.add] at hg2
  simp [Col.smul, Col.add, Col.mul, Col.sub, PrimitiveEquations.tRef, S.tr, S.g, S.t, hg1, hg2]

/-- the temperature tendency before clipping, level by level, for any adiabatic column -/
theorem lv_temperatureTendency (eq : PrimitiveEquations K M N) (aux : Diag N) (adiab : List N) (n : ℕ)
    (S : DiagShaped eq aux n) (hinc : eq.includeVerticalAdvection = true) (ha : adiab.length = n)
    (i : ℕ) (hi : i < n) :
    lv (eq.thermoTendencies aux adiab).1 i
      = eq.ops.toModal (lv aux.temperatureVariation i * lv aux.divergence i
            + lv (eq.nodalTemperatureVerticalTendency aux) i + lv adiab i)
        + -(eq.ops.divSecLat (lv aux.cosLatU.1 i * lv aux.temperatureVariation i)
              (lv aux.cosLatU.2 i * lv aux.temperatureVariation i)) := by
  unfold PrimitiveEquations.thermoTendencies PrimitiveEquations.horizontalScalarAdvection
  have lv1 := vertTend_length eq aux n S hinc
  simp only []
  rw [lv_add _ _ (by simp [Col.add, Col.mul, S.t, S.d, S.u, S.v, lv1, ha]),
    lv_map _ _ (by simp [Col.add, Col.mul, S.t, S.d, lv1, ha]; exact hi),
    lv_add _ _ (by simp [Col.add, Col.mul, S.t, S.d, lv1, ha]),
    lv_add _ _ (by simp [Col.mul, S.t, S.d, lv1]), lv_mul,
    lv_zipWith _ _ _ (by simp [Col.mul, S.t, S.u]; exact hi) (by simp [Col.mul, S.t, S.v]; exact hi),
    lv_mul, lv_mul]

end assembly

section assembly2
set_option linter.unusedSectionVars false
variable {K M N : Type} [Field K] [DecidableEq K] [AddCommGroup M] [Module K M] [CommRing N] [Algebra K N]

/-- `clip ∘ to_modal` of the explicit reference formulas on the nodal divergence is `H(dT)·δ` -/
theorem clip_toModal_refTerms (eq : PrimitiveEquations K M N) (s : State M) (dT : List K) (n : ℕ)
    (L : Laws eq.ops) (A : Admissible eq.ops s) (S : Shaped eq s n) (hd : dT.length = n)
    (h2 : (1 + 1 : K) ≠ 0) (i : ℕ) (hi : i < n) :
    eq.ops.clip (eq.ops.toModal (lv (refTerms eq.vert eq.phys.kappa dT (s.divergence.map eq.ops.toNodal)) i))
      = lv (Col.matvec (Implicit.hMatrix eq.vert.ds dT eq.vert.alpha eq.phys.kappa) s.divergence) i := by
  have hE : refTerms eq.vert eq.phys.kappa dT (s.divergence.map eq.ops.toNodal)
      = Col.matvec (Implicit.hMatrix eq.vert.ds dT eq.vert.alpha eq.phys.kappa)
          (s.divergence.map eq.ops.toNodal) :=
    (hMatrix_matvec_vert eq.vert dT eq.phys.kappa _ n S.hb S.hlc hd (by simp [S.d]) h2).symm
  have hlen : (Col.matvec (Implicit.hMatrix eq.vert.ds dT eq.vert.alpha eq.phys.kappa)
      (s.divergence.map eq.ops.toNodal)).length = n := by
    simp [Col.matvec, Implicit.hMatrix, vert_ds_length _ n S.hb]
  rw [hE, ← lv_map eq.ops.toModal _ (by rw [hlen]; exact hi), map_matvec _ L.toModal_lin,
    ← lv_map eq.ops.clip _ (by simp [Col.matvec, Implicit.hMatrix, vert_ds_length _ n S.hb]; exact hi),
    map_matvec _ L.clip_lin, List.map_map, List.map_map]
  congr 2
  conv_rhs => rw [← List.map_id s.divergence]
  apply List.map_congr_left
  intro d hdm
  exact L.roundtrip d (A.div_clip d hdm)


theorem temperatureImplicit_length (eq : PrimitiveEquations K M N) (d : List M) (n : ℕ)
    (hds : eq.vert.ds.length = n) : (eq.temperatureImplicit d).length = n := by
  simp [PrimitiveEquations.temperatureImplicit, PrimitiveEquations.temperatureImplicitWeights,
    Col.matvec, Implicit.negMat, Implicit.hMatrix, hds]

theorem thermo_length (eq : PrimitiveEquations K M N) (aux : Diag N) (adiab : List N) (n : ℕ)
    (S : DiagShaped eq aux n) (hinc : eq.includeVerticalAdvection = true) (ha : adiab.length = n) :
    (eq.thermoTendencies aux adiab).1.length = n := by
  unfold PrimitiveEquations.thermoTendencies PrimitiveEquations.horizontalScalarAdvection
  have lv1 := vertTend_length eq aux n S hinc
  simp [Col.add, Col.mul, S.t, S.d, S.u, S.v, lv1, ha]

/-- **temperature equation**: clipped explicit + implicit tendency is unchanged by the shift -/
theorem temperature_field (eq : PrimitiveEquations K M N) (s : State M) (dT : List K) (n : ℕ)
    (L : Laws eq.ops) (A : Admissible eq.ops s) (S : Shaped eq s n) (hd : dT.length = n)
    (hinc : eq.includeVerticalAdvection = true) (h2 : (1 + 1 : K) ≠ 0)
    (adiab1 adiab2 : List N) (ha1 : adiab1.length = n) (ha2 : adiab2.length = n)
    (hadiab : ∀ i, i < n →
      lv ((withTRef eq (Col.sub eq.referenceTemperature dT)).nodalTemperatureVerticalTendency
          ((computeDiagnosticState eq.ops eq.vert s).withT
            (shiftN (computeDiagnosticState eq.ops eq.vert s).temperatureVariation dT))) i + lv adiab2 i
      = lv (eq.nodalTemperatureVerticalTendency (computeDiagnosticState eq.ops eq.vert s)) i + lv adiab1 i
        - lv (refTerms eq.vert eq.phys.kappa dT (computeDiagnosticState eq.ops eq.vert s).divergence) i) :
    Col.add (((withTRef eq (Col.sub eq.referenceTemperature dT)).thermoTendencies
          ((computeDiagnosticState eq.ops eq.vert s).withT
            (shiftN (computeDiagnosticState eq.ops eq.vert s).temperatureVariation dT)) adiab2).1.map eq.ops.clip)
        ((withTRef eq (Col.sub eq.referenceTemperature dT)).temperatureImplicit s.divergence)
      = Col.add ((eq.thermoTendencies (computeDiagnosticState eq.ops eq.vert s) adiab1).1.map eq.ops.clip)
          (eq.temperatureImplicit s.divergence) := by
  have Sd := diag_shaped eq s n S
  have Sd2 := Sd.shift dT hd
  have hds := vert_ds_length eq.vert n S.hb
  have l2 := thermo_length _ _ adiab2 n Sd2 hinc ha2
  have l1 := thermo_length eq _ adiab1 n Sd hinc ha1
  have li2 := temperatureImplicit_length (withTRef eq (Col.sub eq.referenceTemperature dT)) s.divergence n hds
  have li1 := temperatureImplicit_length eq s.divergence n hds
  apply ext_lv (n := n)
  · simp [Col.add, l2, li2]
  · simp [Col.add, l1, li1]
  intro i hi
  rw [lv_add _ _ (by simp [l2, li2]), lv_add _ _ (by simp [l1, li1]),
    lv_map _ _ (by rw [l2]; exact hi), lv_map _ _ (by rw [l1]; exact hi),
    lv_temperatureTendency _ _ adiab2 n Sd2 hinc ha2 i hi, lv_temperatureTendency eq _ adiab1 n Sd hinc ha1 i hi]
  -- the implicit halves
  have hi2 : lv ((withTRef eq (Col.sub eq.referenceTemperature dT)).temperatureImplicit s.divergence) i
      = -(lv (Col.matvec (Implicit.hMatrix eq.vert.ds eq.referenceTemperature eq.vert.alpha eq.phys.kappa)
            s.divergence) i
          - lv (Col.matvec (Implicit.hMatrix eq.vert.ds dT eq.vert.alpha eq.phys.kappa) s.divergence) i) := by
    show lv (Col.matvec (Implicit.negMat (Implicit.hMatrix eq.vert.ds (Col.sub eq.referenceTemperature dT)
      eq.vert.alpha eq.phys.kappa)) s.divergence) i = _
    rw [matvec_negMat, lv_neg, hMatrix_sub _ _ _ _ _ _ n hds S.d (by rw [S.tr, hd]),
      lv_sub _ _ (by simp [Col.matvec, Implicit.hMatrix])]
  have hi1 : lv (eq.temperatureImplicit s.divergence) i
      = -(lv (Col.matvec (Implicit.hMatrix eq.vert.ds eq.referenceTemperature eq.vert.alpha eq.phys.kappa)
            s.divergence) i) := by
    show lv (Col.matvec (Implicit.negMat (Implicit.hMatrix eq.vert.ds eq.referenceTemperature
      eq.vert.alpha eq.phys.kappa)) s.divergence) i = _
    rw [matvec_negMat, lv_neg]
  rw [hi2, hi1]
  -- the explicit halves
  have hT2 : lv (shiftN (computeDiagnosticState eq.ops eq.vert s).temperatureVariation dT) i
      = lv (computeDiagnosticState eq.ops eq.vert s).temperatureVariation i + lv dT i • (1 : N) := by
    rw [shiftN, lv_zipWith _ _ _ (by rw [Sd.t]; exact hi) (by rw [hd]; exact hi)]
  show eq.ops.clip (eq.ops.toModal
        (lv (shiftN (computeDiagnosticState eq.ops eq.vert s).temperatureVariation dT) i
            * lv (computeDiagnosticState eq.ops eq.vert s).divergence i
          + lv ((withTRef eq (Col.sub eq.referenceTemperature dT)).nodalTemperatureVerticalTendency
              ((computeDiagnosticState eq.ops eq.vert s).withT
                (shiftN (computeDiagnosticState eq.ops eq.vert s).temperatureVariation dT))) i
          + lv adiab2 i)
      + -(eq.ops.divSecLat
          (lv (computeDiagnosticState eq.ops eq.vert s).cosLatU.1 i
            * lv (shiftN (computeDiagnosticState eq.ops eq.vert s).temperatureVariation dT) i)
          (lv (computeDiagnosticState eq.ops eq.vert s).cosLatU.2 i
            * lv (shiftN (computeDiagnosticState eq.ops eq.vert s).temperatureVariation dT) i))) + _ = _
  have hth := hadiab i hi
  have hF1 := clip_toModal_refTerms eq s dT n L A S hd h2 i hi
  have hdn : lv (computeDiagnosticState eq.ops eq.vert s).divergence i = eq.ops.toNodal (lv s.divergence i) := by
    show lv (s.divergence.map eq.ops.toNodal) i = _
    rw [lv_map _ _ (by rw [S.d]; exact hi)]
  have hmem := lv_mem s.divergence i (by rw [S.d]; exact hi)
  have hF2 : eq.ops.clip (eq.ops.toModal (eq.ops.toNodal (lv s.divergence i))) = lv s.divergence i :=
    L.roundtrip _ (A.div_clip _ hmem)
  have hu : lv (computeDiagnosticState eq.ops eq.vert s).cosLatU.1 i
      = eq.ops.toNodal (eq.ops.cosLatVector false (lv s.vorticity i) (lv s.divergence i)).1 := by
    show lv ((List.zipWith (fun z d => eq.ops.cosLatVector false z d) s.vorticity s.divergence).map _) i = _
    rw [lv_map _ _ (by simp [S.z, S.d]; exact hi), lv_zipWith _ _ _ (by rw [S.z]; exact hi) (by rw [S.d]; exact hi)]
  have hv : lv (computeDiagnosticState eq.ops eq.vert s).cosLatU.2 i
      = eq.ops.toNodal (eq.ops.cosLatVector false (lv s.vorticity i) (lv s.divergence i)).2 := by
    show lv ((List.zipWith (fun z d => eq.ops.cosLatVector false z d) s.vorticity s.divergence).map _) i = _
    rw [lv_map _ _ (by simp [S.z, S.d]; exact hi), lv_zipWith _ _ _ (by rw [S.z]; exact hi) (by rw [S.d]; exact hi)]
  have hF3 := L.div_uv (lv s.vorticity i) (lv s.divergence i)
    (A.vort_clip _ (lv_mem s.vorticity i (by rw [S.z]; exact hi))) (A.div_clip _ hmem) (A.div_mean _ hmem)
  rw [← hu, ← hv] at hF3
  have hE : (computeDiagnosticState eq.ops eq.vert s).divergence = s.divergence.map eq.ops.toNodal := rfl
  rw [hE] at hth
  generalize lv ((withTRef eq (Col.sub eq.referenceTemperature dT)).nodalTemperatureVerticalTendency
              ((computeDiagnosticState eq.ops eq.vert s).withT
                (shiftN (computeDiagnosticState eq.ops eq.vert s).temperatureVariation dT))) i = V2 at *
  generalize lv (eq.nodalTemperatureVerticalTendency (computeDiagnosticState eq.ops eq.vert s)) i = V1 at *
  generalize lv (refTerms eq.vert eq.phys.kappa dT (s.divergence.map eq.ops.toNodal)) i = E at *
  rw [hT2, hdn]
  generalize lv (computeDiagnosticState eq.ops eq.vert s).temperatureVariation i = a at *
  generalize lv (computeDiagnosticState eq.ops eq.vert s).cosLatU.1 i = u at *
  generalize lv (computeDiagnosticState eq.ops eq.vert s).cosLatU.2 i = v at *
  have e : (a + lv dT i • (1 : N)) * eq.ops.toNodal (lv s.divergence i) + V2 + lv adiab2 i
      = (a * eq.ops.toNodal (lv s.divergence i) + V1 + lv adiab1 i)
        + lv dT i • eq.ops.toNodal (lv s.divergence i) - E := by
    rw [add_assoc, hth, add_mul, smul_mul_assoc, one_mul]
    module
  rw [e, L.divSecLat_shift]
  simp only [L.toModal_lin.map_add, L.toModal_lin.map_sub, L.toModal_lin.map_smul,
    L.clip_lin.map_add, L.clip_lin.map_sub, L.clip_lin.map_smul, L.clip_lin.map_neg, hF1, hF2, hF3]
  module


/-- **divergence equation**: clipped explicit + implicit tendency is unchanged by the shift -/
theorem divergence_field (eq : PrimitiveEquations K M N) (L : Laws eq.ops) (p : M) (hp : eq.ops.clip p = p)
    (D ke T : List M) (oro : M) (dT : List K) (n : ℕ) (hal : eq.vert.alpha.length = n)
    (htr : eq.referenceTemperature.length = n) (hT : T.length = n) (hd : dT.length = n)
    (hD : D.length = n) (hke : ke.length = n) :
    Col.add (List.map eq.ops.clip (Col.addLevel (Col.add
          (List.zipWith (fun d y => d - eq.ops.divCosLat false (weightedGradSec2 eq.ops y (nodalGrad eq.ops p))) D
            (dT.map fun d => (eq.phys.R * d) • (1 : N))) ke) oro))
        ((Col.add ((withTRef eq (Col.sub eq.referenceTemperature dT)).geopotentialDiff (shiftM eq.ops T dT))
          ((Col.sub eq.referenceTemperature dT).map fun t => (eq.phys.R * t) • p)).map
            (fun x => -(eq.ops.laplacian x)))
      = Col.add (List.map eq.ops.clip (Col.addLevel (Col.add D ke) oro))
          ((Col.add (eq.geopotentialDiff T) (eq.referenceTemperature.map fun t => (eq.phys.R * t) • p)).map
            (fun x => -(eq.ops.laplacian x))) := by
  rw [implicit_div_shift eq L T p dT n hal htr hT hd]
  have hg : (eq.geopotentialDiff T).length = n := by
    simp [PrimitiveEquations.geopotentialDiff, Col.matvec, geopotentialWeights_length, hal]
  apply List.ext_getElem
  · simp [Col.add, Col.addLevel, hD, hke, hd, hg, htr]
  · intro i h1 h2
    simp only [Col.add, Col.addLevel, List.getElem_map, List.getElem_zipWith]
    rw [L.weighted_smul, L.divCosLat_smul]
    simp only [L.clip_lin.map_add, L.clip_lin.map_sub, L.clip_lin.map_smul, L.div_grad p hp]
    module

/-- `explicit + implicit` (the full tendency), as a `State` -/
def total (eq : PrimitiveEquations K M N) (s : State M) : State M :=
  State.add (eq.explicitTerms s) (eq.implicitTerms s)

theorem State.ext' {a b : State M} (h1 : a.vorticity = b.vorticity) (h2 : a.divergence = b.divergence)
    (h3 : a.temperatureVariation = b.temperatureVariation)
    (h4 : a.logSurfacePressure = b.logSurfacePressure) (h5 : a.tracers = b.tracers) : a = b := by
  cases a; cases b; simp_all

/-- **the dry total tendency is invariant under the shift** `T_ref → T_ref − dT`, `T' → T' + dT·1` -/
theorem total_shift (eq : PrimitiveEquations K M N) (s : State M) (dT : List K) (n : ℕ)
    (L : Laws eq.ops) (A : Admissible eq.ops s) (S : Shaped eq s n) (hd : dT.length = n)
    (hinc : eq.includeVerticalAdvection = true) (h2 : (1 + 1 : K) ≠ 0) :
    total (withTRef eq (Col.sub eq.referenceTemperature dT))
        (s.withT (shiftM eq.ops s.temperatureVariation dT))
      = total eq s := by
  have Sd := diag_shaped eq s n S
  have hdg : computeDiagnosticState (withTRef eq (Col.sub eq.referenceTemperature dT)).ops
      (withTRef eq (Col.sub eq.referenceTemperature dT)).vert
      (s.withT (shiftM eq.ops s.temperatureVariation dT))
      = (computeDiagnosticState eq.ops eq.vert s).withT
          (shiftN (computeDiagnosticState eq.ops eq.vert s).temperatureVariation dT) :=
    diag_shift eq.ops eq.vert s dT L
  have hcl := cdt_length eq (computeDiagnosticState eq.ops eq.vert s)
    (Col.smul eq.phys.R (computeDiagnosticState eq.ops eq.vert s).temperatureVariation) n S.pos Sd.z Sd.u Sd.v
    (by simp [Col.smul, Sd.t]) Sd.sdf_len Sd.ctc
  have hcd : (withTRef eq (Col.sub eq.referenceTemperature dT)).curlAndDivTendencies
      ((computeDiagnosticState eq.ops eq.vert s).withT
          (shiftN (computeDiagnosticState eq.ops eq.vert s).temperatureVariation dT))
      = _ :=
    (congrArg (eq.curlAndDivTendenciesWith (computeDiagnosticState eq.ops eq.vert s))
      (smul_shiftN eq.phys.R (computeDiagnosticState eq.ops eq.vert s).temperatureVariation dT)).trans
    (cdt_add eq (computeDiagnosticState eq.ops eq.vert s) _ _ n L S.pos Sd.z Sd.u Sd.v
      (by simp [Col.smul, Sd.t]) (by simp [hd]) Sd.sdf_len Sd.ctc)
  unfold total PrimitiveEquations.explicitTerms PrimitiveEquations.implicitTerms
  rw [hdg]
  apply State.ext'
  · -- vorticity
    show Col.add (List.map eq.ops.clip _) _ = Col.add (List.map eq.ops.clip _) _
    rw [hcd]
    congr 1
    exact clip_curl_shift eq.ops L s.logSurfacePressure A.lsp_clip eq.phys.R _ dT (by rw [hcl.1, hd])
  · -- divergence
    show Col.add (List.map eq.ops.clip (Col.addLevel (Col.add _ _) _)) _
      = Col.add (List.map eq.ops.clip (Col.addLevel (Col.add _ _) _)) _
    rw [hcd]
    exact divergence_field eq L s.logSurfacePressure A.lsp_clip _ _ s.temperatureVariation _ dT n
      Sd.al S.tr S.t hd hcl.2 (by simp [PrimitiveEquations.kineticEnergyTendency, (Sd.shift dT hd).u, (Sd.shift dT hd).v])
  · -- temperature
    exact temperature_field eq s dT n L A S hd hinc h2 _ _ (adiabatic_length eq _ n Sd)
      (adiabatic_length _ _ n (Sd.shift dT hd)) (fun i hi => thermo_level eq _ n Sd dT hd hinc i hi)
  · rfl
  · rfl

end assembly2

/-! ## the moist classes -/
section moist
set_option linter.unusedSectionVars false
variable {K M N : Type} [Field K] [DecidableEq K] [AddCommGroup M] [Module K M] [CommRing N] [Algebra K N]
  [Div N]

theorem lookup_mapTracers {α β : Type} (f : α → β) (name : String) (t : List (String × α)) :
    lookup name (mapTracers f t) = (lookup name t).map f := by
  induction t with
  | nil => rfl
  | cons kv t ih =>
    obtain ⟨k, v⟩ := kv
    simp only [mapTracers, List.map_cons, lookup] at ih ⊢
    split_ifs
    · rfl
    · exact ih

/-- the body of `vorticity_tendency_due_to_humidity` for a given modal humidity column -/
def humVortOf (eq : PrimitiveEquations K M N) (qm : List M) (aux : Diag N) : List M :=
  (List.zipWith
    (fun (tr : N) (g : N × N) => tr * constN (eq.phys.Rvapor - eq.phys.R) * eq.ops.sec2Lat
        * (aux.cosLatGradLogSp.1 * g.2 - aux.cosLatGradLogSp.2 * g.1))
    eq.tRef (MoistPrimitiveEquations.nodalCosLatGradQ eq qm)).map eq.ops.toModal

/-- the body of `divergence_tendency_due_to_humidity` -/
def humDivOf (eq : PrimitiveEquations K M N) (p : M) (q : List N) (qm : List M) (aux : Diag N) : List M :=
  let nodalLaplacianLsp := eq.ops.toNodal (eq.ops.laplacian p)
  let nodalLaplacianCorrectionTerm := List.zipWith
    (fun qq (tr : N) => qq * nodalLaplacianLsp * tr * constN (eq.phys.Rvapor - eq.phys.R)) q eq.tRef
  let gq := MoistPrimitiveEquations.nodalCosLatGradQ eq qm
  let nodalDotTerm := List.zipWith
    (fun (tr : N) (g : N × N) => tr * constN (eq.phys.Rvapor - eq.phys.R) * eq.ops.sec2Lat
        * (g.1 * aux.cosLatGradLogSp.1 + g.2 * aux.cosLatGradLogSp.2))
    eq.tRef gq
  let temperature := Col.add aux.temperatureVariation eq.tRef
  let temperatureDiff := List.zipWith (fun qq t => (eq.phys.Rvapor / eq.phys.R - 1) • (qq * t)) q temperature
  let geopotentialDiff := eq.geopotentialDiff temperatureDiff
  List.zipWith
    (fun gd tm => -(eq.ops.laplacian (eq.ops.toModal gd)) - eq.ops.toModal tm)
    geopotentialDiff (Col.add nodalDotTerm nodalLaplacianCorrectionTerm)

/-- the body of the moist `nodal_temperature_adiabatic_tendency` -/
def moistAdiabOf (eq : PrimitiveEquations K M N) (q : List N) (aux : Diag N) : List N :=
  let gasConstRatio := eq.phys.Rvapor / eq.phys.R
  let cp := eq.phys.R / eq.phys.kappa
  let heatCapacityRatio := eq.phys.CpVapor / cp
  let gExplicit := aux.uDotGradLogSp
  let gFull := Col.add gExplicit aux.divergence
  let meanTPart := eq.tOmegaOverSigmaSp eq.tRef gExplicit aux.uDotGradLogSp
  let variationTemperatureComponent := List.zipWith
    (fun t qq => t * (((1 : N) + (gasConstRatio - 1) • qq) / ((1 : N) + (heatCapacityRatio - 1) • qq)))
    aux.temperatureVariation q
  let humidityReferenceComponent := List.zipWith
    (fun (tr : N) qq => tr * (((gasConstRatio - heatCapacityRatio) • qq)
        / ((1 : N) + (heatCapacityRatio - 1) • qq)))
    eq.tRef q
  let variationAndHumidityTerms := Col.add variationTemperatureComponent humidityReferenceComponent
  let variationAndTvPart := eq.tOmegaOverSigmaSp variationAndHumidityTerms gFull aux.uDotGradLogSp
  Col.smul eq.phys.kappa (Col.add meanTPart variationAndTvPart)

/-- the moist explicit terms when every tracer lookup succeeds -/
def moistExplicitOf (eq : PrimitiveEquations K M N) (s : State M) (aux : Diag N) (rTv : List N)
    (q : List N) (qm : List M) : State M :=
  let cd := eq.curlAndDivTendenciesWith aux rTv
  let th := eq.thermoTendencies aux (moistAdiabOf eq q aux)
  eq.clipState
    { vorticity := Col.add cd.1 (humVortOf eq qm aux)
      divergence := Col.add (Col.addLevel (Col.add cd.2 (eq.kineticEnergyTendency aux)) eq.orographyTendency)
        (humDivOf eq s.logSurfacePressure q qm aux)
      temperatureVariation := th.1
      logSurfacePressure := th.2.1
      tracers := th.2.2 }

/-- evaluation of `MoistPrimitiveEquations.explicit_terms` (any `_virtual_temperature` method)
 on a state that carries specific humidity -/
theorem explicitTermsWith_eval (eq : PrimitiveEquations K M N) (vt : Diag N → List N → Option (List N))
    (s : StateWithTime K M) (qm : List M) (rTv : List N)
    (hq : lookup specificHumidityKey s.state.tracers = some qm)
    (hvt : vt (computeDiagnosticState eq.ops eq.vert s.state)
        (Col.smul (eq.phys.Rvapor / eq.phys.R - 1) (qm.map eq.ops.toNodal)) = some rTv) :
    MoistPrimitiveEquations.explicitTermsWith eq vt s
      = some { state := moistExplicitOf eq s.state (computeDiagnosticState eq.ops eq.vert s.state) rTv
                  (qm.map eq.ops.toNodal) qm
               simTime := 1 } := by
  have hqn : lookup specificHumidityKey (computeDiagnosticState eq.ops eq.vert s.state).tracers
      = some (qm.map eq.ops.toNodal) := by
    show lookup specificHumidityKey (mapTracers _ s.state.tracers) = _
    rw [lookup_mapTracers, hq]; rfl
  simp only [MoistPrimitiveEquations.explicitTermsWith, MoistPrimitiveEquations.curlAndDivTendencies,
    MoistPrimitiveEquations.vorticityTendencyDueToHumidity,
    MoistPrimitiveEquations.divergenceTendencyDueToHumidity,
    MoistPrimitiveEquations.nodalTemperatureAdiabaticTendency,
    MoistPrimitiveEquations.getSpecificHumidity, hq, hqn, hvt, Option.bind_eq_bind, Option.bind_some,
    Option.pure_def]
  rfl


/-- the vertical temperature tendency under the shift -/
theorem vert_level (eq : PrimitiveEquations K M N) (aux : Diag N) (n : ℕ) (S : DiagShaped eq aux n)
    (dT : List K) (hd : dT.length = n) (hinc : eq.includeVerticalAdvection = true) (i : ℕ) (hi : i < n) :
    lv ((withTRef eq (Col.sub eq.referenceTemperature dT)).nodalTemperatureVerticalTendency
          (aux.withT (shiftN aux.temperatureVariation dT))) i
      = lv (eq.nodalTemperatureVerticalTendency aux) i
        + lv (advScalar eq.vert.ctc (sigmaDotOf eq.vert.ds (Col.cumSigmaIntegral eq.vert.ds aux.divergence)) dT) i := by
  have S2 := S.shift dT hd
  rw [lv_vertTend _ _ n S2 hinc i hi, lv_vertTend eq aux n S hinc i hi]
  show lv (Col.centeredAdvection eq.vert.ctc aux.sigmaDotFull (shiftN aux.temperatureVariation dT)) i
      + lv (advScalar eq.vert.ctc aux.sigmaDotExplicit (Col.sub eq.referenceTemperature dT)) i = _
  have hsdd := sigmaDotOf_length eq.vert.ds (Col.cumSigmaIntegral eq.vert.ds aux.divergence) n S.ds
    (by simp [S.ds, S.d])
  have hw : lv (advScalar eq.vert.ctc aux.sigmaDotFull dT) i
      = lv (advScalar eq.vert.ctc (sigmaDotOf eq.vert.ds (Col.cumSigmaIntegral eq.vert.ds aux.divergence)) dT) i
        + lv (advScalar eq.vert.ctc aux.sigmaDotExplicit dT) i := by
    apply lv_advScalar_add_w _ _ _ _ _ n S.ctc S.sdf_len hsdd S.sde_len hd _ i hi
    intro j
    rw [S.sdf, S.sde]
    exact lv_sigmaDot_add _ _ _ n S.ds S.d S.g j
  rw [shiftN, lv_adv_shift _ _ _ _ n S.ctc S.sdf_len S.t hd i hi, hw,
    lv_advScalar_sub _ _ _ _ n S.ctc S.sde_len S.tr hd i hi]
  ring

/-- the two humidity factors of the moist adiabatic term -/
def moistA (eq : PrimitiveEquations K M N) (qq : N) : N :=
  ((1 : N) + (eq.phys.Rvapor / eq.phys.R - 1) • qq)
    / ((1 : N) + (eq.phys.CpVapor / (eq.phys.R / eq.phys.kappa) - 1) • qq)
def moistB (eq : PrimitiveEquations K M N) (qq : N) : N :=
  ((eq.phys.Rvapor / eq.phys.R - eq.phys.CpVapor / (eq.phys.R / eq.phys.kappa)) • qq)
    / ((1 : N) + (eq.phys.CpVapor / (eq.phys.R / eq.phys.kappa) - 1) • qq)

theorem moistAdiab_length (eq : PrimitiveEquations K M N) (q : List N) (aux : Diag N) (n : ℕ)
    (S : DiagShaped eq aux n) (hq : q.length = n) : (moistAdiabOf eq q aux).length = n := by
  unfold moistAdiabOf
  simp only [tOmega_eq]
  have hg1 := gPart_length eq.vert.ds eq.vert.alpha aux.uDotGradLogSp n S.ds S.al S.g
  have hg2 := gPart_length eq.vert.ds eq.vert.alpha (Col.add aux.uDotGradLogSp aux.divergence) n S.ds S.al
    (by simp [Col.add, S.g, S.d])
  simp only [Col.add] at hg2
  simp [Col.smul, Col.add, Col.mul, Col.sub, PrimitiveEquations.tRef, S.tr, S.g, S.t, hg1, hg2, hq]

/-- the moist adiabatic tendency, level by level -/
theorem lv_moistAdiab (eq : PrimitiveEquations K M N) (q : List N) (aux : Diag N) (n : ℕ)
    (S : DiagShaped eq aux n) (hq : q.length = n) (i : ℕ) (hi : i < n) :
    lv (moistAdiabOf eq q aux) i
      = eq.phys.kappa • (constN (lv eq.referenceTemperature i)
            * (lv aux.uDotGradLogSp i - lv (gPart eq.vert.ds eq.vert.alpha aux.uDotGradLogSp) i)
          + (lv aux.temperatureVariation i * moistA eq (lv q i)
              + constN (lv eq.referenceTemperature i) * moistB eq (lv q i))
            * (lv aux.uDotGradLogSp i - (lv (gPart eq.vert.ds eq.vert.alpha aux.uDotGradLogSp) i
                + lv (gPart eq.vert.ds eq.vert.alpha aux.divergence) i))) := by
  unfold moistAdiabOf
  simp only [tOmega_eq]
  have hg1 := gPart_length eq.vert.ds eq.vert.alpha aux.uDotGradLogSp n S.ds S.al S.g
  have hg2 := gPart_length eq.vert.ds eq.vert.alpha (Col.add aux.uDotGradLogSp aux.divergence) n S.ds S.al
    (by simp [Col.add, S.g, S.d])
  have hg2' := hg2
  simp only [Col.add] at hg2'
  rw [lv_smul, lv_add _ _ (by simp [Col.mul, Col.sub, Col.add, PrimitiveEquations.tRef, S.tr, S.g, S.t, hg1, hg2', hq]),
    lv_mul, lv_mul, lv_sub _ _ (by rw [S.g, hg1]), lv_sub _ _ (by rw [S.g, hg2]),
    lv_gPart_add _ _ _ _ n S.ds S.al S.g S.d i hi,
    lv_add _ _ (by simp [PrimitiveEquations.tRef, S.tr, S.t, hq]),
    lv_zipWith _ _ _ (by rw [S.t]; exact hi) (by rw [hq]; exact hi),
    lv_zipWith _ _ _ (by simp [PrimitiveEquations.tRef, S.tr]; exact hi) (by rw [hq]; exact hi),
    PrimitiveEquations.tRef, lv_map_zero _ constN_zero]
  rfl

/-- the pointwise identity `(1+ε_R q)/(1+ε_cp q) − (ε_R−ε_cp)q/(1+ε_cp q) = 1` when division by
 `1+ε_cp q` is a true inverse -/
theorem moistA_sub_moistB (eq : PrimitiveEquations K M N) (qq : N)
    (hdiv : ∀ x : N, ((1 : N) + (eq.phys.CpVapor / (eq.phys.R / eq.phys.kappa) - 1) • qq)
        * (x / ((1 : N) + (eq.phys.CpVapor / (eq.phys.R / eq.phys.kappa) - 1) • qq)) = x) :
    moistA eq qq - moistB eq qq = 1 := by
  unfold moistA moistB
  generalize eq.phys.Rvapor / eq.phys.R = r at *
  generalize eq.phys.CpVapor / (eq.phys.R / eq.phys.kappa) = c at *
  have h1 := hdiv ((1 : N) + (r - 1) • qq)
  have h2 := hdiv ((r - c) • qq)
  have h3 := hdiv 1
  generalize ((1 : N) + (r - 1) • qq) / ((1 : N) + (c - 1) • qq) = a at *
  generalize ((r - c) • qq) / ((1 : N) + (c - 1) • qq) = b at *
  generalize (1 : N) / ((1 : N) + (c - 1) • qq) = inv at *
  have e : ((1 : N) + (c - 1) • qq) * (a - b) = (1 : N) + (c - 1) • qq := by
    rw [mul_sub, h1, h2]; module
  calc a - b = (((1 : N) + (c - 1) • qq) * inv) * (a - b) := by rw [h3, one_mul]
    _ = inv * (((1 : N) + (c - 1) • qq) * (a - b)) := by ring
    _ = inv * ((1 : N) + (c - 1) • qq) := by rw [e]
    _ = 1 := by rw [mul_comm, h3]

/-- `vertical + moist adiabatic` under the shift: the hypothesis `hadiab` of `temperature_field` -/
theorem moist_thermo_level (eq : PrimitiveEquations K M N) (aux : Diag N) (q : List N) (n : ℕ)
    (S : DiagShaped eq aux n) (hq : q.length = n)
    (dT : List K) (hd : dT.length = n) (hinc : eq.includeVerticalAdvection = true) (i : ℕ) (hi : i < n)
    (hdiv : ∀ x : N, ((1 : N) + (eq.phys.CpVapor / (eq.phys.R / eq.phys.kappa) - 1) • lv q i)
        * (x / ((1 : N) + (eq.phys.CpVapor / (eq.phys.R / eq.phys.kappa) - 1) • lv q i)) = x) :
    lv ((withTRef eq (Col.sub eq.referenceTemperature dT)).nodalTemperatureVerticalTendency
          (aux.withT (shiftN aux.temperatureVariation dT))) i
      + lv (moistAdiabOf (withTRef eq (Col.sub eq.referenceTemperature dT)) q
          (aux.withT (shiftN aux.temperatureVariation dT))) i
    = lv (eq.nodalTemperatureVerticalTendency aux) i + lv (moistAdiabOf eq q aux) i
      - lv (refTerms eq.vert eq.phys.kappa dT aux.divergence) i := by
  have S2 := S.shift dT hd
  rw [vert_level eq aux n S dT hd hinc i hi, lv_moistAdiab _ q _ n S2 hq i hi, lv_moistAdiab eq q aux n S hq i hi]
  show _ + eq.phys.kappa • (constN (lv (Col.sub eq.referenceTemperature dT) i)
            * (lv aux.uDotGradLogSp i - lv (gPart eq.vert.ds eq.vert.alpha aux.uDotGradLogSp) i)
          + (lv (shiftN aux.temperatureVariation dT) i * moistA eq (lv q i)
              + constN (lv (Col.sub eq.referenceTemperature dT) i) * moistB eq (lv q i))
            * (lv aux.uDotGradLogSp i - (lv (gPart eq.vert.ds eq.vert.alpha aux.uDotGradLogSp) i
                + lv (gPart eq.vert.ds eq.vert.alpha aux.divergence) i))) = _
  have hsdd := sigmaDotOf_length eq.vert.ds (Col.cumSigmaIntegral eq.vert.ds aux.divergence) n S.ds
    (by simp [S.ds, S.d])
  have hgp := gPart_length eq.vert.ds eq.vert.alpha aux.divergence n S.ds S.al S.d
  have hab := moistA_sub_moistB eq (lv q i) hdiv
  have hA : moistA eq (lv q i) = 1 + moistB eq (lv q i) := by rw [← hab]; ring
  rw [lv_sub _ _ (by rw [S.tr, hd]), shiftN,
    lv_zipWith _ _ _ (by rw [S.t]; exact hi) (by rw [hd]; exact hi)]
  unfold refTerms
  rw [lv_sub _ _ (by simp [Col.smul, hgp, hd, advScalar_length _ _ _ n S.pos S.ctc hsdd hd]),
    lv_smul, lv_wmul, hA]
  simp only [constN_eq, Algebra.smul_def, map_sub, mul_one]
  ring

end moist
end Dino.Dynamics
