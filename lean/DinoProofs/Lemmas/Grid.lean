import Dino.Grid
import DinoProofs.Lemmas.Lin
import Mathlib.Algebra.Field.Basic
import Mathlib.Tactic.Ring
import Mathlib.Tactic.FieldSimp
import Mathlib.Algebra.CharZero.Defs
import Mathlib.Data.Nat.Cast.Field
import Mathlib.Tactic.LinearCombination
import Mathlib.Tactic.Push

/-! Entry formulas and shape lemmas for the `Grid` operators of `Dino.Grid`. -/
set_option linter.unusedSectionVars false
set_option linter.unusedSimpArgs false

namespace Dino.Grid
open Dino.Lin Dino.Fourier

/-- `x` is an `R × C` array -/
def IsMat {α : Type} (x : List (List α)) (R C : Nat) : Prop :=
  x.length = R ∧ ∀ row ∈ x, row.length = C

section basic
variable {K : Type} [CommRing K]

theorem ent_eq_getElem (v : List K) (j : Nat) (h : j < v.length) : ent v j = v[j] := by
  simp [ent, List.getD_eq_getElem?_getD, List.getElem?_eq_getElem h]

theorem vec_ext (u v : List K) (h : u.length = v.length) (he : ∀ j < u.length, ent u j = ent v j) :
    u = v := by
  apply List.ext_getElem h
  intro j h1 h2
  have := he j h1
  rwa [ent_eq_getElem u j h1, ent_eq_getElem v j h2] at this

theorem getD_row_length (x : List (List K)) (R C i : Nat) (hx : IsMat x R C) (hi : i < R) :
    (x.getD i []).length = C := by
  have h : i < x.length := by rw [hx.1]; exact hi
  simp only [List.getD_eq_getElem?_getD, List.getElem?_eq_getElem h, Option.getD_some]
  exact hx.2 _ (List.getElem_mem h)

/-- two arrays of the same shape with the same entries are equal -/
theorem mat_ext (x y : List (List K)) (R C : Nat) (hx : IsMat x R C) (hy : IsMat y R C)
    (he : ∀ i < R, ∀ j < C, ent2 x i j = ent2 y i j) : x = y := by
  apply List.ext_getElem (by rw [hx.1, hy.1])
  intro i h1 h2
  have hiR : i < R := by rw [← hx.1]; exact h1
  have l1 : (x[i]).length = C := hx.2 _ (List.getElem_mem h1)
  have l2 : (y[i]).length = C := hy.2 _ (List.getElem_mem h2)
  apply vec_ext _ _ (by rw [l1, l2])
  intro j hj
  have := he i hiR j (by rw [← l1]; exact hj)
  simpa [ent2, ent, List.getD_eq_getElem?_getD, List.getElem?_eq_getElem h1,
    List.getElem?_eq_getElem h2] using this

theorem ent2_of_row_le (x : List (List K)) (i j : Nat) (h : x.length ≤ i) : ent2 x i j = 0 := by
  simp [ent2, List.getD_eq_getElem?_getD, List.getElem?_eq_none h]

theorem ent2_of_col_le (x : List (List K)) (R C i j : Nat) (hx : IsMat x R C) (h : C ≤ j) :
    ent2 x i j = 0 := by
  by_cases hi : i < R
  · rw [ent2_eq_ent]
    exact ent_of_length_le _ _ (by rw [getD_row_length x R C i hx hi]; exact h)
  · exact ent2_of_row_le x i j (by rw [hx.1]; omega)

theorem ent_map_of_zero (f : K → K) (hf : f 0 = 0) (v : List K) (j : Nat) :
    ent (v.map f) j = f (ent v j) := by
  simp only [ent, List.getD_eq_getElem?_getD, List.getElem?_map]
  cases v[j]? <;> simp [hf]

theorem ent2_map_rows (f : List K → List K) (hf : f [] = []) (x : List (List K)) (i j : Nat) :
    ent2 (x.map f) i j = ent (f (x.getD i [])) j := by
  rw [ent2_eq_ent, getD_map_nil f x i [] hf]

theorem ent_zipWith_mul' (a b : List K) (i : Nat) :
    ent (List.zipWith (· * ·) a b) i = ent a i * ent b i := ent_zipWith_mul a b i

theorem ent_zipWith_sub (a b : List K) (i : Nat) (h : a.length = b.length) :
    ent (List.zipWith (· - ·) a b) i = ent a i - ent b i := by
  induction a generalizing b i with
  | nil => cases b <;> simp_all
  | cons x t ih =>
    cases b with
    | nil => simp at h
    | cons y u =>
      cases i with
      | zero => simp
      | succ i => simp [ih u i (by simpa using h)]

/-! ### element-wise operators -/

theorem ent2_mulCols (x : List (List K)) (v : List K) (i j : Nat) :
    ent2 (mulCols x v) i j = ent2 x i j * ent v j := by
  unfold mulCols
  rw [ent2_map_rows _ (by simp), ent_zipWith_mul, ← ent2_eq_ent]

theorem ent2_colsMul (v : List K) (x : List (List K)) (i j : Nat) :
    ent2 (colsMul v x) i j = ent v j * ent2 x i j := by
  unfold colsMul
  rw [ent2_map_rows _ (by simp), ent_zipWith_mul, ← ent2_eq_ent]

theorem ent2_mneg (x : List (List K)) (i j : Nat) : ent2 (mneg x) i j = -ent2 x i j := by
  unfold mneg
  rw [ent2_map_rows _ (by simp), ent_map_of_zero _ (by simp), ← ent2_eq_ent]

theorem ent2_mscale (c : K) (x : List (List K)) (i j : Nat) :
    ent2 (mscale c x) i j = c * ent2 x i j := by
  unfold mscale
  rw [ent2_map_rows _ (by simp [scale]), ent_scale, ← ent2_eq_ent]

theorem getD_zipWith_rows (f : List K → List K → List K) (x y : List (List K)) (i : Nat)
    (hf : ∀ u, f u [] = []) (hf' : ∀ u, f [] u = []) :
    (List.zipWith f x y).getD i [] = f (x.getD i []) (y.getD i []) := by
  simp only [List.getD_eq_getElem?_getD, List.getElem?_zipWith]
  cases hx : x[i]? <;> cases hy : y[i]? <;> simp [hf, hf']

theorem ent2_emul (x y : List (List K)) (i j : Nat) :
    ent2 (emul x y) i j = ent2 x i j * ent2 y i j := by
  unfold emul
  rw [ent2_eq_ent, getD_zipWith_rows _ _ _ _ (by simp) (by simp), ent_zipWith_mul]
  rfl

theorem ent2_madd (x y : List (List K)) (R C i j : Nat) (hx : IsMat x R C) (hy : IsMat y R C) :
    ent2 (madd x y) i j = ent2 x i j + ent2 y i j := by
  unfold madd
  rw [ent2_eq_ent, getD_zipWith_rows _ _ _ _ (by simp [vadd]) (by simp [vadd])]
  by_cases hi : i < R
  · rw [ent_vadd _ _ _ (by rw [getD_row_length x R C i hx hi, getD_row_length y R C i hy hi])]
    rfl
  · rw [ent2_of_row_le x i j (by rw [hx.1]; omega), ent2_of_row_le y i j (by rw [hy.1]; omega)]
    have h1 : x.getD i [] = [] := by
      simp [List.getD_eq_getElem?_getD, List.getElem?_eq_none (show x.length ≤ i by rw [hx.1]; omega)]
    rw [h1]; simp [vadd]

theorem ent2_msub (x y : List (List K)) (R C i j : Nat) (hx : IsMat x R C) (hy : IsMat y R C) :
    ent2 (msub x y) i j = ent2 x i j - ent2 y i j := by
  unfold msub
  rw [ent2_eq_ent, getD_zipWith_rows _ _ _ _ (by simp) (by simp)]
  by_cases hi : i < R
  · rw [ent_zipWith_sub _ _ _ (by rw [getD_row_length x R C i hx hi, getD_row_length y R C i hy hi])]
    rfl
  · rw [ent2_of_row_le x i j (by rw [hx.1]; omega), ent2_of_row_le y i j (by rw [hy.1]; omega)]
    have h1 : x.getD i [] = [] := by
      simp [List.getD_eq_getElem?_getD, List.getElem?_eq_none (show x.length ≤ i by rw [hx.1]; omega)]
    rw [h1]; simp

/-! ### shapes -/

theorem isMat_map_rows (f : List K → List K) (x : List (List K)) (R C C' : Nat) (hx : IsMat x R C)
    (hf : ∀ row, row.length = C → (f row).length = C') : IsMat (x.map f) R C' := by
  refine ⟨by simp [hx.1], ?_⟩
  intro row hrow
  simp only [List.mem_map] at hrow
  obtain ⟨r0, hr0, rfl⟩ := hrow
  exact hf r0 (hx.2 r0 hr0)

theorem isMat_zipWith (f : List K → List K → List K) (x y : List (List K)) (R C : Nat)
    (hx : IsMat x R C) (hy : IsMat y R C)
    (hf : ∀ u v, u.length = C → v.length = C → (f u v).length = C) :
    IsMat (List.zipWith f x y) R C := by
  refine ⟨by simp [hx.1, hy.1], ?_⟩
  intro row hrow
  rw [List.mem_iff_getElem] at hrow
  obtain ⟨i, hi, rfl⟩ := hrow
  simp only [List.length_zipWith] at hi
  simp only [List.getElem_zipWith]
  exact hf _ _ (hx.2 _ (List.getElem_mem _)) (hy.2 _ (List.getElem_mem _))

theorem isMat_mulCols (x : List (List K)) (v : List K) (R C : Nat) (hx : IsMat x R C)
    (hv : v.length = C) : IsMat (mulCols x v) R C :=
  isMat_map_rows _ x R C C hx (fun row h => by simp [h, hv])

theorem isMat_colsMul (v : List K) (x : List (List K)) (R C : Nat) (hx : IsMat x R C)
    (hv : v.length = C) : IsMat (colsMul v x) R C :=
  isMat_map_rows _ x R C C hx (fun row h => by simp [h, hv])

theorem isMat_mneg (x : List (List K)) (R C : Nat) (hx : IsMat x R C) : IsMat (mneg x) R C :=
  isMat_map_rows _ x R C C hx (fun row h => by simp [h])

theorem isMat_mscale (c : K) (x : List (List K)) (R C : Nat) (hx : IsMat x R C) :
    IsMat (mscale c x) R C :=
  isMat_map_rows _ x R C C hx (fun row h => by simp [scale, h])

theorem isMat_emul (x y : List (List K)) (R C : Nat) (hx : IsMat x R C) (hy : IsMat y R C) :
    IsMat (emul x y) R C :=
  isMat_zipWith _ x y R C hx hy (fun u v hu hv => by simp [hu, hv])

theorem isMat_madd (x y : List (List K)) (R C : Nat) (hx : IsMat x R C) (hy : IsMat y R C) :
    IsMat (madd x y) R C :=
  isMat_zipWith _ x y R C hx hy (fun u v hu hv => by simp [vadd, hu, hv])

theorem isMat_msub (x y : List (List K)) (R C : Nat) (hx : IsMat x R C) (hy : IsMat y R C) :
    IsMat (msub x y) R C :=
  isMat_zipWith _ x y R C hx hy (fun u v hu hv => by simp [hu, hv])

/-- tabulated arrays -/
theorem isMat_tab {α : Type} (f : Nat → Nat → α) (R C : Nat) :
    IsMat ((List.range R).map fun i => (List.range C).map fun j => f i j) R C := by
  refine ⟨by simp, ?_⟩
  intro row hrow
  simp only [List.mem_map, List.mem_range] at hrow
  obtain ⟨i, _, rfl⟩ := hrow
  simp

theorem ent_tab (f : Nat → K) (C j : Nat) :
    ent ((List.range C).map f) j = if j < C then f j else 0 := by
  simp only [ent, List.getD_eq_getElem?_getD, List.getElem?_map]
  by_cases h : j < C
  · simp [List.getElem?_range h, h]
  · simp [List.getElem?_eq_none (show (List.range C).length ≤ j by simp; omega), h]

theorem ent2_tab (f : Nat → Nat → K) (R C i j : Nat) :
    ent2 ((List.range R).map fun i => (List.range C).map fun j => f i j) i j
      = if i < R ∧ j < C then f i j else 0 := by
  rw [ent2_eq_ent]
  by_cases hi : i < R
  · simp only [List.getD_eq_getElem?_getD, List.getElem?_map, List.getElem?_range hi, Option.map_some,
      Option.getD_some]
    rw [ent_tab]
    simp [hi]
  · have : ((List.range R).map fun i => (List.range C).map fun j => f i j).getD i [] = [] := by
      simp [List.getD_eq_getElem?_getD, List.getElem?_eq_none
        (show ((List.range R).map fun i => (List.range C).map fun j => f i j).length ≤ i by simp; omega)]
    simp [this, hi]

/-! ### `shift` -/

theorem ent_zerosN' (n j : Nat) : ent (zerosN n : List K) j = 0 := ent_zerosN n j

theorem ent_append_left (u v : List K) (j : Nat) (h : j < u.length) : ent (u ++ v) j = ent u j := by
  simp [ent, List.getD_eq_getElem?_getD, List.getElem?_append_left h]

theorem ent_append_right (u v : List K) (j : Nat) (h : u.length ≤ j) :
    ent (u ++ v) j = ent v (j - u.length) := by
  simp [ent, List.getD_eq_getElem?_getD, List.getElem?_append_right h]

theorem ent_drop (v : List K) (k j : Nat) : ent (v.drop k) j = ent v (k + j) := by
  simp [ent, List.getD_eq_getElem?_getD, List.getElem?_drop]

theorem ent_take (v : List K) (k j : Nat) : ent (v.take k) j = if j < k then ent v j else 0 := by
  simp only [ent, List.getD_eq_getElem?_getD, List.getElem?_take]
  split <;> simp

@[simp] theorem length_shift (v : List K) (off : Int) : (shift v off).length = v.length := by
  unfold shift padInDim
  split
  · simp [zerosN]
  · split
    · simp only [List.length_append, zerosN, List.length_replicate, List.length_take]
      omega
    · simp only [List.length_append, zerosN, List.length_replicate, List.length_drop]
      omega

/-- `shift(v, −1)[j] = v[j+1]` (zero beyond the end) -/
theorem ent_shift_neg_one (v : List K) (j : Nat) : ent (shift v (-1)) j = ent v (j + 1) := by
  unfold shift padInDim
  by_cases h : v.length ≤ 1
  · have : v.length ≤ (-1 : Int).natAbs := by simpa using h
    rw [if_pos this, ent_zerosN]
    exact (ent_of_length_le v (j + 1) (by omega)).symm
  · have : ¬ v.length ≤ (-1 : Int).natAbs := by simpa using h
    rw [if_neg this, if_neg (by decide)]
    simp only [Int.neg_neg, Int.toNat_one, zerosN, List.replicate_zero, List.nil_append]
    by_cases hj : j + 1 < v.length
    · rw [ent_append_left _ _ _ (by simp; omega), ent_drop, add_comm]
    · rw [ent_append_right _ _ _ (by simp; omega), ent_of_length_le v (j + 1) (by omega)]
      exact ent_zerosN 1 _

/-- `shift(v, +1)[j] = v[j−1]`, zero at `j = 0` -/
theorem ent_shift_one (v : List K) (j : Nat) (hj : j < v.length) :
    ent (shift v 1) j = if j = 0 then 0 else ent v (j - 1) := by
  unfold shift padInDim
  by_cases h : v.length ≤ 1
  · have : v.length ≤ (1 : Int).natAbs := by simpa using h
    rw [if_pos this, ent_zerosN]
    have : j = 0 := by omega
    simp [this]
  · have : ¬ v.length ≤ (1 : Int).natAbs := by simpa using h
    rw [if_neg this, if_pos (by decide)]
    simp only [Int.toNat_one, zerosN, List.replicate_zero, List.append_nil]
    by_cases hj0 : j = 0
    · subst hj0
      simp [ent]
    · rw [if_neg hj0, ent_append_right _ _ _ (by simp; omega), ent_take]
      simp only [List.length_replicate]
      rw [if_pos (by omega)]

theorem isMat_shiftCols (x : List (List K)) (off : Int) (R C : Nat) (hx : IsMat x R C) :
    IsMat (shiftCols x off) R C :=
  isMat_map_rows _ x R C C hx (fun row h => by simp [h])

theorem ent2_shiftCols_neg_one (x : List (List K)) (i j : Nat) :
    ent2 (shiftCols x (-1)) i j = ent2 x i (j + 1) := by
  unfold shiftCols
  rw [ent2_map_rows _ (by simp [shift, zerosN]), ent_shift_neg_one, ← ent2_eq_ent]

theorem ent2_shiftCols_one (x : List (List K)) (R C i j : Nat) (hx : IsMat x R C) (hj : j < C) :
    ent2 (shiftCols x 1) i j = if j = 0 then 0 else ent2 x i (j - 1) := by
  unfold shiftCols
  rw [ent2_map_rows _ (by simp [shift, zerosN])]
  by_cases hi : i < R
  · rw [ent_shift_one _ _ (by rw [getD_row_length x R C i hx hi]; exact hj)]
    rfl
  · have h1 : x.getD i [] = [] := by
      simp [List.getD_eq_getElem?_getD, List.getElem?_eq_none (show x.length ≤ i by rw [hx.1]; omega)]
    rw [h1, ent2_of_row_le x i _ (by rw [hx.1]; omega)]
    simp [shift, zerosN]

end basic
end Dino.Grid

namespace Dino.Grid
open Dino.Lin Dino.Fourier

/-! ### layout facts -/
namespace Layout

theorem length_lvals (ly : Layout) : ly.lvals.length = ly.cols := by simp [lvals]
theorem length_mvals (ly : Layout) : ly.mvals.length = ly.rows := by simp [mvals]
theorem isMat_mask (ly : Layout) : IsMat ly.mask ly.rows ly.cols := isMat_tab _ _ _

theorem lval_of_lt (ly : Layout) (j : Nat) (h : j < ly.L) : ly.lval j = j := by simp [lval, h]
theorem lval_of_ge (ly : Layout) (j : Nat) (h : ly.L ≤ j) : ly.lval j = 0 := by
  simp [lval]; omega

theorem L_le_cols (ly : Layout) : ly.L ≤ ly.cols := by simp [cols]

/-- what `maskAt = true` means -/
theorem maskAt_iff (ly : Layout) (i j : Nat) :
    ly.maskAt i j = true ↔
      ly.mAbs i ≤ ly.lval j ∧ (ly.fast = true → i ≠ 1 ∧ i < 2 * ly.M) ∧ j < ly.L := by
  unfold maskAt
  cases ly.fast <;> simp [and_assoc]

/-- on rows that carry data the derivative frequency is `|m|` -/
theorem freq_eq_mAbs (ly : Layout) (i : Nat) (h : ly.fast = true → i < 2 * ly.M) :
    ly.freq i = ly.mAbs i := by
  unfold freq mAbs
  cases hf : ly.fast
  · simp
  · simp [h hf]

end Layout

section ops
variable {K : Type} [CommRing K]

theorem ent_lvals_map (ly : Layout) (f : Nat → K) (j : Nat) :
    ent (ly.lvals.map f) j = if j < ly.cols then f (ly.lval j) else 0 := by
  unfold Layout.lvals
  rw [List.map_map, ent_tab]
  rfl

theorem ent_getD_zerosN (x : List (List K)) (w i l : Nat) :
    ent (x.getD i (zerosN w)) l = ent2 x i l := by
  by_cases h : i < x.length
  · simp [ent2, ent, List.getD_eq_getElem?_getD, List.getElem?_eq_getElem h]
  · rw [ent2_of_row_le x i l (by omega)]
    have : x.getD i (zerosN w) = zerosN w := by
      simp [List.getD_eq_getElem?_getD, List.getElem?_eq_none (show x.length ≤ i by omega)]
    rw [this, ent_zerosN]

/-- `real_basis_derivative`, entry-wise: odd rows `2j−1 ↦ j·u[2j]`, even rows `2j ↦ −j·u[2j−1]` -/
theorem ent2_realDerivative (x : List (List K)) (w i l : Nat) (hi : i < x.length) :
    ent2 (realDerivative x w) i l
      = if i % 2 = 1 then (((i + 1) / 2 : Nat) : K) * ent2 x (i + 1) l
        else -((((i + 1) / 2 : Nat) : K) * ent2 x (i - 1) l) := by
  unfold realDerivative
  rw [ent2_eq_ent]
  simp only [List.getD_eq_getElem?_getD, List.getElem?_map, List.getElem?_range hi, Option.map_some,
    Option.getD_some]
  by_cases h1 : i % 2 = 1
  · rw [if_pos h1, if_pos h1, ent_scale]
    congr 1
    exact ent_getD_zerosN x w (i + 1) l
  · rw [if_neg h1, if_neg h1]
    by_cases h0 : i = 0
    · subst h0
      simp [ent_scale, ent_zerosN]
    · rw [if_neg h0, ent_scale, ent_map_of_zero _ (by simp)]
      have := ent_getD_zerosN x w (i - 1) l
      simp only [List.getD_eq_getElem?_getD] at this
      rw [this]
      ring

/-- `real_basis_derivative_with_zero_imag`, entry-wise (`frequency_offset = 0`):
 even rows `2j ↦ j·u[2j+1]`, odd rows `2j+1 ↦ −j·u[2j]` -/
theorem ent2_zeroImagDerivative (x : List (List K)) (w i l : Nat) (hi : i < x.length) :
    ent2 (zeroImagDerivative x w) i l
      = if i % 2 = 0 then ((i / 2 : Nat) : K) * ent2 x (i + 1) l
        else -(((i / 2 : Nat) : K) * ent2 x (i - 1) l) := by
  unfold zeroImagDerivative
  rw [ent2_eq_ent]
  simp only [List.getD_eq_getElem?_getD, List.getElem?_map, List.getElem?_range hi, Option.map_some,
    Option.getD_some, Nat.zero_add]
  by_cases h1 : i % 2 = 0
  · have h2 : (i + 1) % 2 = 1 := by omega
    rw [if_pos h2, if_pos h1, ent_scale]
    congr 1
    exact ent_getD_zerosN x w (i + 1) l
  · have h2 : ¬ (i + 1) % 2 = 1 := by omega
    rw [if_neg h2, if_neg h1, ent_scale, ent_map_of_zero _ (by simp)]
    have := ent_getD_zerosN x w (i - 1) l
    simp only [List.getD_eq_getElem?_getD] at this
    rw [this]
    ring

theorem length_realDerivative (x : List (List K)) (w : Nat) :
    (realDerivative x w).length = x.length := by simp [realDerivative]
theorem length_zeroImagDerivative (x : List (List K)) (w : Nat) :
    (zeroImagDerivative x w).length = x.length := by simp [zeroImagDerivative]

theorem isMat_realDerivative (x : List (List K)) (R C : Nat) (hx : IsMat x R C) :
    IsMat (realDerivative x C) R C := by
  refine ⟨by simp [realDerivative, hx.1], ?_⟩
  intro row hrow
  simp only [realDerivative, List.mem_map, List.mem_range] at hrow
  obtain ⟨i, hi, rfl⟩ := hrow
  have hl : ∀ k, (x.getD k (zerosN C)).length = C := by
    intro k
    by_cases hk : k < x.length
    · simp only [List.getD_eq_getElem?_getD, List.getElem?_eq_getElem hk, Option.getD_some]
      exact hx.2 _ (List.getElem_mem hk)
    · simp [List.getD_eq_getElem?_getD, List.getElem?_eq_none (show x.length ≤ k by omega), zerosN]
  split
  · simp only [scale, List.length_map]; exact hl _
  · split
    · simp [scale, zerosN]
    · have := hl (i - 1)
      simp only [scale, List.length_map]
      simpa using this

theorem isMat_zeroImagDerivative (x : List (List K)) (R C : Nat) (hx : IsMat x R C) :
    IsMat (zeroImagDerivative x C) R C := by
  refine ⟨by simp [zeroImagDerivative, hx.1], ?_⟩
  intro row hrow
  simp only [zeroImagDerivative, List.mem_map, List.mem_range] at hrow
  obtain ⟨i, hi, rfl⟩ := hrow
  have hl : ∀ k, (x.getD k (zerosN C)).length = C := by
    intro k
    by_cases hk : k < x.length
    · simp only [List.getD_eq_getElem?_getD, List.getElem?_eq_getElem hk, Option.getD_some]
      exact hx.2 _ (List.getElem_mem hk)
    · simp [List.getD_eq_getElem?_getD, List.getElem?_eq_none (show x.length ≤ k by omega), zerosN]
  split
  · simp only [scale, List.length_map]; exact hl _
  · have := hl (i - 1)
    simp only [scale, List.length_map]
    simpa using this

theorem isMat_dDlon (ly : Layout) (x : List (List K)) (hx : IsMat x ly.rows ly.cols) :
    IsMat (dDlon ly x) ly.rows ly.cols := by
  unfold dDlon
  split
  · exact isMat_zeroImagDerivative x _ _ hx
  · exact isMat_realDerivative x _ _ hx

/-- `d_dlon`, entry-wise, in terms of the row frequency `freq` and the partner row -/
theorem ent2_dDlon (ly : Layout) (x : List (List K)) (i l : Nat) (hi : i < x.length) :
    ent2 (dDlon ly x) i l
      = if (if ly.fast then i % 2 = 0 else i % 2 = 1)
        then ((ly.freq i : Nat) : K) * ent2 x (i + 1) l
        else -(((ly.freq i : Nat) : K) * ent2 x (i - 1) l) := by
  unfold dDlon Layout.freq
  cases ly.fast
  · simpa using ent2_realDerivative x ly.cols i l hi
  · simpa using ent2_zeroImagDerivative x ly.cols i l hi

/-- **T2.2** `d_dlon ∘ d_dlon = −m²` on every row that has its partner row inside the array
 (for the real layout: the number of rows is odd; for the fast layout: even). -/
theorem ent2_dDlon_dDlon (ly : Layout) (x : List (List K)) (i l : Nat) (hi : i < x.length)
    (hpar : if ly.fast then x.length % 2 = 0 else x.length % 2 = 1) :
    ent2 (dDlon ly (dDlon ly x)) i l = -(((ly.freq i : Nat) : K) * ((ly.freq i : Nat) : K)) * ent2 x i l := by
  have hlen : (dDlon ly x).length = x.length := by
    unfold dDlon; split <;> simp [realDerivative, zeroImagDerivative]
  rw [ent2_dDlon ly _ i l (by rw [hlen]; exact hi)]
  cases hf : ly.fast
  · simp only [hf, Bool.false_eq_true, if_false] at hpar ⊢
    by_cases h1 : i % 2 = 1
    · have hi1 : i + 1 < x.length := by omega
      rw [if_pos h1, ent2_dDlon ly x (i + 1) l hi1]
      simp only [hf, Bool.false_eq_true, if_false]
      rw [if_neg (by omega)]
      have : ly.freq (i + 1) = ly.freq i := by simp [Layout.freq, hf]; omega
      rw [this, Nat.add_sub_cancel]
      ring
    · rw [if_neg h1]
      by_cases h0 : i = 0
      · subst h0
        simp [Layout.freq, hf]
      · rw [ent2_dDlon ly x (i - 1) l (by omega)]
        simp only [hf, Bool.false_eq_true, if_false]
        rw [if_pos (by omega)]
        have : ly.freq (i - 1) = ly.freq i := by simp [Layout.freq, hf]; omega
        rw [this, Nat.sub_add_cancel (by omega)]
        ring
  · simp only [hf, if_true] at hpar ⊢
    by_cases h1 : i % 2 = 0
    · have hi1 : i + 1 < x.length := by omega
      rw [if_pos h1, ent2_dDlon ly x (i + 1) l hi1]
      simp only [hf, if_true]
      rw [if_neg (by omega)]
      have : ly.freq (i + 1) = ly.freq i := by simp [Layout.freq, hf]; omega
      rw [this, Nat.add_sub_cancel]
      ring
    · rw [if_neg h1, ent2_dDlon ly x (i - 1) l (by omega)]
      simp only [hf, if_true]
      rw [if_pos (by omega)]
      have : ly.freq (i - 1) = ly.freq i := by simp [Layout.freq, hf]; omega
      rw [this, Nat.sub_add_cancel (by omega)]
      ring

/-! ### clipping -/

theorem length_clipMask (ly : Layout) (n : Nat) : (clipMask (K := K) ly n).length = ly.cols := by
  simp [clipMask]

theorem ent_clipMask (ly : Layout) (n j : Nat) :
    ent (clipMask (K := K) ly n) j = if j + (n + ly.padCols) < ly.cols then 1 else 0 := by
  unfold clipMask
  rw [ent_tab]
  by_cases h : j + (n + ly.padCols) < ly.cols
  · simp [h]; omega
  · simp [h]

/-- `clip_wavenumbers(x, n)` zeroes exactly the columns `j ≥ L − n` (padding included) -/
theorem ent2_clip (ly : Layout) (n : Nat) (x : List (List K)) (i j : Nat) :
    ent2 (clip ly n x) i j = if j + n < ly.L then ent2 x i j else 0 := by
  unfold clip
  rw [ent2_mulCols, ent_clipMask]
  have : (j + (n + ly.padCols) < ly.cols) ↔ (j + n < ly.L) := by simp [Layout.cols]; omega
  by_cases h : j + n < ly.L
  · rw [if_pos (this.2 h), if_pos h, mul_one]
  · rw [if_neg (fun h' => h (this.1 h')), if_neg h, mul_zero]

theorem isMat_clip (ly : Layout) (n : Nat) (x : List (List K)) (hx : IsMat x ly.rows ly.cols) :
    IsMat (clip ly n x) ly.rows ly.cols :=
  isMat_mulCols x _ _ _ hx (length_clipMask ly n)

theorem isMat_clipIf (ly : Layout) (c : Bool) (x : List (List K)) (hx : IsMat x ly.rows ly.cols) :
    IsMat (clipIf ly c x) ly.rows ly.cols := by
  unfold clipIf; split
  · exact isMat_clip ly 1 x hx
  · exact hx

theorem ent2_clipIf (ly : Layout) (c : Bool) (x : List (List K)) (i j : Nat) :
    ent2 (clipIf ly c x) i j = if c = true ∧ ¬ (j + 1 < ly.L) then 0 else ent2 x i j := by
  unfold clipIf
  cases c
  · simp
  · simp only [if_true, ent2_clip, true_and]
    by_cases h : j + 1 < ly.L <;> simp [h]

/-! ### the two-term latitude operators -/

/-- `shift((fa·a)·x, −1) + shift((fb·b)·x, +1)`, entry-wise -/
theorem ent2_twoTerm (fa fb : List K) (a b x : List (List K)) (R C i j : Nat)
    (hx : IsMat x R C) (ha : IsMat a R C) (hb : IsMat b R C)
    (hfa : fa.length = C) (hfb : fb.length = C) (hj : j < C) :
    ent2 (twoTerm fa fb a b x) i j
      = ent fa (j + 1) * ent2 a i (j + 1) * ent2 x i (j + 1)
        + (if j = 0 then 0 else ent fb (j - 1) * ent2 b i (j - 1) * ent2 x i (j - 1)) := by
  unfold twoTerm
  have h1 : IsMat (emul (colsMul fa a) x) R C := isMat_emul _ _ R C (isMat_colsMul fa a R C ha hfa) hx
  have h2 : IsMat (emul (colsMul fb b) x) R C := isMat_emul _ _ R C (isMat_colsMul fb b R C hb hfb) hx
  rw [ent2_madd _ _ R C i j (isMat_shiftCols _ _ R C h1) (isMat_shiftCols _ _ R C h2),
    ent2_shiftCols_neg_one, ent2_shiftCols_one _ R C i j h2 hj, ent2_emul, ent2_colsMul]
  by_cases h0 : j = 0
  · simp [h0]
  · rw [if_neg h0, if_neg h0, ent2_emul, ent2_colsMul]

theorem isMat_twoTerm (fa fb : List K) (a b x : List (List K)) (R C : Nat)
    (hx : IsMat x R C) (ha : IsMat a R C) (hb : IsMat b R C)
    (hfa : fa.length = C) (hfb : fb.length = C) : IsMat (twoTerm fa fb a b x) R C := by
  unfold twoTerm
  exact isMat_madd _ _ R C
    (isMat_shiftCols _ _ R C (isMat_emul _ _ R C (isMat_colsMul fa a R C ha hfa) hx))
    (isMat_shiftCols _ _ R C (isMat_emul _ _ R C (isMat_colsMul fb b R C hb hfb) hx))

theorem ent2_sinLatMulW (a b x : List (List K)) (R C i j : Nat)
    (hx : IsMat x R C) (ha : IsMat a R C) (hb : IsMat b R C) (hj : j < C) :
    ent2 (sinLatMulW a b x) i j
      = ent2 a i (j + 1) * ent2 x i (j + 1)
        + (if j = 0 then 0 else ent2 b i (j - 1) * ent2 x i (j - 1)) := by
  unfold sinLatMulW
  have h1 : IsMat (emul a x) R C := isMat_emul _ _ R C ha hx
  have h2 : IsMat (emul b x) R C := isMat_emul _ _ R C hb hx
  rw [ent2_madd _ _ R C i j (isMat_shiftCols _ _ R C h1) (isMat_shiftCols _ _ R C h2),
    ent2_shiftCols_neg_one, ent2_shiftCols_one _ R C i j h2 hj, ent2_emul]
  by_cases h0 : j = 0
  · simp [h0]
  · rw [if_neg h0, if_neg h0, ent2_emul]

theorem isMat_sinLatMulW (a b x : List (List K)) (R C : Nat)
    (hx : IsMat x R C) (ha : IsMat a R C) (hb : IsMat b R C) : IsMat (sinLatMulW a b x) R C := by
  unfold sinLatMulW
  exact isMat_madd _ _ R C (isMat_shiftCols _ _ R C (isMat_emul _ _ R C ha hx))
    (isMat_shiftCols _ _ R C (isMat_emul _ _ R C hb hx))

theorem isMat_cosLatDDlatW (ly : Layout) (a b x : List (List K)) (hx : IsMat x ly.rows ly.cols)
    (ha : IsMat a ly.rows ly.cols) (hb : IsMat b ly.rows ly.cols) :
    IsMat (cosLatDDlatW ly a b x) ly.rows ly.cols :=
  isMat_twoTerm _ _ a b x _ _ hx ha hb (by simp [Layout.length_lvals]) (by simp [Layout.length_lvals])

theorem isMat_secLatDDlatCos2W (ly : Layout) (a b x : List (List K)) (hx : IsMat x ly.rows ly.cols)
    (ha : IsMat a ly.rows ly.cols) (hb : IsMat b ly.rows ly.cols) :
    IsMat (secLatDDlatCos2W ly a b x) ly.rows ly.cols :=
  isMat_twoTerm _ _ a b x _ _ hx ha hb (by simp [Layout.length_lvals]) (by simp [Layout.length_lvals])

/-- `cos_lat_d_dlat`, entry-wise (any column): `(l_{j+1}+1)·a_{j+1}·x_{j+1} − l_{j−1}·b_{j−1}·x_{j−1}` -/
theorem ent2_cosLatDDlatW (ly : Layout) (a b x : List (List K)) (i j : Nat)
    (hx : IsMat x ly.rows ly.cols) (ha : IsMat a ly.rows ly.cols) (hb : IsMat b ly.rows ly.cols)
    (hj : j < ly.cols) :
    ent2 (cosLatDDlatW ly a b x) i j
      = (if j + 1 < ly.cols then ((ly.lval (j + 1) + 1 : Nat) : K) else 0) * ent2 a i (j + 1)
          * ent2 x i (j + 1)
        + (if j = 0 then 0 else -((ly.lval (j - 1) : Nat) : K) * ent2 b i (j - 1) * ent2 x i (j - 1)) := by
  unfold cosLatDDlatW
  rw [ent2_twoTerm _ _ a b x _ _ i j hx ha hb (by simp [Layout.length_lvals])
    (by simp [Layout.length_lvals]) hj, ent_lvals_map, ent_lvals_map]
  by_cases h0 : j = 0
  · simp [h0]
  · have hj1 : j - 1 < ly.cols := by omega
    rw [if_neg h0, if_neg h0, if_pos hj1]

/-- `sec_lat_d_dlat_cos2`, entry-wise: `(l_{j+1}−1)·a_{j+1}·x_{j+1} − (l_{j−1}+2)·b_{j−1}·x_{j−1}` -/
theorem ent2_secLatDDlatCos2W (ly : Layout) (a b x : List (List K)) (i j : Nat)
    (hx : IsMat x ly.rows ly.cols) (ha : IsMat a ly.rows ly.cols) (hb : IsMat b ly.rows ly.cols)
    (hj : j < ly.cols) :
    ent2 (secLatDDlatCos2W ly a b x) i j
      = (if j + 1 < ly.cols then ((ly.lval (j + 1) : Nat) : K) - 1 else 0) * ent2 a i (j + 1)
          * ent2 x i (j + 1)
        + (if j = 0 then 0
           else -((ly.lval (j - 1) + 2 : Nat) : K) * ent2 b i (j - 1) * ent2 x i (j - 1)) := by
  unfold secLatDDlatCos2W
  rw [ent2_twoTerm _ _ a b x _ _ i j hx ha hb (by simp [Layout.length_lvals])
    (by simp [Layout.length_lvals]) hj, ent_lvals_map, ent_lvals_map]
  by_cases h0 : j = 0
  · simp [h0]
  · have hj1 : j - 1 < ly.cols := by omega
    rw [if_neg h0, if_neg h0, if_pos hj1]

end ops
end Dino.Grid

namespace Dino.Grid
open Dino.Lin Dino.Fourier

section field
variable {K : Type} [Field K]

theorem ent_zipWith_div (a b : List K) (i : Nat) :
    ent (List.zipWith (· / ·) a b) i = ent a i / ent b i := by
  induction a generalizing b i with
  | nil => simp
  | cons x t ih =>
    cases b with
    | nil => simp
    | cons y u =>
      cases i with
      | zero => simp
      | succ i => simp [ih]

theorem ent2_mdivc (x : List (List K)) (c : K) (i j : Nat) :
    ent2 (mdivc x c) i j = ent2 x i j / c := by
  unfold mdivc
  rw [ent2_map_rows _ (by simp), ent_map_of_zero _ (by simp), ← ent2_eq_ent]

theorem isMat_mdivc (x : List (List K)) (c : K) (R C : Nat) (hx : IsMat x R C) :
    IsMat (mdivc x c) R C :=
  isMat_map_rows _ x R C C hx (fun row h => by simp [h])

theorem ent2_divCols (x : List (List K)) (v : List K) (i j : Nat) :
    ent2 (divCols x v) i j = ent2 x i j / ent v j := by
  unfold divCols
  rw [ent2_map_rows _ (by simp), ent_zipWith_div, ← ent2_eq_ent]

theorem isMat_divCols (x : List (List K)) (v : List K) (R C : Nat) (hx : IsMat x R C)
    (hv : v.length = C) : IsMat (divCols x v) R C :=
  isMat_map_rows _ x R C C hx (fun row h => by simp [h, hv])

/-! ### Laplacian -/

theorem length_eigenvalues (ly : Layout) (r : K) : (eigenvalues ly r).length = ly.cols := by
  simp [eigenvalues, Layout.length_lvals]

theorem ent_eigenvalues (ly : Layout) (r : K) (j : Nat) :
    ent (eigenvalues ly r) j
      = if j < ly.cols then -((ly.lval j : K) * ((ly.lval j + 1 : Nat) : K)) / (r * r) else 0 := by
  unfold eigenvalues
  rw [ent_lvals_map]

theorem length_inverseEigenvalues (ly : Layout) (r : K) :
    (inverseEigenvalues ly r).length = ly.cols := by simp [inverseEigenvalues]

theorem ent_inverseEigenvalues (ly : Layout) (r : K) (j : Nat) :
    ent (inverseEigenvalues ly r) j
      = if 0 < j ∧ j < ly.L then 1 / ent (eigenvalues ly r) j else 0 := by
  unfold inverseEigenvalues
  rw [ent_tab]
  have hL := ly.L_le_cols
  by_cases h : 0 < j ∧ j < ly.L
  · rw [if_pos (by omega), if_neg (by omega), if_pos h]
    rfl
  · rw [if_neg h]
    by_cases h2 : j < ly.cols
    · rw [if_pos h2, if_pos (by omega)]
    · rw [if_neg h2]

theorem isMat_laplacian (ly : Layout) (r : K) (x : List (List K)) (hx : IsMat x ly.rows ly.cols) :
    IsMat (laplacian ly r x) ly.rows ly.cols :=
  isMat_mulCols x _ _ _ hx (length_eigenvalues ly r)

theorem isMat_inverseLaplacian (ly : Layout) (r : K) (x : List (List K))
    (hx : IsMat x ly.rows ly.cols) : IsMat (inverseLaplacian ly r x) ly.rows ly.cols :=
  isMat_mulCols x _ _ _ hx (length_inverseEigenvalues ly r)

/-- `laplacian`, entry-wise: multiplication by `−l(l+1)/r²` (`l = 0` on the padding) -/
theorem ent2_laplacian (ly : Layout) (r : K) (x : List (List K)) (i j : Nat) :
    ent2 (laplacian ly r x) i j
      = ent2 x i j * (if j < ly.cols then -((ly.lval j : K) * ((ly.lval j + 1 : Nat) : K)) / (r * r) else 0) := by
  unfold laplacian
  rw [ent2_mulCols, ent_eigenvalues]

theorem ent2_inverseLaplacian (ly : Layout) (r : K) (x : List (List K)) (i j : Nat) :
    ent2 (inverseLaplacian ly r x) i j
      = ent2 x i j * (if 0 < j ∧ j < ly.L then 1 / ent (eigenvalues ly r) j else 0) := by
  unfold inverseLaplacian
  rw [ent2_mulCols, ent_inverseEigenvalues]

/-! ### recurrence weights -/

theorem isMat_weightA (sqrt : K → K) (ly : Layout) : IsMat (weightA sqrt ly) ly.rows ly.cols :=
  isMat_tab _ _ _
theorem isMat_weightB (sqrt : K → K) (ly : Layout) : IsMat (weightB sqrt ly) ly.rows ly.cols :=
  isMat_tab _ _ _

theorem ent2_weightA (sqrt : K → K) (ly : Layout) (i j : Nat) :
    ent2 (weightA sqrt ly) i j
      = if i < ly.rows ∧ j < ly.cols then
          (if j = 0 then 0 else sqrt (if ly.maskAt i j then ratio (ly.mAbs i) (ly.lval j) else 0))
        else 0 := by
  unfold weightA; rw [ent2_tab]

theorem ent2_weightB (sqrt : K → K) (ly : Layout) (i j : Nat) :
    ent2 (weightB sqrt ly) i j
      = if i < ly.rows ∧ j < ly.cols then
          (if j + 1 = ly.cols then 0
           else sqrt (if ly.maskAt i j then ratio (ly.mAbs i) (ly.lval j + 1) else 0))
        else 0 := by
  unfold weightB; rw [ent2_tab]

theorem ratio_self (m : ℕ) : ratio (K := K) m m = 0 := by
  unfold ratio; simp

/-- `b[m, l] = a[m, l+1]` below the top wavenumber, for every row of either layout -/
theorem weightB_eq_weightA_succ (sqrt : K → K) (ly : Layout) (i j : Nat) (hj : j + 1 < ly.L) :
    ent2 (weightB sqrt ly) i j = ent2 (weightA sqrt ly) i (j + 1) := by
  have hL := ly.L_le_cols
  rw [ent2_weightA, ent2_weightB]
  by_cases hi : i < ly.rows
  · have c1 : i < ly.rows ∧ j + 1 < ly.cols := ⟨hi, by omega⟩
    have c2 : i < ly.rows ∧ j < ly.cols := ⟨hi, by omega⟩
    have c3 : ¬ (j + 1 = 0) := by omega
    have c4 : ¬ (j + 1 = ly.cols) := by omega
    rw [if_pos c1, if_pos c2, if_neg c3, if_neg c4]
    congr 1
    rw [ly.lval_of_lt j (by omega), ly.lval_of_lt (j + 1) hj]
    by_cases h1 : ly.maskAt i j = true
    · have h2 : ly.maskAt i (j + 1) = true := by
        rw [Layout.maskAt_iff] at h1 ⊢
        rw [ly.lval_of_lt j (by omega)] at h1
        rw [ly.lval_of_lt (j + 1) hj]
        exact ⟨by omega, h1.2.1, hj⟩
      rw [if_pos h1, if_pos h2]
    · rw [if_neg h1]
      by_cases h2 : ly.maskAt i (j + 1) = true
      · rw [if_pos h2]
        have hm : ly.mAbs i = j + 1 := by
          rw [Layout.maskAt_iff] at h1 h2
          rw [ly.lval_of_lt (j + 1) hj] at h2
          rw [ly.lval_of_lt j (by omega)] at h1
          by_contra hne
          exact h1 ⟨by omega, h2.2.1, by omega⟩
        rw [hm, ratio_self]
      · rw [if_neg h2]
  · have c1 : ¬ (i < ly.rows ∧ j + 1 < ly.cols) := by tauto
    have c2 : ¬ (i < ly.rows ∧ j < ly.cols) := by tauto
    rw [if_neg c1, if_neg c2]

/-- on a data row, `a[m, l]² = (l² − m²)/(4l² − 1)` for `|m| ≤ l < L`, provided `sqrt` squares back
 on these ratios -/
theorem weightA_sq (sqrt : K → K) (ly : Layout) (i j : Nat)
    (hs : ∀ m l : ℕ, m ≤ l → sqrt (ratio m l) * sqrt (ratio m l) = ratio m l)
    (hmask : ly.maskAt i j = true) (hi : i < ly.rows) :
    ent2 (weightA sqrt ly) i j * ent2 (weightA sqrt ly) i j = ratio (ly.mAbs i) j := by
  have hL := ly.L_le_cols
  have hm := (ly.maskAt_iff i j).1 hmask
  have c1 : i < ly.rows ∧ j < ly.cols := ⟨hi, by omega⟩
  rw [ent2_weightA, if_pos c1, if_pos hmask, ly.lval_of_lt j hm.2.2]
  have hmj : ly.mAbs i ≤ j := by rw [← ly.lval_of_lt j hm.2.2]; exact hm.1
  by_cases h0 : j = 0
  · have : ly.mAbs i = 0 := by omega
    rw [if_pos h0, this, h0, ratio_self]
    ring
  · rw [if_neg h0]
    exact hs _ _ hmj

end field

/-! ### the coefficient-space Legendre equation: pure algebra on sequences -/
section algebra
variable {K : Type} [Field K] [CharZero K]

theorem two_l_sub_one_ne (l : ℕ) : (2 * (l : K) - 1) ≠ 0 := by
  intro h
  have h1 : ((2 * l : ℕ) : K) = ((1 : ℕ) : K) := by
    push_cast; exact sub_eq_zero.mp h
  have := Nat.cast_injective h1
  omega

theorem two_l_add_one_ne (l : ℕ) : (2 * (l : K) + 1) ≠ 0 := by
  have : ((2 * l + 1 : ℕ) : K) ≠ 0 := Nat.cast_ne_zero.mpr (by omega)
  simpa using this

theorem two_l_add_three_ne (l : ℕ) : (2 * (l : K) + 3) ≠ 0 := by
  have : ((2 * l + 3 : ℕ) : K) ≠ 0 := Nat.cast_ne_zero.mpr (by omega)
  simpa using this

/-- `(l² − m²)/(4l² − 1)` with the denominator factored -/
theorem ratio_eq (m l : ℕ) :
    ratio (K := K) m l
      = ((l : K) * (l : K) - (m : K) * (m : K)) / ((2 * (l : K) - 1) * (2 * (l : K) + 1)) := by
  unfold ratio
  push_cast
  congr 1
  ring

theorem ratio_key (m l : ℕ) :
    (l : K) * ((l : K) + 1) - (m : K) * (m : K)
      = ratio m (l + 1) * ((l : K) * (2 * (l : K) + 3)) + ratio m l * (((l : K) + 1) * (2 * (l : K) - 1)) := by
  have h1 := two_l_sub_one_ne (K := K) l
  have h2 := two_l_add_one_ne (K := K) l
  have h3 := two_l_add_three_ne (K := K) l
  rw [ratio_eq, ratio_eq]
  have e1 : (2 * ((l + 1 : ℕ) : K) - 1) = 2 * (l : K) + 1 := by push_cast; ring
  have e2 : (2 * ((l + 1 : ℕ) : K) + 1) = 2 * (l : K) + 3 := by push_cast; ring
  rw [e1, e2]
  push_cast
  rw [div_mul_eq_mul_div, div_mul_eq_mul_div, div_add_div _ _ (mul_ne_zero h2 h3) (mul_ne_zero h1 h2),
    eq_div_iff (mul_ne_zero (mul_ne_zero h2 h3) (mul_ne_zero h1 h2))]
  ring

def d1F (A B f : ℕ → K) (j : ℕ) : K :=
  ((j + 2 : ℕ) : K) * A (j + 1) * f (j + 1)
    + (if j = 0 then 0 else -((j - 1 : ℕ) : K) * B (j - 1) * f (j - 1))

def muF (A B f : ℕ → K) (j : ℕ) : K :=
  A (j + 1) * f (j + 1) + (if j = 0 then 0 else B (j - 1) * f (j - 1))

theorem legendre_algebra (A B X : ℕ → K) (m j : ℕ) (hm : m ≤ j)
    (hB : ∀ k, k ≤ j → B k = A (k + 1))
    (hA : ∀ k, m ≤ k → k ≤ j + 1 → A k * A k = ratio m k) :
    d1F A B (d1F A B X) j + -((m : K) * (m : K)) * X j
      = -((j : K) * ((j + 1 : ℕ) : K)) * X j
        - muF A B (muF A B (fun k => -((k : K) * ((k + 1 : ℕ) : K)) * X k)) j := by
  have key := ratio_key (K := K) m j
  have hA1 := hA (j + 1) (by omega) (by omega)
  have hA0 := hA j hm (by omega)
  rw [← hA1, ← hA0] at key
  rcases j with _ | _ | k
  · have : m = 0 := by omega
    subst this
    simp only [d1F, muF]
    simp
    ring
  · have hB0 := hB 0 (by omega)
    have hB1 := hB 1 (by omega)
    simp only [d1F, muF]
    simp
    rw [hB0, hB1]
    push_cast at key ⊢
    linear_combination (X 1) * key
  · have hB0 := hB k (by omega)
    have hB1 := hB (k + 1) (by omega)
    have hB2 := hB (k + 2) (by omega)
    simp only [d1F, muF]
    simp
    rw [hB0, hB1, hB2]
    push_cast at key ⊢
    linear_combination (X (k + 2)) * key


end algebra
end Dino.Grid
