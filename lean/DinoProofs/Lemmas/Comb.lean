import Dino.Comb
import Mathlib.Logic.Function.Iterate
import Mathlib.Algebra.BigOperators.Group.List.Basic
import Mathlib.Algebra.Module.Defs
import Mathlib.Tactic.Ring
import Mathlib.Tactic.Linarith

/-!
# Lemmas about the combinator model `Dino.Comb`

`scan` as fold / append / flatten, scans over `xs = None`, chunking (`reshape`), the
error-propagating scan, the running weighted sum.
-/
namespace Dino.Comb

section scans
variable {C X Y S A : Type}

@[simp] theorem scan_nil (f : C → X → C × Y) (c : C) : scan f c [] = (c, []) := rfl

@[simp] theorem scan_cons (f : C → X → C × Y) (c : C) (x : X) (xs : List X) :
    scan f c (x :: xs) = ((scan f (f c x).1 xs).1, (f c x).2 :: (scan f (f c x).1 xs).2) := rfl

theorem scan_fst_eq_foldl (f : C → X → C × Y) (c : C) (xs : List X) :
    (scan f c xs).1 = xs.foldl (fun c x => (f c x).1) c := by
  induction xs generalizing c with
  | nil => rfl
  | cons x xs ih => simp [ih]

@[simp] theorem scan_snd_length (f : C → X → C × Y) (c : C) (xs : List X) :
    (scan f c xs).2.length = xs.length := by
  induction xs generalizing c with
  | nil => rfl
  | cons x xs ih => simp [ih]

theorem scan_append (f : C → X → C × Y) (c : C) (xs ys : List X) :
    scan f c (xs ++ ys)
      = ((scan f (scan f c xs).1 ys).1, (scan f c xs).2 ++ (scan f (scan f c xs).1 ys).2) := by
  induction xs generalizing c with
  | nil => simp
  | cons x xs ih => simp [ih]

/-- scanning the pre-image is scanning the image -/
theorem scan_map (k : C → X → C × Y) (r : A → X) (c : C) (as : List A) :
    scan (fun c a => k c (r a)) c as = scan k c (as.map r) := by
  induction as generalizing c with
  | nil => rfl
  | cons a as ih => simp [ih]

/-- a scan of sub-scans over consecutive chunks is the scan over the concatenation -/
theorem scan_flatten (f : C → X → C × Y) (c : C) (chs : List (List X)) :
    scan f c chs.flatten
      = ((scan (fun c ch => scan f c ch) c chs).1, (scan (fun c ch => scan f c ch) c chs).2.flatten) := by
  induction chs generalizing c with
  | nil => rfl
  | cons ch chs ih => simp [scan_append, ih]

/-- a scan over `xs = None` of length `n` -/
theorem scan_replicate (g : C → C) (h : C → Y) (c : C) (n : Nat) :
    scan (fun c (_ : Unit) => (g c, h c)) c (List.replicate n ())
      = (g^[n] c, (List.range n).map fun k => h (g^[k] c)) := by
  induction n generalizing c with
  | zero => rfl
  | succ n ih =>
    rw [List.replicate_succ, scan_cons, ih, List.range_succ_eq_map]
    simp [Function.comp_def]

theorem scanE_eq_ok (g : C → A → Except Err (C × Y)) (h : C → A → C × Y) (as : List A)
    (hg : ∀ a ∈ as, ∀ c, g c a = .ok (h c a)) (c : C) :
    scanE g c as = .ok (scan h c as) := by
  induction as generalizing c with
  | nil => rfl
  | cons a as ih =>
    have h1 := hg a (by simp) c
    have h2 := ih (fun a' ha' => hg a' (by simp [ha'])) (h c a).1
    simp [scanE, h1, h2]

theorem scanE_cons_error (g : C → A → Except Err (C × Y)) (c : C) (a : A) (as : List A) (e : Err)
    (h : g c a = .error e) : scanE g c (a :: as) = .error e := by
  simp [scanE, h]

theorem repeated_eq (fn : S → S) (n : Nat) : repeated fn n = fn^[n] := by
  unfold repeated
  split
  · next h => subst h; rfl
  · funext x
    have := scan_replicate fn (fun _ => ()) x n
    rw [this]

theorem applyFilters_eq_foldl (u : S) (filters : List (S → S → S)) (v : S) :
    applyFilters u filters v = filters.foldl (fun uNext flt => flt u uNext) v := by
  induction filters generalizing v with
  | nil => rfl
  | cons flt rest ih => simp [applyFilters, ih]

/-! ### chunking -/

@[simp] theorem chunks_length (sz n : Nat) (xs : List X) : (chunks sz n xs).length = n := by
  induction n generalizing xs with
  | zero => rfl
  | succ n ih => simp [chunks, ih]

theorem chunks_flatten (sz n : Nat) (xs : List X) (h : xs.length = n * sz) :
    (chunks sz n xs).flatten = xs := by
  induction n generalizing xs with
  | zero =>
    have : xs = [] := by simpa using h
    simp [chunks, this]
  | succ n ih =>
    have h' : (xs.drop sz).length = n * sz := by
      rw [List.length_drop, h]; rw [Nat.succ_mul]; omega
    simp [chunks, ih _ h']

theorem length_of_mem_chunks (sz n : Nat) (xs : List X) (h : xs.length = n * sz) :
    ∀ ch ∈ chunks sz n xs, ch.length = sz := by
  induction n generalizing xs with
  | zero => simp [chunks]
  | succ n ih =>
    have h' : (xs.drop sz).length = n * sz := by
      rw [List.length_drop, h]; rw [Nat.succ_mul]; omega
    intro ch hch
    simp only [chunks, List.mem_cons] at hch
    rcases hch with rfl | hch
    · rw [List.length_take, h, Nat.succ_mul]; omega
    · exact ih _ h' ch hch

theorem rowAt_take (leaves : List (List X)) (a i : Nat) (h : i < a) :
    rowAt (leaves.map (·.take a)) i = rowAt leaves i := by
  simp only [rowAt, List.filterMap_map, Function.comp_def, List.getElem?_take, h, if_true]

theorem rowAt_drop (leaves : List (List X)) (a i : Nat) :
    rowAt (leaves.map (·.drop a)) i = rowAt leaves (a + i) := by
  simp only [rowAt, List.filterMap_map, Function.comp_def, List.getElem?_drop]

/-- the first `a + b` inputs of a scan over a pytree: first the inputs of the leading slices,
 then those of the rest (no condition on the leaves) -/
theorem rows_add (a b : Nat) (leaves : List (List X)) :
    rows (a + b) leaves = rows a (leaves.map (·.take a)) ++ rows b (leaves.map (·.drop a)) := by
  unfold rows
  rw [List.range_add, List.map_append, List.map_map]
  congr 1
  · apply List.map_congr_left
    intro i hi
    rw [rowAt_take _ _ _ (List.mem_range.mp hi)]
  · apply List.map_congr_left
    intro i _
    rw [rowAt_drop]; rfl

@[simp] theorem chunksTree_length (sz n : Nat) (leaves : List (List X)) :
    (chunksTree sz n leaves).length = n := by
  induction n generalizing leaves with
  | zero => rfl
  | succ n ih => simp [chunksTree, ih]

theorem chunksTree_flatten (sz n : Nat) (leaves : List (List X)) :
    ((chunksTree sz n leaves).map (rows sz)).flatten = rows (n * sz) leaves := by
  induction n generalizing leaves with
  | zero => simp [chunksTree, rows]
  | succ n ih =>
    have e : (n + 1) * sz = sz + n * sz := by ring
    rw [e, rows_add]
    simp [chunksTree, ih]

theorem length_of_mem_chunksTree (sz n : Nat) (leaves : List (List X))
    (h : ∀ a ∈ leaves, a.length = n * sz) :
    ∀ sub ∈ chunksTree sz n leaves, ∀ a ∈ sub, a.length = sz := by
  induction n generalizing leaves with
  | zero => simp [chunksTree]
  | succ n ih =>
    intro sub hsub
    simp only [chunksTree, List.mem_cons] at hsub
    rcases hsub with rfl | hsub
    · intro a ha
      obtain ⟨a0, ha0, rfl⟩ := List.mem_map.mp ha
      rw [List.length_take, h a0 ha0, Nat.succ_mul]; omega
    · refine ih _ ?_ sub hsub
      intro a ha
      obtain ⟨a0, ha0, rfl⟩ := List.mem_map.mp ha
      rw [List.length_drop, h a0 ha0, Nat.succ_mul]; omega

theorem prod_cons (l : Nat) (ls : List Nat) : prod (l :: ls) = l * prod ls := rfl

end scans

/-! ### the running weighted sum -/
section acc
variable {K V : Type}

theorem accumulateRepeated_foldl [Add V] [Zero V] [SMul K V] (step : V → V) (w : List K) (s : V) :
    accumulateRepeated step w s
      = (w.foldl (fun (carry : V × V) weight =>
          (step carry.1, carry.2 + weight • step carry.1)) (s, 0)).2 := by
  unfold accumulateRepeated
  rw [scan_fst_eq_foldl]

theorem foldl_acc_eq_sum [AddMonoid V] [SMul K V] (step : V → V) (w : List K) (s a : V) :
    (w.foldl (fun (carry : V × V) weight =>
        (step carry.1, carry.2 + weight • step carry.1)) (s, a)).2
      = a + (w.zipIdx.map fun p => p.1 • step^[p.2 + 1] s).sum := by
  induction w generalizing s a with
  | nil => simp
  | cons x w ih =>
    rw [List.foldl_cons, ih, List.zipIdx_cons, List.zipIdx_succ]
    simp [add_assoc, Function.comp_def]

theorem foldl_acc_fixed [Semiring K] [AddCommMonoid V] [Module K V] (step : V → V) (w : List K)
    (s a : V) (h : step s = s) :
    (w.foldl (fun (carry : V × V) weight =>
        (step carry.1, carry.2 + weight • step carry.1)) (s, a)).2 = a + w.sum • s := by
  induction w generalizing a with
  | nil => simp
  | cons x w ih =>
    rw [List.foldl_cons, h, ih, List.sum_cons, add_smul, add_assoc]

theorem weightSum_eq_sum [AddMonoid K] (w : List K) : weightSum w = w.sum := by
  unfold weightSum
  rw [List.sum_eq_foldl]

theorem sum_map_div [DivisionRing K] (w : List K) (t : K) : (w.map (· / t)).sum = w.sum / t := by
  induction w with
  | nil => simp
  | cons x w ih => simp [ih, add_div]

end acc

end Dino.Comb
