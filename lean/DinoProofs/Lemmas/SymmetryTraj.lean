import DinoProofs.Lemmas.SymmetryImex
import DinoProofs.Lemmas.SymmetryMoist
import DinoProofs.Lemmas.SymmetrySW
import Dino.Invariants

/-!
# Lemmas for C10, part 7: from equivariant tendencies to equivariant trajectories

The equation classes of `Dino.Dynamics` as `ImplicitExplicitODE`s on `tree_math` vectors
(`Invariants.peImEx`, and `swImEx` below for `Dino.DynamicsSW`) are intertwined by the lift of a
symmetry `S` to states; hence every scheme of `time_integration.py` (`Invariants.Scheme`), every
history of filtered steps (`Invariants.runHistory`) and every filtered leapfrog run
(`Invariants.runLeapfrog`) commute with the symmetry.
-/
namespace Dino.Symmetry
open Dino Dino.Dynamics Dino.Imex Dino.Invariants

set_option linter.unusedSectionVars false

/-! ## `tree_math` vectors -/
section tm
variable {K V : Type}

/-- apply a state map inside a `tree_math` vector; the Python `0` and a raised exception stay -/
def tmMap (f : V → V) : TM V → TM V
  | .zero => .zero
  | .val v => .val (f v)
  | .err => .err

@[simp] theorem tmMap_val (f : V → V) (v : V) : tmMap f (.val v) = .val (f v) := rfl
@[simp] theorem tmMap_zero (f : V → V) : tmMap f (.zero : TM V) = .zero := rfl
@[simp] theorem tmMap_err (f : V → V) : tmMap f (.err : TM V) = .err := rfl

theorem tmMap_opHom [Field K] [Add V] [SMul K V] (f : V → V) (hadd : ∀ a b, f (a + b) = f a + f b)
    (hsmul : ∀ (c : K) a, f (c • a) = c • f a) : OpHom K (tmMap f) where
  map_add a b := by
    cases a <;> cases b <;> first | rfl | (show TM.val _ = TM.val _; rw [hadd])
  map_smul c a := by
    cases a
    · rfl
    · show TM.val _ = TM.val _; rw [hsmul]
    · rfl
  map_zero := rfl

theorem tmMap_lift (f g g' : V → V) (h : ∀ v, g' (f v) = f (g v)) (x : TM V) :
    TM.lift g' (tmMap f x) = tmMap f (TM.lift g x) := by
  cases x
  · rfl
  · show TM.val _ = TM.val _; rw [h]
  · rfl

theorem tmMap_liftO (f : V → V) (g g' : V → Option V) (h : ∀ v, g' (f v) = (g v).map f) (x : TM V) :
    TM.liftO g' (tmMap f x) = tmMap f (TM.liftO g x) := by
  cases x with
  | zero => rfl
  | err => rfl
  | val v =>
    simp only [tmMap_val, TM.liftO, h]
    cases g v <;> rfl

end tm

/-! ## the lift of a symmetry respects the `tree_math` arithmetic of the state structs -/
section stateHom
variable {K M N : Type} [Field K] [AddCommGroup M] [Module K M] [CommRing N] [Algebra K N]
variable (S : Sym K M N)

theorem state_add (a b : State M) : S.state (State.add a b) = State.add (S.state a) (S.state b) := by
  unfold State.add Sym.state
  simp only [col_add, map_add]
  congr 1
  simp only [State.zipTracers, mapTracers]
  rw [List.map_zipWith, List.zipWith_map]
  congr 1
  funext x y
  simp only [col_add]

theorem state_mapLevels_smul (c : K) (a : State M) :
    S.state (State.mapLevels (fun x => c • x) a) = State.mapLevels (fun x => c • x) (S.state a) := by
  unfold State.mapLevels Sym.state
  simp only [List.map_map, map_smul, mapTracers]
  refine congr (congr (congr (congr (congrArg _ ?_) ?_) ?_) rfl) ?_
  · congr 1; funext x; simp [smul_comm c S.ε]
  · congr 1; funext x; simp
  · congr 1; funext x; simp
  · congr 1; funext kv
    simp only [Function.comp, List.map_map]
    congr 2; funext x; simp

theorem stateWithTime_add (a b : StateWithTime K M) :
    S.stateWithTime (a + b) = S.stateWithTime a + S.stateWithTime b := by
  show Sym.stateWithTime S ⟨State.add a.state b.state, a.simTime + b.simTime⟩
    = ⟨State.add (S.stateWithTime a).state (S.stateWithTime b).state, _⟩
  simp only [Sym.stateWithTime, state_add]

theorem stateWithTime_smul (c : K) (a : StateWithTime K M) :
    S.stateWithTime (c • a) = c • S.stateWithTime a := by
  show Sym.stateWithTime S ⟨State.mapLevels (fun x => c • x) a.state, c * a.simTime⟩
    = ⟨State.mapLevels (fun x => c • x) (S.stateWithTime a).state, _⟩
  simp only [Sym.stateWithTime, state_mapLevels_smul]

/-- the action on `tree_math` vectors of states with a clock -/
def tmState : TM (StateWithTime K M) → TM (StateWithTime K M) := tmMap S.stateWithTime

theorem tmState_opHom : OpHom K (tmState S) :=
  tmMap_opHom _ (stateWithTime_add S) (stateWithTime_smul S)

end stateHom

/-! ## the primitive-equation classes as intertwined IMEX problems -/
section pe
variable {K M N : Type} [Field K] [BEq K] [AddCommGroup M] [Module K M] [CommRing N] [Algebra K N]
  [Div N]

theorem explicitOf_equiv {S : Sym K M N} (cls : Cls) (eq : PrimitiveEquations K M N)
    (H : Equivariant eq.ops S) (hdiv : ∀ a b : N, S.ρN (a / b) = S.ρN a / S.ρN b)
    (s : StateWithTime K M) :
    explicitOf cls (S.eqn eq) (S.stateWithTime s) = (explicitOf cls eq s).map S.stateWithTime := by
  cases cls with
  | dry =>
    simp only [explicitOf, Option.map_some, Sym.stateWithTime, explicitTerms_equiv eq H]
  | time =>
    simp only [explicitOf, Option.map_some, withTime_explicitTerms_equiv eq H]
  | moist => exact moist_explicitTerms_equiv eq H hdiv s
  | cloud => exact cloud_explicitTerms_equiv eq H hdiv s

/-- **the class `cls` over the transformed orography is intertwined with the original one** -/
theorem peImEx_intertwines {S : Sym K M N} (cls : Cls) (eq : PrimitiveEquations K M N)
    (H : Equivariant eq.ops S) (hdiv : ∀ a b : N, S.ρN (a / b) = S.ρN a / S.ρN b)
    (invOf : K → Nat → List (List K)) :
    Intertwines (tmState S) (peImEx cls eq invOf) (peImEx cls (S.eqn eq) invOf) where
  hom := tmState_opHom S
  F x := tmMap_liftO _ _ _ (explicitOf_equiv cls eq H hdiv) x
  G x := tmMap_lift _ _ _ (fun s => withTime_implicitTerms_equiv eq H s) x
  Ginv x η := tmMap_lift _ _ _ (fun s => withTime_implicitInverse_equiv eq H (invOf η) s) x

end pe

/-! ## shallow water (`Dino.DynamicsSW`) as an IMEX problem -/
section sw
variable {K M N : Type}

/-- `tree_math` arithmetic of `shallow_water.State` -/
instance swAdd [Add M] : Add (DynamicsSW.State M) :=
  ⟨fun a b => { vorticity := Col.add a.vorticity b.vorticity
                divergence := Col.add a.divergence b.divergence
                potential := Col.add a.potential b.potential }⟩

instance swSMul [SMul K M] : SMul K (DynamicsSW.State M) :=
  ⟨fun c a => { vorticity := Col.smul c a.vorticity
                divergence := Col.smul c a.divergence
                potential := Col.smul c a.potential }⟩

variable [Field K] [LT K] [DecidableLT K] [AddCommGroup M] [Module K M] [CommRing N] [Algebra K N]

/-- `ShallowWaterEquations` as an `ImplicitExplicitODE` on `tree_math` vectors -/
def swImEx (eq : DynamicsSW.ShallowWaterEquations K M N) : ImEx K (TM (DynamicsSW.State M)) :=
  { F := TM.lift eq.explicitTerms
    G := TM.lift eq.implicitTerms
    Ginv := fun x eta => TM.lift (fun s => eq.implicitInverse eta s) x }

theorem swState_add (S : Sym K M N) (a b : DynamicsSW.State M) :
    S.swState (a + b) = S.swState a + S.swState b := by
  show Sym.swState S ⟨_, _, _⟩ = ⟨_, _, _⟩
  simp only [Sym.swState, col_add]

theorem swState_smul (S : Sym K M N) (c : K) (a : DynamicsSW.State M) :
    S.swState (c • a) = c • S.swState a := by
  show Sym.swState S ⟨_, _, _⟩ = ⟨_, _, _⟩
  simp only [Sym.swState, col_smul]

/-- **shallow water over the transformed orography is intertwined with the original** -/
theorem swImEx_intertwines {S : Sym K M N} (eq : DynamicsSW.ShallowWaterEquations K M N)
    (H : Equivariant eq.ops S) :
    Intertwines (tmMap S.swState) (swImEx eq) (swImEx (S.swEqn eq)) where
  hom := tmMap_opHom _ (swState_add S) (swState_smul S)
  F x := tmMap_lift _ _ _ (fun s => sw_explicitTerms_equiv eq H s) x
  G x := tmMap_lift _ _ _ (fun s => sw_implicitTerms_equiv eq H s) x
  Ginv x η := tmMap_lift _ _ _ (fun s => sw_implicitInverse_equiv eq H η s) x

end sw

/-! ## schemes, histories, leapfrog runs -/
section hist
variable {K V : Type} [Field K] [Add V] [Zero V] [SMul K V]
variable {ρ : V → V} {e e' : ImEx K V}

/-- every one-state integrator: it raises for `e'` iff it raises for `e`, and the step functions
 are intertwined -/
theorem scheme_equiv (I : Intertwines ρ e e') (sch : Scheme K) (dt : K) :
    (sch.step e' dt).isSome = (sch.step e dt).isSome ∧
    ∀ s' s, sch.step e' dt = some s' → sch.step e dt = some s → ∀ u, s' (ρ u) = ρ (s u) := by
  cases sch with
  | bfe =>
    refine ⟨rfl, ?_⟩
    intro s' s h' h u
    simp only [Scheme.step, Option.some.injEq] at h' h
    subst h' h
    exact bfe_equiv I dt u
  | cnrk2 =>
    refine ⟨rfl, ?_⟩
    intro s' s h' h u
    simp only [Scheme.step, Option.some.injEq] at h' h
    subst h' h
    exact cnrk2_equiv I dt u
  | lsrk αs βs γs => exact lsrk_equiv I dt αs βs γs
  | tableau nz t => exact imexRK_equiv I nz dt t

/-- two histories that differ only by conjugating the filters -/
def HistRel (ρ : V → V) (hist' hist : List (Entry K V)) : Prop :=
  List.Forall₂ (fun en' en => en'.sch = en.sch ∧ en'.dt = en.dt ∧
    List.Forall₂ (fun f' f => ∀ u, f' (ρ u) = ρ (f u)) en'.filters en.filters) hist' hist

theorem foldl_filters_equiv (fs' fs : List (V → V))
    (h : List.Forall₂ (fun f' f => ∀ u, f' (ρ u) = ρ (f u)) fs' fs) (u0' u0 : V) (x : V) :
    (fs'.map Filters.rkStepFilter).foldl (fun uNext flt => flt u0' uNext) (ρ x)
      = ρ ((fs.map Filters.rkStepFilter).foldl (fun uNext flt => flt u0 uNext) x) := by
  induction h generalizing x with
  | nil => rfl
  | cons hf _ ih =>
    simp only [List.map_cons, List.foldl_cons, Filters.rkStepFilter]
    rw [hf, ih]

/-- **whole histories**: any sequence of schemes, step sizes and (conjugated) filters -/
theorem runHistory_equiv (I : Intertwines ρ e e') (hist' hist : List (Entry K V))
    (h : HistRel ρ hist' hist) (u : V) :
    runHistory e' hist' (ρ u) = (runHistory e hist u).map ρ := by
  induction h generalizing u with
  | nil => rfl
  | @cons en' en _ _ hen _ ih =>
    obtain ⟨hs, hd, hf⟩ := hen
    simp only [runHistory, hs, hd]
    obtain ⟨hsome, hstep⟩ := scheme_equiv I en.sch en.dt
    cases h1 : en.sch.step e en.dt with
    | none =>
      rw [h1] at hsome
      cases h2 : en.sch.step e' en.dt with
      | none => rfl
      | some s' => rw [h2] at hsome; simp at hsome
    | some s =>
      rw [h1] at hsome
      cases h2 : en.sch.step e' en.dt with
      | none => rw [h2] at hsome; simp at hsome
      | some s' =>
        simp only
        have := hstep s' s h2 h1 u
        unfold stepWithFilters
        rw [this, foldl_filters_equiv _ _ hf, ih]

/-- relation between the filters of two leapfrog runs -/
def lfRel (ρ : V → V) : LfFilter K V → LfFilter K V → Prop
  | .state g', .state g => ∀ u, g' (ρ u) = ρ (g u)
  | .ra r', .ra r => r' = r
  | _, _ => False

theorem lfFilter_equiv (hρ : OpHom K ρ) (f' f : LfFilter K V) (h : lfRel ρ f' f) (u v : V × V) :
    f'.fn (ρ u.1, ρ u.2) (ρ v.1, ρ v.2) = (ρ (f.fn u v).1, ρ (f.fn u v).2) := by
  cases f' with
  | state g' =>
    cases f with
    | state g => simp only [LfFilter.fn, Filters.leapfrogStepFilter, h (v.2)]
    | ra r => exact absurd h id
  | ra r' =>
    cases f with
    | state g => exact absurd h id
    | ra r =>
      have : r' = r := h
      subst this
      simp only [LfFilter.fn, robertAsselin, hρ.map_add, hρ.map_smul]

theorem foldl_lfFilters_equiv (hρ : OpHom K ρ) (fs' fs : List (LfFilter K V))
    (h : List.Forall₂ (lfRel ρ) fs' fs) (u x : V × V) :
    (fs'.map LfFilter.fn).foldl (fun uNext flt => flt (ρ u.1, ρ u.2) uNext) (ρ x.1, ρ x.2)
      = (ρ ((fs.map LfFilter.fn).foldl (fun uNext flt => flt u uNext) x).1,
         ρ ((fs.map LfFilter.fn).foldl (fun uNext flt => flt u uNext) x).2) := by
  induction h generalizing x with
  | nil => rfl
  | cons hf _ ih =>
    simp only [List.map_cons, List.foldl_cons]
    rw [lfFilter_equiv hρ _ _ hf u x, ih]

/-- **filtered leapfrog runs of any length** -/
theorem runLeapfrog_equiv (I : Intertwines ρ e e') (dt α : K) (fs' fs : List (LfFilter K V))
    (h : List.Forall₂ (lfRel ρ) fs' fs) (k : Nat) (u : V × V) :
    runLeapfrog e' dt α fs' k (ρ u.1, ρ u.2)
      = (ρ (runLeapfrog e dt α fs k u).1, ρ (runLeapfrog e dt α fs k u).2) := by
  unfold runLeapfrog runSteps
  induction k generalizing u with
  | zero => rfl
  | succ k ih =>
    simp only [List.replicate_succ, List.foldl_cons]
    have hstep : stepWithFilters (Imex.leapfrog e' dt α) (fs'.map LfFilter.fn) (ρ u.1, ρ u.2)
        = (ρ (stepWithFilters (Imex.leapfrog e dt α) (fs.map LfFilter.fn) u).1,
           ρ (stepWithFilters (Imex.leapfrog e dt α) (fs.map LfFilter.fn) u).2) := by
      unfold stepWithFilters
      rw [leapfrog_equiv I dt α u, foldl_lfFilters_equiv I.hom _ _ h u]
    rw [hstep, ih]

end hist
end Dino.Symmetry
