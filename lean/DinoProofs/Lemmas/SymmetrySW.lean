import Dino.DynamicsSW
import DinoProofs.Lemmas.SymmetryDyn

/-!
# Lemmas for C10, part 5: the layered shallow-water equations are equivariant
-/
namespace Dino.Symmetry
open Dino Dino.Dynamics Dino.DynamicsSW

variable {K M N : Type} [Field K] [AddCommGroup M] [Module K M] [CommRing N] [Algebra K N]

set_option linter.unusedSectionVars false

namespace Sym
variable (S : Sym K M N)

/-- lift to `shallow_water.State`: vorticity is odd, divergence and potential are even -/
def swState (s : DynamicsSW.State M) : DynamicsSW.State M :=
  { vorticity := s.vorticity.map S.mO
    divergence := s.divergence.map S.mE
    potential := s.potential.map S.mE }

/-- the transformed shallow-water object: transformed orography (when there is one) -/
def swEqn (eq : ShallowWaterEquations K M N) : ShallowWaterEquations K M N :=
  { eq with orography := eq.orography.map S.ρM }

@[simp] theorem swEqn_ops (eq : ShallowWaterEquations K M N) : (S.swEqn eq).ops = eq.ops := rfl
@[simp] theorem swEqn_specs (eq : ShallowWaterEquations K M N) : (S.swEqn eq).specs = eq.specs := rfl
@[simp] theorem swEqn_ref (eq : ShallowWaterEquations K M N) :
    (S.swEqn eq).referencePotential = eq.referencePotential := rfl
@[simp] theorem swEqn_orography (eq : ShallowWaterEquations K M N) :
    (S.swEqn eq).orography = eq.orography.map S.ρM := rfl
end Sym

section hops2
variable {h : HOps K M N} {S : Sym K M N} (H : Equivariant h S)
include H

theorem divCosLat_OE (c : Bool) (v : M × M) :
    h.divCosLat c (S.mO v.1, S.mE v.2) = S.mO (h.divCosLat c v) := by
  cases c <;>
    simp only [HOps.divCosLat, dDlon_O H, d2_E H, clip_O H, ← map_smul, ← map_add, if_true,
      Bool.false_eq_true, if_false]

theorem curlCosLat_OE (c : Bool) (v : M × M) :
    h.curlCosLat c (S.mO v.1, S.mE v.2) = S.mE (h.curlCosLat c v) := by
  cases c <;>
    simp only [HOps.curlCosLat, dDlon_E H, d2_O H, clip_E H, ← map_smul, ← map_sub, if_true,
      Bool.false_eq_true, if_false]

theorem stateToNodal_E (x : M) : stateToNodal h (S.mE x) = S.nE (stateToNodal h x) := by
  unfold stateToNodal; rw [clip_E H, toNodal_E H]

theorem stateToNodal_O (x : M) : stateToNodal h (S.mO x) = S.nO (stateToNodal h x) := by
  unfold stateToNodal; rw [clip_O H, toNodal_O H]

theorem lmul_E (c : Nat → K) (x : M) : lmul h c (S.mE x) = S.mE (lmul h c x) := by
  unfold lmul
  have hL : ((List.range h.nL).map fun l => c l • h.lproj l (S.mE x))
      = ((List.range h.nL).map fun l => c l • h.lproj l x).map S.mE := by
    rw [List.map_map]
    apply List.map_congr_left
    intro l _
    simp only [Function.comp, Sym.mE_apply, H.lproj, map_smul]
  rw [hL]
  have : ∀ (L : List M) (acc : M), (L.map S.mE).foldl (· + ·) (S.mE acc) = S.mE (L.foldl (· + ·) acc) := by
    intro L
    induction L with
    | nil => intro acc; rfl
    | cons a t ih => intro acc; simp only [List.map_cons, List.foldl_cons, ← map_add, ih]
  have h0 := this ((List.range h.nL).map fun l => c l • h.lproj l x) 0
  rwa [map_zero] at h0

end hops2

section sw
variable {S : Sym K M N} (eq : ShallowWaterEquations K M N) (H : Equivariant eq.ops S)
include H

theorem sw_coriolis_O : S.nO eq.coriolisParameter = eq.coriolisParameter := by
  simp only [ShallowWaterEquations.coriolisParameter, Sym.nO_apply, map_smul, H.sinLat]
  rw [eps_smul_smul H]

theorem layeredPressure_equiv [LT K] [DecidableLT K] (potential : List M) :
    (S.swEqn eq).layeredPressure (potential.map S.mE) = (eq.layeredPressure potential).map S.mE := by
  unfold ShallowWaterEquations.layeredPressure ShallowWaterEquations.densityRatios
  simp only [Sym.swEqn_specs, Sym.swEqn_orography, col_matvec]
  cases eq.orography with
  | none => rfl
  | some o => exact col_addLevel S.mE _ o

theorem explicitLayer_equiv (z d f p : M) :
    (S.swEqn eq).explicitLayer (S.mO z) (S.mE d) (S.mE f) (S.mE p)
      = (S.mO (eq.explicitLayer z d f p).1, S.mE (eq.explicitLayer z d f p).2.1,
         S.mE (eq.explicitLayer z d f p).2.2) := by
  unfold ShallowWaterEquations.explicitLayer
  have hc : (S.swEqn eq).coriolisParameter = eq.coriolisParameter := rfl
  simp only [Sym.swEqn_ops, hc, cosLatVector_OE H, toNodal_E H, toNodal_O H, stateToNodal_E H,
    stateToNodal_O H]
  set u := eq.ops.cosLatVector true z d with hu
  set tv := stateToNodal eq.ops z + eq.coriolisParameter with htv
  have e_tv : S.nO (stateToNodal eq.ops z) + eq.coriolisParameter = S.nO tv := by
    rw [htv, map_add, sw_coriolis_O eq H]
  rw [e_tv]
  simp only [nE_mul_nO H, nO_mul_nO H, nE_mul_nE H, nO_mul_nE H, nE_mul_sec2 H, nO_mul_sec2 H,
    toModal_E H, toModal_O H, ← map_add, ← map_smul]
  rw [divCosLat_OE H true (eq.ops.toModal (eq.ops.toNodal u.1 * tv * eq.ops.sec2Lat),
      eq.ops.toModal (eq.ops.toNodal u.2 * tv * eq.ops.sec2Lat)),
    curlCosLat_OE H true (eq.ops.toModal (eq.ops.toNodal u.1 * tv * eq.ops.sec2Lat),
      eq.ops.toModal (eq.ops.toNodal u.2 * tv * eq.ops.sec2Lat)),
    divCosLat_EO H true (eq.ops.toModal (eq.ops.toNodal u.1 * stateToNodal eq.ops f * eq.ops.sec2Lat),
      eq.ops.toModal (eq.ops.toNodal u.2 * stateToNodal eq.ops f * eq.ops.sec2Lat))]
  simp only [lap_E H, ← map_neg, ← map_add, clip_E H, clip_O H]

theorem sw_explicitTerms_equiv [LT K] [DecidableLT K] (s : DynamicsSW.State M) :
    (S.swEqn eq).explicitTerms (S.swState s) = S.swState (eq.explicitTerms s) := by
  unfold ShallowWaterEquations.explicitTerms Sym.swState
  simp only [layeredPressure_equiv eq H]
  have hrows : List.zipWith
        (fun (zd : M × M) (fp : M × M) => (S.swEqn eq).explicitLayer zd.1 zd.2 fp.1 fp.2)
        (List.zip (s.vorticity.map S.mO) (s.divergence.map S.mE))
        (List.zip (s.potential.map S.mE) ((eq.layeredPressure s.potential).map S.mE))
      = (List.zipWith (fun (zd : M × M) (fp : M × M) => eq.explicitLayer zd.1 zd.2 fp.1 fp.2)
        (List.zip s.vorticity s.divergence) (List.zip s.potential (eq.layeredPressure s.potential))).map
          (fun r => (S.mO r.1, S.mE r.2.1, S.mE r.2.2)) := by
    rw [List.zip_map, List.zip_map]
    exact zipWith_map_comm _ _ _ _ _ (fun zd fp => explicitLayer_equiv eq H zd.1 zd.2 fp.1 fp.2) _ _
  rw [hrows]
  simp only [List.map_map]
  rfl

theorem sw_implicitTerms_equiv (s : DynamicsSW.State M) :
    (S.swEqn eq).implicitTerms (S.swState s) = S.swState (eq.implicitTerms s) := by
  unfold ShallowWaterEquations.implicitTerms Sym.swState
  simp only [Sym.swEqn_ops, Sym.swEqn_ref]
  congr 1
  · exact col_zerosLike S.mO _ _
  · exact map_map_comm _ _ _ _ (fun x => by rw [lap_E H, ← map_neg]) _
  · exact zipWith_map_right_comm _ _ _ _ (fun r d => by simp) _ _

theorem sw_implicitInverse_equiv (stepSize : K) (s : DynamicsSW.State M) :
    (S.swEqn eq).implicitInverse stepSize (S.swState s) = S.swState (eq.implicitInverse stepSize s) := by
  unfold ShallowWaterEquations.implicitInverse Sym.swState
  have hi : ∀ r, (S.swEqn eq).inverseSchurComplement stepSize r = eq.inverseSchurComplement stepSize r :=
    fun r => rfl
  simp only [Sym.swEqn_ops, Sym.swEqn_ref, hi]
  have hrows : List.zipWith
        (fun (r : K) (dp : M × M) =>
          (lmul eq.ops (eq.inverseSchurComplement stepSize r) (dp.1 - stepSize • eq.ops.laplacian dp.2),
           lmul eq.ops (eq.inverseSchurComplement stepSize r) (((-stepSize) * r) • dp.1 + dp.2)))
        eq.referencePotential (List.zip (s.divergence.map S.mE) (s.potential.map S.mE))
      = (List.zipWith
        (fun (r : K) (dp : M × M) =>
          (lmul eq.ops (eq.inverseSchurComplement stepSize r) (dp.1 - stepSize • eq.ops.laplacian dp.2),
           lmul eq.ops (eq.inverseSchurComplement stepSize r) (((-stepSize) * r) • dp.1 + dp.2)))
        eq.referencePotential (List.zip s.divergence s.potential)).map (fun r => (S.mE r.1, S.mE r.2)) := by
    rw [List.zip_map]
    exact zipWith_map_right_comm _ _ _ _ (fun r dp => by
      simp only [Prod.map_fst, Prod.map_snd, lap_E H, ← map_smul, ← map_sub, ← map_add, lmul_E H]) _ _
  rw [hrows]
  simp only [List.map_map]
  rfl

end sw
end Dino.Symmetry
