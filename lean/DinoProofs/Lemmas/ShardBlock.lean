import DinoProofs.Lemmas.Shard
import DinoProofs.Lemmas.ShardPad
import DinoProofs.Lemmas.Lin
import Mathlib.Algebra.BigOperators.Pi

/-!
# Block decomposition of a matrix product (C07, T7.1 / T7.2 — the "full contraction" step)

The schedule theorems `allgatherMatmul_even` / `matmulReducescatter_even` end at the symbolic sums
`Σ_c mm (lhs a c) (rhs c)` and `Σ_s mm (lhs s a) (rhs s)`.  Here the operands are instantiated with the
blocks of two *unsharded* matrices `A` (coefficients) and `B` (inputs) of the list model `Dino.Lin`:
`lhs` chunks are `colChunk` / `rowChunk` slices (`lax.dynamic_slice_in_dim`), `rhs` shards are
`splitEvery k B` (the `shard_map` in-spec), the chunk product is `Lin.matMul`, read entrywise
(`ent2`, so that sums of products live in the commutative monoid `Nat → Nat → K`), and the symbolic sums
are shown to be the blocks of the one unsharded product `Lin.matMul A B w`.
-/
namespace Dino.Shard
open Finset Dino.Lin

section sums
variable {M : Type} [AddCommMonoid M]

/-- a sum over a contraction axis of length `n·k` is the sum over its `n` chunks of length `k` -/
theorem sum_range_chunks (f : Nat → M) (n k : Nat) :
    ∑ c ∈ range n, ∑ t ∈ range k, f (c * k + t) = ∑ v ∈ range (n * k), f v := by
  induction n with
  | zero => simp
  | succ n ih =>
    rw [Finset.sum_range_succ, ih, Nat.succ_mul, Finset.sum_range_add]

end sums

section chunks
variable {K : Type} [CommRing K]

theorem ent_rowChunk (v : List K) (c k t : Nat) :
    ent (rowChunk v c k) t = if t < k then ent v (c * k + t) else 0 := by
  unfold ent rowChunk
  simp only [List.getD_eq_getElem?_getD, List.getElem?_take, List.getElem?_drop]
  split <;> rfl

theorem getD_rowChunk {α : Type} (B : List (List α)) (s k t : Nat) :
    (rowChunk B s k).getD t [] = if t < k then B.getD (s * k + t) [] else [] := by
  unfold rowChunk
  simp only [List.getD_eq_getElem?_getD, List.getElem?_take, List.getElem?_drop]
  split <;> rfl

theorem ent2_rowChunk (B : List (List K)) (s k t j : Nat) :
    ent2 (rowChunk B s k) t j = if t < k then ent2 B (s * k + t) j else 0 := by
  unfold ent2
  rw [getD_rowChunk]
  split <;> simp

theorem ent2_colChunk (A : List (List K)) (c k i t : Nat) :
    ent2 (colChunk A c k) i t = if t < k then ent2 A i (c * k + t) else 0 := by
  unfold colChunk
  rw [ent2_eq_ent, getD_map_nil (fun row : List K => rowChunk row c k) A i [] (by simp [rowChunk]),
    ent_rowChunk]
  rfl

theorem rowChunk_length_le {α : Type} (B : List α) (s k : Nat) : (rowChunk B s k).length ≤ k := by
  unfold rowChunk
  simp only [List.length_take]
  omega

theorem rowChunk_rows {α : Type} (B : List (List α)) (s k w : Nat) (h : ∀ r ∈ B, r.length = w) :
    ∀ r ∈ rowChunk B s k, r.length = w := fun r hr =>
  h r (List.mem_of_mem_drop (List.mem_of_mem_take hr))

/-- slicing rows and slicing columns commute -/
theorem rowChunk_colChunk {α : Type} (A : List (List α)) (a r s k : Nat) :
    rowChunk (colChunk A s k) a r = colChunk (rowChunk A a r) s k := by
  simp only [colChunk]
  rw [rowChunk, rowChunk, List.map_take, List.map_drop]

/-- one chunk product of the collectives, entrywise -/
theorem ent2_chunk_product (A B : List (List K)) (c k w i j : Nat) (hw : ∀ r ∈ B, r.length = w) :
    ent2 (matMul (colChunk A c k) (rowChunk B c k) w) i j
      = ∑ t ∈ range k, ent2 A i (c * k + t) * ent2 B (c * k + t) j := by
  rw [ent2_matMul _ _ w i j k (rowChunk_rows B c k w hw) (rowChunk_length_le B c k)]
  apply Finset.sum_congr rfl
  intro t ht
  rw [Finset.mem_range] at ht
  rw [ent2_colChunk, ent2_rowChunk, if_pos ht, if_pos ht]

/-- **block decomposition along the contraction axis** (all-gather form): the sum over the `n` chunks of
 (columns chunk `c` of `A`) · (rows chunk `c` of `B`) is the product of the unsplit operands -/
theorem block_contraction (A B : List (List K)) (n k w : Nat) (hB : B.length ≤ n * k)
    (hw : ∀ r ∈ B, r.length = w) :
    ∑ c ∈ range n, ent2 (matMul (colChunk A c k) (rowChunk B c k) w) = ent2 (matMul A B w) := by
  funext i j
  rw [Finset.sum_apply, Finset.sum_apply, ent2_matMul A B w i j (n * k) hw hB,
    ← sum_range_chunks (fun v => ent2 A i v * ent2 B v j) n k]
  apply Finset.sum_congr rfl
  intro c _
  exact ent2_chunk_product A B c k w i j hw

/-- **block decomposition along the output rows** (reduce-scatter form): rows chunk `a` of the full product is
 (rows chunk `a` of `A`) · `B` -/
theorem matMul_rowChunk (A B : List (List K)) (a r w : Nat) :
    matMul (rowChunk A a r) B w = rowChunk (matMul A B w) a r := by
  unfold matMul rowChunk
  rw [List.map_take, List.map_drop]

/-- the shard of device `c` under `shard_map` along the leading axis -/
theorem getD_splitEvery {α : Type} (B : List (List α)) (n k c : Nat) (hk : 0 < k) (hB : B.length = n * k)
    (hc : c < n) : (splitEvery k B).getD c [] = rowChunk B c k := by
  unfold splitEvery
  rw [if_neg (by omega), hB, Nat.mul_div_cancel _ hk, getD_map_range n _ _ c hc]
  rfl

theorem length_splitEvery {α : Type} (B : List α) (n k : Nat) (hk : 0 < k) (hB : B.length = n * k) :
    (splitEvery k B).length = n := by
  unfold splitEvery
  rw [if_neg (by omega), hB, Nat.mul_div_cancel _ hk]
  simp

end chunks

/-! ## the two collectives for axis size 1 or even, in one statement each -/

section collectives
variable {L X M : Type} [AddCommMonoid M]

theorem allgatherMatmul_sum (mm : L → X → M) (z : X) (lhs : Nat → Nat → L) (rhs : List X) (n : Nat)
    (hlen : rhs.length = n) (hn : n = 1 ∨ (n % 2 = 0 ∧ 0 < n)) :
    allgatherMatmul mm z lhs rhs
      = some ((List.range n).map fun a => ∑ c ∈ range n, mm (lhs a c) (rhs.getD c z)) := by
  rcases hn with rfl | ⟨he, hp⟩
  · unfold allgatherMatmul
    simp only [hlen, if_true]
    simp [List.range_succ]
  · obtain ⟨h, rfl⟩ : ∃ h, n = 2 * h := ⟨n / 2, by omega⟩
    exact allgatherMatmul_even mm z lhs rhs h hlen (by omega)

theorem matmulReducescatter_sum (mm : L → X → M) (z : X) (lhs : Nat → Nat → L) (rhs : List X) (n : Nat)
    (hlen : rhs.length = n) (hn : n = 1 ∨ (n % 2 = 0 ∧ 0 < n)) :
    matmulReducescatter mm z lhs rhs
      = some ((List.range n).map fun a => ∑ s ∈ range n, mm (lhs s a) (rhs.getD s z)) := by
  rcases hn with rfl | ⟨he, hp⟩
  · unfold matmulReducescatter
    simp only [hlen, if_true]
    simp [List.range_succ]
  · obtain ⟨h, rfl⟩ : ∃ h, n = 2 * h := ⟨n / 2, by omega⟩
    exact matmulReducescatter_even mm z lhs rhs h hlen (by omega)

end collectives

end Dino.Shard
