import Dino.SHDrv
import DinoProofs.Lemmas.SHFast
import DinoProofs.Lemmas.SHEquiv
import DinoProofs.Lemmas.DynamicsInstMask
import DinoProofs.Properties.DYN
/-!
# `GridData.ofGrid` records exhibited (review 3, tag G, items 1.1 and 1.2)

`wf_ofGrid`, `maskOk_ofGrid_real`, `maskOk_ofGrid_fast` had no user.  Here

* **fast layout, every size** (`item 1.2`): the structural-zero hypothesis `hz` of `maskOk_ofGrid_fast` is a THEOREM
  for the tables the model itself builds (`SH.fastBasisOf` of a Fourier table whose column 1 is zero and of
  `associated_legendre.evaluate`; `SH.buildFast` is such a basis, `buildFast_eq`): `fastBasisOf_zeros`.  Hence
  `WF` and `MaskOk` of the `ofGrid` record of every `FastSphericalHarmonics`-type basis, any padding:
  `wf_ofGrid_fastBasisOf`, `maskOk_ofGrid_fastBasisOf`, `wf_ofGrid_buildFast`, `maskOk_ofGrid_buildFast`.
* **real layout, every size** (`item 1.1`): the same for `SH.buildReal`: `wf_ofGrid_buildReal`,
  `maskOk_ofGrid_buildReal` (users of `wf_ofGrid`, `maskOk_ofGrid_real`, `evaluate_tables_masked`).
* **concrete rational witnesses**: `gReal` (`M = 2, L = 3`, 4 longitudes, 3 latitudes `−3/5, 0, 3/5`) and `gFast`
  (`M = 2, L = 3`, paddings `(1, 2, 1, 1)`: 5 longitudes, 6 modal rows, 4 latitudes, 4 columns), both literally
  `GridData.ofGrid` of what `buildReal` / `buildFast` return over `ℚ`, with the exact values of `cos`, `sin` at the
  multiples of `2π/4` (`π` is represented by `2`, so that the argument `2π·k/N` is `k`) and `sqrt := id` (only
  `sqrt 0 = 0` is used: orthonormality is not needed for `WF` / `MaskOk`).  On them the corollaries of
  `Properties/DYN.lean` are instantiated: `rest_gReal`, `mean0_gReal`, `mean0_gFast`, `mem_gFast`.
-/
set_option linter.unusedSectionVars false
set_option linter.unusedSimpArgs false
set_option linter.unusedVariables false

namespace Dino.DYN
open Dino Dino.Dynamics Dino.Grid Dino.SH Dino.SHEquiv Dino.Lin Dino.DynamicsInst Dino.Invariants Dino.Balance
set_option autoImplicit false

/-! ## the model's own tables, every size -/
section general
variable {K : Type} [Field K]

/-- shape of the tables of `evaluate` (any `sqrt`) -/
theorem evaluate_shape' (sqrt : K → K) (M L : ℕ) (xs : List K) :
    (Legendre.evaluate sqrt M L xs).length = M
    ∧ (∀ pm ∈ Legendre.evaluate sqrt M L xs, pm.length = xs.length)
    ∧ (∀ pm ∈ Legendre.evaluate sqrt M L xs, ∀ pj ∈ pm, pj.length = L) := by
  refine ⟨by simp [Legendre.evaluate], ?_, ?_⟩
  · intro pm hpm
    simp only [Legendre.evaluate, List.mem_map, List.mem_range] at hpm
    obtain ⟨m, _, rfl⟩ := hpm
    simp
  · intro pm hpm pj hpj
    simp only [Legendre.evaluate, List.mem_map, List.mem_range] at hpm
    obtain ⟨m, _, rfl⟩ := hpm
    simp only [List.mem_map] at hpj
    obtain ⟨x, _, rfl⟩ := hpj
    exact Legendre.row_length sqrt L x m

/-- `real_basis_with_zero_imag`: the column of the `−0` row is zero -/
theorem realBasisZeroImag_col1 (cs sn : ℕ → K) (s2p sp : K) (M N k : ℕ) :
    ent2 (Fourier.realBasisZeroImag cs sn s2p sp M N) k 1 = 0 := by
  unfold Fourier.realBasisZeroImag ent2
  simp only [List.getD_eq_getElem?_getD, List.getElem?_map]
  cases (List.range N)[k]? <;> simp

theorem realBasisZeroImag_length (cs sn : ℕ → K) (s2p sp : K) (M N : ℕ) :
    (Fourier.realBasisZeroImag cs sn s2p sp M N).length = N := by
  simp [Fourier.realBasisZeroImag]

theorem realBasis_length' (cs sn : ℕ → K) (s2p sp : K) (M N : ℕ) :
    (Fourier.realBasis cs sn s2p sp M N).length = N := by
  simp [Fourier.realBasis]

/-- the fast layout `FastSphericalHarmonics` of sizes `M, L` and modal paddings `(pr, pc)` -/
abbrev fastLy (M L pr pc : ℕ) : Layout := ⟨true, M, L, pr, pc⟩
/-- the real layout `RealSphericalHarmonics` of sizes `M, L` -/
abbrev realLy (M L : ℕ) : Layout := ⟨false, M, L, 0, 0⟩

/-- **item 1.2: the structural zeros of the padded fast tables are a theorem.**  For the basis
 `FastSphericalHarmonics.basis` of the model — `fastBasisOf` of ANY Fourier table whose column 1 (the `−0` row)
 vanishes and of the tables of `associated_legendre.evaluate`, with any four paddings — every entry outside the
 mask is killed: the `−0` row by the Fourier column, the padding rows (`i ≥ 2M`) by the zero tables that the padding
 appends, the padding columns (`l ≥ L`) by the zero padding of the last axis, the triangle `l < |m|` by C01's
 structural zeros (`fastTables_zero`).  This is exactly the hypothesis `hz` of `maskOk_ofGrid_fast`. -/
theorem fastBasisOf_zeros (sqrt : K → K) (M L pn pr pj pc : ℕ) (xs : List K) (fz : List (List K)) (w : List K)
    (hfz : ∀ k, ent2 fz k 1 = 0) (i l : ℕ) (hm : (fastLy M L pr pc).maskAt i l = false) :
    (∀ j, ent3 (SH.fastBasis (fastBasisOf fz (Legendre.evaluate sqrt M L xs) w pn pr pj pc (2 * M)
        xs.length L)).p i j l = 0)
      ∨ (∀ k, ent2 (SH.fastBasis (fastBasisOf fz (Legendre.evaluate sqrt M L xs) w pn pr pj pc (2 * M)
        xs.length L)).f k i = 0) := by
  obtain ⟨hP, hPj, hPl⟩ := evaluate_shape' sqrt M L xs
  have hp : ∀ j, ent3 (SH.fastBasis (fastBasisOf fz (Legendre.evaluate sqrt M L xs) w pn pr pj pc (2 * M)
      xs.length L)).p i j l = ent3 (Legendre.evaluate sqrt M L xs) (i / 2) j l := by
    intro j
    show ent3 (dup _) i j l = _
    rw [ent3_dup, ent3_fastBasisOf]
  by_cases h1 : i = 1
  · right
    intro k
    show ent2 (fastBasisOf fz (Legendre.evaluate sqrt M L xs) w pn pr pj pc (2 * M) xs.length L).f k i = 0
    rw [ent2_fastBasisOf_f, h1]; exact hfz k
  · left
    intro j
    rw [hp]
    by_cases hi : i < 2 * M
    · by_cases hl : l < L
      · -- the triangle
        apply Legendre.ent3_evaluate_of_lt
        rw [Layout.maskAt_false_iff] at hm
        by_contra hc
        apply hm
        refine ⟨⟨fun _ => ⟨h1, hi⟩, fun _ => ?_⟩, hl⟩
        unfold Layout.mAbs
        simp only [if_true, if_pos hi]
        omega
      · exact ent3_of_shape _ xs.length L _ j l hPj hPl (Or.inr (by omega))
    · -- a padding row: no table
      rw [ent3_eq_ent2, getD_nil_of_le _ _ (by rw [hP]; omega)]; exact ent2_nil _ _

/-- shape of `FastSphericalHarmonics.basis` as `shTransforms` of the fast layout expects it -/
theorem basisFor_fastBasisOf (sqrt : K → K) (M L N pn pr pj pc : ℕ) (xs : List K) (fz : List (List K)) (w : List K)
    (hf : fz.length = N) (hw : w.length = xs.length) (hpr : pr % 2 = 0) :
    BasisFor (fastLy M L pr pc) (fastBasisOf fz (Legendre.evaluate sqrt M L xs) w pn pr pj pc (2 * M) xs.length L)
      (N + pn) (xs.length + pj) := by
  obtain ⟨hP, hPj, hPl⟩ := evaluate_shape' sqrt M L xs
  have hs := fastBasisOf_shaped fz (Legendre.evaluate sqrt M L xs) w M N xs.length L pn pr pj pc hf hP hPj hPl hw
  unfold BasisFor
  have hr : (fastLy M L pr pc).rows = 2 * M + pr := by simp [Layout.rows]
  have h2 : (2 * M + pr) / 2 = M + pr / 2 := by omega
  simp only [if_true, hr, h2]
  exact ⟨by omega, hs⟩

theorem fastBasisOf_w_length (fz : List (List K)) (P : List (List (List K))) (w : List K)
    (pn pr pj pc twoM J L : ℕ) : (fastBasisOf fz P w pn pr pj pc twoM J L).w.length = w.length + pj := by
  simp [fastBasisOf]

/-- **`WF` of the fast `ofGrid` record, every size and padding** (user of `wf_ofGrid`) -/
theorem wf_ofGrid_fastBasisOf (sqrt : K → K) (M L N pn pr pj pc : ℕ) (xs : List K) (fz : List (List K)) (w : List K)
    (hf : fz.length = N) (hw : w.length = xs.length) (hpr : pr % 2 = 0) (sinLat : List K) (r c00 : K) :
    (GridData.ofGrid sqrt (fastLy M L pr pc)
      (fastBasisOf fz (Legendre.evaluate sqrt M L xs) w pn pr pj pc (2 * M) xs.length L) (N + pn) sinLat r c00).WF := by
  apply wf_ofGrid
  rw [fastBasisOf_w_length, hw]
  exact basisFor_fastBasisOf sqrt M L N pn pr pj pc xs fz w hf hw hpr

/-- **`MaskOk` of the fast `ofGrid` record, every size and padding** (user of `maskOk_ofGrid_fast`, with its
 hypothesis `hz` discharged by `fastBasisOf_zeros`): only `sqrt 0 = 0`, the zero Fourier column of the `−0` row,
 consistent lengths and an even row padding are assumed -/
theorem maskOk_ofGrid_fastBasisOf (sqrt : K → K) (hs : sqrt 0 = 0) (M L N pn pr pj pc : ℕ) (hM : 0 < M) (hL : 0 < L)
    (xs : List K) (fz : List (List K)) (w : List K) (hfz : ∀ k, ent2 fz k 1 = 0)
    (hf : fz.length = N) (hw : w.length = xs.length) (hpr : pr % 2 = 0) (sinLat : List K) (r c00 : K) :
    (GridData.ofGrid sqrt (fastLy M L pr pc)
      (fastBasisOf fz (Legendre.evaluate sqrt M L xs) w pn pr pj pc (2 * M) xs.length L) (N + pn) sinLat r c00).MaskOk := by
  have hB := basisFor_fastBasisOf sqrt M L N pn pr pj pc xs fz w hf hw hpr
  unfold BasisFor at hB
  simp only [if_true] at hB
  apply maskOk_ofGrid_fast sqrt hs (fastLy M L pr pc) rfl _ (N + pn) sinLat r c00 hL hM hB.1
  · rw [fastBasisOf_w_length, hw]; exact hB.2
  · intro i _ l _ hm
    rcases fastBasisOf_zeros sqrt M L pn pr pj pc xs fz w hfz i l hm with h | h
    · exact Or.inl fun j _ => h j
    · exact Or.inr fun k _ => h k

/-- `SH.buildFast` (the driver's `FastSphericalHarmonics.basis`, built from the nodes alone) is a `fastBasisOf` -/
theorem buildFast_eq (cos sin sqrt : K → K) (pi : K) (M L N pn pr pj pc : ℕ) (xs wlat : List K) (b : Basis K)
    (hb : SH.buildFast cos sin sqrt pi M L N xs wlat pn pr pj pc = some b) :
    M ≤ N ∧ M ≤ L ∧ b = fastBasisOf
      (Fourier.realBasisZeroImag (fun k => cos ((1 + 1) * pi * (k : K) / (N : K)))
        (fun k => sin ((1 + 1) * pi * (k : K) / (N : K))) (sqrt ((1 + 1) * pi)) (sqrt pi) M N)
      (Legendre.evaluate sqrt M L xs) (wlat.map ((1 + 1) * pi / (N : K) * ·)) pn pr pj pc (2 * M) xs.length L := by
  unfold SH.buildFast SH.evaluate? SH.realBasisZeroImag? at hb
  by_cases h1 : N < M
  · rw [if_pos h1] at hb; simp at hb
  · by_cases h2 : L < M
    · rw [if_neg h1, if_pos h2] at hb; simp at hb
    · rw [if_neg h1, if_neg h2] at hb
      exact ⟨by omega, by omega, (Option.some.inj hb).symm⟩

/-- **fast layout, the model's own basis**: `WF ∧ MaskOk` of `ofGrid (buildFast …)` for every size, every
 padding (even row padding, as `FastSphericalHarmonics` always has), every `cos`, `sin`, `π` and every `sqrt` with
 `sqrt 0 = 0` -/
theorem wf_ofGrid_buildFast (cos sin sqrt : K → K) (pi : K) (M L N pn pr pj pc : ℕ) (xs wlat : List K) (b : Basis K)
    (hb : SH.buildFast cos sin sqrt pi M L N xs wlat pn pr pj pc = some b) (hw : wlat.length = xs.length)
    (hpr : pr % 2 = 0) (sinLat : List K) (r c00 : K) :
    (GridData.ofGrid sqrt (fastLy M L pr pc) b (N + pn) sinLat r c00).WF := by
  obtain ⟨_, _, rfl⟩ := buildFast_eq cos sin sqrt pi M L N pn pr pj pc xs wlat b hb
  exact wf_ofGrid_fastBasisOf sqrt M L N pn pr pj pc xs _ _ (realBasisZeroImag_length _ _ _ _ M N)
    (by simp [hw]) hpr sinLat r c00

theorem maskOk_ofGrid_buildFast (cos sin sqrt : K → K) (hs : sqrt 0 = 0) (pi : K) (M L N pn pr pj pc : ℕ)
    (hM : 0 < M) (hL : 0 < L) (xs wlat : List K) (b : Basis K)
    (hb : SH.buildFast cos sin sqrt pi M L N xs wlat pn pr pj pc = some b) (hw : wlat.length = xs.length)
    (hpr : pr % 2 = 0) (sinLat : List K) (r c00 : K) :
    (GridData.ofGrid sqrt (fastLy M L pr pc) b (N + pn) sinLat r c00).MaskOk := by
  obtain ⟨_, _, rfl⟩ := buildFast_eq cos sin sqrt pi M L N pn pr pj pc xs wlat b hb
  exact maskOk_ofGrid_fastBasisOf sqrt hs M L N pn pr pj pc hM hL xs _ _
    (realBasisZeroImag_col1 _ _ _ _ M N) (realBasisZeroImag_length _ _ _ _ M N) (by simp [hw]) hpr sinLat r c00

/-! ### real layout -/

/-- `SH.buildReal` unfolded -/
theorem buildReal_eq (cos sin sqrt : K → K) (pi : K) (M L N : ℕ) (xs wlat : List K) (b : Basis K)
    (hb : SH.buildReal cos sin sqrt pi M L N xs wlat = some b) :
    M ≤ N ∧ M ≤ L ∧ b = ⟨Fourier.realBasis (fun k => cos ((1 + 1) * pi * (k : K) / (N : K)))
        (fun k => sin ((1 + 1) * pi * (k : K) / (N : K))) (sqrt ((1 + 1) * pi)) (sqrt pi) M N,
      realTables (Legendre.evaluate sqrt M L xs), wlat.map ((1 + 1) * pi / (N : K) * ·)⟩ := by
  unfold SH.buildReal SH.evaluate? SH.realBasis? at hb
  by_cases h1 : N < M
  · rw [if_pos h1] at hb; simp at hb
  · by_cases h2 : L < M
    · rw [if_neg h1, if_pos h2] at hb; simp at hb
    · rw [if_neg h1, if_neg h2] at hb
      exact ⟨by omega, by omega, (Option.some.inj hb).symm⟩

/-- shape of `RealSphericalHarmonics.basis` with the tables of `evaluate` -/
theorem shaped_realTables (sqrt : K → K) (M L N : ℕ) (xs : List K) (f : List (List K)) (w : List K)
    (hf : f.length = N) (hw : w.length = xs.length) :
    Shaped ⟨f, realTables (Legendre.evaluate sqrt M L xs), w⟩ N (2 * M - 1) xs.length L := by
  obtain ⟨hP, hPj, hPl⟩ := evaluate_shape' sqrt M L xs
  have h := realBasisOf_shaped f (Legendre.evaluate sqrt M L xs) w M N xs.length L hf hP hPj hPl hw
  have e : (realBasisOf f (Legendre.evaluate sqrt M L xs) w : Basis K)
      = ⟨f, realTables (Legendre.evaluate sqrt M L xs), w⟩ := by
    simp [realBasisOf, realTables]
  rwa [e] at h

/-- **real layout, the model's own basis, every size**: `WF` of `ofGrid (buildReal …)` (user of `wf_ofGrid`) -/
theorem wf_ofGrid_buildReal (cos sin sqrt : K → K) (pi : K) (M L N : ℕ) (xs wlat : List K) (b : Basis K)
    (hb : SH.buildReal cos sin sqrt pi M L N xs wlat = some b) (hw : wlat.length = xs.length)
    (sinLat : List K) (r c00 : K) :
    (GridData.ofGrid sqrt (realLy M L) b N sinLat r c00).WF := by
  obtain ⟨_, _, rfl⟩ := buildReal_eq cos sin sqrt pi M L N xs wlat b hb
  apply wf_ofGrid
  unfold BasisFor
  have hr : (realLy M L).rows = 2 * M - 1 := by simp [Layout.rows]
  have hc : (realLy M L).cols = L := by simp [Layout.cols]
  simp only [Bool.false_eq_true, if_false, hr, hc, List.length_map, hw]
  exact shaped_realTables sqrt M L N xs _ _ (realBasis_length' _ _ _ _ M N) (by simp [hw])

/-- **real layout, the model's own basis, every size**: `MaskOk` of `ofGrid (buildReal …)` (user of
 `maskOk_ofGrid_real` and `evaluate_tables_masked`) -/
theorem maskOk_ofGrid_buildReal (cos sin sqrt : K → K) (hs : sqrt 0 = 0) (pi : K) (M L N : ℕ) (hM : 0 < M) (hL : 0 < L)
    (xs wlat : List K) (b : Basis K)
    (hb : SH.buildReal cos sin sqrt pi M L N xs wlat = some b) (hw : wlat.length = xs.length)
    (sinLat : List K) (r c00 : K) :
    (GridData.ofGrid sqrt (realLy M L) b N sinLat r c00).MaskOk := by
  obtain ⟨_, _, rfl⟩ := buildReal_eq cos sin sqrt pi M L N xs wlat b hb
  have hr : (realLy M L).rows = 2 * M - 1 := by simp [Layout.rows]
  have hc : (realLy M L).cols = L := by simp [Layout.cols]
  apply maskOk_ofGrid_real sqrt hs (realLy M L) rfl _ N sinLat r c00 hL hM
  · simp only [hr, hc, List.length_map, hw]
    exact shaped_realTables sqrt M L N xs _ _ (realBasis_length' _ _ _ _ M N) (by simp [hw])
  · intro i _ l hl hm
    exact Or.inl fun j _ => evaluate_tables_masked sqrt M L xs (realLy M L) rfl rfl i l hl hm j

end general

/-! ## concrete rational witnesses: `ofGrid` of what `buildReal` / `buildFast` return -/
section witness

/-- `cos` at the multiples of `2π/4`, with `π` represented by `2` (the argument `2π·k/N` of the model is then `k`) -/
def cosQ (t : ℚ) : ℚ := if t = 0 then 1 else if t = 2 then -1 else 0
/-- `sin` at the multiples of `2π/4` -/
def sinQ (t : ℚ) : ℚ := if t = 1 then 1 else if t = 3 then -1 else 0
/-- latitude nodes `sin(lat)` and the weights of the symmetric 3-point rule of degree 3 on them -/
def xsQ : List ℚ := [-3 / 5, 0, 3 / 5]
def wlatQ : List ℚ := [25 / 27, 4 / 27, 25 / 27]

/-- `RealSphericalHarmonics(M = 2, L = 3, 4 longitudes, 3 latitudes).basis` as the model builds it over `ℚ` -/
def bsReal : Basis ℚ := (SH.buildReal cosQ sinQ id 2 2 3 4 xsQ wlatQ).getD ⟨[], [], []⟩
/-- `FastSphericalHarmonics(M = 2, L = 3, 4 longitudes, 3 latitudes).basis`, paddings `(1, 2, 1, 1)` -/
def bsFast : Basis ℚ := (SH.buildFast cosQ sinQ id 2 2 3 4 xsQ wlatQ 1 2 1 1).getD ⟨[], [], []⟩

theorem buildReal_bsReal : SH.buildReal cosQ sinQ id 2 2 3 4 xsQ wlatQ = some bsReal := by
  have h : (SH.buildReal cosQ sinQ id 2 2 3 4 xsQ wlatQ).isSome = true := by decide +kernel
  obtain ⟨b, hb⟩ := Option.isSome_iff_exists.1 h
  simp [bsReal, hb]

theorem buildFast_bsFast : SH.buildFast cosQ sinQ id 2 2 3 4 xsQ wlatQ 1 2 1 1 = some bsFast := by
  have h : (SH.buildFast cosQ sinQ id 2 2 3 4 xsQ wlatQ 1 2 1 1).isSome = true := by decide +kernel
  obtain ⟨b, hb⟩ := Option.isSome_iff_exists.1 h
  simp [bsFast, hb]

/-- the tables are the real ones: the Fourier table holds the exact `cos`, `sin` values on 4 nodes (normalised by
 `sqrt := id`, i.e. `1/4` and `1/2`), the Legendre tables are non-zero on and above the diagonal -/
theorem bsReal_f : bsReal.f = [[1/4, 1/2, 0], [1/4, 0, 1/2], [1/4, -1/2, 0], [1/4, 0, -1/2]] := by decide +kernel
theorem bsFast_f : bsFast.f = [[1/4, 0, 1/2, 0, 0, 0], [1/4, 0, 0, 1/2, 0, 0], [1/4, 0, -1/2, 0, 0, 0],
    [1/4, 0, 0, -1/2, 0, 0], [0, 0, 0, 0, 0, 0]] := by decide +kernel
/-- the padded fast Legendre tables, explicitly: the padding latitude, the padding column and the padding table
 (for the two padding rows) are zero, the table of order 1 vanishes at `l = 0` -/
theorem bsFast_p : bsFast.p =
    [[[1 / 2, -9 / 10, 7 / 5, 0], [1 / 2, 0, -5 / 8, 0], [1 / 2, 9 / 10, 7 / 5, 0], [0, 0, 0, 0]],
     [[0, -12 / 25, 36 / 25, 0], [0, -3 / 4, 0, 0], [0, -12 / 25, -36 / 25, 0], [0, 0, 0, 0]],
     [[0, 0, 0, 0], [0, 0, 0, 0], [0, 0, 0, 0], [0, 0, 0, 0]]] := by decide +kernel
theorem bsReal_p_ne : ∀ r < 3, ∀ j < 3, ent3 bsReal.p r j ((r + 1) / 2) ≠ 0 := by decide +kernel
theorem bsFast_p_ne : ∀ m < 2, ∀ j < 3, ent3 bsFast.p m j m ≠ 0 := by decide +kernel

/-- **the real-layout witness (item 1.1)**: `Grid` data built by `ofGrid` from the basis of `buildReal`, radius 2 -/
def gReal : GridData ℚ := GridData.ofGrid id (realLy 2 3) bsReal 4 xsQ 2 1
/-- **the fast-layout witness (item 1.2)**: 6 × 4 modal shape (2 padding rows, 1 padding column), 5 × 4 nodal
 shape (1 padding longitude, 1 padding latitude) -/
def gFast : GridData ℚ := GridData.ofGrid id (fastLy 2 3 2 1) bsFast (4 + 1) (xsQ ++ [0]) 2 1

/-- **item 1.1**: `WF` of an `ofGrid`-built record (real layout) -/
theorem ofGrid_real_wf : (GridData.ofGrid id (realLy 2 3) bsReal 4 xsQ 2 1).WF :=
  wf_ofGrid_buildReal cosQ sinQ id 2 2 3 4 xsQ wlatQ bsReal buildReal_bsReal rfl xsQ 2 1

/-- **item 1.1**: `MaskOk` of an `ofGrid`-built record (real layout) -/
theorem ofGrid_real_maskOk : (GridData.ofGrid id (realLy 2 3) bsReal 4 xsQ 2 1).MaskOk :=
  maskOk_ofGrid_buildReal cosQ sinQ id rfl 2 2 3 4 (by decide) (by decide) xsQ wlatQ bsReal buildReal_bsReal rfl xsQ 2 1

/-- **item 1.2**: `WF` of an `ofGrid`-built record (fast layout with all four paddings) -/
theorem ofGrid_fast_wf : (GridData.ofGrid id (fastLy 2 3 2 1) bsFast (4 + 1) (xsQ ++ [0]) 2 1).WF :=
  wf_ofGrid_buildFast cosQ sinQ id 2 2 3 4 1 2 1 1 xsQ wlatQ bsFast buildFast_bsFast rfl rfl (xsQ ++ [0]) 2 1

/-- **item 1.2**: `MaskOk` of an `ofGrid`-built record (fast layout with all four paddings) — the structural
 zeros are those of the model's own padded tables (`fastBasisOf_zeros`), no hypothesis left -/
theorem ofGrid_fast_maskOk : (GridData.ofGrid id (fastLy 2 3 2 1) bsFast (4 + 1) (xsQ ++ [0]) 2 1).MaskOk :=
  maskOk_ofGrid_buildFast cosQ sinQ id rfl 2 2 3 4 1 2 1 1 (by decide) (by decide) xsQ wlatQ bsFast buildFast_bsFast
    rfl rfl (xsQ ++ [0]) 2 1

theorem wf_gReal : gReal.WF := ofGrid_real_wf
theorem maskOk_gReal : gReal.MaskOk := ofGrid_real_maskOk
theorem wf_gFast : gFast.WF := ofGrid_fast_wf
theorem maskOk_gFast : gFast.MaskOk := ofGrid_fast_maskOk

/-! ### the chain `ofGrid → WF / MaskOk → corollary` -/

/-- an orography of the domain `Dom · 1` (total wavenumber 1, orders `0, ±1`), real layout -/
def oroRl : List (List ℚ) := [[0, 2, 0], [0, 1, 0], [0, -1, 0]]
/-- the same field in the fast layout (rows `+0, −0, +1, −1`, two padding rows, one padding column) -/
def oroFl : List (List ℚ) := [[0, 2, 0, 0], [0, 0, 0, 0], [0, 1, 0, 0], [0, -1, 0, 0], [0, 0, 0, 0], [0, 0, 0, 0]]

theorem dom_oroRl : C02.Dom (realLy 2 3) 1 oroRl := (C02.domB_iff (realLy 2 3) 1 oroRl).1 (by decide +kernel)
theorem dom_oroFl : C02.Dom (fastLy 2 3 2 1) 1 oroFl := (C02.domB_iff (fastLy 2 3 2 1) 1 oroFl).1 (by decide +kernel)

def oroReal : gReal.Modal := (ofDom gReal oroRl dom_oroRl).1
def oroFast : gFast.Modal := (ofDom gFast oroFl dom_oroFl).1

/-- the orographies are not zero -/
theorem oroReal_ne : oroReal ⟨0, by decide⟩ ⟨1, by decide⟩ = 2 := by decide +kernel
theorem oroFast_ne : oroFast ⟨2, by decide⟩ ⟨1, by decide⟩ = 1 := by decide +kernel

/-- C05 T5.1 on the `ofGrid` record `gReal`: the resting atmosphere over `oroReal` is steady -/
theorem rest_gReal (T0 c : ℚ) (hT0 : T0 ≠ 0) :
    State.add
      ((gridEq gReal vertT physT (List.replicate 2 T0) oroReal).explicitTerms
        (restState 2 (C05.restLnp (gridEq gReal vertT physT (List.replicate 2 T0) oroReal) physT.R T0 c) []))
      ((gridEq gReal vertT physT (List.replicate 2 T0) oroReal).implicitTerms
        (restState 2 (C05.restLnp (gridEq gReal vertT physT (List.replicate 2 T0) oroReal) physT.R T0 c) []))
      = zeroTendency 2 [] :=
  rest_steady_dry_grid gReal wf_gReal vertT physT oroReal (clip_ofDom oroRl dom_oroRl) 2 (by norm_num) rfl rfl T0 c
    (mul_ne_zero (by show (2 : ℚ) ≠ 0; norm_num) hT0) [] (by simp)

/-- C05 T5.1 on the padded fast `ofGrid` record `gFast` -/
theorem rest_gFast (T0 c : ℚ) (hT0 : T0 ≠ 0) :
    State.add
      ((gridEq gFast vertT physT (List.replicate 2 T0) oroFast).explicitTerms
        (restState 2 (C05.restLnp (gridEq gFast vertT physT (List.replicate 2 T0) oroFast) physT.R T0 c) []))
      ((gridEq gFast vertT physT (List.replicate 2 T0) oroFast).implicitTerms
        (restState 2 (C05.restLnp (gridEq gFast vertT physT (List.replicate 2 T0) oroFast) physT.R T0 c) []))
      = zeroTendency 2 [] :=
  rest_steady_dry_grid gFast wf_gFast vertT physT oroFast (clip_ofDom oroFl dom_oroFl) 2 (by norm_num) rfl rfl T0 c
    (mul_ne_zero (by show (2 : ℚ) ≠ 0; norm_num) hT0) [] (by simp)

/-- C11 T11.1 on `gReal` (uses `WF` and `MaskOk`): zero `(0,0)` coefficient of the `(ζ, δ)` tendencies of any state -/
theorem mean0_gReal (s : State gReal.Modal) :
    AllP (· ∈ kerOf (ev00 gReal)) ((gridEq gReal vertT physT [2, 3] oroReal).explicitTerms s).vorticity ∧
      AllP (· ∈ kerOf (ev00 gReal)) ((gridEq gReal vertT physT [2, 3] oroReal).explicitTerms s).divergence :=
  explicitTerms_mean0_grid gReal wf_gReal maskOk_gReal vertT physT [2, 3] oroReal s

/-- C11 T11.1 on the padded fast grid `gFast` -/
theorem mean0_gFast (s : State gFast.Modal) :
    AllP (· ∈ kerOf (ev00 gFast)) ((gridEq gFast vertT physT [2, 3] oroFast).explicitTerms s).vorticity ∧
      AllP (· ∈ kerOf (ev00 gFast)) ((gridEq gFast vertT physT [2, 3] oroFast).explicitTerms s).divergence :=
  explicitTerms_mean0_grid gFast wf_gFast maskOk_gFast vertT physT [2, 3] oroFast s

/-- C11 T11.1 on `gFast`: the explicit tendencies of EVERY state are masked (outside the padding columns) and
 have the top wavenumber clipped -/
theorem mem_gFast (s : State gFast.Modal) :
    StateAll (· ∈ Clipped gFast) ((gridEq gFast vertT physT [2, 3] oroFast).explicitTerms s) :=
  explicitTerms_mem_grid gFast wf_gFast maskOk_gFast vertT physT [2, 3] oroFast
    (masked_le_loose (ofDom gFast oroFl dom_oroFl).2) s

/-- the operation closure and the law packages on the two `ofGrid` records -/
theorem opsClosed_gReal : OpsClosed (gridOps gReal) (Masked gReal) (Clipped gReal) :=
  opsClosed_masked wf_gReal maskOk_gReal rfl
theorem maskClosed_gReal : MaskClosed (gridOps gReal) (Masked gReal) := maskClosed wf_gReal maskOk_gReal rfl
theorem opsClosed_gFast : OpsClosed (gridOps gFast) (Loose gFast) (Clipped gFast) :=
  opsClosed_loose wf_gFast maskOk_gFast
theorem mode0_gFast : Mode0 (gridOps gFast) (ev00 gFast) := mode0 wf_gFast maskOk_gFast

/-- the transforms of the witnesses are not trivial: `to_modal` of a generic nodal field on `gReal` … -/
theorem toModal_gReal : gReal.T.toModal [[1, 2, 3], [0, 1, 5], [2, 2, 1], [1, 0, 4]]
    = [[445 / 216, 15 / 8, 1165 / 216], [0, -2 / 9, -2], [0, -1 / 18, -4 / 3]] := by decide +kernel

/-- … and on `gFast`, with junk `7` on the padding longitude and the padding latitude: the same coefficients in the
 rows `+0, +1, −1`, exact zeros in the `−0` row, the two padding rows, the padding column and at `(±1, l = 0)`
 (what `MaskOk.toModal_masked` states) -/
theorem toModal_gFast : gFast.T.toModal [[1, 2, 3, 7], [0, 1, 5, 7], [2, 2, 1, 7], [1, 0, 4, 7], [7, 7, 7, 7]]
    = [[445 / 216, 15 / 8, 1165 / 216, 0], [0, 0, 0, 0], [0, -2 / 9, -2, 0], [0, -1 / 18, -4 / 3, 0], [0, 0, 0, 0],
       [0, 0, 0, 0]] := by decide +kernel

end witness

end Dino.DYN
