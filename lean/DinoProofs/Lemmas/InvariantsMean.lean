import DinoProofs.Lemmas.InvariantsShape
import DinoProofs.Properties.C03
import Mathlib.Algebra.Module.LinearMap.Defs

/-!
# The `(0,0)` coefficient through the implicit inverse — lemma layer of C11 (finding 4)

`ℓ : M →ₗ[K] K` reads the `(0,0)` coefficient of one level.  `Mode0 h ℓ` collects what is needed of
the horizontal record: `ℓ` sees only total wavenumber `0` (`ℓ ∘ lproj 0 = ℓ`, `ℓ ∘ lproj l = 0` for
`0 < l < nL`), the Laplacian eigenvalue of `l = 0` is zero, the derivatives annihilate `ℓ` and
clipping keeps `ker ℓ`.

Then `ℓ`, applied level by level, maps `PrimitiveEquations.implicitInverse inv` to the column
solve `Implicit.inverseSplit (inv 0)` of C03 at `λ = 0` (`colImage_implicitInverse`), and the C03
right-inverse theorem (`Dino.C03.primitive_rightInverse`: if `inv 0` is a right inverse of
`_get_implicit_term_matrix(η)[0]` then `(1 − ηL)(solve y) = y`) shows that the divergence rows pass
through: at `λ = 0` the divergence component of `L` vanishes.
-/
set_option linter.unusedSectionVars false

namespace Dino.Invariants
open Dino Dino.Dynamics

section
variable {K M N : Type} [Field K] [AddCommGroup M] [Module K M]
  [Add N] [Sub N] [Neg N] [Zero N] [Mul N] [One N] [SMul K N]

/-- what C11 needs of the horizontal record about the `(0,0)` coefficient `ℓ` -/
structure Mode0 (h : HOps K M N) (ℓ : M →ₗ[K] K) : Prop where
  nL_pos : 0 < h.nL
  lproj_zero : ∀ x, ℓ (h.lproj 0 x) = ℓ x
  lproj_pos : ∀ l, 0 < l → l < h.nL → ∀ x, ℓ (h.lproj l x) = 0
  lapEig_zero : h.lapEig 0 = 0
  dDlon : ∀ x, ℓ (h.dDlon x) = 0
  secLat : ∀ x, ℓ (h.secLatDDlatCos2 x) = 0
  laplacian : ∀ x, ℓ (h.laplacian x) = 0
  clip : ∀ x, ℓ x = 0 → ℓ (h.clip x) = 0

/-- the kernel of `ℓ` as the submodule `Z` of `Mean0` -/
def kerOf (ℓ : M →ₗ[K] K) : Submodule K M where
  carrier := {x | ℓ x = 0}
  add_mem' := by
    intro a b (ha : ℓ a = 0) (hb : ℓ b = 0)
    show ℓ (a + b) = 0
    rw [map_add, ha, hb, add_zero]
  zero_mem' := map_zero ℓ
  smul_mem' := by
    intro c x (hx : ℓ x = 0)
    show ℓ (c • x) = 0
    rw [map_smul, hx, smul_zero]

@[simp] theorem mem_kerOf (ℓ : M →ₗ[K] K) (x : M) : x ∈ kerOf ℓ ↔ ℓ x = 0 := Iff.rfl

theorem Mode0.mean0 {h : HOps K M N} {ℓ : M →ₗ[K] K} (H : Mode0 h ℓ) : Mean0 h (kerOf ℓ) where
  dDlon_mem := H.dDlon
  secLat_mem := H.secLat
  laplacian_mem := H.laplacian
  clip_mem := H.clip

/-! ### `ℓ` level by level through the vertical products -/

theorem colMatvec_eq_sigma (A : List (List K)) (x : List K) : Col.matvec A x = Sigma.matvec A x := rfl

theorem map_col_add (f : M →ₗ[K] K) (a b : List M) :
    (Col.add a b).map f = Sigma.addv (a.map f) (b.map f) := by
  unfold Col.add Sigma.addv
  induction a generalizing b with
  | nil => simp
  | cons x a ih =>
    cases b with
    | nil => simp
    | cons y b => simp [ih]

theorem map_foldl_col_add (f : M →ₗ[K] K) (ls : List (List M)) (acc : List M) :
    (ls.foldl Col.add acc).map f = (ls.map (List.map f)).foldl Sigma.addv (acc.map f) := by
  induction ls generalizing acc with
  | nil => rfl
  | cons l ls ih => simp only [List.foldl_cons, List.map_cons, ih, map_col_add]

theorem addv_zero_right (a : List K) (r : ℕ) (h : a.length = r) :
    Sigma.addv a (List.replicate r 0) = a := by
  subst h
  unfold Sigma.addv
  induction a with
  | nil => rfl
  | cons x a ih => simp [List.replicate_succ, ih]

theorem addv_zero_left (a : List K) (r : ℕ) (h : a.length = r) :
    Sigma.addv (List.replicate r 0) a = a := by
  subst h
  unfold Sigma.addv
  induction a with
  | nil => rfl
  | cons x a ih => simp [List.replicate_succ, ih]

theorem foldl_addv_zeros (r : ℕ) (ls : List (List K)) (h : ∀ l ∈ ls, l = List.replicate r 0)
    (acc : List K) (hacc : acc.length = r) : ls.foldl Sigma.addv acc = acc := by
  induction ls generalizing acc with
  | nil => rfl
  | cons l ls ih =>
    simp only [List.foldl_cons]
    rw [h l List.mem_cons_self, addv_zero_right acc r hacc]
    exact ih (fun l' hl' => h l' (List.mem_cons_of_mem _ hl')) acc hacc

theorem sigma_matvec_zeros (A : List (List K)) (m : ℕ) :
    Sigma.matvec A (List.replicate m 0) = List.replicate A.length 0 := by
  unfold Sigma.matvec
  rw [List.eq_replicate_iff]
  refine ⟨by simp, ?_⟩
  intro b hb
  obtain ⟨row, _, rfl⟩ := List.mem_map.1 hb
  unfold Sigma.mulv
  have : ∀ (row : List K) (m : ℕ), (List.zipWith (· * ·) row (List.replicate m (0 : K))).sum = 0 := by
    intro row
    induction row with
    | nil => intro m; simp
    | cons a row ih =>
      intro m
      cases m with
      | zero => simp
      | succ m => simp [List.replicate_succ, ih]
  exact this row m

theorem subv_smul_zeros (eta : K) (a : List K) :
    Sigma.subv a (Sigma.smul eta (List.replicate a.length 0)) = a := by
  have h1 : Sigma.smul eta (List.replicate a.length (0 : K)) = List.replicate a.length 0 := by
    simp [Sigma.smul]
  rw [h1]
  clear h1
  unfold Sigma.subv
  induction a with
  | nil => rfl
  | cons x a ih => simp [List.replicate_succ, ih]

variable (eq : PrimitiveEquations K M N)

/-- `ℓ` of `_vertical_matvec_per_wavenumber(a, x)` is the product of the `l = 0` matrix with the
 `ℓ`-image of `x` -/
theorem map_matvecPerWavenumber {ℓ : M →ₗ[K] K} (H : Mode0 eq.ops ℓ) (a : ℕ → List (List K))
    (rows : ℕ) (ha : ∀ l < eq.ops.nL, (a l).length = rows) (x : List M) :
    (eq.matvecPerWavenumber a rows x).map ℓ = Sigma.matvec (a 0) (x.map ℓ) := by
  have hlin : IsLinearMap K (ℓ : M → K) := ⟨map_add ℓ, map_smul ℓ⟩
  unfold PrimitiveEquations.matvecPerWavenumber
  rw [map_foldl_col_add, List.map_map]
  obtain ⟨m, hm⟩ : ∃ m, eq.ops.nL = m + 1 := ⟨eq.ops.nL - 1, by have := H.nL_pos; omega⟩
  rw [hm, List.range_succ_eq_map, List.map_cons, List.foldl_cons]
  have h0 : (List.map ℓ ∘ fun l => Col.matvec (a l) (x.map (eq.ops.lproj l))) 0
      = Sigma.matvec (a 0) (x.map ℓ) := by
    simp only [Function.comp_apply]
    rw [map_matvec (ℓ : M → K) hlin, List.map_map, colMatvec_eq_sigma]
    congr 1
    apply List.map_congr_left
    intro y _
    exact H.lproj_zero y
  have hz : (Col.zeros rows : List M).map ℓ = List.replicate rows 0 := by
    simp [Col.zeros]
  have hlen : (Sigma.matvec (a 0) (x.map ℓ)).length = rows := by
    simp [Sigma.matvec, ha 0 H.nL_pos]
  rw [h0, hz, addv_zero_left _ rows hlen]
  apply foldl_addv_zeros rows _ _ _ hlen
  intro l hl
  simp only [List.map_map, List.mem_map, List.mem_range, Function.comp_apply] at hl
  obtain ⟨i, hi, rfl⟩ := hl
  rw [map_matvec (ℓ : M → K) hlin, List.map_map, colMatvec_eq_sigma]
  have : x.map ((ℓ : M → K) ∘ eq.ops.lproj (i + 1)) = List.replicate x.length 0 := by
    rw [List.eq_replicate_iff]
    refine ⟨by simp, ?_⟩
    intro b hb
    obtain ⟨y, _, rfl⟩ := List.mem_map.1 hb
    exact H.lproj_pos (i + 1) (by omega) (by omega) y
  rw [this, sigma_matvec_zeros, ha (i + 1) (by omega)]

/-- the `ℓ`-image of a state: one column problem of C03 -/
def colImage (ℓ : M →ₗ[K] K) (s : State M) : Implicit.Col K :=
  { d := s.divergence.map ℓ, t := s.temperatureVariation.map ℓ, p := ℓ s.logSurfacePressure }

/-- **`ℓ` maps the implicit inverse of the primitive equations to the `split` column solve of C03
 with the `l = 0` matrix** -/
theorem colImage_implicitInverse {ℓ : M →ₗ[K] K} (H : Mode0 eq.ops ℓ) {n : ℕ}
    (V : VertShaped eq n) (inv : ℕ → List (List K))
    (hinv : ∀ l < eq.ops.nL, 2 * n + 1 ≤ (inv l).length) {ks : List String} {s : State M}
    (hs : Shaped n ks s) :
    colImage ℓ (eq.implicitInverse inv s) = Implicit.inverseSplit (inv 0) (colImage ℓ s) := by
  have hl : eq.vert.layers = n := vert_ds_length eq.vert n V.b
  have mv : ∀ (r0 nr c0 nc : ℕ) (x : List M), r0 + nr ≤ 2 * n + 1 →
      (eq.matvecPerWavenumber (fun l => Implicit.block (inv l) r0 nr c0 nc) nr x).map ℓ
        = Sigma.matvec (Implicit.block (inv 0) r0 nr c0 nc) (x.map ℓ) := by
    intro r0 nr c0 nc x hr
    apply map_matvecPerWavenumber eq H
    intro l hl'
    exact block_length _ _ _ _ _ (by have := hinv l hl'; omega)
  unfold PrimitiveEquations.implicitInverse colImage Implicit.inverseSplit
  simp only [hl, List.length_map, hs.d]
  congr 1
  · rw [map_col_add, map_col_add, mv _ _ _ _ _ (by omega), mv _ _ _ _ _ (by omega),
      mv _ _ _ _ _ (by omega)]
    rfl
  · rw [map_col_add, map_col_add, mv _ _ _ _ _ (by omega), mv _ _ _ _ _ (by omega),
      mv _ _ _ _ _ (by omega)]
    rfl
  · have : ∀ l : List M, ℓ (l.headD 0) = (l.map ℓ).headD 0 := by
      intro l; cases l <;> simp
    rw [this, map_col_add, map_col_add, mv _ _ _ _ _ (by omega), mv _ _ _ _ _ (by omega),
      mv _ _ _ _ _ (by omega)]
    rfl

/-- the contract on the externally inverted matrix of total wavenumber `0` (`numpy.linalg.inv`):
 it has the right size and is a right inverse of `_get_implicit_term_matrix(η)[0]` -/
structure Inv0Ok (n : ℕ) (eta : K) (minv : List (List K)) : Prop where
  rows : minv.length = 2 * n + 1
  cols : ∀ r ∈ minv, r.length = 2 * n + 1
  right : ∀ v : List K, v.length = 2 * n + 1 →
    Sigma.matvec (eq.implicitTermMatrix eta 0) (Sigma.matvec minv v) = v

/-- **the implicit inverse passes `δ₀₀` of every level through** (finding 4): the divergence rows
 of `1 − ηL` at `l = 0` are identity rows because the eigenvalue is zero; C03 -/
theorem implicitInverse_passes_div00 {ℓ : M →ₗ[K] K} (H : Mode0 eq.ops ℓ) {n : ℕ}
    (V : VertShaped eq n) (eta : K) (inv : ℕ → List (List K))
    (hinv : ∀ l < eq.ops.nL, 2 * n + 1 ≤ (inv l).length) (h0 : Inv0Ok eq n eta (inv 0))
    {ks : List String} {s : State M} (hs : Shaped n ks s) :
    (eq.implicitInverse inv s).divergence.map ℓ = s.divergence.map ℓ := by
  have hds := vert_ds_length eq.vert n V.b
  have hal := vert_alpha_length eq.vert n V.lc
  have hsh : C03.Shaped n eq.vert.ds eq.referenceTemperature
      (Sigma.geopotentialWeights eq.phys.R eq.vert.alpha) eq.temperatureImplicitWeights
      (colImage ℓ s) :=
    ⟨hds, V.tref, by simp [hal], by simp [PrimitiveEquations.temperatureImplicitWeights, hds],
      fun r hr => by rw [Implicit.geopotentialWeights_row_length _ _ r hr, hal],
      fun r hr => by
        rw [Implicit.hMatrix_row_length _ _ _ _ r hr, hds],
      by simp [colImage, hs.d], by simp [colImage, hs.t]⟩
  have hr := C03.primitive_rightInverse n eta (eq.ops.lapEig 0) eq.phys.R eq.vert.ds
    eq.referenceTemperature _ _ (colImage ℓ s) hsh (inv 0) h0.rows
    (by
      intro v hv
      have := h0.right v hv
      simpa [PrimitiveEquations.implicitTermMatrix] using this)
  rw [← C03.inverseSplit_eq_inverseStacked n _ (inv 0)
    (by simp [colImage, hs.d, hs.t]) (by simp [colImage, hs.d]) h0.rows h0.cols,
    ← colImage_implicitInverse eq H V inv hinv hs] at hr
  -- the divergence component of `oneMinus` at eigenvalue zero
  have hd := congrArg Implicit.Col.d hr
  simp only [Implicit.oneMinus, Implicit.implicitTerms, H.lapEig_zero, mul_zero, neg_zero] at hd
  have hlen : ((colImage ℓ (eq.implicitInverse inv s)).d).length = n := by
    simp [colImage, (implicitInverse_shaped eq V inv hinv hs).d]
  have hz : ∀ (a : List K) (m : ℕ) (b : List K), a.length = m → b.length = m →
      Sigma.subv a (Sigma.smul eta (b.map fun _ => (0 : K))) = a := by
    intro a m b ha hb
    have e : (b.map fun _ => (0 : K)) = List.replicate m 0 := by
      rw [List.eq_replicate_iff]
      exact ⟨by simp [hb], fun x hx => by obtain ⟨_, _, rfl⟩ := List.mem_map.1 hx; rfl⟩
    rw [e]
    subst ha
    exact subv_smul_zeros eta a
  rw [hz _ n _ hlen (by
    simp [Sigma.addv, Sigma.matvec, hal, V.tref])] at hd
  exact hd

end
/-! ### multiplication by a function of the total wavenumber (`lmul`, the state filters) -/
section lmul
variable {K M N : Type} [Field K] [AddCommGroup M] [Module K M]

theorem foldl_add_mem (T : Submodule K M) (ls : List M) (h : ∀ x ∈ ls, x ∈ T) :
    ∀ {acc : M}, acc ∈ T → ls.foldl (· + ·) acc ∈ T := by
  induction ls with
  | nil => intro acc hacc; simpa using hacc
  | cons l ls ih =>
    intro acc hacc
    simp only [List.foldl_cons]
    exact ih (fun x hx => h x (List.mem_cons_of_mem _ hx)) (T.add_mem hacc (h l List.mem_cons_self))

/-- `lmul` maps `S → S` (it acts per total wavenumber) -/
theorem lmul_mem {h : HOps K M N} {Mk S : Submodule K M} (H : OpsClosed h Mk S) (c : ℕ → K)
    {x : M} (hx : x ∈ S) : DynamicsSW.lmul h c x ∈ S := by
  unfold DynamicsSW.lmul
  apply foldl_add_mem S _ _ S.zero_mem
  intro y hy
  obtain ⟨l, _, rfl⟩ := List.mem_map.1 hy
  exact S.smul_mem _ (H.lproj_S l x hx)

theorem map_foldl_add (f : M →ₗ[K] K) (ls : List M) (acc : M) :
    f (ls.foldl (· + ·) acc) = f acc + (ls.map f).sum := by
  induction ls generalizing acc with
  | nil => simp
  | cons l ls ih => simp only [List.foldl_cons, ih, map_add, List.map_cons, List.sum_cons, add_assoc]

/-- the `(0,0)` coefficient of `lmul c x` is `c 0` times that of `x` -/
theorem map_lmul {h : HOps K M N} {ℓ : M →ₗ[K] K} (H : Mode0 h ℓ) (c : ℕ → K) (x : M) :
    ℓ (DynamicsSW.lmul h c x) = c 0 * ℓ x := by
  unfold DynamicsSW.lmul
  obtain ⟨m, hm⟩ : ∃ m, h.nL = m + 1 := ⟨h.nL - 1, by have := H.nL_pos; omega⟩
  rw [map_foldl_add, map_zero, zero_add, hm, List.range_succ_eq_map, List.map_cons, List.map_cons,
    List.sum_cons, map_smul, H.lproj_zero, smul_eq_mul]
  have : (List.map (⇑ℓ) (List.map (fun l => c l • h.lproj l x) (List.map Nat.succ (List.range m)))).sum
      = 0 := by
    apply List.sum_eq_zero
    intro y hy
    simp only [List.map_map, List.mem_map, List.mem_range, Function.comp_apply] at hy
    obtain ⟨i, hi, rfl⟩ := hy
    rw [map_smul, H.lproj_pos (i + 1) (by omega) (by omega), smul_zero]
  rw [this, add_zero]

/-- `filterLevel` maps `S → S` -/
theorem filterLevel_mem {h : HOps K M N} {Mk S : Submodule K M} (H : OpsClosed h Mk S)
    (scal : List K) {x : M} (hx : x ∈ S) : filterLevel h scal x ∈ S := by
  unfold filterLevel
  split
  · exact lmul_mem H _ hx
  · exact hx

/-- `filterLevel` fixes the `(0,0)` coefficient when the scaling is one at total wavenumber zero -/
theorem map_filterLevel {h : HOps K M N} {ℓ : M →ₗ[K] K} (H : Mode0 h ℓ) (scal : List K)
    (h1 : scal.getD 0 0 = 1) (x : M) : ℓ (filterLevel h scal x) = ℓ x := by
  unfold filterLevel
  split
  · rw [map_lmul H, h1, one_mul]
  · rfl

end lmul

end Dino.Invariants
