import DinoProofs.Lemmas.TreeRound
import Mathlib.Data.List.Perm.Subperm

/-!
# Lemmas for the tree model, part 5: Python `==` from equality of terminal lookups
-/
set_option linter.unusedSectionVars false

namespace Dino.Tree

section PyEq
variable {α : Type} [DecidableEq α] {β : Type}

mutual
/-- every value ends at least one path -/
theorem Val.exists_term : ∀ v : Val α β, ∃ qs t, lookV v qs = some t
  | .leaf b => ⟨[], some b, rfl⟩
  | .dict d => by
    by_cases hd : d.isNil = true
    · exact ⟨[], none, by simp [lookV, Val.term, hd]⟩
    · obtain ⟨p, t, hp⟩ := Dict.exists_term d (by simpa using hd)
      cases p with
      | nil => simp at hp
      | cons k ks => exact ⟨k :: ks, t, by simpa [lookV] using hp⟩
theorem Dict.exists_term : ∀ d : Dict α β, d.isNil = false → ∃ p t, look d p = some t
  | .nil, h => by simp [Dict.isNil] at h
  | .cons k v r, _ => by
    obtain ⟨qs, t, h⟩ := Val.exists_term v
    exact ⟨k :: qs, t, by rw [look_cons, lookup_cons]; simpa using h⟩
end

theorem keys_subset_of_look (d e : Dict α β) (h : ∀ p t, look d p = some t → look e p = some t) :
    d.keys ⊆ e.keys := by
  intro k hk
  obtain ⟨v, hv⟩ := Option.isSome_iff_exists.1 ((lookup_isSome_iff d k).2 hk)
  obtain ⟨qs, t, hq⟩ := v.exists_term
  have := h (k :: qs) t (by rw [look_cons, hv]; simpa using hq)
  rw [look_cons] at this
  rw [← lookup_isSome_iff]
  cases he : e.lookup k with
  | none => rw [he] at this; simp at this
  | some w => rfl

theorem keys_nodup : ∀ d : Dict α β, d.NoDup → d.keys.Nodup
  | .nil, _ => by simp [Dict.keys]
  | .cons k v r, h => by
    simp only [Dict.NoDup] at h
    simp only [Dict.keys, List.nodup_cons]
    exact ⟨h.1, keys_nodup r h.2.2⟩

theorem length_eq_keys : ∀ d : Dict α β, d.length = d.keys.length
  | .nil => rfl
  | .cons k v r => by simp [Dict.length, Dict.keys, length_eq_keys r]

theorem lookup_of_mem_toList : ∀ (d : Dict α β), d.NoDup → ∀ kv ∈ d.toList, d.lookup kv.1 = some kv.2 ∧ kv.2.NoDup
  | .nil, _, kv, h => by simp [Dict.toList] at h
  | .cons k v r, hd, kv, h => by
    simp only [Dict.NoDup] at hd
    simp only [Dict.toList, List.mem_cons] at h
    rcases h with rfl | h
    · exact ⟨by simp [lookup_cons], hd.2.1⟩
    · have ih := lookup_of_mem_toList r hd.2.2 kv h
      refine ⟨?_, ih.2⟩
      rw [lookup_cons]
      have : k ≠ kv.1 := by
        intro e
        apply hd.1
        rw [e, ← lookup_isSome_iff, ih.1]; rfl
      simp [this, ih.1]

variable [DecidableEq β]

theorem pySub_cons_some (k : List α) (v w : Val α β) (r e : Dict α β) (h : e.lookup k = some w) :
    (Dict.cons k v r).pySub e = (v.pyEq w && r.pySub e) := by
  simp only [Dict.pySub, h]

mutual
theorem Val.pyEq_of_lookV : ∀ (v w : Val α β), v.NoDup → w.NoDup → (∀ p, lookV v p = lookV w p) →
    v.pyEq w = true
  | .leaf a, w, _, _, h => by
    have h0 := h []
    cases w with
    | leaf b =>
      simp only [lookV, Val.term, Option.some.injEq] at h0
      simp [Val.pyEq, h0]
    | dict e =>
      simp only [lookV, Val.term] at h0
      split at h0 <;> simp at h0
  | .dict d, w, hv, hw, h => by
    cases w with
    | leaf b =>
      have h0 := h []
      simp only [lookV, Val.term] at h0
      split at h0 <;> simp at h0
    | dict e =>
      simp only [Val.NoDup] at hv hw
      have hlook : ∀ p, look d p = look e p := by
        intro p
        cases p with
        | nil => simp
        | cons k ks => simpa [lookV] using h (k :: ks)
      have hsub : d.pySub e = true := by
        refine Dict.pySub_of_look d e hw (fun kv hkv => (lookup_of_mem_toList d hv kv hkv).2) ?_
        intro kv hkv qs
        have := hlook (kv.1 :: qs)
        rw [look_cons, look_cons, (lookup_of_mem_toList d hv kv hkv).1] at this
        simpa using this.symm
      have hlen : d.length = e.length := by
        rw [length_eq_keys, length_eq_keys]
        apply Nat.le_antisymm
        · exact ((keys_nodup d hv).subperm (keys_subset_of_look d e (fun p t hp => by rw [← hlook]; exact hp))).length_le
        · exact ((keys_nodup e hw).subperm (keys_subset_of_look e d (fun p t hp => by rw [hlook]; exact hp))).length_le
      simp [Val.pyEq, hlen, hsub]
theorem Dict.pySub_of_look : ∀ (d e : Dict α β), e.NoDup → (∀ kv ∈ d.toList, kv.2.NoDup) →
    (∀ kv ∈ d.toList, ∀ qs, (e.lookup kv.1).bind (fun w => lookV w qs) = lookV kv.2 qs) →
    d.pySub e = true
  | .nil, _, _, _, _ => by rw [Dict.pySub]
  | .cons k v r, e, he, hnd, h => by
    have hk := h (k, v) (by simp [Dict.toList])
    obtain ⟨qs0, t0, h0⟩ := Val.exists_term v
    cases hl : e.lookup k with
    | none =>
      have := hk qs0
      rw [hl, h0] at this
      simp at this
    | some w =>
      have hw : ∀ p, lookV v p = lookV w p := by
        intro p
        have := hk p
        rw [hl] at this
        simpa using this.symm
      have h1 := Val.pyEq_of_lookV v w (hnd (k, v) (by simp [Dict.toList])) (lookup_NoDup e k w he hl) hw
      have h2 := Dict.pySub_of_look r e he (fun kv hkv => hnd kv (by simp [Dict.toList, hkv]))
        (fun kv hkv => h kv (by simp [Dict.toList, hkv]))
      rw [pySub_cons_some k v w r e hl]
      simp [h1, h2]
end

/-- Python `==` of two genuine dictionaries follows from equality of all terminal lookups -/
theorem Dict.pyEq_of_look (d e : Dict α β) (hd : d.NoDup) (he : e.NoDup)
    (h : ∀ p, look d p = look e p) : d.pyEq e = true := by
  refine Val.pyEq_of_lookV (.dict d) (.dict e) (by simpa [Val.NoDup]) (by simpa [Val.NoDup]) ?_
  intro p
  cases p with
  | nil =>
    -- both are empty or both are not
    simp only [lookV, Val.term]
    by_cases h1 : d.isNil = true
    · have hd0 := (isNil_iff d).1 h1
      subst hd0
      by_cases h2 : e.isNil = true
      · rw [if_pos h2, if_pos h1]
      · obtain ⟨p, t, hp⟩ := e.exists_term (by simpa using h2)
        rw [← h p] at hp
        simp at hp
    · by_cases h2 : e.isNil = true
      · have he0 := (isNil_iff e).1 h2
        subst he0
        obtain ⟨p, t, hp⟩ := d.exists_term (by simpa using h1)
        rw [h p] at hp
        simp at hp
      · simp [h1, h2]
  | cons k ks => simpa [lookV] using h (k :: ks)

end PyEq
end Dino.Tree
