import DinoProofs.Lemmas.Grid
import Mathlib.Analysis.SpecialFunctions.Trigonometric.Deriv

/-!
The index maps of `fourier.real_basis_derivative` / `real_basis_derivative_with_zero_imag` are the
termwise analytic derivative of the trigonometric polynomial they represent (over ℝ).
-/
set_option linter.unusedSectionVars false
set_option linter.unusedSimpArgs false

namespace Dino.Grid
open Dino.Lin Dino.Fourier Finset

/-- basis function of modal row `i` of the real layout (`0, cos λ, sin λ, cos 2λ, sin 2λ, …`) with
 arbitrary normalisations `n0` (constant) and `n1` (the code uses `1/√(2π)`, `1/√π`) -/
noncomputable def realPhi (n0 n1 : ℝ) (i : ℕ) (t : ℝ) : ℝ :=
  if i = 0 then n0
  else if i % 2 = 1 then n1 * Real.cos ((((i + 1) / 2 : ℕ) : ℝ) * t)
  else n1 * Real.sin ((((i + 1) / 2 : ℕ) : ℝ) * t)

/-- its analytic derivative -/
noncomputable def realPhi' (n1 : ℝ) (i : ℕ) (t : ℝ) : ℝ :=
  if i = 0 then 0
  else if i % 2 = 1 then n1 * (-Real.sin ((((i + 1) / 2 : ℕ) : ℝ) * t) * (((i + 1) / 2 : ℕ) : ℝ))
  else n1 * (Real.cos ((((i + 1) / 2 : ℕ) : ℝ) * t) * (((i + 1) / 2 : ℕ) : ℝ))

theorem hasDerivAt_cos_mul (n1 j t : ℝ) :
    HasDerivAt (fun s => n1 * Real.cos (j * s)) (n1 * (-Real.sin (j * t) * j)) t := by
  have h := (((hasDerivAt_id t).const_mul j).cos).const_mul n1
  simpa using h

theorem hasDerivAt_sin_mul (n1 j t : ℝ) :
    HasDerivAt (fun s => n1 * Real.sin (j * s)) (n1 * (Real.cos (j * t) * j)) t := by
  have h := (((hasDerivAt_id t).const_mul j).sin).const_mul n1
  simpa using h

theorem hasDerivAt_realPhi (n0 n1 : ℝ) (i : ℕ) (t : ℝ) :
    HasDerivAt (realPhi n0 n1 i) (realPhi' n1 i t) t := by
  by_cases h0 : i = 0
  · have : realPhi n0 n1 i = fun _ => n0 := by funext s; simp [realPhi, h0]
    rw [this]
    simp only [realPhi', h0, if_true]
    exact hasDerivAt_const t n0
  · by_cases h1 : i % 2 = 1
    · have : realPhi n0 n1 i = fun s => n1 * Real.cos ((((i + 1) / 2 : ℕ) : ℝ) * s) := by
        funext s; simp [realPhi, h0, h1]
      rw [this]
      simp only [realPhi', h0, h1, if_true, if_false]
      exact hasDerivAt_cos_mul n1 _ t
    · have : realPhi n0 n1 i = fun s => n1 * Real.sin ((((i + 1) / 2 : ℕ) : ℝ) * s) := by
        funext s; simp [realPhi, h0, h1]
      rw [this]
      simp only [realPhi', h0, h1, if_false]
      exact hasDerivAt_sin_mul n1 _ t

/-- the index map of `real_basis_derivative` on a coefficient sequence -/
def dReal (c : ℕ → ℝ) (i : ℕ) : ℝ :=
  if i % 2 = 1 then (((i + 1) / 2 : ℕ) : ℝ) * c (i + 1) else -((((i + 1) / 2 : ℕ) : ℝ) * c (i - 1))

/-- pairing of the cos/sin rows: `Σ cᵢ φᵢ' = Σ (D c)ᵢ φᵢ` over an odd number of rows -/
theorem real_pairing (n0 n1 : ℝ) (c : ℕ → ℝ) (N : ℕ) (t : ℝ) :
    ∑ i ∈ range (2 * N + 1), c i * realPhi' n1 i t
      = ∑ i ∈ range (2 * N + 1), dReal c i * realPhi n0 n1 i t := by
  induction N with
  | zero => simp [realPhi', dReal, realPhi]
  | succ N ih =>
    have e : 2 * (N + 1) + 1 = (2 * N + 1) + 1 + 1 := by ring
    rw [e, sum_range_succ, sum_range_succ, sum_range_succ _ (2 * N + 1 + 1), sum_range_succ _ (2 * N + 1), ih]
    have o1 : (2 * N + 1) % 2 = 1 := by omega
    have o2 : ¬ (2 * N + 1 + 1) % 2 = 1 := by omega
    have z1 : ¬ (2 * N + 1 = 0) := by omega
    have z2 : ¬ (2 * N + 1 + 1 = 0) := by omega
    have j1 : (2 * N + 1 + 1) / 2 = N + 1 := by omega
    have j2 : (2 * N + 1 + 1 + 1) / 2 = N + 1 := by omega
    have p : 2 * N + 1 + 1 - 1 = 2 * N + 1 := by omega
    simp only [realPhi', realPhi, dReal, o1, o2, z1, z2, j1, j2, p, if_true, if_false]
    ring

/-- **T2.1 (real layout)** for every odd number of rows `2N+1`, every column `l` and every
 normalisation: the trigonometric polynomial `Σᵢ x[i][l]·φᵢ(λ)` has derivative
 `Σᵢ real_basis_derivative(x)[i][l]·φᵢ(λ)` at every `λ`. -/
theorem real_derivative_hasDerivAt (n0 n1 : ℝ) (x : List (List ℝ)) (w N l : ℕ)
    (hx : x.length = 2 * N + 1) (t : ℝ) :
    HasDerivAt (fun s => ∑ i ∈ range (2 * N + 1), ent2 x i l * realPhi n0 n1 i s)
      (∑ i ∈ range (2 * N + 1), ent2 (realDerivative x w) i l * realPhi n0 n1 i t) t := by
  have h : HasDerivAt (fun s => ∑ i ∈ range (2 * N + 1), ent2 x i l * realPhi n0 n1 i s)
      (∑ i ∈ range (2 * N + 1), ent2 x i l * realPhi' n1 i t) t :=
    HasDerivAt.fun_sum (fun i _ => (hasDerivAt_realPhi n0 n1 i t).const_mul (ent2 x i l))
  rw [real_pairing n0 n1 (fun i => ent2 x i l) N t] at h
  convert h using 1
  apply sum_congr rfl
  intro i hi
  rw [ent2_realDerivative x w i l (by rw [hx]; exact mem_range.mp hi)]
  rfl

/-! ### fast layout: rows `(+0, −0, +1, −1, …)` plus zero padding -/

/-- basis function of modal row `i` of the fast layout with `M` longitudinal wavenumbers: row 1
 (the imaginary part of `m = 0`) and the padding rows `i ≥ 2M` are identically zero -/
noncomputable def fastPhi (n0 n1 : ℝ) (M i : ℕ) (t : ℝ) : ℝ :=
  if 2 * M ≤ i then 0
  else if i = 0 then n0
  else if i = 1 then 0
  else if i % 2 = 0 then n1 * Real.cos (((i / 2 : ℕ) : ℝ) * t)
  else n1 * Real.sin (((i / 2 : ℕ) : ℝ) * t)

noncomputable def fastPhi' (n1 : ℝ) (M i : ℕ) (t : ℝ) : ℝ :=
  if 2 * M ≤ i then 0
  else if i = 0 then 0
  else if i = 1 then 0
  else if i % 2 = 0 then n1 * (-Real.sin (((i / 2 : ℕ) : ℝ) * t) * ((i / 2 : ℕ) : ℝ))
  else n1 * (Real.cos (((i / 2 : ℕ) : ℝ) * t) * ((i / 2 : ℕ) : ℝ))

theorem hasDerivAt_fastPhi (n0 n1 : ℝ) (M i : ℕ) (t : ℝ) :
    HasDerivAt (fastPhi n0 n1 M i) (fastPhi' n1 M i t) t := by
  by_cases hM : 2 * M ≤ i
  · have : fastPhi n0 n1 M i = fun _ => 0 := by funext s; simp [fastPhi, hM]
    rw [this]; simp only [fastPhi', hM, if_true]; exact hasDerivAt_const t 0
  by_cases h0 : i = 0
  · subst h0
    have : fastPhi n0 n1 M 0 = fun _ => n0 := by funext s; simp only [fastPhi, if_neg hM, if_true]
    have e : fastPhi' n1 M 0 t = 0 := by simp [fastPhi']
    rw [this, e]; exact hasDerivAt_const t n0
  by_cases h1 : i = 1
  · subst h1
    have : fastPhi n0 n1 M 1 = fun _ => (0 : ℝ) := by funext s; simp [fastPhi]
    have e : fastPhi' n1 M 1 t = 0 := by simp [fastPhi']
    rw [this, e]; exact hasDerivAt_const t (0 : ℝ)
  by_cases h2 : i % 2 = 0
  · have : fastPhi n0 n1 M i = fun s => n1 * Real.cos (((i / 2 : ℕ) : ℝ) * s) := by
      funext s; simp [fastPhi, hM, h0, h1, h2]
    rw [this]; simp only [fastPhi', hM, h0, h1, h2, if_true, if_false]
    exact hasDerivAt_cos_mul n1 _ t
  · have : fastPhi n0 n1 M i = fun s => n1 * Real.sin (((i / 2 : ℕ) : ℝ) * s) := by
      funext s; simp [fastPhi, hM, h0, h1, h2]
    rw [this]; simp only [fastPhi', hM, h0, h1, h2, if_false]
    exact hasDerivAt_sin_mul n1 _ t

/-- the index map of `real_basis_derivative_with_zero_imag` (`frequency_offset = 0`) -/
def dFast (c : ℕ → ℝ) (i : ℕ) : ℝ :=
  if i % 2 = 0 then ((i / 2 : ℕ) : ℝ) * c (i + 1) else -(((i / 2 : ℕ) : ℝ) * c (i - 1))

theorem fast_pairing (n0 n1 : ℝ) (M : ℕ) (c : ℕ → ℝ) (N : ℕ) (t : ℝ) :
    ∑ i ∈ range (2 * N), c i * fastPhi' n1 M i t
      = ∑ i ∈ range (2 * N), dFast c i * fastPhi n0 n1 M i t := by
  induction N with
  | zero => simp
  | succ N ih =>
    have e : 2 * (N + 1) = 2 * N + 1 + 1 := by ring
    rw [e, sum_range_succ, sum_range_succ, sum_range_succ _ (2 * N + 1), sum_range_succ _ (2 * N), ih]
    have o1 : (2 * N) % 2 = 0 := by omega
    have o2 : ¬ (2 * N + 1) % 2 = 0 := by omega
    have j1 : (2 * N) / 2 = N := by omega
    have j2 : (2 * N + 1) / 2 = N := by omega
    have p : 2 * N + 1 - 1 = 2 * N := by omega
    by_cases hM : 2 * M ≤ 2 * N
    · have hM' : 2 * M ≤ 2 * N + 1 := by omega
      simp only [fastPhi', fastPhi, hM, hM', if_true]
      ring
    · have hM' : ¬ 2 * M ≤ 2 * N + 1 := by omega
      by_cases hN : N = 0
      · subst hN
        simp [fastPhi', fastPhi, dFast, hM]
      · have z1 : ¬ (2 * N = 0) := by omega
        have z2 : ¬ (2 * N = 1) := by omega
        have z3 : ¬ (2 * N + 1 = 0) := by omega
        have z4 : ¬ (2 * N + 1 = 1) := by omega
        simp only [fastPhi', fastPhi, dFast, hM, hM', o1, o2, j1, j2, p, z1, z2, z3, z4, if_true,
          if_false]
        ring

/-- **T2.1 (fast layout)** for every even number of rows `2N` (`N ≥ M`: padding rows allowed), every
 column and every normalisation: `Σᵢ x[i][l]·φᵢ(λ)` has derivative
 `Σᵢ real_basis_derivative_with_zero_imag(x)[i][l]·φᵢ(λ)`. -/
theorem fast_derivative_hasDerivAt (n0 n1 : ℝ) (M : ℕ) (x : List (List ℝ)) (w N l : ℕ)
    (hx : x.length = 2 * N) (t : ℝ) :
    HasDerivAt (fun s => ∑ i ∈ range (2 * N), ent2 x i l * fastPhi n0 n1 M i s)
      (∑ i ∈ range (2 * N), ent2 (zeroImagDerivative x w) i l * fastPhi n0 n1 M i t) t := by
  have h : HasDerivAt (fun s => ∑ i ∈ range (2 * N), ent2 x i l * fastPhi n0 n1 M i s)
      (∑ i ∈ range (2 * N), ent2 x i l * fastPhi' n1 M i t) t :=
    HasDerivAt.fun_sum (fun i _ => (hasDerivAt_fastPhi n0 n1 M i t).const_mul (ent2 x i l))
  rw [fast_pairing n0 n1 M (fun i => ent2 x i l) N t] at h
  convert h using 1
  apply sum_congr rfl
  intro i hi
  rw [ent2_zeroImagDerivative x w i l (by rw [hx]; exact mem_range.mp hi)]
  rfl

end Dino.Grid
