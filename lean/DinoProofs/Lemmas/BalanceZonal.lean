import DinoProofs.Lemmas.Balance

/-!
# Lemmas for C05: zonal, non-divergent flows in `Dino.Dynamics` (primitive equations)

A *zonal flow* is a state with `δ = 0` whose velocity has no meridional component and whose surface
pressure has no zonal gradient (on the nodal grid).  For such a state `u·∇ln pₛ = 0`, hence
`σ̇ = 0`, `ω = 0`, `∂ln pₛ/∂t = 0`; if moreover the fluxes `u·X` of the advected fields are zonal
(`d_dlon = 0`), every tendency vanishes except the divergence tendency, which is the residual of the
meridional (gradient-wind) balance.  Solid-body rotation is the special case `u = U cos θ`.
-/
set_option linter.unusedSectionVars false

namespace Dino.Balance
open Dino Dino.Dynamics

section lists
variable {A B V : Type}

theorem zipWith_replicate_right_map (f : A → B → V) (b : B) (l : List A) (n : ℕ) (h : l.length = n) :
    List.zipWith f l (List.replicate n b) = l.map fun a => f a b := by
  subst h
  induction l with
  | nil => rfl
  | cons a t ih => simp [List.replicate_succ, ih]

theorem zipWith_replicate_left_map (f : B → A → V) (b : B) (l : List A) (n : ℕ) (h : l.length = n) :
    List.zipWith f (List.replicate n b) l = l.map fun a => f b a := by
  subst h
  induction l with
  | nil => rfl
  | cons a t ih => simp [List.replicate_succ, ih]

theorem map_eq_replicate_of_forall (f : A → V) (c : V) (l : List A) (n : ℕ) (h : l.length = n)
    (hf : ∀ a ∈ l, f a = c) : l.map f = List.replicate n c := by
  subst h
  induction l with
  | nil => rfl
  | cons a t ih =>
    simp only [List.map_cons, List.length_cons, List.replicate_succ]
    rw [hf a (by simp), ih (fun a ha => hf a (by simp [ha]))]

end lists

section zonal
variable {K M N : Type} [Field K] [AddCommGroup M] [Module K M] [CommRing N] [Algebra K N]

/-- a non-divergent state -/
def zonalState (ζ T' : List M) (lnp : M) (tr : List (String × List M)) : State M :=
  { vorticity := ζ, divergence := List.replicate ζ.length 0, temperatureVariation := T'
    logSurfacePressure := lnp, tracers := tr }

/-- `cos θ · u` of the level with vorticity `z` (and no divergence) on the nodal grid -/
def zonalU (h : HOps K M N) (z : M) : N := h.toNodal (h.cosLatVector false z 0).1

/-- what is assumed of a zonal flow: no meridional wind, no zonal pressure gradient -/
structure ZonalFlow (h : HOps K M N) (ζ : List M) (lnp : M) : Prop where
  merid : ∀ z ∈ ζ, h.toNodal (h.cosLatVector false z 0).2 = 0
  gradZonal : h.toNodal (h.cosLatGrad false lnp).1 = 0

/-- the diagnostic state of a zonal flow: `P = cos θ ∂_θ ln pₛ / a` on the nodal grid -/
def zonalDiag (h : HOps K M N) (ζ T' : List M) (P : N) (tr : List (String × List N)) : Diag N :=
  { vorticity := ζ.map h.toNodal, divergence := List.replicate ζ.length 0
    temperatureVariation := T'.map h.toNodal
    cosLatU := (ζ.map (zonalU h), List.replicate ζ.length 0)
    sigmaDotExplicit := List.replicate (ζ.length - 1) 0, sigmaDotFull := List.replicate (ζ.length - 1) 0
    cosLatGradLogSp := (0, P)
    uDotGradLogSp := List.replicate ζ.length 0
    tracers := tr }

theorem computeDiagnosticState_zonal (h : HOps K M N) (L : LinLaws h) (v : Vert K) (ζ T' : List M)
    (hds : v.ds.length = ζ.length) (lnp : M) (tr : List (String × List M)) (Z : ZonalFlow h ζ lnp) :
    computeDiagnosticState h v (zonalState ζ T' lnp tr) =
      zonalDiag h ζ T' (h.toNodal (h.cosLatGrad false lnp).2) (mapTracers (fun x => x.map h.toNodal) tr) := by
  unfold computeDiagnosticState zonalState zonalDiag
  have hclv : List.zipWith (fun z d => h.cosLatVector false z d) ζ (List.replicate ζ.length 0)
      = ζ.map fun z => h.cosLatVector false z 0 := zipWith_replicate_right_map _ _ _ _ rfl
  have hV : (ζ.map fun z => h.cosLatVector false z 0).map (fun p => h.toNodal p.2)
      = List.replicate ζ.length 0 := by
    rw [List.map_map]
    exact map_eq_replicate_of_forall _ _ _ _ rfl (fun z hz => Z.merid z hz)
  have hU : (ζ.map fun z => h.cosLatVector false z 0).map (fun p => h.toNodal p.1)
      = ζ.map (zonalU h) := by
    rw [List.map_map]; rfl
  simp only [hclv, hV, hU, Z.gradZonal, List.map_replicate, L.toNodal.map_zero]
  have hudg : List.zipWith
      (fun u w => u * (0 : N) * h.sec2Lat + w * h.toNodal (h.cosLatGrad false lnp).2 * h.sec2Lat)
      (ζ.map (zonalU h)) (List.replicate ζ.length 0) = List.replicate ζ.length 0 :=
    zipWith_replicate_right' _ _ 0 _ (by intro a _; simp) _ (by simp)
  simp only [hudg, add_zeros, cumSigmaIntegral_zeros v.ds ζ.length hds, sigmaDotOf_zeros v.ds ζ.length hds]

end zonal

section zonalterms
variable {K M N : Type} [Field K] [AddCommGroup M] [Module K M] [CommRing N] [Algebra K N]
variable (eq : PrimitiveEquations K M N)

theorem zerosLike_eq {A V : Type} [Zero V] (x : List A) :
    (Col.zerosLike x : List V) = List.replicate x.length 0 := by
  simp [Col.zerosLike]

/-- `to_modal` of the meridional momentum flux `((ζ + f) u + rT ∂_θ ln pₛ) sec²θ` of every level — the
 `combined_v` of `curl_and_div_tendencies` when `σ̇ = 0` -/
def zonalB (ζ : List M) (rT : List N) (P : N) : List M :=
  (Col.add
    (List.zipWith (fun uu tv => uu * tv * eq.ops.sec2Lat) (ζ.map (zonalU eq.ops))
      ((ζ.map eq.ops.toNodal).map fun z => z + eq.coriolisParameter))
    (List.zipWith (fun (sd : N) r => (sd + r * P) * eq.ops.sec2Lat) (List.replicate ζ.length 0) rT)).map
    eq.ops.toModal

theorem zonalB_length (ζ : List M) (rT : List N) (P : N) (h : rT.length = ζ.length) :
    (zonalB eq ζ rT P).length = ζ.length := by
  simp [zonalB, Col.add, h]

theorem curlAndDivTendenciesWith_zonal (L : LinLaws eq.ops) (n : ℕ) (hn : 0 < n)
    (hb : eq.vert.boundaries.length = n + 1) (ζ T' : List M) (hζ : ζ.length = n) (rT : List N)
    (hrT : rT.length = n) (P : N) (tr : List (String × List N))
    (hz : ∀ b ∈ zonalB eq ζ rT P, eq.ops.dDlon b = 0) :
    eq.curlAndDivTendenciesWith (zonalDiag eq.ops ζ T' P tr) rT
      = (List.replicate n 0,
         (zonalB eq ζ rT P).map fun b => -((1 / eq.ops.radius) • eq.ops.secLatDDlatCos2 b)) := by
  have hvU := verticalTendency_zero_w eq (ζ.map (zonalU eq.ops)) n hn (by simp [hζ]) hb
  have hvV := verticalTendency_zero_w eq (List.replicate n (0 : N)) n hn (by simp) hb
  have hBl : (zonalB eq ζ rT P).length = n := by rw [zonalB_length eq ζ rT P (by omega), hζ]
  have hsdU : (if eq.includeVerticalAdvection
      then Col.neg (eq.verticalTendency (List.replicate (n - 1) 0) (ζ.map (zonalU eq.ops)))
      else Col.zerosLike (ζ.map (zonalU eq.ops))) = List.replicate n (0 : N) := by
    cases eq.includeVerticalAdvection <;> simp [hvU, neg_zeros, zerosLike_eq, hζ]
  have hsdV : (if eq.includeVerticalAdvection
      then Col.neg (eq.verticalTendency (List.replicate (n - 1) 0) (List.replicate n (0 : N)))
      else Col.zerosLike (List.replicate n (0 : N))) = List.replicate n (0 : N) := by
    cases eq.includeVerticalAdvection <;> simp [hvV, neg_zeros, zerosLike_eq]
  unfold PrimitiveEquations.curlAndDivTendenciesWith zonalDiag
  simp only [hζ, hsdU, hsdV]
  have h1 : List.zipWith (fun vv tv => -vv * tv * eq.ops.sec2Lat) (List.replicate n (0 : N))
      ((ζ.map eq.ops.toNodal).map fun z => z + eq.coriolisParameter) = List.replicate n 0 :=
    zipWith_zero_left _ (by intro a; simp) _ n (by simp [hζ])
  have h2 : List.zipWith (fun (sd : N) r => (sd + r * (0 : N)) * eq.ops.sec2Lat) (List.replicate n 0) rT
      = List.replicate n 0 :=
    zipWith_replicate_left' _ _ 0 _ (by intro a _; simp) n hrT
  have hB : (Col.add
      (List.zipWith (fun uu tv => uu * tv * eq.ops.sec2Lat) (ζ.map (zonalU eq.ops))
        ((ζ.map eq.ops.toNodal).map fun z => z + eq.coriolisParameter))
      (List.zipWith (fun (sd : N) r => (sd + r * P) * eq.ops.sec2Lat) (List.replicate n 0) rT)).map
      eq.ops.toModal = zonalB eq ζ rT P := by
    unfold zonalB; rw [hζ]
  simp only [h1, h2, add_zeros, List.map_replicate, L.toModal.map_zero, hB]
  rw [zipWith_replicate_left_map _ _ _ n hBl, zipWith_replicate_left_map _ _ _ n hBl]
  congr 1
  · apply map_eq_replicate_of_forall _ _ _ _ hBl
    intro b hb'
    simp [HOps.curlCosLat, hz b hb', L.secLatDDlatCos2.map_zero]
  · apply List.map_congr_left
    intro b _
    simp [HOps.divCosLat, L.dDlon.map_zero]

/-- kinetic-energy term of a zonal flow: `−∇²(½ u² sec²θ)` -/
theorem kineticEnergyTendency_zonal (ζ T' : List M) (P : N) (tr : List (String × List N)) :
    eq.kineticEnergyTendency (zonalDiag eq.ops ζ T' P tr)
      = (ζ.map (zonalU eq.ops)).map fun u =>
          -(eq.ops.laplacian (eq.ops.toModal (((1 / (1 + 1)) : K) • ((u * u) * eq.ops.sec2Lat)))) := by
  unfold PrimitiveEquations.kineticEnergyTendency zonalDiag
  simp only []
  rw [zipWith_replicate_right_map _ _ _ _ (by simp)]
  simp only [List.map_map]
  apply List.map_congr_left
  intro z _
  simp

/-- horizontal advection of a scalar by a zonal flow vanishes when the flux `u·X` is zonal -/
theorem horizontalScalarAdvection_zonal (L : LinLaws eq.ops) (n : ℕ) (ζ T' : List M) (hζ : ζ.length = n)
    (P : N) (tr : List (String × List N)) (x : List N) (hx : x.length = n)
    (hz : ∀ a ∈ Col.mul (ζ.map (zonalU eq.ops)) x,
      eq.ops.dDlon (eq.ops.toModal (a * eq.ops.sec2Lat)) = 0) :
    eq.horizontalScalarAdvection x (zonalDiag eq.ops ζ T' P tr)
      = (List.replicate n 0, List.replicate n 0) := by
  unfold PrimitiveEquations.horizontalScalarAdvection zonalDiag
  simp only [hζ]
  have h1 : Col.mul x (List.replicate n (0 : N)) = List.replicate n 0 :=
    zipWith_zero_right _ (by intro a; simp) x n hx
  have h2 : Col.mul (List.replicate n (0 : N)) x = List.replicate n 0 :=
    zipWith_zero_left _ (by intro a; simp) x n hx
  rw [h1, h2]
  have hl : (Col.mul (ζ.map (zonalU eq.ops)) x).length = n := by simp [Col.mul, hζ, hx]
  rw [zipWith_replicate_right_map _ _ _ n hl]
  congr 1
  apply map_eq_replicate_of_forall _ _ _ _ hl
  intro a ha
  simp [HOps.divSecLat, HOps.divCosLat, hz a ha, L.toModal.map_zero, L.secLatDDlatCos2.map_zero]

/-- the flux `cos θ u · X sec²θ` of an advected nodal column `x` is zonal -/
def ZonalFlux (ζ : List M) (x : List N) : Prop :=
  ∀ a ∈ Col.mul (ζ.map (zonalU eq.ops)) x, eq.ops.dDlon (eq.ops.toModal (a * eq.ops.sec2Lat)) = 0

theorem tracerTendency_zonal (L : LinLaws eq.ops) (n : ℕ) (hn : 0 < n)
    (hb : eq.vert.boundaries.length = n + 1) (ζ T' : List M) (hζ : ζ.length = n) (P : N)
    (tr : List (String × List N)) (x : List N) (hx : x.length = n) (hz : ZonalFlux eq ζ x) :
    eq.tracerTendency (zonalDiag eq.ops ζ T' P tr) x = List.replicate n 0 := by
  unfold PrimitiveEquations.tracerTendency
  rw [horizontalScalarAdvection_zonal eq L n ζ T' hζ P tr x hx hz]
  have hv := verticalTendency_zero_w eq x n hn hx hb
  have hsd : (zonalDiag eq.ops ζ T' P tr).sigmaDotFull = List.replicate (n - 1) 0 := by
    simp [zonalDiag, hζ]
  have hz0 : Col.zerosLike x = List.replicate n (0 : N) := by rw [zerosLike_eq, hx]
  cases eq.includeVerticalAdvection <;>
    simp [hsd, hv, hz0, add_zeros, L.toModal.map_zero]

theorem nodalTemperatureVerticalTendency_zonal [BEq K] (n : ℕ) (hn : 0 < n)
    (hb : eq.vert.boundaries.length = n + 1) (hT : eq.referenceTemperature.length = n)
    (ζ T' : List M) (hζ : ζ.length = n) (hT' : T'.length = n) (P : N) (tr : List (String × List N)) :
    eq.nodalTemperatureVerticalTendency (zonalDiag eq.ops ζ T' P tr) = List.replicate n 0 := by
  unfold PrimitiveEquations.nodalTemperatureVerticalTendency zonalDiag
  simp only [hζ]
  have hv := verticalTendency_zero_w eq (T'.map eq.ops.toNodal) n hn (by simp [hT']) hb
  have hr := verticalTendency_zero_w eq eq.tRef n hn (by rw [tRef_length, hT]) hb
  have hz0 : Col.zerosLike (T'.map eq.ops.toNodal) = List.replicate n (0 : N) := by
    rw [zerosLike_eq]; simp [hT']
  cases eq.includeVerticalAdvection <;> cases eq.tRefVaries <;>
    simp [hv, hr, hz0, add_zeros]

theorem nodalTemperatureAdiabaticTendency_zonal (n : ℕ) (hb : eq.vert.boundaries.length = n + 1)
    (hlc : eq.vert.logCenters.length = n) (hT : eq.referenceTemperature.length = n)
    (ζ T' : List M) (hζ : ζ.length = n) (hT' : T'.length = n) (P : N) (tr : List (String × List N)) :
    eq.nodalTemperatureAdiabaticTendency (zonalDiag eq.ops ζ T' P tr) = List.replicate n 0 := by
  unfold PrimitiveEquations.nodalTemperatureAdiabaticTendency zonalDiag
  simp only [hζ, add_zeros]
  rw [tOmegaOverSigmaSp_rest eq n hb hlc eq.tRef (by rw [tRef_length, hT]),
    tOmegaOverSigmaSp_rest eq n hb hlc _ (by simp [hT'])]
  simp [add_zeros, Col.smul]

theorem thermoTendencies_zonal [BEq K] (L : LinLaws eq.ops) (n : ℕ) (hn : 0 < n)
    (hb : eq.vert.boundaries.length = n + 1) (hT : eq.referenceTemperature.length = n)
    (ζ T' : List M) (hζ : ζ.length = n) (hT' : T'.length = n) (P : N) (tr : List (String × List N))
    (htr : ∀ kv ∈ tr, kv.2.length = n)
    (hzT : ZonalFlux eq ζ (T'.map eq.ops.toNodal)) (hztr : ∀ kv ∈ tr, ZonalFlux eq ζ kv.2) :
    eq.thermoTendencies (zonalDiag eq.ops ζ T' P tr) (List.replicate n 0)
      = (List.replicate n 0, 0, mapTracers (fun _ => List.replicate n 0) tr) := by
  unfold PrimitiveEquations.thermoTendencies
  rw [nodalTemperatureVerticalTendency_zonal eq n hn hb hT ζ T' hζ hT']
  have h1 : (zonalDiag eq.ops ζ T' P tr).temperatureVariation = T'.map eq.ops.toNodal := rfl
  have h2 : (zonalDiag eq.ops ζ T' P tr).tracers = tr := rfl
  have h3 : eq.nodalLogPressureTendency (zonalDiag eq.ops ζ T' P tr) = 0 := by
    unfold PrimitiveEquations.nodalLogPressureTendency zonalDiag
    have hds : eq.vert.ds.length = n := by simp [Vert.ds, Sigma.thickness, hb]
    simp [hζ, sigmaIntegral_zeros eq.vert.ds n hds]
  rw [h1, h2, h3, horizontalScalarAdvection_zonal eq L n ζ T' hζ P tr _ (by simp [hT']) hzT]
  rw [mapTracers_congr _ (fun _ => List.replicate n (0 : M)) tr
    (fun kv hkv => tracerTendency_zonal eq L n hn hb ζ T' hζ P tr kv.2 (htr kv hkv) (hztr kv hkv))]
  simp [add_zeros, L.toModal.map_zero]

/-- the divergence tendency of one level of a zonal flow (explicit half): `B` is the level's entry of
 `zonalB`, `u = cos θ·u` of the level -/
def zonalDivExplicit (b : M) (u : N) : M :=
  eq.ops.clip (-((1 / eq.ops.radius) • eq.ops.secLatDDlatCos2 b)
    + -(eq.ops.laplacian (eq.ops.toModal (((1 / (1 + 1)) : K) • ((u * u) * eq.ops.sec2Lat))))
    + eq.orographyTendency)

/-- **`explicit_terms` of a zonal flow** (dry classes): only the divergence tendency survives -/
theorem explicitTerms_zonal [BEq K] (L : LinLaws eq.ops) (n : ℕ) (hn : 0 < n)
    (hb : eq.vert.boundaries.length = n + 1) (hlc : eq.vert.logCenters.length = n)
    (hT : eq.referenceTemperature.length = n) (ζ T' : List M) (hζ : ζ.length = n) (hT' : T'.length = n)
    (lnp : M) (tr : List (String × List M)) (htr : ∀ kv ∈ tr, kv.2.length = n)
    (Z : ZonalFlow eq.ops ζ lnp)
    (hzB : ∀ b ∈ zonalB eq ζ (Col.smul eq.phys.R (T'.map eq.ops.toNodal))
      (eq.ops.toNodal (eq.ops.cosLatGrad false lnp).2), eq.ops.dDlon b = 0)
    (hzT : ZonalFlux eq ζ (T'.map eq.ops.toNodal))
    (hztr : ∀ kv ∈ tr, ZonalFlux eq ζ (kv.2.map eq.ops.toNodal)) :
    eq.explicitTerms (zonalState ζ T' lnp tr) =
      { vorticity := List.replicate n 0
        divergence := List.zipWith (zonalDivExplicit eq)
          (zonalB eq ζ (Col.smul eq.phys.R (T'.map eq.ops.toNodal))
            (eq.ops.toNodal (eq.ops.cosLatGrad false lnp).2)) (ζ.map (zonalU eq.ops))
        temperatureVariation := List.replicate n 0
        logSurfacePressure := 0
        tracers := mapTracers (fun _ => List.replicate n 0) tr } := by
  unfold PrimitiveEquations.explicitTerms
  have hds : eq.vert.ds.length = ζ.length := by simp [Vert.ds, Sigma.thickness, hb, hζ]
  rw [computeDiagnosticState_zonal eq.ops L eq.vert ζ T' hds lnp tr Z]
  have htr' : ∀ kv ∈ mapTracers (fun x => x.map eq.ops.toNodal) tr, kv.2.length = n := by
    intro kv hkv
    obtain ⟨kv0, h0, rfl⟩ := List.mem_map.mp hkv
    simpa using htr kv0 h0
  have hztr' : ∀ kv ∈ mapTracers (fun x => x.map eq.ops.toNodal) tr, ZonalFlux eq ζ kv.2 := by
    intro kv hkv
    obtain ⟨kv0, h0, rfl⟩ := List.mem_map.mp hkv
    exact hztr kv0 h0
  dsimp only
  rw [nodalTemperatureAdiabaticTendency_zonal eq n hb hlc hT ζ T' hζ hT',
    thermoTendencies_zonal eq L n hn hb hT ζ T' hζ hT' _ _ htr' hzT hztr',
    kineticEnergyTendency_zonal eq]
  unfold PrimitiveEquations.curlAndDivTendencies
  have h1 : ∀ P' tr', (zonalDiag eq.ops ζ T' P' tr').temperatureVariation = T'.map eq.ops.toNodal :=
    fun _ _ => rfl
  rw [h1, curlAndDivTendenciesWith_zonal eq L n hn hb ζ T' hζ _ (by simp [Col.smul, hT']) _ _ hzB]
  simp only [PrimitiveEquations.clipState, List.map_replicate, L.clip.map_zero, mapTracers_mapTracers]
  congr 1
  unfold Col.addLevel Col.add
  rw [List.zipWith_map_left, List.zipWith_map_right, List.map_zipWith]
  rw [List.map_zipWith]
  rfl

end zonalterms
end Dino.Balance
