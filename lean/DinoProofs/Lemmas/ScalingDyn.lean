import DinoProofs.Lemmas.Scaling
import Dino.Scaling

/-!
# The scaling action on the `Dynamics` model: parameters, states, and every term

`Scale` = the four ratios `(l, t, m, θ)` of the length / time / mass / temperature units of two
non-dimensionalisations.  A quantity of dimension `L^a T^b M^c Θ^d` is multiplied by
`l^a t^b m^c θ^d`:

| quantity | dimension | factor |
|---|---|---|
| radius, orography | L | `l` |
| Ω, vorticity, divergence, `σ̇`, `u·∇ ln p_s` | T⁻¹ | `t⁻¹` |
| g | L T⁻² | `l t⁻²` |
| R, R_v, c_p,v | L² T⁻² Θ⁻¹ | `l² t⁻² θ⁻¹` |
| κ, σ, tracers | 1 | 1 |
| T_ref, T' | Θ | `θ` |
| `cos θ · u` | L T⁻¹ | `l t⁻¹` |
| laplacian, its eigenvalues | L⁻² | `l⁻²` |
| `ln p_s` | log of M L⁻¹ T⁻² | additive constant `c = log (m l⁻¹ t⁻²)` in the constant mode |
| sim_time, time step, `η` | T | `t` |

The logarithm is external to the model, so the theorems are proved for **every** constant `c`.
-/
namespace Dino.Scaling
open Dino Dino.Dynamics
set_option linter.unusedSectionVars false

/-- all ratios are non-zero (they are positive reals in the code) -/
structure Scale.Valid {K : Type} [Zero K] (g : Scale K) : Prop where
  l_ne : g.l ≠ 0
  t_ne : g.t ≠ 0
  m_ne : g.m ≠ 0
  θ_ne : g.θ ≠ 0

section defs
variable {K M N : Type} [Field K] [AddCommGroup M] [Module K M] [CommRing N] [Algebra K N]

/-- the named hypotheses relating the two `HOps` values (validated on real `Grid`s of different
 radius by the harness) -/
structure OpsScaled (g : Scale K) (h h' : HOps K M N) : Prop where
  toNodal : h'.toNodal = h.toNodal
  toModal : h'.toModal = h.toModal
  dDlon : h'.dDlon = h.dDlon
  cosLatDDlat : h'.cosLatDDlat = h.cosLatDDlat
  secLatDDlatCos2 : h'.secLatDDlatCos2 = h.secLatDDlatCos2
  laplacian : ∀ x, h'.laplacian x = g.wL2 • h.laplacian x
  inverseLaplacian : ∀ x, h'.inverseLaplacian x = g.wAr • h.inverseLaplacian x
  clip : h'.clip = h.clip
  lproj : h'.lproj = h.lproj
  nL : h'.nL = h.nL
  lapEig : ∀ n, h'.lapEig n = g.wL2 * h.lapEig n
  cosLat : h'.cosLat = h.cosLat
  sec2Lat : h'.sec2Lat = h.sec2Lat
  sinLat : h'.sinLat = h.sinLat
  oneModal : h'.oneModal = h.oneModal
  radius : h'.radius = g.l * h.radius

theorem OpsScaled.eq_actOps {g : Scale K} {h h' : HOps K M N} (r : OpsScaled g h h') :
    h' = actOps g h := by
  cases h; cases h'
  simp only [actOps, HOps.mk.injEq]
  exact ⟨r.toNodal, r.toModal, r.dDlon, r.cosLatDDlat, r.secLatDDlatCos2, funext r.laplacian,
    funext r.inverseLaplacian, r.clip, r.lproj, r.nL, funext r.lapEig, r.cosLat, r.sec2Lat, r.sinLat,
    r.oneModal, r.radius⟩

theorem opsScaled_actOps (g : Scale K) (h : HOps K M N) : OpsScaled g h (actOps g h) := by
  constructor <;> intros <;> rfl

/-- the named hypotheses relating the two `PrimitiveEquationsSpecs` -/
structure PhysScaled (g : Scale K) (ph ph' : Phys K) : Prop where
  angularVelocity : ph'.angularVelocity = g.wF * ph.angularVelocity
  gravity : ph'.g = g.wA * ph.g
  R : ph'.R = g.wR * ph.R
  Rvapor : ph'.Rvapor = g.wR * ph.Rvapor
  CpVapor : ph'.CpVapor = g.wR * ph.CpVapor
  kappa : ph'.kappa = ph.kappa

theorem PhysScaled.eq_actPhys {g : Scale K} {ph ph' : Phys K} (r : PhysScaled g ph ph') :
    ph' = actPhys g ph := by
  cases ph; cases ph'
  simp only [actPhys, Phys.mk.injEq]
  exact ⟨r.angularVelocity, r.gravity, r.R, r.Rvapor, r.CpVapor, r.kappa⟩

/-- two equation objects describing the same physical problem under two scales -/
structure EqScaled (g : Scale K) (p p' : PrimitiveEquations K M N) : Prop where
  ops : OpsScaled g p.ops p'.ops
  vert : p'.vert = p.vert
  phys : PhysScaled g p.phys p'.phys
  referenceTemperature : p'.referenceTemperature = p.referenceTemperature.map (g.θ * ·)
  orography : p'.orography = g.l • p.orography
  includeVerticalAdvection : p'.includeVerticalAdvection = p.includeVerticalAdvection

theorem EqScaled.eq_actEq {g : Scale K} {p p' : PrimitiveEquations K M N} (r : EqScaled g p p') :
    p' = actEq g p := by
  have h1 := r.ops.eq_actOps
  have h2 := r.phys.eq_actPhys
  cases p; cases p'
  simp only [actEq, PrimitiveEquations.mk.injEq]
  exact ⟨h1, r.vert, h2, r.referenceTemperature, r.orography, r.includeVerticalAdvection⟩

theorem eqScaled_actEq (g : Scale K) (p : PrimitiveEquations K M N) : EqScaled g p (actEq g p) :=
  ⟨opsScaled_actOps g p.ops, rfl, ⟨rfl, rfl, rfl, rfl, rfl, rfl⟩, rfl, rfl, rfl⟩

/-- laws of the horizontal operations used by the scaling theorems: homogeneity of the eight
 linear operations, additivity of the three that see `ln p_s`, and the three that annihilate the
 constant field (`d/dλ 1 = cosθ d/dθ 1 = ∇² 1 = 0`).  Validated on real `Grid`s by the harness. -/
structure OpsLaws (h : HOps K M N) : Prop where
  toNodal_smul : ∀ (c : K) x, h.toNodal (c • x) = c • h.toNodal x
  toModal_smul : ∀ (c : K) x, h.toModal (c • x) = c • h.toModal x
  dDlon_smul : ∀ (c : K) x, h.dDlon (c • x) = c • h.dDlon x
  cosLatDDlat_smul : ∀ (c : K) x, h.cosLatDDlat (c • x) = c • h.cosLatDDlat x
  secLatDDlatCos2_smul : ∀ (c : K) x, h.secLatDDlatCos2 (c • x) = c • h.secLatDDlatCos2 x
  laplacian_smul : ∀ (c : K) x, h.laplacian (c • x) = c • h.laplacian x
  inverseLaplacian_smul : ∀ (c : K) x, h.inverseLaplacian (c • x) = c • h.inverseLaplacian x
  clip_smul : ∀ (c : K) x, h.clip (c • x) = c • h.clip x
  dDlon_add : ∀ x y, h.dDlon (x + y) = h.dDlon x + h.dDlon y
  cosLatDDlat_add : ∀ x y, h.cosLatDDlat (x + y) = h.cosLatDDlat x + h.cosLatDDlat y
  laplacian_add : ∀ x y, h.laplacian (x + y) = h.laplacian x + h.laplacian y
  dDlon_one : h.dDlon h.oneModal = 0
  cosLatDDlat_one : h.cosLatDDlat h.oneModal = 0
  laplacian_one : h.laplacian h.oneModal = 0

end defs

/-! ## scalar identities between the factors -/
section scalars
variable {K : Type} [Field K] {g : Scale K}

/-- close a scalar identity between products of the factors -/
macro "scal_eq" hg:term : tactic => `(tactic| (
  have h1 := ($hg).l_ne; have h2 := ($hg).t_ne; have h3 := ($hg).θ_ne; have h4 := ($hg).m_ne
  try simp only [Scale.wF, Scale.wV, Scale.wA, Scale.wE, Scale.wR, Scale.wL2, Scale.wIL, Scale.wAr,
    Scale.wP, Scale.wRho, one_div]
  try field_simp
  try ring))

theorem wV_mul_il (hg : g.Valid) : g.wV * g.wIL = g.wF := by scal_eq hg
theorem il_mul_wV (hg : g.Valid) : g.wIL * g.wV = g.wF := by scal_eq hg
theorem il_mul_l2_wF (hg : g.Valid) : g.wIL * (g.wAr * g.wF) = g.wV := by scal_eq hg
theorem wL2_mul_wV2 (hg : g.Valid) : g.wL2 * (g.wV * g.wV) = g.wF * g.wF := by scal_eq hg
theorem wA_eq (hg : g.Valid) : g.wA = g.wF * g.wV := by scal_eq hg
theorem wR_mul_θ (hg : g.Valid) : g.wR * g.θ = g.wE := by scal_eq hg
theorem wE_mul_il (hg : g.Valid) : g.wE * g.wIL = g.wF * g.wV := by scal_eq hg
theorem il_mul_wA (hg : g.Valid) : g.wIL * (g.wF * g.wV) = g.wF * g.wF := by scal_eq hg
theorem wL2_mul_wE (hg : g.Valid) : g.wL2 * g.wE = g.wF * g.wF := by scal_eq hg
theorem wR_ne (hg : g.Valid) : g.wR ≠ 0 := by
  simp [Scale.wR, hg.l_ne, hg.t_ne, hg.θ_ne]
theorem wF_ne (hg : g.Valid) : g.wF ≠ 0 := by
  simp [Scale.wF, hg.t_ne]
theorem wE_ne (hg : g.Valid) : g.wE ≠ 0 := by
  simp [Scale.wE, hg.l_ne, hg.t_ne]
theorem wRho_ne (hg : g.Valid) : g.wRho ≠ 0 := by
  simp [Scale.wRho, hg.l_ne, hg.m_ne]
theorem wP_ne (hg : g.Valid) : g.wP ≠ 0 := by
  simp [Scale.wP, hg.l_ne, hg.m_ne, hg.t_ne]
end scalars

/-! ## the derived grid operations -/
section grid
variable {K M N : Type} [Field K] [AddCommGroup M] [Module K M] [CommRing N] [Algebra K N]
variable {g : Scale K} {h : HOps K M N}

theorem inv_radius (g : Scale K) (h : HOps K M N) :
    (1 / (actOps g h).radius : K) = g.wIL * (1 / h.radius) := by
  simp only [actOps, Scale.wIL, one_div, mul_inv]

theorem opsLaws_actOps (g : Scale K) (hl : OpsLaws h) : OpsLaws (actOps g h) where
  toNodal_smul := hl.toNodal_smul
  toModal_smul := hl.toModal_smul
  dDlon_smul := hl.dDlon_smul
  cosLatDDlat_smul := hl.cosLatDDlat_smul
  secLatDDlatCos2_smul := hl.secLatDDlatCos2_smul
  laplacian_smul := fun a x => by
    show g.wL2 • h.laplacian (a • x) = a • g.wL2 • h.laplacian x
    rw [hl.laplacian_smul, smul_comm]
  inverseLaplacian_smul := fun a x => by
    show g.wAr • h.inverseLaplacian (a • x) = a • g.wAr • h.inverseLaplacian x
    rw [hl.inverseLaplacian_smul, smul_comm]
  clip_smul := hl.clip_smul
  dDlon_add := hl.dDlon_add
  cosLatDDlat_add := hl.cosLatDDlat_add
  laplacian_add := fun x y => by
    show g.wL2 • h.laplacian (x + y) = g.wL2 • h.laplacian x + g.wL2 • h.laplacian y
    rw [hl.laplacian_add, smul_add]
  dDlon_one := hl.dDlon_one
  cosLatDDlat_one := hl.cosLatDDlat_one
  laplacian_one := by
    show g.wL2 • h.laplacian h.oneModal = 0
    rw [hl.laplacian_one, smul_zero]

theorem cosLatGrad_act (hl : OpsLaws h) (cl : Bool) (a : K) (x : M) :
    (actOps g h).cosLatGrad cl (a • x) = (g.wIL * a) • h.cosLatGrad cl x := by
  unfold HOps.cosLatGrad
  rw [inv_radius]
  simp only [actOps]
  cases cl <;>
    simp only [hl.dDlon_smul, hl.cosLatDDlat_smul, hl.clip_smul, smul_smul, Prod.smul_mk,
      Bool.false_eq_true, if_false, if_true, Prod.mk.injEq] <;>
    constructor <;> congr 1 <;> ring

/-- the gradient does not see a constant -/
theorem cosLatGrad_add_const (hl : OpsLaws h) (cl : Bool) (c : K) (x : M) :
    h.cosLatGrad cl (x + c • h.oneModal) = h.cosLatGrad cl x := by
  unfold HOps.cosLatGrad
  simp only [hl.dDlon_add, hl.cosLatDDlat_add, hl.dDlon_smul, hl.cosLatDDlat_smul, hl.dDlon_one,
    hl.cosLatDDlat_one, smul_zero, add_zero]

theorem laplacian_add_const (hl : OpsLaws h) (c : K) (x : M) :
    h.laplacian (x + c • h.oneModal) = h.laplacian x := by
  rw [hl.laplacian_add, hl.laplacian_smul, hl.laplacian_one, smul_zero, add_zero]

theorem divCosLat_act (hl : OpsLaws h) (cl : Bool) (a : K) (v : M × M) :
    (actOps g h).divCosLat cl (a • v) = (g.wIL * a) • h.divCosLat cl v := by
  unfold HOps.divCosLat
  rw [inv_radius]
  simp only [actOps, Prod.smul_fst, Prod.smul_snd]
  cases cl <;>
    simp only [hl.dDlon_smul, hl.secLatDDlatCos2_smul, hl.clip_smul, smul_smul, ← smul_add,
      Bool.false_eq_true, if_false, if_true] <;>
    congr 1 <;> ring

theorem curlCosLat_act (hl : OpsLaws h) (cl : Bool) (a : K) (v : M × M) :
    (actOps g h).curlCosLat cl (a • v) = (g.wIL * a) • h.curlCosLat cl v := by
  unfold HOps.curlCosLat
  rw [inv_radius]
  simp only [actOps, Prod.smul_fst, Prod.smul_snd]
  cases cl <;>
    simp only [hl.dDlon_smul, hl.secLatDDlatCos2_smul, hl.clip_smul, smul_smul, ← smul_sub,
      Bool.false_eq_true, if_false, if_true] <;>
    congr 1 <;> ring

theorem cosLatVector_act (hg : g.Valid) (hl : OpsLaws h) (cl : Bool) (z d : M) :
    (actOps g h).cosLatVector cl (g.wF • z) (g.wF • d) = g.wV • h.cosLatVector cl z d := by
  unfold HOps.cosLatVector
  have e1 : ∀ x : M, (actOps g h).inverseLaplacian (g.wF • x) = (g.wAr * g.wF) • h.inverseLaplacian x := by
    intro x; simp only [actOps, hl.inverseLaplacian_smul, smul_smul]
  simp only [e1, cosLatGrad_act hl, il_mul_l2_wF hg, HOps.kCross, Prod.smul_fst, Prod.smul_snd,
    Prod.smul_mk, smul_add, smul_neg]

theorem divSecLat_act (hl : OpsLaws h) (a : K) (m n : N) :
    (actOps g h).divSecLat (a • m) (a • n) = (g.wIL * a) • h.divSecLat m n := by
  unfold HOps.divSecLat
  have : ((actOps g h).toModal (a • m * (actOps g h).sec2Lat), (actOps g h).toModal (a • n * (actOps g h).sec2Lat))
      = a • (h.toModal (m * h.sec2Lat), h.toModal (n * h.sec2Lat)) := by
    simp only [actOps, smul_mul_assoc, hl.toModal_smul, Prod.smul_mk]
  rw [this, divCosLat_act hl]

end grid

/-! ## the diagnostic state -/
section diag
variable {K M N : Type} [Field K] [AddCommGroup M] [Module K M] [CommRing N] [Algebra K N]
variable {g : Scale K} {h : HOps K M N}

theorem computeDiagnosticState_act (hg : g.Valid) (hl : OpsLaws h) (v : Vert K) (c : K) (s : State M) :
    computeDiagnosticState (actOps g h) v (actState g c h.oneModal s)
      = actDiag g (computeDiagnosticState h v s) := by
  have hN : ∀ (a : K) (x : List M), (Col.smul a x).map (actOps g h).toNodal = Col.smul a (x.map h.toNodal) :=
    fun a x => map_smul_of _ _ a a (fun u => hl.toNodal_smul a u) x
  have hclv : List.zipWith (fun z d => (actOps g h).cosLatVector false z d)
        (Col.smul g.wF s.vorticity) (Col.smul g.wF s.divergence)
      = Col.smul g.wV (List.zipWith (fun z d => h.cosLatVector false z d) s.vorticity s.divergence) :=
    zipWith_smul_of _ _ g.wF g.wF g.wV (fun z d => cosLatVector_act hg hl false z d) _ _
  have hU1 : ∀ x : List (M × M), (Col.smul g.wV x).map (fun p => (actOps g h).toNodal p.1)
      = Col.smul g.wV (x.map fun p => h.toNodal p.1) :=
    fun x => map_smul_of _ _ g.wV g.wV (fun u => hl.toNodal_smul g.wV u.1) x
  have hU2 : ∀ x : List (M × M), (Col.smul g.wV x).map (fun p => (actOps g h).toNodal p.2)
      = Col.smul g.wV (x.map fun p => h.toNodal p.2) :=
    fun x => map_smul_of _ _ g.wV g.wV (fun u => hl.toNodal_smul g.wV u.2) x
  have hG : (actOps g h).cosLatGrad false (s.logSurfacePressure + c • h.oneModal)
      = g.wIL • h.cosLatGrad false s.logSurfacePressure := by
    have := cosLatGrad_act (g := g) hl false 1 (s.logSurfacePressure + c • h.oneModal)
    rw [one_smul, mul_one] at this
    rw [this, cosLatGrad_add_const hl]
  unfold computeDiagnosticState
  simp only [actState, hN, hclv, hU1, hU2, hG, Prod.smul_fst, Prod.smul_snd]
  have hudg : ∀ (u w : List N) (X1 X2 : N),
      List.zipWith (fun u w => u * g.wIL • X1 * h.sec2Lat + w * g.wIL • X2 * h.sec2Lat)
          (Col.smul g.wV u) (Col.smul g.wV w)
        = Col.smul g.wF (List.zipWith (fun u w => u * X1 * h.sec2Lat + w * X2 * h.sec2Lat) u w) := by
    intro u w X1 X2
    refine zipWith_smul_of _ _ g.wV g.wV g.wF (fun a b => ?_) u w
    simp only [smul_mul_assoc, mul_smul_comm, smul_smul, il_mul_wV hg, smul_add]
  simp only [actOps] at hN hU1 hU2 ⊢
  simp only [hl.toNodal_smul, hudg, add_smul_col, cumSigmaIntegral_smul_col, sigmaDotOf_smul_col, actDiag]

end diag

end Dino.Scaling
