import Dino.Forcing
import Mathlib.Analysis.SpecialFunctions.Trigonometric.Basic
import Mathlib.Analysis.SpecialFunctions.Pow.Real
import Mathlib.Algebra.Order.Floor.Ring
import Mathlib.Algebra.BigOperators.Group.List.Basic
import Mathlib.Tactic.Ring
import Mathlib.Tactic.FieldSimp
import Mathlib.Tactic.Linarith
import Mathlib.Tactic.NormNum
import Mathlib.Tactic.Positivity

/-!
Helper lemmas for the forcing model `Dino.Forcing` (property C20): the instantiation of the
external scalar functions by the real functions of Mathlib, unfolding equations of the model at
`ℝ`, the trigonometric bound behind `|sin(altitude)| ≤ 1`, the phase wrap, and the list algebra
used by the drag theorems.
-/
namespace Dino.Forcing

/-! ## the external functions over `ℝ` -/

/-- `sin`, `cos`, `exp`, `log`, `**`, floor and `pi` of the source are the real functions -/
noncomputable instance realTransc : Transc ℝ where
  sin := Real.sin
  cos := Real.cos
  exp := Real.exp
  log := Real.log
  pow := fun x y => x ^ y
  floor := fun x => ((⌊x⌋ : ℤ) : ℝ)
  pi := Real.pi

@[simp] theorem transc_sin (x : ℝ) : Transc.sin x = Real.sin x := rfl
@[simp] theorem transc_cos (x : ℝ) : Transc.cos x = Real.cos x := rfl
@[simp] theorem transc_exp (x : ℝ) : Transc.exp x = Real.exp x := rfl
@[simp] theorem transc_log (x : ℝ) : Transc.log x = Real.log x := rfl
@[simp] theorem transc_pow (x y : ℝ) : Transc.pow x y = x ^ y := rfl
@[simp] theorem transc_floor (x : ℝ) : Transc.floor x = ((⌊x⌋ : ℤ) : ℝ) := rfl
@[simp] theorem transc_pi : (Transc.pi : ℝ) = Real.pi := rfl

/-! ## generic pieces -/

section generic

@[simp] theorem two_eq {K : Type} [Field K] : (two : K) = 2 := by
  unfold two; exact one_add_one_eq_two

theorem powN_eq_pow {K : Type} [Field K] (x : K) (n : ℕ) : powN x n = x ^ n := by
  induction n with
  | zero => simp [powN]
  | succ n ih => rw [powN, ih, pow_succ]

theorem max0_eq {K : Type} [Zero K] [LinearOrder K] (x : K) : max0 x = max 0 x := by
  unfold max0
  split
  · next h => exact (max_eq_right h.le).symm
  · next h => exact (max_eq_left (not_lt.1 h)).symm

theorem maxK_eq {K : Type} [LinearOrder K] (a b : K) : maxK a b = max a b := by
  unfold maxK
  split
  · next h => exact (max_eq_right h.le).symm
  · next h => exact (max_eq_left (not_lt.1 h)).symm

/-- `is_daytime * x` with `is_daytime = (x > 0)` is `max(0, x)` -/
theorem ind_pos_mul {K : Type} [Field K] [LinearOrder K] (x : K) :
    ind (decide (0 < x)) * x = max 0 x := by
  unfold ind
  by_cases h : 0 < x
  · simp [h, max_eq_right h.le]
  · simp [h, max_eq_left (not_lt.1 h)]

theorem cutoff_eq_max {K : Type} [Field K] [LinearOrder K] (sigma sigmaB : K) :
    cutoff sigma sigmaB = max 0 ((sigma - sigmaB) / (1 - sigmaB)) := max0_eq _

/-! ### list algebra for the drag -/

/-- the wind from `cos_lat_u`: division by `cos_lat**2`, pointwise -/
def secSq {K : Type} [Field K] (cosLats xs : List K) : List K :=
  List.zipWith (fun c x => x / powN c 2) cosLats xs

/-- multiplication of a horizontal slice by a scalar -/
def smul {K : Type} [Field K] (a : K) (xs : List K) : List K := xs.map (a * ·)

theorem smul_zero_eq {K : Type} [Field K] (xs : List K) : smul 0 xs = xs.map fun _ => 0 := by
  unfold smul; simp

theorem length_smul {K : Type} [Field K] (a : K) (xs : List K) :
    (smul a xs).length = xs.length := by
  unfold smul; simp

/-- the energy form of a slice against its own multiple -/
theorem sum_mul_smul {K : Type} [Field K] (a : K) (xs : List K) :
    (List.zipWith (· * ·) xs (smul a xs)).sum = a * (xs.map fun x => x * x).sum := by
  unfold smul
  induction xs with
  | nil => simp
  | cons x xs ih =>
    simp only [List.map_cons, List.zipWith_cons_cons, List.sum_cons, ih]
    ring

theorem sum_sq_nonneg {K : Type} [Field K] [LinearOrder K] [IsStrictOrderedRing K] (xs : List K) :
    0 ≤ (xs.map fun x => x * x).sum := by
  induction xs with
  | nil => simp
  | cons x xs ih =>
    simp only [List.map_cons, List.sum_cons]
    exact add_nonneg (mul_self_nonneg x) ih

theorem velTendency_eq_smul {K : Type} [Field K] [LinearOrder K] (kf sigmaB sigma : K)
    (cosLats xs : List K) :
    velTendency kf sigmaB sigma cosLats xs = smul (-(kv kf sigmaB sigma)) (secSq cosLats xs) := by
  unfold velTendency smul secSq
  rw [List.map_zipWith]
  congr 1
  funext c x
  unfold velTend1
  rw [mul_div_assoc]

end generic

/-! ## unfolding equations over `ℝ` -/

theorem irradiance_eq (o mean var peri : ℝ) :
    irradiance o mean var peri = mean + var * Real.cos (o - peri) := rfl

theorem declination_eq (c : OrbitConsts ℝ) (o : ℝ) :
    declination c o = c.axisInclination * Real.sin (o - c.springEquinox) := rfl

theorem equationOfTime_eq (c : OrbitConsts ℝ) (o : ℝ) :
    equationOfTime c o = 2 * Real.pi *
      (c.eotA * Real.sin (2 * (o - c.springEquinox)) - c.eotB * Real.cos (o - c.springEquinox)
        - c.eotC * Real.sin (o - c.springEquinox)) / c.minutesPerDay := by
  simp only [equationOfTime, two_eq, transc_sin, transc_cos, transc_pi]

theorem hourAngle_eq (c : OrbitConsts ℝ) (o s lon : ℝ) :
    hourAngle c o s lon = s + equationOfTime c o + lon - Real.pi := rfl

theorem sinAltitudeOf_eq (lat decl h : ℝ) :
    sinAltitudeOf lat decl h
      = Real.cos lat * Real.cos decl * Real.cos h + Real.sin lat * Real.sin decl := rfl

theorem solarSinAltitude_eq (c : OrbitConsts ℝ) (o s lon lat : ℝ) :
    solarSinAltitude c o s lon lat
      = sinAltitudeOf lat (declination c o) (hourAngle c o s lon) := rfl

theorem flux_eq (c : OrbitConsts ℝ) (o s mean var lon lat : ℝ) :
    flux c o s mean var lon lat
      = irradiance o mean var c.perihelion * max 0 (solarSinAltitude c o s lon lat) := by
  unfold flux
  simp only [mul_assoc, ind_pos_mul]

theorem wrapPhase_eq (x : ℝ) :
    wrapPhase x = x - ((⌊x / (2 * Real.pi)⌋ : ℤ) : ℝ) * (2 * Real.pi) := by
  simp only [wrapPhase, two_eq, transc_floor, transc_pi]

theorem kt_eq (ka ks sigmaB sigma lat : ℝ) :
    kt ka ks sigmaB sigma lat = ka + (ks - ka) * (cutoff sigma sigmaB * Real.cos lat ^ 4) := by
  simp only [kt, ktCoeff, powN_eq_pow, transc_cos]

theorem equilibriumTemperature_eq (P : EqParams ℝ) (sigma lat ps : ℝ) :
    equilibriumTemperature P sigma lat ps
      = max P.minT ((sigma * ps / P.p0) ^ P.kappa *
          (P.maxT - P.dTy * Real.sin lat ^ 2
            - P.dThz * Real.log (sigma * ps / P.p0) * Real.cos lat ^ 2)) := by
  simp only [equilibriumTemperature, maxK_eq, powN_eq_pow, transc_sin, transc_cos, transc_log,
    transc_pow]

/-! ## the trigonometric bound -/

/-- `|cos a cos b c + sin a sin b| ≤ 1` for `|c| ≤ 1`: a convex combination of `cos(a - b)` and
 `-cos(a + b)` -/
theorem abs_trig_combination_le_one (ca sa cb sb ch : ℝ) (ha : ca ^ 2 + sa ^ 2 = 1)
    (hb : cb ^ 2 + sb ^ 2 = 1) (h1 : -1 ≤ ch) (h2 : ch ≤ 1) :
    |ca * cb * ch + sa * sb| ≤ 1 := by
  have hP1 : ca * cb + sa * sb ≤ 1 := by nlinarith [sq_nonneg (ca - cb), sq_nonneg (sa - sb)]
  have hP2 : -1 ≤ ca * cb + sa * sb := by nlinarith [sq_nonneg (ca + cb), sq_nonneg (sa + sb)]
  have hQ1 : ca * cb - sa * sb ≤ 1 := by nlinarith [sq_nonneg (ca - cb), sq_nonneg (sa + sb)]
  have hQ2 : -1 ≤ ca * cb - sa * sb := by nlinarith [sq_nonneg (ca + cb), sq_nonneg (sa - sb)]
  rw [abs_le]
  constructor
  · nlinarith [mul_nonneg (by linarith : (0 : ℝ) ≤ 1 + ch) (by linarith : (0 : ℝ) ≤ 1 + (ca * cb + sa * sb)),
      mul_nonneg (by linarith : (0 : ℝ) ≤ 1 - ch) (by linarith : (0 : ℝ) ≤ 1 - (ca * cb - sa * sb))]
  · nlinarith [mul_nonneg (by linarith : (0 : ℝ) ≤ 1 + ch) (by linarith : (0 : ℝ) ≤ 1 - (ca * cb + sa * sb)),
      mul_nonneg (by linarith : (0 : ℝ) ≤ 1 - ch) (by linarith : (0 : ℝ) ≤ 1 + (ca * cb - sa * sb))]

/-! ## the phase wrap -/

theorem two_pi_pos : (0 : ℝ) < 2 * Real.pi := by positivity

/-- `x - floor(x / T) * T` lies in `[0, T)` and differs from `x` by an integer number of periods -/
theorem wrap_spec (T x : ℝ) (hT : 0 < T) :
    0 ≤ x - ((⌊x / T⌋ : ℤ) : ℝ) * T ∧ x - ((⌊x / T⌋ : ℤ) : ℝ) * T < T := by
  have h1 : ((⌊x / T⌋ : ℤ) : ℝ) ≤ x / T := Int.floor_le _
  have h2 : x / T < ((⌊x / T⌋ : ℤ) : ℝ) + 1 := Int.lt_floor_add_one _
  have hx : x = x / T * T := by field_simp
  constructor
  · have : ((⌊x / T⌋ : ℤ) : ℝ) * T ≤ x / T * T := mul_le_mul_of_nonneg_right h1 hT.le
    linarith
  · have : x / T * T < (((⌊x / T⌋ : ℤ) : ℝ) + 1) * T := mul_lt_mul_of_pos_right h2 hT
    linarith

end Dino.Forcing
