import DinoProofs.Lemmas.InvariantsDyn
import DinoProofs.Lemmas.Dynamics

/-!
# Shapes of the primitive-equation records — lemma layer of C11

The executable records are `List`s: `+` truncates to the shorter column and `zipTracers` keeps the
keys of the left argument, up to the length of the shorter dictionary.  `Shaped n ks s` says that the
state has `n` levels in every column and carries exactly the tracer keys `ks` (in this order), each
with `n` levels; `VertShaped eq n` that the vertical discretisation of the equation object has `n`
layers.  Under `VertShaped` the explicit terms of every class, the implicit terms and the implicit
inverse (for inverse matrices of the right size) map `Shaped n ks` into itself, as do `+`, `•` and
`State.mapLevels`.  These are the facts that make the observables of C11 (`(0,0)` coefficient of
level `i`, level `i` of a tracer) additive, and the humidity look-ups of the moist classes succeed.
-/
set_option linter.unusedSectionVars false

namespace Dino.Invariants
open Dino Dino.Dynamics

/-- the tracer keys of a state, in order -/
def keysOf {α : Type} (t : List (String × α)) : List String := t.map Prod.fst

/-- `n` levels in every column, tracer keys `ks`, `n` levels in every tracer -/
structure Shaped {M : Type} (n : ℕ) (ks : List String) (s : State M) : Prop where
  z : s.vorticity.length = n
  d : s.divergence.length = n
  t : s.temperatureVariation.length = n
  keys : keysOf s.tracers = ks
  tr : ∀ kv ∈ s.tracers, kv.2.length = n

/-- the equation object has `n ≥ 1` layers -/
structure VertShaped {K M N : Type} (eq : PrimitiveEquations K M N) (n : ℕ) : Prop where
  pos : 0 < n
  b : eq.vert.boundaries.length = n + 1
  lc : eq.vert.logCenters.length = n
  tref : eq.referenceTemperature.length = n

section dict
variable {α β : Type}

theorem keysOf_mapTracers (f : α → β) (t : List (String × α)) :
    keysOf (mapTracers f t) = keysOf t := by
  simp [keysOf, mapTracers, Function.comp_def]

theorem lookup_isSome_of_mem (name : String) :
    ∀ (t : List (String × α)), name ∈ keysOf t → (lookup name t).isSome
  | [], h => by simp [keysOf] at h
  | (k, v) :: t, h => by
    unfold lookup
    by_cases hk : k = name
    · simp [hk]
    · simp only [hk, if_false]
      apply lookup_isSome_of_mem name t
      simp only [keysOf, List.map_cons, List.mem_cons] at h
      rcases h with h | h
      · exact absurd h.symm hk
      · exact h

theorem lookup_mem {name : String} : ∀ {t : List (String × α)} {v : α},
    lookup name t = some v → (name, v) ∈ t
  | [], v, h => by simp [lookup] at h
  | (k, w) :: t, v, h => by
    unfold lookup at h
    by_cases hk : k = name
    · simp only [hk, if_true, Option.some.injEq] at h
      subst h; subst hk
      exact List.mem_cons_self
    · simp only [hk, if_false] at h
      exact List.mem_cons_of_mem _ (lookup_mem h)

theorem mem_mapTracers {f : α → β} {t : List (String × α)} {kv : String × β}
    (h : kv ∈ mapTracers f t) : ∃ v, (kv.1, v) ∈ t ∧ kv.2 = f v := by
  obtain ⟨x, hx, rfl⟩ := List.mem_map.1 h
  exact ⟨x.2, hx, rfl⟩

end dict

section zip
variable {M : Type}

theorem keysOf_zipTracers (f : List M → List M → List M) (a b : List (String × List M))
    (h : keysOf a = keysOf b) : keysOf (State.zipTracers f a b) = keysOf a := by
  unfold keysOf at h
  induction a generalizing b with
  | nil => simp [keysOf, State.zipTracers]
  | cons x a ih =>
    cases b with
    | nil => simp at h
    | cons y b =>
      simp only [List.map_cons, List.cons.injEq] at h
      simp only [keysOf, State.zipTracers, List.zipWith_cons_cons, List.map_cons, List.cons.injEq,
        true_and]
      exact ih b h.2

theorem mem_zipTracers {f : List M → List M → List M} {a b : List (String × List M)}
    {kv : String × List M} (h : kv ∈ State.zipTracers f a b) :
    ∃ x ∈ a, ∃ y ∈ b, kv.2 = f x.2 y.2 := by
  obtain ⟨x, hx, y, hy, rfl⟩ := mem_zipWith_elim h
  exact ⟨x, hx, y, hy, rfl⟩

end zip

/-! ## the record arithmetic keeps the shape -/
section arith
variable {K M : Type} [Add M] [SMul K M]

theorem Shaped.add {n : ℕ} {ks : List String} {a b : State M} (ha : Shaped n ks a)
    (hb : Shaped n ks b) : Shaped n ks (State.add a b) where
  z := by simp [State.add, Col.add, ha.z, hb.z]
  d := by simp [State.add, Col.add, ha.d, hb.d]
  t := by simp [State.add, Col.add, ha.t, hb.t]
  keys := by
    show keysOf (State.zipTracers Col.add a.tracers b.tracers) = ks
    rw [keysOf_zipTracers _ _ _ (by rw [ha.keys, hb.keys]), ha.keys]
  tr := by
    intro kv hkv
    obtain ⟨x, hx, y, hy, e⟩ := mem_zipTracers hkv
    rw [e]
    simp [Col.add, ha.tr x hx, hb.tr y hy]

theorem Shaped.mapLevels {M' : Type} {n : ℕ} {ks : List String} {a : State M} (f : M → M')
    (ha : Shaped n ks a) : Shaped n ks (State.mapLevels f a) where
  z := by simp [State.mapLevels, ha.z]
  d := by simp [State.mapLevels, ha.d]
  t := by simp [State.mapLevels, ha.t]
  keys := by
    show keysOf (mapTracers _ a.tracers) = ks
    rw [keysOf_mapTracers, ha.keys]
  tr := by
    intro kv hkv
    obtain ⟨v, hv, e⟩ := mem_mapTracers hkv
    rw [e]
    simp [ha.tr _ hv]

end arith

/-! ## the terms of the equations keep the shape -/
section terms
variable {K M N : Type} [Field K] [AddCommGroup M] [Module K M]
  [Add N] [Sub N] [Neg N] [Zero N] [Mul N] [One N] [SMul K N]
variable (eq : PrimitiveEquations K M N) {n : ℕ} {ks : List String}

@[simp] theorem col_cumsum_length' {V : Type} [Add V] [Zero V] (x : List V) :
    (Col.cumsum x).length = x.length := by
  unfold Col.cumsum
  generalize (0 : V) = acc
  induction x generalizing acc with
  | nil => rfl
  | cons a t ih => simp [Col.cumsumFrom, ih]

@[simp] theorem col_diffs_length' {V : Type} [Sub V] (x : List V) :
    (Col.diffs x).length = x.length - 1 := by
  induction x with
  | nil => rfl
  | cons a t ih =>
    cases t with
    | nil => rfl
    | cons b t => simp only [Col.diffs, List.length_cons] at ih ⊢; omega

theorem sigmaDotOf_length' (ds : List K) (f : List N) (hds : ds.length = n) (hf : f.length = n) :
    (sigmaDotOf ds f).length = n - 1 := by
  simp [sigmaDotOf, Sigma.cumsum, hds, hf]

theorem centeredAdvection_length' (ctc : List K) (w x : List N) (hn : 0 < n)
    (hc : ctc.length = n - 1) (hw : w.length = n - 1) (hx : x.length = n) :
    (Col.centeredAdvection ctc w x).length = n := by
  simp [Col.centeredAdvection, Col.mul, Col.centeredDifference, hc, hw, hx]; omega

/-- the lengths of a diagnostic state -/
structure DiagLen (aux : Diag N) (n : ℕ) (ks : List String) : Prop where
  z : aux.vorticity.length = n
  d : aux.divergence.length = n
  t : aux.temperatureVariation.length = n
  u : aux.cosLatU.1.length = n
  v : aux.cosLatU.2.length = n
  g : aux.uDotGradLogSp.length = n
  sde : aux.sigmaDotExplicit.length = n - 1
  sdf : aux.sigmaDotFull.length = n - 1
  keys : keysOf aux.tracers = ks
  tr : ∀ kv ∈ aux.tracers, kv.2.length = n

theorem diagLen (V : VertShaped eq n) {s : State M} (hs : Shaped n ks s) :
    DiagLen (computeDiagnosticState eq.ops eq.vert s) n ks := by
  have hds := vert_ds_length eq.vert n V.b
  have hu : (List.zipWith (fun z d => eq.ops.cosLatVector false z d) s.vorticity s.divergence).length
      = n := by simp [hs.z, hs.d]
  refine ⟨?_, ?_, ?_, ?_, ?_, ?_, ?_, ?_, ?_, ?_⟩
  · simp [computeDiagnosticState, hs.z]
  · simp [computeDiagnosticState, hs.d]
  · simp [computeDiagnosticState, hs.t]
  · simp [computeDiagnosticState, hs.z, hs.d]
  · simp [computeDiagnosticState, hs.z, hs.d]
  · simp [computeDiagnosticState, hs.z, hs.d]
  · apply sigmaDotOf_length' _ _ hds
    simp [Col.cumSigmaIntegral, Col.wmul, hs.z, hs.d, hds]
  · apply sigmaDotOf_length' _ _ hds
    simp [Col.cumSigmaIntegral, Col.wmul, Col.add, hs.z, hs.d, hds]
  · show keysOf (mapTracers _ s.tracers) = ks
    rw [keysOf_mapTracers, hs.keys]
  · intro kv hkv
    obtain ⟨v, hv, e⟩ := mem_mapTracers hkv
    rw [e]; simp [hs.tr _ hv]

/-! ### the dry terms -/

theorem vertTend_length (V : VertShaped eq n) {w x : List N} (hw : w.length = n - 1)
    (hx : x.length = n) : (eq.verticalTendency w x).length = n :=
  centeredAdvection_length' _ _ _ V.pos (vert_ctc_length eq.vert n V.b) hw hx

theorem curlAndDivWith_length (V : VertShaped eq n) {aux : Diag N} (A : DiagLen aux n ks)
    {rT : List N} (hr : rT.length = n) :
    (eq.curlAndDivTendenciesWith aux rT).1.length = n ∧
    (eq.curlAndDivTendenciesWith aux rT).2.length = n := by
  have hU : (if eq.includeVerticalAdvection = true
      then Col.neg (eq.verticalTendency aux.sigmaDotFull aux.cosLatU.1)
      else Col.zerosLike aux.cosLatU.1 : List N).length = n := by
    split
    · simp [Col.neg, vertTend_length eq V A.sdf A.u]
    · simp [Col.zerosLike, A.u]
  have hV : (if eq.includeVerticalAdvection = true
      then Col.neg (eq.verticalTendency aux.sigmaDotFull aux.cosLatU.2)
      else Col.zerosLike aux.cosLatU.2 : List N).length = n := by
    split
    · simp [Col.neg, vertTend_length eq V A.sdf A.v]
    · simp [Col.zerosLike, A.v]
  unfold PrimitiveEquations.curlAndDivTendenciesWith
  simp only []
  generalize (if eq.includeVerticalAdvection = true
      then Col.neg (eq.verticalTendency aux.sigmaDotFull aux.cosLatU.1)
      else Col.zerosLike aux.cosLatU.1 : List N) = sdU at hU
  generalize (if eq.includeVerticalAdvection = true
      then Col.neg (eq.verticalTendency aux.sigmaDotFull aux.cosLatU.2)
      else Col.zerosLike aux.cosLatU.2 : List N) = sdV at hV
  simp [Col.add, A.z, A.u, A.v, hr, hU, hV]

theorem kineticEnergy_length {aux : Diag N} (A : DiagLen aux n ks) :
    (eq.kineticEnergyTendency aux).length = n := by
  simp [PrimitiveEquations.kineticEnergyTendency, A.u, A.v]

theorem hsa_length {aux : Diag N} (A : DiagLen aux n ks) {x : List N} (hx : x.length = n) :
    (eq.horizontalScalarAdvection x aux).1.length = n ∧
    (eq.horizontalScalarAdvection x aux).2.length = n := by
  simp [PrimitiveEquations.horizontalScalarAdvection, Col.mul, A.u, A.v, A.d, hx]

theorem tOmega_length (V : VertShaped eq n) {T g v : List N} (hT : T.length = n)
    (hg : g.length = n) (hv : v.length = n) : (eq.tOmegaOverSigmaSp T g v).length = n := by
  have hds := vert_ds_length eq.vert n V.b
  have hal := vert_alpha_length eq.vert n V.lc
  have := V.pos
  simp [PrimitiveEquations.tOmegaOverSigmaSp, Col.mul, Col.sub, Col.add, Col.wmul,
    Col.cumSigmaIntegral, hds, hal, hT, hg, hv]

theorem tRef_length (V : VertShaped eq n) : (eq.tRef : List N).length = n := by
  simp [PrimitiveEquations.tRef, V.tref]

theorem adiabatic_length (V : VertShaped eq n) {aux : Diag N} (A : DiagLen aux n ks) :
    (eq.nodalTemperatureAdiabaticTendency aux).length = n := by
  unfold PrimitiveEquations.nodalTemperatureAdiabaticTendency
  simp only [Col.smul, Col.add, List.length_map, List.length_zipWith]
  rw [tOmega_length eq V (tRef_length eq V) A.g A.g,
    tOmega_length eq V A.t (by simp [A.g, A.d]) A.g]
  simp

theorem tempVertical_length [BEq K] (V : VertShaped eq n) {aux : Diag N} (A : DiagLen aux n ks) :
    (eq.nodalTemperatureVerticalTendency aux).length = n := by
  have h1 : (if eq.includeVerticalAdvection = true
      then eq.verticalTendency aux.sigmaDotFull aux.temperatureVariation
      else Col.zerosLike aux.temperatureVariation : List N).length = n := by
    split
    · exact vertTend_length eq V A.sdf A.t
    · simp [Col.zerosLike, A.t]
  unfold PrimitiveEquations.nodalTemperatureVerticalTendency
  simp only []
  split
  · simp [Col.add, h1, vertTend_length eq V A.sde (tRef_length eq V)]
  · exact h1

theorem tracerTendency_length (V : VertShaped eq n) {aux : Diag N} (A : DiagLen aux n ks)
    {x : List N} (hx : x.length = n) : (eq.tracerTendency aux x).length = n := by
  have h1 : (if eq.includeVerticalAdvection = true then eq.verticalTendency aux.sigmaDotFull x
      else Col.zerosLike x : List N).length = n := by
    split
    · exact vertTend_length eq V A.sdf hx
    · simp [Col.zerosLike, hx]
  unfold PrimitiveEquations.tracerTendency
  simp only [Col.add, List.length_zipWith, List.length_map, h1, (hsa_length eq A hx).1,
    (hsa_length eq A hx).2]
  simp

theorem thermo_length [BEq K] (V : VertShaped eq n) {aux : Diag N} (A : DiagLen aux n ks)
    {ad : List N} (had : ad.length = n) :
    (eq.thermoTendencies aux ad).1.length = n ∧
    keysOf (eq.thermoTendencies aux ad).2.2 = ks ∧
    ∀ kv ∈ (eq.thermoTendencies aux ad).2.2, kv.2.length = n := by
  unfold PrimitiveEquations.thermoTendencies
  refine ⟨?_, ?_, ?_⟩
  · simp only [Col.add, List.length_zipWith, List.length_map, (hsa_length eq A A.t).1,
      (hsa_length eq A A.t).2, tempVertical_length eq V A, had]
    simp
  · show keysOf (mapTracers _ aux.tracers) = ks
    rw [keysOf_mapTracers, A.keys]
  · intro kv hkv
    obtain ⟨v, hv, e⟩ := mem_mapTracers hkv
    rw [e]
    exact tracerTendency_length eq V A (A.tr _ hv)

theorem clipState_shaped {s : State M} (hs : Shaped n ks s) : Shaped n ks (eq.clipState s) :=
  hs.mapLevels eq.ops.clip

/-- **shape of the dry explicit terms** -/
theorem explicitTerms_shaped [BEq K] (V : VertShaped eq n) {s : State M} (hs : Shaped n ks s) :
    Shaped n ks (eq.explicitTerms s) := by
  have A := diagLen eq V hs
  unfold PrimitiveEquations.explicitTerms
  apply clipState_shaped
  have hcd := curlAndDivWith_length eq V A
    (rT := Col.smul eq.phys.R (computeDiagnosticState eq.ops eq.vert s).temperatureVariation)
    (by simp [Col.smul, A.t])
  have hth := thermo_length eq V A (adiabatic_length eq V A)
  exact ⟨hcd.1, by
    simp only [Col.addLevel, Col.add, List.length_map, List.length_zipWith,
      PrimitiveEquations.curlAndDivTendencies, hcd.2, kineticEnergy_length eq A]
    simp, hth.1, hth.2.1, hth.2.2⟩

/-- **shape of the implicit terms** -/
theorem implicitTerms_shaped (V : VertShaped eq n) {s : State M} (hs : Shaped n ks s) :
    Shaped n ks (eq.implicitTerms s) := by
  have hds := vert_ds_length eq.vert n V.b
  have hal := vert_alpha_length eq.vert n V.lc
  unfold PrimitiveEquations.implicitTerms
  refine ⟨by simp [Col.zerosLike, hs.z], ?_, ?_, ?_, ?_⟩
  · simp [Col.add, PrimitiveEquations.geopotentialDiff, Col.matvec, hal, V.tref]
  · simp [PrimitiveEquations.temperatureImplicit, Col.matvec, Implicit.negMat,
      PrimitiveEquations.temperatureImplicitWeights, Implicit.hMatrix, hds]
  · show keysOf (mapTracers _ s.tracers) = ks
    rw [keysOf_mapTracers, hs.keys]
  · intro kv hkv
    obtain ⟨v, hv, e⟩ := mem_mapTracers hkv
    rw [e]; simp [Col.zerosLike, hs.tr _ hv]

theorem foldl_col_add_length {V : Type} [Add V] (r : ℕ) :
    ∀ (ls : List (List V)) (acc : List V), (∀ l ∈ ls, l.length = r) → acc.length = r →
      (ls.foldl Col.add acc).length = r := by
  intro ls
  induction ls with
  | nil => intro acc _ h; simpa using h
  | cons l ls ih =>
    intro acc h hacc
    simp only [List.foldl_cons]
    apply ih _ (fun l' hl' => h l' (List.mem_cons_of_mem _ hl'))
    simp [Col.add, hacc, h l List.mem_cons_self]

theorem matvecPerWavenumber_length (a : ℕ → List (List K)) (rows : ℕ) (x : List M)
    (ha : ∀ l < eq.ops.nL, (a l).length = rows) : (eq.matvecPerWavenumber a rows x).length = rows := by
  unfold PrimitiveEquations.matvecPerWavenumber
  apply foldl_col_add_length
  · intro l hl
    obtain ⟨i, hi, rfl⟩ := List.mem_map.1 hl
    simp [Col.matvec, ha i (List.mem_range.1 hi)]
  · simp [Col.zeros]

theorem block_length (m : List (List K)) (r0 nr c0 nc : ℕ) (h : r0 + nr ≤ m.length) :
    (Implicit.block m r0 nr c0 nc).length = nr := by
  simp [Implicit.block]; omega

/-- **shape of the implicit inverse**, for inverse matrices with at least `2n + 1` rows -/
theorem implicitInverse_shaped (V : VertShaped eq n) (inv : ℕ → List (List K))
    (hinv : ∀ l < eq.ops.nL, 2 * n + 1 ≤ (inv l).length) {s : State M} (hs : Shaped n ks s) :
    Shaped n ks (eq.implicitInverse inv s) := by
  have hl : eq.vert.layers = n := vert_ds_length eq.vert n V.b
  have mv : ∀ (r0 c0 nc : ℕ) (x : List M), r0 + n ≤ 2 * n + 1 →
      (eq.matvecPerWavenumber (fun l => Implicit.block (inv l) r0 n c0 nc) n x).length = n := by
    intro r0 c0 nc x hr
    apply matvecPerWavenumber_length
    intro l hl'
    exact block_length _ _ _ _ _ (by have := hinv l hl'; omega)
  unfold PrimitiveEquations.implicitInverse
  simp only [hl]
  refine ⟨hs.z, ?_, ?_, hs.keys, hs.tr⟩
  · simp [Col.add, mv 0 _ _ _ (by omega)]
  · simp [Col.add, mv n _ _ _ (by omega)]

end terms

/-! ### the moist classes: the humidity look-ups succeed on shaped states -/
section moist
variable {K M N : Type} [Field K] [AddCommGroup M] [Module K M]
  [Add N] [Sub N] [Neg N] [Zero N] [Mul N] [One N] [SMul K N] [Div N]
variable (eq : PrimitiveEquations K M N) {n : ℕ} {ks : List String}

theorem lookup_of_keys {α : Type} {name : String} {t : List (String × List α)}
    (hk : name ∈ keysOf t) (hl : ∀ kv ∈ t, kv.2.length = n) :
    ∃ v, lookup name t = some v ∧ v.length = n := by
  obtain ⟨v, hv⟩ := Option.isSome_iff_exists.1 (lookup_isSome_of_mem name t hk)
  exact ⟨v, hv, hl _ (lookup_mem hv)⟩

/-- the tracer keys a class looks up: `specific_humidity` for `MoistPrimitiveEquations`, the two
 condensate keys in addition for `MoistPrimitiveEquationsWithCloudMoisture` -/
def NeedsKeys : Cls → List String → Prop
  | .dry, _ => True
  | .time, _ => True
  | .moist, ks => specificHumidityKey ∈ ks
  | .cloud, ks => specificHumidityKey ∈ ks ∧ cloudWaterKey ∈ ks ∧ cloudIceKey ∈ ks

/-- a `_virtual_temperature` method that succeeds on shaped input -/
def VtOk (vt : Diag N → List N → Option (List N)) (n : ℕ) (ks : List String) : Prop :=
  ∀ aux mc, DiagLen aux n ks → mc.length = n → ∃ r, vt aux mc = some r ∧ r.length = n

theorem virtualTemperature_ok : VtOk (MoistPrimitiveEquations.virtualTemperature eq) n ks := by
  intro aux mc A hmc
  exact ⟨_, rfl, by simp [A.t, hmc]⟩

theorem virtualTemperatureWithClouds_ok (hl : cloudWaterKey ∈ ks) (hi : cloudIceKey ∈ ks) :
    VtOk (MoistPrimitiveEquations.virtualTemperatureWithClouds eq) n ks := by
  intro aux mc A hmc
  obtain ⟨ql, h1, h1'⟩ := lookup_of_keys (n := n) (by rw [A.keys]; exact hl) A.tr
  obtain ⟨qi, h2, h2'⟩ := lookup_of_keys (n := n) (by rw [A.keys]; exact hi) A.tr
  refine ⟨_, by simp only [MoistPrimitiveEquations.virtualTemperatureWithClouds, h1, h2, bind,
    Option.bind_some, pure]; rfl, ?_⟩
  simp [Col.sub, A.t, hmc, h1', h2']

/-- **the moist explicit terms are defined on shaped states carrying the humidity key, and keep
 the shape** -/
theorem moist_explicitTermsWith_shaped [BEq K] (V : VertShaped eq n)
    (vt : Diag N → List N → Option (List N)) (hvt : VtOk vt n ks) (hq : specificHumidityKey ∈ ks)
    {s : StateWithTime K M} (hs : Shaped n ks s.state) :
    ∃ r, MoistPrimitiveEquations.explicitTermsWith eq vt s = some r ∧ Shaped n ks r.state := by
  have A := diagLen eq V hs
  have hal := vert_alpha_length eq.vert n V.lc
  obtain ⟨q, hq1, hq2⟩ := lookup_of_keys (n := n) (by rw [A.keys]; exact hq) A.tr
  obtain ⟨qm, hm1, hm2⟩ := lookup_of_keys (n := n) (by rw [hs.keys]; exact hq) hs.tr
  obtain ⟨rTv, hr1, hr2⟩ := hvt _ (Col.smul (eq.phys.Rvapor / eq.phys.R - 1) q) A
    (by simp [Col.smul, hq2])
  have hcd := curlAndDivWith_length eq V A hr2
  have htr := tRef_length (N := N) eq V
  -- the five `Option`-valued parts
  have e1 : MoistPrimitiveEquations.curlAndDivTendencies eq vt
      (computeDiagnosticState eq.ops eq.vert s.state) = some (eq.curlAndDivTendenciesWith
        (computeDiagnosticState eq.ops eq.vert s.state) rTv) := by
    simp only [MoistPrimitiveEquations.curlAndDivTendencies,
      MoistPrimitiveEquations.getSpecificHumidity, hq1, hr1, bind, Option.bind_some, pure]
  obtain ⟨hv, e2, hv'⟩ : ∃ r, MoistPrimitiveEquations.vorticityTendencyDueToHumidity eq s.state
      (computeDiagnosticState eq.ops eq.vert s.state) = some r ∧ r.length = n := by
    refine ⟨_, by simp only [MoistPrimitiveEquations.vorticityTendencyDueToHumidity,
      MoistPrimitiveEquations.getSpecificHumidity, hm1, bind, Option.bind_some, pure]; rfl, ?_⟩
    simp [MoistPrimitiveEquations.nodalCosLatGradQ, htr, hm2]
  obtain ⟨hd, e3, hd'⟩ : ∃ r, MoistPrimitiveEquations.divergenceTendencyDueToHumidity eq s.state
      (computeDiagnosticState eq.ops eq.vert s.state) = some r ∧ r.length = n := by
    refine ⟨_, by simp only [MoistPrimitiveEquations.divergenceTendencyDueToHumidity,
      MoistPrimitiveEquations.getSpecificHumidity, hq1, hm1, bind, Option.bind_some, pure]; rfl, ?_⟩
    simp [MoistPrimitiveEquations.nodalCosLatGradQ, PrimitiveEquations.geopotentialDiff, Col.matvec,
      Col.add, htr, hm2, hq2, hal]
  obtain ⟨ad, e4, ad'⟩ : ∃ r, MoistPrimitiveEquations.nodalTemperatureAdiabaticTendency eq
      (computeDiagnosticState eq.ops eq.vert s.state) = some r ∧ r.length = n := by
    refine ⟨_, by simp only [MoistPrimitiveEquations.nodalTemperatureAdiabaticTendency,
      MoistPrimitiveEquations.getSpecificHumidity, hq1, bind, Option.bind_some, pure]; rfl, ?_⟩
    simp only [Col.smul, Col.add, List.length_map, List.length_zipWith]
    rw [tOmega_length eq V htr A.g A.g,
      tOmega_length eq V (by simp [A.t, hq2, htr]) (by simp [A.g, A.d]) A.g]
    simp
  have hth := thermo_length eq V A ad'
  refine ⟨_, by simp only [MoistPrimitiveEquations.explicitTermsWith, e1, e2, e3, e4, bind,
    Option.bind_some, pure]; rfl, ?_⟩
  apply clipState_shaped
  exact ⟨by simp [Col.add, hcd.1, hv'], by
    simp only [Col.addLevel, Col.add, List.length_map, List.length_zipWith, hcd.2,
      kineticEnergy_length eq A, hd']
    simp, hth.1, hth.2.1, hth.2.2⟩

end moist

end Dino.Invariants
