import DinoProofs.Lemmas.DynamicsInst
import DinoProofs.Lemmas.DynamicsMasked
import DinoProofs.Lemmas.InvariantsDyn
import DinoProofs.Lemmas.InvariantsMean
import DinoProofs.Lemmas.Balance
import DinoProofs.Lemmas.ScalingDyn
import DinoProofs.Lemmas.ScalingInv

/-!
# The structural laws of the concrete instance `gridOps`: law packages, mask closure, `(0,0)` mode

Everything here is proved for all sizes, both modal layouts and every padding, from the *shape* of the data
(`GridData.WF`) and, for the mask statements, from structural zeros (`GridData.MaskOk`: the recurrence weight
`a` vanishes outside the mask and on the diagonal `l = |m|` — for the model's `weightA` this is `sqrt 0 = 0` —
and `to_modal` returns masked arrays — for the model's transforms this is C01's structural zeros of the
Legendre table).  No quadrature / orthogonality fact is used.

* law packages of the abstract theorems that are now THEOREMS of the instance: `linLaws` (C05 `LinLaws`),
  `opsLaws` (C12 `OpsLaws`), `projLaws` (C12 `ProjLaws`), `mode0` / `mean0` (C11 `Mode0`, `Mean0`),
  `opsClosed_loose` (C11 `OpsClosed`, every layout), `opsClosed_masked`, `maskClosed` (C04 `MaskClosed`,
  layouts without padding columns).
* **what fails**: on a layout with padding columns the two latitude derivatives of a masked (unclipped)
  array are NOT masked: column `L` receives `−(L−1)·b[m, L−1]·x[m, L−1]` resp. `−(L+1)·b[m, L−1]·x[m, L−1]`
  (`cosLatDDlat_padding_column`, `secLat_padding_column`; the padding column characterised in C09).  What holds
  instead: the derivatives preserve `Loose` (zero on masked-out rows and below the diagonal, no condition on
  the columns `l ≥ L`), and `clip` maps `Loose` into `Clipped`; so `OpsClosed (Loose, Clipped)` holds on
  every layout, and `Loose = Masked` when there is no padding column.
-/
set_option linter.unusedSectionVars false
set_option linter.unusedSimpArgs false
set_option linter.unusedVariables false

namespace Dino.Grid.Layout

/-- the partner row of the longitude derivative (`cos ↔ sin` of the same zonal wavenumber) -/
def partner (ly : Layout) (i : Nat) : Nat :=
  if (if ly.fast then i % 2 = 0 else i % 2 = 1) then i + 1 else i - 1

/-- row `i` carries data (always for the real layout; `i ≠ 1`, `i < 2M` for the fast layout) -/
def rowOk (ly : Layout) (i : Nat) : Prop := ly.fast = true → i ≠ 1 ∧ i < 2 * ly.M

/-- the mask without the condition on the padding columns: row carries data and `|m| ≤ l` wherever `l < L` -/
def looseAt (ly : Layout) (i j : Nat) : Prop := ly.rowOk i ∧ (j < ly.L → ly.mAbs i ≤ j)

theorem lval_le (ly : Layout) (j : Nat) : ly.lval j ≤ j := by
  unfold lval; split <;> omega

theorem maskAt_true_iff (ly : Layout) (i j : Nat) : ly.maskAt i j = true ↔ ly.looseAt i j ∧ j < ly.L := by
  rw [maskAt_iff]
  unfold looseAt rowOk
  constructor
  · rintro ⟨h1, h2, h3⟩
    rw [ly.lval_of_lt j h3] at h1
    exact ⟨⟨h2, fun _ => h1⟩, h3⟩
  · rintro ⟨⟨h2, h1⟩, h3⟩
    rw [ly.lval_of_lt j h3]
    exact ⟨h1 h3, h2, h3⟩

theorem maskAt_false_iff (ly : Layout) (i j : Nat) : ly.maskAt i j = false ↔ ¬ (ly.looseAt i j ∧ j < ly.L) := by
  rw [← maskAt_true_iff, Bool.not_eq_true]

/-- the partner row has the same `|m|` and carries data iff the row does, whenever the derivative does not
 vanish on the row anyway (`freq i ≠ 0`) -/
theorem partner_facts (ly : Layout) (i : Nat) (hf : ly.freq i ≠ 0) :
    ly.mAbs (ly.partner i) = ly.mAbs i ∧ (ly.rowOk (ly.partner i) ↔ ly.rowOk i) := by
  unfold partner rowOk mAbs
  unfold freq at hf
  cases hfast : ly.fast
  · simp only [hfast, Bool.false_eq_true, if_false] at hf ⊢
    refine ⟨?_, by simp⟩
    by_cases hp : i % 2 = 1
    · rw [if_pos hp]; omega
    · rw [if_neg hp]; omega
  · simp only [hfast, if_true] at hf ⊢
    by_cases hp : i % 2 = 0
    · rw [if_pos hp]
      refine ⟨?_, ?_⟩
      · by_cases h : i < 2 * ly.M
        · rw [if_pos (by omega), if_pos h]; omega
        · rw [if_neg (by omega), if_neg h]
      · constructor <;> (intro h _; have := h trivial; omega)
    · rw [if_neg hp]
      refine ⟨?_, ?_⟩
      · by_cases h : i < 2 * ly.M
        · rw [if_pos (by omega), if_pos h]; omega
        · rw [if_neg (by omega), if_neg h]
      · constructor <;> (intro h _; have := h trivial; omega)

theorem looseAt_partner (ly : Layout) (i j : Nat) (hf : ly.freq i ≠ 0) :
    ly.looseAt (ly.partner i) j ↔ ly.looseAt i j := by
  obtain ⟨h1, h2⟩ := ly.partner_facts i hf
  unfold looseAt
  rw [h1, h2]

theorem maskAt_partner (ly : Layout) (i j : Nat) (hf : ly.freq i ≠ 0) :
    ly.maskAt (ly.partner i) j = false ↔ ly.maskAt i j = false := by
  rw [maskAt_false_iff, maskAt_false_iff, ly.looseAt_partner i j hf]

end Dino.Grid.Layout

namespace Dino.DynamicsInst
open Dino Dino.Dynamics Dino.Grid Dino.SH Dino.Lin Dino.Invariants Dino.Balance Dino.Scaling

/-! ## zero-pattern submodules -/
section zeroSub
variable {K : Type} [Field K] {R C : Nat}

/-- the arrays that vanish wherever `P` holds -/
def zeroSub (P : Nat → Nat → Prop) : Submodule K (Mat R C K) where
  carrier := {x | ∀ (i : Fin R) (j : Fin C), P i.val j.val → x i j = 0}
  add_mem' := by
    intro a b ha hb i j h
    show a i j + b i j = 0
    rw [ha i j h, hb i j h, add_zero]
  zero_mem' := by intro i j _; rfl
  smul_mem' := by
    intro c x hx i j h
    show c • x i j = 0
    rw [hx i j h, smul_zero]

theorem mem_zeroSub (P : Nat → Nat → Prop) (x : Mat R C K) :
    x ∈ (zeroSub P : Submodule K (Mat R C K)) ↔ ∀ (i : Fin R) (j : Fin C), P i.val j.val → x i j = 0 := Iff.rfl

theorem ext0_of_mem {P : Nat → Nat → Prop} {x : Mat R C K} (hx : x ∈ (zeroSub P : Submodule K (Mat R C K)))
    (a b : Nat) (h : P a b) : ext0 x a b = 0 := by
  unfold ext0
  split
  · rename_i hab
    exact hx ⟨a, hab.1⟩ ⟨b, hab.2⟩ h
  · rfl

theorem zeroSub_mono {P Q : Nat → Nat → Prop} (h : ∀ i j, Q i j → P i j) {x : Mat R C K}
    (hx : x ∈ (zeroSub P : Submodule K (Mat R C K))) : x ∈ (zeroSub Q : Submodule K (Mat R C K)) :=
  fun i j hq => hx i j (h _ _ hq)

end zeroSub

section mask
variable {K : Type} [Field K] (g : GridData K)

/-- the MASKED coefficient arrays: zero wherever `Grid.mask` is false (triangle `l < |m|`, the `−0` row and
 the padding rows of the fast layout, the padding columns) -/
def Masked : Submodule K g.Modal := zeroSub fun i j => g.ly.maskAt i j = false

/-- masked, without the condition on the columns `l ≥ L` -/
def Loose : Submodule K g.Modal := zeroSub fun i j => ¬ g.ly.looseAt i j

/-- masked, and the top total wavenumber `L − 1` (with the padding) clipped: the submodule `S` of C11 -/
def Clipped : Submodule K g.Modal := zeroSub fun i j => g.ly.maskAt i j = false ∨ g.ly.L ≤ j + 1

/-- structural zeros of the data, and a non-empty grid -/
structure GridData.MaskOk : Prop where
  L_pos : 0 < g.ly.L
  M_pos : 0 < g.ly.M
  /-- `a[m, l] = 0` outside the mask and on the diagonal `l = |m|` (`sqrt 0 = 0` for the model's weights) -/
  a_zero : ∀ i j, (g.ly.maskAt i j = false ∨ j = g.ly.mAbs i) → ent2 g.a i j = 0
  /-- `to_modal` returns masked arrays (structural zeros of the Legendre / Fourier tables) -/
  toModal_masked : ∀ z, IsMat z g.nlon g.nlat → ∀ i j, g.ly.maskAt i j = false → ent2 (g.T.toModal z) i j = 0

variable {g}

theorem clipped_le_masked {x : g.Modal} (hx : x ∈ Clipped g) : x ∈ Masked g :=
  zeroSub_mono (fun _ _ h => Or.inl h) hx

theorem masked_le_loose {x : g.Modal} (hx : x ∈ Masked g) : x ∈ Loose g :=
  zeroSub_mono (fun i j h => (g.ly.maskAt_false_iff i j).2 (fun h' => h h'.1)) hx

/-- without padding columns the two readings of the mask coincide -/
theorem loose_le_masked (hpad : g.ly.padCols = 0) {x : g.Modal} (hx : x ∈ Loose g) : x ∈ Masked g := by
  intro i j h
  apply hx i j
  intro hl
  have hj : j.val < g.ly.L := by
    have := j.isLt
    simp only [Layout.cols, hpad] at this
    omega
  exact (g.ly.maskAt_false_iff i j).1 h ⟨hl, hj⟩

/-! ### diagonal operators keep every zero pattern -/

theorem laplacian_zeroSub (P : Nat → Nat → Prop) {x : g.Modal} (hx : x ∈ (zeroSub P : Submodule K g.Modal)) :
    (gridOps g).laplacian x ∈ (zeroSub P : Submodule K g.Modal) := by
  intro i j h
  rw [laplacian_apply, hx i j h, zero_mul]

theorem inverseLaplacian_zeroSub (P : Nat → Nat → Prop) {x : g.Modal}
    (hx : x ∈ (zeroSub P : Submodule K g.Modal)) :
    (gridOps g).inverseLaplacian x ∈ (zeroSub P : Submodule K g.Modal) := by
  intro i j h
  rw [inverseLaplacian_apply, hx i j h, zero_mul]

theorem clip_zeroSub (P : Nat → Nat → Prop) {x : g.Modal} (hx : x ∈ (zeroSub P : Submodule K g.Modal)) :
    (gridOps g).clip x ∈ (zeroSub P : Submodule K g.Modal) := by
  intro i j h
  rw [clip_apply, hx i j h]
  split <;> rfl

theorem lproj_zeroSub (P : Nat → Nat → Prop) (l : Nat) {x : g.Modal}
    (hx : x ∈ (zeroSub P : Submodule K g.Modal)) :
    (gridOps g).lproj l x ∈ (zeroSub P : Submodule K g.Modal) := by
  intro i j h
  rw [lproj_apply, hx i j h]
  split <;> rfl

/-- `clip_wavenumbers` maps loosely masked arrays into `Clipped` (it zeroes the padding columns as well) -/
theorem clip_loose_clipped {x : g.Modal} (hx : x ∈ Loose g) : (gridOps g).clip x ∈ Clipped g := by
  intro i j h
  rw [clip_apply]
  split
  · rename_i hj
    rcases h with h | h
    · apply hx i j
      intro hl
      exact (g.ly.maskAt_false_iff i j).1 h ⟨hl, by omega⟩
    · omega
  · rfl

/-! ### the longitude derivative -/

theorem dDlon_eq_zero (x : g.Modal) (i : Fin g.ly.rows) (j : Fin g.ly.cols)
    (h : g.ly.freq i.val = 0 ∨ ext0 x (g.ly.partner i.val) j.val = 0) : (gridOps g).dDlon x i j = 0 := by
  rw [dDlon_apply]
  unfold Layout.partner at h
  by_cases hp : (if g.ly.fast then i.val % 2 = 0 else i.val % 2 = 1)
  · simp only [if_pos hp] at h ⊢
    rcases h with h | h
    · rw [h]; simp
    · rw [h, mul_zero]
  · simp only [if_neg hp] at h ⊢
    rcases h with h | h
    · rw [h]; simp
    · rw [h, mul_zero, neg_zero]

/-- `∂_λ` keeps every zero pattern that is the same on the two rows of a zonal wavenumber -/
theorem dDlon_zeroSub (P : Nat → Nat → Prop)
    (hP : ∀ i j, g.ly.freq i ≠ 0 → P i j → P (g.ly.partner i) j) {x : g.Modal}
    (hx : x ∈ (zeroSub P : Submodule K g.Modal)) : (gridOps g).dDlon x ∈ (zeroSub P : Submodule K g.Modal) := by
  intro i j h
  apply dDlon_eq_zero
  by_cases hf : g.ly.freq i.val = 0
  · exact Or.inl hf
  · exact Or.inr (ext0_of_mem hx _ _ (hP _ _ hf h))

theorem dDlon_masked {x : g.Modal} (hx : x ∈ Masked g) : (gridOps g).dDlon x ∈ Masked g :=
  dDlon_zeroSub _ (fun i j hf h => (g.ly.maskAt_partner i j hf).2 h) hx

theorem dDlon_loose {x : g.Modal} (hx : x ∈ Loose g) : (gridOps g).dDlon x ∈ Loose g :=
  dDlon_zeroSub _ (fun i j hf h h' => h ((g.ly.looseAt_partner i j hf).1 h')) hx

theorem dDlon_clipped {x : g.Modal} (hx : x ∈ Clipped g) : (gridOps g).dDlon x ∈ Clipped g :=
  dDlon_zeroSub _ (fun i j hf h => h.imp (fun h => (g.ly.maskAt_partner i j hf).2 h) id) hx

/-! ### the latitude derivatives -/

/-- the two neighbours that the latitude stencil reads at an entry outside the loose mask contribute nothing:
 the upper one is killed by `a`, the lower one is itself outside the loose mask -/
theorem stencil_zero (Mo : g.MaskOk) {x : g.Modal} (hx : x ∈ Loose g) (i j : Nat) (h : ¬ g.ly.looseAt i j) :
    (ent2 g.a i (j + 1) = 0 ∨ ext0 x i (j + 1) = 0) ∧ (j ≠ 0 → ext0 x i (j - 1) = 0) := by
  unfold Layout.looseAt at h
  by_cases hr : g.ly.rowOk i
  · have hj : j < g.ly.L ∧ j < g.ly.mAbs i := by
      by_contra hc
      apply h
      exact ⟨hr, fun hl => by omega⟩
    constructor
    · left
      apply Mo.a_zero
      by_cases he : j + 1 = g.ly.mAbs i
      · exact Or.inr he
      · left
        rw [Layout.maskAt_false_iff]
        rintro ⟨⟨_, hl⟩, hL⟩
        have := hl hL
        omega
    · intro hj0
      apply ext0_of_mem hx
      rintro ⟨_, hl⟩
      have := hl (by omega)
      omega
  · constructor
    · right
      exact ext0_of_mem hx _ _ (fun hl => hr hl.1)
    · intro _
      exact ext0_of_mem hx _ _ (fun hl => hr hl.1)

/-- **`cos_lat_d_dlat` preserves the loose mask** (every layout, any padding) -/
theorem cosLatDDlat_loose (W : g.WF) (Mo : g.MaskOk) {x : g.Modal} (hx : x ∈ Loose g) :
    (gridOps g).cosLatDDlat x ∈ Loose g := by
  intro i j h
  obtain ⟨h1, h2⟩ := stencil_zero Mo hx i.val j.val h
  rw [cosLatDDlat_apply W]
  have e1 : ∀ c : K, c * ent2 g.a i.val (j.val + 1) * ext0 x i.val (j.val + 1) = 0 := by
    intro c; rcases h1 with h1 | h1 <;> rw [h1] <;> ring
  rw [e1, zero_add]
  split
  · rfl
  · rename_i hj; rw [h2 hj, mul_zero]

/-- **`sec_lat_d_dlat_cos2` preserves the loose mask** (every layout, any padding) -/
theorem secLat_loose (W : g.WF) (Mo : g.MaskOk) {x : g.Modal} (hx : x ∈ Loose g) :
    (gridOps g).secLatDDlatCos2 x ∈ Loose g := by
  intro i j h
  obtain ⟨h1, h2⟩ := stencil_zero Mo hx i.val j.val h
  rw [secLatDDlatCos2_apply W]
  have e1 : ∀ c : K, c * ent2 g.a i.val (j.val + 1) * ext0 x i.val (j.val + 1) = 0 := by
    intro c; rcases h1 with h1 | h1 <;> rw [h1] <;> ring
  rw [e1, zero_add]
  split
  · rfl
  · rename_i hj; rw [h2 hj, mul_zero]

/-- … hence the masked arrays are preserved when there is no padding column -/
theorem cosLatDDlat_masked (W : g.WF) (Mo : g.MaskOk) (hpad : g.ly.padCols = 0) {x : g.Modal}
    (hx : x ∈ Masked g) : (gridOps g).cosLatDDlat x ∈ Masked g :=
  loose_le_masked hpad (cosLatDDlat_loose W Mo (masked_le_loose hx))

theorem secLat_masked (W : g.WF) (Mo : g.MaskOk) (hpad : g.ly.padCols = 0) {x : g.Modal}
    (hx : x ∈ Masked g) : (gridOps g).secLatDDlatCos2 x ∈ Masked g :=
  loose_le_masked hpad (secLat_loose W Mo (masked_le_loose hx))

/-- **the padding column `L`** (layouts with padding columns): for a masked `x` the entry of `cos_lat_d_dlat x`
 in column `L`, which lies outside the mask, is `−(L−1)·b[m, L−1]·x[m, L−1]` — not zero unless `x` is clipped -/
theorem cosLatDDlat_padding_column (W : g.WF) {x : g.Modal} (hx : x ∈ Masked g) (i : Fin g.ly.rows)
    (j : Fin g.ly.cols) (hj : j.val = g.ly.L) (hL : 0 < g.ly.L) :
    (gridOps g).cosLatDDlat x i j
      = -((g.ly.L - 1 : Nat) : K) * ent2 g.b i.val (g.ly.L - 1) * ext0 x i.val (g.ly.L - 1) := by
  rw [cosLatDDlat_apply W]
  have e1 : ext0 x i.val (j.val + 1) = 0 :=
    ext0_of_mem hx _ _ ((g.ly.maskAt_false_iff _ _).2 (fun h => by omega))
  rw [e1, mul_zero, zero_add, if_neg (by omega), hj, g.ly.lval_of_lt (g.ly.L - 1) (by omega)]

/-- the same for `sec_lat_d_dlat_cos2`: column `L` receives `−(L+1)·b[m, L−1]·x[m, L−1]` -/
theorem secLat_padding_column (W : g.WF) {x : g.Modal} (hx : x ∈ Masked g) (i : Fin g.ly.rows)
    (j : Fin g.ly.cols) (hj : j.val = g.ly.L) (hL : 0 < g.ly.L) :
    (gridOps g).secLatDDlatCos2 x i j
      = -((g.ly.L - 1 + 2 : Nat) : K) * ent2 g.b i.val (g.ly.L - 1) * ext0 x i.val (g.ly.L - 1) := by
  rw [secLatDDlatCos2_apply W]
  have e1 : ext0 x i.val (j.val + 1) = 0 :=
    ext0_of_mem hx _ _ ((g.ly.maskAt_false_iff _ _).2 (fun h => by omega))
  rw [e1, mul_zero, zero_add, if_neg (by omega), hj, g.ly.lval_of_lt (g.ly.L - 1) (by omega)]

/-! ### transforms and the constant mode -/

theorem toModal_masked (W : g.WF) (Mo : g.MaskOk) (z : g.Nodal) : (gridOps g).toModal z ∈ Masked g := by
  intro i j h
  show ent2 (g.T.toModal (toL z)) i.val j.val = 0
  exact Mo.toModal_masked _ (isMat_toL z) _ _ h

theorem oneModal_masked (Mo : g.MaskOk) : (gridOps g).oneModal ∈ Masked g := by
  intro i j h
  rw [oneModal_apply]
  split
  · rename_i h0
    exfalso
    rw [h0.1, h0.2, Layout.maskAt_false_iff] at h
    apply h
    refine ⟨⟨fun _ => ⟨by omega, by have := Mo.M_pos; omega⟩, fun _ => ?_⟩, Mo.L_pos⟩
    unfold Layout.mAbs; split <;> simp
  · rfl

/-! ## the law packages of the abstract theorems, proved for the instance -/

/-- **C05 `LinLaws`**: every horizontal operation is `K`-linear -/
theorem linLaws (W : g.WF) : LinLaws (gridOps g) where
  toNodal := toNodal_lin W
  toModal := toModal_lin W
  dDlon := dDlon_lin
  cosLatDDlat := cosLatDDlat_lin W
  secLatDDlatCos2 := secLatDDlatCos2_lin W
  laplacian := laplacian_lin
  inverseLaplacian := inverseLaplacian_lin
  clip := clip_lin

/-- **C12 `OpsLaws`**: homogeneity, additivity and the three operations that annihilate the constant field -/
theorem opsLaws (W : g.WF) : OpsLaws (gridOps g) where
  toNodal_smul := (toNodal_lin W).map_smul
  toModal_smul := (toModal_lin W).map_smul
  dDlon_smul := dDlon_lin.map_smul
  cosLatDDlat_smul := (cosLatDDlat_lin W).map_smul
  secLatDDlatCos2_smul := (secLatDDlatCos2_lin W).map_smul
  laplacian_smul := laplacian_lin.map_smul
  inverseLaplacian_smul := inverseLaplacian_lin.map_smul
  clip_smul := clip_lin.map_smul
  dDlon_add := dDlon_lin.map_add
  cosLatDDlat_add := (cosLatDDlat_lin W).map_add
  laplacian_add := laplacian_lin.map_add
  dDlon_one := dDlon_one
  cosLatDDlat_one := cosLatDDlat_one W
  laplacian_one := laplacian_one

/-- **C12 `ProjLaws`** -/
theorem projLaws : ProjLaws (gridOps g) where
  lproj_smul l := (lproj_lin l).map_smul
  lproj_add l := (lproj_lin l).map_add

/-- **C11 `OpsClosed`, every layout and padding**, with `Mk` read as the loosely masked arrays -/
theorem opsClosed_loose (W : g.WF) (Mo : g.MaskOk) : OpsClosed (gridOps g) (Loose g) (Clipped g) where
  S_le x hx := masked_le_loose (clipped_le_masked hx)
  toModal_mem z := masked_le_loose (toModal_masked W Mo z)
  dDlon_mem x hx := dDlon_loose hx
  secLat_mem x hx := secLat_loose W Mo hx
  laplacian_mem x hx := laplacian_zeroSub _ hx
  clip_mem x hx := clip_loose_clipped hx
  laplacian_S x hx := laplacian_zeroSub _ hx
  lproj_S l x hx := lproj_zeroSub _ l hx

/-- **C11 `OpsClosed`** with the masked arrays themselves, layouts without padding columns -/
theorem opsClosed_masked (W : g.WF) (Mo : g.MaskOk) (hpad : g.ly.padCols = 0) :
    OpsClosed (gridOps g) (Masked g) (Clipped g) where
  S_le x hx := clipped_le_masked hx
  toModal_mem z := toModal_masked W Mo z
  dDlon_mem x hx := dDlon_masked hx
  secLat_mem x hx := secLat_masked W Mo hpad hx
  laplacian_mem x hx := laplacian_zeroSub _ hx
  clip_mem x hx := clip_loose_clipped (masked_le_loose hx)
  laplacian_S x hx := laplacian_zeroSub _ hx
  lproj_S l x hx := lproj_zeroSub _ l hx

/-- **C04 `MaskClosed`**: the masked arrays are closed under every modal operation, layouts without padding
 columns (with padding columns it is false: `secLat_padding_column`) -/
theorem maskClosed (W : g.WF) (Mo : g.MaskOk) (hpad : g.ly.padCols = 0) :
    MaskClosed (gridOps g) (Masked g) where
  toModal_mem z := toModal_masked W Mo z
  dDlon_mem x hx := dDlon_masked hx
  cosLatDDlat_mem x hx := cosLatDDlat_masked W Mo hpad hx
  secLat_mem x hx := secLat_masked W Mo hpad hx
  laplacian_mem x hx := laplacian_zeroSub _ hx
  inverseLaplacian_mem x hx := inverseLaplacian_zeroSub _ hx
  clip_mem x hx := clip_zeroSub _ hx
  lproj_mem l x hx := lproj_zeroSub _ l hx
  one_mem := oneModal_masked Mo

/-! ### the `(0,0)` coefficient -/

/-- the `(0,0)` coefficient as a linear functional -/
def ev00 (g : GridData K) : g.Modal →ₗ[K] K where
  toFun x := ext0 x 0 0
  map_add' x y := ext0_add x y 0 0
  map_smul' c x := by
    show ext0 (c • x) 0 0 = c • ext0 x 0 0
    rw [ext0_smul, smul_eq_mul]

theorem ev00_apply (x : g.Modal) : ev00 g x = ext0 x 0 0 := rfl

theorem ext0_eq (x : g.Modal) (a b : Nat) (ha : a < g.ly.rows) (hb : b < g.ly.cols) :
    ext0 x a b = x ⟨a, ha⟩ ⟨b, hb⟩ := by
  unfold ext0; rw [dif_pos ⟨ha, hb⟩]

/-- **C11 `Mode0`**: `div`, `curl`, the Laplacian never produce a `(0,0)` coefficient (for EVERY input array,
 masked or not), `clip` keeps it zero, and it is seen by total wavenumber `0` only -/
theorem mode0 (W : g.WF) (Mo : g.MaskOk) : Mode0 (gridOps g) (ev00 g) where
  nL_pos := by
    show 0 < g.ly.cols
    have := Mo.L_pos; have := g.ly.L_le_cols; omega
  lproj_zero x := by
    rw [ev00_apply, ev00_apply]
    unfold ext0
    split
    · rw [lproj_apply, if_pos rfl]
    · rfl
  lproj_pos l hl _ x := by
    rw [ev00_apply]
    unfold ext0
    split
    · rw [lproj_apply, if_neg (by simp; omega)]
    · rfl
  lapEig_zero := lapEig_zero
  dDlon x := by
    rw [ev00_apply]
    unfold ext0
    split
    · apply dDlon_eq_zero
      left
      unfold Layout.freq; split <;> simp
    · rfl
  secLat x := by
    rw [ev00_apply]
    unfold ext0
    split
    · rw [secLatDDlatCos2_apply W, if_pos rfl, add_zero]
      show (if 0 + 1 < g.ly.cols then ((g.ly.lval (0 + 1) : Nat) : K) - 1 else 0) * ent2 g.a 0 (0 + 1)
        * ext0 x 0 (0 + 1) = 0
      by_cases h1 : 1 < g.ly.L
      · rw [g.ly.lval_of_lt (0 + 1) h1]
        split <;> simp
      · have : ent2 g.a 0 (0 + 1) = 0 :=
          Mo.a_zero 0 (0 + 1) (Or.inl ((g.ly.maskAt_false_iff _ _).2 (fun h => by omega)))
        rw [this]; ring
    · rfl
  laplacian x := by
    rw [ev00_apply]
    unfold ext0
    split
    · rw [laplacian_apply, lapEig_zero, mul_zero]
    · rfl
  clip x hx := by
    rw [ev00_apply] at hx ⊢
    unfold ext0 at hx ⊢
    split
    · rename_i h
      rw [dif_pos h] at hx
      rw [clip_apply, hx]
      split <;> rfl
    · rfl

/-- **C11 `Mean0`** for the fields without `(0,0)` coefficient -/
theorem mean0 (W : g.WF) (Mo : g.MaskOk) : Mean0 (gridOps g) (kerOf (ev00 g)) := (mode0 W Mo).mean0

end mask

/-! ## the model's own data satisfy the structural hypotheses -/
section ofGrid
variable {K : Type} [Field K]

/-- for the model's weight array `a` the zeros are `sqrt 0 = 0` -/
theorem weightA_zero (sqrt : K → K) (hs : sqrt 0 = 0) (ly : Layout) (i j : Nat)
    (h : ly.maskAt i j = false ∨ j = ly.mAbs i) : ent2 (weightA sqrt ly) i j = 0 := by
  rw [ent2_weightA]
  split
  · split
    · rfl
    · cases hm : ly.maskAt i j
      · simp [hs]
      · rcases h with h | h
        · rw [hm] at h; cases h
        · have hj := ((ly.maskAt_iff i j).1 hm).2.2
          rw [if_pos rfl, ly.lval_of_lt j hj, h, ratio_self, hs]
  · rfl

/-- `to_modal` of the real layout returns masked arrays when, for every index outside the mask, the Legendre
 table or the Fourier column vanishes (C01: `realTables_zero` for the triangle) -/
theorem realAnalysis_masked (b : Basis K) (N R J L : Nat) (hb : Shaped b N R J L) (mask : Nat → Nat → Bool)
    (hz : ∀ r < R, ∀ l < L, mask r l = false →
      (∀ j < J, ent3 b.p r j l = 0) ∨ (∀ i < N, ent2 b.f i r = 0))
    (z : List (List K)) (hzs : IsMat z N J) (r l : Nat) (hm : mask r l = false) :
    ent2 (realAnalysis b R J L z) r l = 0 := by
  have hsh := isMat_realAnalysis b N R J L hb z
  by_cases hr : r < R
  · by_cases hl : l < L
    · rw [ent2_realAnalysis b N R J L hb z hzs.2 (le_of_eq hzs.1) r l hr]
      apply Finset.sum_eq_zero
      intro j hj
      rcases hz r hr l hl hm with h | h
      · rw [h j (Finset.mem_range.1 hj), mul_zero]
      · have : ∑ i ∈ Finset.range N, ent2 b.f i r * (ent b.w j * ent2 z i j) = 0 :=
          Finset.sum_eq_zero (fun i hi => by rw [h i (Finset.mem_range.1 hi), zero_mul])
        rw [this, zero_mul]
    · exact ent2_of_col_le _ R L r l hsh (by omega)
  · exact ent2_of_row_le _ _ _ (by rw [hsh.1]; omega)

/-- **the structural hypotheses for the data that `Dino.Grid` builds, real layout**: `sqrt 0 = 0` and the
 structural zeros of the tables give `MaskOk` -/
theorem maskOk_ofGrid_real (sqrt : K → K) (hs : sqrt 0 = 0) (ly : Layout) (hf : ly.fast = false)
    (bs : Basis K) (nlon : Nat) (sinLat : List K) (r c00 : K) (hL : 0 < ly.L) (hM : 0 < ly.M)
    (hb : Shaped bs nlon ly.rows bs.w.length ly.cols)
    (hz : ∀ i < ly.rows, ∀ l < ly.cols, ly.maskAt i l = false →
      (∀ j < bs.w.length, ent3 bs.p i j l = 0) ∨ (∀ k < nlon, ent2 bs.f k i = 0)) :
    (GridData.ofGrid sqrt ly bs nlon sinLat r c00).MaskOk where
  L_pos := hL
  M_pos := hM
  a_zero i j h := weightA_zero sqrt hs ly i j h
  toModal_masked z hzs i j hm := by
    show ent2 ((shTransforms ly bs).toModal z) i j = 0
    unfold shTransforms
    simp only [hf, Bool.false_eq_true, if_false]
    exact realAnalysis_masked bs nlon ly.rows bs.w.length ly.cols hb ly.maskAt hz z hzs i j hm

/-- the same for the fast layout (rows `+0, −0, +1, −1, …` plus padding; one Legendre table per pair of rows):
 the `−0` row and the padding rows are killed by zero Fourier columns, the triangle and the padding columns by
 zeros of the (duplicated) Legendre table -/
theorem maskOk_ofGrid_fast (sqrt : K → K) (hs : sqrt 0 = 0) (ly : Layout) (hf : ly.fast = true)
    (bs : Basis K) (nlon : Nat) (sinLat : List K) (r c00 : K) (hL : 0 < ly.L) (hM : 0 < ly.M)
    (hpar : ly.rows % 2 = 0) (hb : Shaped bs nlon (ly.rows / 2) bs.w.length ly.cols)
    (hz : ∀ i < ly.rows, ∀ l < ly.cols, ly.maskAt i l = false →
      (∀ j < bs.w.length, ent3 (SH.fastBasis bs).p i j l = 0) ∨ (∀ k < nlon, ent2 (SH.fastBasis bs).f k i = 0)) :
    (GridData.ofGrid sqrt ly bs nlon sinLat r c00).MaskOk where
  L_pos := hL
  M_pos := hM
  a_zero i j h := weightA_zero sqrt hs ly i j h
  toModal_masked z hzs i j hm := by
    show ent2 ((shTransforms ly bs).toModal z) i j = 0
    unfold shTransforms
    simp only [hf, if_true]
    rw [SH.fastAnalysis_eq_real bs ly.rows bs.w.length ly.cols z hpar]
    have hb' : Shaped (SH.fastBasis bs) nlon ly.rows bs.w.length ly.cols := by
      have := SH.shaped_fastBasis bs nlon (ly.rows / 2) bs.w.length ly.cols hb
      have h2 : 2 * (ly.rows / 2) = ly.rows := by omega
      rwa [h2] at this
    exact realAnalysis_masked (SH.fastBasis bs) nlon ly.rows bs.w.length ly.cols hb' ly.maskAt hz z hzs i j hm

/-- the tables that `associated_legendre.evaluate` computes have the zeros `maskOk_ofGrid_real` asks for
 (C01, `realTables_zero`): below the diagonal `l < |m|` the Legendre table vanishes -/
theorem evaluate_tables_masked (sqrt : K → K) (M L : Nat) (xs : List K) (ly : Layout) (hf : ly.fast = false)
    (hpad : ly.padCols = 0) (i l : Nat) (hl : l < ly.cols) (hm : ly.maskAt i l = false) (j : Nat) :
    ent3 (SH.realTables (Legendre.evaluate sqrt M L xs)) i j l = 0 := by
  apply SH.realTables_zero
  have hlL : l < ly.L := by simp only [Layout.cols, hpad] at hl; omega
  rw [Layout.maskAt_false_iff] at hm
  by_contra hc
  apply hm
  refine ⟨⟨fun h => (by rw [hf] at h; cases h), fun _ => ?_⟩, hlL⟩
  unfold Layout.mAbs
  simp only [hf, Bool.false_eq_true, if_false]
  omega

end ofGrid

end Dino.DynamicsInst
