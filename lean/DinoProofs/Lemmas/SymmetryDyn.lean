import DinoProofs.Lemmas.Symmetry

/-!
# Lemmas for C10, part 2: equivariance of every routine of `Dino.Dynamics`

`Sym K M N` is a candidate symmetry `(ρM, ρN, ε)`; `Equivariant h S` lists what it means for it to
be a symmetry of the horizontal operations `h : HOps K M N` (one law per field of the record, with
the sign `ε` on the two meridional derivatives and on `sin(lat)`).  These laws are *hypotheses*:
they are proved for the concrete rotation / mirror of the spherical-harmonic model in
`DinoProofs/Lemmas/SymmetrySH.lean` and validated on the real `Grid` by `harness/props/C10.py`.
-/
namespace Dino.Symmetry
open Dino Dino.Dynamics

variable {K M N : Type} [Field K] [AddCommGroup M] [Module K M] [CommRing N] [Algebra K N]

/-- a candidate symmetry: `ρM` on one level of a modal field, `ρN` on one level of a nodal field
 (a `K`-algebra map: additive, **multiplicative**, fixes the constants), and the sign `ε` by which
 pseudo-scalars (vorticity), the meridional components and `sin(lat)` are multiplied -/
structure Sym (K M N : Type) [Field K] [AddCommGroup M] [Module K M] [CommRing N] [Algebra K N] where
  ρM : M →ₗ[K] M
  ρN : N →ₐ[K] N
  ε : K

namespace Sym
variable (S : Sym K M N)

/-- action on even / odd modal level-fields -/
def mE : M →ₗ[K] M := S.ρM
def mO : M →ₗ[K] M := S.ε • S.ρM
/-- action on even / odd nodal level-fields -/
def nE : N →ₗ[K] N := S.ρN.toLinearMap
def nO : N →ₗ[K] N := S.ε • S.ρN.toLinearMap

@[simp] theorem mE_apply (x : M) : S.mE x = S.ρM x := rfl
@[simp] theorem mO_apply (x : M) : S.mO x = S.ε • S.ρM x := rfl
@[simp] theorem nE_apply (z : N) : S.nE z = S.ρN z := rfl
@[simp] theorem nO_apply (z : N) : S.nO z = S.ε • S.ρN z := rfl

/-- lift to `primitive_equations.State`: vorticity is odd, the rest even -/
def state (s : State M) : State M :=
  { vorticity := s.vorticity.map S.mO
    divergence := s.divergence.map S.mE
    temperatureVariation := s.temperatureVariation.map S.mE
    logSurfacePressure := S.mE s.logSurfacePressure
    tracers := mapTracers (fun x => x.map S.mE) s.tracers }

def stateWithTime (s : StateWithTime K M) : StateWithTime K M :=
  { state := S.state s.state, simTime := s.simTime }

/-- lift to `DiagnosticState` -/
def diag (a : Diag N) : Diag N :=
  { vorticity := a.vorticity.map S.nO
    divergence := a.divergence.map S.nE
    temperatureVariation := a.temperatureVariation.map S.nE
    cosLatU := (a.cosLatU.1.map S.nE, a.cosLatU.2.map S.nO)
    sigmaDotExplicit := a.sigmaDotExplicit.map S.nE
    sigmaDotFull := a.sigmaDotFull.map S.nE
    cosLatGradLogSp := (S.nE a.cosLatGradLogSp.1, S.nO a.cosLatGradLogSp.2)
    uDotGradLogSp := a.uDotGradLogSp.map S.nE
    tracers := mapTracers (fun x => x.map S.nE) a.tracers }

/-- the transformed equation object: same grid, levels, constants and reference temperature,
 **transformed orography** -/
def eqn (eq : PrimitiveEquations K M N) : PrimitiveEquations K M N :=
  { eq with orography := S.ρM eq.orography }

end Sym

/-- `S` is a symmetry of the horizontal operations `h`.  `*_eps`: the operation commutes with the
 sign `ε` (trivial for `ε = 1`; oddness `op (-x) = -op x` for `ε = -1`). -/
structure Equivariant (h : HOps K M N) (S : Sym K M N) : Prop where
  eps_sq : S.ε * S.ε = 1
  toNodal : ∀ x, h.toNodal (S.ρM x) = S.ρN (h.toNodal x)
  toModal : ∀ z, h.toModal (S.ρN z) = S.ρM (h.toModal z)
  dDlon : ∀ x, h.dDlon (S.ρM x) = S.ρM (h.dDlon x)
  cosLatDDlat : ∀ x, h.cosLatDDlat (S.ρM x) = S.ε • S.ρM (h.cosLatDDlat x)
  secLatDDlatCos2 : ∀ x, h.secLatDDlatCos2 (S.ρM x) = S.ε • S.ρM (h.secLatDDlatCos2 x)
  laplacian : ∀ x, h.laplacian (S.ρM x) = S.ρM (h.laplacian x)
  inverseLaplacian : ∀ x, h.inverseLaplacian (S.ρM x) = S.ρM (h.inverseLaplacian x)
  clip : ∀ x, h.clip (S.ρM x) = S.ρM (h.clip x)
  lproj : ∀ l x, h.lproj l (S.ρM x) = S.ρM (h.lproj l x)
  cosLat : S.ρN h.cosLat = h.cosLat
  sec2Lat : S.ρN h.sec2Lat = h.sec2Lat
  sinLat : S.ρN h.sinLat = S.ε • h.sinLat
  oneModal : S.ρM h.oneModal = h.oneModal
  toNodal_eps : ∀ x, h.toNodal (S.ε • x) = S.ε • h.toNodal x
  toModal_eps : ∀ z, h.toModal (S.ε • z) = S.ε • h.toModal z
  dDlon_eps : ∀ x, h.dDlon (S.ε • x) = S.ε • h.dDlon x
  cosLatDDlat_eps : ∀ x, h.cosLatDDlat (S.ε • x) = S.ε • h.cosLatDDlat x
  secLatDDlatCos2_eps : ∀ x, h.secLatDDlatCos2 (S.ε • x) = S.ε • h.secLatDDlatCos2 x
  inverseLaplacian_eps : ∀ x, h.inverseLaplacian (S.ε • x) = S.ε • h.inverseLaplacian x
  clip_eps : ∀ x, h.clip (S.ε • x) = S.ε • h.clip x

set_option linter.unusedSectionVars false

section hops
variable {h : HOps K M N} {S : Sym K M N} (H : Equivariant h S)
include H

theorem eps_smul_smul {V : Type} [AddCommGroup V] [Module K V] (x : V) : S.ε • S.ε • x = x := by
  rw [smul_smul, H.eps_sq, one_smul]

/-! ### parity calculus of nodal products -/

theorem nE_mul_nE (a b : N) : S.nE a * S.nE b = S.nE (a * b) := by simp
theorem nO_mul_nE (a b : N) : S.nO a * S.nE b = S.nO (a * b) := by simp
theorem nE_mul_nO (a b : N) : S.nE a * S.nO b = S.nO (a * b) := by simp
theorem nO_mul_nO (a b : N) : S.nO a * S.nO b = S.nE (a * b) := by
  simp only [Sym.nO_apply, Sym.nE_apply, smul_mul_smul_comm, H.eps_sq, one_smul, map_mul]

theorem nE_sec2 : S.nE h.sec2Lat = h.sec2Lat := H.sec2Lat
theorem nE_mul_sec2 (a : N) : S.nE a * h.sec2Lat = S.nE (a * h.sec2Lat) := by
  rw [← nE_mul_nE H, nE_sec2 H]
theorem nO_mul_sec2 (a : N) : S.nO a * h.sec2Lat = S.nO (a * h.sec2Lat) := by
  rw [← nO_mul_nE H, nE_sec2 H]
theorem nE_one : S.nE (1 : N) = 1 := map_one S.ρN
theorem nE_constN (c : K) : S.nE (constN c : N) = constN c := by
  simp [constN]

/-! ### modal operators on even and odd fields -/

theorem toNodal_E (x : M) : h.toNodal (S.mE x) = S.nE (h.toNodal x) := H.toNodal x
theorem toNodal_O (x : M) : h.toNodal (S.mO x) = S.nO (h.toNodal x) := by
  simp [H.toNodal_eps, H.toNodal]
theorem toModal_E (z : N) : h.toModal (S.nE z) = S.mE (h.toModal z) := H.toModal z
theorem toModal_O (z : N) : h.toModal (S.nO z) = S.mO (h.toModal z) := by
  simp [H.toModal_eps, H.toModal]
theorem dDlon_E (x : M) : h.dDlon (S.mE x) = S.mE (h.dDlon x) := H.dDlon x
theorem dDlon_O (x : M) : h.dDlon (S.mO x) = S.mO (h.dDlon x) := by
  simp [H.dDlon_eps, H.dDlon]
theorem d1_E (x : M) : h.cosLatDDlat (S.mE x) = S.mO (h.cosLatDDlat x) := H.cosLatDDlat x
theorem d1_O (x : M) : h.cosLatDDlat (S.mO x) = S.mE (h.cosLatDDlat x) := by
  simp [H.cosLatDDlat_eps, H.cosLatDDlat, eps_smul_smul H]
theorem d2_E (x : M) : h.secLatDDlatCos2 (S.mE x) = S.mO (h.secLatDDlatCos2 x) := H.secLatDDlatCos2 x
theorem d2_O (x : M) : h.secLatDDlatCos2 (S.mO x) = S.mE (h.secLatDDlatCos2 x) := by
  simp [H.secLatDDlatCos2_eps, H.secLatDDlatCos2, eps_smul_smul H]
theorem lap_E (x : M) : h.laplacian (S.mE x) = S.mE (h.laplacian x) := H.laplacian x
theorem invLap_E (x : M) : h.inverseLaplacian (S.mE x) = S.mE (h.inverseLaplacian x) := H.inverseLaplacian x
theorem invLap_O (x : M) : h.inverseLaplacian (S.mO x) = S.mO (h.inverseLaplacian x) := by
  simp [H.inverseLaplacian_eps, H.inverseLaplacian]
theorem clip_E (x : M) : h.clip (S.mE x) = S.mE (h.clip x) := H.clip x
theorem clip_O (x : M) : h.clip (S.mO x) = S.mO (h.clip x) := by
  simp [H.clip_eps, H.clip]

/-! ### the derived grid operations -/

theorem cosLatGrad_E (c : Bool) (x : M) :
    h.cosLatGrad c (S.mE x) = (S.mE (h.cosLatGrad c x).1, S.mO (h.cosLatGrad c x).2) := by
  cases c <;>
    simp only [HOps.cosLatGrad, dDlon_E H, d1_E H, clip_E H, clip_O H, ← map_smul, if_true,
      Bool.false_eq_true, if_false]

theorem cosLatGrad_O (c : Bool) (x : M) :
    h.cosLatGrad c (S.mO x) = (S.mO (h.cosLatGrad c x).1, S.mE (h.cosLatGrad c x).2) := by
  cases c <;>
    simp only [HOps.cosLatGrad, dDlon_O H, d1_O H, clip_E H, clip_O H, ← map_smul, if_true,
      Bool.false_eq_true, if_false]

theorem divCosLat_EO (c : Bool) (v : M × M) :
    h.divCosLat c (S.mE v.1, S.mO v.2) = S.mE (h.divCosLat c v) := by
  cases c <;>
    simp only [HOps.divCosLat, dDlon_E H, d2_O H, clip_E H, ← map_smul, ← map_add, if_true,
      Bool.false_eq_true, if_false]

theorem curlCosLat_EO (c : Bool) (v : M × M) :
    h.curlCosLat c (S.mE v.1, S.mO v.2) = S.mO (h.curlCosLat c v) := by
  cases c <;>
    simp only [HOps.curlCosLat, dDlon_O H, d2_E H, clip_O H, ← map_smul, ← map_sub, if_true,
      Bool.false_eq_true, if_false]

theorem cosLatVector_OE (c : Bool) (z d : M) :
    h.cosLatVector c (S.mO z) (S.mE d)
      = (S.mE (h.cosLatVector c z d).1, S.mO (h.cosLatVector c z d).2) := by
  simp only [HOps.cosLatVector, HOps.kCross, invLap_O H, invLap_E H, cosLatGrad_E H, cosLatGrad_O H,
    ← map_neg, ← map_add]

theorem divSecLat_EO (m n : N) : h.divSecLat (S.nE m) (S.nO n) = S.mE (h.divSecLat m n) := by
  unfold HOps.divSecLat
  rw [nE_mul_sec2 H, nO_mul_sec2 H, toModal_E H, toModal_O H]
  exact divCosLat_EO H false (h.toModal (m * h.sec2Lat), h.toModal (n * h.sec2Lat))

end hops

/-! ## `compute_diagnostic_state` -/
section diag
variable {h : HOps K M N} {S : Sym K M N} (H : Equivariant h S)
include H

omit H in
theorem sigmaDotOf_map {V : Type} [AddCommGroup V] [Module K V] (φ : V →ₗ[K] V) (ds : List K) (f : List V) :
    sigmaDotOf ds (f.map φ) = (sigmaDotOf ds f).map φ := by
  unfold sigmaDotOf
  rw [List.map_dropLast]
  congr 1
  have hl : (f.map φ).getLastD 0 = φ (f.getLastD 0) := by
    have := getLastD_map φ f 0
    rwa [map_zero] at this
  rw [hl]
  exact zipWith_map_right_comm _ _ _ _ (fun s fi => by simp) _ _

theorem mapTracers_toNodal (t : List (String × List M)) :
    mapTracers (fun x => x.map h.toNodal) (mapTracers (fun x => x.map S.mE) t)
      = mapTracers (fun x => x.map S.nE) (mapTracers (fun x => x.map h.toNodal) t) := by
  simp only [mapTracers, List.map_map]
  congr 1
  funext kv
  simp only [Function.comp]
  congr 1
  exact map_map_comm _ _ _ _ (toNodal_E H) _

theorem computeDiagnosticState_equiv (v : Vert K) (s : State M) :
    computeDiagnosticState h v (S.state s) = S.diag (computeDiagnosticState h v s) := by
  have hclv : List.zipWith (fun z d => h.cosLatVector false z d) (s.vorticity.map S.mO)
        (s.divergence.map S.mE)
      = (List.zipWith (fun z d => h.cosLatVector false z d) s.vorticity s.divergence).map
          (fun p => (S.mE p.1, S.mO p.2)) :=
    zipWith_map_comm _ _ _ _ _ (fun z d => cosLatVector_OE H false z d) _ _
  have hu : ∀ (l : List (M × M)), (l.map (fun p => (S.mE p.1, S.mO p.2))).map (fun p => h.toNodal p.1)
      = (l.map fun p => h.toNodal p.1).map S.nE :=
    fun l => by
      rw [List.map_map, List.map_map]; congr 1; funext p; exact toNodal_E H p.1
  have hv : ∀ (l : List (M × M)), (l.map (fun p => (S.mE p.1, S.mO p.2))).map (fun p => h.toNodal p.2)
      = (l.map fun p => h.toNodal p.2).map S.nO :=
    fun l => by
      rw [List.map_map, List.map_map]; congr 1; funext p; exact toNodal_O H p.2
  have hudg : ∀ (u w : List N) (g1 g2 : N),
      List.zipWith (fun u w => u * (S.nE g1) * h.sec2Lat + w * (S.nO g2) * h.sec2Lat)
        (u.map S.nE) (w.map S.nO)
      = (List.zipWith (fun u w => u * g1 * h.sec2Lat + w * g2 * h.sec2Lat) u w).map S.nE :=
    fun u w g1 g2 => zipWith_map_comm _ _ _ _ _ (fun a b => by
      rw [nE_mul_nE H, nO_mul_nO H, nE_mul_sec2 H, nE_mul_sec2 H, ← map_add]) _ _
  unfold computeDiagnosticState Sym.diag Sym.state
  simp only [hclv, hu, hv, cosLatGrad_E H, toNodal_E H, toNodal_O H, hudg,
    map_map_comm _ _ _ _ (toNodal_E H), map_map_comm _ _ _ _ (toNodal_O H),
    col_cumSigmaIntegral, sigmaDotOf_map, col_add, mapTracers_toNodal H]

end diag
end Dino.Symmetry
