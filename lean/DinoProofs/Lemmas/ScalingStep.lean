import Dino.Imex
import Dino.Filters
import Mathlib.Algebra.Module.Basic
import Mathlib.Algebra.Order.Field.Basic
import Mathlib.Logic.Function.Iterate
import Mathlib.Tactic.Ring
import Mathlib.Tactic.FieldSimp
import Mathlib.Tactic.Module

/-!
# T12.2 — time steps commute with a change of the non-dimensionalisation

Abstract setting: `V` a `K`-module of states, `A : V → V` the action on states (affine: the additive
constant of `ln p_s`), `T : V → V` the action on tendencies (linear), related by
`A (x + η • y) = A x + (t·η) • T y` (a state weight is `t` times the tendency weight).  If the explicit
terms, the implicit terms and the implicit inverse of two `ImEx` problems are intertwined by `(A, T)` with
the step size scaled by `t`, then one step of every integrator of `time_integration.py` is intertwined
by `A` when `dt` is scaled by `t`, hence (iteration) whole trajectories are.
-/
namespace Dino.Scaling
open Dino Dino.Imex
set_option linter.unusedSectionVars false
set_option linter.unusedSimpArgs false

/-! ## generic form: states need only `+`, `0` and a scalar action; the affine law is required on a
set `St` of proper states that is closed under the operations the integrators perform (for `tree_math`
vectors: everything except the Python scalar `0`) -/
section stepOn
variable {K V : Type} [Field K] [Add V] [Zero V] [SMul K V]

/-- how the state action `A` and the tendency action `T` fit together on the proper states `St` -/
structure ActionLawsOn (St : V → Prop) (t : K) (A T : V → V) : Prop where
  A_add_smul : ∀ x (η : K) y, St x → A (x + η • y) = A x + (t * η) • T y
  St_add : ∀ x (η : K) y, St x → St (x + η • y)
  T_add : ∀ x y, T (x + y) = T x + T y
  T_smul : ∀ (c : K) x, T (c • x) = c • T x
  T_zero : T 0 = 0

/-- two semi-implicit problems that are the same problem under two scales -/
structure IntertwinedOn (St : V → Prop) (t : K) (A T : V → V) (e e' : ImEx K V) : Prop where
  F : ∀ x, St x → e'.F (A x) = T (e.F x)
  G : ∀ x, St x → e'.G (A x) = T (e.G x)
  Ginv : ∀ x η, St x → e'.Ginv (A x) (t * η) = A (e.Ginv x η)
  St_Ginv : ∀ x η, St x → St (e.Ginv x η)

variable {St : V → Prop} {t : K} {A T : V → V} {e e' : ImEx K V}

theorem half_comm (t dt : K) : t * (half * dt) = half * (t * dt) := by ring

/-- `backward_forward_euler` -/
theorem bfe_actOn (L : ActionLawsOn St t A T) (I : IntertwinedOn St t A T e e') (dt : K) (u : V) (hu : St u) :
    bfe e' (t * dt) (A u) = A (bfe e dt u) ∧ St (bfe e dt u) := by
  have h1 := L.St_add u dt (e.F u) hu
  refine ⟨?_, I.St_Ginv _ _ h1⟩
  simp only [bfe]
  rw [I.F u hu, ← L.A_add_smul u dt _ hu, I.Ginv _ _ h1]

/-- `crank_nicolson_rk2` -/
theorem cnrk2_actOn (L : ActionLawsOn St t A T) (I : IntertwinedOn St t A T e e') (dt : K) (u : V) (hu : St u) :
    cnrk2 e' (t * dt) (A u) = A (cnrk2 e dt u) ∧ St (cnrk2 e dt u) := by
  have hg := L.St_add u (half * dt) (e.G u) hu
  have hx1 := L.St_add _ dt (e.F u) hg
  have hu1 := I.St_Ginv _ (half * dt) hx1
  have hx2 := L.St_add _ dt ((half : K) • (e.F (e.Ginv (u + (half * dt) • e.G u + dt • e.F u) (half * dt)) + e.F u)) hg
  refine ⟨?_, I.St_Ginv _ _ hx2⟩
  simp only [cnrk2]
  rw [I.G u hu, I.F u hu, ← half_comm, ← L.A_add_smul u _ _ hu, ← L.A_add_smul _ dt _ hg, I.Ginv _ _ hx1,
    I.F _ hu1, ← L.T_add, ← L.T_smul, ← L.A_add_smul _ dt _ hg, I.Ginv _ _ hx2]

/-- `semi_implicit_leapfrog` on the pair `(previous, current)` -/
theorem leapfrog_actOn (L : ActionLawsOn St t A T) (I : IntertwinedOn St t A T e e') (dt α : K) (u : V × V)
    (h1u : St u.1) (h2u : St u.2) :
    leapfrog e' (t * dt) α (A u.1, A u.2) = ((A (leapfrog e dt α u).1), A (leapfrog e dt α u).2)
      ∧ St (leapfrog e dt α u).1 ∧ St (leapfrog e dt α u).2 := by
  have h1 : (1 + 1) * (t * dt) = t * ((1 + 1) * dt) := by ring
  have h2 : (1 + 1) * (t * dt) * α = t * ((1 + 1) * dt * α) := by ring
  have hx := L.St_add u.1 ((1 + 1) * dt) (e.F u.2 + (1 - α) • e.G u.1) h1u
  refine ⟨?_, h2u, I.St_Ginv _ _ hx⟩
  simp only [leapfrog]
  rw [I.F _ h2u, I.G _ h1u, h2, h1, ← L.T_smul, ← L.T_add, ← L.A_add_smul _ _ _ h1u, I.Ginv _ _ hx]

/-- the loop of `low_storage_runge_kutta_crank_nicolson` (`h` is a tendency) -/
theorem lsrkLoop_actOn (L : ActionLawsOn St t A T) (I : IntertwinedOn St t A T e e') (dt : K) (αs βs γs : List K)
    (u h : V) (hu : St u) :
    lsrkLoop e' (t * dt) αs βs γs (A u) (T h) = A (lsrkLoop e dt αs βs γs u h)
      ∧ St (lsrkLoop e dt αs βs γs u h) := by
  fun_induction lsrkLoop e dt αs βs γs u h with
  | case1 a0 a1 as b bs c cs u h h' μ ih =>
    rw [lsrkLoop]
    have hμ : half * (t * dt) * (a1 - a0) = t * μ := by simp only [μ]; ring
    have hc : c * (t * dt) = t * (c * dt) := by ring
    have hh : e'.F (A u) + b • T h = T h' := by
      simp only [h', I.F u hu, L.T_add, L.T_smul]
    have hs1 := L.St_add u (c * dt) h' hu
    have hs2 := L.St_add _ μ (e.G u) hs1
    have hnext := I.St_Ginv _ μ hs2
    simp only [hμ, hc, hh, I.G u hu]
    rw [← L.A_add_smul _ _ _ hu, ← L.A_add_smul _ _ _ hs1, I.Ginv _ _ hs2]
    exact ih hnext
  | case2 αs βs γs u h hne =>
    rw [lsrkLoop]
    · exact ⟨rfl, hu⟩
    · intro a0 a1 as b bs c cs h1 h2 h3
      exact hne a0 a1 as b bs c cs h1 h2 h3

/-- weighted sums of tendencies -/
theorem wsum_actOn_aux (L : ActionLawsOn St t A T) (nz : K → Bool) : ∀ (row : List K) (fs : List V) (acc : V),
    (row.zip (fs.map T)).foldl (fun acc p => if nz p.1 then acc + p.1 • p.2 else acc) (T acc)
      = T ((row.zip fs).foldl (fun acc p => if nz p.1 then acc + p.1 • p.2 else acc) acc)
  | [], _, _ => by simp
  | _ :: _, [], _ => by simp
  | r :: row, f :: fs, acc => by
    simp only [List.map_cons, List.zip_cons_cons, List.foldl_cons]
    split
    · rw [← L.T_smul, ← L.T_add]; exact wsum_actOn_aux L nz row fs _
    · exact wsum_actOn_aux L nz row fs _

theorem wsum_actOn (L : ActionLawsOn St t A T) (nz : K → Bool) (row : List K) (fs : List V) :
    wsum nz row (fs.map T) = T (wsum nz row fs) := by
  have := wsum_actOn_aux L nz row fs 0
  rw [L.T_zero] at this
  exact this

/-- the stage loop of `imex_runge_kutta` (`fs`, `gs` are tendencies) -/
theorem stages_actOn (L : ActionLawsOn St t A T) (I : IntertwinedOn St t A T e e') (nz : K → Bool) (dt : K)
    (y0 : V) (hy : St y0) (aEx aIm : List (List K)) (fs gs : List V) :
    stages nz e' (t * dt) (A y0) aEx aIm (fs.map T) (gs.map T)
      = ((stages nz e dt y0 aEx aIm fs gs).1.map T, (stages nz e dt y0 aEx aIm fs gs).2.map T) := by
  fun_induction stages nz e dt y0 aEx aIm fs gs with
  | case1 rex tex rim tim fs gs Ystar Y ih =>
    rw [stages]
    have hs1 := L.St_add y0 dt (wsum nz rex fs) hy
    have hs2 := L.St_add _ dt (wsum nz rim gs) hs1
    have hY : A y0 + (t * dt) • wsum nz rex (fs.map T) + (t * dt) • wsum nz rim (gs.map T) = A Ystar := by
      simp only [Ystar, wsum_actOn L]
      rw [← L.A_add_smul _ _ _ hy, ← L.A_add_smul _ _ _ hs1]
    have hη : t * dt * rim.getD (fs.map T).length 0 = t * (dt * rim.getD fs.length 0) := by
      rw [List.length_map]; ring
    have hYs : St Y := I.St_Ginv _ _ hs2
    simp only [hY, hη]
    rw [I.Ginv _ _ hs2, I.F _ hYs, I.G _ hYs]
    have : ∀ (l : List V) (x : V), l.map T ++ [T x] = (l ++ [x]).map T := by simp
    rw [this, this]
    exact ih
  | case2 aEx aIm fs gs hne =>
    rw [stages]
    intro rex tex rim tim h1 h2
    exact hne rex tex rim tim h1 h2

/-- one step of `imex_runge_kutta` -/
theorem imexRKStep_actOn (L : ActionLawsOn St t A T) (I : IntertwinedOn St t A T e e') (nz : K → Bool) (dt : K)
    (tab : Tableau K) (y0 : V) (hy : St y0) :
    imexRKStep nz e' (t * dt) tab (A y0) = A (imexRKStep nz e dt tab y0) ∧ St (imexRKStep nz e dt tab y0) := by
  unfold imexRKStep
  have h := stages_actOn L I nz dt y0 hy tab.aEx tab.aIm [e.F y0] [e.G y0]
  simp only [List.map_cons, List.map_nil, ← I.F y0 hy, ← I.G y0 hy] at h
  have hs1 := L.St_add y0 dt (wsum nz tab.bEx (stages nz e dt y0 tab.aEx tab.aIm [e.F y0] [e.G y0]).1) hy
  refine ⟨?_, L.St_add _ dt _ hs1⟩
  simp only [h, wsum_actOn L]
  rw [← L.A_add_smul _ _ _ hy, ← L.A_add_smul _ _ _ hs1]

/-- multi-step runs on the proper states -/
theorem iterate_actOn {S : Type} (P : S → Prop) (A : S → S) (step step' : S → S)
    (h : ∀ u, P u → step' (A u) = A (step u) ∧ P (step u)) (k : ℕ) (u : S) (hu : P u) :
    step'^[k] (A u) = A (step^[k] u) ∧ P (step^[k] u) := by
  induction k generalizing u with
  | zero => exact ⟨rfl, hu⟩
  | succ k ih =>
    rw [Function.iterate_succ_apply, Function.iterate_succ_apply, (h u hu).1]
    exact ih (step u) (h u hu).2

end stepOn

/-! ## states form a `K`-module: no side condition -/
section step
variable {K V : Type} [Field K] [AddCommGroup V] [Module K V]

/-- how the state action `A` and the tendency action `T` fit together -/
structure ActionLaws (t : K) (A T : V → V) : Prop where
  A_add_smul : ∀ x (η : K) y, A (x + η • y) = A x + (t * η) • T y
  T_add : ∀ x y, T (x + y) = T x + T y
  T_smul : ∀ (c : K) x, T (c • x) = c • T x

/-- two semi-implicit problems that are the same problem under two scales -/
structure Intertwined (t : K) (A T : V → V) (e e' : ImEx K V) : Prop where
  F : ∀ x, e'.F (A x) = T (e.F x)
  G : ∀ x, e'.G (A x) = T (e.G x)
  Ginv : ∀ x η, e'.Ginv (A x) (t * η) = A (e.Ginv x η)

variable {t : K} {A T : V → V} {e e' : ImEx K V}

theorem ActionLaws.T_zero (L : ActionLaws t A T) : T 0 = 0 := by
  have := L.T_smul 0 0
  simpa using this

theorem ActionLaws.on (L : ActionLaws t A T) : ActionLawsOn (fun _ : V => True) t A T :=
  ⟨fun x η y _ => L.A_add_smul x η y, fun _ _ _ _ => trivial, L.T_add, L.T_smul, L.T_zero⟩

theorem Intertwined.on (I : Intertwined t A T e e') : IntertwinedOn (fun _ : V => True) t A T e e' :=
  ⟨fun x _ => I.F x, fun x _ => I.G x, fun x η _ => I.Ginv x η, fun _ _ _ => trivial⟩

/-- the resolvent is determined by the implicit terms: if `Ginv`, `Ginv'` are two-sided inverses of
 `1 - η G`, `1 - η' G'` (C03) and `G` is intertwined, then so is `Ginv` -/
theorem ginv_intertwined_of_resolvent (L : ActionLaws t A T) (hG : ∀ x, e'.G (A x) = T (e.G x))
    (η : K) (hright : ∀ x, e.Ginv x η - η • e.G (e.Ginv x η) = x)
    (hleft' : ∀ z, e'.Ginv (z - (t * η) • e'.G z) (t * η) = z) (x : V) :
    e'.Ginv (A x) (t * η) = A (e.Ginv x η) := by
  have h1 : A x = A (e.Ginv x η) - (t * η) • e'.G (A (e.Ginv x η)) := by
    conv_lhs => rw [← hright x]
    rw [sub_eq_add_neg, ← neg_smul, L.A_add_smul, hG, mul_neg, neg_smul, ← sub_eq_add_neg]
  rw [h1, hleft']

theorem bfe_act (L : ActionLaws t A T) (I : Intertwined t A T e e') (dt : K) (u : V) :
    bfe e' (t * dt) (A u) = A (bfe e dt u) := (bfe_actOn L.on I.on dt u trivial).1

theorem cnrk2_act (L : ActionLaws t A T) (I : Intertwined t A T e e') (dt : K) (u : V) :
    cnrk2 e' (t * dt) (A u) = A (cnrk2 e dt u) := (cnrk2_actOn L.on I.on dt u trivial).1

theorem leapfrog_act (L : ActionLaws t A T) (I : Intertwined t A T e e') (dt α : K) (u : V × V) :
    leapfrog e' (t * dt) α (A u.1, A u.2) = ((A (leapfrog e dt α u).1), A (leapfrog e dt α u).2) :=
  (leapfrog_actOn L.on I.on dt α u trivial trivial).1

theorem lsrkLoop_act (L : ActionLaws t A T) (I : Intertwined t A T e e') (dt : K) (αs βs γs : List K)
    (u h : V) :
    lsrkLoop e' (t * dt) αs βs γs (A u) (T h) = A (lsrkLoop e dt αs βs γs u h) :=
  (lsrkLoop_actOn L.on I.on dt αs βs γs u h trivial).1

/-- `low_storage_runge_kutta_crank_nicolson` (the length validation does not see the scale) -/
theorem lsrk_act (L : ActionLaws t A T) (I : Intertwined t A T e e') (dt : K) (αs βs γs : List K) :
    (lsrk e' (t * dt) αs βs γs).map (fun f => fun u => f (A u))
      = (lsrk e dt αs βs γs).map (fun f => fun u => A (f u)) := by
  unfold lsrk
  split
  · simp only [Option.map_some, Option.some.injEq]
    funext u
    have := lsrkLoop_act L I dt αs βs γs u 0
    rwa [L.T_zero] at this
  · rfl

theorem imexRKStep_act (L : ActionLaws t A T) (I : Intertwined t A T e e') (nz : K → Bool) (dt : K)
    (tab : Tableau K) (y0 : V) :
    imexRKStep nz e' (t * dt) tab (A y0) = A (imexRKStep nz e dt tab y0) :=
  (imexRKStep_actOn L.on I.on nz dt tab y0 trivial).1

/-- `imex_runge_kutta` -/
theorem imexRK_act (L : ActionLaws t A T) (I : Intertwined t A T e e') (nz : K → Bool) (dt : K)
    (tab : Tableau K) :
    (imexRK nz e' (t * dt) tab).map (fun f => fun u => f (A u))
      = (imexRK nz e dt tab).map (fun f => fun u => A (f u)) := by
  unfold imexRK
  split
  · simp only [Option.map_some, Option.some.injEq]
    funext u
    exact imexRKStep_act L I nz dt tab u
  · rfl

/-- multi-step runs: if one step commutes with the action, so does every number of steps -/
theorem iterate_act {S : Type} (A : S → S) (step step' : S → S) (h : ∀ u, step' (A u) = A (step u)) (k : ℕ)
    (u : S) : step'^[k] (A u) = A (step^[k] u) := by
  induction k generalizing u with
  | zero => rfl
  | succ k ih => rw [Function.iterate_succ_apply, Function.iterate_succ_apply, h, ih]

/-- the whole trajectory (list of the first `k` states) -/
theorem trajectory_act {S : Type} (A : S → S) (step step' : S → S) (h : ∀ u, step' (A u) = A (step u)) (k : ℕ)
    (u : S) : (List.range k).map (fun i => step'^[i] (A u)) = ((List.range k).map fun i => step^[i] u).map A := by
  rw [List.map_map]
  apply List.map_congr_left
  intro i _
  exact iterate_act A step step' h i u

/-- a filtered step (`step_with_filters`, `runge_kutta_step_filter`): the filter acts on the new state -/
theorem filtered_step_act {S : Type} (A : S → S) (step step' φ φ' : S → S)
    (h : ∀ u, step' (A u) = A (step u)) (hφ : ∀ u, φ' (A u) = A (φ u)) (u : S) :
    Filters.rkStepFilter φ' (A u) (step' (A u)) = A (Filters.rkStepFilter φ u (step u)) := by
  simp only [Filters.rkStepFilter, h, hφ]

end step

/-! ## the filter time scales -/
section filters
variable {K : Type} [Field K]

/-- `exponential_step_filter(grid, dt, tau, …)`: only `dt / tau` enters -/
theorem expStepAttenuation_act (t dt tau : K) (ht : t ≠ 0) :
    Filters.expStepAttenuation (t * dt) (t * tau) = Filters.expStepAttenuation dt tau := by
  unfold Filters.expStepAttenuation
  exact mul_div_mul_left dt tau ht

theorem expStepScaling_act [LT K] [DecidableLT K] (ex : K → K) (t dt tau : K) (ht : t ≠ 0) (p : ℕ) (c : K)
    (ls : List K) :
    Filters.expStepScaling ex (t * dt) (t * tau) p c ls = Filters.expStepScaling ex dt tau p c ls := by
  unfold Filters.expStepScaling
  rw [expStepAttenuation_act t dt tau ht]

theorem powN_eq (x : K) (n : ℕ) : Filters.powN x n = x ^ n := by
  induction n with
  | zero => simp [Filters.powN]
  | succ n ih => rw [Filters.powN, ih, pow_succ]

/-- one factor of `horizontal_diffusion_step_filter`: with the eigenvalues multiplied by `k = l⁻²`
 (radius multiplied by `l`), `dt` and `tau` multiplied by `t`, and `m` (the largest `|eigenvalue|`)
 multiplied by `k`, nothing changes -/
theorem diffFactor_act (ex : K → K) (t k dt tau m eig : K) (order : ℕ) (ht : t ≠ 0) (hk : k ≠ 0) :
    Filters.diffFactor ex (t * dt / (t * tau * Filters.powN (k * m) order)) order (k * eig)
      = Filters.diffFactor ex (dt / (tau * Filters.powN m order)) order eig := by
  unfold Filters.diffFactor
  congr 1
  simp only [powN_eq, mul_pow, neg_mul_eq_mul_neg]
  have hko : k ^ order ≠ 0 := pow_ne_zero _ hk
  by_cases hm : tau * m ^ order = 0
  · rcases mul_eq_zero.mp hm with h | h <;> simp [h]
  · have h1 : tau ≠ 0 := fun h => hm (by simp [h])
    have h2 : m ^ order ≠ 0 := fun h => hm (by simp [h])
    field_simp

end filters

section filtersOrd
variable {K : Type} [Field K] [LinearOrder K] [IsStrictOrderedRing K]

theorem absV_mul (k x : K) (hk : 0 < k) : Filters.absV (k * x) = k * Filters.absV x := by
  unfold Filters.absV
  by_cases hx : x < 0
  · have : k * x < 0 := mul_neg_of_pos_of_neg hk hx
    simp [hx, this]
  · have : ¬ k * x < 0 := by
      rw [not_lt] at hx ⊢
      exact mul_nonneg hk.le hx
    simp [hx, this]

theorem foldl_max_mul (k : K) (hk : 0 < k) : ∀ (l : List K) (a : K),
    (l.map (k * ·)).foldl (fun m x => if m < x then x else m) (k * a)
      = k * l.foldl (fun m x => if m < x then x else m) a
  | [], _ => rfl
  | x :: l, a => by
    simp only [List.map_cons, List.foldl_cons]
    have : (k * a < k * x) ↔ (a < x) := mul_lt_mul_iff_right₀ hk
    by_cases h : a < x
    · simp only [h, this.mpr h, if_true]; exact foldl_max_mul k hk l x
    · simp only [h, (not_congr this).mpr h, if_false]; exact foldl_max_mul k hk l a

theorem maxL_mul (k : K) (hk : 0 < k) (l : List K) :
    Filters.maxL (l.map (k * ·)) = (Filters.maxL l).map (k * ·) := by
  cases l with
  | nil => rfl
  | cons a l => simp only [List.map_cons, Filters.maxL, Option.map_some, foldl_max_mul k hk]

theorem maxAbs_mul (k : K) (hk : 0 < k) (eigs : List K) :
    Filters.maxAbs (eigs.map (k * ·)) = (Filters.maxAbs eigs).map (k * ·) := by
  unfold Filters.maxAbs
  rw [List.map_map, ← maxL_mul k hk, List.map_map]
  congr 1
  apply List.map_congr_left
  intro x _
  simp only [Function.comp, absV_mul k x hk]

/-- **`horizontal_diffusion_step_filter` does not depend on the scale** when `dt` and `tau` are both
 times and the eigenvalues are those of the rescaled grid -/
theorem diffStepScaling_act (ex : K → K) (t k dt tau : K) (order : ℕ) (ht : t ≠ 0) (hk : 0 < k)
    (eigs : List K) :
    Filters.diffStepScaling ex (t * dt) (t * tau) order (eigs.map (k * ·))
      = Filters.diffStepScaling ex dt tau order eigs := by
  unfold Filters.diffStepScaling Filters.diffStepScale
  rw [maxAbs_mul k hk]
  cases Filters.maxAbs eigs with
  | none => rfl
  | some m =>
    simp only [Option.map_some, Filters.diffScaling, List.map_map, Option.some.injEq]
    apply List.map_congr_left
    intro e _
    exact diffFactor_act ex t k dt tau m e order ht hk.ne'

end filtersOrd

end Dino.Scaling
