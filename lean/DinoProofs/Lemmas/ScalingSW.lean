import DinoProofs.Lemmas.ScalingInv
import Mathlib.Tactic.LinearCombination

/-!
# Dimensional homogeneity of the layered shallow-water equations (`Dino.DynamicsSW`)

State weights: vorticity, divergence `T⁻¹`; potential (a geopotential `g·h`) `L² T⁻²`.  Parameters:
`actSW` (`ShallowWaterSpecs.from_si` under the other scale; orography and reference potential are
geopotentials; only ratios of densities enter).
-/
namespace Dino.Scaling
open Dino Dino.Dynamics Dino.DynamicsSW
set_option linter.unusedSectionVars false
set_option linter.unusedSimpArgs false

section sw
variable {K M N : Type} [Field K] [AddCommGroup M] [Module K M] [CommRing N] [Algebra K N]
variable {g : Scale K} (p : ShallowWaterEquations K M N)

theorem sw_coriolis_act : (actSW g p).coriolisParameter = g.wF • p.coriolisParameter := by
  simp only [ShallowWaterEquations.coriolisParameter, actSW, actSpecs, actOps, smul_smul]
  congr 1; ring

/-- only ratios of densities enter -/
theorem densityRatios_act [LT K] [DecidableLT K] (hg : g.Valid) :
    (actSW g p).densityRatios = p.densityRatios := by
  simp only [ShallowWaterEquations.densityRatios, actSW, actSpecs, getDensityRatios, List.length_map,
    getD_map_mul]
  apply List.map_congr_left
  intro i _
  apply List.map_congr_left
  intro j _
  rw [mul_div_mul_left _ _ (wRho_ne hg)]

theorem layeredPressure_act [LT K] [DecidableLT K] (hg : g.Valid) (potential : List M) :
    (actSW g p).layeredPressure (Col.smul g.wE potential) = Col.smul g.wE (p.layeredPressure potential) := by
  unfold ShallowWaterEquations.layeredPressure
  rw [densityRatios_act p hg, matvec_smul_col]
  have ho : (actSW g p).orography = p.orography.map (g.wE • ·) := rfl
  rw [ho]
  cases p.orography with
  | none => rfl
  | some o => simp only [Option.map_some]; rw [addLevel_smul_col]

theorem wV_mul_wV (hg : g.Valid) : g.wV * g.wV = g.wE := by scal_eq hg
theorem wL2_mul_wE' (hg : g.Valid) : g.wL2 * g.wE = g.wF * g.wF := wL2_mul_wE hg
theorem il_wV_wE (hg : g.Valid) : g.wIL * (g.wV * g.wE) = g.wE * g.wF := by scal_eq hg
theorem il_wV_wF (hg : g.Valid) : g.wIL * (g.wV * g.wF) = g.wF * g.wF := by scal_eq hg

/-- one layer of `explicit_terms` -/
theorem explicitLayer_act (hg : g.Valid) (hl : OpsLaws p.ops) (z d φ pr : M) :
    (actSW g p).explicitLayer (g.wF • z) (g.wF • d) (g.wE • φ) (g.wE • pr)
      = ((g.wF * g.wF) • (p.explicitLayer z d φ pr).1, (g.wF * g.wF) • (p.explicitLayer z d φ pr).2.1,
         (g.wE * g.wF) • (p.explicitLayer z d φ pr).2.2) := by
  unfold ShallowWaterEquations.explicitLayer
  have hops : (actSW g p).ops = actOps g p.ops := rfl
  simp only [hops, sw_coriolis_act, cosLatVector_act hg hl, stateToNodal]
  have hN : (actOps g p.ops).toNodal = p.ops.toNodal := rfl
  have hM : (actOps g p.ops).toModal = p.ops.toModal := rfl
  have hC : (actOps g p.ops).clip = p.ops.clip := rfl
  have hS : (actOps g p.ops).sec2Lat = p.ops.sec2Lat := rfl
  have hL : ∀ x, (actOps g p.ops).laplacian x = g.wL2 • p.ops.laplacian x := fun _ => rfl
  simp only [hN, hM, hC, hS, hL, Prod.smul_fst, Prod.smul_snd, hl.clip_smul, hl.toNodal_smul]
  set u := p.ops.cosLatVector true z d with hu
  set U1 := p.ops.toNodal u.1
  set U2 := p.ops.toNodal u.2
  set Z := p.ops.toNodal (p.ops.clip z)
  set F := p.ops.toNodal (p.ops.clip φ)
  set f := p.coriolisParameter
  set S := p.ops.sec2Lat
  have hb1 : g.wV • U1 * (g.wF • Z + g.wF • f) * S = (g.wV * g.wF) • (U1 * (Z + f) * S) := by
    simp only [← smul_add, smul_mul_assoc, mul_smul_comm, smul_smul]
    rw [mul_comm]
  have hb2 : g.wV • U2 * (g.wF • Z + g.wF • f) * S = (g.wV * g.wF) • (U2 * (Z + f) * S) := by
    simp only [← smul_add, smul_mul_assoc, mul_smul_comm, smul_smul]
    rw [mul_comm]
  have hg1 : g.wV • U1 * g.wE • F * S = (g.wV * g.wE) • (U1 * F * S) := by
    simp only [smul_mul_assoc, mul_smul_comm, smul_smul]
    rw [mul_comm]
  have hg2 : g.wV • U2 * g.wE • F * S = (g.wV * g.wE) • (U2 * F * S) := by
    simp only [smul_mul_assoc, mul_smul_comm, smul_smul]
    rw [mul_comm]
  have he : ((1 / (1 + 1) : K)) • ((g.wV • U1 * g.wV • U1 + g.wV • U2 * g.wV • U2) * S)
      = g.wE • (((1 / (1 + 1) : K)) • ((U1 * U1 + U2 * U2) * S)) := by
    simp only [smul_mul_assoc, mul_smul_comm, smul_smul, ← smul_add, wV_mul_wV hg]
    rw [mul_comm]
  rw [hb1, hb2, hg1, hg2, he]
  simp only [hl.toModal_smul]
  have hdiv := fun (a : K) (v : M × M) => divCosLat_act (g := g) hl true a v
  have hcurl := fun (a : K) (v : M × M) => curlCosLat_act (g := g) hl true a v
  simp only [← Prod.smul_mk, hdiv, hcurl, smul_smul, il_wV_wF hg, il_wV_wE hg, ← smul_neg, hl.clip_smul]
  refine Prod.ext rfl (Prod.ext ?_ rfl)
  simp only []
  rw [mul_smul, ← smul_add, hl.laplacian_smul, ← smul_neg, smul_smul, wL2_mul_wE hg, ← smul_add, hl.clip_smul]

/-- `ShallowWaterEquations.explicit_terms` -/
theorem sw_explicitTerms_act [LT K] [DecidableLT K] (hg : g.Valid) (hl : OpsLaws p.ops) (s : DynamicsSW.State M) :
    (actSW g p).explicitTerms (actStateSW g s) = actTendSW g (p.explicitTerms s) := by
  unfold ShallowWaterEquations.explicitTerms
  have hz : ∀ (a b : K) (x y : List M), List.zip (Col.smul a x) (Col.smul b y)
      = (List.zip x y).map fun q => (a • q.1, b • q.2) := by
    intro a b x y
    simp only [Col.smul, List.zip_map]
    apply List.map_congr_left
    intro q _; rfl
  simp only [actStateSW, layeredPressure_act p hg, hz]
  simp only [List.zipWith_map_left, List.zipWith_map_right, explicitLayer_act p hg hl, actTendSW,
    Col.smul, List.map_zipWith]

/-- `ShallowWaterEquations.implicit_terms` -/
theorem sw_implicitTerms_act (hg : g.Valid) (hl : OpsLaws p.ops) (s : DynamicsSW.State M) :
    (actSW g p).implicitTerms (actStateSW g s) = actTendSW g (p.implicitTerms s) := by
  unfold ShallowWaterEquations.implicitTerms
  simp only [actStateSW, actTendSW, DynamicsSW.State.mk.injEq]
  refine ⟨?_, ?_, ?_⟩
  · rw [zerosLike_smul_col, smul_zerosLike]
  · refine map_smul_of _ _ g.wE (g.wF * g.wF) (fun u => ?_) s.potential
    show -(g.wL2 • p.ops.laplacian (g.wE • u)) = _
    rw [hl.laplacian_smul, smul_smul, wL2_mul_wE hg, smul_neg]
  · show List.zipWith (fun (r : K) d => (-r) • d) (p.referencePotential.map (g.wE * ·)) (Col.smul g.wF s.divergence) = _
    simp only [Col.smul, List.zipWith_map_left, List.zipWith_map_right, List.map_zipWith]
    congr 1
    funext r d
    simp only [smul_smul]
    congr 1; ring

theorem foldl_sum_smul (k : K) : ∀ (ls : List M) (z : M),
    (ls.map (k • ·)).foldl (· + ·) (k • z) = k • ls.foldl (· + ·) z
  | [], _ => rfl
  | a :: ls, z => by
    simp only [List.map_cons, List.foldl_cons]
    rw [← smul_add, foldl_sum_smul k ls]

theorem lmul_smul (hp : ProjLaws p.ops) (c : ℕ → K) (k : K) (x : M) :
    lmul p.ops c (k • x) = k • lmul p.ops c x := by
  unfold lmul
  have := foldl_sum_smul k ((List.range p.ops.nL).map fun l => c l • p.ops.lproj l x) 0
  rw [smul_zero] at this
  rw [← this, List.map_map]
  congr 1
  apply List.map_congr_left
  intro l _
  simp only [Function.comp, hp.lproj_smul]
  rw [smul_comm]

theorem lmul_actOps (c : ℕ → K) (x : M) : lmul (actOps g p.ops) c x = lmul p.ops c x := rfl

theorem t2_wE_wL2 (hg : g.Valid) : g.t * g.t * (g.wE * g.wL2) = 1 := by scal_eq hg
theorem t_wL2_wE (hg : g.Valid) : g.t * (g.wL2 * g.wE) = g.wF := by scal_eq hg
theorem t_wE_wF (hg : g.Valid) : g.t * g.wE * g.wF = g.wE := by scal_eq hg

/-- the Schur complement is a pure number (`η' = t·η`) -/
theorem inverseSchurComplement_act (hg : g.Valid) (η r : K) (l : ℕ) :
    (actSW g p).inverseSchurComplement (g.t * η) (g.wE * r) l = p.inverseSchurComplement η r l := by
  unfold ShallowWaterEquations.inverseSchurComplement
  show 1 / (1 - g.t * η * (g.t * η) * (g.wE * r) * (g.wL2 * p.ops.lapEig l)) = _
  have h : g.t * η * (g.t * η) * (g.wE * r) * (g.wL2 * p.ops.lapEig l) = η * η * r * p.ops.lapEig l := by
    have := t2_wE_wL2 hg
    linear_combination (η * η * r * p.ops.lapEig l) * this
  rw [h]

/-- `ShallowWaterEquations.implicit_inverse` with the step size `t·η` -/
theorem sw_implicitInverse_act (hg : g.Valid) (hl : OpsLaws p.ops) (hp : ProjLaws p.ops) (η : K)
    (s : DynamicsSW.State M) :
    (actSW g p).implicitInverse (g.t * η) (actStateSW g s) = actStateSW g (p.implicitInverse η s) := by
  unfold ShallowWaterEquations.implicitInverse
  have hz : ∀ (a b : K) (x y : List M), List.zip (Col.smul a x) (Col.smul b y)
      = (List.zip x y).map fun q => (a • q.1, b • q.2) := by
    intro a b x y
    simp only [Col.smul, List.zip_map]
    apply List.map_congr_left
    intro q _; rfl
  have hops : (actSW g p).ops = actOps g p.ops := rfl
  have href : (actSW g p).referencePotential = p.referencePotential.map (g.wE * ·) := rfl
  have hisc : ∀ r, (actSW g p).inverseSchurComplement (g.t * η) (g.wE * r) = p.inverseSchurComplement η r :=
    fun r => funext fun l => inverseSchurComplement_act p hg η r l
  simp only [actStateSW, hz, hops, href, List.zipWith_map_left, List.zipWith_map_right, lmul_actOps, hisc]
  have hL : ∀ x, (actOps g p.ops).laplacian x = g.wL2 • p.ops.laplacian x := fun _ => rfl
  have hrow : ∀ (r : K) (dp : M × M),
      (lmul p.ops (p.inverseSchurComplement η r)
          (g.wF • dp.1 - (g.t * η) • (actOps g p.ops).laplacian (g.wE • dp.2)),
        lmul p.ops (p.inverseSchurComplement η r) ((-(g.t * η) * (g.wE * r)) • g.wF • dp.1 + g.wE • dp.2))
      = (g.wF • lmul p.ops (p.inverseSchurComplement η r) (dp.1 - η • p.ops.laplacian dp.2),
         g.wE • lmul p.ops (p.inverseSchurComplement η r) ((-η * r) • dp.1 + dp.2)) := by
    intro r dp
    rw [← lmul_smul p hp, ← lmul_smul p hp, hL, hl.laplacian_smul]
    congr 2
    · rw [smul_sub, smul_smul, smul_smul, smul_smul]
      congr 2
      linear_combination η * t_wL2_wE hg
    · rw [smul_add, smul_smul, smul_smul]
      congr 2
      linear_combination (-η * r) * t_wE_wF hg
  simp only [hrow, DynamicsSW.State.mk.injEq, true_and, Col.smul, List.map_zipWith, List.map_map]

end sw
end Dino.Scaling
