import Dino.Units
import Mathlib.Algebra.BigOperators.Group.Finset.Basic
import Mathlib.Algebra.BigOperators.GroupWithZero.Finset
import Mathlib.Algebra.Order.Field.Basic
import Mathlib.Algebra.Order.Floor.Ring
import Mathlib.Data.Rat.Floor
import Mathlib.Tactic.Ring
import Mathlib.Tactic.FieldSimp
import Mathlib.Tactic.Linarith
import Mathlib.Tactic.NormNum
import Mathlib.Tactic.Positivity

/-!
# Lemmas about the units model `Dino.Units`
-/
namespace Dino.Units

section Field
variable {K : Type} [Field K]

/-! ## powers -/

theorem npow_eq (x : K) (n : ℕ) : npow x n = x ^ n := by
  induction n with
  | zero => simp [npow]
  | succ n ih => simp [npow, ih, pow_succ]

theorem zpow_eq (x : K) (e : ℤ) : zpow x e = x ^ e := by
  cases e with
  | ofNat n => simp [zpow, npow_eq]
  | negSucc n => simp [zpow, npow_eq, zpow_negSucc]

end Field

/-! ## dimension vectors -/

@[simp] theorem dget_nil (i : ℕ) : dget [] i = 0 := by simp [dget]
@[simp] theorem dget_cons_zero (e : ℤ) (d : List ℤ) : dget (e :: d) 0 = e := by simp [dget]
@[simp] theorem dget_cons_succ (e : ℤ) (d : List ℤ) (i : ℕ) : dget (e :: d) (i + 1) = dget d i := by
  simp [dget]

theorem dget_of_length_le {d : List ℤ} {i : ℕ} (h : d.length ≤ i) : dget d i = 0 := by
  simp [dget, List.getD, List.getElem?_eq_none h]

theorem dget_dadd (a b : List ℤ) (i : ℕ) : dget (dadd a b) i = dget a i + dget b i := by
  fun_induction dadd a b generalizing i with
  | case1 b => simp
  | case2 a h => simp
  | case3 x a y b ih =>
    cases i with
    | zero => simp
    | succ i => simp [ih]

theorem dget_dsmul (n : ℤ) (d : List ℤ) (i : ℕ) : dget (dsmul n d) i = n * dget d i := by
  induction d generalizing i with
  | nil => simp [dsmul]
  | cons e d ih =>
    cases i with
    | zero => simp [dsmul]
    | succ i => simpa [dsmul] using ih i

theorem dget_dneg (d : List ℤ) (i : ℕ) : dget (dneg d) i = - dget d i := by
  simp [dneg, dget_dsmul]

theorem dget_replicate_zero (n i : ℕ) : dget (List.replicate n 0) i = 0 := by
  simp only [dget, List.getD]
  cases h : (List.replicate n (0 : ℤ))[i]? with
  | none => rfl
  | some v =>
    have := List.mem_of_getElem? h
    simp at this
    simp [this.2]

/-- two dimension vectors denote the same dimension (trailing zeros do not matter) -/
def DimEq (a b : List ℤ) : Prop := ∀ i, dget a i = dget b i

/-! ## the scaling factor -/

section Field
variable {K : Type} [Field K]

/-- the scale of base dimension `i` (1 when absent) -/
def scaleAt (sc : List (Option K)) (i : ℕ) : K := (sc.getD i none).getD 1

/-- every scale is non-zero (the code does not check this; `Scale(0 m)` is accepted) -/
def ScaleOK (sc : List (Option K)) : Prop := ∀ q, some q ∈ sc → q ≠ 0

/-- closed form of the scaling factor over the first `N` base dimensions -/
def factorSpec (sc : List (Option K)) (d : List ℤ) (N : ℕ) : K :=
  ∏ i ∈ Finset.range N, scaleAt sc i ^ dget d i

@[simp] theorem scaleAt_nil (i : ℕ) : scaleAt ([] : List (Option K)) i = 1 := by simp [scaleAt]
@[simp] theorem scaleAt_cons_zero (s : Option K) (sc : List (Option K)) :
    scaleAt (s :: sc) 0 = s.getD 1 := by simp [scaleAt]
@[simp] theorem scaleAt_cons_succ (s : Option K) (sc : List (Option K)) (i : ℕ) :
    scaleAt (s :: sc) (i + 1) = scaleAt sc i := by simp [scaleAt]

theorem scaleAt_ne_zero {sc : List (Option K)} (h : ScaleOK sc) (i : ℕ) : scaleAt sc i ≠ 0 := by
  unfold scaleAt List.getD
  cases hq : sc[i]? with
  | none => simp
  | some o =>
    cases o with
    | none => simp
    | some q => simpa using h q (List.mem_of_getElem? hq)

omit [Field K] in
theorem covers_iff (sc : List (Option K)) (d : List ℤ) :
    covers sc d = true ↔ ∀ i, dget d i ≠ 0 → (sc.getD i none).isSome = true := by
  fun_induction covers sc d with
  | case1 sc => simp
  | case2 e d ih =>
    simp only [Bool.and_eq_true, beq_iff_eq, ih]
    constructor
    · rintro ⟨he, h⟩ i
      cases i with
      | zero => simp [he]
      | succ i => simpa using h i
    · intro h
      refine ⟨by simpa using h 0, fun i => by simpa using h (i + 1)⟩
  | case3 s sc e d ih =>
    simp only [Bool.and_eq_true, Bool.or_eq_true, beq_iff_eq, ih]
    constructor
    · rintro ⟨he, h⟩ i
      cases i with
      | zero =>
        intro h0
        rcases he with he | he
        · simp [he] at h0
        · simpa using he
      | succ i => simpa using h i
    · intro h
      refine ⟨?_, fun i => by simpa using h (i + 1)⟩
      by_cases he : e = 0
      · exact Or.inl he
      · exact Or.inr (by simpa using h 0 (by simpa using he))

theorem factor_eq (sc : List (Option K)) (d : List ℤ) :
    factor sc d = if covers sc d then some (factorSpec sc d d.length) else none := by
  fun_induction factor sc d with
  | case1 sc => simp [covers, factorSpec]
  | case2 d ih =>
    rw [ih]
    simp [covers, factorSpec]
  | case3 e d he =>
    simp [covers, he]
  | case4 s sc d ih =>
    rw [ih]
    simp [covers, factorSpec, Finset.prod_range_succ']
  | case5 sc e d he =>
    simp [covers, he]
  | case6 sc e d he q ih =>
    rw [ih]
    by_cases hc : covers sc d
    · simp [covers, hc, factorSpec, Finset.prod_range_succ', zpow_eq, mul_comm]
    · simp [covers, hc]

theorem factorSpec_extend (sc : List (Option K)) (d : List ℤ) {N : ℕ} (h : d.length ≤ N) :
    factorSpec sc d N = factorSpec sc d d.length := by
  unfold factorSpec
  symm
  apply Finset.prod_subset (Finset.range_mono h)
  intro i _ hi
  have : d.length ≤ i := by simpa using hi
  simp [dget_of_length_le this]

theorem factor_eq_some_iff' (sc : List (Option K)) (d : List ℤ) (f : K) {N : ℕ} (hN : d.length ≤ N) :
    factor sc d = some f ↔ covers sc d = true ∧ f = factorSpec sc d N := by
  rw [factor_eq, factorSpec_extend sc d hN]
  by_cases hc : covers sc d <;> simp [hc, eq_comm]

theorem factor_eq_none_iff' (sc : List (Option K)) (d : List ℤ) :
    factor sc d = none ↔ covers sc d = false := by
  rw [factor_eq]
  by_cases hc : covers sc d <;> simp [hc]

omit [Field K] in
theorem covers_congr {sc : List (Option K)} {a b : List ℤ} (h : DimEq a b) :
    covers sc a = covers sc b := by
  rw [Bool.eq_iff_iff, covers_iff, covers_iff]
  constructor <;> intro H i hi
  · exact H i (by rwa [h i])
  · exact H i (by rwa [← h i])

theorem factor_congr {sc : List (Option K)} {a b : List ℤ} (h : DimEq a b) :
    factor sc a = factor sc b := by
  have key : ∀ f, factor sc a = some f ↔ factor sc b = some f := by
    intro f
    rw [factor_eq_some_iff' sc a f (le_max_left a.length b.length),
      factor_eq_some_iff' sc b f (le_max_right a.length b.length), covers_congr h]
    unfold factorSpec
    simp only [h _]
  cases ha : factor sc a with
  | some f => exact ((key f).1 ha).symm
  | none =>
    cases hb : factor sc b with
    | none => rfl
    | some g => rw [(key g).2 hb] at ha; cases ha

/-! ## affine (offset) units -/

/-- `from_reference ∘ to_reference = id` (needs a non-zero conversion factor) -/
theorem AffUnit.fromBase_toBase (u : AffUnit K) (hc : u.conv ≠ 0) (m : K) :
    u.fromBase (u.toBase m) = m := by
  simp only [AffUnit.fromBase, AffUnit.toBase, add_sub_cancel_right]
  exact mul_div_cancel_right₀ m hc

/-- `to_reference ∘ from_reference = id` (needs a non-zero conversion factor) -/
theorem AffUnit.toBase_fromBase (u : AffUnit K) (hc : u.conv ≠ 0) (b : K) :
    u.toBase (u.fromBase b) = b := by
  simp only [AffUnit.fromBase, AffUnit.toBase, div_mul_cancel₀ _ hc, sub_add_cancel]

/-- the base-unit value is the only thing `to_reference` loses nothing of: it is injective -/
theorem AffUnit.toBase_injective (u : AffUnit K) (hc : u.conv ≠ 0) {m m' : K}
    (h : u.toBase m = u.toBase m') : m = m' := by
  rw [← u.fromBase_toBase hc m, h, u.fromBase_toBase hc]

theorem nondimAff_eq_some_iff (sc : List (Option K)) (u : AffUnit K) (m v : K) :
    nondimAff sc u m = some v ↔ ∃ f, factor sc u.dim = some f ∧ u.toBase m / f = v := by
  simp [nondimAff, Option.map_eq_some_iff]

theorem dimensionalizeAff_eq_some_iff (sc : List (Option K)) (u : AffUnit K) (v q : K) :
    dimensionalizeAff sc u v = some q ↔ ∃ f, factor sc u.dim = some f ∧ u.fromBase (v * f) = q := by
  simp [dimensionalizeAff, Option.map_eq_some_iff]

end Field

/-! ## rounding of rationals -/

theorem ratFloor_eq (x : ℚ) : x.floor = ⌊x⌋ := rfl

theorem roundHalfEven_cases (x : ℚ) :
    (x - x.floor < 1 / 2 ∧ roundHalfEven x = x.floor) ∨
    (1 / 2 < x - x.floor ∧ roundHalfEven x = x.floor + 1) ∨
    (x - x.floor = 1 / 2 ∧ x.floor % 2 = 0 ∧ roundHalfEven x = x.floor) ∨
    (x - x.floor = 1 / 2 ∧ x.floor % 2 ≠ 0 ∧ roundHalfEven x = x.floor + 1) := by
  simp only [roundHalfEven]
  by_cases ha : x - x.floor < 1 / 2
  · left; exact ⟨ha, if_pos ha⟩
  · by_cases hb : 1 / 2 < x - x.floor
    · right; left; exact ⟨hb, by rw [if_neg ha, if_pos hb]⟩
    · have he : x - x.floor = 1 / 2 := le_antisymm (not_lt.mp hb) (not_lt.mp ha)
      by_cases hc : x.floor % 2 = 0
      · right; right; left; exact ⟨he, hc, by rw [if_neg ha, if_neg hb, if_pos hc]⟩
      · right; right; right; exact ⟨he, hc, by rw [if_neg ha, if_neg hb, if_neg hc]⟩

theorem roundHalfEven_spec (x : ℚ) :
    |x - roundHalfEven x| ≤ 1 / 2 ∧ (|x - roundHalfEven x| = 1 / 2 → Even (roundHalfEven x)) := by
  have h1 : (x.floor : ℚ) ≤ x := Int.floor_le x
  have h2 : x < (x.floor : ℚ) + 1 := Int.lt_floor_add_one x
  rcases roundHalfEven_cases x with ⟨ha, hr⟩ | ⟨ha, hr⟩ | ⟨ha, hc, hr⟩ | ⟨ha, hc, hr⟩ <;> rw [hr]
  · constructor
    · rw [abs_le]; constructor <;> linarith
    · intro h; exfalso; rw [abs_of_nonneg (by linarith)] at h; linarith
  · push_cast
    constructor
    · rw [abs_le]; constructor <;> linarith
    · intro h; exfalso; rw [abs_of_nonpos (by linarith)] at h; linarith
  · constructor
    · rw [abs_le]; constructor <;> linarith
    · intro _; exact Int.even_iff.mpr hc
  · push_cast
    constructor
    · rw [abs_le]; constructor <;> linarith
    · intro _
      rw [Int.even_add_one, Int.even_iff]; exact hc

/-- the only integer strictly within 1/2 of `x` is `roundHalfEven x` -/
theorem roundHalfEven_eq_of_close (x : ℚ) (n : ℤ) (h : |x - n| < 1 / 2) : roundHalfEven x = n := by
  have h1 := (roundHalfEven_spec x).1
  have h3 : |((roundHalfEven x - n : ℤ) : ℚ)| < 1 := by
    push_cast
    have : (roundHalfEven x : ℚ) - n = (x - n) - (x - roundHalfEven x) := by ring
    rw [this]
    calc |x - ↑n - (x - ↑(roundHalfEven x))| ≤ |x - ↑n| + |x - ↑(roundHalfEven x)| := abs_sub _ _
      _ < 1 := by linarith
  rw [← Int.cast_abs] at h3
  have h4 : |roundHalfEven x - n| < 1 := by exact_mod_cast h3
  have := Int.abs_lt_one_iff.mp h4
  omega

@[simp] theorem roundHalfEven_intCast (n : ℤ) : roundHalfEven (n : ℚ) = n :=
  roundHalfEven_eq_of_close _ n (by simp)

theorem ratFloor_intCast (n : ℤ) : (n : ℚ).floor = n := by
  rw [ratFloor_eq]; exact Int.floor_intCast n

@[simp] theorem truncRat_intCast (n : ℤ) : truncRat (n : ℚ) = n := by
  unfold truncRat
  split_ifs with h
  · exact ratFloor_intCast n
  · rw [← Int.cast_neg, ratFloor_intCast]; simp

theorem pow2_eq (e : ℤ) : pow2 e = (2 : ℚ) ^ e := by
  cases e with
  | ofNat n => simp [pow2]
  | negSucc n => simp [pow2, zpow_negSucc]

theorem two_zpow_pos (e : ℤ) : (0 : ℚ) < 2 ^ e := zpow_pos (by norm_num) e

theorem pow2_pos (e : ℤ) : 0 < pow2 e := by rw [pow2_eq]; exact two_zpow_pos e

theorem absRat_eq (x : ℚ) : absRat x = |x| := by
  unfold absRat
  split_ifs with h
  · rw [abs_of_neg h]
  · rw [abs_of_nonneg (not_lt.mp h)]

theorem roundAt_err (sh : ℤ) (x : ℚ) : |roundAt sh x - x| ≤ 1 / (2 * (2 : ℚ) ^ sh) := by
  unfold roundAt
  rw [pow2_eq]
  have hP : (0 : ℚ) < 2 ^ sh := two_zpow_pos sh
  have h := (roundHalfEven_spec (x * 2 ^ sh)).1
  have : (roundHalfEven (x * 2 ^ sh) : ℚ) / 2 ^ sh - x
      = -((x * 2 ^ sh - roundHalfEven (x * 2 ^ sh)) / 2 ^ sh) := by field_simp; ring
  rw [this, abs_neg, abs_div, abs_of_pos hP, div_le_div_iff₀ hP (by linarith)]
  calc |x * 2 ^ sh - ↑(roundHalfEven (x * 2 ^ sh))| * (2 * 2 ^ sh) ≤ 1 / 2 * (2 * 2 ^ sh) := by
        gcongr
    _ = 1 * 2 ^ sh := by ring

/-- an integer that stays an integer at the rounding position is not changed -/
theorem roundAt_intCast (sh : ℤ) (hsh : 0 ≤ sh) (n : ℤ) : roundAt sh (n : ℚ) = n := by
  unfold roundAt
  rw [pow2_eq]
  obtain ⟨k, rfl⟩ := Int.eq_ofNat_of_zero_le hsh
  have hP : (0 : ℚ) < 2 ^ (k : ℤ) := two_zpow_pos k
  have : (n : ℚ) * 2 ^ (k : ℤ) = ((n * 2 ^ k : ℤ) : ℚ) := by push_cast; rw [zpow_natCast]
  rw [this, roundHalfEven_intCast]
  push_cast
  rw [zpow_natCast]
  field_simp

/-! ## the rounding model of IEEE arithmetic -/

/-- unit roundoff of binary64 -/
def u53 : ℚ := 1 / 2 ^ 53

/-- The standard model of floating point arithmetic (no overflow / underflow): the result of an
operation is the exact result `x` rounded, `fl x = x (1 + δ)` with `|δ| ≤ 2⁻⁵³`, and integers below
`2⁵³` are representable. -/
structure RoundingModel (fl : ℚ → ℚ) : Prop where
  relErr : ∀ x, |fl x - x| ≤ u53 * |x|
  exactInt : ∀ n : ℤ, |n| < 2 ^ 53 → fl n = n

theorem roundingModel_id : RoundingModel id :=
  ⟨fun x => by simp [u53], fun _ _ => rfl⟩

theorem fl53_of_pow2_le (x : ℚ) (e : ℤ) (he : (2 : ℚ) ^ e ≤ |x|) :
    |roundAt (52 - e) x - x| ≤ u53 * |x| := by
  refine (roundAt_err _ x).trans ?_
  have h2 : (0 : ℚ) < 2 ^ e := two_zpow_pos e
  have : (2 : ℚ) * 2 ^ (52 - e) = 2 ^ 53 / 2 ^ e := by
    rw [zpow_sub₀ (by norm_num : (2 : ℚ) ≠ 0)]
    have : (2 : ℚ) ^ (52 : ℤ) = 2 ^ 52 := by norm_cast
    rw [this]; ring
  rw [this, u53, one_div_div]
  calc (2 : ℚ) ^ e / 2 ^ 53 ≤ |x| / 2 ^ 53 := by gcongr
    _ = 1 / 2 ^ 53 * |x| := by ring

theorem fl53_int_of_pow2_le (n : ℤ) (hn : |n| < 2 ^ 53) (e : ℤ) (he : (2 : ℚ) ^ e ≤ |(n : ℚ)|) :
    roundAt (52 - e) (n : ℚ) = n := by
  apply roundAt_intCast
  have h1 : (2 : ℚ) ^ e < 2 ^ (53 : ℤ) := by
    refine lt_of_le_of_lt he ?_
    rw [← Int.cast_abs]
    have : ((|n| : ℤ) : ℚ) < ((2 ^ 53 : ℤ) : ℚ) := by exact_mod_cast hn
    rw [show (2 : ℚ) ^ (53 : ℤ) = ((2 ^ 53 : ℤ) : ℚ) by norm_cast]
    exact this
  have := (zpow_lt_zpow_iff_right₀ (by norm_num : (1 : ℚ) < 2)).1 h1
  omega

theorem roundingModel_fl53 : RoundingModel fl53 := by
  constructor
  · intro x
    simp only [fl53]
    split_ifs with h0 h1 h2
    · simp [h0]
    · rw [absRat_eq, pow2_eq] at h1
      exact fl53_of_pow2_le x _ h1
    · rw [absRat_eq, pow2_eq] at h2
      have := fl53_of_pow2_le x _ h2
      rwa [sub_sub_eq_add_sub, show (52 : ℤ) + 1 = 53 by norm_num] at this
    · simp [u53]
  · intro n hn
    simp only [fl53]
    split_ifs with h0 h1 h2
    · simp [h0]
    · rw [absRat_eq, pow2_eq] at h1
      exact fl53_int_of_pow2_le n hn _ h1
    · rw [absRat_eq, pow2_eq] at h2
      have := fl53_int_of_pow2_le n hn _ h2
      rwa [sub_sub_eq_add_sub, show (52 : ℤ) + 1 = 53 by norm_num] at this
    · rfl

/-! ## propagation of relative errors -/

/-- `a` approximates `x` with relative error at most `ε` -/
def Rel (ε a x : ℚ) : Prop := |a - x| ≤ ε * |x|

/-- relative error of `k` roundings -/
def E (k : ℕ) : ℚ := (1 + u53) ^ k - 1

theorem u53_pos : 0 < u53 := by unfold u53; positivity

theorem E_nonneg (k : ℕ) : 0 ≤ E k := by
  unfold E
  have : (1 : ℚ) ≤ (1 + u53) ^ k := one_le_pow₀ (by linarith [u53_pos])
  linarith

theorem Rel.refl (x : ℚ) : Rel (E 0) x x := by simp [Rel, E]

theorem Rel.abs_le {ε a x : ℚ} (h : Rel ε a x) : |a| ≤ (1 + ε) * |x| := by
  have : |a| ≤ |a - x| + |x| := by
    have := abs_add_le (a - x) x
    simpa using this
  unfold Rel at h
  linarith

theorem Rel.mul {j k : ℕ} {a x b y : ℚ} (ha : Rel (E j) a x) (hb : Rel (E k) b y) :
    Rel (E (j + k)) (a * b) (x * y) := by
  have ha' := ha.abs_le
  unfold Rel at *
  have hj := E_nonneg j
  have hk := E_nonneg k
  have e1 : a * b - x * y = a * (b - y) + (a - x) * y := by ring
  have e2 : E (j + k) = (1 + E j) * E k + E j := by unfold E; rw [pow_add]; ring
  rw [e1, e2, abs_mul x y]
  calc |a * (b - y) + (a - x) * y| ≤ |a| * |b - y| + |a - x| * |y| := by
        refine (abs_add_le _ _).trans ?_
        rw [abs_mul, abs_mul]
    _ ≤ ((1 + E j) * |x|) * (E k * |y|) + (E j * |x|) * |y| := by gcongr
    _ = ((1 + E j) * E k + E j) * (|x| * |y|) := by ring

theorem Rel.mul_const {k : ℕ} {a x : ℚ} (ha : Rel (E k) a x) (c : ℚ) : Rel (E k) (a * c) (x * c) := by
  simpa using ha.mul (Rel.refl c)

theorem Rel.div_const {k : ℕ} {a x : ℚ} (ha : Rel (E k) a x) (c : ℚ) : Rel (E k) (a / c) (x / c) := by
  simpa [div_eq_mul_inv] using ha.mul_const c⁻¹

theorem Rel.fl {fl : ℚ → ℚ} (hfl : RoundingModel fl) {k : ℕ} {a x : ℚ} (ha : Rel (E k) a x) :
    Rel (E (k + 1)) (fl a) x := by
  have h1 := hfl.relErr a
  have ha' := ha.abs_le
  unfold Rel at *
  have e2 : E (k + 1) = u53 * (1 + E k) + E k := by unfold E; rw [pow_succ]; ring
  have e1 : fl a - x = (fl a - a) + (a - x) := by ring
  rw [e1, e2]
  calc |fl a - a + (a - x)| ≤ |fl a - a| + |a - x| := abs_add_le _ _
    _ ≤ u53 * ((1 + E k) * |x|) + E k * |x| := by
        have := mul_le_mul_of_nonneg_left ha' u53_pos.le
        linarith
    _ = (u53 * (1 + E k) + E k) * |x| := by ring

theorem Rel.fl0 {fl : ℚ → ℚ} (hfl : RoundingModel fl) (x : ℚ) : Rel (E 1) (fl x) x :=
  (Rel.refl x).fl hfl

/-- an approximation of an integer with absolute error below 1/2 rounds to that integer -/
theorem Rel.round_eq {k : ℕ} {a : ℚ} {n : ℤ} (h : Rel (E k) a n) (hb : E k * |(n : ℚ)| < 1 / 2) :
    roundHalfEven a = n :=
  roundHalfEven_eq_of_close a n (lt_of_le_of_lt h hb)

/-! ## orbital phase reduction -/

section Ordered
variable {K : Type} [Field K] [LinearOrder K] [IsStrictOrderedRing K] [FloorRing K]

/-- the floor function as a map `K → K` (what the model is run with) -/
def floorK (x : K) : K := ((⌊x⌋ : ℤ) : K)

omit [IsStrictOrderedRing K] in
theorem reduce_eq (p x : K) : reduce floorK p x = x - (⌊x / p⌋ : ℤ) * p := rfl

end Ordered

theorem natK_eq {K : Type} [Field K] (n : ℕ) : (natK n : K) = n := by
  induction n with
  | zero => simp [natK]
  | succ n ih => simp [natK, ih]

/-! ## `Scale.__init__` -/

section MkScale

theorem all_zero_iff (d : List ℤ) : d.all (· == 0) = true ↔ ∀ j, dget d j = 0 := by
  induction d with
  | nil => simp
  | cons e d ih =>
    simp only [List.all_cons, Bool.and_eq_true, beq_iff_eq, ih]
    constructor
    · rintro ⟨he, h⟩ j
      cases j with
      | zero => simpa using he
      | succ j => simpa using h j
    · intro h
      exact ⟨by simpa using h 0, fun j => by simpa using h (j + 1)⟩

theorem singleDim_eq_some_iff (d : List ℤ) (i : ℕ) :
    singleDim d = some i ↔ dget d i = 1 ∧ ∀ j, j ≠ i → dget d j = 0 := by
  induction d generalizing i with
  | nil => simp [singleDim]
  | cons e d ih =>
    simp only [singleDim]
    split_ifs with h0 h1
    · subst h0
      cases i with
      | zero => simp
      | succ i =>
        simp only [Option.map_eq_some_iff, Nat.add_right_cancel_iff, exists_eq_right, ih,
          dget_cons_succ]
        constructor
        · rintro ⟨h1, h2⟩
          refine ⟨h1, fun j hj => ?_⟩
          cases j with
          | zero => simp
          | succ j => simpa using h2 j (by omega)
        · rintro ⟨h1, h2⟩
          exact ⟨h1, fun j hj => by simpa using h2 (j + 1) (by omega)⟩
    · obtain ⟨he, hall⟩ := h1
      rw [all_zero_iff] at hall
      subst he
      cases i with
      | zero =>
        simp only [dget_cons_zero, true_and]
        refine ⟨fun _ j hj => ?_, fun _ => trivial⟩
        cases j with
        | zero => exact absurd rfl hj
        | succ j => simpa using hall j
      | succ i =>
        simp only [Option.some.injEq, dget_cons_succ]
        constructor
        · intro h; omega
        · rintro ⟨_, h2⟩
          have := h2 0 (by omega)
          simp at this
    · simp only [false_iff, not_and]
      intro hi hz
      cases i with
      | zero =>
        apply h1
        refine ⟨by simpa using hi, ?_⟩
        rw [all_zero_iff]
        intro j
        simpa using hz (j + 1) (by omega)
      | succ i =>
        have := hz 0 (by omega)
        simp at this
        exact h0 this

variable {K : Type}

theorem setAt_eq_some_iff (i : ℕ) (m : K) (sc sc' : List (Option K)) :
    setAt i m sc = some sc' ↔ sc[i]? = some none ∧ sc' = sc.set i (some m) := by
  fun_induction setAt i m sc generalizing sc' with
  | case1 i m => simp
  | case2 m sc => simp [eq_comm]
  | case3 m sc q => simp
  | case4 i m s sc ih =>
    simp only [Option.map_eq_some_iff, ih, List.getElem?_cons_succ, List.set_cons_succ]
    constructor
    · rintro ⟨a, ⟨h1, rfl⟩, rfl⟩
      exact ⟨h1, rfl⟩
    · rintro ⟨h1, rfl⟩
      exact ⟨_, ⟨h1, rfl⟩, rfl⟩


/-- the magnitude given for base dimension `i`, if any -/
def scaleEntry (qs : List (K × List ℤ)) (i : ℕ) : Option K :=
  (qs.find? (fun q => singleDim q.2 == some i)).map Prod.fst

/-- what `Scale.__init__` accepts: every quantity has a single base dimension (one of the `n`) with
exponent 1, and no dimension is given twice -/
def ValidScales (n : ℕ) (qs : List (K × List ℤ)) : Prop :=
  (∀ q ∈ qs, ∃ i, i < n ∧ singleDim q.2 = some i) ∧ (qs.map (fun q => singleDim q.2)).Nodup

theorem scaleEntry_cons (m : K) (d : List ℤ) (qs : List (K × List ℤ)) (j : ℕ) :
    scaleEntry ((m, d) :: qs) j = if singleDim d = some j then some m else scaleEntry qs j := by
  unfold scaleEntry
  rw [List.find?_cons]
  by_cases h : singleDim d = some j
  · simp [h]
  · have hb : (singleDim d == some j) = false := by simpa using h
    simp [hb, h]

theorem scaleEntry_eq_none_iff (qs : List (K × List ℤ)) (i : ℕ) :
    scaleEntry qs i = none ↔ some i ∉ qs.map (fun q => singleDim q.2) := by
  unfold scaleEntry
  rw [Option.map_eq_none_iff, List.find?_eq_none]
  simp only [List.mem_map, not_exists, not_and, beq_iff_eq]

theorem mkScale_eq_some_iff (n : ℕ) (qs : List (K × List ℤ)) (sc : List (Option K)) :
    mkScale n qs = some sc ↔ ValidScales n qs ∧ sc = (List.range n).map (scaleEntry qs) := by
  induction qs generalizing sc with
  | nil =>
    have : (List.range n).map (scaleEntry ([] : List (K × List ℤ))) = List.replicate n none := by
      have h0 : scaleEntry ([] : List (K × List ℤ)) = fun _ => none := by
        funext i; simp [scaleEntry]
      rw [h0, List.map_const', List.length_range]
    simp [mkScale, ValidScales, this, eq_comm]
  | cons q qs ih =>
    obtain ⟨m, d⟩ := q
    have hvalid : ValidScales n ((m, d) :: qs) ↔
        (∃ i, i < n ∧ singleDim d = some i) ∧ singleDim d ∉ qs.map (fun q => singleDim q.2) ∧
          ValidScales n qs := by
      simp only [ValidScales, List.forall_mem_cons, List.map_cons, List.nodup_cons]
      tauto
    rw [hvalid]
    simp only [mkScale]
    cases h1 : mkScale n qs with
    | none =>
      simp only [reduceCtorEq, false_iff]
      rintro ⟨⟨_, _, hv⟩, _⟩
      have := (ih _).2 ⟨hv, rfl⟩
      rw [h1] at this; cases this
    | some sc0 =>
      obtain ⟨hv, rfl⟩ := (ih sc0).1 h1
      cases h2 : singleDim d with
      | none => simp
      | some i =>
        simp only [setAt_eq_some_iff, Option.some.injEq, exists_eq_right', hv, and_true]
        have hget : ((List.range n).map (scaleEntry qs))[i]? = some none ↔
            i < n ∧ some i ∉ qs.map (fun q => singleDim q.2) := by
          rw [← scaleEntry_eq_none_iff]
          by_cases hi : i < n
          · simp [hi]
          · simp [hi]
        rw [hget]
        have hset : i < n → ((List.range n).map (scaleEntry qs)).set i (some m)
            = (List.range n).map (scaleEntry ((m, d) :: qs)) := by
          intro hi
          apply List.ext_getElem?
          intro j
          rw [List.getElem?_set]
          by_cases hj : j < n
          · by_cases hij : i = j
            · subst hij; simp [hj, scaleEntry_cons, h2]
            · simp [hj, hij, scaleEntry_cons, h2]
          · have : i ≠ j := by omega
            simp [hj, this]
        constructor
        · rintro ⟨⟨hi, hn⟩, rfl⟩
          exact ⟨⟨hi, hn⟩, (hset hi)⟩
        · rintro ⟨⟨hi, hn⟩, rfl⟩
          exact ⟨⟨hi, hn⟩, (hset hi).symm⟩


end MkScale

end Dino.Units
