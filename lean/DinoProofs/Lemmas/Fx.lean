import Dino.Fx
import Mathlib.Data.Rat.Defs
import Mathlib.Algebra.Order.Field.Basic
import Mathlib.Algebra.Order.Field.Rat
import Mathlib.Algebra.BigOperators.Group.List.Basic
import Mathlib.Algebra.Order.AbsoluteValue.Basic
import Mathlib.Tactic.Ring
import Mathlib.Tactic.FieldSimp
import Mathlib.Tactic.Positivity
import Mathlib.Tactic.Linarith

/-! The value map `Fx → ℚ` preserves the arithmetic used by the exact certificates. -/
namespace Dino.Fx

/-- value of `m / 2^e` -/
def val (a : Fx) : ℚ := (a.m : ℚ) / (2 : ℚ) ^ a.e

theorem pow2_cast (k : Nat) : ((pow2 k : Int) : ℚ) = (2 : ℚ) ^ k := by
  simp [pow2]

@[simp] theorem val_zero : val 0 = 0 := by simp [val, show (0 : Fx) = ⟨0, 0⟩ from rfl]
@[simp] theorem val_one : val 1 = 1 := by simp [val, show (1 : Fx) = ⟨1, 0⟩ from rfl]

theorem val_add (a b : Fx) : val (a + b) = val a + val b := by
  show val (add a b) = _
  unfold add
  have h2 : (2 : ℚ) ≠ 0 := by norm_num
  split
  · rename_i h
    simp only [val, Int.cast_add, Int.cast_mul, pow2_cast]
    have : (2 : ℚ) ^ b.e = 2 ^ (b.e - a.e) * 2 ^ a.e := by
      rw [← pow_add]; congr 1; omega
    rw [this]; field_simp
  · rename_i h
    simp only [val, Int.cast_add, Int.cast_mul, pow2_cast]
    have : (2 : ℚ) ^ a.e = 2 ^ (a.e - b.e) * 2 ^ b.e := by
      rw [← pow_add]; congr 1; omega
    rw [this]; field_simp

theorem val_mul (a b : Fx) : val (a * b) = val a * val b := by
  show val (mul a b) = _
  simp only [mul, val, Int.cast_mul, pow_add]
  field_simp

theorem val_neg (a : Fx) : val (-a) = -val a := by
  show val (neg a) = _
  simp [neg, val, neg_div]

theorem val_sub (a b : Fx) : val (a - b) = val a - val b := by
  have h : a - b = a + (-b) := rfl
  rw [h, val_add, val_neg]; ring

theorem val_abs (a : Fx) : val (abs a) = |val a| := by
  simp only [abs, val]
  rw [abs_div, abs_of_pos (by positivity : (0 : ℚ) < 2 ^ a.e)]
  congr 1
  rw [Nat.cast_natAbs]; push_cast; rfl

theorem le_iff (a b : Fx) : le a b = true ↔ val a ≤ val b := by
  simp only [le, decide_eq_true_eq, val]
  rw [div_le_div_iff₀ (by positivity) (by positivity)]
  have : ((a.m * pow2 b.e : Int) : ℚ) = (a.m : ℚ) * 2 ^ b.e := by simp [pow2_cast]
  have h2 : ((b.m * pow2 a.e : Int) : ℚ) = (b.m : ℚ) * 2 ^ a.e := by simp [pow2_cast]
  rw [← this, ← h2, Int.cast_le]

theorem val_sum (l : List Fx) : val l.sum = (l.map val).sum := by
  induction l with
  | nil => simp
  | cons a t ih => simp [val_add, ih]

theorem val_ite (c : Prop) [Decidable c] : val (if c then 1 else 0) = if c then (1 : ℚ) else 0 := by
  split <;> simp

end Dino.Fx
