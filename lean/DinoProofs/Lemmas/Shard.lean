import Dino.Shard
import DinoProofs.Lemmas.Sigma
import DinoProofs.Lemmas.Lin
import Mathlib.Algebra.BigOperators.Group.Finset.Basic
import Mathlib.Algebra.BigOperators.Intervals
import Mathlib.Data.Nat.ModEq
import Mathlib.Tactic.Ring
import Mathlib.Tactic.Linarith

/-! Helper lemmas for `Dino.Shard` (C07). -/
namespace Dino.Shard
open Finset

/-! ## modular index arithmetic -/

/-- Python's `%` on a possibly negative integer, read back as a natural number -/
theorem toNat_emod_eq (t : Int) (m n : Nat) (q : Int) (h : t = (m : Int) + q * (n : Int)) :
    (t % (n : Int)).toNat = m % n := by
  subst h
  rw [Int.add_mul_emod_self_right, ← Int.natCast_mod, Int.toNat_natCast]

theorem succ_mod_cases (n j : Nat) (hj : j < n) : (j + 1) % n = if j + 1 = n then 0 else j + 1 := by
  split
  · next h => rw [h, Nat.mod_self]
  · next h => exact Nat.mod_eq_of_lt (by omega)

theorem pred_mod_cases (n d : Nat) (hd : d < n) :
    (d + n - 1) % n = if d = 0 then n - 1 else d - 1 := by
  split
  · next h => subst h; rw [Nat.zero_add]; exact Nat.mod_eq_of_lt (by omega)
  · next h =>
    rw [show d + n - 1 = (d - 1) + n by omega, Nat.add_mod_right]
    exact Nat.mod_eq_of_lt (by omega)

theorem permBwd_dst (n j : Nat) (hn : 0 < n) :
    (((j : Int) - 1) % (n : Int)).toNat = (j + n - 1) % n := by
  apply toNat_emod_eq _ _ _ (-1)
  have : ((j + n - 1 : Nat) : Int) = (j : Int) + n - 1 := by omega
  rw [this]; ring

/-! ## `ppermute` -/

@[simp] theorem length_ppermute {X : Type} (z : X) (perm : List (Nat × Nat)) (xs : List X) :
    (ppermute z perm xs).length = xs.length := by simp [ppermute]

/-- forward permute: device `d` receives from `d - 1` -/
theorem ppermute_permFwd {X : Type} (z : X) (xs : List X) (n : Nat) (hn : xs.length = n) :
    ppermute z (permFwd n) xs = (List.range n).map fun d => xs.getD ((d + n - 1) % n) z := by
  unfold ppermute
  rw [hn]
  apply List.map_congr_left
  intro d hd
  rw [List.mem_range] at hd
  have hfind : (permFwd n).find? (fun p => p.2 == d) = some ((d + n - 1) % n, d) := by
    unfold permFwd
    rw [List.find?_map]
    have : (List.range n).find? ((fun p : Nat × Nat => p.2 == d) ∘ fun j => (j, (j + 1) % n))
        = some ((d + n - 1) % n) := by
      rw [List.find?_range_eq_some]
      have hlt : (d + n - 1) % n < n := Nat.mod_lt _ (by omega)
      refine ⟨?_, List.mem_range.2 hlt, ?_⟩
      · simp only [Function.comp, beq_iff_eq]
        rw [pred_mod_cases n d hd]
        split
        · next h => rw [show n - 1 + 1 = n by omega, Nat.mod_self]; omega
        · next h => rw [show d - 1 + 1 = d by omega]; exact Nat.mod_eq_of_lt hd
      · intro j hj
        simp only [Function.comp, Bool.not_eq_eq_eq_not, Bool.not_true, beq_eq_false_iff_ne, ne_eq]
        rw [pred_mod_cases n d hd] at hj
        rw [succ_mod_cases n j (by split at hj <;> omega)]
        split at hj <;> split <;> omega
    rw [this]
    simp only [Option.map_some, Option.some.injEq, Prod.mk.injEq, true_and]
    rw [pred_mod_cases n d hd]
    split
    · next h => rw [show n - 1 + 1 = n by omega, Nat.mod_self]; omega
    · next h => rw [show d - 1 + 1 = d by omega]; exact Nat.mod_eq_of_lt hd
  rw [hfind]

/-- backward permute: device `d` receives from `d + 1` -/
theorem ppermute_permBwd {X : Type} (z : X) (xs : List X) (n : Nat) (hn : xs.length = n) :
    ppermute z (permBwd n) xs = (List.range n).map fun d => xs.getD ((d + 1) % n) z := by
  unfold ppermute
  rw [hn]
  apply List.map_congr_left
  intro d hd
  rw [List.mem_range] at hd
  have hn0 : 0 < n := by omega
  have hfind : (permBwd n).find? (fun p => p.2 == d) = some ((d + 1) % n, d) := by
    unfold permBwd
    rw [List.find?_map]
    have : (List.range n).find? ((fun p : Nat × Nat => p.2 == d) ∘
          fun j => (j, (((j : Int) - 1) % (n : Int)).toNat)) = some ((d + 1) % n) := by
      rw [List.find?_range_eq_some]
      have hlt : (d + 1) % n < n := Nat.mod_lt _ hn0
      refine ⟨?_, List.mem_range.2 hlt, ?_⟩
      · simp only [Function.comp, beq_iff_eq]
        rw [permBwd_dst n _ hn0, pred_mod_cases n _ hlt, succ_mod_cases n d hd]
        split <;> split <;> omega
      · intro j hj
        simp only [Function.comp, Bool.not_eq_eq_eq_not, Bool.not_true, beq_eq_false_iff_ne, ne_eq]
        rw [succ_mod_cases n d hd] at hj
        rw [permBwd_dst n _ hn0, pred_mod_cases n j (by split at hj <;> omega)]
        split at hj <;> split <;> omega
    rw [this]
    simp only [Option.map_some, Option.some.injEq, Prod.mk.injEq, true_and]
    rw [permBwd_dst n _ hn0, pred_mod_cases n _ (Nat.mod_lt _ hn0), succ_mod_cases n d hd]
    split <;> split <;> omega
  rw [hfind]

/-! ## `fori_loop` -/

theorem foriLoop_induction {σ : Type} (P : Nat → σ → Prop) (lo hi : Nat) (h : lo ≤ hi)
    (body : Nat → σ → σ) (init : σ) (h0 : P lo init)
    (hs : ∀ i s, lo ≤ i → i < hi → P i s → P (i + 1) (body i s)) :
    P hi (foriLoop lo hi body init) := by
  unfold foriLoop
  have key : ∀ k, k ≤ hi - lo →
      P (lo + k) ((List.range' lo k).foldl (fun s i => body i s) init) := by
    intro k
    induction k with
    | zero => intro _; simpa using h0
    | succ k ih =>
      intro hk
      rw [List.range'_concat, List.foldl_append]
      simp only [List.foldl_cons, List.foldl_nil, Nat.one_mul]
      have := hs (lo + k) _ (by omega) (by omega) (ih (by omega))
      rwa [Nat.add_assoc] at this
  have := key (hi - lo) (le_refl _)
  rwa [show lo + (hi - lo) = hi by omega] at this

/-! ## rotation-invariance of sums over `Z/n` -/

section sums
variable {M : Type} [AddCommMonoid M]

theorem sum_range_rot (f : Nat → M) (n s : Nat) :
    ∑ j ∈ range n, f ((s + j) % n) = ∑ c ∈ range n, f c := by
  rcases Nat.eq_zero_or_pos n with rfl | hn
  · simp
  have hs : s % n < n := Nat.mod_lt _ hn
  have h1 : ∀ j, (s + j) % n = (s % n + j) % n := fun j => by rw [Nat.mod_add_mod]
  simp only [h1]
  generalize s % n = t at hs
  have e1 : ∑ j ∈ range n, f ((t + j) % n) = ∑ j ∈ range ((n - t) + t), f ((t + j) % n) := by
    rw [Nat.sub_add_cancel (le_of_lt hs)]
  have e2 : ∑ c ∈ range n, f c = ∑ c ∈ range (t + (n - t)), f c := by
    rw [Nat.add_sub_cancel' (le_of_lt hs)]
  rw [e1, e2, Finset.sum_range_add, Finset.sum_range_add, add_comm]
  congr 1
  · apply Finset.sum_congr rfl
    intro j hj
    rw [Finset.mem_range] at hj
    rw [show t + (n - t + j) = j + n by omega, Nat.add_mod_right, Nat.mod_eq_of_lt (by omega)]
  · apply Finset.sum_congr rfl
    intro j hj
    rw [Finset.mem_range] at hj
    rw [Nat.mod_eq_of_lt (by omega)]

/-- the indices `a − k` and `a + k + 1`, `k < h`, enumerate `Z/(2h)` exactly once -/
theorem twoway_cover (f : Nat → M) (h a : Nat) :
    ∑ k ∈ range h, (f ((a + k * (2 * h - 1)) % (2 * h)) + f ((a + k + 1) % (2 * h)))
      = ∑ c ∈ range (2 * h), f c := by
  rcases Nat.eq_zero_or_pos h with rfl | hh
  · simp
  rw [Finset.sum_add_distrib]
  have hneg : ∀ k, k < h → (a + k * (2 * h - 1)) % (2 * h) = (a + (2 * h - k)) % (2 * h) := by
    intro k hk
    have e1 : a + k * (2 * h - 1) + k = a + k * (2 * h) := by
      have : k * (2 * h - 1) + k = k * (2 * h) := by
        rw [← Nat.mul_succ]; congr 1; omega
      omega
    have e2 : a + (2 * h - k) + k = a + 2 * h := by omega
    have m1 : a + k * (2 * h - 1) + k ≡ a + (2 * h - k) + k [MOD 2 * h] := by
      rw [e1, e2]
      unfold Nat.ModEq
      rw [Nat.add_mul_mod_self_right, Nat.add_mod_right]
    exact Nat.ModEq.add_right_cancel' k m1
  have s1 : ∑ k ∈ range h, f ((a + k * (2 * h - 1)) % (2 * h))
      = ∑ k ∈ range h, f ((a + 1 + (h + k)) % (2 * h)) := by
    rw [← Finset.sum_range_reflect]
    apply Finset.sum_congr rfl
    intro k hk
    rw [Finset.mem_range] at hk
    rw [hneg _ (by omega)]
    congr 2
    omega
  have s2 : ∑ k ∈ range h, f ((a + k + 1) % (2 * h))
      = ∑ k ∈ range h, f ((a + 1 + k) % (2 * h)) := by
    apply Finset.sum_congr rfl
    intro k _
    congr 2
    omega
  rw [s1, s2, add_comm, ← Finset.sum_range_add (fun j => f ((a + 1 + j) % (2 * h))),
    show h + h = 2 * h by omega]
  exact sum_range_rot f (2 * h) (a + 1)

end sums

/-! ## device-indexed lists -/

theorem getD_map_range {α : Type} (n : Nat) (F : Nat → α) (z : α) (k : Nat) (hk : k < n) :
    ((List.range n).map F).getD k z = F k := by
  simp [List.getD_eq_getElem?_getD, hk]

theorem eq_map_range_getD {α : Type} (xs : List α) (z : α) (n : Nat) (hn : xs.length = n) :
    xs = (List.range n).map fun a => xs.getD a z := by
  subst hn
  apply List.ext_getElem
  · simp
  · intro i h1 h2
    simp [List.getD_eq_getElem?_getD, h1]

theorem vaddM_map_range {M : Type} [Add M] (n : Nat) (F G : Nat → M) :
    vaddM ((List.range n).map F) ((List.range n).map G) = (List.range n).map fun a => F a + G a := by
  unfold vaddM
  rw [List.zipWith_map_left, List.zipWith_map_right, List.zipWith_self]

/-! ## rotations of a device-indexed list -/

/-- device `a` holds the entry of device `a + t` -/
def rot {X : Type} (n : Nat) (xs : List X) (z : X) (t : Nat) : List X :=
  (List.range n).map fun a => xs.getD ((a + t) % n) z

@[simp] theorem length_rot {X : Type} (n : Nat) (xs : List X) (z : X) (t : Nat) :
    (rot n xs z t).length = n := by simp [rot]

theorem rot_zero {X : Type} (n : Nat) (xs : List X) (z : X) (hn : xs.length = n) :
    rot n xs z 0 = xs := by
  rw [eq_map_range_getD xs z n hn]
  unfold rot
  apply List.map_congr_left
  intro a ha
  rw [List.mem_range] at ha
  rw [Nat.add_zero, Nat.mod_eq_of_lt ha, ← eq_map_range_getD xs z n hn]

theorem getD_rot {X : Type} (n : Nat) (xs : List X) (z : X) (t a : Nat) (ha : a < n) :
    (rot n xs z t).getD a z = xs.getD ((a + t) % n) z := getD_map_range n _ z a ha

theorem ppermute_fwd_rot {X : Type} (z : X) (xs : List X) (n t : Nat) (hn0 : 0 < n) :
    ppermute z (permFwd n) (rot n xs z t) = rot n xs z (t + (n - 1)) := by
  rw [ppermute_permFwd z _ n (length_rot _ _ _ _)]
  unfold rot
  apply List.map_congr_left
  intro d hd
  rw [getD_map_range n _ z _ (Nat.mod_lt _ hn0), Nat.mod_add_mod]
  congr 2
  omega

theorem ppermute_bwd_rot {X : Type} (z : X) (xs : List X) (n t : Nat) (hn0 : 0 < n) :
    ppermute z (permBwd n) (rot n xs z t) = rot n xs z (t + 1) := by
  rw [ppermute_permBwd z _ n (length_rot _ _ _ _)]
  unfold rot
  apply List.map_congr_left
  intro d hd
  rw [getD_map_range n _ z _ (Nat.mod_lt _ hn0), Nat.mod_add_mod]
  congr 2
  omega

/-! ## chunk indices -/

theorem chunkIndex_neg (n a j : Nat) (hn : 0 < n) :
    chunkIndex n a (-(j : Int)) = (a + j * (n - 1)) % n := by
  unfold chunkIndex
  apply toNat_emod_eq _ _ _ (-(j : Int))
  have : ((n - 1 : Nat) : Int) = (n : Int) - 1 := by omega
  push_cast
  rw [this]
  ring

theorem chunkIndex_succ (n a j : Nat) :
    chunkIndex n a ((j : Int) + 1) = (a + j + 1) % n := by
  unfold chunkIndex
  apply toNat_emod_eq _ _ _ 0
  push_cast
  ring

theorem chunkIndex_half_neg (n a h j : Nat) (hn : 0 < n) :
    chunkIndex n a ((h : Int) + -(j : Int)) = (a + h + j * (n - 1)) % n := by
  unfold chunkIndex
  apply toNat_emod_eq _ _ _ (-(j : Int))
  have : ((n - 1 : Nat) : Int) = (n : Int) - 1 := by omega
  push_cast
  rw [this]
  ring

theorem chunkIndex_half_succ (n a h j : Nat) :
    chunkIndex n a ((h : Int) + ((j : Int) + 1)) = (a + h + j + 1) % n := by
  unfold chunkIndex
  apply toNat_emod_eq _ _ _ 0
  push_cast
  ring

/-! ## T7.1 the all-gather matmul, every even axis size -/

section allgather
variable {L X M : Type} [AddCommMonoid M]

theorem allgatherMatmul_even (mm : L → X → M) (z : X) (lhs : Nat → Nat → L) (rhs : List X)
    (h : Nat) (hn : rhs.length = 2 * h) (hh : 0 < h) :
    allgatherMatmul mm z lhs rhs
      = some ((List.range (2 * h)).map fun a => ∑ c ∈ range (2 * h), mm (lhs a c) (rhs.getD c z)) := by
  have hn0 : 0 < 2 * h := by omega
  unfold allgatherMatmul
  simp only [hn]
  rw [if_neg (by omega), if_neg (by omega)]
  simp only [Option.some.injEq]
  -- the per-device product of chunk `c` with the shard of device `c`
  let T : Nat → Nat → M := fun a c => mm (lhs a c) (rhs.getD c z)
  -- state before iteration `i` (steps `0 … i-1` done)
  let acc : Nat → List M := fun i => (List.range (2 * h)).map fun a =>
    ∑ k ∈ range i, (T a ((a + k * (2 * h - 1)) % (2 * h)) + T a ((a + k + 1) % (2 * h)))
  have hstep : ∀ i, agIndexed mm z (2 * h) lhs i (rot (2 * h) rhs z (i * (2 * h - 1)))
        (rot (2 * h) rhs z (i + 1))
      = (List.range (2 * h)).map fun a =>
          T a ((a + i * (2 * h - 1)) % (2 * h)) + T a ((a + i + 1) % (2 * h)) := by
    intro i
    unfold agIndexed
    apply List.map_congr_left
    intro a ha
    rw [List.mem_range] at ha
    rw [getD_rot _ _ _ _ _ ha, getD_rot _ _ _ _ _ ha, chunkIndex_neg _ _ _ hn0, chunkIndex_succ,
      ← Nat.add_assoc]
  have hloop := foriLoop_induction
    (fun i (s : List M × List X × List X) => ∃ j, i = j + 1 ∧
      s = (acc i, rot (2 * h) rhs z (j * (2 * h - 1)), rot (2 * h) rhs z i))
    1 (2 * h / 2) (by omega)
    (fun i (s : List M × List X × List X) =>
      (vaddM s.1 (agIndexed mm z (2 * h) lhs i (ppermute z (permFwd (2 * h)) s.2.1)
        (ppermute z (permBwd (2 * h)) s.2.2)),
        ppermute z (permFwd (2 * h)) s.2.1, ppermute z (permBwd (2 * h)) s.2.2))
    (agIndexed mm z (2 * h) lhs 0 rhs (ppermute z (permBwd (2 * h)) rhs), rhs,
      ppermute z (permBwd (2 * h)) rhs)
    (by
      refine ⟨0, rfl, ?_⟩
      have hb : ppermute z (permBwd (2 * h)) rhs = rot (2 * h) rhs z 1 := by
        conv_lhs => rw [← rot_zero (2 * h) rhs z hn]
        exact ppermute_bwd_rot z rhs (2 * h) 0 hn0
      have h0 := hstep 0
      rw [Nat.zero_mul, Nat.zero_add, rot_zero _ _ _ hn] at h0
      rw [hb, h0, Nat.zero_mul, rot_zero _ _ _ hn]
      simp only [acc, Finset.sum_range_one, Nat.zero_mul])
    (by
      rintro i s hi1 hi2 ⟨j, rfl, rfl⟩
      refine ⟨j + 1, rfl, ?_⟩
      simp only
      rw [ppermute_fwd_rot z rhs _ _ hn0, ppermute_bwd_rot z rhs _ _ hn0,
        show j * (2 * h - 1) + (2 * h - 1) = (j + 1) * (2 * h - 1) from (Nat.succ_mul _ _).symm, hstep (j + 1)]
      simp only [acc]
      rw [vaddM_map_range]
      congr 1
      apply List.map_congr_left
      intro a _
      rw [Finset.sum_range_succ _ (j + 1)])
  obtain ⟨j, hj, hs⟩ := hloop
  rw [hs]
  simp only [acc]
  rw [show 2 * h / 2 = h by omega]
  apply List.map_congr_left
  intro a _
  exact twoway_cover (T a) h a

end allgather

/-! ## T7.2 the reduce-scatter matmul, every even axis size -/

section reducescatter
variable {L X M : Type} [AddCommMonoid M]

theorem mod_shift_fwd (d n y : Nat) (hn : 0 < n) :
    ((d + n - 1) % n + y) % n = (d + (n - 1) + y) % n := by
  rw [Nat.mod_add_mod]; congr 1; omega

theorem matmulReducescatter_even (mm : L → X → M) (z : X) (lhs : Nat → Nat → L) (rhs : List X)
    (h : Nat) (hn : rhs.length = 2 * h) (hh : 0 < h) :
    matmulReducescatter mm z lhs rhs
      = some ((List.range (2 * h)).map fun a => ∑ s ∈ range (2 * h), mm (lhs s a) (rhs.getD s z)) := by
  have hn0 : 0 < 2 * h := by omega
  have hhalf : 2 * h / 2 = h := by omega
  unfold matmulReducescatter
  simp only [hn]
  rw [if_neg (by omega), if_neg (by omega)]
  simp only [Option.some.injEq, hhalf]
  -- partial product for output chunk `c` from source device `s`
  let P : Nat → Nat → M := fun c s => mm (lhs s c) (rhs.getD s z)
  let AF : Nat → List M := fun j => (List.range (2 * h)).map fun a =>
    ∑ k ∈ range (j + 1), P ((a + h + j * (2 * h - 1)) % (2 * h)) ((a + k * (2 * h - 1)) % (2 * h))
  let AB : Nat → List M := fun j => (List.range (2 * h)).map fun a =>
    ∑ k ∈ range (j + 1), P ((a + h + j + 1) % (2 * h)) ((a + k) % (2 * h))
  have hF : ∀ j : Nat, rsIndexed mm z (2 * h) lhs rhs (-(j : Int))
      = (List.range (2 * h)).map fun a => P ((a + h + j * (2 * h - 1)) % (2 * h)) a := by
    intro j
    unfold rsIndexed
    apply List.map_congr_left
    intro a _
    rw [hhalf, chunkIndex_half_neg _ _ _ _ hn0]
  have hB : ∀ j : Nat, rsIndexed mm z (2 * h) lhs rhs ((j : Int) + 1)
      = (List.range (2 * h)).map fun a => P ((a + h + j + 1) % (2 * h)) a := by
    intro j
    unfold rsIndexed
    apply List.map_congr_left
    intro a _
    rw [hhalf, chunkIndex_half_succ]
  have hF0 : rsIndexed mm z (2 * h) lhs rhs 0 = AF 0 := by
    have := hF 0
    simp only [Nat.cast_zero, neg_zero] at this
    rw [this]
    apply List.map_congr_left
    intro a ha
    rw [List.mem_range] at ha
    simp only [Nat.zero_add, Finset.sum_range_one, Nat.zero_mul, Nat.add_zero, Nat.mod_eq_of_lt ha]
  have hB0 : rsIndexed mm z (2 * h) lhs rhs 1 = AB 0 := by
    have := hB 0
    simp only [Nat.cast_zero, zero_add] at this
    rw [this]
    apply List.map_congr_left
    intro a ha
    rw [List.mem_range] at ha
    simp only [Nat.zero_add, Finset.sum_range_one, Nat.add_zero, Nat.mod_eq_of_lt ha]
  have hpermF : ∀ j, ppermute 0 (permFwd (2 * h)) (AF j) = (List.range (2 * h)).map fun a =>
      ∑ k ∈ range (j + 1), P ((a + h + (j + 1) * (2 * h - 1)) % (2 * h))
        ((a + (k + 1) * (2 * h - 1)) % (2 * h)) := by
    intro j
    rw [ppermute_permFwd 0 _ (2 * h) (by simp [AF])]
    apply List.map_congr_left
    intro a _
    simp only [AF]
    rw [getD_map_range _ _ _ _ (Nat.mod_lt _ hn0)]
    apply Finset.sum_congr rfl
    intro k _
    have e1 : ((a + 2 * h - 1) % (2 * h) + h + j * (2 * h - 1)) % (2 * h)
        = (a + h + (j + 1) * (2 * h - 1)) % (2 * h) := by
      rw [Nat.add_assoc, mod_shift_fwd _ _ _ hn0, Nat.succ_mul j (2 * h - 1)]
      congr 1; omega
    have e2 : ((a + 2 * h - 1) % (2 * h) + k * (2 * h - 1)) % (2 * h)
        = (a + (k + 1) * (2 * h - 1)) % (2 * h) := by
      rw [mod_shift_fwd _ _ _ hn0, Nat.succ_mul k (2 * h - 1)]
      congr 1; omega
    rw [e1, e2]
  have hpermB : ∀ j, ppermute 0 (permBwd (2 * h)) (AB j) = (List.range (2 * h)).map fun a =>
      ∑ k ∈ range (j + 1), P ((a + h + (j + 1) + 1) % (2 * h)) ((a + (k + 1)) % (2 * h)) := by
    intro j
    rw [ppermute_permBwd 0 _ (2 * h) (by simp [AB])]
    apply List.map_congr_left
    intro a _
    simp only [AB]
    rw [getD_map_range _ _ _ _ (Nat.mod_lt _ hn0)]
    apply Finset.sum_congr rfl
    intro k _
    have e1 : ((a + 1) % (2 * h) + h + j + 1) % (2 * h) = (a + h + (j + 1) + 1) % (2 * h) := by
      rw [Nat.add_assoc, Nat.add_assoc, Nat.mod_add_mod]; congr 1; omega
    have e2 : ((a + 1) % (2 * h) + k) % (2 * h) = (a + (k + 1)) % (2 * h) := by
      rw [Nat.mod_add_mod]; congr 1; omega
    rw [e1, e2]
  have hloop := foriLoop_induction
    (fun i (s : List M × List M) => ∃ j, i = j + 1 ∧ s = (AF j, AB j))
    1 h (by omega)
    (fun i (s : List M × List M) =>
      (vaddM (ppermute 0 (permFwd (2 * h)) s.1) (rsIndexed mm z (2 * h) lhs rhs (-(i : Int))),
       vaddM (ppermute 0 (permBwd (2 * h)) s.2) (rsIndexed mm z (2 * h) lhs rhs ((i : Int) + 1))))
    (rsIndexed mm z (2 * h) lhs rhs 0, rsIndexed mm z (2 * h) lhs rhs 1)
    ⟨0, rfl, by rw [hF0, hB0]⟩
    (by
      rintro i s hi1 hi2 ⟨j, rfl, rfl⟩
      refine ⟨j + 1, rfl, ?_⟩
      simp only
      rw [hpermF, hpermB, hF (j + 1), hB (j + 1), vaddM_map_range, vaddM_map_range]
      congr 1
      · apply List.map_congr_left
        intro a ha
        rw [List.mem_range] at ha
        rw [Finset.sum_range_succ' _ (j + 1)]
        simp only [Nat.zero_mul, Nat.add_zero, Nat.mod_eq_of_lt ha]
      · apply List.map_congr_left
        intro a ha
        rw [List.mem_range] at ha
        rw [Finset.sum_range_succ' _ (j + 1)]
        simp only [Nat.add_zero, Nat.mod_eq_of_lt ha])
  obtain ⟨j, hj, hs⟩ := hloop
  rw [hs]
  simp only
  rw [hpermF, vaddM_map_range]
  apply List.map_congr_left
  intro a ha
  rw [List.mem_range] at ha
  have c1 : (a + h + (j + 1) * (2 * h - 1)) % (2 * h) = a := by
    rw [← hj]
    have : a + h + h * (2 * h - 1) = a + h * (2 * h) := by
      have : h + h * (2 * h - 1) = h * (2 * h) := by
        rw [Nat.add_comm, ← Nat.mul_succ]; congr 1; omega
      omega
    rw [this, Nat.add_mul_mod_self_right, Nat.mod_eq_of_lt ha]
  have c2 : (a + h + j + 1) % (2 * h) = a := by
    rw [show a + h + j + 1 = a + 2 * h by omega, Nat.add_mod_right, Nat.mod_eq_of_lt ha]
  rw [c1, c2, ← hj, ← twoway_cover (P a) h (a + (2 * h - 1)), Finset.sum_add_distrib]
  congr 1
  · apply Finset.sum_congr rfl
    intro k _
    rw [Nat.succ_mul k (2 * h - 1)]
    congr 2; omega
  · apply Finset.sum_congr rfl
    intro k _
    rw [show a + (2 * h - 1) + k + 1 = a + k + 2 * h by omega, Nat.add_mod_right]

end reducescatter

end Dino.Shard
