import DinoProofs.Lemmas.DynamicsInstLaws
import DinoProofs.Lemmas.DynamicsInstSym
import DinoProofs.Properties.C04
import DinoProofs.Properties.C05
import DinoProofs.Properties.C10
import DinoProofs.Properties.C11
import DinoProofs.Properties.C12

/-!
# DYN — the abstract spectral model instantiated with the list model of the real `Grid`

C04, C05, C10, C11, C12 are theorems about `Dino.Dynamics` over ABSTRACT carriers `M`, `N` whose laws are
hypotheses.  Here the carriers are the arrays of one `spherical_harmonic.Grid`
(`Dino.DynamicsInst.gridOps g : HOps K (Fin rows → Fin cols → K) (Fin nlon → Fin nlat → K)`, every operation
being the list-model function of `Dino.Grid` / `Dino.SH` conjugated by the array ↔ list conversion), and the
theorems are instantiated:

| abstract theorem | hypotheses about the grid that remain |
|---|---|
| C05 T5.1 `rest_steady_dry`              | none (shape of the data only) |
| C11 T11.1 `explicitTerms_mean0`         | none beyond the structural zeros `MaskOk` |
| C11 T11.1 `explicitTerms_mem`           | `MaskOk` (every layout, with `Mk = Loose`) |
| C12 T12.1 `dry_explicitTerms_equivariant` | none: the grid of radius `l·r` IS the scaled record |
| C10 T10.1 `pe_explicit_equivariant` (mirror) | the two transform laws of T10.3 + symmetric nodal tables |
| C04 T4.2 `total_tendency_indep_of_reference_masked` | `AnalyticLaws g` (Gram identity, Hyp-A, Hyp-B, `to_nodal 1 = 1`, `sec²·cos² = 1`), no padding column |

`gT`: the rational `M = 3`, `L = 5` transform pair of C02 (`lyT`, monic Legendre tables on nine Pythagorean
latitudes, Walsh longitude factor, radius 2) satisfies `WF`, `MaskOk` and `AnalyticLaws` — so every
corollary is instantiated on a concrete non-trivial grid (`t42_gT`, `rest_gT`, `mean0_gT`).
`gPad`: a layout with one padding column on which `MaskClosed` provably FAILS (`not_maskClosed_gPad`) while
`OpsClosed (Loose, Clipped)` holds.
-/
set_option linter.unusedSectionVars false
set_option linter.unusedSimpArgs false
set_option linter.unusedVariables false

namespace Dino.DYN
open Dino Dino.Dynamics Dino.Grid Dino.SH Dino.Lin Dino.DynamicsInst Dino.Invariants Dino.Balance
  Dino.Scaling Dino.Symmetry

/-! ## corollaries for every grid -/
section general
variable {K : Type} [Field K] (g : GridData K)

/-- the primitive equations on the concrete grid `g` -/
def gridEq (vert : Vert K) (phys : Phys K) (Tref : List K) (oro : g.Modal) :
    PrimitiveEquations K g.Modal g.Nodal :=
  { ops := gridOps g, vert := vert, phys := phys, referenceTemperature := Tref, orography := oro }

/-- **C05 T5.1 on the concrete grid — no hypothesis on the tables**: for every grid of consistent shape
 (both layouts, any padding, any basis), every level set and any orography with its top wavenumber clipped, the
 resting isothermal atmosphere `ζ = δ = T′ = 0`, `ln p_s = −g h/(R T₀) + c` has zero total tendency -/
theorem rest_steady_dry_grid [BEq K] (W : g.WF) (vert : Vert K) (phys : Phys K) (oro : g.Modal)
    (hoc : (gridOps g).clip oro = oro) (n : ℕ) (hn : 0 < n) (hb : vert.boundaries.length = n + 1)
    (hlc : vert.logCenters.length = n) (T0 c : K) (hRT : phys.R * T0 ≠ 0)
    (tr : List (String × List g.Modal)) (htr : ∀ kv ∈ tr, kv.2.length = n) :
    State.add
      ((gridEq g vert phys (List.replicate n T0) oro).explicitTerms
        (restState n (C05.restLnp (gridEq g vert phys (List.replicate n T0) oro) phys.R T0 c) tr))
      ((gridEq g vert phys (List.replicate n T0) oro).implicitTerms
        (restState n (C05.restLnp (gridEq g vert phys (List.replicate n T0) oro) phys.R T0 c) tr))
      = zeroTendency n tr :=
  C05.rest_steady_dry (gridEq g vert phys (List.replicate n T0) oro) (linLaws W) laplacian_one n hn hb hlc T0 c
    hRT rfl
    (by show (gridOps g).clip ((gridOps g).laplacian oro) = (gridOps g).laplacian oro; rw [clip_laplacian, hoc]) tr htr

/-- **C11 T11.1 on the concrete grid**: for EVERY state (masked or not) the explicit vorticity and divergence
 tendencies have zero `(0,0)` coefficient -/
theorem explicitTerms_mean0_grid [BEq K] (W : g.WF) (Mo : g.MaskOk) (vert : Vert K) (phys : Phys K)
    (Tref : List K) (oro : g.Modal) (s : State g.Modal) :
    AllP (· ∈ kerOf (ev00 g)) ((gridEq g vert phys Tref oro).explicitTerms s).vorticity ∧
      AllP (· ∈ kerOf (ev00 g)) ((gridEq g vert phys Tref oro).explicitTerms s).divergence :=
  C11.explicitTerms_mean0 (gridEq g vert phys Tref oro) (mean0 W Mo) s

/-- **C11 T11.1 on the concrete grid, every layout and padding**: for EVERY state the explicit tendencies are
 masked and have the top wavenumber clipped -/
theorem explicitTerms_mem_grid [BEq K] (W : g.WF) (Mo : g.MaskOk) (vert : Vert K) (phys : Phys K)
    (Tref : List K) (oro : g.Modal) (ho : oro ∈ Loose g) (s : State g.Modal) :
    StateAll (· ∈ Clipped g) ((gridEq g vert phys Tref oro).explicitTerms s) :=
  C11.explicitTerms_mem (gridEq g vert phys Tref oro) (opsClosed_loose W Mo) ho s

/-- the implicit terms map `Clipped → Clipped` on the concrete grid -/
theorem implicitTerms_mem_grid (W : g.WF) (Mo : g.MaskOk) (vert : Vert K) (phys : Phys K)
    (Tref : List K) (oro : g.Modal) {s : State g.Modal} (hs : StateAll (· ∈ Clipped g) s) :
    StateAll (· ∈ Clipped g) ((gridEq g vert phys Tref oro).implicitTerms s) :=
  C11.implicitTerms_mem (gridEq g vert phys Tref oro) (opsClosed_loose W Mo) hs

/-- the same grid with another radius -/
def withRadius (r : K) : GridData K := { g with radius := r }

/-- the same physical problem on the grid of radius `l·r`, as `PrimitiveEquations` objects over the same
 carriers -/
def scaledEq (s : Scale K) (vert : Vert K) (phys : Phys K) (Tref : List K) (oro : g.Modal) :
    PrimitiveEquations K g.Modal g.Nodal :=
  { ops := gridOps (withRadius g (s.l * g.radius)), vert := vert, phys := actPhys s phys
    referenceTemperature := Tref.map (s.θ * ·), orography := s.l • oro }

theorem eqScaled_grid (s : Scale K) (hs : s.Valid) (vert : Vert K) (phys : Phys K) (Tref : List K)
    (oro : g.Modal) : EqScaled s (gridEq g vert phys Tref oro) (scaledEq g s vert phys Tref oro) :=
  ⟨opsScaled_radius g s hs.l_ne, rfl, ⟨rfl, rfl, rfl, rfl, rfl, rfl⟩, rfl, rfl, rfl⟩

/-- **C12 T12.1 on the concrete grid — no hypothesis on the tables**: the explicit terms on the grid of radius
 `l·r` with the rescaled constants are the rescaled explicit terms, for every state and every additive
 constant of `ln p_s` -/
theorem explicitTerms_two_radii [BEq K] [LawfulBEq K] (W : g.WF) (s : Scale K) (hs : s.Valid) (vert : Vert K)
    (phys : Phys K) (Tref : List K) (oro : g.Modal) (c : K) (st : State g.Modal) :
    (scaledEq g s vert phys Tref oro).explicitTerms (actState s c (gridOps g).oneModal st)
      = actTend s ((gridEq g vert phys Tref oro).explicitTerms st) :=
  C12.dry_explicitTerms_equivariant (eqScaled_grid g s hs vert phys Tref oro) hs (opsLaws W) c st

/-- **C10 T10.1 on the concrete grid, equatorial mirror**: given the two transform laws of T10.3 and symmetric
 nodal tables (all other commutation laws are theorems of the instance), `explicit_terms` over the mirrored
 orography commutes with the mirror -/
theorem explicitTerms_mirror_grid [BEq K] (W : g.WF)
    (hN : ∀ x, (gridOps g).toNodal (mirrorM g x) = flipN g ((gridOps g).toNodal x))
    (hM : ∀ z, (gridOps g).toModal (flipN g z) = mirrorM g ((gridOps g).toModal z))
    (hcos : ∀ j : Fin g.nlat, g.cosLat.getD j.rev.val 0 = g.cosLat.getD j.val 0)
    (hsec : ∀ j : Fin g.nlat, g.sec2Lat.getD j.rev.val 0 = g.sec2Lat.getD j.val 0)
    (hsin : ∀ j : Fin g.nlat, g.sinLat.getD j.rev.val 0 = -g.sinLat.getD j.val 0)
    (vert : Vert K) (phys : Phys K) (Tref : List K) (oro : g.Modal) (s : State g.Modal) :
    ((mirrorSym g).eqn (gridEq g vert phys Tref oro)).explicitTerms ((mirrorSym g).state s)
      = (mirrorSym g).state ((gridEq g vert phys Tref oro).explicitTerms s) :=
  C10.pe_explicit_equivariant (gridEq g vert phys Tref oro) (equivariant_mirror W hN hM hcos hsec hsin) s

/-- **C04 T4.2 on the concrete grid, under `AnalyticLaws` only** (layouts without padding columns): two
 reference profiles, two states of the masked carrier with the same absolute temperature — the total tendency
 is the same `State` -/
theorem total_tendency_indep_of_reference_grid [DecidableEq K] (W : g.WF) (Mo : g.MaskOk)
    (hpad : g.ly.padCols = 0) (A : AnalyticLaws g) (vert : Vert K) (phys : Phys K) (Tref : List K)
    (oro : g.Modal) (ho : oro ∈ Masked g) (T₂ : List K) (s₁ : State (Masked g)) (t₂ : List (Masked g)) (n : ℕ)
    (Ad : Admissible ((gridOps g).restrict (Masked g) (maskClosed W Mo hpad)) s₁)
    (S : Shaped ((gridEq g vert phys Tref oro).restrict (Masked g) (maskClosed W Mo hpad) ho) s₁ n)
    (hT₂ : T₂.length = n) (ht₂ : t₂.length = n) (h2 : (1 + 1 : K) ≠ 0)
    (habs : ∀ i, i < n →
      lv t₂ i + lv T₂ i • ((gridOps g).restrict (Masked g) (maskClosed W Mo hpad)).oneModal
        = lv s₁.temperatureVariation i
          + lv Tref i • ((gridOps g).restrict (Masked g) (maskClosed W Mo hpad)).oneModal) :
    total (withTRef ((gridEq g vert phys Tref oro).restrict (Masked g) (maskClosed W Mo hpad) ho) T₂)
        (s₁.withT t₂)
      = total ((gridEq g vert phys Tref oro).restrict (Masked g) (maskClosed W Mo hpad) ho) s₁ :=
  C04.total_tendency_indep_of_reference_masked (gridEq g vert phys Tref oro) (Masked g) (maskClosed W Mo hpad) ho
    (laws_of_analytic W A) T₂ s₁ t₂ n Ad S hT₂ ht₂ rfl h2 habs

/-! ### elements of the masked carrier from list arrays of `Dom ly 1` -/

/-- a list array of the domain `Dom ly 1` of C02 as an element of the masked carrier -/
def ofDom (l : List (List K)) (h : C02.Dom g.ly 1 l) : ↥(Masked g) := ⟨ofL l, fun i j hm => h.2.2 i j hm⟩

variable {g}

theorem clip_ofDom (l : List (List K)) (h : C02.Dom g.ly 1 l) :
    (gridOps g).clip (ofDom g l h).1 = (ofDom g l h).1 := by
  funext i j
  rw [clip_apply]
  split
  · rfl
  · exact (h.2.1 i j (Or.inr (by omega))).symm

theorem lapinv_ofDom [CharZero K] (hr : g.radius ≠ 0) (l : List (List K)) (h : C02.Dom g.ly 1 l) :
    (gridOps g).laplacian ((gridOps g).inverseLaplacian (ofDom g l h).1) = (ofDom g l h).1 := by
  funext i j
  by_cases hj : 0 < j.val ∧ j.val < g.ly.L
  · exact laplacian_inverseLaplacian_apply hr _ i j hj.1 hj.2
  · rw [laplacian_apply, inverseLaplacian_apply, if_neg hj, mul_zero, zero_mul]
    exact (h.2.1 i j (by omega)).symm

end general

/-! ## the rational grid `gT` (C02's `lyT`): every hypothesis is a theorem -/
section rational
open Dino.C02

/-- real layout, `M = 3`, `L = 5`, eight longitudes, nine latitudes, radius 2, monic Legendre pair -/
def gT : GridData ℚ :=
  { ly := lyT, nlon := 8, nlat := 9, T := TT, a := aT, b := bT, radius := 2
    cosLat := cosT, sec2Lat := cosT.map fun c => 1 / (c * c), sinLat := sinT, c00 := 1 }

theorem wf_gT : gT.WF where
  ha := isMat_aT
  hb := isMat_bT
  hN := linMap_realSynth bSynT 8 5 9 5 5 shaped_bSynT
  hM := linMap_realAnalysis bAnaT 8 5 9 5 shaped_bAnaT

theorem aT_zero : ∀ i < 5, ∀ j < 5, (lyT.maskAt i j = false ∨ j = lyT.mAbs i) → ent2 aT i j = 0 := by
  decide +kernel

theorem tablesT_zero : ∀ r < 5, ∀ l < 5, lyT.maskAt r l = false →
    (∀ j < 9, ent3 pdT r j l = 0) ∨ (∀ i < 8, ent2 fT i r = 0) := by decide +kernel

theorem maskOk_gT : gT.MaskOk where
  L_pos := by decide
  M_pos := by decide
  a_zero i j h := by
    by_cases hi : i < 5
    · by_cases hj : j < 5
      · exact aT_zero i hi j hj h
      · exact ent2_of_col_le aT 5 5 i j isMat_aT (by omega)
    · exact ent2_of_row_le aT i j (by rw [isMat_aT.1]; show 5 ≤ i; omega)
  toModal_masked z hz i j hm :=
    realAnalysis_masked bAnaT 8 5 9 5 shaped_bAnaT lyT.maskAt tablesT_zero z hz i j hm

/-- the Gram identity on the unit arrays of the masked, clipped block, row by row -/
def GramRowT (i : Nat) : Prop :=
  ∀ j < 5, (lyT.maskAt i j = true ∧ j + 1 < 5) → TT.toModal (TT.toNodal (unitM 5 5 i j)) = unitM 5 5 i j
instance (i : Nat) : Decidable (GramRowT i) := by unfold GramRowT; infer_instance
theorem gramT_0 : GramRowT 0 := by decide +kernel
theorem gramT_1 : GramRowT 1 := by decide +kernel
theorem gramT_2 : GramRowT 2 := by decide +kernel
theorem gramT_3 : GramRowT 3 := by decide +kernel
theorem gramT_4 : GramRowT 4 := by decide +kernel

theorem gramT_units (i : Nat) (hi : i < 5) (j : Nat) (hj : j < 5) (hP : lyT.maskAt i j = true ∧ j + 1 < 5) :
    TT.toModal (TT.toNodal (unitM 5 5 i j)) = unitM 5 5 i j := by
  interval_cases i
  · exact gramT_0 j hj hP
  · exact gramT_1 j hj hP
  · exact gramT_2 j hj hP
  · exact gramT_3 j hj hP
  · exact gramT_4 j hj hP

/-- **C01's Gram identity holds on `gT`**: `to_modal ∘ to_nodal` is the identity, below the top wavenumber, on
 every masked clipped array (from the unit arrays, by linearity) -/
theorem gram_gT (x : List (List ℚ)) (hx : DomMC lyT x) (i j : Nat) (hj : j + 1 < 5) :
    ent2 (TT.toModal (TT.toNodal x)) i j = ent2 x i j := by
  have hΦ : LinMap 5 5 5 5 (fun x => TT.toModal (TT.toNodal x)) := wf_gT.hM.comp wf_gT.hN
  have hid : LinMap 5 5 5 5 (fun x : List (List ℚ) => x) :=
    ⟨fun _ h => h, fun _ _ _ _ => rfl, fun _ _ => rfl, fun _ _ _ => rfl⟩
  refine linMap_ext 5 5 5 5 _ _ hΦ hid (fun a b => lyT.maskAt a b = true ∧ b + 1 < 5) i j
    (fun a ha b hb hP => by show ent2 (TT.toModal (TT.toNodal _)) i j = _; rw [gramT_units a ha b hb hP])
    x hx.1 ?_
  intro a b hP
  cases hm : lyT.maskAt a b
  · exact hx.2.2 a b hm
  · exact hx.2.1 a b (by
      have : ¬ (b + 1 < 5) := fun h => hP ⟨hm, h⟩
      show 5 ≤ b + 1
      omega)

theorem toNodal_one_gT : ∀ i < 8, ∀ j < 9, ent2 (TT.toNodal (toL (gridOps gT).oneModal)) i j = 1 := by
  decide +kernel

theorem sec_cos_gT : ∀ j < 9, ent gT.sec2Lat j * (ent cosT j * ent cosT j) = 1 := by decide +kernel

/-- **every analytic law holds on `gT`** -/
theorem analytic_gT : AnalyticLaws gT where
  cos_len := rfl
  sec_cos := sec_cos_gT
  toNodal_one := toNodal_one_gT
  gram x hx i j hj := gram_gT x hx i j hj
  hypA ψ hψ i j hj := hypA_T false ψ hψ i j hj
  hypB ψ hψ i j hj := hypB_T false ψ hψ i j hj

/-- the named laws of C04 on the masked coefficient space of `gT`, and closure of the mask -/
theorem lawsOn_gT : LawsOn (gridOps gT) (Masked gT) := laws_of_analytic wf_gT analytic_gT
theorem maskClosed_gT : MaskClosed (gridOps gT) (Masked gT) := maskClosed wf_gT maskOk_gT rfl

/-! ### T4.2 on `gT`: two uneven layers, `T_ref = [2, 3]` against `T₂ = [1, 5]` -/

def vertT : Vert ℚ := { boundaries := [0, 1 / 3, 1], logCenters := [-2, -1 / 2] }
def physT : Phys ℚ := { angularVelocity := 1, g := 1, R := 2, Rvapor := 3, CpVapor := 5, kappa := 1 / 4 }

/-- the constant mode in the masked carrier -/
def oneT : ↥(Masked gT) := ((gridOps gT).restrict (Masked gT) maskClosed_gT).oneModal

/-- a state of the masked carrier with non-zero rows `m = ±1, ±2` -/
def stateT : State ↥(Masked gT) :=
  { vorticity := [ofDom gT vorT dom_vorT, ofDom gT divT dom_divT]
    divergence := [ofDom gT divT dom_divT, ofDom gT vorT dom_vorT]
    temperatureVariation := [ofDom gT vorT dom_vorT + (3 : ℚ) • oneT, ofDom gT divT dom_divT]
    logSurfacePressure := ofDom gT divT dom_divT }

def orographyT : gT.Modal := (ofDom gT vorT dom_vorT).1

/-- `T′ + (T_ref − T₂)·1` level by level -/
def t2T : List ↥(Masked gT) :=
  [ofDom gT vorT dom_vorT + (3 : ℚ) • oneT + ((2 : ℚ) - 1) • oneT, ofDom gT divT dom_divT + ((3 : ℚ) - 5) • oneT]

theorem admissible_stateT : Admissible ((gridOps gT).restrict (Masked gT) maskClosed_gT) stateT where
  vort_clip z hz := by
    simp only [stateT, List.mem_cons, List.not_mem_nil, or_false] at hz
    rcases hz with rfl | rfl
    · exact Subtype.ext (clip_ofDom vorT dom_vorT)
    · exact Subtype.ext (clip_ofDom divT dom_divT)
  div_clip z hz := by
    simp only [stateT, List.mem_cons, List.not_mem_nil, or_false] at hz
    rcases hz with rfl | rfl
    · exact Subtype.ext (clip_ofDom divT dom_divT)
    · exact Subtype.ext (clip_ofDom vorT dom_vorT)
  div_mean z hz := by
    have hr : gT.radius ≠ 0 := by show (2 : ℚ) ≠ 0; norm_num
    simp only [stateT, List.mem_cons, List.not_mem_nil, or_false] at hz
    rcases hz with rfl | rfl
    · exact Subtype.ext (lapinv_ofDom hr divT dom_divT)
    · exact Subtype.ext (lapinv_ofDom hr vorT dom_vorT)
  lsp_clip := Subtype.ext (clip_ofDom divT dom_divT)

/-- **T4.2 instantiated on the concrete rational grid**: every hypothesis discharged -/
theorem t42_gT :
    total (withTRef ((gridEq gT vertT physT [2, 3] orographyT).restrict (Masked gT) maskClosed_gT
        (ofDom gT vorT dom_vorT).2) [1, 5]) (stateT.withT t2T)
      = total ((gridEq gT vertT physT [2, 3] orographyT).restrict (Masked gT) maskClosed_gT
        (ofDom gT vorT dom_vorT).2) stateT := by
  refine total_tendency_indep_of_reference_grid gT wf_gT maskOk_gT rfl analytic_gT vertT physT [2, 3]
    orographyT (ofDom gT vorT dom_vorT).2 [1, 5] stateT t2T 2 admissible_stateT
    ⟨by norm_num, rfl, rfl, rfl, rfl, rfl, rfl⟩ rfl rfl (by norm_num) ?_
  intro i hi
  rcases (by omega : i = 0 ∨ i = 1) with rfl | rfl
  · show ofDom gT vorT dom_vorT + (3 : ℚ) • oneT + ((2 : ℚ) - 1) • oneT + (1 : ℚ) • oneT
      = ofDom gT vorT dom_vorT + (3 : ℚ) • oneT + (2 : ℚ) • oneT
    module
  · show ofDom gT divT dom_divT + ((3 : ℚ) - 5) • oneT + (5 : ℚ) • oneT
      = ofDom gT divT dom_divT + (3 : ℚ) • oneT
    module

/-- T5.1 on `gT`: the resting atmosphere over the orography `vorT` (rows `m = ±2` non-zero) is steady -/
theorem rest_gT (T0 c : ℚ) (hT0 : T0 ≠ 0) :
    State.add
      ((gridEq gT vertT physT (List.replicate 2 T0) orographyT).explicitTerms
        (restState 2 (C05.restLnp (gridEq gT vertT physT (List.replicate 2 T0) orographyT) physT.R T0 c) []))
      ((gridEq gT vertT physT (List.replicate 2 T0) orographyT).implicitTerms
        (restState 2 (C05.restLnp (gridEq gT vertT physT (List.replicate 2 T0) orographyT) physT.R T0 c) []))
      = zeroTendency 2 [] :=
  rest_steady_dry_grid gT wf_gT vertT physT orographyT (clip_ofDom vorT dom_vorT) 2 (by norm_num) rfl rfl T0 c
    (mul_ne_zero (by show (2 : ℚ) ≠ 0; norm_num) hT0) [] (by simp)

/-- T11.1 on `gT`: zero `(0,0)` coefficient of the `(ζ, δ)` tendencies of any state -/
theorem mean0_gT (s : State gT.Modal) :
    AllP (· ∈ kerOf (ev00 gT)) ((gridEq gT vertT physT [2, 3] orographyT).explicitTerms s).vorticity ∧
      AllP (· ∈ kerOf (ev00 gT)) ((gridEq gT vertT physT [2, 3] orographyT).explicitTerms s).divergence :=
  explicitTerms_mean0_grid gT wf_gT maskOk_gT vertT physT [2, 3] orographyT s

/-- ratios of the base units of a second non-dimensionalisation -/
def scT : Scale ℚ := ⟨3, 5, 7, 11⟩

/-- T12.1 on `gT`: the grid of radius `3·2` -/
theorem two_radii_gT (c : ℚ) (st : State gT.Modal) :
    (scaledEq gT scT vertT physT [2, 3] orographyT).explicitTerms (actState scT c (gridOps gT).oneModal st)
      = actTend scT ((gridEq gT vertT physT [2, 3] orographyT).explicitTerms st) :=
  explicitTerms_two_radii gT wf_gT scT
    ⟨by show (3 : ℚ) ≠ 0; norm_num, by show (5 : ℚ) ≠ 0; norm_num, by show (7 : ℚ) ≠ 0; norm_num,
      by show (11 : ℚ) ≠ 0; norm_num⟩ vertT physT [2, 3] orographyT c st

/-- `OpsClosed`, `Mode0`, the law packages of C05 / C12 on `gT` -/
example : OpsClosed (gridOps gT) (Masked gT) (Clipped gT) := opsClosed_masked wf_gT maskOk_gT rfl
example : Mode0 (gridOps gT) (ev00 gT) := mode0 wf_gT maskOk_gT
example : LinLaws (gridOps gT) := linLaws wf_gT
example : OpsLaws (gridOps gT) := opsLaws wf_gT
example : ProjLaws (gridOps gT) := projLaws

end rational

/-! ## a layout with a padding column: `MaskClosed` fails, `OpsClosed (Loose, Clipped)` holds -/
section padded

/-- real layout `M = 1`, `L = 2` with ONE padding column; the model's own weights with `sqrt = id` -/
def lyPad : Layout := ⟨false, 1, 2, 0, 1⟩

def gPad : GridData ℚ :=
  { ly := lyPad, nlon := 1, nlat := 3, T := ⟨id, Grid.clip lyPad 3⟩, a := weightA id lyPad, b := weightB id lyPad
    radius := 1, cosLat := [], sec2Lat := [], sinLat := [], c00 := 1 }

theorem linMap_id (R C : Nat) : LinMap R C R C (id : List (List ℚ) → List (List ℚ)) :=
  ⟨fun _ h => h, fun _ _ _ _ => rfl, fun _ _ => rfl, fun _ _ _ => rfl⟩

theorem wf_gPad : gPad.WF where
  ha := isMat_weightA id lyPad
  hb := isMat_weightB id lyPad
  hN := linMap_id 1 3
  hM := linMap_clip lyPad 3

theorem maskOk_gPad : gPad.MaskOk where
  L_pos := by decide
  M_pos := by decide
  a_zero i j h := weightA_zero id rfl lyPad i j h
  toModal_masked z hz i j hm := by
    show ent2 (Grid.clip lyPad 3 z) i j = 0
    rw [ent2_clip, if_neg (by show ¬ (j + 3 < 2); omega)]

/-- the masked, unclipped array `E_{0,1}` (`m = 0`, `l = 1 = L − 1`) -/
def xPad : gPad.Modal := fun _ j => if j.val = 1 then 1 else 0

theorem xPad_masked : xPad ∈ Masked gPad := by
  intro i j hm
  show (if j.val = 1 then (1 : ℚ) else 0) = 0
  have hi : i.val = 0 := by
    have := i.isLt
    have h1 : gPad.ly.rows = 1 := rfl
    omega
  rw [if_neg]
  intro hj
  rw [hi, hj] at hm
  revert hm
  decide

theorem bPad : ent2 gPad.b 0 1 = 4 / 15 := by decide +kernel

/-- **on a layout with a padding column the masked arrays are NOT closed under `sec_lat_d_dlat_cos2`**:
 the entry of `sec_lat_d_dlat_cos2 E_{0,1}` in the padding column `L = 2` is `−(L+1)·b[0,1] = −4/5` -/
theorem secLat_xPad : (gridOps gPad).secLatDDlatCos2 xPad ⟨0, by decide⟩ ⟨2, by decide⟩ = -4 / 5 := by
  rw [secLat_padding_column wf_gPad xPad_masked ⟨0, by decide⟩ ⟨2, by decide⟩ rfl (by decide)]
  have hx : ext0 xPad 0 1 = 1 := by decide +kernel
  show -((2 - 1 + 2 : Nat) : ℚ) * ent2 gPad.b 0 1 * ext0 xPad 0 1 = -4 / 5
  rw [bPad, hx]
  norm_num

theorem not_maskClosed_gPad : ¬ MaskClosed (gridOps gPad) (Masked gPad) := by
  intro C
  have h := C.secLat_mem xPad xPad_masked ⟨0, by decide⟩ ⟨2, by decide⟩ (by decide)
  rw [secLat_xPad] at h
  norm_num at h

/-- … while the loosely masked arrays are closed and `clip` maps them into `Clipped`: what C11 needs -/
theorem opsClosed_gPad : OpsClosed (gridOps gPad) (Loose gPad) (Clipped gPad) := opsClosed_loose wf_gPad maskOk_gPad

end padded

end Dino.DYN
