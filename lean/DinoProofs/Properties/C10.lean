import DinoProofs.Lemmas.SymmetryTraj
import DinoProofs.Lemmas.SymmetryFilter
import DinoProofs.Lemmas.SymmetryFilter2
import DinoProofs.Lemmas.SymmetryRotReal
import DinoProofs.Lemmas.SymmetryRotFast
import DinoProofs.Lemmas.SymmetryMirror
import Mathlib.Algebra.Algebra.Prod
import Mathlib.Algebra.Algebra.Pi
import Mathlib.Tactic.NormNum
import Mathlib.Tactic.IntervalCases
import Mathlib.Tactic.FinCases
import Mathlib.Data.Fin.VecNotation

/-!
# C10 — the dynamics are equivariant under the symmetries of the rotating sphere

**T10.1 (abstract, `Dino.Dynamics` / `Dino.DynamicsSW` / `Dino.Imex`).**  A symmetry of the horizontal
operations `h : HOps K M N` is `S = (ρM, ρN, ε)` (`Symmetry.Sym`): a linear map of modal level-fields,
an algebra map of nodal level-fields (additive, **multiplicative**, fixes constants) and a sign
`ε`, `ε² = 1`, satisfying `Symmetry.Equivariant h S`: it commutes with every horizontal operation,
with the sign `ε` on `cos_lat_d_dlat`, `sec_lat_d_dlat_cos2` and `sin(lat)`.  `ε = 1`: rotations about
the polar axis; `ε = −1`: the equatorial mirror (vorticity, the meridional wind component and the
Coriolis parameter change sign).  Then, over the **transformed orography**,
* `explicit_terms`, `implicit_terms`, `implicit_inverse` of `PrimitiveEquations`,
  `PrimitiveEquationsWithTime`, `MoistPrimitiveEquations`, `MoistPrimitiveEquationsWithCloudMoisture`
  and `ShallowWaterEquations` commute with the lift of `S` to states (`pe_*`, `sw_*`);
* every integrator of `time_integration.py` commutes with it (`every_scheme_step`, `leapfrog_step`),
  and so does every history of filtered steps of any length (`trajectory_equivariant`,
  `pe_trajectory_equivariant`, `sw_trajectory_equivariant`, `leapfrog_trajectory_equivariant`).

**T10.2 (concrete rotation by `k` grid steps, `Dino.SH` / `Dino.Fourier`, all `N, M, k`).**
The 2×2 rotation of every `(cos, sin)` coefficient pair by `2πmk/N` intertwines synthesis with
`np.roll(·, k)` and analysis with `np.roll(·, k)`, commutes with `d_dlon`, with every operator acting
on `l` only and with the latitude-derivative stencils — for the row layouts of both
implementations (`rot_*_real`, `rot_*_fast`).  The tables `cos(2πj/N)`, `sin(2πj/N)` enter through
`Symmetry.TrigTable`, which the real cosine and sine satisfy (`trig_tables_exist`).

**T10.3 (concrete mirror).**  For nodes and weights symmetric about the equator and the tables of
`associated_legendre.evaluate` (parity = C01's `legendre_parity`), the sign `(−1)^(m+l)`
intertwines synthesis / analysis with the flip of the latitude axis (`mirror_*`), the latitude
derivatives anticommute with it (`mirror_latitude_derivative_anticommutes`), `d_dlon` and
the operators acting on `l` commute.

The hypotheses `Equivariant` of T10.1 are what T10.2 / T10.3 prove of the list model, operation by
operation; on the real `Grid` each of them is validated on every run by `harness/props/C10.py`
(section "hypotheses"), next to the model correspondence and the probes of the property itself on
the real equation classes.
-/
namespace Dino.C10
open Dino Dino.Dynamics Dino.DynamicsSW Dino.Imex Dino.Invariants Dino.Symmetry Dino.SH Dino.SHEquiv
  Dino.Fourier

/-! ## T10.1 tendencies -/
section tendencies
variable {K M N : Type} [Field K] [AddCommGroup M] [Module K M] [CommRing N] [Algebra K N]
variable {S : Sym K M N}

/-- `PrimitiveEquations.explicit_terms` -/
theorem pe_explicit_equivariant [BEq K] (eq : PrimitiveEquations K M N) (H : Equivariant eq.ops S)
    (s : Dynamics.State M) : (S.eqn eq).explicitTerms (S.state s) = S.state (eq.explicitTerms s) :=
  explicitTerms_equiv eq H s

/-- `PrimitiveEquations.implicit_terms` -/
theorem pe_implicit_equivariant (eq : PrimitiveEquations K M N) (H : Equivariant eq.ops S)
    (s : Dynamics.State M) : (S.eqn eq).implicitTerms (S.state s) = S.state (eq.implicitTerms s) :=
  implicitTerms_equiv eq H s

/-- `PrimitiveEquations.implicit_inverse`; `inv l` is the matrix `np.linalg.inv` returned for total
 wavenumber `l` (it does not depend on the orography) -/
theorem pe_implicit_inverse_equivariant (eq : PrimitiveEquations K M N) (H : Equivariant eq.ops S)
    (inv : Nat → List (List K)) (s : Dynamics.State M) :
    (S.eqn eq).implicitInverse inv (S.state s) = S.state (eq.implicitInverse inv s) :=
  implicitInverse_equiv eq H inv s

/-- all four classes at once (`Invariants.explicitOf`): dry, with time, moist, cloud; `none` = a
 missing `specific_humidity` tracer raises, for the transformed state iff for the original one -/
theorem pe_explicit_all_classes [BEq K] [Div N] (cls : Cls) (eq : PrimitiveEquations K M N)
    (H : Equivariant eq.ops S) (hdiv : ∀ a b : N, S.ρN (a / b) = S.ρN a / S.ρN b)
    (s : StateWithTime K M) :
    explicitOf cls (S.eqn eq) (S.stateWithTime s) = (explicitOf cls eq s).map S.stateWithTime :=
  explicitOf_equiv cls eq H hdiv s

/-- `ShallowWaterEquations.explicit_terms` (any number of layers, with or without orography) -/
theorem sw_explicit_equivariant [LT K] [DecidableLT K] (eq : ShallowWaterEquations K M N)
    (H : Equivariant eq.ops S) (s : DynamicsSW.State M) :
    (S.swEqn eq).explicitTerms (S.swState s) = S.swState (eq.explicitTerms s) :=
  sw_explicitTerms_equiv eq H s

theorem sw_implicit_equivariant (eq : ShallowWaterEquations K M N) (H : Equivariant eq.ops S)
    (s : DynamicsSW.State M) :
    (S.swEqn eq).implicitTerms (S.swState s) = S.swState (eq.implicitTerms s) :=
  sw_implicitTerms_equiv eq H s

theorem sw_implicit_inverse_equivariant (eq : ShallowWaterEquations K M N) (H : Equivariant eq.ops S)
    (η : K) (s : DynamicsSW.State M) :
    (S.swEqn eq).implicitInverse η (S.swState s) = S.swState (eq.implicitInverse η s) :=
  sw_implicitInverse_equiv eq H η s

end tendencies

/-! ## T10.1 integrators and trajectories -/
section integrators
variable {K V : Type} [Field K] [Add V] [Zero V] [SMul K V] {ρ : V → V} {e e' : ImEx K V}

/-- every one-state integrator (`backward_forward_euler`, `crank_nicolson_rk2`, every low-storage
 scheme, every Butcher tableau): the factory raises for the transformed problem iff it raises for
 the original one, and the step functions are intertwined -/
theorem every_scheme_step (I : Intertwines ρ e e') (sch : Scheme K) (dt : K) :
    (sch.step e' dt).isSome = (sch.step e dt).isSome ∧
    ∀ s' s, sch.step e' dt = some s' → sch.step e dt = some s → ∀ u, s' (ρ u) = ρ (s u) :=
  scheme_equiv I sch dt

/-- `semi_implicit_leapfrog` on the pair `(previous, current)` -/
theorem leapfrog_step (I : Intertwines ρ e e') (dt α : K) (u : V × V) :
    leapfrog e' dt α (ρ u.1, ρ u.2) = (ρ (leapfrog e dt α u).1, ρ (leapfrog e dt α u).2) :=
  leapfrog_equiv I dt α u

/-- the time-reversed problem (`TimeReversedImExODE`, used by digital filter initialisation) -/
theorem time_reversed_intertwined [Neg V] (I : Intertwines ρ e e') (hneg : ∀ a, ρ (-a) = -ρ a) :
    Intertwines ρ (timeReversed e) (timeReversed e') :=
  timeReversed_intertwines I hneg

/-- **whole trajectories**: any history (list of scheme, step size, filters), any length -/
theorem trajectory_equivariant (I : Intertwines ρ e e') (hist' hist : List (Entry K V))
    (h : HistRel ρ hist' hist) (u : V) :
    runHistory e' hist' (ρ u) = (runHistory e hist u).map ρ :=
  runHistory_equiv I hist' hist h u

/-- filtered leapfrog runs of any length (state filters and the Robert–Asselin filter) -/
theorem leapfrog_trajectory_equivariant (I : Intertwines ρ e e') (dt α : K)
    (fs' fs : List (LfFilter K V)) (h : List.Forall₂ (lfRel ρ) fs' fs) (k : Nat) (u : V × V) :
    runLeapfrog e' dt α fs' k (ρ u.1, ρ u.2)
      = (ρ (runLeapfrog e dt α fs k u).1, ρ (runLeapfrog e dt α fs k u).2) :=
  runLeapfrog_equiv I dt α fs' fs h k u

end integrators

section glue
variable {K M N : Type} [Field K] [AddCommGroup M] [Module K M] [CommRing N] [Algebra K N]
variable {S : Sym K M N}

/-- **the primitive-equation classes along any history**: running the class over the transformed
 orography from the transformed state gives the transformed result (or raises iff the original
 run raises) -/
theorem pe_trajectory_equivariant [BEq K] [Div N] (cls : Cls) (eq : PrimitiveEquations K M N)
    (H : Equivariant eq.ops S) (hdiv : ∀ a b : N, S.ρN (a / b) = S.ρN a / S.ρN b)
    (invOf : K → Nat → List (List K)) (hist' hist : List (Entry K (TM (StateWithTime K M))))
    (h : HistRel (tmState S) hist' hist) (u : TM (StateWithTime K M)) :
    runHistory (peImEx cls (S.eqn eq) invOf) hist' (tmState S u)
      = (runHistory (peImEx cls eq invOf) hist u).map (tmState S) :=
  runHistory_equiv (peImEx_intertwines cls eq H hdiv invOf) hist' hist h u

/-- **shallow water along any history** -/
theorem sw_trajectory_equivariant [LT K] [DecidableLT K] (eq : ShallowWaterEquations K M N)
    (H : Equivariant eq.ops S) (hist' hist : List (Entry K (TM (DynamicsSW.State M))))
    (h : HistRel (tmMap S.swState) hist' hist) (u : TM (DynamicsSW.State M)) :
    runHistory (swImEx (S.swEqn eq)) hist' (tmMap S.swState u)
      = (runHistory (swImEx eq) hist u).map (tmMap S.swState) :=
  runHistory_equiv (swImEx_intertwines eq H) hist' hist h u

/-- **leapfrog runs of the primitive-equation classes** -/
theorem pe_leapfrog_equivariant [BEq K] [Div N] (cls : Cls) (eq : PrimitiveEquations K M N)
    (H : Equivariant eq.ops S) (hdiv : ∀ a b : N, S.ρN (a / b) = S.ρN a / S.ρN b)
    (invOf : K → Nat → List (List K)) (dt α : K)
    (fs' fs : List (LfFilter K (TM (StateWithTime K M)))) (h : List.Forall₂ (lfRel (tmState S)) fs' fs)
    (k : Nat) (u : TM (StateWithTime K M) × TM (StateWithTime K M)) :
    runLeapfrog (peImEx cls (S.eqn eq) invOf) dt α fs' k (tmState S u.1, tmState S u.2)
      = (tmState S (runLeapfrog (peImEx cls eq invOf) dt α fs k u).1,
         tmState S (runLeapfrog (peImEx cls eq invOf) dt α fs k u).2) :=
  runLeapfrog_equiv (peImEx_intertwines cls eq H hdiv invOf) dt α fs' fs h k u

/-- **spectral filters are conjugated to themselves**: a tree filter that applies one linear multiplier `φ` to
 every modal leaf (`filtering.exponential_filter`, `horizontal_diffusion_filter`: multiplication by a function
 of the total wavenumber) commutes with the lifted symmetry as soon as `φ` commutes with the modal action `ρM`
 — the `HistRel` hypothesis of `pe_trajectory_equivariant` reduced to a statement of the same form as
 `Equivariant.laplacian` (for the list model: `rot_lMul_commutes`, `mirror_dDlon_lMul_commute`) -/
theorem spectral_filter_conjugated (S : Sym K M N) (φ : M →ₗ[K] M) (hφ : ∀ x, φ (S.ρM x) = S.ρM (φ x))
    (u : TM (StateWithTime K M)) :
    tmMap (leafFilter φ) (tmState S u) = tmState S (tmMap (leafFilter φ) u) :=
  leafFilter_conjugated S φ hφ u

/-- **the primitive-equation classes along any history with spectral filters**: every filter a leaf-wise
 multiplier commuting with `ρM`; the SAME filters in both runs -/
theorem pe_trajectory_equivariant_spectral_filters [BEq K] [Div N] (cls : Cls)
    (eq : PrimitiveEquations K M N) (H : Equivariant eq.ops S)
    (hdiv : ∀ a b : N, S.ρN (a / b) = S.ρN a / S.ρN b) (invOf : K → Nat → List (List K))
    (hist : List (Scheme K × K × List (M →ₗ[K] M)))
    (hφ : ∀ en ∈ hist, ∀ φ ∈ en.2.2, ∀ x, φ (S.ρM x) = S.ρM (φ x)) (u : TM (StateWithTime K M)) :
    runHistory (peImEx cls (S.eqn eq) invOf)
        (hist.map fun en => ⟨en.1, en.2.1, en.2.2.map fun φ => tmMap (leafFilter φ)⟩) (tmState S u)
      = (runHistory (peImEx cls eq invOf)
          (hist.map fun en => ⟨en.1, en.2.1, en.2.2.map fun φ => tmMap (leafFilter φ)⟩) u).map (tmState S) :=
  pe_trajectory_equivariant cls eq H hdiv invOf _ _ (histRel_leafFilters S hist hφ) u

/-- **the filter hypothesis of leapfrog runs, discharged** (`Symmetry.lfRel_leafFilters`, re-exported): a list
 of leapfrog filters — `Sum.inl φ` = `leapfrog_step_filter` of the spectral filter with multiplier `φ`, `Sum.inr r`
 = `robert_asselin_leapfrog_filter(r)`, any `r` — is `lfRel`-related to ITSELF as soon as every `φ` commutes
 with `ρM`; this is the hypothesis `h` of `leapfrog_trajectory_equivariant` / `pe_leapfrog_equivariant` -/
theorem leapfrog_spectral_filters_related (S : Sym K M N) (fs : List (Sum (M →ₗ[K] M) K))
    (hφ : ∀ f ∈ fs, ∀ φ, f = Sum.inl φ → ∀ x, φ (S.ρM x) = S.ρM (φ x)) :
    List.Forall₂ (lfRel (tmState S))
      (fs.map fun f => match f with
        | .inl φ => LfFilter.state (tmMap (leafFilter φ))
        | .inr r => LfFilter.ra r)
      (fs.map fun f => match f with
        | .inl φ => LfFilter.state (tmMap (leafFilter φ))
        | .inr r => LfFilter.ra r) :=
  lfRel_leafFilters S fs hφ

/-- **leapfrog runs of the primitive-equation classes with spectral filters and Robert–Asselin filters**: the
 SAME filter list (`Symmetry.lfSpectral`: `inl φ ↦ leapfrog_step_filter (leafFilter φ)`, `inr r ↦ RA(r)`) in both
 runs, every multiplier commuting with `ρM`, any number of steps -/
theorem pe_leapfrog_equivariant_spectral_filters [BEq K] [Div N] (cls : Cls)
    (eq : PrimitiveEquations K M N) (H : Equivariant eq.ops S)
    (hdiv : ∀ a b : N, S.ρN (a / b) = S.ρN a / S.ρN b) (invOf : K → Nat → List (List K)) (dt α : K)
    (fs : List (Sum (M →ₗ[K] M) K))
    (hφ : ∀ f ∈ fs, ∀ φ, f = Sum.inl φ → ∀ x, φ (S.ρM x) = S.ρM (φ x))
    (k : Nat) (u : TM (StateWithTime K M) × TM (StateWithTime K M)) :
    runLeapfrog (peImEx cls (S.eqn eq) invOf) dt α (fs.map lfSpectral) k (tmState S u.1, tmState S u.2)
      = (tmState S (runLeapfrog (peImEx cls eq invOf) dt α (fs.map lfSpectral) k u).1,
         tmState S (runLeapfrog (peImEx cls eq invOf) dt α (fs.map lfSpectral) k u).2) :=
  pe_leapfrog_equivariant cls eq H hdiv invOf dt α _ _ (lfRel_lfSpectral S fs hφ) k u

/-- **spectral filters on shallow-water states are conjugated to themselves** (the analogue of
 `spectral_filter_conjugated` for `shallow_water.State`: no clock, vorticity odd) -/
theorem sw_spectral_filter_conjugated (S : Sym K M N) (φ : M →ₗ[K] M) (hφ : ∀ x, φ (S.ρM x) = S.ρM (φ x))
    (u : TM (DynamicsSW.State M)) :
    tmMap (swLeafFilter φ) (tmMap S.swState u) = tmMap S.swState (tmMap (swLeafFilter φ) u) :=
  swLeafFilter_conjugated S φ hφ u

/-- **shallow water along any history with spectral filters**: every filter a leaf-wise multiplier commuting
 with `ρM`; the SAME filters in both runs -/
theorem sw_trajectory_equivariant_spectral_filters [LT K] [DecidableLT K] (eq : ShallowWaterEquations K M N)
    (H : Equivariant eq.ops S) (hist : List (Scheme K × K × List (M →ₗ[K] M)))
    (hφ : ∀ en ∈ hist, ∀ φ ∈ en.2.2, ∀ x, φ (S.ρM x) = S.ρM (φ x)) (u : TM (DynamicsSW.State M)) :
    runHistory (swImEx (S.swEqn eq)) (histOf (fun φ => tmMap (swLeafFilter φ)) hist) (tmMap S.swState u)
      = (runHistory (swImEx eq) (histOf (fun φ => tmMap (swLeafFilter φ)) hist) u).map (tmMap S.swState) :=
  sw_trajectory_equivariant eq H _ _ (histRel_swLeafFilters S hist hφ) u

/-- **leapfrog runs of shallow water** (any conjugated filters) -/
theorem sw_leapfrog_equivariant [LT K] [DecidableLT K] (eq : ShallowWaterEquations K M N)
    (H : Equivariant eq.ops S) (dt α : K) (fs' fs : List (LfFilter K (TM (DynamicsSW.State M))))
    (h : List.Forall₂ (lfRel (tmMap S.swState)) fs' fs) (k : Nat)
    (u : TM (DynamicsSW.State M) × TM (DynamicsSW.State M)) :
    runLeapfrog (swImEx (S.swEqn eq)) dt α fs' k (tmMap S.swState u.1, tmMap S.swState u.2)
      = (tmMap S.swState (runLeapfrog (swImEx eq) dt α fs k u).1,
         tmMap S.swState (runLeapfrog (swImEx eq) dt α fs k u).2) :=
  runLeapfrog_equiv (swImEx_intertwines eq H) dt α fs' fs h k u

/-- **leapfrog runs of shallow water with spectral filters and Robert–Asselin filters** -/
theorem sw_leapfrog_equivariant_spectral_filters [LT K] [DecidableLT K] (eq : ShallowWaterEquations K M N)
    (H : Equivariant eq.ops S) (dt α : K) (fs : List (Sum (M →ₗ[K] M) K))
    (hφ : ∀ f ∈ fs, ∀ φ, f = Sum.inl φ → ∀ x, φ (S.ρM x) = S.ρM (φ x)) (k : Nat)
    (u : TM (DynamicsSW.State M) × TM (DynamicsSW.State M)) :
    runLeapfrog (swImEx (S.swEqn eq)) dt α (fs.map swLfSpectral) k (tmMap S.swState u.1, tmMap S.swState u.2)
      = (tmMap S.swState (runLeapfrog (swImEx eq) dt α (fs.map swLfSpectral) k u).1,
         tmMap S.swState (runLeapfrog (swImEx eq) dt α (fs.map swLfSpectral) k u).2) :=
  sw_leapfrog_equivariant eq H dt α _ _ (lfRel_swLeafFilters S fs hφ) k u

end glue

/-! ## T10.2 rotation by `k` grid steps -/
section rotation
variable {K : Type} [Field K] {cs sn : ℕ → K} {N : ℕ}

/-- the hypothesis on the tables is satisfiable: the real cosine and sine, every `N > 0` -/
theorem trig_tables_exist (N : ℕ) (hN : 0 < N) :
    TrigTable (fun j : ℕ => Real.cos (2 * Real.pi * j / N)) (fun j : ℕ => Real.sin (2 * Real.pi * j / N)) N :=
  trigTable_real N hN

/-- `RealSphericalHarmonics.inverse_transform (rotate_k x) = roll k (inverse_transform x)` -/
theorem rot_synthesis_real (tt : TrigTable cs sn N) (hN : 0 < N) (s2p sp : K) (M J L k : ℕ) (hM : 1 ≤ M)
    (P : List (List (List K))) (w : List K)
    (hP : P.length = M) (hPj : ∀ pm ∈ P, pm.length = J) (hPl : ∀ pm ∈ P, ∀ pj ∈ pm, pj.length = L)
    (hw : w.length = J) (x : List (List K)) (hxl : x.length = 2 * M - 1) (hx : ∀ row ∈ x, row.length = L) :
    realSynth (realBasisOf (realBasis cs sn s2p sp M N) P w) J (rotReal cs sn N k x)
      = roll k (realSynth (realBasisOf (realBasis cs sn s2p sp M N) P w) J x) :=
  synth_rot_real tt hN s2p sp M J L k hM P w hP hPj hPl hw x hxl hx

/-- `RealSphericalHarmonics.transform (roll k z) = rotate_k (transform z)` -/
theorem rot_analysis_real (tt : TrigTable cs sn N) (hN : 0 < N) (s2p sp : K) (M J L k : ℕ) (hM : 1 ≤ M)
    (P : List (List (List K))) (w : List K)
    (hP : P.length = M) (hPj : ∀ pm ∈ P, pm.length = J) (hPl : ∀ pm ∈ P, ∀ pj ∈ pm, pj.length = L)
    (hw : w.length = J) (z : List (List K)) (hzl : z.length = N) (hz : ∀ zi ∈ z, zi.length = J) :
    realAnalysis (realBasisOf (realBasis cs sn s2p sp M N) P w) (2 * M - 1) J L (roll k z)
      = rotReal cs sn N k (realAnalysis (realBasisOf (realBasis cs sn s2p sp M N) P w) (2 * M - 1) J L z) :=
  analysis_rot_real tt hN s2p sp M J L k hM P w hP hPj hPl hw z hzl hz

/-- `FastSphericalHarmonics.inverse_transform`, with modal-row, latitude-node and `l`-column padding -/
theorem rot_synthesis_fast (tt : TrigTable cs sn N) (hN : 0 < N) (s2p sp : K) (M J L pr pj pc k : ℕ)
    (hM : 1 ≤ M) (P : List (List (List K))) (w : List K)
    (hP : P.length = M) (hPj : ∀ pm ∈ P, pm.length = J) (hPl : ∀ pm ∈ P, ∀ pj ∈ pm, pj.length = L)
    (hw : w.length = J) (x : List (List K)) (hxl : x.length = 2 * (M + pr / 2))
    (hx : ∀ row ∈ x, row.length = L + pc) :
    fastSynth (fastBasisOf (realBasisZeroImag cs sn s2p sp M N) P w 0 pr pj pc (2 * M) J L) (J + pj)
        (rotFast cs sn M N k x)
      = roll k (fastSynth (fastBasisOf (realBasisZeroImag cs sn s2p sp M N) P w 0 pr pj pc (2 * M) J L)
          (J + pj) x) :=
  synth_rot_fast M k tt hN s2p sp J L pr pj pc hM P w hP hPj hPl hw x hxl hx

/-- `FastSphericalHarmonics.transform` -/
theorem rot_analysis_fast (tt : TrigTable cs sn N) (hN : 0 < N) (s2p sp : K) (M J L pr pj pc k : ℕ)
    (hM : 1 ≤ M) (P : List (List (List K))) (w : List K)
    (hP : P.length = M) (hPj : ∀ pm ∈ P, pm.length = J) (hPl : ∀ pm ∈ P, ∀ pj ∈ pm, pj.length = L)
    (hw : w.length = J) (z : List (List K)) (hzl : z.length = N) (hz : ∀ zi ∈ z, zi.length = J + pj) :
    fastAnalysis (fastBasisOf (realBasisZeroImag cs sn s2p sp M N) P w 0 pr pj pc (2 * M) J L)
        (2 * (M + pr / 2)) (J + pj) (L + pc) (roll k z)
      = rotFast cs sn M N k
          (fastAnalysis (fastBasisOf (realBasisZeroImag cs sn s2p sp M N) P w 0 pr pj pc (2 * M) J L)
            (2 * (M + pr / 2)) (J + pj) (L + pc) z) :=
  analysis_rot_fast M k tt hN s2p sp J L pr pj pc hM P w hP hPj hPl hw z hzl hz

/-- `d_dlon` commutes with the rotation, both layouts (no hypothesis on the tables at all) -/
theorem rot_dDlon_commutes (M k L : ℕ) (x : List (List K)) (hx : ∀ row ∈ x, row.length = L) :
    (x.length % 2 = 1 →
      realDerivative (rotReal cs sn N k x) L = rotReal cs sn N k (realDerivative x L)) ∧
    (x.length % 2 = 0 → 2 * M ≤ x.length →
      zeroImagDerivative (rotFast cs sn M N k x) L 0 = rotFast cs sn M N k (zeroImagDerivative x L 0)) :=
  ⟨fun h => dDlon_rot_real k L x h hx, fun h1 h2 => dDlon_rot_fast M k L x h1 h2 hx⟩

/-- everything acting on `l` only (`laplacian`, `inverse_laplacian`, `clip_wavenumbers`, filters)
 commutes with the rotation, both layouts -/
theorem rot_lMul_commutes (M k L : ℕ) (c : List K) (hc : c.length = L) (x : List (List K))
    (hx : ∀ row ∈ x, row.length = L) :
    (x.length % 2 = 1 → lMul c (rotReal cs sn N k x) = rotReal cs sn N k (lMul c x)) ∧
    (x.length % 2 = 0 → 2 * M ≤ x.length →
      lMul c (rotFast cs sn M N k x) = rotFast cs sn M N k (lMul c x)) :=
  ⟨fun h => lMul_rot_real k L c hc x h hx, fun h1 h2 => lMul_rot_fast M k L c hc x h1 h2 hx⟩

/-- `cos_lat_d_dlat` and `sec_lat_d_dlat_cos2` commute with the rotation when the recurrence weights
 of the two rows of every pair `m ≥ 1` agree (they are functions of `|m|` and `l`), both layouts; the
 pair `(+0, −0)` of the fast layout — whose `−0` row is masked, hence carries zero weights — is not
 rotated (`sin 0 = 0`) -/
theorem rot_latitude_derivatives_commute (hsn : sn 0 = 0) (M k L : ℕ) (a b : List (List K))
    (x : List (List K)) (hx : ∀ row ∈ x, row.length = L) :
    ((∀ m, a.getD (2 * m + 2) [] = a.getD (2 * m + 1) []) →
     (∀ m, b.getD (2 * m + 2) [] = b.getD (2 * m + 1) []) → x.length % 2 = 1 →
      cosLatDDlat a b (rotReal cs sn N k x) = rotReal cs sn N k (cosLatDDlat a b x) ∧
      secLatDDlatCos2 a b (rotReal cs sn N k x) = rotReal cs sn N k (secLatDDlatCos2 a b x)) ∧
    ((∀ m, 1 ≤ m → a.getD (2 * m + 1) [] = a.getD (2 * m) []) →
     (∀ m, 1 ≤ m → b.getD (2 * m + 1) [] = b.getD (2 * m) []) → x.length % 2 = 0 → 2 * M ≤ x.length →
      cosLatDDlat a b (rotFast cs sn M N k x) = rotFast cs sn M N k (cosLatDDlat a b x) ∧
      secLatDDlatCos2 a b (rotFast cs sn M N k x) = rotFast cs sn M N k (secLatDDlatCos2 a b x)) :=
  ⟨fun ha hb h => ⟨twoTerm_rot_real k L _ _ a b ha hb x h hx, twoTerm_rot_real k L _ _ a b ha hb x h hx⟩,
   fun ha hb h1 h2 => ⟨twoTerm_rot_fast M k hsn L _ _ a b ha hb x h1 h2 hx,
     twoTerm_rot_fast M k hsn L _ _ a b ha hb x h1 h2 hx⟩⟩

end rotation

/-! ## T10.3 the equatorial mirror -/
section mirror
variable {K : Type} [Field K]

/-- parity of the computed tables at mirrored nodes (C01's `legendre_parity`, re-indexed) -/
theorem mirror_tables (sqrt : K → K) (M L : ℕ) (xs : List K) (hs : SymNodes xs) (m j l : ℕ)
    (hj : j < xs.length) :
    Lin.ent3 (Legendre.evaluate sqrt M L xs) m (xs.length - 1 - j) l
      = sgn (m + l) * Lin.ent3 (Legendre.evaluate sqrt M L xs) m j l :=
  ent3_evaluate_mirror sqrt M L xs hs m j l hj

/-- `RealSphericalHarmonics.inverse_transform (σ x) = flip (inverse_transform x)`, any Fourier matrix -/
theorem mirror_synthesis_real (sqrt : K → K) (M N L : ℕ) (xs : List K) (hs : SymNodes xs) (f : List (List K))
    (hf : f.length = N) (w : List K) (hwl : w.length = xs.length) (hw : SymWeights w xs.length)
    (x : List (List K)) (hx : ∀ row ∈ x, row.length = L) :
    realSynth (realBasisOf f (Legendre.evaluate sqrt M L xs) w) xs.length (mirrorModal mReal (fun l => l) x)
      = flipLat (realSynth (realBasisOf f (Legendre.evaluate sqrt M L xs) w) xs.length x) :=
  synth_mirror_real sqrt M N L xs hs f hf w hwl hw x hx

/-- `RealSphericalHarmonics.transform (flip z) = σ (transform z)` -/
theorem mirror_analysis_real (sqrt : K → K) (M N L : ℕ) (xs : List K) (hs : SymNodes xs)
    (f : List (List K)) (hf : f.length = N) (w : List K) (hwl : w.length = xs.length)
    (hw : SymWeights w xs.length) (z : List (List K)) (hzl : z.length ≤ N)
    (hz : ∀ zi ∈ z, zi.length = xs.length) :
    realAnalysis (realBasisOf f (Legendre.evaluate sqrt M L xs) w) (2 * M - 1) xs.length L (flipLat z)
      = mirrorModal mReal (fun l => l)
          (realAnalysis (realBasisOf f (Legendre.evaluate sqrt M L xs) w) (2 * M - 1) xs.length L z) :=
  analysis_mirror_real sqrt M N L xs hs f hf w hwl hw z hzl hz

/-- `FastSphericalHarmonics.inverse_transform`, longitude-node, modal-row and `l`-column padding -/
theorem mirror_synthesis_fast (sqrt : K → K) (M N L pn pr pc : ℕ) (xs : List K) (hs : SymNodes xs)
    (fz : List (List K)) (hf : fz.length = N) (w : List K) (hwl : w.length = xs.length)
    (hw : SymWeights w xs.length) (x : List (List K)) (hxl : x.length % 2 = 0)
    (hx : ∀ row ∈ x, row.length = L + pc) :
    fastSynth (fastBasisOf fz (Legendre.evaluate sqrt M L xs) w pn pr 0 pc (2 * M) xs.length L) (xs.length + 0)
        (mirrorModal mFast (fun l => l) x)
      = flipLat (fastSynth (fastBasisOf fz (Legendre.evaluate sqrt M L xs) w pn pr 0 pc (2 * M) xs.length L)
          (xs.length + 0) x) :=
  synth_mirror_fast sqrt M N L pn pr pc xs hs fz hf w hwl hw x hxl hx

/-- `FastSphericalHarmonics.transform` -/
theorem mirror_analysis_fast (sqrt : K → K) (M N L pn pr pc : ℕ) (xs : List K) (hs : SymNodes xs)
    (fz : List (List K)) (hf : fz.length = N) (w : List K) (hwl : w.length = xs.length)
    (hw : SymWeights w xs.length) (z : List (List K)) (hzl : z.length ≤ N + pn)
    (hz : ∀ zi ∈ z, zi.length = xs.length + 0) :
    fastAnalysis (fastBasisOf fz (Legendre.evaluate sqrt M L xs) w pn pr 0 pc (2 * M) xs.length L)
        (2 * (M + pr / 2)) (xs.length + 0) (L + pc) (flipLat z)
      = mirrorModal mFast (fun l => l)
          (fastAnalysis (fastBasisOf fz (Legendre.evaluate sqrt M L xs) w pn pr 0 pc (2 * M) xs.length L)
            (2 * (M + pr / 2)) (xs.length + 0) (L + pc) z) :=
  analysis_mirror_fast sqrt M N L pn pr pc xs hs fz hf w hwl hw z hzl hz

/-- `cos_lat_d_dlat`, `sec_lat_d_dlat_cos2` shift `l` by one: they **anticommute** with the mirror,
 for every row layout and all weights -/
theorem mirror_latitude_derivative_anticommutes (mOf : ℕ → ℕ) (L : ℕ) (a b x : List (List K))
    (hx : ∀ row ∈ x, row.length = L) :
    cosLatDDlat a b (mirrorModal mOf (fun l => l) x)
        = negM (mirrorModal mOf (fun l => l) (cosLatDDlat a b x)) ∧
    secLatDDlatCos2 a b (mirrorModal mOf (fun l => l) x)
        = negM (mirrorModal mOf (fun l => l) (secLatDDlatCos2 a b x)) :=
  ⟨twoTerm_mirror mOf L _ _ a b x hx, twoTerm_mirror mOf L _ _ a b x hx⟩

/-- `d_dlon` (both layouts) and the operators acting on `l` only commute with the mirror -/
theorem mirror_dDlon_lMul_commute (L off : ℕ) (c : List K) (hc : c.length = L) (mOf : ℕ → ℕ)
    (x : List (List K)) (hx : ∀ row ∈ x, row.length = L) :
    realDerivative (mirrorModal mReal (fun l => l) x) L = mirrorModal mReal (fun l => l) (realDerivative x L) ∧
    zeroImagDerivative (mirrorModal mFast (fun l => l) x) L off
      = mirrorModal mFast (fun l => l) (zeroImagDerivative x L off) ∧
    lMul c (mirrorModal mOf (fun l => l) x) = mirrorModal mOf (fun l => l) (lMul c x) :=
  ⟨dDlon_mirror_real L x hx, dDlon_mirror_fast L off x hx, lMul_mirror mOf L c hc x hx⟩

end mirror

/-! ## non-vacuity -/
section examples

/-- a two-mode (`a₀ + a₁ μ`), two-node (`μ = ∓1/2`) toy grid over `ℚ` whose operations have the
 right parities: `D1`, `D2` exchange the even mode `a₀` and the odd mode `a₁` -/
def toyOps : HOps ℚ (ℚ × ℚ) (ℚ × ℚ) :=
  { toNodal := fun a => (a.1 - a.2 / 2, a.1 + a.2 / 2)
    toModal := fun x => ((x.1 + x.2) / 2, x.2 - x.1)
    dDlon := fun _ => 0
    cosLatDDlat := fun a => (3 / 4 * a.2, 0)
    secLatDDlatCos2 := fun a => (a.2, -2 * a.1)
    laplacian := fun a => (0, -2 * a.2)
    inverseLaplacian := fun a => (0, -a.2 / 2)
    clip := fun a => a
    lproj := fun l a => if l = 0 then (a.1, 0) else if l = 1 then (0, a.2) else 0
    nL := 2
    lapEig := fun l => if l = 1 then -2 else 0
    cosLat := (3 / 5, 3 / 5), sec2Lat := (25 / 9, 25 / 9), sinLat := (-1 / 2, 1 / 2)
    oneModal := (1, 0)
    radius := 1 }

/-- the equatorial mirror of the toy grid: `a₁ ↦ −a₁`, the two nodes are exchanged, `ε = −1` -/
def toyMirror : Sym ℚ (ℚ × ℚ) (ℚ × ℚ) :=
  { ρM := LinearMap.prodMap LinearMap.id (-LinearMap.id)
    ρN := AlgHom.prod (AlgHom.snd ℚ ℚ ℚ) (AlgHom.fst ℚ ℚ ℚ)
    ε := -1 }

/-- the hypotheses of T10.1 hold for a non-trivial symmetry with `ε = −1` -/
theorem toyMirror_equivariant : Equivariant toyOps toyMirror where
  eps_sq := by norm_num [toyMirror]
  toNodal x := by ext <;> simp [toyOps, toyMirror] <;> ring
  toModal z := by ext <;> simp [toyOps, toyMirror] <;> ring
  dDlon x := by simp [toyOps]
  cosLatDDlat x := by ext <;> simp [toyOps, toyMirror]
  secLatDDlatCos2 x := by ext <;> simp [toyOps, toyMirror]
  laplacian x := by ext <;> simp [toyOps, toyMirror]
  inverseLaplacian x := by ext <;> simp [toyOps, toyMirror] <;> ring
  clip x := by simp [toyOps]
  lproj l x := by
    by_cases h0 : l = 0
    · subst h0; ext <;> simp [toyOps, toyMirror]
    · by_cases h1 : l = 1
      · subst h1; ext <;> simp [toyOps, toyMirror]
      · simp [toyOps, h0, h1]
  cosLat := by ext <;> simp [toyOps, toyMirror]
  sec2Lat := by ext <;> simp [toyOps, toyMirror]
  sinLat := by ext <;> simp [toyOps, toyMirror] <;> norm_num
  oneModal := by ext <;> simp [toyOps, toyMirror]
  toNodal_eps x := by ext <;> simp [toyOps, toyMirror] <;> ring
  toModal_eps z := by ext <;> simp [toyOps, toyMirror] <;> ring
  dDlon_eps x := by simp [toyOps]
  cosLatDDlat_eps x := by ext <;> simp [toyOps, toyMirror]
  secLatDDlatCos2_eps x := by ext <;> simp [toyOps, toyMirror]
  inverseLaplacian_eps x := by ext <;> simp [toyOps, toyMirror] <;> ring
  clip_eps x := by simp [toyOps]

def toyEq : PrimitiveEquations ℚ (ℚ × ℚ) (ℚ × ℚ) :=
  { ops := toyOps
    vert := { boundaries := [0, 1 / 3, 1], logCenters := [-2, -1 / 3] }
    phys := { angularVelocity := 1 / 2, g := 10, R := 287 / 100, Rvapor := 461 / 100, CpVapor := 18,
              kappa := 2 / 7 }
    referenceTemperature := [250, 260]
    orography := (3 / 10, 3 / 2) }

instance : BEq ℚ := ⟨fun a b => decide (a = b)⟩

/-- T10.1 applies to an uneven two-layer column with a hemispherically asymmetric orography, a
 vorticity with both parities and a tracer: the mirrored state over the mirrored orography has the
 mirrored tendency -/
example :
    let s : Dynamics.State (ℚ × ℚ) :=
      { vorticity := [(1, 2), (-3, 1 / 2)], divergence := [(0, 1), (2, -1)],
        temperatureVariation := [(5, 1), (4, -2)], logSurfacePressure := (1 / 10, 1 / 5),
        tracers := [("q", [(1, 1), (2, 3)])] }
    (toyMirror.eqn toyEq).explicitTerms (toyMirror.state s) = toyMirror.state (toyEq.explicitTerms s) :=
  pe_explicit_equivariant toyEq toyMirror_equivariant _

/-- the mirrored orography differs from the orography, and the action on the state is not the
 identity: the example is not the trivial symmetry -/
example : (toyMirror.eqn toyEq).orography ≠ toyEq.orography := by
  simp [Sym.eqn, toyEq, toyMirror]
  norm_num

example : toyMirror.mO ((1, 2) : ℚ × ℚ) = (-1, 2) ∧ toyMirror.mE ((1, 2) : ℚ × ℚ) = (1, -2) := by
  constructor <;> ext <;> simp [toyMirror, Sym.mO, Sym.mE]

/-- the division hypothesis of the moist classes holds for the toy mirror -/
example (a b : ℚ × ℚ) : toyMirror.ρN (a / b) = toyMirror.ρN a / toyMirror.ρN b := by
  ext <;> simp [toyMirror]

/-! ### a rotation (`ε = 1`): one latitude (`sin θ = 3/5`), four longitudes, modes `a₀ + a_c cos λ + a_s sin λ` -/

def c4 : Fin 4 → ℚ := ![1, 0, -1, 0]
def s4 : Fin 4 → ℚ := ![0, 1, 0, -1]

def ringOps : HOps ℚ (ℚ × ℚ × ℚ) (Fin 4 → ℚ) :=
  { toNodal := fun a i => a.1 + a.2.1 * c4 i + a.2.2 * s4 i
    toModal := fun z => ((z 0 + z 1 + z 2 + z 3) / 4, (z 0 - z 2) / 2, (z 1 - z 3) / 2)
    dDlon := fun a => (0, a.2.2, -a.2.1)
    cosLatDDlat := fun _ => 0
    secLatDDlatCos2 := fun _ => 0
    laplacian := fun a => (0, -2 * a.2.1, -2 * a.2.2)
    inverseLaplacian := fun a => (0, -a.2.1 / 2, -a.2.2 / 2)
    clip := fun a => a
    lproj := fun l a => if l = 0 then (a.1, 0, 0) else if l = 1 then (0, a.2.1, a.2.2) else 0
    nL := 2
    lapEig := fun l => if l = 1 then -2 else 0
    cosLat := fun _ => 4 / 5, sec2Lat := fun _ => 25 / 16, sinLat := fun _ => 3 / 5
    oneModal := (1, 0, 0)
    radius := 1 }

/-- `np.roll(·, 1)` on the four nodes -/
def turnN : (Fin 4 → ℚ) →ₐ[ℚ] (Fin 4 → ℚ) :=
  { toFun := fun z i => z (i - 1)
    map_one' := rfl
    map_mul' := fun _ _ => rfl
    map_zero' := rfl
    map_add' := fun _ _ => rfl
    commutes' := fun _ => rfl }

@[simp] theorem turnN_apply (z : Fin 4 → ℚ) (i : Fin 4) : turnN z i = z (i - 1) := rfl

/-- the rotation of the coefficient pair by `2π·1·1/4`: `(a_c, a_s) ↦ (−a_s, a_c)` -/
def turnM : (ℚ × ℚ × ℚ) →ₗ[ℚ] (ℚ × ℚ × ℚ) :=
  { toFun := fun a => (a.1, -a.2.2, a.2.1)
    map_add' := fun a b => by ext <;> simp <;> ring
    map_smul' := fun c a => by ext <;> simp }

@[simp] theorem turnM_apply (a : ℚ × ℚ × ℚ) : turnM a = (a.1, -a.2.2, a.2.1) := rfl

def quarterTurn : Sym ℚ (ℚ × ℚ × ℚ) (Fin 4 → ℚ) := { ρM := turnM, ρN := turnN, ε := 1 }

/-- the hypotheses of T10.1 hold for a non-trivial rotation (`ε = 1`) -/
theorem quarterTurn_equivariant : Equivariant ringOps quarterTurn where
  eps_sq := by norm_num [quarterTurn]
  toNodal x := by
    funext i
    fin_cases i <;> simp [ringOps, quarterTurn, c4, s4]
  toModal z := by
    have h0 : (0 : Fin 4) - 1 = 3 := rfl
    have h2 : (2 : Fin 4) - 1 = 1 := rfl
    have h3 : (3 : Fin 4) - 1 = 2 := rfl
    ext <;> simp [ringOps, quarterTurn, h0, h2, h3] <;> ring
  dDlon x := by ext <;> simp [ringOps, quarterTurn]
  cosLatDDlat x := by simp [ringOps, quarterTurn]; rfl
  secLatDDlatCos2 x := by simp [ringOps, quarterTurn]; rfl
  laplacian x := by ext <;> simp [ringOps, quarterTurn]
  inverseLaplacian x := by ext <;> simp [ringOps, quarterTurn] <;> ring
  clip x := by simp [ringOps]
  lproj l x := by
    by_cases h0 : l = 0
    · subst h0; ext <;> simp [ringOps, quarterTurn]
    · by_cases h1 : l = 1
      · subst h1; ext <;> simp [ringOps, quarterTurn]
      · simp [ringOps, h0, h1, quarterTurn]; rfl
  cosLat := by funext i; simp [ringOps, quarterTurn]
  sec2Lat := by funext i; simp [ringOps, quarterTurn]
  sinLat := by funext i; simp [ringOps, quarterTurn]
  oneModal := by ext <;> simp [ringOps, quarterTurn]
  toNodal_eps x := by simp [quarterTurn]
  toModal_eps z := by simp [quarterTurn]
  dDlon_eps x := by simp [quarterTurn]
  cosLatDDlat_eps x := by simp [quarterTurn]
  secLatDDlatCos2_eps x := by simp [quarterTurn]
  inverseLaplacian_eps x := by simp [quarterTurn]
  clip_eps x := by simp [quarterTurn]

/-- T10.1 applies to a two-layer shallow-water system over a zonally asymmetric orography: the
 quarter-turned state over the quarter-turned orography has the quarter-turned tendency, and so
 has every trajectory -/
example :
    let eq : ShallowWaterEquations ℚ (ℚ × ℚ × ℚ) (Fin 4 → ℚ) :=
      { ops := ringOps
        specs := { densities := [1, 2], radius := 1, angularVelocity := 1 / 2, gravityAcceleration := 1 }
        orography := some (1 / 10, 1 / 5, -3 / 10)
        referencePotential := [1, 3 / 2] }
    let s : DynamicsSW.State (ℚ × ℚ × ℚ) :=
      { vorticity := [(0, 1, 2), (0, -1, 1 / 2)], divergence := [(0, 1 / 3, 0), (0, 2, -1)],
        potential := [(1, 1 / 2, 1 / 4), (2, 0, 1)] }
    (quarterTurn.swEqn eq).explicitTerms (quarterTurn.swState s) = quarterTurn.swState (eq.explicitTerms s) :=
  sw_explicit_equivariant _ quarterTurn_equivariant _

example : quarterTurn.ρM (1 / 10, 1 / 5, -3 / 10) = (1 / 10, 3 / 10, 1 / 5) := by
  ext <;> simp [quarterTurn] <;> norm_num


/-- the tables of the quarter turn on `N = 4` nodes are rational: `TrigTable` holds by evaluation -/
def cs4 : ℕ → ℚ := fun j => [1, 0, -1, 0].getD j 0
def sn4 : ℕ → ℚ := fun j => [0, 1, 0, -1].getD j 0

theorem trig4 : TrigTable cs4 sn4 4 where
  cs_zero := rfl
  sn_zero := rfl
  cs_add a b := by
    have ha : a % 4 < 4 := Nat.mod_lt _ (by norm_num)
    have hb : b % 4 < 4 := Nat.mod_lt _ (by norm_num)
    rw [Nat.add_mod]
    generalize a % 4 = p at ha
    generalize b % 4 = q at hb
    interval_cases p <;> interval_cases q <;> simp [cs4, sn4]
  sn_add a b := by
    have ha : a % 4 < 4 := Nat.mod_lt _ (by norm_num)
    have hb : b % 4 < 4 := Nat.mod_lt _ (by norm_num)
    rw [Nat.add_mod]
    generalize a % 4 = p at ha
    generalize b % 4 = q at hb
    interval_cases p <;> interval_cases q <;> simp [cs4, sn4]
  pyth a := by
    have ha : a % 4 < 4 := Nat.mod_lt _ (by norm_num)
    generalize a % 4 = p at ha
    interval_cases p <;> simp [cs4, sn4]

/-- T10.2 on a concrete object: `M = 2` (rows `0, +1, −1`), `N = 4`, `k = 1` (a quarter turn maps
 the pair `(a, b)` to `(−b, a)`), two latitude nodes, `L = 2` -/
example :
    let P : List (List (List ℚ)) := [[[1, 2], [1, -2]], [[0, 3], [0, 3]]]
    let x : List (List ℚ) := [[1, 2], [3, 4], [5, 6]]
    rotReal cs4 sn4 4 1 x = [[1, 2], [-5, -6], [3, 4]] ∧
    realSynth (realBasisOf (realBasis cs4 sn4 2 3 2 4) P [1, 1]) 2 (rotReal cs4 sn4 4 1 x)
      = roll 1 (realSynth (realBasisOf (realBasis cs4 sn4 2 3 2 4) P [1, 1]) 2 x) := by
  refine ⟨by decide +kernel, ?_⟩
  exact rot_synthesis_real trig4 (by norm_num) 2 3 2 2 2 1 (by norm_num) _ _ rfl
    (by intro pm h; simp at h; rcases h with rfl | rfl <;> rfl)
    (by intro pm h pj hj; simp at h; rcases h with rfl | rfl <;> simp at hj <;> rcases hj with rfl | rfl <;> rfl)
    rfl _ rfl (by intro row h; simp at h; rcases h with rfl | rfl | rfl <;> rfl)

/-- T10.3 hypotheses on a concrete object: two symmetric nodes `∓1/2` with equal weights -/
example : SymNodes ([-1 / 2, 1 / 2] : List ℚ) ∧ SymWeights ([1, 1] : List ℚ) 2 := by
  constructor
  · intro j hj
    have : j < 2 := hj
    interval_cases j <;> simp [Lin.ent] <;> norm_num
  · intro j hj
    interval_cases j <;> simp [Lin.ent]

/-- the mirror sign on a concrete spectral array (real layout, rows `m = 0, 1, 1`) -/
example : mirrorModal mReal (fun l => l) ([[1, 2, 3], [4, 5, 6], [7, 8, 9]] : List (List ℚ))
    = [[1, -2, 3], [-4, 5, -6], [-7, 8, -9]] := by decide +kernel

/-! ### filters: the commutation hypothesis of `spectral_filter_conjugated` on the two toy symmetries -/

/-- an `l`-multiplier on the toy grid (`a₀ ↦ a₀`, `a₁ ↦ a₁/2`) commutes with the mirror … -/
def toyDamp : (ℚ × ℚ) →ₗ[ℚ] (ℚ × ℚ) := LinearMap.prodMap LinearMap.id ((1 / 2 : ℚ) • LinearMap.id)

theorem toyDamp_commutes (x : ℚ × ℚ) : toyDamp (toyMirror.ρM x) = toyMirror.ρM (toyDamp x) := by
  ext <;> simp [toyDamp, toyMirror]

/-- … so a filtered three-step history of the cloud-free dry class over the mirrored orography is the mirrored
 history (every hypothesis of `pe_trajectory_equivariant_spectral_filters` instantiated, `ε = −1`) -/
example (invOf : ℚ → Nat → List (List ℚ)) (u : TM (StateWithTime ℚ (ℚ × ℚ))) :=
  pe_trajectory_equivariant_spectral_filters .dry toyEq toyMirror_equivariant
    (fun a b => by ext <;> simp [toyMirror]) invOf
    [(.bfe, 1 / 10, [toyDamp]), (.cnrk2, 1 / 5, [toyDamp, toyDamp]), (.bfe, 1 / 10, [])]
    (fun en _ φ hφ x => by
      have : φ = toyDamp := by
        rcases List.mem_cons.1 ‹en ∈ _› with rfl | h
        · simpa using hφ
        · rcases List.mem_cons.1 h with rfl | h
          · simp at hφ; exact hφ
          · rcases List.mem_cons.1 h with rfl | h
            · simp at hφ
            · simp at h
      rw [this]; exact toyDamp_commutes x) u

/-- on the ring an `l`-multiplier (the pair `(a_c, a_s)` of `m = 1` scaled by ONE factor) commutes with the
 quarter turn, and a multiplier that treats the two rows of the pair differently does NOT: the hypothesis is a
 genuine restriction, met by functions of the total wavenumber -/
def ringDamp (c s : ℚ) : (ℚ × ℚ × ℚ) →ₗ[ℚ] (ℚ × ℚ × ℚ) :=
  LinearMap.prodMap LinearMap.id (LinearMap.prodMap (c • LinearMap.id) (s • LinearMap.id))

example (c : ℚ) (x : ℚ × ℚ × ℚ) : ringDamp c c (quarterTurn.ρM x) = quarterTurn.ρM (ringDamp c c x) := by
  ext <;> simp [ringDamp, quarterTurn]

example : ringDamp (1 / 3) (1 / 2) (quarterTurn.ρM (0, 1, 0)) ≠ quarterTurn.ρM (ringDamp (1 / 3) (1 / 2) (0, 1, 0)) := by
  simp [ringDamp, quarterTurn]

/-- leapfrog: five Robert–Asselin-filtered, spectrally filtered leapfrog steps of the dry class over the mirrored
 orography are the mirrored run (every hypothesis of `pe_leapfrog_equivariant_spectral_filters` instantiated,
 `ε = −1`, a state filter, an RA filter of strength `1/20`, a second state filter) -/
example (invOf : ℚ → Nat → List (List ℚ))
    (u : TM (StateWithTime ℚ (ℚ × ℚ)) × TM (StateWithTime ℚ (ℚ × ℚ))) :=
  pe_leapfrog_equivariant_spectral_filters .dry toyEq toyMirror_equivariant
    (fun a b => by ext <;> simp [toyMirror]) invOf (1 / 10) (1 / 2)
    [.inl toyDamp, .inr (1 / 20), .inl toyDamp]
    (fun f hf φ e x => by
      have : φ = toyDamp := by
        subst e
        simpa using hf
      rw [this]; exact toyDamp_commutes x) 5 u

/-- the filter lists of that run are not trivial: the state filter halves the odd mode of every leaf and leaves
 the clock alone -/
example :
    let s : StateWithTime ℚ (ℚ × ℚ) :=
      { state := { vorticity := [(1, 2)], divergence := [(0, 4)], temperatureVariation := [(5, 6)],
                   logSurfacePressure := (1, 8), tracers := [] }, simTime := 3 }
    leafFilter toyDamp s =
      { state := { vorticity := [(1, 1)], divergence := [(0, 2)], temperatureVariation := [(5, 3)],
                   logSurfacePressure := (1, 4), tracers := [] }, simTime := 3 } := by
  simp [leafFilter, toyDamp, mapTracers]
  norm_num

/-- on the ring the one-factor multiplier commutes with the quarter turn (for every factor) … -/
theorem ringDamp_commutes (c : ℚ) (x : ℚ × ℚ × ℚ) :
    ringDamp c c (quarterTurn.ρM x) = quarterTurn.ρM (ringDamp c c x) := by
  ext <;> simp [ringDamp, quarterTurn]

def ringSW : ShallowWaterEquations ℚ (ℚ × ℚ × ℚ) (Fin 4 → ℚ) :=
  { ops := ringOps
    specs := { densities := [1, 2], radius := 1, angularVelocity := 1 / 2, gravityAcceleration := 1 }
    orography := some (1 / 10, 1 / 5, -3 / 10)
    referencePotential := [1, 3 / 2] }

/-- … so a filtered three-step history of the two-layer shallow-water system over the quarter-turned
 (zonally asymmetric) orography is the quarter-turned history (every hypothesis of
 `sw_trajectory_equivariant_spectral_filters` instantiated, `ε = 1`), and so is a leapfrog run with a spectral
 filter and a Robert–Asselin filter -/
example (u : TM (DynamicsSW.State (ℚ × ℚ × ℚ))) :=
  sw_trajectory_equivariant_spectral_filters ringSW quarterTurn_equivariant
    [(.bfe, 1 / 10, [ringDamp (1 / 2) (1 / 2)]), (.cnrk2, 1 / 5, [ringDamp (1 / 3) (1 / 3)]), (.bfe, 1 / 10, [])]
    (fun en he φ hφ x => by
      have : ∃ c, φ = ringDamp c c := by
        rcases List.mem_cons.1 he with rfl | h
        · exact ⟨1 / 2, by simpa using hφ⟩
        · rcases List.mem_cons.1 h with rfl | h
          · exact ⟨1 / 3, by simpa using hφ⟩
          · rcases List.mem_cons.1 h with rfl | h
            · simp at hφ
            · simp at h
      obtain ⟨c, rfl⟩ := this
      exact ringDamp_commutes c x) u

example (u : TM (DynamicsSW.State (ℚ × ℚ × ℚ)) × TM (DynamicsSW.State (ℚ × ℚ × ℚ))) :=
  sw_leapfrog_equivariant_spectral_filters ringSW quarterTurn_equivariant (1 / 10) (1 / 2)
    [.inl (ringDamp (1 / 2) (1 / 2)), .inr (1 / 20)]
    (fun f hf φ e x => by
      have : φ = ringDamp (1 / 2) (1 / 2) := by
        subst e
        simpa using hf
      rw [this]; exact ringDamp_commutes _ x) 4 u

/-- the shallow-water filter and the quarter-turned orography are not trivial -/
example :
    swLeafFilter (ringDamp (1 / 2) (1 / 2))
        ({ vorticity := [(0, 1, 2)], divergence := [(0, 4, 0)], potential := [(1, 2, 6)] } :
          DynamicsSW.State (ℚ × ℚ × ℚ))
      = { vorticity := [(0, 1 / 2, 1)], divergence := [(0, 2, 0)], potential := [(1, 1, 3)] } ∧
    (quarterTurn.swEqn ringSW).orography ≠ ringSW.orography := by
  constructor
  · simp [swLeafFilter, ringDamp]
    norm_num
  · simp [ringSW, quarterTurn]
    norm_num

/-! ### the two hypotheses of `rot_latitude_derivatives_commute` (pairwise-equal recurrence weights, `sn 0 = 0`) -/

/-- real layout (rows `m = 0, +1, −1`), a quarter turn, weights equal on the pair `m = 1` -/
example :
    let a : List (List ℚ) := [[1, 2], [3, 4], [3, 4]]
    let b : List (List ℚ) := [[5, 1], [2, 7], [2, 7]]
    let x : List (List ℚ) := [[1, 2], [3, 4], [5, 6]]
    cosLatDDlat a b (rotReal cs4 sn4 4 1 x) = rotReal cs4 sn4 4 1 (cosLatDDlat a b x) ∧
    secLatDDlatCos2 a b (rotReal cs4 sn4 4 1 x) = rotReal cs4 sn4 4 1 (secLatDDlatCos2 a b x) :=
  (rot_latitude_derivatives_commute (cs := cs4) (sn := sn4) (N := 4) trig4.sn_zero 2 1 2 _ _ _
    (by intro row h; simp at h; rcases h with rfl | rfl | rfl <;> rfl)).1
    (fun m => by cases m <;> simp) (fun m => by cases m <;> simp) rfl

/-- fast layout (rows `+0, −0, +1, −1`; the masked `−0` row carries zero weights), `sn4 0 = 0` from `trig4` -/
example :
    let a : List (List ℚ) := [[1, 2], [0, 0], [3, 4], [3, 4]]
    let b : List (List ℚ) := [[5, 1], [0, 0], [2, 7], [2, 7]]
    let x : List (List ℚ) := [[1, 2], [0, 0], [3, 4], [5, 6]]
    cosLatDDlat a b (rotFast cs4 sn4 2 4 1 x) = rotFast cs4 sn4 2 4 1 (cosLatDDlat a b x) ∧
    secLatDDlatCos2 a b (rotFast cs4 sn4 2 4 1 x) = rotFast cs4 sn4 2 4 1 (secLatDDlatCos2 a b x) :=
  (rot_latitude_derivatives_commute (cs := cs4) (sn := sn4) (N := 4) trig4.sn_zero 2 1 2 _ _ _
    (by intro row h; simp at h; rcases h with rfl | rfl | rfl | rfl <;> rfl)).2
    (fun m hm => by
      rcases m with _ | _ | m
      · omega
      · rfl
      · simp only [List.getD_eq_getElem?_getD]
        rw [List.getElem?_eq_none (by simp; omega), List.getElem?_eq_none (by simp; omega)])
    (fun m hm => by
      rcases m with _ | _ | m
      · omega
      · rfl
      · simp only [List.getD_eq_getElem?_getD]
        rw [List.getElem?_eq_none (by simp; omega), List.getElem?_eq_none (by simp; omega)]) rfl (by simp)

/-- the weight hypothesis is a genuine restriction: with different weights on the two rows of the pair `m = 1` the
 stencil does NOT commute with the rotation -/
example :
    cosLatDDlat [[1, 2], [3, 4], [1, 1]] [[5, 1], [2, 7], [2, 7]] (rotReal cs4 sn4 4 1 ([[1, 2], [3, 4], [5, 6]] : List (List ℚ)))
      ≠ rotReal cs4 sn4 4 1 (cosLatDDlat [[1, 2], [3, 4], [1, 1]] [[5, 1], [2, 7], [2, 7]] [[1, 2], [3, 4], [5, 6]]) := by
  decide +kernel

end examples

end Dino.C10
