import DinoProofs.Lemmas.BalanceSW
import DinoProofs.Lemmas.BalanceCol
import DinoProofs.Lemmas.BalanceZonal
import Mathlib.Algebra.Algebra.Prod
import Mathlib.Tactic.NormNum

/-!
# C05 — tendencies match the continuous equations; balanced states are exactly steady

Theorems about the models `Dino.Dynamics` (primitive equations, four classes) and `Dino.DynamicsSW`
(layered shallow water and the factories of `shallow_water_states`).  The horizontal operations
are abstract (`HOps`, data without laws); every law used is a named hypothesis (`LinLaws`,
`ConstLaws`, …) validated on real grids by `harness/props/C05.py`.
-/
set_option linter.unusedSectionVars false
set_option linter.unnecessarySeqFocus false
set_option linter.unusedTactic false
set_option linter.unreachableTactic false

namespace Dino.C05
open Dino Dino.Balance

section PrimitiveEquationsPart
open Dino.Dynamics

/-! ## T5.1 — the resting atmosphere over orography is steady (all four classes) -/
section T51
variable {K M N : Type} [Field K] [AddCommGroup M] [Module K M] [CommRing N] [Algebra K N]
variable (eq : PrimitiveEquations K M N)

/-- hydrostatic surface pressure of a resting isothermal atmosphere over the orography `h`:
 `ln p_s = −g h / (R_eff T₀) + c` -/
def restLnp (Reff T0 c : K) : M :=
  (-(eq.phys.g / (Reff * T0))) • eq.orography + c • eq.ops.oneModal

/-- **T5.1 (dry, residual form).**  For every level set, orography, constant `T_ref = T₀`, constant
 `c` and every set of tracers, the total tendency of the resting state is zero in every field
 except for the part of `g ∇²h` that `clip_wavenumbers` removes from the explicit half only. -/
theorem rest_total_dry [BEq K] (L : LinLaws eq.ops) (hlap1 : eq.ops.laplacian eq.ops.oneModal = 0)
    (n : ℕ) (hn : 0 < n) (hb : eq.vert.boundaries.length = n + 1)
    (hlc : eq.vert.logCenters.length = n) (T0 c : K) (hRT : eq.phys.R * T0 ≠ 0)
    (hT : eq.referenceTemperature = List.replicate n T0)
    (tr : List (String × List M)) (htr : ∀ kv ∈ tr, kv.2.length = n) :
    let s := restState n (restLnp eq eq.phys.R T0 c) tr
    State.add (eq.explicitTerms s) (eq.implicitTerms s) =
      { zeroTendency n tr with
        divergence := List.replicate n (eq.phys.g •
          (eq.ops.laplacian eq.orography - eq.ops.clip (eq.ops.laplacian eq.orography))) } := by
  intro s
  rw [explicitTerms_rest eq L n hn hb hlc (by simp [hT]) _ tr htr,
    implicitTerms_rest eq n hb hlc T0 hT _ tr htr]
  have key : eq.ops.laplacian ((eq.phys.R * T0) • restLnp eq eq.phys.R T0 c)
      = (-eq.phys.g) • eq.ops.laplacian eq.orography := by
    unfold restLnp
    rw [L.laplacian.map_smul, L.laplacian.map_add, L.laplacian.map_smul, L.laplacian.map_smul, hlap1,
      smul_zero, add_zero, smul_smul]
    have hR : eq.phys.R ≠ 0 := left_ne_zero_of_mul hRT
    have hT0 : T0 ≠ 0 := right_ne_zero_of_mul hRT
    congr 1; field_simp
  simp only [State.add, Col.add, List.zipWith_replicate, Nat.min_self, add_zero, zipTracers_const,
    zeroTendency, key, L.clip.map_smul]
  congr 2
  module

/-- **T5.1 (dry).**  With orography whose Laplacian is not touched by `clip_wavenumbers` (e.g. the
 output of `truncated_modal_orography`) the resting state is exactly steady. -/
theorem rest_steady_dry [BEq K] (L : LinLaws eq.ops) (hlap1 : eq.ops.laplacian eq.ops.oneModal = 0)
    (n : ℕ) (hn : 0 < n) (hb : eq.vert.boundaries.length = n + 1)
    (hlc : eq.vert.logCenters.length = n) (T0 c : K) (hRT : eq.phys.R * T0 ≠ 0)
    (hT : eq.referenceTemperature = List.replicate n T0)
    (hclip : eq.ops.clip (eq.ops.laplacian eq.orography) = eq.ops.laplacian eq.orography)
    (tr : List (String × List M)) (htr : ∀ kv ∈ tr, kv.2.length = n) :
    let s := restState n (restLnp eq eq.phys.R T0 c) tr
    State.add (eq.explicitTerms s) (eq.implicitTerms s) = zeroTendency n tr := by
  intro s
  have h := rest_total_dry eq L hlap1 n hn hb hlc T0 c hRT hT tr htr
  simp only [hclip, sub_self, smul_zero] at h
  exact h

/-- **T5.1 (`PrimitiveEquationsWithTime`).**  Same state; the clock runs at rate one. -/
theorem rest_steady_withTime [BEq K] (L : LinLaws eq.ops)
    (hlap1 : eq.ops.laplacian eq.ops.oneModal = 0)
    (n : ℕ) (hn : 0 < n) (hb : eq.vert.boundaries.length = n + 1)
    (hlc : eq.vert.logCenters.length = n) (T0 c : K) (hRT : eq.phys.R * T0 ≠ 0)
    (hT : eq.referenceTemperature = List.replicate n T0)
    (hclip : eq.ops.clip (eq.ops.laplacian eq.orography) = eq.ops.laplacian eq.orography)
    (tr : List (String × List M)) (htr : ∀ kv ∈ tr, kv.2.length = n) (t : K) :
    let s : StateWithTime K M := { state := restState n (restLnp eq eq.phys.R T0 c) tr, simTime := t }
    State.add (PrimitiveEquationsWithTime.explicitTerms eq s).state
        (PrimitiveEquationsWithTime.implicitTerms eq s).state = zeroTendency n tr
      ∧ (PrimitiveEquationsWithTime.explicitTerms eq s).simTime
          + (PrimitiveEquationsWithTime.implicitTerms eq s).simTime = 1 := by
  intro s
  refine ⟨rest_steady_dry eq L hlap1 n hn hb hlc T0 c hRT hT hclip tr htr, ?_⟩
  simp [PrimitiveEquationsWithTime.explicitTerms, PrimitiveEquationsWithTime.implicitTerms]

end T51

section T51moist
variable {K M N : Type} [Field K] [AddCommGroup M] [Module K M] [CommRing N] [Algebra K N] [Div N]
variable (eq : PrimitiveEquations K M N)

/-- effective gas constant of air with uniform specific humidity `q₀`: `R (1 + (R_v/R − 1) q₀)` -/
def Reff (q0 : K) : K := eq.phys.R * (1 + (eq.phys.Rvapor / eq.phys.R - 1) * q0)

/-- the common part of the two moist classes -/
theorem rest_steady_moistWith [BEq K] (L : LinLaws eq.ops) (C : ConstLaws eq.ops)
    (n : ℕ) (hn : 0 < n) (hb : eq.vert.boundaries.length = n + 1)
    (hlc : eq.vert.logCenters.length = n) (T0 c q0 : K) (hR : eq.phys.R ≠ 0)
    (hRT : Reff eq q0 * T0 ≠ 0)
    (hT : eq.referenceTemperature = List.replicate n T0)
    (hclip : eq.ops.clip (eq.ops.laplacian eq.orography) = eq.ops.laplacian eq.orography)
    (hrt : eq.ops.toModal (eq.ops.toNodal (eq.ops.laplacian eq.orography))
      = eq.ops.laplacian eq.orography)
    (tr : List (String × List M)) (htr : ∀ kv ∈ tr, kv.2.length = n)
    (hq : lookup specificHumidityKey tr = some (List.replicate n (q0 • eq.ops.oneModal)))
    (vt : Diag N → List N → Option (List N))
    (hvt : ∀ (G : N × N) (mc : List N), mc.length = n →
      vt (restDiag n G (mapTracers (fun x => x.map eq.ops.toNodal) tr)) mc = some (List.replicate n 0))
    (t : K) :
    let s : StateWithTime K M := { state := restState n (restLnp eq (Reff eq q0) T0 c) tr, simTime := t }
    ∃ e, MoistPrimitiveEquations.explicitTermsWith eq vt s = some e
      ∧ State.add e.state (MoistPrimitiveEquations.implicitTerms eq s).state = zeroTendency n tr
      ∧ e.simTime + (MoistPrimitiveEquations.implicitTerms eq s).simTime = 1 := by
  intro s
  have hlap : eq.ops.laplacian (restLnp eq (Reff eq q0) T0 c)
      = (-(eq.phys.g / (Reff eq q0 * T0))) • eq.ops.laplacian eq.orography := by
    unfold restLnp
    rw [L.laplacian.map_add, L.laplacian.map_smul, L.laplacian.map_smul, C.lap_one, smul_zero, add_zero]
  have hrt' : eq.ops.toModal (eq.ops.toNodal (eq.ops.laplacian (restLnp eq (Reff eq q0) T0 c)))
      = eq.ops.laplacian (restLnp eq (Reff eq q0) T0 c) := by
    rw [hlap, L.toNodal.map_smul, L.toModal.map_smul, hrt]
  refine ⟨_, moist_explicitTermsWith_rest eq L C n hn hb hlc T0 hT _ hrt' tr htr q0 hq vt hvt t, ?_, ?_⟩
  · simp only [MoistPrimitiveEquations.implicitTerms, PrimitiveEquationsWithTime.implicitTerms]
    rw [implicitTerms_rest eq n hb hlc T0 hT _ tr htr]
    simp only [State.add, Col.add, List.zipWith_replicate, Nat.min_self, add_zero, zipTracers_const,
      zeroTendency, L.laplacian.map_smul, hlap, L.clip.map_add, L.clip.map_smul, L.clip.map_neg, hclip,
      smul_smul]
    congr 2
    rw [← neg_smul, ← neg_smul, ← add_smul, ← add_smul]
    have hRe : Reff eq q0 ≠ 0 := left_ne_zero_of_mul hRT
    have hT0 : T0 ≠ 0 := right_ne_zero_of_mul hRT
    have : -eq.phys.g + -(q0 * T0 * (eq.phys.Rvapor - eq.phys.R) * -(eq.phys.g / (Reff eq q0 * T0)))
        + -(eq.phys.R * T0 * -(eq.phys.g / (Reff eq q0 * T0))) = 0 := by
      have e : Reff eq q0 = eq.phys.R + (eq.phys.Rvapor - eq.phys.R) * q0 := by
        unfold Reff; field_simp
      rw [e] at hRe ⊢
      have h1 : eq.phys.g / ((eq.phys.R + (eq.phys.Rvapor - eq.phys.R) * q0) * T0) * T0
          * (eq.phys.R + (eq.phys.Rvapor - eq.phys.R) * q0) = eq.phys.g := by field_simp
      linear_combination h1
    rw [this, zero_smul]
  · simp [MoistPrimitiveEquations.implicitTerms, PrimitiveEquationsWithTime.implicitTerms]

theorem lookup_length {α : Type} (name : String) (t : List (String × List α)) (n : ℕ)
    (ht : ∀ kv ∈ t, kv.2.length = n) (v : List α) (h : lookup name t = some v) : v.length = n := by
  induction t with
  | nil => simp [lookup] at h
  | cons a t ih =>
    simp only [lookup] at h
    split at h
    · cases h; exact ht a (by simp)
    · exact ih (fun kv hkv => ht kv (by simp [hkv])) h

/-- **T5.1 (`MoistPrimitiveEquations`).**  Uniform specific humidity `q₀`, any other tracers: the
 resting state with `ln p_s = −g h/(R_eff T₀) + c`, `R_eff = R(1 + (R_v/R − 1) q₀)`, is steady. -/
theorem rest_steady_moist [BEq K] (L : LinLaws eq.ops) (C : ConstLaws eq.ops)
    (n : ℕ) (hn : 0 < n) (hb : eq.vert.boundaries.length = n + 1)
    (hlc : eq.vert.logCenters.length = n) (T0 c q0 : K) (hR : eq.phys.R ≠ 0)
    (hRT : Reff eq q0 * T0 ≠ 0)
    (hT : eq.referenceTemperature = List.replicate n T0)
    (hclip : eq.ops.clip (eq.ops.laplacian eq.orography) = eq.ops.laplacian eq.orography)
    (hrt : eq.ops.toModal (eq.ops.toNodal (eq.ops.laplacian eq.orography))
      = eq.ops.laplacian eq.orography)
    (tr : List (String × List M)) (htr : ∀ kv ∈ tr, kv.2.length = n)
    (hq : lookup specificHumidityKey tr = some (List.replicate n (q0 • eq.ops.oneModal)))
    (t : K) :
    let s : StateWithTime K M := { state := restState n (restLnp eq (Reff eq q0) T0 c) tr, simTime := t }
    ∃ e, MoistPrimitiveEquations.explicitTerms eq s = some e
      ∧ State.add e.state (MoistPrimitiveEquations.implicitTerms eq s).state = zeroTendency n tr
      ∧ e.simTime + (MoistPrimitiveEquations.implicitTerms eq s).simTime = 1 :=
  rest_steady_moistWith eq L C n hn hb hlc T0 c q0 hR hRT hT hclip hrt tr htr hq
    (MoistPrimitiveEquations.virtualTemperature eq)
    (fun G mc h => virtualTemperature_rest eq n G _ mc h) t

/-- **T5.1 (`MoistPrimitiveEquationsWithCloudMoisture`).**  As the moist class; the condensate
 tracers may be arbitrary fields (the code's pressure-gradient force sees them only through `T′`,
 cf. the C04 finding on this class). -/
theorem rest_steady_cloud [BEq K] (L : LinLaws eq.ops) (C : ConstLaws eq.ops)
    (n : ℕ) (hn : 0 < n) (hb : eq.vert.boundaries.length = n + 1)
    (hlc : eq.vert.logCenters.length = n) (T0 c q0 : K) (hR : eq.phys.R ≠ 0)
    (hRT : Reff eq q0 * T0 ≠ 0)
    (hT : eq.referenceTemperature = List.replicate n T0)
    (hclip : eq.ops.clip (eq.ops.laplacian eq.orography) = eq.ops.laplacian eq.orography)
    (hrt : eq.ops.toModal (eq.ops.toNodal (eq.ops.laplacian eq.orography))
      = eq.ops.laplacian eq.orography)
    (tr : List (String × List M)) (htr : ∀ kv ∈ tr, kv.2.length = n)
    (hq : lookup specificHumidityKey tr = some (List.replicate n (q0 • eq.ops.oneModal)))
    (ql qi : List M) (hql : lookup cloudWaterKey tr = some ql) (hqi : lookup cloudIceKey tr = some qi)
    (t : K) :
    let s : StateWithTime K M := { state := restState n (restLnp eq (Reff eq q0) T0 c) tr, simTime := t }
    ∃ e, MoistPrimitiveEquationsWithCloudMoisture.explicitTerms eq s = some e
      ∧ State.add e.state (MoistPrimitiveEquationsWithCloudMoisture.implicitTerms eq s).state
          = zeroTendency n tr
      ∧ e.simTime + (MoistPrimitiveEquationsWithCloudMoisture.implicitTerms eq s).simTime = 1 :=
  rest_steady_moistWith eq L C n hn hb hlc T0 c q0 hR hRT hT hclip hrt tr htr hq
    (MoistPrimitiveEquations.virtualTemperatureWithClouds eq)
    (fun G mc h => virtualTemperatureWithClouds_rest eq n G _ (ql.map eq.ops.toNodal)
      (qi.map eq.ops.toNodal) (by rw [Balance.lookup_mapTracers, hql]; rfl) (by rw [Balance.lookup_mapTracers, hqi]; rfl)
      (by simpa using lookup_length _ tr n htr ql hql) (by simpa using lookup_length _ tr n htr qi hqi)
      mc h) t

end T51moist

/-! ## T5.2 — the column identities behind "the documented vertical finite differences" -/
section T52
variable {K M N : Type} [Field K] [AddCommGroup M] [Module K M] [CommRing N] [Algebra K N]

/-- **T5.2 (side condition).**  Admissible level sets (`boundaries[0] = 0`, `boundaries[-1] = 1`, as
 `SigmaCoordinates.__init__` enforces) have thicknesses that sum to one — the hypothesis `h1` of
 `sigma_dot_all_boundaries` (re-export of `Dino.Balance.thickness_sum_one`, so that it is audited with the
 property theorems) -/
theorem thickness_sum_one {K : Type} [Field K] (b : List K) (hb : b ≠ []) (h0 : b.head hb = 0)
    (h1 : b.getLast hb = 1) : (Sigma.thickness b).sum = 1 :=
  Dino.Balance.thickness_sum_one b hb h0 h1

/-- **T5.2 (σ̇ on all boundaries).**  For every state and every level set whose thicknesses sum to one
 (`thickness_sum_one`: boundaries from 0 to 1), the two vertical velocities of
 `compute_diagnostic_state`, placed between the two zeros that `centered_vertical_advection` assumes,
 are the continuous formula `σ̇(σ) = σ·F(1) − F(σ)`, `F(σ) = ∫₀^σ G dσ`, at **every** one of the `n + 1`
 boundaries: `G = δ + u·∇ln pₛ` for `sigma_dot_full`, `G = u·∇ln pₛ` for `sigma_dot_explicit`.  In
 particular σ̇ vanishes at `σ = 0` and at `σ = 1` (`sigmaDotAt_zero`, `sigmaDotAt_bottom`). -/
theorem sigma_dot_all_boundaries (h : HOps K M N) (v : Vert K) (s : State M) (n : ℕ) (hn : 0 < n)
    (hds : v.ds.length = n) (hz : s.vorticity.length = n) (hd : s.divergence.length = n)
    (h1 : v.ds.sum = 1) :
    let aux := computeDiagnosticState h v s
    (0 : N) :: (aux.sigmaDotFull ++ [0])
        = (List.range (n + 1)).map (sigmaDotAt v.ds (Col.add aux.divergence aux.uDotGradLogSp))
      ∧ (0 : N) :: (aux.sigmaDotExplicit ++ [0])
        = (List.range (n + 1)).map (sigmaDotAt v.ds aux.uDotGradLogSp)
      ∧ sigmaDotAt v.ds (Col.add aux.divergence aux.uDotGradLogSp) 0 = 0
      ∧ sigmaDotAt v.ds (Col.add aux.divergence aux.uDotGradLogSp) n = 0 := by
  intro aux
  have hdiv : aux.divergence.length = n := by simp [aux, computeDiagnosticState, hd]
  have hudg : aux.uDotGradLogSp.length = n := by simp [aux, computeDiagnosticState, hz, hd]
  have hadd : (Col.add aux.divergence aux.uDotGradLogSp).length = n := by simp [Col.add, hdiv, hudg]
  exact ⟨sigmaDot_padded v.ds _ n hn hds hadd h1, sigmaDot_padded v.ds _ n hn hds hudg h1,
    sigmaDotAt_zero _ _, sigmaDotAt_bottom v.ds _ n hds hadd h1⟩

variable (eq : PrimitiveEquations K M N)

/-- **T5.2 (surface pressure).**  The total tendency of `ln pₛ` — `−Σ (u·∇ln pₛ) Δσ` from
 `explicit_terms` plus `−Σ δ Δσ` from `implicit_terms` — is minus the `σ = 1` value of the very
 cumulative integral `F` that defines `sigma_dot_full`, for every state whose divergence survives the
 nodal round trip (`clip ∘ to_modal ∘ to_nodal = id` on each level). -/
theorem surface_pressure_tendency [BEq K] (L : LinLaws eq.ops) (s : State M) (n : ℕ)
    (hz : s.vorticity.length = n) (hd : s.divergence.length = n)
    (hrt : ∀ d ∈ s.divergence, eq.ops.clip (eq.ops.toModal (eq.ops.toNodal d)) = d) :
    let aux := computeDiagnosticState eq.ops eq.vert s
    (eq.explicitTerms s).logSurfacePressure + (eq.implicitTerms s).logSurfacePressure
      = eq.ops.clip (eq.ops.toModal (-((Col.cumSigmaIntegral eq.vert.ds
          (Col.add aux.divergence aux.uDotGradLogSp)).getLastD 0))) := by
  intro aux
  have hdiv : aux.divergence = s.divergence.map eq.ops.toNodal := rfl
  have hudg : aux.uDotGradLogSp.length = n := by simp [aux, computeDiagnosticState, hz, hd]
  have he : (eq.explicitTerms s).logSurfacePressure
      = eq.ops.clip (eq.ops.toModal (-(Col.sigmaIntegral eq.vert.ds aux.uDotGradLogSp))) := rfl
  have hi : (eq.implicitTerms s).logSurfacePressure = -(Col.sigmaIntegral eq.vert.ds s.divergence) := rfl
  rw [he, hi, ← sigmaIntegral_eq_last, sigmaIntegral_neg_add _ _ _ (by simp [hdiv, hd, hudg]),
    L.toModal.map_add, L.clip.map_add, add_comm]
  congr 1
  rw [hdiv, L.toModal.map_neg, L.clip.map_neg, ← map_sigmaIntegral _ L.toNodal,
    map_sigmaIntegral _ L.toNodal, map_sigmaIntegral _ L.toModal, map_sigmaIntegral _ L.clip]
  congr 2
  rw [List.map_map, List.map_map]
  symm
  calc List.map ((eq.ops.clip ∘ eq.ops.toModal) ∘ eq.ops.toNodal) s.divergence
      = List.map id s.divergence := List.map_congr_left (fun d hd' => by simpa using hrt d hd')
    _ = s.divergence := List.map_id _

end T52

/-! ## zonal flows (solid-body rotation, zonal jets): steady iff in gradient-wind balance -/
section Zonal
variable {K M N : Type} [Field K] [AddCommGroup M] [Module K M] [CommRing N] [Algebra K N]
variable (eq : PrimitiveEquations K M N)

/-- the implicit half of the divergence tendency: `−∇²(Φ′ + R T_ref ln pₛ)` of every level -/
def zonalDivImplicit (T' : List M) (lnp : M) : List M :=
  (Col.add (eq.geopotentialDiff T') (eq.referenceTemperature.map fun t => (eq.phys.R * t) • lnp)).map
    fun x => -(eq.ops.laplacian x)

/-- **Zonal flows (dry classes).**  For every non-divergent state whose wind is zonal and whose surface
 pressure, momentum flux and advective fluxes are zonal (`ZonalFlow`, `d_dlon = 0`), any level set, any
 `T_ref`, any per-level temperatures and tracers: the total tendency of vorticity, temperature, surface
 pressure and of every tracer is zero, and the divergence tendency of level `k` is
 `clip(−S(B_k)/a − ∇²(½u_k²) − g∇²h) − ∇²(Φ′_k + R T_ref,k ln pₛ)`,
 `B_k = to_modal(((ζ_k + f) u_k + R T′_k ∂_θ ln pₛ) sec²θ)` — the residual of the meridional
 (gradient-wind) balance.  Solid-body rotation `u = U cos θ` with `ln pₛ = π₀ − c sin²θ/2` is the
 special case in which the residual vanishes (analytically: `U² + 2ΩaU = c R T`; on real grids:
 `harness/props/C05.py`, probe `solid-body`). -/
theorem zonal_flow_total [BEq K] (L : LinLaws eq.ops) (n : ℕ) (hn : 0 < n)
    (hb : eq.vert.boundaries.length = n + 1) (hlc : eq.vert.logCenters.length = n)
    (hT : eq.referenceTemperature.length = n) (ζ T' : List M) (hζ : ζ.length = n) (hT' : T'.length = n)
    (lnp : M) (tr : List (String × List M)) (htr : ∀ kv ∈ tr, kv.2.length = n)
    (Z : ZonalFlow eq.ops ζ lnp)
    (hzB : ∀ b ∈ zonalB eq ζ (Col.smul eq.phys.R (T'.map eq.ops.toNodal))
      (eq.ops.toNodal (eq.ops.cosLatGrad false lnp).2), eq.ops.dDlon b = 0)
    (hzT : ZonalFlux eq ζ (T'.map eq.ops.toNodal))
    (hztr : ∀ kv ∈ tr, ZonalFlux eq ζ (kv.2.map eq.ops.toNodal)) :
    State.add (eq.explicitTerms (zonalState ζ T' lnp tr)) (eq.implicitTerms (zonalState ζ T' lnp tr)) =
      { zeroTendency n tr with
        divergence := Col.add
          (List.zipWith (zonalDivExplicit eq)
            (zonalB eq ζ (Col.smul eq.phys.R (T'.map eq.ops.toNodal))
              (eq.ops.toNodal (eq.ops.cosLatGrad false lnp).2)) (ζ.map (zonalU eq.ops)))
          (zonalDivImplicit eq T' lnp) } := by
  rw [explicitTerms_zonal eq L n hn hb hlc hT ζ T' hζ hT' lnp tr htr Z hzB hzT hztr]
  have hds : eq.vert.ds.length = n := by simp [Vert.ds, Sigma.thickness, hb]
  have hz : mapTracers Col.zerosLike tr = mapTracers (fun _ => List.replicate n (0 : M)) tr := by
    apply mapTracers_congr
    intro kv hkv
    rw [← htr kv hkv]; simp [Col.zerosLike]
  have himp : eq.implicitTerms (zonalState ζ T' lnp tr) =
      { vorticity := List.replicate n 0
        divergence := zonalDivImplicit eq T' lnp
        temperatureVariation := List.replicate n 0
        logSurfacePressure := 0
        tracers := mapTracers (fun _ => List.replicate n 0) tr } := by
    unfold PrimitiveEquations.implicitTerms zonalState zonalDivImplicit
    simp only [hζ, PrimitiveEquations.temperatureImplicit, PrimitiveEquations.temperatureImplicitWeights,
      matvec_zeros, sigmaIntegral_zeros eq.vert.ds n hds, neg_zero, zerosLike_eq, hz]
    simp [Implicit.negMat, Implicit.hMatrix, hds]
  rw [himp]
  simp only [State.add, Col.add, List.zipWith_replicate, Nat.min_self, add_zero, zipTracers_const,
    zeroTendency]

/-- **A zonal flow is steady iff its discrete divergence residual vanishes** (dry classes).  The residual is
 the model's own quantity `zonalDivExplicit + zonalDivImplicit` of `zonal_flow_total` (the discrete form of the
 meridional gradient-wind balance); that it vanishes for a given flow on a given grid is NOT proved here: for
 solid-body rotation it is computed on the toy sphere (example below) and tested on real grids (`C05.py`,
 probe `solid-body`). -/
theorem zonal_flow_steady_iff_residual_zero [BEq K] (L : LinLaws eq.ops) (n : ℕ) (hn : 0 < n)
    (hb : eq.vert.boundaries.length = n + 1) (hlc : eq.vert.logCenters.length = n)
    (hT : eq.referenceTemperature.length = n) (ζ T' : List M) (hζ : ζ.length = n) (hT' : T'.length = n)
    (lnp : M) (tr : List (String × List M)) (htr : ∀ kv ∈ tr, kv.2.length = n)
    (Z : ZonalFlow eq.ops ζ lnp)
    (hzB : ∀ b ∈ zonalB eq ζ (Col.smul eq.phys.R (T'.map eq.ops.toNodal))
      (eq.ops.toNodal (eq.ops.cosLatGrad false lnp).2), eq.ops.dDlon b = 0)
    (hzT : ZonalFlux eq ζ (T'.map eq.ops.toNodal))
    (hztr : ∀ kv ∈ tr, ZonalFlux eq ζ (kv.2.map eq.ops.toNodal)) :
    State.add (eq.explicitTerms (zonalState ζ T' lnp tr)) (eq.implicitTerms (zonalState ζ T' lnp tr))
        = zeroTendency n tr ↔
      Col.add
        (List.zipWith (zonalDivExplicit eq)
          (zonalB eq ζ (Col.smul eq.phys.R (T'.map eq.ops.toNodal))
            (eq.ops.toNodal (eq.ops.cosLatGrad false lnp).2)) (ζ.map (zonalU eq.ops)))
        (zonalDivImplicit eq T' lnp) = List.replicate n 0 := by
  rw [zonal_flow_total eq L n hn hb hlc hT ζ T' hζ hT' lnp tr htr Z hzB hzT hztr]
  constructor
  · intro h
    exact congrArg State.divergence h
  · intro h
    rw [h]
    rfl

/-- the "if" direction of `zonal_flow_steady_iff_residual_zero`: **a zonal flow whose discrete divergence
 residual vanishes is steady** (dry classes).  The hypothesis `hbal` IS the vanishing of the model's divergence
 tendency (`zonalDivExplicit + zonalDivImplicit = 0`), not an analytic gradient-wind relation: the theorem adds
 to `zonal_flow_total` only that every OTHER component of the tendency is zero. -/
theorem zonal_flow_steady [BEq K] (L : LinLaws eq.ops) (n : ℕ) (hn : 0 < n)
    (hb : eq.vert.boundaries.length = n + 1) (hlc : eq.vert.logCenters.length = n)
    (hT : eq.referenceTemperature.length = n) (ζ T' : List M) (hζ : ζ.length = n) (hT' : T'.length = n)
    (lnp : M) (tr : List (String × List M)) (htr : ∀ kv ∈ tr, kv.2.length = n)
    (Z : ZonalFlow eq.ops ζ lnp)
    (hzB : ∀ b ∈ zonalB eq ζ (Col.smul eq.phys.R (T'.map eq.ops.toNodal))
      (eq.ops.toNodal (eq.ops.cosLatGrad false lnp).2), eq.ops.dDlon b = 0)
    (hzT : ZonalFlux eq ζ (T'.map eq.ops.toNodal))
    (hztr : ∀ kv ∈ tr, ZonalFlux eq ζ (kv.2.map eq.ops.toNodal))
    (hbal : Col.add
        (List.zipWith (zonalDivExplicit eq)
          (zonalB eq ζ (Col.smul eq.phys.R (T'.map eq.ops.toNodal))
            (eq.ops.toNodal (eq.ops.cosLatGrad false lnp).2)) (ζ.map (zonalU eq.ops)))
        (zonalDivImplicit eq T' lnp) = List.replicate n 0) :
    State.add (eq.explicitTerms (zonalState ζ T' lnp tr)) (eq.implicitTerms (zonalState ζ T' lnp tr))
      = zeroTendency n tr := by
  rw [zonal_flow_total eq L n hn hb hlc hT ζ T' hζ hT' lnp tr htr Z hzB hzT hztr, hbal]
  rfl

end Zonal

/-! ### non-vacuity: a two-mode (constant + `sin θ`), two-node toy grid over `ℚ` -/
section example51

/-- modes `(a₀, a₁) ↦ a₀ + a₁ μ`, nodes `μ = ∓1/2`; `∇² = diag(0, −2)`; exact round trip -/
def toyOps : HOps ℚ (ℚ × ℚ) (ℚ × ℚ) :=
  { toNodal := fun a => (a.1 - a.2 / 2, a.1 + a.2 / 2)
    toModal := fun x => ((x.1 + x.2) / 2, x.2 - x.1)
    dDlon := fun _ => 0
    cosLatDDlat := fun a => (0, 3 / 4 * a.2)
    secLatDDlatCos2 := fun a => (a.2, -2 * a.1)
    laplacian := fun a => (0, -2 * a.2)
    inverseLaplacian := fun a => (0, -a.2 / 2)
    clip := fun a => a
    lproj := fun l a => if l = 0 then (a.1, 0) else if l = 1 then (0, a.2) else 0
    nL := 2
    lapEig := fun l => if l = 1 then -2 else 0
    cosLat := (1, 1), sec2Lat := (1, 1), sinLat := (-1 / 2, 1 / 2)
    oneModal := (1, 0)
    radius := 1 }

def toyEq : PrimitiveEquations ℚ (ℚ × ℚ) (ℚ × ℚ) :=
  { ops := toyOps
    vert := { boundaries := [0, 1 / 3, 1], logCenters := [-2, -1 / 3] }
    phys := { angularVelocity := 1 / 2, g := 10, R := 287 / 100, Rvapor := 461 / 100, CpVapor := 18,
              kappa := 2 / 7 }
    referenceTemperature := [250, 250]
    orography := (3 / 10, 3 / 2) }

theorem toyLin : LinLaws toyOps where
  toNodal := ⟨fun x y => by ext <;> simp [toyOps] <;> ring, fun c x => by ext <;> simp [toyOps] <;> ring⟩
  toModal := ⟨fun x y => by ext <;> simp [toyOps] <;> ring, fun c x => by ext <;> simp [toyOps] <;> ring⟩
  dDlon := ⟨fun x y => by simp [toyOps], fun c x => by simp [toyOps]⟩
  cosLatDDlat := ⟨fun x y => by ext <;> simp [toyOps] <;> ring, fun c x => by ext <;> simp [toyOps] <;> ring⟩
  secLatDDlatCos2 := ⟨fun x y => by ext <;> simp [toyOps] <;> ring, fun c x => by ext <;> simp [toyOps] <;> ring⟩
  laplacian := ⟨fun x y => by ext <;> simp [toyOps] <;> ring, fun c x => by ext <;> simp [toyOps] <;> ring⟩
  inverseLaplacian := ⟨fun x y => by ext <;> simp [toyOps] <;> ring, fun c x => by ext <;> simp [toyOps] <;> ring⟩
  clip := ⟨fun x y => by simp [toyOps], fun c x => by simp [toyOps]⟩

theorem toyConst : ConstLaws toyOps where
  lap_one := by simp [toyOps]
  dDlon_one := by simp [toyOps]
  cosLatDDlat_one := by simp [toyOps]
  toNodal_one := by ext <;> simp [toyOps]
  toModal_one := by ext <;> simp [toyOps]

/-- the orography of the example has a non-zero Laplacian, so the balance is not trivial -/
example : toyEq.ops.laplacian toyEq.orography ≠ 0 := by simp [toyEq, toyOps]

/-- T5.1 (dry) applies: uneven two-layer column, `T₀ = 250`, `c = 7`, one passive tracer -/
example :
    let s := restState 2 (restLnp toyEq toyEq.phys.R 250 7) [("tracer", [(1, 2), (3, 4)])]
    State.add (toyEq.explicitTerms s) (toyEq.implicitTerms s)
      = zeroTendency 2 [("tracer", [(1, 2), (3, 4)])] := by
  have hb : toyEq.vert.boundaries.length = 2 + 1 := rfl
  have hlc : toyEq.vert.logCenters.length = 2 := rfl
  have hT : toyEq.referenceTemperature = List.replicate 2 250 := rfl
  have hclip : toyEq.ops.clip (toyEq.ops.laplacian toyEq.orography)
      = toyEq.ops.laplacian toyEq.orography := rfl
  have hl1 : toyEq.ops.laplacian toyEq.ops.oneModal = 0 := by simp [toyEq, toyOps]
  have hRT : toyEq.phys.R * 250 ≠ 0 := by norm_num [toyEq]
  exact rest_steady_dry toyEq toyLin hl1 2 (by decide) hb hlc 250 7 hRT hT hclip
    [("tracer", [(1, 2), (3, 4)])] (by simp)


/-- T5.1 (moist and cloud classes) applies: `q₀ = 1/100`, arbitrary condensate fields -/
example :
    let tr : List (String × List (ℚ × ℚ)) :=
      [(specificHumidityKey, List.replicate 2 ((1 / 100 : ℚ) • toyEq.ops.oneModal)),
       (cloudWaterKey, [(1, 2), (3, 4)]), (cloudIceKey, [(0, 1), (5, 0)])]
    let s : StateWithTime ℚ (ℚ × ℚ) :=
      { state := restState 2 (restLnp toyEq (Reff toyEq (1 / 100)) 250 7) tr, simTime := 3 }
    ∃ e, MoistPrimitiveEquationsWithCloudMoisture.explicitTerms toyEq s = some e
      ∧ State.add e.state (MoistPrimitiveEquationsWithCloudMoisture.implicitTerms toyEq s).state
          = zeroTendency 2 tr
      ∧ e.simTime + (MoistPrimitiveEquationsWithCloudMoisture.implicitTerms toyEq s).simTime = 1 := by
  have hb : toyEq.vert.boundaries.length = 2 + 1 := rfl
  have hlc : toyEq.vert.logCenters.length = 2 := rfl
  have hT : toyEq.referenceTemperature = List.replicate 2 250 := rfl
  have hclip : toyEq.ops.clip (toyEq.ops.laplacian toyEq.orography)
      = toyEq.ops.laplacian toyEq.orography := rfl
  have hrt : toyEq.ops.toModal (toyEq.ops.toNodal (toyEq.ops.laplacian toyEq.orography))
      = toyEq.ops.laplacian toyEq.orography := by ext <;> simp [toyEq, toyOps] <;> ring
  have hR : toyEq.phys.R ≠ 0 := by norm_num [toyEq]
  have hRT : Reff toyEq (1 / 100) * 250 ≠ 0 := by norm_num [Reff, toyEq]
  exact rest_steady_cloud toyEq toyLin toyConst 2 (by decide) hb hlc 250 7 (1 / 100) hR hRT hT hclip hrt
    _ (by simp) rfl [(1, 2), (3, 4)] [(0, 1), (5, 0)] rfl rfl 3

/-- a moving state on the toy grid: two uneven layers, non-zero divergence and pressure gradient -/
def toyState : State (ℚ × ℚ) :=
  { vorticity := [(0, 1), (0, 2)], divergence := [(0, 3), (0, -1)]
    temperatureVariation := [(1, 0), (2, 1)], logSurfacePressure := (1 / 2, 1 / 3) }

theorem toy_ds_sum : toyEq.vert.ds.sum = 1 :=
  thickness_sum_one toyEq.vert.boundaries (by simp [toyEq]) rfl (by simp [toyEq])

/-- T5.2 (σ̇) applies to the moving state, and its interior vertical velocity is not zero -/
example :
    let aux := computeDiagnosticState toyEq.ops toyEq.vert toyState
    (0 : ℚ × ℚ) :: (aux.sigmaDotFull ++ [0])
        = (List.range (2 + 1)).map (sigmaDotAt toyEq.vert.ds (Col.add aux.divergence aux.uDotGradLogSp))
      ∧ aux.sigmaDotFull ≠ [0] := by
  refine ⟨(sigma_dot_all_boundaries toyEq.ops toyEq.vert toyState 2 (by decide) rfl rfl rfl toy_ds_sum).1, ?_⟩
  decide +kernel

/-- T5.2 (surface pressure) applies to the moving state (exact round trip on the toy grid), and the
 tendency is not zero -/
example :
    let aux := computeDiagnosticState toyEq.ops toyEq.vert toyState
    (toyEq.explicitTerms toyState).logSurfacePressure + (toyEq.implicitTerms toyState).logSurfacePressure
        = toyEq.ops.clip (toyEq.ops.toModal (-((Col.cumSigmaIntegral toyEq.vert.ds
            (Col.add aux.divergence aux.uDotGradLogSp)).getLastD 0)))
      ∧ (toyEq.implicitTerms toyState).logSurfacePressure ≠ 0 := by
  refine ⟨surface_pressure_tendency toyEq toyLin toyState 2 rfl rfl ?_, ?_⟩
  · intro d _
    ext <;> simp [toyEq, toyOps] <;> ring
  · decide +kernel

end example51

end PrimitiveEquationsPart

/-! ## T5.3 — shallow water: the factories' states -/
section ShallowWaterPart
open Dino.DynamicsSW
open Dino.Dynamics hiding State

section T53
variable {K M N : Type} [Field K] [AddCommGroup M] [Module K M] [CommRing N] [Algebra K N] [Div N]
variable [LT K] [DecidableLT K]
variable (eq : ShallowWaterEquations K M N) (zeroMean : M → M)

/-- **T5.3 (one layer, radius and Ω symbolic).**  The total tendency of the state that `one_layer`
 builds from a zonal band-limited wind `u` is zero in vorticity and potential, and in divergence it is
 `(1 − r²)·∇²(u²/2) + (1 − 2Ω)·S(u tanθ)` (`S = secθ ∂_θ cos²θ`, `r = grid.radius`): the factory's
 state is balanced exactly when it is used in its own units. -/
theorem one_layer_total (F : FactoryLaws eq.ops zeroMean) (u : N) (J : ZonalJet eq.ops zeroMean u)
    (hr : eq.ops.radius ≠ 0) (ρ φ : K) (hd : eq.specs.densities = [ρ]) (ho : eq.orography = none)
    (hp : eq.referencePotential = [φ]) :
    let s := State.ofLayers [oneLayer eq.ops zeroMean u]
    State.add (eq.explicitTerms s) (eq.implicitTerms s) =
      { vorticity := [0]
        divergence := [(1 - eq.ops.radius * eq.ops.radius) • jetX3 eq.ops u
          + (1 - (1 + 1) * eq.specs.angularVelocity) • jetX2 eq.ops u]
        potential := [0] } := by
  intro s
  have L := F.lin
  have hpress : ∀ P : M, eq.layeredPressure [P] = [(0 : K) • P + 0] := by
    intro P
    unfold ShallowWaterEquations.layeredPressure ShallowWaterEquations.densityRatios
    rw [hd, ho]
    simp [getDensityRatios, Col.matvec, Col.wmul]
  have hs : s = { vorticity := [jetVorticity eq.ops u], divergence := [0],
                  potential := [(oneLayer eq.ops zeroMean u).potential] } := rfl
  rw [hs]
  unfold ShallowWaterEquations.explicitTerms ShallowWaterEquations.implicitTerms DynamicsSW.State.add
  simp only [hpress, hp, List.zip_cons_cons, List.zip_nil_right, List.zipWith_cons_cons,
    List.zipWith_nil_right, List.map_cons, List.map_nil, Col.add, Col.zerosLike,
    explicitLayer_jet eq zeroMean F u J hr _ _ J.zonal_g, oneLayer_potential eq.ops zeroMean F]
  simp only [zero_smul, add_zero, L.laplacian.map_zero, neg_zero, L.clip.map_zero, smul_zero]
  congr 2
  module

/-- **T5.3 (one layer).**  In the factory's units (`grid.radius = 1`, `2Ω = 1`) the state built by
 `one_layer` is exactly steady. -/
theorem one_layer_steady (F : FactoryLaws eq.ops zeroMean) (u : N) (J : ZonalJet eq.ops zeroMean u)
    (hr : eq.ops.radius = 1) (hΩ : (1 + 1) * eq.specs.angularVelocity = 1)
    (ρ φ : K) (hd : eq.specs.densities = [ρ]) (ho : eq.orography = none)
    (hp : eq.referencePotential = [φ]) :
    let s := State.ofLayers [oneLayer eq.ops zeroMean u]
    State.add (eq.explicitTerms s) (eq.implicitTerms s) = State.zero 1 := by
  intro s
  have h := one_layer_total eq zeroMean F u J (by rw [hr]; exact one_ne_zero) ρ φ hd ho hp
  simp only [hr, hΩ, mul_one, sub_self, zero_smul, add_zero] at h
  exact h

/-- **T5.3 (`multi_layer`, any number of layers, radius and Ω symbolic).**  `multi_layer` solves
 `(D + I)·Φ = Ψ` (`D = get_density_ratios(density)`, `Ψ` the one-layer potentials of the layers'
 winds), so the layered pressure `D·Φ` that `explicit_terms` adds to layer `k` plus its own potential
 `Φ_k` (the implicit half) is `Ψ_k`: every layer of the layered system has the tendency of a one-layer
 system.  Hypotheses: the contract of `jnp.linalg.solve` (used only for ≥ 2 layers, as in the code),
 each layer's wind is a resolved zonal jet, the solved potentials are zonal and the layered pressure
 is resolved (`clip ∇² = ∇²`). -/
theorem multi_layer_total (F : FactoryLaws eq.ops zeroMean) (us : List N)
    (hJ : ∀ u ∈ us, ZonalJet eq.ops zeroMean u) (hr : eq.ops.radius ≠ 0)
    (solve : List (List K) → List M → List M)
    (hd : eq.specs.densities.length = us.length) (ho : eq.orography = none)
    (hp : eq.referencePotential.length = us.length)
    (hsolve : 1 < us.length →
      (solve (addEye (getDensityRatios eq.specs.densities)) (onePotentials zeroMean eq.ops us)).length
          = us.length ∧
        Col.matvec (addEye (getDensityRatios eq.specs.densities))
            (solve (addEye (getDensityRatios eq.specs.densities)) (onePotentials zeroMean eq.ops us))
          = onePotentials zeroMean eq.ops us)
    (hzonal : ∀ (i : ℕ) (hi : i < us.length),
      eq.ops.dDlon (eq.ops.toModal (us[i] * (1 / eq.ops.cosLat) * eq.ops.toNodal (eq.ops.clip
        (lv (multiLayer eq.ops zeroMean solve us eq.specs.densities).potential i)))) = 0)
    (hclip : ∀ p ∈ eq.layeredPressure (multiLayer eq.ops zeroMean solve us eq.specs.densities).potential,
      eq.ops.clip (eq.ops.laplacian p) = eq.ops.laplacian p) :
    State.add (eq.explicitTerms (multiLayer eq.ops zeroMean solve us eq.specs.densities))
        (eq.implicitTerms (multiLayer eq.ops zeroMean solve us eq.specs.densities)) =
      { vorticity := List.replicate us.length 0
        divergence := us.map fun u => (1 - eq.ops.radius * eq.ops.radius) • jetX3 eq.ops u
          + (1 - (1 + 1) * eq.specs.angularVelocity) • jetX2 eq.ops u
        potential := List.replicate us.length 0 } := by
  have L := F.lin
  obtain ⟨hΦlen, hK⟩ := multiLayer_pressure eq zeroMean us solve hd ho hsolve
  have hv : (multiLayer eq.ops zeroMean solve us eq.specs.densities).vorticity
      = us.map (jetVorticity eq.ops) := by
    simp [multiLayer, State.ofLayers, oneLayer_vorticity]
  have hdv : (multiLayer eq.ops zeroMean solve us eq.specs.densities).divergence
      = List.replicate us.length (0 : M) := by
    rw [List.eq_replicate_iff]
    refine ⟨by simp [multiLayer, State.ofLayers], ?_⟩
    intro b hb
    simp only [multiLayer, State.ofLayers, List.map_map, List.mem_map] at hb
    obtain ⟨u, -, rfl⟩ := hb
    rfl
  set s := multiLayer eq.ops zeroMean solve us eq.specs.densities with hs
  have hPlen : (eq.layeredPressure s.potential).length = us.length := by
    unfold ShallowWaterEquations.layeredPressure ShallowWaterEquations.densityRatios
    rw [ho]
    simp [Col.matvec, getDensityRatios_length, hd]
  -- every row of `explicit_terms`
  have hrow : ∀ (i : ℕ) (hi : i < us.length),
      eq.explicitLayer (jetVorticity eq.ops us[i]) 0 (s.potential[i]'(by rw [hΦlen]; exact hi))
          ((eq.layeredPressure s.potential)[i]'(by rw [hPlen]; exact hi))
        = (0, -(eq.ops.laplacian ((eq.layeredPressure s.potential)[i]'(by rw [hPlen]; exact hi)))
             - (eq.ops.radius * eq.ops.radius) • jetX3 eq.ops us[i] - jetX1 eq.ops us[i]
             - ((1 + 1) * eq.specs.angularVelocity) • jetX2 eq.ops us[i], 0) := by
    intro i hi
    have hz := hzonal i hi
    have hlv : lv s.potential i = s.potential[i]'(by rw [hΦlen]; exact hi) := by
      simp [lv_def, List.getElem?_eq_getElem (show i < s.potential.length by rw [hΦlen]; exact hi)]
    rw [hlv] at hz
    rw [explicitLayer_jet eq zeroMean F us[i] (hJ _ (List.getElem_mem hi)) hr _ _ hz,
      L.clip.map_neg, hclip _ (List.getElem_mem _)]
  -- the balance of layer `i`
  have hbal : ∀ (i : ℕ) (hi : i < us.length),
      eq.ops.laplacian ((eq.layeredPressure s.potential)[i]'(by rw [hPlen]; exact hi))
        + eq.ops.laplacian (s.potential[i]'(by rw [hΦlen]; exact hi))
        = -(jetX1 eq.ops us[i] + jetX2 eq.ops us[i] + jetX3 eq.ops us[i]) := by
    intro i hi
    have h1 : (Col.add (eq.layeredPressure s.potential) s.potential)[i]'(by
        simp only [Col.add, List.length_zipWith, hPlen, hΦlen, Nat.min_self]; exact hi)
        = (onePotentials zeroMean eq.ops us)[i]'(by simp [onePotentials_eq]; exact hi) := by
      simp only [hK]
    simp only [Col.add, List.getElem_zipWith, onePotentials_eq, List.getElem_map] at h1
    rw [← L.laplacian.map_add, h1, oneLayer_potential eq.ops zeroMean F]
  unfold ShallowWaterEquations.explicitTerms ShallowWaterEquations.implicitTerms DynamicsSW.State.add
  simp only [hv, hdv]
  congr 1
  · apply List.ext_getElem
    · simp [Col.add, Col.zerosLike, hΦlen, hPlen]
    · intro i h1 h2
      have hi : i < us.length := by simpa using h2
      simp only [Col.add, Col.zerosLike, List.getElem_zipWith, List.getElem_map, List.getElem_zip,
        List.getElem_replicate]
      rw [hrow i hi, add_zero]
  · apply List.ext_getElem
    · simp [Col.add, hΦlen, hPlen]
    · intro i h1 h2
      have hi : i < us.length := by simpa using h2
      simp only [Col.add, List.getElem_zipWith, List.getElem_map, List.getElem_zip,
        List.getElem_replicate]
      rw [hrow i hi]
      have hb := hbal i hi
      simp only []
      have e : -(eq.ops.laplacian ((eq.layeredPressure s.potential)[i]'(by rw [hPlen]; exact hi)))
          = eq.ops.laplacian (s.potential[i]'(by rw [hΦlen]; exact hi))
            + (jetX1 eq.ops us[i] + jetX2 eq.ops us[i] + jetX3 eq.ops us[i]) := by
        rw [eq_comm, ← sub_eq_zero]
        have := hb
        rw [← sub_eq_zero] at this
        rw [← this]; abel
      rw [e]
      module
  · apply List.ext_getElem
    · simp [Col.add, hΦlen, hPlen, hp]
    · intro i h1 h2
      have hi : i < us.length := by simpa using h2
      simp only [Col.add, List.getElem_zipWith, List.getElem_map, List.getElem_zip,
        List.getElem_replicate]
      rw [hrow i hi, smul_zero, add_zero]

/-- **T5.3 (`multi_layer`).**  In the factory's units (`grid.radius = 1`, `2Ω = 1`) the state built by
 `multi_layer` is exactly steady, for every number of layers and every density profile for which the
 solve succeeds. -/
theorem multi_layer_steady (F : FactoryLaws eq.ops zeroMean) (us : List N)
    (hJ : ∀ u ∈ us, ZonalJet eq.ops zeroMean u)
    (hr : eq.ops.radius = 1) (hΩ : (1 + 1) * eq.specs.angularVelocity = 1)
    (solve : List (List K) → List M → List M)
    (hd : eq.specs.densities.length = us.length) (ho : eq.orography = none)
    (hp : eq.referencePotential.length = us.length)
    (hsolve : 1 < us.length →
      (solve (addEye (getDensityRatios eq.specs.densities)) (onePotentials zeroMean eq.ops us)).length
          = us.length ∧
        Col.matvec (addEye (getDensityRatios eq.specs.densities))
            (solve (addEye (getDensityRatios eq.specs.densities)) (onePotentials zeroMean eq.ops us))
          = onePotentials zeroMean eq.ops us)
    (hzonal : ∀ (i : ℕ) (hi : i < us.length),
      eq.ops.dDlon (eq.ops.toModal (us[i] * (1 / eq.ops.cosLat) * eq.ops.toNodal (eq.ops.clip
        (lv (multiLayer eq.ops zeroMean solve us eq.specs.densities).potential i)))) = 0)
    (hclip : ∀ p ∈ eq.layeredPressure (multiLayer eq.ops zeroMean solve us eq.specs.densities).potential,
      eq.ops.clip (eq.ops.laplacian p) = eq.ops.laplacian p) :
    State.add (eq.explicitTerms (multiLayer eq.ops zeroMean solve us eq.specs.densities))
        (eq.implicitTerms (multiLayer eq.ops zeroMean solve us eq.specs.densities))
      = State.zero us.length := by
  have h := multi_layer_total eq zeroMean F us hJ (by rw [hr]; exact one_ne_zero) solve hd ho hp hsolve
    hzonal hclip
  simp only [hr, hΩ, mul_one, sub_self, zero_smul, add_zero] at h
  rw [h]
  simp [State.zero, Col.zeros]

end T53
/-! ### a zonal three-mode toy sphere over `ℚ`: modes `a₀ + a₁ μ + a₂ μ²` (`μ = sin θ`), nodes
 `μ = −3/5, 0, 3/5` (`cos θ = 4/5, 1, 4/5`), radius `r`; every operator is the exact one truncated
 at `μ²` -/
abbrev Q3 := ℚ × ℚ × ℚ

def toySWOps (r : ℚ) : HOps ℚ Q3 Q3 :=
  { toNodal := fun a => (a.1 - 3 / 5 * a.2.1 + 9 / 25 * a.2.2, a.1, a.1 + 3 / 5 * a.2.1 + 9 / 25 * a.2.2)
    toModal := fun x => (x.2.1, 5 / 6 * (x.2.2 - x.1), 25 / 9 * ((x.1 + x.2.2) / 2 - x.2.1))
    dDlon := fun _ => 0
    cosLatDDlat := fun a => (a.2.1, 2 * a.2.2, -a.2.1)
    secLatDDlatCos2 := fun a => (a.2.1, 2 * a.2.2 - 2 * a.1, -3 * a.2.1)
    laplacian := fun a => (1 / (r * r)) • ((2 * a.2.2, -2 * a.2.1, -6 * a.2.2) : Q3)
    inverseLaplacian := fun a => (r * r) • ((a.2.2 / 18, -a.2.1 / 2, -a.2.2 / 6) : Q3)
    clip := fun a => a
    lproj := fun _ a => a
    nL := 3
    lapEig := fun l => -(l * (l + 1) : ℚ) / (r * r)
    cosLat := (4 / 5, 1, 4 / 5), sec2Lat := (25 / 16, 1, 25 / 16), sinLat := (-3 / 5, 0, 3 / 5)
    oneModal := (1, 0, 0)
    radius := r }

/-- `x.at[0, 0].set(0)` in the Legendre basis = remove the mean `a₀ + a₂/3` -/
def toyZeroMean (a : Q3) : Q3 := (-a.2.2 / 3, a.2.1, a.2.2)

def toySW (r Ω : ℚ) : ShallowWaterEquations ℚ Q3 Q3 :=
  { ops := toySWOps r
    specs := { densities := [1], radius := r, angularVelocity := Ω, gravityAcceleration := 1 }
    orography := none
    referencePotential := [1 / 10] }

/-- solid-body rotation `u = cos θ` -/
def toyU : Q3 := (4 / 5, 1, 4 / 5)

theorem toySW_lin (r : ℚ) : LinLaws (toySWOps r) where
  toNodal := ⟨fun x y => by ext <;> simp [toySWOps] <;> ring, fun c x => by ext <;> simp [toySWOps] <;> ring⟩
  toModal := ⟨fun x y => by ext <;> simp [toySWOps] <;> ring, fun c x => by ext <;> simp [toySWOps] <;> ring⟩
  dDlon := ⟨fun x y => by simp [toySWOps], fun c x => by simp [toySWOps]⟩
  cosLatDDlat := ⟨fun x y => by ext <;> simp [toySWOps] <;> ring, fun c x => by ext <;> simp [toySWOps] <;> ring⟩
  secLatDDlatCos2 := ⟨fun x y => by ext <;> simp [toySWOps] <;> ring, fun c x => by ext <;> simp [toySWOps] <;> ring⟩
  laplacian := ⟨fun x y => by ext <;> simp [toySWOps] <;> ring, fun c x => by ext <;> simp [toySWOps] <;> ring⟩
  inverseLaplacian := ⟨fun x y => by ext <;> simp [toySWOps] <;> ring, fun c x => by ext <;> simp [toySWOps] <;> ring⟩
  clip := ⟨fun x y => by simp [toySWOps], fun c x => by simp [toySWOps]⟩

theorem toySW_factory (r : ℚ) (hr : r ≠ 0) : FactoryLaws (toySWOps r) toyZeroMean where
  lin := toySW_lin r
  lap_zeroMean := fun x => by ext <;> simp [toySWOps, toyZeroMean]
  lap_invlap := fun y hy => by
    have h1 : y.1 = -y.2.2 / 3 := by
      have := congrArg Prod.fst hy; simp [toyZeroMean] at this; linarith
    ext <;> simp [toySWOps] <;> field_simp <;> linarith
  S_zeroMean := fun x => by ext <;> simp [toySWOps, toyZeroMean]
  cos_sec := by ext <;> simp [toySWOps] <;> norm_num
  sec2 := by ext <;> simp [toySWOps] <;> norm_num

theorem toySW_jet (r : ℚ) (hr : r ≠ 0) : ZonalJet (toySWOps r) toyZeroMean toyU where
  helmholtz := by
    ext <;> simp [toySWOps, toyU, jetU, HOps.cosLatVector, HOps.cosLatGrad, HOps.kCross, HOps.curlCosLat]
      <;> field_simp <;> norm_num
  zonal_psi := rfl
  zonal_b1 := rfl
  zonal_b2 := rfl
  zonal_g := rfl
  clip_vorticity := rfl
  clip_X1 := rfl
  clip_X2 := rfl
  clip_X3 := rfl


/-- non-vacuity of T5.3: solid-body rotation on the toy sphere in the factory's units is steady -/
example :
    let s := State.ofLayers [oneLayer (toySW 1 (1 / 2)).ops toyZeroMean toyU]
    DynamicsSW.State.add ((toySW 1 (1 / 2)).explicitTerms s) ((toySW 1 (1 / 2)).implicitTerms s)
      = State.zero 1 := by
  have hr : (toySW 1 (1 / 2)).ops.radius = 1 := rfl
  have hΩ : (1 + 1) * (toySW 1 (1 / 2)).specs.angularVelocity = 1 := by norm_num [toySW]
  exact one_layer_steady (toySW 1 (1 / 2)) toyZeroMean (toySW_factory 1 one_ne_zero) toyU
    (toySW_jet 1 one_ne_zero) hr hΩ 1 (1 / 10) rfl rfl rfl

/-! ### non-vacuity of the `multi_layer` theorems: two layers of densities `1, 2` rotating at different
 rates on the toy sphere; `jnp.linalg.solve` is Cramer's rule for the `2 × 2` system -/
def toySW2 (r Ω : ℚ) : ShallowWaterEquations ℚ Q3 Q3 :=
  { ops := toySWOps r
    specs := { densities := [1, 2], radius := r, angularVelocity := Ω, gravityAcceleration := 1 }
    orography := none
    referencePotential := [1 / 10, 1 / 5] }

/-- solid-body rotation at twice the rate, `u = 2 cos θ` -/
def toyU2 : Q3 := (8 / 5, 2, 8 / 5)

def solve2 : List (List ℚ) → List Q3 → List Q3
  | [[a, b], [c, d]], [x, y] =>
    [(d / (a * d - b * c)) • x - (b / (a * d - b * c)) • y,
     (a / (a * d - b * c)) • y - (c / (a * d - b * c)) • x]
  | _, _ => []

theorem toySW_jet2 (r : ℚ) (hr : r ≠ 0) : ZonalJet (toySWOps r) toyZeroMean toyU2 where
  helmholtz := by
    ext <;> simp [toySWOps, toyU2, jetU, HOps.cosLatVector, HOps.cosLatGrad, HOps.kCross, HOps.curlCosLat]
      <;> field_simp <;> norm_num
  zonal_psi := rfl
  zonal_b1 := rfl
  zonal_b2 := rfl
  zonal_g := rfl
  clip_vorticity := rfl
  clip_X1 := rfl
  clip_X2 := rfl
  clip_X3 := rfl

/-- the density ratios of the example are not trivial: the lower layer feels half of the upper one -/
example : getDensityRatios (toySW2 1 (1 / 2)).specs.densities = [[0, 1], [1 / 2, 0]] := by
  decide +kernel

example :
    State.add ((toySW2 1 (1 / 2)).explicitTerms (multiLayer (toySW2 1 (1 / 2)).ops toyZeroMean solve2
        [toyU, toyU2] (toySW2 1 (1 / 2)).specs.densities))
      ((toySW2 1 (1 / 2)).implicitTerms (multiLayer (toySW2 1 (1 / 2)).ops toyZeroMean solve2
        [toyU, toyU2] (toySW2 1 (1 / 2)).specs.densities)) = State.zero 2 := by
  have hr : (toySW2 1 (1 / 2)).ops.radius = 1 := rfl
  have hΩ : (1 + 1) * (toySW2 1 (1 / 2)).specs.angularVelocity = 1 := by norm_num [toySW2]
  refine multi_layer_steady (toySW2 1 (1 / 2)) toyZeroMean (toySW_factory 1 one_ne_zero) [toyU, toyU2]
    ?_ hr hΩ solve2 rfl rfl rfl ?_ (fun i hi => rfl) (fun p hp => rfl)
  · intro u hu
    simp only [List.mem_cons, List.not_mem_nil, or_false] at hu
    rcases hu with rfl | rfl
    · exact toySW_jet 1 one_ne_zero
    · exact toySW_jet2 1 one_ne_zero
  · intro _
    have hA : addEye (getDensityRatios (toySW2 1 (1 / 2)).specs.densities) = [[1, 1], [1 / 2, 1]] := by
      decide +kernel
    rw [hA, onePotentials_eq]
    simp only [List.map_cons, List.map_nil]
    generalize (oneLayer (toySW2 1 (1 / 2)).ops toyZeroMean toyU).potential = x
    generalize (oneLayer (toySW2 1 (1 / 2)).ops toyZeroMean toyU2).potential = y
    refine ⟨rfl, ?_⟩
    simp only [solve2, Col.matvec, Col.wmul, List.map_cons, List.map_nil, List.zipWith_cons_cons,
      List.zipWith_nil_right, List.sum_cons, List.sum_nil]
    have e1 : (1 : ℚ) • ((1 / (1 * 1 - 1 * (1 / 2)) : ℚ) • x - (1 / (1 * 1 - 1 * (1 / 2)) : ℚ) • y)
        + ((1 : ℚ) • ((1 / (1 * 1 - 1 * (1 / 2)) : ℚ) • y - ((1 / 2) / (1 * 1 - 1 * (1 / 2)) : ℚ) • x) + 0) = x := by
      norm_num
      module
    have e2 : (1 / 2 : ℚ) • ((1 / (1 * 1 - 1 * (1 / 2)) : ℚ) • x - (1 / (1 * 1 - 1 * (1 / 2)) : ℚ) • y)
        + ((1 : ℚ) • ((1 / (1 * 1 - 1 * (1 / 2)) : ℚ) • y - ((1 / 2) / (1 * 1 - 1 * (1 / 2)) : ℚ) • x) + 0) = y := by
      norm_num
      module
    rw [e1, e2]

/-- **negative witness (radius).**  The same wind on a sphere of radius 2 (with `2Ω = 1`): the state
 built by `one_layer` has the non-zero divergence tendency `(3/4)(1 − 3μ²)`. -/
theorem one_layer_not_steady_radius :
    let s := State.ofLayers [oneLayer (toySW 2 (1 / 2)).ops toyZeroMean toyU]
    (DynamicsSW.State.add ((toySW 2 (1 / 2)).explicitTerms s) ((toySW 2 (1 / 2)).implicitTerms s)).divergence
      = [((3 / 4, 0, -9 / 4) : Q3)] := by
  have hr : (toySW 2 (1 / 2)).ops.radius ≠ 0 := by norm_num [toySW, toySWOps]
  have h := one_layer_total (toySW 2 (1 / 2)) toyZeroMean (toySW_factory 2 (by norm_num)) toyU
    (toySW_jet 2 (by norm_num)) hr 1 (1 / 10) rfl rfl rfl
  intro s
  rw [h]
  simp only [List.cons.injEq, and_true]
  ext <;> simp [jetX2, jetX3, toySW, toySWOps, toyU] <;> norm_num

/-- **negative witness (rotation rate).**  Unit radius but `Ω = 1` (`2Ω = 2`, what the docstring of
 `ShallowWaterSpecs` calls the default): divergence tendency `−(1 − 3μ²)`. -/
theorem one_layer_not_steady_omega :
    let s := State.ofLayers [oneLayer (toySW 1 1).ops toyZeroMean toyU]
    (DynamicsSW.State.add ((toySW 1 1).explicitTerms s) ((toySW 1 1).implicitTerms s)).divergence
      = [((-1, 0, 3) : Q3)] := by
  have hr : (toySW 1 1).ops.radius ≠ 0 := by norm_num [toySW, toySWOps]
  have h := one_layer_total (toySW 1 1) toyZeroMean (toySW_factory 1 (by norm_num)) toyU
    (toySW_jet 1 (by norm_num)) hr 1 (1 / 10) rfl rfl rfl
  intro s
  rw [h]
  simp only [List.cons.injEq, and_true]
  ext <;> simp [jetX2, jetX3, toySW, toySWOps, toyU] <;> norm_num


end ShallowWaterPart

/-! ### non-vacuity of the zonal-flow theorems: solid-body rotation on the three-mode toy sphere

Two uneven layers rotating at different rates, `u₀ = cos θ`, `u₁ = 2 cos θ` (vorticities `2μ`, `4μ`),
horizontally uniform temperatures `T′ = (−16/25, 48/25)` around `T_ref = 3`, `ln pₛ = 1/5 − μ²/2`
(`c = 1`, `R = 1`, `2Ωa = 1`).  On the sphere the balance is `U² + U = c R (T_ref + T′)`; the toy
sphere truncates `cos θ ∂_θ` at `μ²`, which weights `T′` by `25/16`: `1 + 1 = 3 − 1`, `4 + 2 = 3 + 3`. -/
section ZonalExample
open Dino.Dynamics

def toyPE : PrimitiveEquations ℚ Q3 Q3 :=
  { ops := toySWOps 1
    vert := { boundaries := [0, 1 / 3, 1], logCenters := [-2, -1 / 3] }
    phys := { angularVelocity := 1 / 2, g := 10, R := 1, Rvapor := 2, CpVapor := 18, kappa := 2 / 7 }
    referenceTemperature := [3, 3]
    orography := (0, 0, 0) }

def toyZeta : List Q3 := [(0, 2, 0), (0, 4, 0)]
def toyTv : List Q3 := [(-16 / 25, 0, 0), (48 / 25, 0, 0)]
def toyLnp : Q3 := (1 / 5, 0, -1 / 2)

/-- the wind of the example is solid-body rotation: `cos θ·u = U cos²θ` on the three nodes -/
example : toyZeta.map (zonalU toyPE.ops) = [(16 / 25, 1, 16 / 25), (32 / 25, 2, 32 / 25)] := by
  decide +kernel

/-- the two halves of the divergence tendency are not zero; they cancel -/
example : zonalDivImplicit toyPE toyTv toyLnp = [((3, 0, -9) : Q3), ((3, 0, -9) : Q3)] := by
  decide +kernel

example :
    State.add (toyPE.explicitTerms (zonalState toyZeta toyTv toyLnp [("tracer", [(1, 0, 0), (2, 0, 0)])]))
        (toyPE.implicitTerms (zonalState toyZeta toyTv toyLnp [("tracer", [(1, 0, 0), (2, 0, 0)])]))
      = zeroTendency 2 [("tracer", [(1, 0, 0), (2, 0, 0)])] := by
  refine zonal_flow_steady toyPE (toySW_lin 1) 2 (by decide) rfl rfl rfl toyZeta toyTv rfl rfl toyLnp _
    (by simp) ⟨?_, ?_⟩ (fun b _ => rfl) (fun a _ => rfl) (fun kv _ a _ => rfl) ?_
  · decide +kernel
  · decide +kernel
  · decide +kernel

/-! ### non-vacuity of the ZONALITY hypotheses: a toy sphere WITH longitude (`d_dlon ≠ 0`)

Fields `a(μ) + c(μ) cos λ + s(μ) sin λ`, each of `a, c, s` a quadratic in `μ` (the three-mode toy sphere in
latitude), on the product grid of the three latitudes with the four longitudes `λ = 0, π/2, π, 3π/2`
(12 nodes).  `d_dlon (a, c, s) = (0, s, −c)` is not zero; the latitudinal operators act on `a, c, s`
separately (the `−m² sec²θ` part of the Laplacian of the `m = 1` modes is omitted: the zonal-flow theorems
use only linearity of the operators).  On this grid `ZonalFlow`, `ZonalFlux` and the `d_dlon = 0`
hypotheses are no longer `rfl`: they hold for the zonal state and FAIL for a state with a wave-1 component. -/
abbrev ML := Q3 × Q3 × Q3
abbrev NL := Q3 × Q3 × Q3 × Q3

/-- latitudinal operators of the three-mode toy sphere (radius 1) -/
def latT (a : Q3) : Q3 := (a.1 - 3 / 5 * a.2.1 + 9 / 25 * a.2.2, a.1, a.1 + 3 / 5 * a.2.1 + 9 / 25 * a.2.2)
def latTm (x : Q3) : Q3 := (x.2.1, 5 / 6 * (x.2.2 - x.1), 25 / 9 * ((x.1 + x.2.2) / 2 - x.2.1))
def latD (a : Q3) : Q3 := (a.2.1, 2 * a.2.2, -a.2.1)
def latS (a : Q3) : Q3 := (a.2.1, 2 * a.2.2 - 2 * a.1, -3 * a.2.1)
def latL (a : Q3) : Q3 := (2 * a.2.2, -2 * a.2.1, -6 * a.2.2)
def latIL (a : Q3) : Q3 := (a.2.2 / 18, -a.2.1 / 2, -a.2.2 / 6)

def toyLonOps : HOps ℚ ML NL :=
  { toNodal := fun x => (latT x.1 + latT x.2.1, latT x.1 + latT x.2.2, latT x.1 - latT x.2.1, latT x.1 - latT x.2.2)
    toModal := fun y => (latTm ((1 / 4 : ℚ) • (y.1 + y.2.1 + y.2.2.1 + y.2.2.2)),
      latTm ((1 / 2 : ℚ) • (y.1 - y.2.2.1)), latTm ((1 / 2 : ℚ) • (y.2.1 - y.2.2.2)))
    dDlon := fun x => (0, x.2.2, -x.2.1)
    cosLatDDlat := fun x => (latD x.1, latD x.2.1, latD x.2.2)
    secLatDDlatCos2 := fun x => (latS x.1, latS x.2.1, latS x.2.2)
    laplacian := fun x => (latL x.1, latL x.2.1, latL x.2.2)
    inverseLaplacian := fun x => (latIL x.1, latIL x.2.1, latIL x.2.2)
    clip := fun x => x
    lproj := fun _ x => x
    nL := 3
    lapEig := fun l => -(l * (l + 1) : ℚ)
    cosLat := ((4 / 5, 1, 4 / 5), (4 / 5, 1, 4 / 5), (4 / 5, 1, 4 / 5), (4 / 5, 1, 4 / 5))
    sec2Lat := ((25 / 16, 1, 25 / 16), (25 / 16, 1, 25 / 16), (25 / 16, 1, 25 / 16), (25 / 16, 1, 25 / 16))
    sinLat := ((-3 / 5, 0, 3 / 5), (-3 / 5, 0, 3 / 5), (-3 / 5, 0, 3 / 5), (-3 / 5, 0, 3 / 5))
    oneModal := ((1, 0, 0), 0, 0)
    radius := 1 }

theorem latT_lin : IsLinearMap ℚ latT := ⟨fun x y => by ext <;> simp [latT] <;> ring, fun c x => by ext <;> simp [latT] <;> ring⟩
theorem latTm_lin : IsLinearMap ℚ latTm := ⟨fun x y => by ext <;> simp [latTm] <;> ring, fun c x => by ext <;> simp [latTm] <;> ring⟩
theorem latD_lin : IsLinearMap ℚ latD := ⟨fun x y => by ext <;> simp [latD] <;> ring, fun c x => by ext <;> simp [latD] <;> ring⟩
theorem latS_lin : IsLinearMap ℚ latS := ⟨fun x y => by ext <;> simp [latS] <;> ring, fun c x => by ext <;> simp [latS] <;> ring⟩
theorem latL_lin : IsLinearMap ℚ latL := ⟨fun x y => by ext <;> simp [latL] <;> ring, fun c x => by ext <;> simp [latL] <;> ring⟩
theorem latIL_lin : IsLinearMap ℚ latIL := ⟨fun x y => by ext <;> simp [latIL] <;> ring, fun c x => by ext <;> simp [latIL] <;> ring⟩

theorem triple_lin {f : Q3 → Q3} (hf : IsLinearMap ℚ f) :
    IsLinearMap ℚ (fun x : ML => ((f x.1, f x.2.1, f x.2.2) : ML)) :=
  ⟨fun x y => by simp only [Prod.fst_add, Prod.snd_add, hf.map_add, Prod.mk_add_mk],
   fun c x => by simp only [Prod.smul_fst, Prod.smul_snd, hf.map_smul, Prod.smul_mk]⟩

/-- `d_dlon` is not the zero map on this grid, and the nodal round trip is exact -/
example : toyLonOps.dDlon ((0, 0, 0), (1, 2, 3), (4, 5, 6)) = ((0, 0, 0), (4, 5, 6), (-1, -2, -3)) := by
  decide +kernel
example : toyLonOps.toModal (toyLonOps.toNodal ((1, 2, 3), (4, 5, 6), (7, 8, 9))) = ((1, 2, 3), (4, 5, 6), (7, 8, 9)) := by
  decide +kernel
/-- its zonal part is the three-mode toy sphere `toySWOps 1` -/
example (a : Q3) : latT a = (toySWOps 1).toNodal a ∧ latD a = (toySWOps 1).cosLatDDlat a
    ∧ latS a = (toySWOps 1).secLatDDlatCos2 a ∧ latL a = (toySWOps 1).laplacian a
    ∧ latIL a = (toySWOps 1).inverseLaplacian a ∧ latTm a = (toySWOps 1).toModal a := by
  refine ⟨rfl, rfl, rfl, ?_, ?_, rfl⟩ <;> ext <;> simp [latL, latIL, toySWOps]

theorem toyLon_lin : LinLaws toyLonOps where
  toNodal := ⟨fun x y => by
      simp only [toyLonOps, Prod.fst_add, Prod.snd_add, latT_lin.map_add, Prod.mk_add_mk]
      refine Prod.ext ?_ (Prod.ext ?_ (Prod.ext ?_ ?_)) <;> (simp only []; abel),
    fun c x => by
      simp only [toyLonOps, Prod.smul_fst, Prod.smul_snd, latT_lin.map_smul, Prod.smul_mk, smul_add, smul_sub]⟩
  toModal := ⟨fun x y => by
      simp only [toyLonOps, Prod.fst_add, Prod.snd_add, Prod.mk_add_mk, ← latTm_lin.map_add, ← smul_add]
      refine Prod.ext ?_ (Prod.ext ?_ ?_) <;> simp only [] <;> congr 2 <;> abel,
    fun c x => by
      simp only [toyLonOps, Prod.smul_fst, Prod.smul_snd, Prod.smul_mk, ← latTm_lin.map_smul, ← smul_add, ← smul_sub,
        smul_comm c]⟩
  dDlon := ⟨fun x y => by simp [toyLonOps]; abel, fun c x => by simp [toyLonOps]⟩
  cosLatDDlat := triple_lin latD_lin
  secLatDDlatCos2 := triple_lin latS_lin
  laplacian := triple_lin latL_lin
  inverseLaplacian := triple_lin latIL_lin
  clip := ⟨fun x y => rfl, fun c x => rfl⟩
def toyLonPE : PrimitiveEquations ℚ ML NL :=
  { ops := toyLonOps
    vert := { boundaries := [0, 1 / 3, 1], logCenters := [-2, -1 / 3] }
    phys := { angularVelocity := 1 / 2, g := 10, R := 1, Rvapor := 2, CpVapor := 18, kappa := 2 / 7 }
    referenceTemperature := [3, 3]
    orography := 0 }

/-- the solid-body example embedded as the zonal part; a tracer with latitudinal structure -/
def lonZeta : List ML := [((0, 2, 0), 0, 0), ((0, 4, 0), 0, 0)]
def lonTv : List ML := [((-16 / 25, 0, 0), 0, 0), ((48 / 25, 0, 0), 0, 0)]
def lonLnp : ML := ((1 / 5, 0, -1 / 2), 0, 0)
def lonTr : List (String × List ML) := [("tracer", [((1, 1 / 2, 0), 0, 0), ((2, 0, 1 / 3), 0, 0)])]

/-- the zonality hypotheses hold for the zonal state — by computation on the 12-node grid, not by `rfl` -/
theorem lon_zonalFlow : ZonalFlow toyLonPE.ops lonZeta lonLnp := ⟨by decide +kernel, by decide +kernel⟩

/-- … and they are genuine restrictions: a surface pressure with a wave-1 component violates `ZonalFlow`, and
 a tracer with a wave-1 component violates `ZonalFlux` -/
theorem lon_not_zonalFlow : ¬ ZonalFlow toyLonPE.ops lonZeta ((1 / 5, 0, -1 / 2), (1, 0, 0), 0) := by
  intro h
  exact absurd h.gradZonal (by decide +kernel)

theorem lon_not_zonalFlux :
    ¬ ZonalFlux toyLonPE lonZeta ([((1, 0, 0), (1, 0, 0), 0), ((2, 0, 0), 0, 0)].map toyLonPE.ops.toNodal) := by
  unfold ZonalFlux
  decide +kernel

/-- `zonal_flow_steady` on the grid with longitude: all hypotheses discharged by computation -/
theorem lon_zonal_flow_steady :
    State.add (toyLonPE.explicitTerms (zonalState lonZeta lonTv lonLnp lonTr))
        (toyLonPE.implicitTerms (zonalState lonZeta lonTv lonLnp lonTr))
      = zeroTendency 2 lonTr := by
  refine zonal_flow_steady toyLonPE toyLon_lin 2 (by decide) rfl rfl rfl lonZeta lonTv rfl rfl lonLnp _
    (by simp [lonTr]) lon_zonalFlow ?_ ?_ ?_ ?_
  · decide +kernel
  · unfold ZonalFlux; decide +kernel
  · unfold ZonalFlux; decide +kernel
  · decide +kernel

end ZonalExample

end Dino.C05
