import DinoProofs.Lemmas.Units
import Mathlib.Analysis.SpecialFunctions.Trigonometric.Basic
import Mathlib.Tactic.IntervalCases

/-!
# C18 — unit and time conversions are mutually inverse and multiplicative

All statements are about the executable model `Dino.Units` (tied to `dinosaur/scales.py`, the
`*timedelta64` methods of `primitive_equations.PrimitiveEquationsSpecs`, the time helpers of
`xarray_utils.py` and the orbital-time code of `radiation.py` by the correspondence check of
`harness/props/C18.py`).

* T18.1 `factor` (`Scale._scaling_factor`) is the product of the base scales raised to the
  dimensional exponents and a homomorphism from dimension vectors to `K`.
* T18.2 `nondimensionalize` / `dimensionalize` are mutually inverse, independent of the unit a
  quantity is expressed in, and respect products, quotients, powers.  Scales must be non-zero
  (`ScaleOK`; the code does not validate this) and conversion factors of units non-zero.
  The inverse / unit-independence statements are proved for multiplicative units (`UnitV`) and for
  affine (offset) units (`AffUnit`: kelvin, degC, degF), of which the multiplicative ones are the
  special case offset = 0; negative witness `dimensionalizeLinearised_not_inverse`.
* T18.3 whole-second durations survive `dimensionalize_timedelta64 ∘ nondimensionalize_timedelta64`
  (scalar and array path) under the standard rounding model of binary64 for `|s| ≤ 10⁹`; the
  truncation used before commit 35952ac loses 27 s (negative witness on the real doubles).
* T18.4 datetimes at minute resolution survive the round trip through model time under the same
  rounding model (seven roundings) for `|minutes| ≤ 10¹²`.
* T18.5 over the reals (any ordered field with a floor) orbital phases are reduced to `[0, 2π)`,
  congruent to `ref + rate · t`, consistent with elapsed time.  In double arithmetic the half-open
  interval is not kept: `reduceFl_mem` gives `[-ε, 2π + ε)`, `ε ≈ 2⁻⁵³ (|x| + 2 · 2π)` for the unreduced
  phase `x`, with negative witnesses on the real doubles (`timeToOrbitalFl_fl53_exceeds_period`,
  `reduceFl_fl53_closed_end`).

Side conditions are explicit wherever a totalised operation of a field (`x / 0 = 0`, `0⁻¹ = 0`) could
otherwise carry a statement: `ScaleOK` (non-zero scales), non-zero conversion factors, `m₂ ≠ 0` for a
quotient, `m ≠ 0` for a negative power; what the model returns at the excluded points is recorded by
`nondim_div_excluded`, `nondim_pow_excluded`, `factor_add_scaleOK_necessary`, and what the code does
there by the harness.  Exponents of dimensions are integers (`List ℤ`); the code also accepts
fractional exponents (`m ** 0.5`), which are outside the model.
-/
namespace Dino.C18
open Dino.Units

section Scale
variable {K : Type} [Field K]

/-! ## T18.1 the scaling factor -/

omit [Field K] in
/-- a scale covers a dimension vector iff it has an entry for every dimension that occurs -/
theorem covers_iff (sc : List (Option K)) (d : List ℤ) :
    covers sc d = true ↔ ∀ i, dget d i ≠ 0 → ∃ q, sc.getD i none = some q := by
  rw [Dino.Units.covers_iff]
  simp only [Option.isSome_iff_exists]

/-- `_scaling_factor` succeeds exactly on covered dimension vectors, and then it is the product of
the base scales raised to the exponents -/
theorem factor_eq_some_iff (sc : List (Option K)) (d : List ℤ) (f : K) {N : ℕ} (hN : d.length ≤ N) :
    factor sc d = some f ↔
      (∀ i, dget d i ≠ 0 → ∃ q, sc.getD i none = some q) ∧
      f = ∏ i ∈ Finset.range N, ((sc.getD i none).getD 1) ^ dget d i := by
  rw [factor_eq_some_iff' sc d f hN, covers_iff]
  rfl

/-- `_scaling_factor` raises exactly when some dimension that occurs has no scale -/
theorem factor_eq_none_iff (sc : List (Option K)) (d : List ℤ) :
    factor sc d = none ↔ ∃ i, dget d i ≠ 0 ∧ sc.getD i none = none := by
  rw [factor_eq_none_iff', ← Bool.not_eq_true, covers_iff]
  push Not
  constructor
  · rintro ⟨i, hi, h⟩
    refine ⟨i, hi, ?_⟩
    cases hq : sc.getD i none with
    | none => rfl
    | some q => exact absurd hq (h q)
  · rintro ⟨i, hi, h⟩
    exact ⟨i, hi, fun q hq => by rw [h] at hq; cases hq⟩

theorem factor_isSome_of_covers {sc : List (Option K)} {d : List ℤ} (h : covers sc d = true) :
    ∃ f, factor sc d = some f :=
  ⟨_, (factor_eq_some_iff' sc d _ le_rfl).2 ⟨h, rfl⟩⟩

/-- the dimensionless factor is 1 -/
theorem factor_zero (sc : List (Option K)) (n : ℕ) : factor sc (List.replicate n 0) = some 1 := by
  rw [factor_eq_some_iff' sc _ _ le_rfl, Dino.Units.covers_iff]
  refine ⟨fun i hi => absurd (dget_replicate_zero n i) hi, ?_⟩
  simp [factorSpec, dget_replicate_zero]

/-- `factor (d₁ + d₂) = factor d₁ · factor d₂` -/
theorem factor_add {sc : List (Option K)} (hsc : ScaleOK sc) {a b : List ℤ} {f g : K}
    (ha : factor sc a = some f) (hb : factor sc b = some g) :
    factor sc (dadd a b) = some (f * g) := by
  have hNa : a.length ≤ max (max a.length b.length) (dadd a b).length :=
    (le_max_left _ _).trans (le_max_left _ _)
  have hNb : b.length ≤ max (max a.length b.length) (dadd a b).length :=
    (le_max_right _ _).trans (le_max_left _ _)
  rw [factor_eq_some_iff' sc _ _ hNa] at ha
  rw [factor_eq_some_iff' sc _ _ hNb] at hb
  rw [factor_eq_some_iff' sc _ _ (le_max_right _ _)]
  obtain ⟨ca, rfl⟩ := ha
  obtain ⟨cb, rfl⟩ := hb
  refine ⟨?_, ?_⟩
  · rw [Dino.Units.covers_iff] at *
    intro i hi
    rw [dget_dadd] at hi
    by_cases h0 : dget a i = 0
    · exact cb i (by simpa [h0] using hi)
    · exact ca i h0
  · unfold factorSpec
    rw [← Finset.prod_mul_distrib]
    refine Finset.prod_congr rfl fun i _ => ?_
    rw [dget_dadd, zpow_add₀ (scaleAt_ne_zero hsc i)]

/-- `factor (n • d) = (factor d) ^ n` for every integer `n`; for a negative `n` the scales must be
non-zero (`_hsc`: at a zero scale `f = 0` and the statement would hold only through `0⁻¹ = 0`, while
the code raises `ZeroDivisionError`) -/
theorem factor_zsmul {sc : List (Option K)} {d : List ℤ} {f : K} (n : ℤ)
    (_hsc : ScaleOK sc ∨ 0 ≤ n)
    (hd : factor sc d = some f) : factor sc (dsmul n d) = some (f ^ n) := by
  have hl : (dsmul n d).length = d.length := by simp [dsmul]
  rw [factor_eq_some_iff' sc _ _ le_rfl] at hd
  rw [factor_eq_some_iff' sc _ _ hl.le]
  obtain ⟨cd, rfl⟩ := hd
  refine ⟨?_, ?_⟩
  · rw [Dino.Units.covers_iff] at *
    intro i hi
    rw [dget_dsmul] at hi
    exact cd i (fun h => hi (by simp [h]))
  · unfold factorSpec
    rw [← Finset.prod_zpow]
    refine Finset.prod_congr rfl fun i _ => ?_
    rw [dget_dsmul, mul_comm, zpow_mul]

/-- `factor (-d) = (factor d)⁻¹` (non-zero scales, so that `f ≠ 0`) -/
theorem factor_neg {sc : List (Option K)} (hsc : ScaleOK sc) {d : List ℤ} {f : K}
    (hd : factor sc d = some f) : factor sc (dneg d) = some f⁻¹ := by
  simpa [dneg] using factor_zsmul (-1) (Or.inl hsc) hd

/-- with non-zero scales the factor is non-zero -/
theorem factor_ne_zero {sc : List (Option K)} (hsc : ScaleOK sc) {d : List ℤ} {f : K}
    (hd : factor sc d = some f) : f ≠ 0 := by
  rw [factor_eq_some_iff' sc _ _ le_rfl] at hd
  obtain ⟨_, rfl⟩ := hd
  unfold factorSpec
  rw [Finset.prod_ne_zero_iff]
  exact fun i _ => zpow_ne_zero _ (scaleAt_ne_zero hsc i)

/-! ## T18.2 nondimensionalize / dimensionalize -/

/-- `nondimensionalize(dimensionalize(v, u)) = v` -/
theorem nondim_dimensionalize {sc : List (Option K)} (hsc : ScaleOK sc) (u : UnitV K)
    (hc : u.conv ≠ 0) (hcov : covers sc u.dim = true) (v : K) :
    ∃ q, dimensionalize sc u v = some q ∧ nondim sc u q = some v := by
  obtain ⟨f, hf⟩ := factor_isSome_of_covers hcov
  have hf0 := factor_ne_zero hsc hf
  refine ⟨v * f / u.conv, by simp [dimensionalize, hf], ?_⟩
  simp only [nondim, hf, Option.map_some, Option.some.injEq]
  field_simp

/-- `dimensionalize(nondimensionalize(m · u), u') = (m · u).to(u')` for every compatible unit -/
theorem dimensionalize_nondim {sc : List (Option K)} (hsc : ScaleOK sc) (u u' : UnitV K)
    (hc' : u'.conv ≠ 0) (hd : DimEq u.dim u'.dim) (hcov : covers sc u.dim = true) (m : K) :
    ∃ v, nondim sc u m = some v ∧ dimensionalize sc u' v = some (m * u.conv / u'.conv) := by
  obtain ⟨f, hf⟩ := factor_isSome_of_covers hcov
  have hf0 := factor_ne_zero hsc hf
  have hf' : factor sc u'.dim = some f := by rw [← factor_congr hd]; exact hf
  refine ⟨m * u.conv / f, by simp [nondim, hf], ?_⟩
  simp only [dimensionalize, hf', Option.map_some, Option.some.injEq]
  field_simp

/-- `dimensionalize(nondimensionalize(m · u), u) = m · u` -/
theorem dimensionalize_nondim_same {sc : List (Option K)} (hsc : ScaleOK sc) (u : UnitV K)
    (hc : u.conv ≠ 0) (hcov : covers sc u.dim = true) (m : K) :
    ∃ v, nondim sc u m = some v ∧ dimensionalize sc u v = some m := by
  obtain ⟨v, h1, h2⟩ := dimensionalize_nondim hsc u u hc (fun _ => rfl) hcov m
  exact ⟨v, h1, by rw [h2, mul_div_cancel_right₀ _ hc]⟩

/-- the same physical quantity expressed in two units has the same non-dimensional value -/
theorem nondim_unit_independent (sc : List (Option K)) (u u' : UnitV K) (m m' : K)
    (hd : DimEq u.dim u'.dim) (h : m * u.conv = m' * u'.conv) :
    nondim sc u m = nondim sc u' m' := by
  simp only [nondim, factor_congr hd, h]

theorem nondim_eq_some_iff (sc : List (Option K)) (u : UnitV K) (m v : K) :
    nondim sc u m = some v ↔ ∃ f, factor sc u.dim = some f ∧ m * u.conv / f = v := by
  simp [nondim, Option.map_eq_some_iff]

/-- `nondim(q₁ · q₂) = nondim(q₁) · nondim(q₂)` -/
theorem nondim_mul {sc : List (Option K)} (hsc : ScaleOK sc) (u₁ u₂ : UnitV K) (m₁ m₂ v₁ v₂ : K)
    (h₁ : nondim sc u₁ m₁ = some v₁) (h₂ : nondim sc u₂ m₂ = some v₂) :
    nondim sc (u₁.mul u₂) (m₁ * m₂) = some (v₁ * v₂) := by
  rw [nondim_eq_some_iff] at *
  obtain ⟨f₁, hf₁, rfl⟩ := h₁
  obtain ⟨f₂, hf₂, rfl⟩ := h₂
  exact ⟨f₁ * f₂, factor_add hsc hf₁ hf₂, by simp only [UnitV.mul]; ring⟩

/-- `nondim(q₁ / q₂) = nondim(q₁) / nondim(q₂)` for a divisor `q₂ = m₂ · u₂` that is not zero
(`m₂ ≠ 0`, `u₂.conv ≠ 0`; the scales are non-zero by `ScaleOK`): then `nondim(q₂) ≠ 0` as well, so no
division of the statement is a totalised `x / 0 = 0`.  At `m₂ = 0` the code raises
`ZeroDivisionError` (Python scalars) or returns `inf` (arrays); see `nondim_div_excluded`. -/
theorem nondim_div {sc : List (Option K)} (hsc : ScaleOK sc) (u₁ u₂ : UnitV K) (m₁ m₂ v₁ v₂ : K)
    (hc₂ : u₂.conv ≠ 0) (hm₂ : m₂ ≠ 0)
    (h₁ : nondim sc u₁ m₁ = some v₁) (h₂ : nondim sc u₂ m₂ = some v₂) :
    nondim sc (u₁.div u₂) (m₁ / m₂) = some (v₁ / v₂) ∧ v₂ ≠ 0 := by
  rw [nondim_eq_some_iff] at *
  obtain ⟨f₁, hf₁, rfl⟩ := h₁
  obtain ⟨f₂, hf₂, rfl⟩ := h₂
  have hf₂0 := factor_ne_zero hsc hf₂
  refine ⟨⟨f₁ * f₂⁻¹, factor_add hsc hf₁ (factor_neg hsc hf₂), ?_⟩,
    div_ne_zero (mul_ne_zero hm₂ hc₂) hf₂0⟩
  simp only [UnitV.div]
  field_simp

/-- `nondim(q ^ n) = nondim(q) ^ n` for every integer `n`, for non-zero scales and a unit with a
non-zero conversion factor; a negative power needs `m ≠ 0` (then `nondim(q) ≠ 0`), so that no inverse
of the statement is a totalised `0⁻¹ = 0`.  At `m = 0`, `n < 0` the code raises `ZeroDivisionError`
(Python scalars) or returns `inf` (arrays); see `nondim_pow_excluded`. -/
theorem nondim_pow {sc : List (Option K)} (hsc : ScaleOK sc) (u : UnitV K) (m v : K) (n : ℤ)
    (hc : u.conv ≠ 0) (hm : m ≠ 0 ∨ 0 ≤ n)
    (h : nondim sc u m = some v) :
    nondim sc (u.pow n) (m ^ n) = some (v ^ n) ∧ (m ≠ 0 → v ≠ 0) := by
  have _ := hm
  rw [nondim_eq_some_iff] at *
  obtain ⟨f, hf, rfl⟩ := h
  have hf0 := factor_ne_zero hsc hf
  exact ⟨⟨f ^ n, factor_zsmul n (Or.inl hsc) hf, by simp only [UnitV.pow, zpow_eq, div_zpow, mul_zpow]⟩,
    fun hm0 => div_ne_zero (mul_ne_zero hm0 hc) hf0⟩

/-- `nondim(a · q) = a · nondim(q)` for a pure number `a` -/
theorem nondim_smul (sc : List (Option K)) (u : UnitV K) (a m v : K)
    (h : nondim sc u m = some v) : nondim sc u (a * m) = some (a * v) := by
  rw [nondim_eq_some_iff] at *
  obtain ⟨f, hf, rfl⟩ := h
  exact ⟨f, hf, by ring⟩

/-! ### compound units (the contract of pint's table) -/

theorem dadd_nil_right (a : List ℤ) : dadd a [] = a := by cases a <;> simp [dadd]

theorem dadd_assoc (a b c : List ℤ) : dadd (dadd a b) c = dadd a (dadd b c) := by
  induction a generalizing b c with
  | nil => simp [dadd]
  | cons x a ih =>
    cases b with
    | nil => simp [dadd]
    | cons y b =>
      cases c with
      | nil => simp [dadd]
      | cons z c => simp [dadd, ih, add_assoc]

theorem UnitV.mul_assoc (a b c : UnitV K) : (a.mul b).mul c = a.mul (b.mul c) := by
  simp [UnitV.mul, dadd_assoc, _root_.mul_assoc]

/-- the compound of two lists of atoms is the product of the compounds -/
theorem compound_append (a b : List (UnitV K × ℤ)) :
    compound (a ++ b) = (compound a).mul (compound b) := by
  induction a with
  | nil => simp [compound, UnitV.mul, UnitV.one, dadd]
  | cons x a ih =>
    obtain ⟨u, e⟩ := x
    simp only [List.cons_append, compound, ih, UnitV.mul_assoc]

/-- conversion factor and dimension vector of a compound unit: `∏ cᵢ ^ eᵢ` and `Σ eᵢ · dᵢ` -/
theorem compound_spec (a : List (UnitV K × ℤ)) :
    (compound a).conv = (a.map fun x => x.1.conv ^ x.2).prod ∧
    ∀ i, dget (compound a).dim i = (a.map fun x => x.2 * dget x.1.dim i).sum := by
  induction a with
  | nil => simp [compound, UnitV.one]
  | cons x a ih =>
    obtain ⟨u, e⟩ := x
    refine ⟨?_, fun i => ?_⟩
    · simp [compound, UnitV.mul, UnitV.pow, zpow_eq, ih.1]
    · simp [compound, UnitV.mul, UnitV.pow, dget_dadd, dget_dsmul, ih.2 i]

/-! ### affine (offset) units: degree Celsius, degree Fahrenheit

`Scale.dimensionalize(value, units.degC)` is an *affine* function of `value`.  The side conditions are
explicit: `ScaleOK sc` (every base scale is non-zero — the code does not check this), the conversion
factor of the unit is non-zero, and the scale covers the dimension of the unit.  Compound units that
contain an offset unit are outside the domain (the code raises on them). -/

/-- multiplicative units are the special case offset = 0 of the affine model -/
theorem nondimAff_ofUnit (sc : List (Option K)) (u : UnitV K) (m : K) :
    nondimAff sc (AffUnit.ofUnit u) m = nondim sc u m := by
  simp [nondimAff, nondim, AffUnit.ofUnit, AffUnit.toBase]

/-- multiplicative units are the special case offset = 0 of the affine model -/
theorem dimensionalizeAff_ofUnit (sc : List (Option K)) (u : UnitV K) (v : K) :
    dimensionalizeAff sc (AffUnit.ofUnit u) v = dimensionalize sc u v := by
  simp [dimensionalizeAff, dimensionalize, AffUnit.ofUnit, AffUnit.fromBase]

/-- `Quantity(m, u).to(u) = m` -/
theorem convertAff_self (u : AffUnit K) (hc : u.conv ≠ 0) (m : K) : convertAff u u m = m :=
  u.fromBase_toBase hc m

/-- `q.to(u').to(u'') = q.to(u'')` -/
theorem convertAff_trans (u u' u'' : AffUnit K) (hc' : u'.conv ≠ 0) (m : K) :
    convertAff u' u'' (convertAff u u' m) = convertAff u u'' m := by
  simp only [convertAff, u'.toBase_fromBase hc']

/-- a conversion keeps the physical quantity (its value in base units) -/
theorem toBase_convertAff (u u' : AffUnit K) (hc' : u'.conv ≠ 0) (m : K) :
    u'.toBase (convertAff u u' m) = u.toBase m :=
  u'.toBase_fromBase hc' _

/-- **(a)** `dimensionalize(nondimensionalize(Quantity(m, u)), u') = Quantity(m, u).to(u')` for affine
units `u`, `u'` of the same dimension, and the result is the same physical quantity -/
theorem dimensionalizeAff_nondimAff {sc : List (Option K)} (hsc : ScaleOK sc) (u u' : AffUnit K)
    (hc' : u'.conv ≠ 0) (hd : DimEq u.dim u'.dim) (hcov : covers sc u.dim = true) (m : K) :
    ∃ v, nondimAff sc u m = some v ∧ dimensionalizeAff sc u' v = some (convertAff u u' m) ∧
      u'.toBase (convertAff u u' m) = u.toBase m := by
  obtain ⟨f, hf⟩ := factor_isSome_of_covers hcov
  have hf0 := factor_ne_zero hsc hf
  have hf' : factor sc u'.dim = some f := by rw [← factor_congr hd]; exact hf
  refine ⟨u.toBase m / f, by simp [nondimAff, hf], ?_, toBase_convertAff u u' hc' m⟩
  simp only [dimensionalizeAff, hf', Option.map_some, convertAff, div_mul_cancel₀ _ hf0]

/-- **(a)** with `u' = u`: `dimensionalize(nondimensionalize(Quantity(m, u)), u) = Quantity(m, u)` -/
theorem dimensionalizeAff_nondimAff_same {sc : List (Option K)} (hsc : ScaleOK sc) (u : AffUnit K)
    (hc : u.conv ≠ 0) (hcov : covers sc u.dim = true) (m : K) :
    ∃ v, nondimAff sc u m = some v ∧ dimensionalizeAff sc u v = some m := by
  obtain ⟨v, h1, h2, _⟩ := dimensionalizeAff_nondimAff hsc u u hc (fun _ => rfl) hcov m
  exact ⟨v, h1, by rw [h2, convertAff_self u hc]⟩

/-- **(b)** `nondimensionalize(dimensionalize(v, u)) = v` for an affine unit -/
theorem nondimAff_dimensionalizeAff {sc : List (Option K)} (hsc : ScaleOK sc) (u : AffUnit K)
    (hc : u.conv ≠ 0) (hcov : covers sc u.dim = true) (v : K) :
    ∃ q, dimensionalizeAff sc u v = some q ∧ nondimAff sc u q = some v := by
  obtain ⟨f, hf⟩ := factor_isSome_of_covers hcov
  have hf0 := factor_ne_zero hsc hf
  refine ⟨u.fromBase (v * f), by simp [dimensionalizeAff, hf], ?_⟩
  simp only [nondimAff, hf, Option.map_some, u.toBase_fromBase hc, mul_div_cancel_right₀ _ hf0]

/-- **(c)** the same physical quantity (same value in base units) expressed in two affine units of the
same dimension (K, degC, degF) has the same non-dimensional value -/
theorem nondimAff_unit_independent (sc : List (Option K)) (u u' : AffUnit K) (m m' : K)
    (hd : DimEq u.dim u'.dim) (h : u.toBase m = u'.toBase m') :
    nondimAff sc u m = nondimAff sc u' m' := by
  simp only [nondimAff, factor_congr hd, h]

/-- **(c)** `nondimensionalize(q.to(u')) = nondimensionalize(q)` -/
theorem nondimAff_convertAff (sc : List (Option K)) (u u' : AffUnit K) (hc' : u'.conv ≠ 0)
    (hd : DimEq u.dim u'.dim) (m : K) :
    nondimAff sc u' (convertAff u u' m) = nondimAff sc u m :=
  nondimAff_unit_independent sc u' u _ _ (fun i => (hd i).symm) (toBase_convertAff u u' hc' m)

/-- converse of (c): with non-zero scales the non-dimensional value determines the physical quantity -/
theorem toBase_eq_of_nondimAff_eq {sc : List (Option K)} (hsc : ScaleOK sc) (u u' : AffUnit K)
    (m m' v : K) (hd : DimEq u.dim u'.dim) (h : nondimAff sc u m = some v)
    (h' : nondimAff sc u' m' = some v) : u.toBase m = u'.toBase m' := by
  rw [nondimAff_eq_some_iff] at h h'
  obtain ⟨f, hf, rfl⟩ := h
  obtain ⟨f', hf', h'⟩ := h'
  rw [← factor_congr hd, hf] at hf'
  cases hf'
  have hf0 := factor_ne_zero hsc hf
  field_simp at h'
  exact h'.symm

/-- **(c)** `dimensionalize(v, u).to(u') = dimensionalize(v, u')`: the re-dimensionalised quantity does
not depend on the unit asked for -/
theorem dimensionalizeAff_unit_independent (sc : List (Option K)) (u u' : AffUnit K)
    (hc : u.conv ≠ 0) (hc' : u'.conv ≠ 0) (hd : DimEq u.dim u'.dim) (v q : K)
    (h : dimensionalizeAff sc u v = some q) :
    dimensionalizeAff sc u' v = some (convertAff u u' q) ∧
      u'.toBase (convertAff u u' q) = u.toBase q := by
  rw [dimensionalizeAff_eq_some_iff] at h
  obtain ⟨f, hf, rfl⟩ := h
  refine ⟨?_, toBase_convertAff u u' hc' _⟩
  rw [dimensionalizeAff_eq_some_iff]
  exact ⟨f, by rw [← factor_congr hd]; exact hf, by simp only [convertAff, u.toBase_fromBase hc]⟩

/-- `dimensionalize(·, u)` is affine: slope `factor / conv`, intercept `- off / conv` -/
theorem dimensionalizeAff_affine (sc : List (Option K)) (u : AffUnit K) (f v : K)
    (hf : factor sc u.dim = some f) :
    dimensionalizeAff sc u v = some (v * (f / u.conv) - u.off / u.conv) := by
  simp only [dimensionalizeAff, hf, Option.map_some, AffUnit.fromBase, Option.some.injEq]
  ring

/-! #### the linearised variant (`value * factor.to(unit).magnitude`) is not the inverse -/

/-- on a unit without offset the linearised variant is `dimensionalize` … -/
theorem dimensionalizeLinearised_ofUnit (sc : List (Option K)) (u : UnitV K) (v : K) :
    dimensionalizeLinearised sc (AffUnit.ofUnit u) v = dimensionalize sc u v := by
  simp [dimensionalizeLinearised, dimensionalize, AffUnit.ofUnit, AffUnit.fromBase, mul_div_assoc]

/-- … and it agrees with the affine conversion exactly when the unit has no offset or `v = 1` -/
theorem dimensionalizeLinearised_eq_iff (sc : List (Option K)) (u : AffUnit K) (hc : u.conv ≠ 0)
    (hcov : covers sc u.dim = true) (v : K) :
    dimensionalizeLinearised sc u v = dimensionalizeAff sc u v ↔ u.off = 0 ∨ v = 1 := by
  obtain ⟨f, hf⟩ := factor_isSome_of_covers hcov
  simp only [dimensionalizeLinearised, dimensionalizeAff, hf, Option.map_some, Option.some.injEq,
    AffUnit.fromBase]
  rw [mul_div_assoc', div_left_inj' hc]
  constructor
  · intro h
    have h2 : u.off * (v - 1) = 0 := by linear_combination -h
    rcases mul_eq_zero.1 h2 with h0 | h1
    · exact Or.inl h0
    · exact Or.inr (sub_eq_zero.1 h1)
  · rintro (h | h)
    · rw [h]; ring
    · rw [h]; ring

/-- for a unit with an offset the linearised variant does not invert `nondimensionalize` (except on
the one quantity whose non-dimensional value is 1) -/
theorem dimensionalizeLinearised_ne {sc : List (Option K)} (hsc : ScaleOK sc) (u : AffUnit K)
    (hc : u.conv ≠ 0) (hoff : u.off ≠ 0) (hcov : covers sc u.dim = true) (m v : K)
    (hv : nondimAff sc u m = some v) (hv1 : v ≠ 1) : dimensionalizeLinearised sc u v ≠ some m := by
  obtain ⟨v', h1, h2⟩ := dimensionalizeAff_nondimAff_same hsc u hc hcov m
  rw [hv] at h1
  cases h1
  intro h
  rw [← h2, dimensionalizeLinearised_eq_iff sc u hc hcov] at h
  rcases h with h | h
  · exact hoff h
  · exact hv1 h

/-! ### `Scale.__init__` -/

omit [Field K] in
/-- `Scale(*quantities)` is accepted exactly when every quantity has a single base dimension with
exponent 1 and no dimension occurs twice (`ValidScales`), and then the scale holds, for every base
dimension, the magnitude of the quantity given for it; `_get_dimension` is characterised too. -/
theorem mkScale_spec (n : ℕ) (qs : List (K × List ℤ)) :
    (∀ sc, mkScale n qs = some sc ↔
      ValidScales n qs ∧ sc = (List.range n).map (scaleEntry qs)) ∧
    (mkScale n qs = none ↔ ¬ ValidScales n qs) ∧
    (∀ d i, singleDim d = some i ↔ dget d i = 1 ∧ ∀ j, j ≠ i → dget d j = 0) := by
  refine ⟨mkScale_eq_some_iff n qs, ?_, singleDim_eq_some_iff⟩
  constructor
  · intro h hv
    have := (mkScale_eq_some_iff n qs _).2 ⟨hv, rfl⟩
    rw [h] at this; cases this
  · intro hv
    cases h : mkScale n qs with
    | none => rfl
    | some sc => exact absurd ((mkScale_eq_some_iff n qs sc).1 h).1 hv

end Scale

/-! ### non-vacuity: a concrete scale, unit and quantity over `ℚ` -/

/-- length 2, no luminosity, time 3/7 -/
def sc0 : List (Option ℚ) := [some 2, none, some (3 / 7)]
/-- `(5/2 · base)² · (7 · base)`, dimension `length² · time⁻¹` -/
def u0 : UnitV ℚ := compound [(⟨5 / 2, [1, 0, -1]⟩, 2), (⟨7, [0, 0, 1]⟩, 1)]

example : u0.conv = 175 / 4 ∧ u0.dim = [2, 0, -1] := by decide +kernel
example : covers sc0 u0.dim = true := by decide +kernel
example : factor sc0 u0.dim = some (28 / 3) := by decide +kernel
example : nondim sc0 u0 (11 / 3) = some (275 / 16) := by decide +kernel
example : dimensionalize sc0 u0 (275 / 16) = some (11 / 3) := by decide +kernel
example : factor sc0 [0, 1] = none := by decide +kernel
example : mkScale 3 [((2 : ℚ), [1, 0, 0]), (3 / 7, [0, 0, 1])] = some sc0 := by decide +kernel
example : mkScale 3 [((2 : ℚ), [1, 0, 0]), (5, [1, 0, 0])] = none := by decide +kernel
example : mkScale 3 [((2 : ℚ), [1, 0, -1])] = none := by decide +kernel

theorem scaleOK_sc0 : ScaleOK sc0 := by
  intro q hq
  simp only [sc0, List.mem_cons, Option.some.injEq, reduceCtorEq, List.not_mem_nil, or_false,
    false_or] at hq
  rcases hq with rfl | rfl <;> norm_num

/-- a second unit: `(3/2 · base) · (7 · base)⁻²`, dimension `length · time⁻²` -/
def u1 : UnitV ℚ := compound [(⟨3 / 2, [1]⟩, 1), (⟨7, [0, 0, 1]⟩, -2)]

example : u1.conv = 3 / 98 ∧ u1.dim = [1, 0, -2] := by decide +kernel
example : nondim sc0 u1 (-5) = some (-135 / 9604) := by decide +kernel

/-- `nondim_div` on concrete non-trivial objects: `(11/3 u0) / (-5 u1)` -/
example : nondim sc0 (u0.div u1) ((11 / 3) / (-5)) = some ((275 / 16) / (-135 / 9604)) ∧
    (-135 / 9604 : ℚ) ≠ 0 :=
  nondim_div scaleOK_sc0 u0 u1 (11 / 3) (-5) (275 / 16) (-135 / 9604) (by decide +kernel) (by norm_num)
    (by decide +kernel) (by decide +kernel)
/-- … and the value is what the model computes -/
example : nondim sc0 (u0.div u1) ((11 / 3) / (-5)) = some (-132055 / 108) := by decide +kernel

/-- `nondim_pow` with a negative power of a non-zero quantity, and with a positive power of zero -/
example : nondim sc0 (u0.pow (-2)) ((11 / 3 : ℚ) ^ (-2 : ℤ)) = some ((275 / 16 : ℚ) ^ (-2 : ℤ)) :=
  (nondim_pow scaleOK_sc0 u0 (11 / 3) (275 / 16) (-2) (by decide +kernel) (Or.inl (by norm_num))
    (by decide +kernel)).1
example : nondim sc0 (u0.pow 3) ((0 : ℚ) ^ (3 : ℤ)) = some ((0 : ℚ) ^ (3 : ℤ)) :=
  (nondim_pow scaleOK_sc0 u0 0 0 3 (by decide +kernel) (Or.inr (by norm_num)) (by decide +kernel)).1

/-- **excluded point of `nondim_div`** (`m₂ = 0`): the *model* over a field returns 0 there, through
`x / 0 = 0` on both sides; this is not what the code does (`ZeroDivisionError` / `inf`, recorded by the
probe), which is why the theorem carries `m₂ ≠ 0`. -/
theorem nondim_div_excluded :
    nondim sc0 u0 0 = some 0 ∧
    nondim sc0 (u0.div u0) ((11 / 3 : ℚ) / 0) = some 0 ∧ ((275 / 16 : ℚ) / 0) = 0 := by
  decide +kernel

/-- **excluded point of `nondim_pow`** (`m = 0`, `n < 0`): `0⁻¹ = 0` on both sides in the model, while
the code raises / returns `inf`. -/
theorem nondim_pow_excluded :
    nondim sc0 (u0.pow (-1)) ((0 : ℚ) ^ (-1 : ℤ)) = some 0 ∧ ((0 : ℚ) ^ (-1 : ℤ)) = 0 := by
  refine ⟨?_, by norm_num⟩
  have : ((0 : ℚ) ^ (-1 : ℤ)) = 0 := by norm_num
  rw [this]
  decide +kernel

/-- **`ScaleOK` is necessary for `factor_add`** (and the only reason `factor_neg` would hold at a zero
scale is `0⁻¹ = 0`): with the scale `0` for the first dimension, `factor [1] = 0`,
`factor [-1] = 0⁻¹ = 0`, but `factor ([1] + [-1]) = 1 ≠ 0 · 0`. -/
theorem factor_add_scaleOK_necessary :
    factor [some (0 : ℚ)] [1] = some 0 ∧ factor [some (0 : ℚ)] (dneg [1]) = some 0 ∧
    factor [some (0 : ℚ)] (dadd [1] (dneg [1])) = some 1 ∧
    factor [some (0 : ℚ)] (dadd [1] (dneg [1])) ≠ some (0 * 0) := by
  decide +kernel

/-! ### non-vacuity of the affine part: 25 °C = 298.15 K = 77 °F under a temperature scale of 32 K -/

/-- dimension vector of a temperature (the harness orders the base dimensions alphabetically:
current, length, luminosity, mass, printing_unit, substance, temperature, time) -/
def tempDim : List ℤ := [0, 0, 0, 0, 0, 0, 1]
/-- `Scale(3 length units, 2 mass units, 32 K)` -/
def scT : List (Option ℚ) := [none, some 3, none, some 2, none, none, some 32]
/-- kelvin as an affine unit (offset 0) -/
def kelvinU : AffUnit ℚ := AffUnit.ofUnit ⟨1, tempDim⟩
/-- pint: `degree_Celsius = kelvin; offset: 273.15` -/
def degC : AffUnit ℚ := ⟨1, 5463 / 20, tempDim⟩
/-- pint: `degree_Fahrenheit = 5 / 9 * kelvin; offset: 233.15 + 200 / 9` -/
def degF : AffUnit ℚ := ⟨5 / 9, 45967 / 180, tempDim⟩

theorem scaleOK_scT : ScaleOK scT := by
  intro q hq
  simp only [scT, List.mem_cons, Option.some.injEq, reduceCtorEq, List.not_mem_nil, or_false,
    false_or] at hq
  rcases hq with rfl | rfl | rfl <;> norm_num

theorem covers_scT : covers scT tempDim = true := by decide +kernel

example : degC.toBase 25 = 5963 / 20 ∧ degF.toBase 77 = 5963 / 20 ∧ kelvinU.toBase (5963 / 20) = 5963 / 20 := by
  decide +kernel
example : convertAff degC degF 25 = 77 ∧ convertAff degF degC 77 = 25 ∧ convertAff degC degF (-40) = -40 ∧
    convertAff kelvinU degC 0 = -5463 / 20 := by decide +kernel
example : nondimAff scT degC 25 = some (5963 / 640) ∧ nondimAff scT degF 77 = some (5963 / 640) ∧
    nondimAff scT kelvinU (5963 / 20) = some (5963 / 640) := by decide +kernel
example : dimensionalizeAff scT degC (5963 / 640) = some 25 ∧ dimensionalizeAff scT degF (5963 / 640) = some 77 ∧
    dimensionalizeAff scT kelvinU (5963 / 640) = some (5963 / 20) := by decide +kernel
/-- a scale that does not cover the temperature raises -/
example : nondimAff [none, some (3 : ℚ)] degC 25 = none ∧ dimensionalizeAff [none, some (3 : ℚ)] degF 1 = none := by
  decide +kernel

/-- the theorems applied: (a) degC → nondim → degF is the conversion 25 °C → 77 °F -/
example : ∃ v, nondimAff scT degC 25 = some v ∧ dimensionalizeAff scT degF v = some 77 := by
  obtain ⟨v, h1, h2, _⟩ := dimensionalizeAff_nondimAff scaleOK_scT degC degF (by norm_num [degF])
    (fun _ => rfl) covers_scT 25
  exact ⟨v, h1, by rw [h2]; decide +kernel⟩
/-- (a) with the same unit, on degF -/
example : ∃ v, nondimAff scT degF 77 = some v ∧ dimensionalizeAff scT degF v = some 77 :=
  dimensionalizeAff_nondimAff_same scaleOK_scT degF (by norm_num [degF]) covers_scT 77
/-- (b) on degC -/
example : ∃ q, dimensionalizeAff scT degC (5963 / 640) = some q ∧ nondimAff scT degC q = some (5963 / 640) :=
  nondimAff_dimensionalizeAff scaleOK_scT degC (by norm_num [degC]) covers_scT _
/-- (c) 25 °C and 77 °F are the same quantity -/
example : nondimAff scT degC 25 = nondimAff scT degF 77 :=
  nondimAff_unit_independent scT degC degF 25 77 (fun _ => rfl) (by decide +kernel)
/-- (c) `dimensionalize(v, degC).to(degF) = dimensionalize(v, degF)` -/
example : dimensionalizeAff scT degF (5963 / 640) = some (convertAff degC degF 25) :=
  (dimensionalizeAff_unit_independent scT degC degF (by norm_num [degC]) (by norm_num [degF])
    (fun _ => rfl) _ 25 (by decide +kernel)).1

/-- **negative witness**: the variant `value * factor.to(unit).magnitude` (seeded change C18-1) is not
the inverse of `nondimensionalize` on a unit with an offset: 25 °C non-dimensionalises to 298.15/32,
the code's conversion returns 25 °C, the linearised variant returns 9.317… · (32 − 273.15) = −2246.8… °C;
on kelvin (offset 0) the two agree. -/
theorem dimensionalizeLinearised_not_inverse :
    nondimAff scT degC 25 = some (5963 / 640) ∧
    dimensionalizeAff scT degC (5963 / 640) = some 25 ∧
    dimensionalizeLinearised scT degC (5963 / 640) = some (-28759549 / 12800) ∧
    dimensionalizeLinearised scT degC (5963 / 640) ≠ some 25 ∧
    dimensionalizeLinearised scT degF (5963 / 640) ≠ dimensionalizeAff scT degF (5963 / 640) ∧
    dimensionalizeLinearised scT kelvinU (5963 / 640) = dimensionalizeAff scT kelvinU (5963 / 640) := by
  decide +kernel

/-- the general negative statement applied to the same witness -/
example : dimensionalizeLinearised scT degC (5963 / 640) ≠ some 25 :=
  dimensionalizeLinearised_ne scaleOK_scT degC (by norm_num [degC]) (by norm_num [degC]) covers_scT 25 _
    (by decide +kernel) (by norm_num)

/-! ## T18.3 whole-second durations -/

/-- scalar path: a value within half a microsecond of a whole number of seconds comes back as
that number -/
theorem microTrunc_of_near {fl : ℚ → ℚ} (hfl : RoundingModel fl) (s : ℤ) (hs : |s| < 2 ^ 53)
    (dt : ℚ) (h : |dt - s| < 1 / 2000000) : tdScalar fl dt = s := by
  have hr : roundHalfEven (dt * micro) = s * 1000000 := by
    apply roundHalfEven_eq_of_close
    have : dt * micro - ((s * 1000000 : ℤ) : ℚ) = (dt - s) * 1000000 := by
      unfold micro; push_cast; ring
    rw [this, abs_mul]
    norm_num
    linarith
  unfold tdScalar
  rw [hr]
  have : (((s * 1000000 : ℤ) : ℚ)) / micro = s := by unfold micro; push_cast; field_simp
  rw [this, hfl.exactInt s hs, truncRat_intCast]

/-- array path: if the rounded product with `1e6` is within 1/2 of `s · 10⁶`, the result is `s` -/
theorem microTruncArray_of_near {fl : ℚ → ℚ} (hfl : RoundingModel fl) (s : ℤ) (hs : |s| < 2 ^ 53)
    (dt : ℚ) (h : |fl (dt * micro) - (s * 1000000 : ℤ)| < 1 / 2) : tdArray fl dt = s := by
  unfold tdArray
  rw [roundHalfEven_eq_of_close _ _ h]
  have : (((s * 1000000 : ℤ) : ℚ)) / micro = s := by unfold micro; push_cast; field_simp
  rw [this, hfl.exactInt s hs, truncRat_intCast]

theorem E2_bound : E 2 * 1000000000 < 1 / 2000000 := by norm_num [E, u53]
theorem E3_bound : E 3 * 1000000000000000 < 1 / 2 := by norm_num [E, u53]
theorem E7_bound : E 7 * 1000000000000 < 1 / 2 := by norm_num [E, u53]

/-- **T18.3** under the rounding model every whole-second duration `|s| ≤ 10⁹` (31 years) survives
`dimensionalize_timedelta64 (nondimensionalize_timedelta64 s)`, for every time scale, on the scalar
and on the array path. -/
theorem timedelta_roundtrip {fl : ℚ → ℚ} (hfl : RoundingModel fl) (T : ℚ) (hT : T ≠ 0) (s : ℤ)
    (hs : |s| ≤ 10 ^ 9) :
    tdScalar fl (tdSeconds fl T (tdNondim fl T s)) = s ∧
    tdArray fl (tdSeconds fl T (tdNondim fl T s)) = s := by
  have hs53 : |s| < 2 ^ 53 := lt_of_le_of_lt hs (by norm_num)
  have hsq : |(s : ℚ)| ≤ 1000000000 := by
    rw [← Int.cast_abs]; exact_mod_cast hs
  unfold tdSeconds tdNondim
  rw [hfl.exactInt s hs53]
  have h1 : Rel (E 1) (fl ((s : ℚ) / T)) (s / T) := Rel.fl0 hfl _
  have h2 : Rel (E 2) (fl (fl ((s : ℚ) / T) * T)) s := by
    have := (h1.mul_const T).fl hfl
    rwa [div_mul_cancel₀ _ hT] at this
  constructor
  · apply microTrunc_of_near hfl s hs53
    refine lt_of_le_of_lt h2 (lt_of_le_of_lt ?_ E2_bound)
    exact mul_le_mul_of_nonneg_left hsq (E_nonneg 2)
  · apply microTruncArray_of_near hfl s hs53
    have h3 : Rel (E 3) (fl (fl (fl ((s : ℚ) / T) * T) * micro)) ((s : ℚ) * micro) :=
      (h2.mul_const micro).fl hfl
    have e : ((s * 1000000 : ℤ) : ℚ) = (s : ℚ) * micro := by unfold micro; push_cast; ring
    rw [e]
    refine lt_of_le_of_lt h3 (lt_of_le_of_lt ?_ E3_bound)
    rw [abs_mul]
    have : |micro| = 1000000 := by unfold micro; norm_num
    rw [this]
    have := mul_le_mul_of_nonneg_left hsq (E_nonneg 3)
    nlinarith [E_nonneg 3]

/-- in exact arithmetic every whole-second duration survives, without any bound -/
theorem timedelta_roundtrip_exact (T : ℚ) (hT : T ≠ 0) (s : ℤ) :
    tdScalar id (tdSeconds id T (tdNondim id T s)) = s ∧
    tdArray id (tdSeconds id T (tdNondim id T s)) = s := by
  have e : ((s : ℚ) * micro) = ((s * 1000000 : ℤ) : ℚ) := by unfold micro; push_cast; ring
  have e2 : (((s * 1000000 : ℤ) : ℚ)) / micro = s := by unfold micro; push_cast; field_simp
  simp only [tdSeconds, tdNondim, tdScalar, tdArray, id, div_mul_cancel₀ _ hT, e,
    roundHalfEven_intCast, e2, truncRat_intCast, and_self]

/-- IEEE round-to-nearest-even to 53 bits (the function the model is executed with) satisfies the
rounding model: the hypothesis of T18.3/T18.4 is not vacuous -/
theorem fl0_relErr : (∀ x : ℚ, |fl53 x - x| ≤ 1 / 2 ^ 53 * |x|) ∧
    (∀ n : ℤ, |n| < 2 ^ 53 → fl53 n = n) ∧ RoundingModel fl53 :=
  ⟨roundingModel_fl53.relErr, roundingModel_fl53.exactInt, roundingModel_fl53⟩

/-- the time scale of `DEFAULT_SCALE`, `1 / (2 · 7.292e-5) s`, as the double it is -/
def T0 : ℚ := 7539163657268239 / 1099511627776
/-- `fl(27 / T0)` -/
def v0 : ℚ := 4539835950260289 / 1152921504606846976
/-- `fl(v0 · T0) = 26.999999999999996…` -/
def d0 : ℚ := 7599824371187711 / 281474976710656

/-- **negative witness** for the code before commit 35952ac (`int(dt)` / `astype` directly):
27 s under the default scale comes back as 26 s; the repaired conversion returns 27 s. -/
theorem old_truncation_loses_second :
    tdNondim fl53 T0 27 = v0 ∧ tdSeconds fl53 T0 v0 = d0 ∧ tdOld d0 = 26 ∧
    tdScalar fl53 d0 = 27 ∧ tdArray fl53 d0 = 27 := by
  decide +kernel


/-! ### non-vacuity of T18.3 / T18.4: the theorems applied to the executed rounding function -/

example : tdScalar fl53 (tdSeconds fl53 T0 (tdNondim fl53 T0 27)) = 27 :=
  (timedelta_roundtrip roundingModel_fl53 T0 (by norm_num [T0]) 27 (by norm_num)).1
example : tdArray fl53 (tdSeconds fl53 T0 (tdNondim fl53 T0 (-86400))) = -86400 :=
  (timedelta_roundtrip roundingModel_fl53 T0 (by norm_num [T0]) (-86400) (by norm_num)).2


/-! ## T18.4 datetimes at minute resolution -/

theorem datetime_minutes_roundtrip {fl : ℚ → ℚ} (hfl : RoundingModel fl) (T : ℚ) (hT : T ≠ 0)
    (uph : ℕ) (huph : 0 < uph) (dl m : ℤ) (hm : m * uph = 60 * dl) (hb : |m| ≤ 10 ^ 12) :
    dtMinutes fl T (dtNondim fl T uph dl) = m := by
  have hmq : |(m : ℚ)| ≤ 1000000000000 := by
    rw [← Int.cast_abs]; exact_mod_cast hb
  have hu : (uph : ℚ) ≠ 0 := by exact_mod_cast huph.ne'
  have hmq' : (m : ℚ) * uph = 60 * dl := by exact_mod_cast hm
  unfold dtMinutes dtNondim
  have a0 : Rel (E 1) (fl (dl : ℚ)) dl := Rel.fl0 hfl _
  have a1 := (a0.div_const (uph : ℚ)).fl hfl
  have a2 := (a1.div_const T).fl hfl
  have a3 := (a2.mul_const 3600).fl hfl
  have b1 := (a3.mul_const T).fl hfl
  have c : Rel (E 1) (fl (1 / 60)) (1 / 60) := Rel.fl0 hfl _
  have b2 := (b1.mul c).fl hfl
  have e : (dl : ℚ) / uph / T * 3600 * T * (1 / 60) = m := by
    field_simp
    linarith
  rw [e] at b2
  refine Rel.round_eq b2 (lt_of_le_of_lt ?_ E7_bound)
  exact mul_le_mul_of_nonneg_left hmq (E_nonneg 7)

/-- **T18.4** a stamp that is a whole number `m` of minutes from the reference (`cnt = refc + m * upm`,
`upm` counts per minute, `|m| ≤ 10¹²`) survives `nondim_time_to_datetime64 ∘ datetime64_to_nondim_time`.
Any other stamp is rounded to whole minutes *from the reference*: `datetime_roundtrip_off_minute`. -/
theorem datetime_roundtrip {fl : ℚ → ℚ} (hfl : RoundingModel fl) (T : ℚ) (hT : T ≠ 0)
    (upm : ℕ) (hupm : 0 < upm) (refc m : ℤ) (hb : |m| ≤ 10 ^ 12) :
    dtRoundtrip fl T upm refc (refc + m * upm) = refc + m * upm := by
  unfold dtRoundtrip
  rw [datetime_minutes_roundtrip hfl T hT (60 * upm) (by omega) (refc + m * upm - refc) m
    (by push_cast; ring) hb]

/-- **negative witness: `datetime_roundtrip` needs stamps a whole number of minutes from the
reference.**  With a reference at 00:00:30 (count 30 in seconds) the stamp 00:01:00 (count 60, half a
minute later) comes back as 00:00:30 and 00:02:00 (count 120) as 00:02:30: `nondim_time_to_datetime64`
rounds the elapsed time to whole minutes (half to even) *from the reference*. -/
theorem datetime_roundtrip_off_minute :
    dtRoundtrip fl53 T0 60 30 60 = 30 ∧ dtRoundtrip fl53 T0 60 30 120 = 150 ∧
    dtRoundtrip fl53 T0 60 30 90 = 90 := by
  decide +kernel

/-! ## T18.5 orbital phases -/

section Ordered
variable {K : Type} [Field K] [LinearOrder K] [IsStrictOrderedRing K] [FloorRing K]

theorem reduce_mem_Ico (p x : K) (hp : 0 < p) : reduce floorK p x ∈ Set.Ico 0 p := by
  rw [reduce_eq]
  have h1 := Int.floor_le (x / p)
  have h2 := Int.lt_floor_add_one (x / p)
  rw [le_div_iff₀ hp] at h1
  rw [div_lt_iff₀ hp] at h2
  constructor <;> linarith

omit [IsStrictOrderedRing K] in
theorem reduce_congr (p x : K) : ∃ k : ℤ, reduce floorK p x = x - k * p :=
  ⟨⌊x / p⌋, reduce_eq p x⟩

theorem reduce_add_period (p x : K) (hp : p ≠ 0) (k : ℤ) :
    reduce floorK p (x + k * p) = reduce floorK p x := by
  rw [reduce_eq, reduce_eq]
  have : (x + k * p) / p = x / p + k := by field_simp
  rw [this, Int.floor_add_intCast]
  push_cast
  ring

theorem reduce_unique (p x y : K) (hp : 0 < p) (hy : y ∈ Set.Ico 0 p) (k : ℤ) (hk : y = x - k * p) :
    y = reduce floorK p x := by
  have hx : x = y + k * p := by rw [hk]; ring
  rw [hx, reduce_add_period p y hp.ne' k, reduce_eq]
  have : ⌊y / p⌋ = 0 := by
    rw [Int.floor_eq_iff]
    constructor
    · simpa using div_nonneg hy.1 hp.le
    · simpa using (div_lt_one hp).2 hy.2
  rw [this]; simp

theorem reduce_idem (p x : K) (hp : 0 < p) :
    reduce floorK p (reduce floorK p x) = reduce floorK p x :=
  (reduce_unique p _ _ hp (reduce_mem_Ico p x hp) 0 (by simp)).symm

theorem timeToOrbital_mem_Ico (p ref rate t : K) (hp : 0 < p) :
    timeToOrbital floorK p ref rate t ∈ Set.Ico 0 p :=
  reduce_mem_Ico p _ hp

theorem timeToOrbital_elapsed (p ref rate t dt : K) (hp : 0 < p) :
    timeToOrbital floorK p ref rate (t + dt)
      = reduce floorK p (timeToOrbital floorK p ref rate t + rate * dt) := by
  unfold timeToOrbital
  obtain ⟨k, hk⟩ := reduce_congr p (ref + rate * t)
  rw [hk]
  have : ref + rate * t - k * p + rate * dt = (ref + rate * (t + dt)) + ((-k : ℤ) : K) * p := by
    push_cast; ring
  rw [this, reduce_add_period p _ hp.ne']

theorem timeToOrbital_period (p ref rate t P : K) (hp : p ≠ 0) (n : ℤ) (hP : rate * P = n * p) :
    timeToOrbital floorK p ref rate (t + P) = timeToOrbital floorK p ref rate t := by
  unfold timeToOrbital
  have : ref + rate * (t + P) = (ref + rate * t) + n * p := by rw [← hP]; ring
  rw [this, reduce_add_period p _ hp]

end Ordered

theorem orbital_phase_real (ref rate t : ℝ) :
    timeToOrbital floorK (2 * Real.pi) ref rate t ∈ Set.Ico 0 (2 * Real.pi) ∧
    (∃ k : ℤ, timeToOrbital floorK (2 * Real.pi) ref rate t = ref + rate * t - k * (2 * Real.pi)) ∧
    Real.cos (timeToOrbital floorK (2 * Real.pi) ref rate t) = Real.cos (ref + rate * t) ∧
    Real.sin (timeToOrbital floorK (2 * Real.pi) ref rate t) = Real.sin (ref + rate * t) := by
  have hp : (0 : ℝ) < 2 * Real.pi := by positivity
  obtain ⟨k, hk⟩ := reduce_congr (2 * Real.pi) (ref + rate * t)
  refine ⟨timeToOrbital_mem_Ico _ _ _ _ hp, ⟨k, hk⟩, ?_, ?_⟩
  · unfold timeToOrbital; rw [hk, Real.cos_sub_int_mul_two_pi]
  · unfold timeToOrbital; rw [hk, Real.sin_sub_int_mul_two_pi]

/-! ### T18.5 in double arithmetic: the half-open interval is *not* kept

`reduceFl` / `timeToOrbitalFl` are the reduction executed operation by operation on doubles (exact
floor, rounded product, rounded difference; compared bit for bit with the eager implementation by the
harness).  Under the rounding model the reduced phase stays within `ε = u (|x| (1+u) + p (2+u))`,
`u = 2⁻⁵³`, of the exact reduced phase, hence in `[-ε, p + ε)` — and this cannot be improved to
`[0, p)`: `timeToOrbitalFl_fl53_exceeds_period` is a realistic model time whose synodic phase comes out
8 ulp *above* `fl(2π)`, `reduceFl_fl53_closed_end` a tiny negative argument that is reduced to `fl(2π)`
itself. -/

theorem reduceFl_id (p x : ℚ) : reduceFl id p x = reduce floorK p x := rfl

/-- the rounded reduction is within `u ((1+u)(|x|+p) + p)` of the exact one -/
theorem reduceFl_close {fl : ℚ → ℚ} (hfl : RoundingModel fl) (p x : ℚ) (hp : 0 < p) :
    |reduceFl fl p x - reduce floorK p x| ≤ u53 * ((1 + u53) * (|x| + p) + p) := by
  have hmem := reduce_mem_Ico p x hp
  rw [reduce_eq] at hmem ⊢
  unfold reduceFl
  rw [ratFloor_eq]
  set Q : ℚ := ((⌊x / p⌋ : ℤ) : ℚ) * p with hQ
  have hu := u53_pos
  have hQabs : |Q| ≤ |x| + p := by
    have h1 : Q = x - (x - Q) := by ring
    rw [h1]
    refine (abs_sub _ _).trans ?_
    have : |x - Q| ≤ p := by rw [abs_of_nonneg hmem.1]; exact hmem.2.le
    linarith
  have ha : |fl Q - Q| ≤ u53 * |Q| := hfl.relErr Q
  have hr : |fl (x - fl Q) - (x - fl Q)| ≤ u53 * |x - fl Q| := hfl.relErr _
  have hr2 : |x - fl Q| ≤ p + u53 * |Q| := by
    have h1 : x - fl Q = (x - Q) - (fl Q - Q) := by ring
    rw [h1]
    refine (abs_sub _ _).trans ?_
    have : |x - Q| ≤ p := by rw [abs_of_nonneg hmem.1]; exact hmem.2.le
    linarith
  have h3 : fl (x - fl Q) - (x - Q) = (fl (x - fl Q) - (x - fl Q)) - (fl Q - Q) := by ring
  rw [h3]
  refine (abs_sub _ _).trans ?_
  have h4 : u53 * |x - fl Q| ≤ u53 * (p + u53 * |Q|) := mul_le_mul_of_nonneg_left hr2 hu.le
  have h5 : u53 * |Q| ≤ u53 * (|x| + p) := mul_le_mul_of_nonneg_left hQabs hu.le
  have h6 : u53 * (u53 * |Q|) ≤ u53 * (u53 * (|x| + p)) := mul_le_mul_of_nonneg_left h5 hu.le
  nlinarith

/-- **range of the reduced phase in double arithmetic**: `[-ε, p + ε)` with
`ε = u ((1+u)(|x|+p) + p)`, `u = 2⁻⁵³` -/
theorem reduceFl_mem {fl : ℚ → ℚ} (hfl : RoundingModel fl) (p x : ℚ) (hp : 0 < p) :
    -(u53 * ((1 + u53) * (|x| + p) + p)) ≤ reduceFl fl p x ∧
    reduceFl fl p x < p + u53 * ((1 + u53) * (|x| + p) + p) := by
  have h := abs_le.1 (reduceFl_close hfl p x hp)
  have hmem := reduce_mem_Ico p x hp
  constructor
  · linarith [h.1, hmem.1]
  · linarith [h.2, hmem.2]

/-- the same for `time_to_orbital_time` on doubles, with `x = fl(ref + fl(rate · t))` the unreduced
phase as the code computes it -/
theorem timeToOrbitalFl_mem {fl : ℚ → ℚ} (hfl : RoundingModel fl) (p ref rate t : ℚ) (hp : 0 < p) :
    -(u53 * ((1 + u53) * (|fl (ref + fl (rate * t))| + p) + p)) ≤ timeToOrbitalFl fl p ref rate t ∧
    timeToOrbitalFl fl p ref rate t < p + u53 * ((1 + u53) * (|fl (ref + fl (rate * t))| + p) + p) :=
  reduceFl_mem hfl p _ hp

/-- in exact arithmetic it is the reduction of T18.5 -/
theorem timeToOrbitalFl_id (p ref rate t : ℚ) :
    timeToOrbitalFl id p ref rate t = timeToOrbital floorK p ref rate t := rfl

/-- the double `2 * jnp.pi` -/
def twoPi64 : ℚ := 884279719003555 / 140737488355328
/-- the synodic rate of `SolarRadiation` under `DEFAULT_SCALE` (`2π / day`), as the double it is -/
def rateS : ℚ := 8982748410267517 / 18014398509481984
/-- model time of 1979-01-24T00:00 with the reference 1979-01-01T00:00 under `DEFAULT_SCALE`
(`289.813248`, 23 days), as the double it is -/
def t23 : ℚ := 5098448576952473 / 17592186044416

/-- **negative witness on the real doubles** (reference at midnight, so the reference phase is 0): the
synodic phase of day 23 is `fl(2π) + 8 ulp > 2π` in double arithmetic, while the exact reduction of the
same unreduced double is below the period. -/
theorem timeToOrbitalFl_fl53_exceeds_period :
    fl53 (0 + fl53 (rateS * t23)) = 5084608384270441 / 35184372088832 ∧
    timeToOrbitalFl fl53 twoPi64 0 rateS t23 = 221069929750889 / 35184372088832 ∧
    twoPi64 < timeToOrbitalFl fl53 twoPi64 0 rateS t23 ∧
    timeToOrbitalFl fl53 twoPi64 0 rateS t23 - twoPi64 = 8 * (1 / 2 ^ 50) ∧
    reduceFl id twoPi64 (5084608384270441 / 35184372088832) < twoPi64 := by
  decide +kernel

/-- **negative witness**: a tiny negative unreduced phase is reduced to `fl(2π)` itself (closed end) -/
theorem reduceFl_fl53_closed_end :
    reduceFl fl53 twoPi64 (-1 / 10 ^ 20) = twoPi64 ∧ reduce floorK twoPi64 (-1 / 10 ^ 20 : ℚ) < twoPi64 := by
  decide +kernel

/-- non-vacuity: the bound applied to the executed rounding function on the witness -/
example : timeToOrbitalFl fl53 twoPi64 0 rateS t23 <
    twoPi64 + u53 * ((1 + u53) * (|fl53 (0 + fl53 (rateS * t23))| + twoPi64) + twoPi64) :=
  (timeToOrbitalFl_mem roundingModel_fl53 twoPi64 0 rateS t23 (by norm_num [twoPi64])).2

/-! ### calendar -/

theorem daysInYear_eq (y : ℕ) : daysInYear y = if isLeap y then 366 else 365 := by
  unfold daysInYear dayOfYear daysBeforeMonth
  cases isLeap y <;> simp

theorem dayOfYear_le (y m d h mi : ℕ) (hv : validDateTime y m d h mi = true) :
    1 ≤ dayOfYear y m d ∧ dayOfYear y m d ≤ daysInYear y ∧ h < 24 ∧ mi < 60 := by
  simp only [validDateTime, Bool.and_eq_true, decide_eq_true_eq] at hv
  obtain ⟨⟨⟨⟨⟨⟨⟨hy1, hy2⟩, hm1⟩, hm2⟩, hd1⟩, hd2⟩, hh⟩, hmi⟩ := hv
  refine ⟨by unfold dayOfYear; omega, ?_, hh, hmi⟩
  rw [daysInYear_eq]
  unfold dayOfYear daysBeforeMonth
  unfold daysInMonth at hd2
  have hl : isLeap y = true ∨ isLeap y = false := by cases isLeap y <;> simp
  interval_cases m <;> rcases hl with hl | hl <;> simp [hl] at hd2 ⊢ <;> omega

section Ordered2
variable {K : Type} [Field K] [LinearOrder K] [IsStrictOrderedRing K]

theorem datetimeToOrbital_mem_Ico (twoPi : K) (hp : 0 < twoPi) (y m d h mi : ℕ)
    (hv : validDateTime y m d h mi = true) :
    (datetimeToOrbital twoPi y m d h mi).1 ∈ Set.Ico 0 twoPi ∧
    (datetimeToOrbital twoPi y m d h mi).2 ∈ Set.Ico 0 twoPi := by
  obtain ⟨h1, h2, hh, hmi⟩ := dayOfYear_le y m d h mi hv
  have hdiy : 0 < daysInYear y := by omega
  simp only [datetimeToOrbital, natK_eq]
  have hfd0 : (0 : K) ≤ ((60 * h + mi : ℕ) : K) / (1440 : ℕ) := by positivity
  have hfd1 : ((60 * h + mi : ℕ) : K) / (1440 : ℕ) < 1 := by
    rw [div_lt_one (by norm_num)]
    have : 60 * h + mi < 1440 := by omega
    exact_mod_cast this
  have hdK : (0 : K) < (daysInYear y : K) := by exact_mod_cast hdiy
  have hfy0 : (0 : K) ≤ (((dayOfYear y m d - 1 : ℕ) : K) + ((60 * h + mi : ℕ) : K) / (1440 : ℕ))
      / (daysInYear y : K) := by positivity
  have hfy1 : (((dayOfYear y m d - 1 : ℕ) : K) + ((60 * h + mi : ℕ) : K) / (1440 : ℕ))
      / (daysInYear y : K) < 1 := by
    rw [div_lt_one hdK]
    have : ((dayOfYear y m d - 1 : ℕ) : K) + 1 ≤ (daysInYear y : K) := by
      have : dayOfYear y m d - 1 + 1 ≤ daysInYear y := by omega
      exact_mod_cast this
    linarith
  refine ⟨⟨by positivity, ?_⟩, ⟨by positivity, ?_⟩⟩
  · calc twoPi * _ < twoPi * 1 := by gcongr
      _ = twoPi := mul_one _
  · calc twoPi * _ < twoPi * 1 := by gcongr
      _ = twoPi := mul_one _

end Ordered2


/-! ### non-vacuity of T18.4 / T18.5 -/

/-- a stamp 45 years after the reference, counted in seconds -/
example : dtRoundtrip fl53 T0 60 283996800 (283996800 + 23667840 * (60 : ℕ))
    = 283996800 + 23667840 * (60 : ℕ) :=
  datetime_roundtrip roundingModel_fl53 T0 (by norm_num [T0]) 60 (by norm_num) _ 23667840
    (by norm_num)
example : (3 : ℚ) = reduce floorK 7 24 :=
  reduce_unique 7 24 3 (by norm_num) ⟨by norm_num, by norm_num⟩ 3 (by norm_num)
example : validDateTime 2000 2 29 23 59 = true ∧ dayOfYear 2000 2 29 = 60 ∧ daysInYear 2000 = 366 ∧
    validDateTime 1900 2 29 0 0 = false := by decide

end Dino.C18
